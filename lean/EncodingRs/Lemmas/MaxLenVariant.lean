import EncodingRs.Lemmas.MaxLenFam2
import EncodingRs.Lemmas.MaxLenFam5
import EncodingRs.Model.MaxLen
/-!
# C07 (decoder half, variant level): the `max_*_buffer_length*` queries are sufficient

For every variant decoder `famOfVariant v` (the 40 encodings of `Gen.encodings` are instances):
the three potentials, the link "query value ≥ potential", and the headline theorems

* `variant_raw_sufficient`: a raw (`*_without_replacement`) call whose destination is at least the
  value the matching query returned in the current state never returns `OutputFull`;
* `variant_repl_sufficient`: the same for the with-replacement loop, however many errors it replaces;
* `variant_inv_reachable`: the state invariant the two theorems assume holds in every state reached
  by any history of calls from the initial state;
* `variantMax_le_usizeMax`: a query never returns a wrapped number.
-/
namespace EncodingRs.Lemmas.MaxLenVariant
open EncodingRs EncodingRs.Model EncodingRs.Lemmas.Potential EncodingRs.Lemmas.MaxLenArith
open EncodingRs.Lemmas.MaxLenFam EncodingRs.Lemmas.FamLaws EncodingRs.Gen.MaxLen

/-! ### the potentials of every variant -/

/-- `max_utf16_buffer_length` (decode to UTF-16, with or without replacement) -/
def variantPot16 : (v : Gen.Variant) → Potential (famOfVariant v) .utf16 true
  | .singleByte t _ _ _ => singleBytePot16 _ (gen_tables_bmp t)
  | .utf8 => utf8Pot16
  | .gbk => gbPot16
  | .gb18030 => gbPot16
  | .big5 => big5Pot16
  | .eucJp => eucJpPot16
  | .iso2022Jp => isoPot16
  | .shiftJis => shiftJisPot16
  | .eucKr => eucKrPot16
  | .replacement => replacementPot16
  | .utf16Be => utf16Pot16 true
  | .utf16Le => utf16Pot16 false
  | .userDefined => userDefinedPot16

/-- `max_utf8_buffer_length` (decode to UTF-8 with replacement) -/
def variantPot8 : (v : Gen.Variant) → Potential (famOfVariant v) .utf8 true
  | .singleByte t _ _ _ => singleBytePot8 _ (gen_tables_bmp t)
  | .utf8 => utf8Pot8
  | .gbk => gbPot8 true
  | .gb18030 => gbPot8 true
  | .big5 => big5Pot8
  | .eucJp => eucJpPot8
  | .iso2022Jp => isoPot8 true
  | .shiftJis => shiftJisPot8 true
  | .eucKr => eucKrPot8
  | .replacement => replacementPot8
  | .utf16Be => utf16Pot8 true true
  | .utf16Le => utf16Pot8 false true
  | .userDefined => userDefinedPot8

/-- `max_utf8_buffer_length_without_replacement` (decode to UTF-8 without replacement) -/
def variantPot8N : (v : Gen.Variant) → Potential (famOfVariant v) .utf8 false
  | .singleByte t _ _ _ => singleBytePot8N _ (gen_tables_bmp t)
  | .utf8 => utf8Pot8N
  | .gbk => gbPot8 false
  | .gb18030 => gbPot8 false
  | .big5 => big5Pot8N
  | .eucJp => eucJpPot8N
  | .iso2022Jp => isoPot8 false
  | .shiftJis => shiftJisPot8 false
  | .eucKr => eucKrPot8N
  | .replacement => replacementPot8N
  | .utf16Be => utf16Pot8 true false
  | .utf16Le => utf16Pot8 false false
  | .userDefined => userDefinedPot8N

/-- the state invariant (the same for the three potentials of a variant) -/
def variantInv (v : Gen.Variant) : (famOfVariant v).σ → Prop := (variantPot16 v).Inv

theorem variantPot8_inv (v : Gen.Variant) : (variantPot8 v).Inv = variantInv v := by cases v <;> rfl
theorem variantPot8N_inv (v : Gen.Variant) : (variantPot8N v).Inv = variantInv v := by cases v <;> rfl

theorem variantInv_init (v : Gen.Variant) : variantInv v (famOfVariant v).init := by
  cases v with
  | singleByte t a b c => exact trivial
  | utf8 => exact Or.inl ⟨rfl, rfl, rfl, rfl, rfl⟩
  | gbk => exact ⟨trivial, by intro x h; cases h⟩
  | gb18030 => exact ⟨trivial, by intro x h; cases h⟩
  | big5 => intro l h; cases h
  | eucJp => exact trivial
  | iso2022Jp => exact isoInvB_init
  | shiftJis => intro l h; cases h
  | eucKr => intro l h; cases h
  | replacement => exact trivial
  | utf16Be => exact utf16InvB_init
  | utf16Le => exact utf16InvB_init
  | userDefined => exact trivial

/-! ### query value ≥ potential -/

theorem le_of_chk {f : Option Nat} {v Q x : Nat} (hf : f = U.chk v) (hx : x ≤ v) (h : f = some Q) : x ≤ Q := by
  have := ((of_chk hf).1 Q h).1; omega

theorem le_of_some {f : Option Nat} {v Q x : Nat} (hf : f = some v) (hx : x ≤ v) (h : f = some Q) : x ≤ Q := by
  rw [hf] at h; cases h; exact hx

theorem eucJpPhi16_le (s : EucJpSt) (n : Nat) : eucJpPot16.Φ s n ≤ eucJpUtf16Nat s n := by
  show n + (if eucJpPending s then 1 else 0) ≤ eucJpLenNat s n
  rw [eucJpLenNat_eq]; exact Nat.le_refl _
theorem eucJpPhi8_le (s : EucJpSt) (n : Nat) : eucJpPot8.Φ s n ≤ eucJpUtf8Nat s n := by
  show 3 * (n + (if eucJpPending s then 1 else 0)) ≤ 3 * eucJpLenNat s n
  rw [eucJpLenNat_eq]; exact Nat.le_refl _
theorem eucJpPhi8N_le (s : EucJpSt) (n : Nat) : eucJpPot8N.Φ s n ≤ eucJpUtf8NoReplNat s n := by
  show 2 + ((n + (if eucJpPending s then 1 else 0)) + (1 + (n + (if eucJpPending s then 1 else 0))) / 2)
    ≤ 2 + (eucJpLenNat s n + (1 + eucJpLenNat s n) / 2)
  rw [eucJpLenNat_eq]; exact Nat.le_refl _

theorem variantPot16_le (v : Gen.Variant) (s : (famOfVariant v).σ) (n Q : Nat) (hi : variantInv v s)
    (h : variantMaxUtf16 v s n = some Q) : (variantPot16 v).Φ s n ≤ Q := by
  cases v with
  | singleByte t a b c => exact le_of_some (singleByteUtf16_eq s n) (Nat.le_refl _) h
  | utf8 => exact le_of_chk (utf8Utf16_eq s n) (Nat.le_refl _) h
  | gbk => exact le_of_chk (gbUtf16_eq s n) (Nat.le_refl _) h
  | gb18030 => exact le_of_chk (gbUtf16_eq s n) (Nat.le_refl _) h
  | big5 => exact le_of_chk (big5Utf16_eq s n) (Nat.le_refl _) h
  | eucJp => exact le_of_chk (eucJpUtf16_eq s n) (eucJpPhi16_le s n) h
  | iso2022Jp => exact le_of_chk (isoUtf16_eq s n) (isoW_le s hi n) h
  | shiftJis => exact le_of_chk (shiftJisUtf16_eq s n) (Nat.le_refl _) h
  | eucKr => exact le_of_chk (eucKrUtf16_eq s n) (Nat.le_refl _) h
  | replacement => exact le_of_some (replacementUtf16_eq s n) (replacementPhi_le16 s n) h
  | utf16Be => have := (utf16Utf16_some h).1; exact Nat.le_of_eq this.symm
  | utf16Le => have := (utf16Utf16_some h).1; exact Nat.le_of_eq this.symm
  | userDefined => exact le_of_some (userDefinedUtf16_eq s n) (Nat.le_refl _) h

theorem variantPot8_le (v : Gen.Variant) (s : (famOfVariant v).σ) (n Q : Nat) (hi : variantInv v s)
    (h : variantMaxUtf8 v s n = some Q) : (variantPot8 v).Φ s n ≤ Q := by
  cases v with
  | singleByte t a b c => exact le_of_chk (singleByteUtf8_eq s n) (Nat.le_refl _) h
  | utf8 => exact le_of_chk (utf8Utf8_eq s n) (Nat.le_refl _) h
  | gbk => exact le_of_chk (gbUtf8_eq s n) (Nat.le_refl _) h
  | gb18030 => exact le_of_chk (gbUtf8_eq s n) (Nat.le_refl _) h
  | big5 => exact le_of_chk (big5Utf8_eq s n) (Nat.le_refl _) h
  | eucJp => exact le_of_chk (eucJpUtf8_eq s n) (eucJpPhi8_le s n) h
  | iso2022Jp =>
    refine le_of_chk (isoUtf8_eq s n) ?_ h
    show 3 * (n + isoW s) ≤ 3 * _
    exact Nat.mul_le_mul_left 3 (isoW_le s hi n)
  | shiftJis => exact le_of_chk (shiftJisUtf8_eq s n) (Nat.le_refl _) h
  | eucKr => exact le_of_chk (eucKrUtf8_eq s n) (Nat.le_refl _) h
  | replacement => exact le_of_some (replacementUtf8_eq s n) (replacementPhi_le8 s n) h
  | utf16Be => have := (utf16Utf8_some h).1; exact Nat.le_of_eq this.symm
  | utf16Le => have := (utf16Utf8_some h).1; exact Nat.le_of_eq this.symm
  | userDefined => exact le_of_chk (userDefinedUtf8_eq s n) (Nat.le_refl _) h

theorem variantPot8N_le (v : Gen.Variant) (s : (famOfVariant v).σ) (n Q : Nat) (hi : variantInv v s)
    (h : variantMaxUtf8NoRepl v s n = some Q) : (variantPot8N v).Φ s n ≤ Q := by
  cases v with
  | singleByte t a b c => exact le_of_chk (singleByteUtf8NoRepl_eq s n) (Nat.le_refl _) h
  | utf8 => exact le_of_chk (utf8Utf8NoRepl_eq s n) (Nat.le_refl _) h
  | gbk => exact le_of_chk (gbUtf8NoRepl_eq s n) (Nat.le_refl _) h
  | gb18030 => exact le_of_chk (gbUtf8NoRepl_eq s n) (Nat.le_refl _) h
  | big5 => exact le_of_chk (big5Utf8NoRepl_eq s n) (Nat.le_refl _) h
  | eucJp => exact le_of_chk (eucJpUtf8NoRepl_eq s n) (eucJpPhi8N_le s n) h
  | iso2022Jp =>
    refine le_of_chk (isoUtf8NoRepl_eq s n) ?_ h
    show 3 * (n + isoW s) ≤ 3 * _
    exact Nat.mul_le_mul_left 3 (isoW_le s hi n)
  | shiftJis => exact le_of_chk (shiftJisUtf8NoRepl_eq s n) (Nat.le_refl _) h
  | eucKr => exact le_of_chk (eucKrUtf8NoRepl_eq s n) (Nat.le_refl _) h
  | replacement => exact le_of_some (replacementUtf8NoRepl_eq s n) (replacementPhi_le8N s n) h
  | utf16Be =>
    have h' : utf16MaxUtf8BufferLength s n = some Q := h
    have := (utf16Utf8_some h').1; exact Nat.le_of_eq this.symm
  | utf16Le =>
    have h' : utf16MaxUtf8BufferLength s n = some Q := h
    have := (utf16Utf8_some h').1; exact Nat.le_of_eq this.symm
  | userDefined => exact le_of_chk (userDefinedUtf8NoRepl_eq s n) (Nat.le_refl _) h

/-! ### no wrapped numbers -/

theorem some_le_of_chk {f : Option Nat} {v Q : Nat} (hf : f = U.chk v) (h : f = some Q) : Q ≤ usizeMax :=
  ((of_chk hf).1 Q h).2

/-- whatever a query returns fits `usize` provided the byte length does (the only formulas that do
no checked arithmetic are `Some(byte_length)` and the constants of the replacement decoder) -/
theorem variantMax_le_usizeMax (q : Query) (v : Gen.Variant) (s : (famOfVariant v).σ) (n Q : Nat)
    (hn : n ≤ usizeMax) (h : variantMax q v s n = some Q) : Q ≤ usizeMax := by
  have hM : usizeMax = 18446744073709551615 := rfl
  cases q with
  | utf16 =>
    cases v with
    | singleByte t a b c => have := le_of_some (singleByteUtf16_eq s n) (Nat.le_refl _) h; cases h; exact hn
    | utf8 => exact some_le_of_chk (utf8Utf16_eq s n) h
    | gbk => exact some_le_of_chk (gbUtf16_eq s n) h
    | gb18030 => exact some_le_of_chk (gbUtf16_eq s n) h
    | big5 => exact some_le_of_chk (big5Utf16_eq s n) h
    | eucJp => exact some_le_of_chk (eucJpUtf16_eq s n) h
    | iso2022Jp => exact some_le_of_chk (isoUtf16_eq s n) h
    | shiftJis => exact some_le_of_chk (shiftJisUtf16_eq s n) h
    | eucKr => exact some_le_of_chk (eucKrUtf16_eq s n) h
    | replacement => cases h; rw [hM]; decide
    | utf16Be => exact (utf16Utf16_some h).2.1
    | utf16Le => exact (utf16Utf16_some h).2.1
    | userDefined => cases h; exact hn
  | utf8 =>
    cases v with
    | singleByte t a b c => exact some_le_of_chk (singleByteUtf8_eq s n) h
    | utf8 => exact some_le_of_chk (utf8Utf8_eq s n) h
    | gbk => exact some_le_of_chk (gbUtf8_eq s n) h
    | gb18030 => exact some_le_of_chk (gbUtf8_eq s n) h
    | big5 => exact some_le_of_chk (big5Utf8_eq s n) h
    | eucJp => exact some_le_of_chk (eucJpUtf8_eq s n) h
    | iso2022Jp => exact some_le_of_chk (isoUtf8_eq s n) h
    | shiftJis => exact some_le_of_chk (shiftJisUtf8_eq s n) h
    | eucKr => exact some_le_of_chk (eucKrUtf8_eq s n) h
    | replacement => cases h; rw [hM]; decide
    | utf16Be => exact (utf16Utf8_some h).2.1
    | utf16Le => exact (utf16Utf8_some h).2.1
    | userDefined => exact some_le_of_chk (userDefinedUtf8_eq s n) h
  | utf8NoRepl =>
    cases v with
    | singleByte t a b c => exact some_le_of_chk (singleByteUtf8NoRepl_eq s n) h
    | utf8 => exact some_le_of_chk (utf8Utf8NoRepl_eq s n) h
    | gbk => exact some_le_of_chk (gbUtf8NoRepl_eq s n) h
    | gb18030 => exact some_le_of_chk (gbUtf8NoRepl_eq s n) h
    | big5 => exact some_le_of_chk (big5Utf8NoRepl_eq s n) h
    | eucJp => exact some_le_of_chk (eucJpUtf8NoRepl_eq s n) h
    | iso2022Jp => exact some_le_of_chk (isoUtf8NoRepl_eq s n) h
    | shiftJis => exact some_le_of_chk (shiftJisUtf8NoRepl_eq s n) h
    | eucKr => exact some_le_of_chk (eucKrUtf8NoRepl_eq s n) h
    | replacement => cases h; rw [hM]; decide
    | utf16Be => exact (utf16Utf8_some h).2.1
    | utf16Le => exact (utf16Utf8_some h).2.1
    | userDefined => exact some_le_of_chk (userDefinedUtf8NoRepl_eq s n) h


/-! ### the exact value of every query, and exactly when it is `None` -/

/-- the exact (unbounded natural-number) value of the `utf16` query -/
def variantNatUtf16 : (v : Gen.Variant) → (famOfVariant v).σ → Nat → Nat
  | .singleByte _ _ _ _, s, n => singleByteUtf16Nat s n
  | .utf8, s, n => utf8Utf16Nat s n
  | .gbk, s, n => gbUtf16Nat s n
  | .gb18030, s, n => gbUtf16Nat s n
  | .big5, s, n => big5Utf16Nat s n
  | .eucJp, s, n => eucJpUtf16Nat s n
  | .iso2022Jp, s, n => isoUtf16Nat s n
  | .shiftJis, s, n => shiftJisUtf16Nat s n
  | .eucKr, s, n => eucKrUtf16Nat s n
  | .replacement, s, n => replacementUtf16Nat s n
  | .utf16Be, s, n => utf16Utf16Nat s n
  | .utf16Le, s, n => utf16Utf16Nat s n
  | .userDefined, s, n => userDefinedUtf16Nat s n

/-- the largest intermediate result of the `utf16` query's checked arithmetic (0: no checked arithmetic) -/
def variantOvfUtf16 : (v : Gen.Variant) → (famOfVariant v).σ → Nat → Nat
  | .singleByte _ _ _ _, _, _ => 0
  | .utf8, s, n => utf8Utf16Nat s n
  | .gbk, s, n => gbUtf16Nat s n
  | .gb18030, s, n => gbUtf16Nat s n
  | .big5, s, n => big5Utf16Nat s n
  | .eucJp, s, n => eucJpUtf16Nat s n
  | .iso2022Jp, s, n => isoUtf16Nat s n
  | .shiftJis, s, n => shiftJisUtf16Nat s n
  | .eucKr, s, n => eucKrUtf16Nat s n
  | .replacement, _, _ => 0
  | .utf16Be, s, n => max (utf16SumNat s n) (utf16Utf16Nat s n)
  | .utf16Le, s, n => max (utf16SumNat s n) (utf16Utf16Nat s n)
  | .userDefined, _, _ => 0

/-- the exact (unbounded natural-number) value of the `utf8` query -/
def variantNatUtf8 : (v : Gen.Variant) → (famOfVariant v).σ → Nat → Nat
  | .singleByte _ _ _ _, s, n => singleByteUtf8Nat s n
  | .utf8, s, n => utf8Utf8Nat s n
  | .gbk, s, n => gbUtf8Nat s n
  | .gb18030, s, n => gbUtf8Nat s n
  | .big5, s, n => big5Utf8Nat s n
  | .eucJp, s, n => eucJpUtf8Nat s n
  | .iso2022Jp, s, n => isoUtf8Nat s n
  | .shiftJis, s, n => shiftJisUtf8Nat s n
  | .eucKr, s, n => eucKrUtf8Nat s n
  | .replacement, s, n => replacementUtf8Nat s n
  | .utf16Be, s, n => utf16Utf8Nat s n
  | .utf16Le, s, n => utf16Utf8Nat s n
  | .userDefined, s, n => userDefinedUtf8Nat s n

/-- the largest intermediate result of the `utf8` query's checked arithmetic (0: no checked arithmetic) -/
def variantOvfUtf8 : (v : Gen.Variant) → (famOfVariant v).σ → Nat → Nat
  | .singleByte _ _ _ _, s, n => singleByteUtf8Nat s n
  | .utf8, s, n => utf8Utf8Nat s n
  | .gbk, s, n => gbUtf8Nat s n
  | .gb18030, s, n => gbUtf8Nat s n
  | .big5, s, n => big5Utf8Nat s n
  | .eucJp, s, n => eucJpUtf8Nat s n
  | .iso2022Jp, s, n => isoUtf8Nat s n
  | .shiftJis, s, n => shiftJisUtf8Nat s n
  | .eucKr, s, n => eucKrUtf8Nat s n
  | .replacement, _, _ => 0
  | .utf16Be, s, n => max (utf16SumNat s n) (utf16Utf8Nat s n)
  | .utf16Le, s, n => max (utf16SumNat s n) (utf16Utf8Nat s n)
  | .userDefined, s, n => userDefinedUtf8Nat s n

/-- the exact (unbounded natural-number) value of the `utf8NoRepl` query -/
def variantNatUtf8NoRepl : (v : Gen.Variant) → (famOfVariant v).σ → Nat → Nat
  | .singleByte _ _ _ _, s, n => singleByteUtf8NoReplNat s n
  | .utf8, s, n => utf8Utf8NoReplNat s n
  | .gbk, s, n => gbUtf8NoReplNat s n
  | .gb18030, s, n => gbUtf8NoReplNat s n
  | .big5, s, n => big5Utf8NoReplNat s n
  | .eucJp, s, n => eucJpUtf8NoReplNat s n
  | .iso2022Jp, s, n => isoUtf8NoReplNat s n
  | .shiftJis, s, n => shiftJisUtf8NoReplNat s n
  | .eucKr, s, n => eucKrUtf8NoReplNat s n
  | .replacement, s, n => replacementUtf8NoReplNat s n
  | .utf16Be, s, n => utf16Utf8NoReplNat s n
  | .utf16Le, s, n => utf16Utf8NoReplNat s n
  | .userDefined, s, n => userDefinedUtf8NoReplNat s n

/-- the largest intermediate result of the `utf8NoRepl` query's checked arithmetic (0: no checked arithmetic) -/
def variantOvfUtf8NoRepl : (v : Gen.Variant) → (famOfVariant v).σ → Nat → Nat
  | .singleByte _ _ _ _, s, n => singleByteUtf8NoReplNat s n
  | .utf8, s, n => utf8Utf8NoReplNat s n
  | .gbk, s, n => gbUtf8NoReplNat s n
  | .gb18030, s, n => gbUtf8NoReplNat s n
  | .big5, s, n => big5Utf8NoReplNat s n
  | .eucJp, s, n => eucJpUtf8NoReplNat s n
  | .iso2022Jp, s, n => isoUtf8NoReplNat s n
  | .shiftJis, s, n => shiftJisUtf8NoReplNat s n
  | .eucKr, s, n => eucKrUtf8NoReplNat s n
  | .replacement, _, _ => 0
  | .utf16Be, s, n => max (utf16SumNat s n) (utf16Utf8NoReplNat s n)
  | .utf16Le, s, n => max (utf16SumNat s n) (utf16Utf8NoReplNat s n)
  | .userDefined, s, n => userDefinedUtf8NoReplNat s n

theorem chk_as_if (v : Nat) : U.chk v = if v ≤ usizeMax then some v else none := rfl

theorem plain_as_if (v : Nat) : some v = if 0 ≤ usizeMax then some v else none := by simp

theorem utf16_as_if (sum v : Nat) :
    (if sum ≤ usizeMax then U.chk v else none) = if max sum v ≤ usizeMax then some v else none := by
  unfold U.chk
  by_cases h1 : sum ≤ usizeMax <;> by_cases h2 : v ≤ usizeMax <;> simp [h1, h2, Nat.max_le]

theorem utf16_as_if' (s : Utf16St) (n : Nat) :
    (if utf16SumNat s n ≤ usizeMax then some (utf16Utf16Nat s n) else none)
      = if max (utf16SumNat s n) (utf16Utf16Nat s n) ≤ usizeMax then some (utf16Utf16Nat s n) else none := by
  have hM : usizeMax = 18446744073709551615 := rfl
  have : utf16Utf16Nat s n ≤ usizeMax ∨ usizeMax < utf16SumNat s n := by
    unfold utf16Utf16Nat; omega
  by_cases h1 : utf16SumNat s n ≤ usizeMax
  · have h2 : utf16Utf16Nat s n ≤ usizeMax := by omega
    simp [h1, h2, Nat.max_le]
  · simp [h1, Nat.max_le]

theorem variantMaxUtf16_exact (v : Gen.Variant) (s : (famOfVariant v).σ) (n : Nat) :
    variantMaxUtf16 v s n = if variantOvfUtf16 v s n ≤ usizeMax then some (variantNatUtf16 v s n) else none := by
  cases v with
  | singleByte t a b c => exact plain_as_if _
  | utf8 => exact (utf8Utf16_eq s n).trans (chk_as_if _)
  | gbk => exact (gbUtf16_eq s n).trans (chk_as_if _)
  | gb18030 => exact (gbUtf16_eq s n).trans (chk_as_if _)
  | big5 => exact (big5Utf16_eq s n).trans (chk_as_if _)
  | eucJp => exact (eucJpUtf16_eq s n).trans (chk_as_if _)
  | iso2022Jp => exact (isoUtf16_eq s n).trans (chk_as_if _)
  | shiftJis => exact (shiftJisUtf16_eq s n).trans (chk_as_if _)
  | eucKr => exact (eucKrUtf16_eq s n).trans (chk_as_if _)
  | replacement => exact plain_as_if _
  | utf16Be => exact (utf16Utf16_eq s n).trans (utf16_as_if' s n)
  | utf16Le => exact (utf16Utf16_eq s n).trans (utf16_as_if' s n)
  | userDefined => exact plain_as_if _

theorem variantMaxUtf8_exact (v : Gen.Variant) (s : (famOfVariant v).σ) (n : Nat) :
    variantMaxUtf8 v s n = if variantOvfUtf8 v s n ≤ usizeMax then some (variantNatUtf8 v s n) else none := by
  cases v with
  | singleByte t a b c => exact (singleByteUtf8_eq s n).trans (chk_as_if _)
  | utf8 => exact (utf8Utf8_eq s n).trans (chk_as_if _)
  | gbk => exact (gbUtf8_eq s n).trans (chk_as_if _)
  | gb18030 => exact (gbUtf8_eq s n).trans (chk_as_if _)
  | big5 => exact (big5Utf8_eq s n).trans (chk_as_if _)
  | eucJp => exact (eucJpUtf8_eq s n).trans (chk_as_if _)
  | iso2022Jp => exact (isoUtf8_eq s n).trans (chk_as_if _)
  | shiftJis => exact (shiftJisUtf8_eq s n).trans (chk_as_if _)
  | eucKr => exact (eucKrUtf8_eq s n).trans (chk_as_if _)
  | replacement => exact plain_as_if _
  | utf16Be => exact (utf16Utf8_eq s n).trans (utf16_as_if _ _)
  | utf16Le => exact (utf16Utf8_eq s n).trans (utf16_as_if _ _)
  | userDefined => exact (userDefinedUtf8_eq s n).trans (chk_as_if _)

theorem variantMaxUtf8NoRepl_exact (v : Gen.Variant) (s : (famOfVariant v).σ) (n : Nat) :
    variantMaxUtf8NoRepl v s n = if variantOvfUtf8NoRepl v s n ≤ usizeMax then some (variantNatUtf8NoRepl v s n) else none := by
  cases v with
  | singleByte t a b c => exact (singleByteUtf8NoRepl_eq s n).trans (chk_as_if _)
  | utf8 => exact (utf8Utf8NoRepl_eq s n).trans (chk_as_if _)
  | gbk => exact (gbUtf8NoRepl_eq s n).trans (chk_as_if _)
  | gb18030 => exact (gbUtf8NoRepl_eq s n).trans (chk_as_if _)
  | big5 => exact (big5Utf8NoRepl_eq s n).trans (chk_as_if _)
  | eucJp => exact (eucJpUtf8NoRepl_eq s n).trans (chk_as_if _)
  | iso2022Jp => exact (isoUtf8NoRepl_eq s n).trans (chk_as_if _)
  | shiftJis => exact (shiftJisUtf8NoRepl_eq s n).trans (chk_as_if _)
  | eucKr => exact (eucKrUtf8NoRepl_eq s n).trans (chk_as_if _)
  | replacement => exact plain_as_if _
  | utf16Be => exact (utf16Utf8NoRepl_eq s n).trans (utf16_as_if _ _)
  | utf16Le => exact (utf16Utf8NoRepl_eq s n).trans (utf16_as_if _ _)
  | userDefined => exact (userDefinedUtf8NoRepl_eq s n).trans (chk_as_if _)

/-- the exact value of a query -/
def variantNat : (q : Query) → (v : Gen.Variant) → (famOfVariant v).σ → Nat → Nat
  | .utf16 => variantNatUtf16
  | .utf8 => variantNatUtf8
  | .utf8NoRepl => variantNatUtf8NoRepl

/-- the largest intermediate result of a query's checked arithmetic -/
def variantOvf : (q : Query) → (v : Gen.Variant) → (famOfVariant v).σ → Nat → Nat
  | .utf16 => variantOvfUtf16
  | .utf8 => variantOvfUtf8
  | .utf8NoRepl => variantOvfUtf8NoRepl

/-- **no wrap**: every query returns its exact natural-number value if no intermediate result of its
checked arithmetic exceeds `usize::MAX`, and `None` otherwise -/
theorem variantMax_exact (q : Query) (v : Gen.Variant) (s : (famOfVariant v).σ) (n : Nat) :
    variantMax q v s n = if variantOvf q v s n ≤ usizeMax then some (variantNat q v s n) else none := by
  cases q
  · exact variantMaxUtf8_exact v s n
  · exact variantMaxUtf8NoRepl_exact v s n
  · exact variantMaxUtf16_exact v s n

theorem variantMax_some (q : Query) (v : Gen.Variant) (s : (famOfVariant v).σ) (n Q : Nat)
    (h : variantMax q v s n = some Q) : Q = variantNat q v s n ∧ variantOvf q v s n ≤ usizeMax := by
  rw [variantMax_exact] at h
  split at h
  · simp only [Option.some.injEq] at h; exact ⟨h.symm, by assumption⟩
  · cases h

theorem variantMax_none (q : Query) (v : Gen.Variant) (s : (famOfVariant v).σ) (n : Nat) :
    variantMax q v s n = none ↔ usizeMax < variantOvf q v s n := by
  rw [variantMax_exact]
  split
  · simp only [reduceCtorEq, false_iff]; omega
  · simp only [true_iff]; omega

/-! ### the headline theorems -/

/-- the sink a query is about -/
def sinkOf : Query → Sink
  | .utf16 => .utf16
  | .utf8 => .utf8
  | .utf8NoRepl => .utf8

/-- the potential of the query's value is covered by the value returned -/
theorem variant_phi_le (q : Query) (v : Gen.Variant) (s : (famOfVariant v).σ) (n Q : Nat) (hi : variantInv v s)
    (h : variantMax q v s n = some Q) :
    (match q with
      | .utf16 => (variantPot16 v).Φ s n
      | .utf8 => (variantPot8 v).Φ s n
      | .utf8NoRepl => (variantPot8N v).Φ s n) ≤ Q := by
  cases q with
  | utf16 => exact variantPot16_le v s n Q hi h
  | utf8 => exact variantPot8_le v s n Q hi h
  | utf8NoRepl => exact variantPot8N_le v s n Q hi h

/-- **C07, raw calls**: in a state satisfying the invariant (every reachable state does,
`variant_inv_reachable`), if the query `q` returns `Q` for the number of bytes passed and the
destination holds at least `Q` units, a raw call into the sink of `q` never returns `OutputFull`.
`q = .utf16` is `max_utf16_buffer_length` / `decode_to_utf16_without_replacement`,
`q = .utf8NoRepl` is `max_utf8_buffer_length_without_replacement` / `decode_to_utf8_without_replacement`,
and `q = .utf8` says that the (larger) with-replacement value is sufficient for a raw call too. -/
theorem variant_raw_sufficient (q : Query) (v : Gen.Variant) (s : (famOfVariant v).σ) (src : List Nat)
    (last : Bool) (budget : Budget) (cap Q : Nat)
    (hi : variantInv v s) (hb : ∀ b ∈ src, b < 256)
    (hq : variantMax q v s src.length = some Q) (hcap : Q ≤ cap)
    (hadm : Admissible (famOfVariant v) (sinkOf q) cap (call (famOfVariant v) (sinkOf q) s src last budget)) :
    (call (famOfVariant v) (sinkOf q) s src last budget).res ≠ .outputFull := by
  have L := famOfVariant_laws v
  cases q with
  | utf16 =>
    exact no_outputFull_raw (variantPot16 v) L last src s budget cap hi hb
      (Nat.le_trans (variantPot16_le v s _ Q hi hq) hcap) hadm
  | utf8 =>
    exact no_outputFull_raw (variantPot8 v) L last src s budget cap (variantPot8_inv v ▸ hi) hb
      (Nat.le_trans (variantPot8_le v s _ Q hi hq) hcap) hadm
  | utf8NoRepl =>
    exact no_outputFull_raw (variantPot8N v) L last src s budget cap (variantPot8N_inv v ▸ hi) hb
      (Nat.le_trans (variantPot8N_le v s _ Q hi hq) hcap) hadm

/-- **C07, with replacement**: `decode_to_utf16` with `max_utf16_buffer_length` and `decode_to_utf8`
with `max_utf8_buffer_length`: the replacement loop never returns `OutputFull`, however many
malformed sequences it replaces. -/
theorem variant_repl_sufficient (q : Query) (hq2 : q = .utf16 ∨ q = .utf8) (v : Gen.Variant)
    (s : (famOfVariant v).σ) (src : List Nat) (last : Bool) (fuel : Nat) (budgets : List Budget) (cap Q : Nat)
    (t : ReplRes (famOfVariant v).σ)
    (hi : variantInv v s) (hb : ∀ b ∈ src, b < 256)
    (hq : variantMax q v s src.length = some Q) (hcap : Q ≤ cap)
    (hadm : ReplAdmissible (famOfVariant v) (sinkOf q) last fuel s src budgets cap)
    (hrun : replLoop (famOfVariant v) (sinkOf q) last fuel s src budgets = some t) :
    t.res ≠ .outputFull := by
  have L := famOfVariant_laws v
  rcases hq2 with rfl | rfl
  · exact no_outputFull_repl (variantPot16 v) L last fuel s src budgets cap t hi hb
      (Nat.le_trans (variantPot16_le v s _ Q hi hq) hcap) hadm hrun
  · exact no_outputFull_repl (variantPot8 v) L last fuel s src budgets cap t (variantPot8_inv v ▸ hi) hb
      (Nat.le_trans (variantPot8_le v s _ Q hi hq) hcap) hadm hrun

/-- the states a variant decoder can be in: reached from the initial state by raw calls (any sink,
any chunk of bytes, any stop decision).  The with-replacement methods are sequences of raw calls. -/
inductive Reach (v : Gen.Variant) : (famOfVariant v).σ → Prop
  | init : Reach v (famOfVariant v).init
  | call (k : Sink) (s : (famOfVariant v).σ) (src : List Nat) (last : Bool) (budget : Budget) :
      Reach v s → (∀ b ∈ src, b < 256) → Reach v (Model.call (famOfVariant v) k s src last budget).st

/-- every reachable state satisfies the invariant the sufficiency theorems assume -/
theorem variant_inv_reachable (v : Gen.Variant) (s : (famOfVariant v).σ) (h : Reach v s) : variantInv v s := by
  induction h with
  | init => exact variantInv_init v
  | call k s src last budget _ hb ih =>
    cases k with
    | utf16 => exact (call_bound (variantPot16 v) (famOfVariant_laws v) last src s budget ih hb).1
    | utf8 =>
      have := (call_bound (variantPot8 v) (famOfVariant_laws v) last src s budget (variantPot8_inv v ▸ ih) hb).1
      exact variantPot8_inv v ▸ this

/-- the two theorems for reachable states, without mention of the invariant -/
theorem reachable_raw_sufficient (q : Query) (v : Gen.Variant) (s : (famOfVariant v).σ) (hr : Reach v s)
    (src : List Nat) (last : Bool) (budget : Budget) (cap Q : Nat) (hb : ∀ b ∈ src, b < 256)
    (hq : variantMax q v s src.length = some Q) (hcap : Q ≤ cap)
    (hadm : Admissible (famOfVariant v) (sinkOf q) cap (call (famOfVariant v) (sinkOf q) s src last budget)) :
    (call (famOfVariant v) (sinkOf q) s src last budget).res ≠ .outputFull :=
  variant_raw_sufficient q v s src last budget cap Q (variant_inv_reachable v s hr) hb hq hcap hadm

theorem reachable_repl_sufficient (q : Query) (hq2 : q = .utf16 ∨ q = .utf8) (v : Gen.Variant)
    (s : (famOfVariant v).σ) (hr : Reach v s) (src : List Nat) (last : Bool) (fuel : Nat)
    (budgets : List Budget) (cap Q : Nat) (t : ReplRes (famOfVariant v).σ) (hb : ∀ b ∈ src, b < 256)
    (hq : variantMax q v s src.length = some Q) (hcap : Q ≤ cap)
    (hadm : ReplAdmissible (famOfVariant v) (sinkOf q) last fuel s src budgets cap)
    (hrun : replLoop (famOfVariant v) (sinkOf q) last fuel s src budgets = some t) :
    t.res ≠ .outputFull :=
  variant_repl_sufficient q hq2 v s src last fuel budgets cap Q t (variant_inv_reachable v s hr) hb hq hcap hadm hrun

/-! ### Non-vacuity: concrete mid-stream states -/

/-- Shift_JIS, a lead byte pending from the previous call (raw call, UTF-16 sink): the state is
reachable, the query says 3, a 3-unit destination is admissible for the whole input, and the
theorem applies. -/
example :
    let v := Gen.Variant.shiftJis
    let F := famOfVariant v
    let s : Option Nat := (call F .utf16 F.init [0x41, 0x82] false .unlimited).st
    let r := call F .utf16 s [0xA0, 0x41] false .unlimited
    s = some 0x01 ∧ Reach v s ∧ variantMax .utf16 v s 2 = some 3 ∧ Admissible F .utf16 3 r ∧
    r.out = [0x3042, 0x41] ∧ r.res ≠ .outputFull := by
  intro v F s r
  have hreach : Reach v s := Reach.call .utf16 F.init [0x41, 0x82] false .unlimited Reach.init (by decide)
  have hq : variantMax .utf16 v s [0xA0, 0x41].length = some 3 := by decide +kernel
  have hout : r.out = [0x3042, 0x41] := by decide +kernel
  have hres : r.res = .inputEmpty := by decide +kernel
  have hadm : Admissible F .utf16 3 r := by
    refine ⟨by rw [hout]; decide, ?_, ?_⟩
    · intro h; rw [hres] at h; cases h
    · intro l a h; rw [hres] at h; cases h
  exact ⟨rfl, hreach, hq, hadm, hout,
    reachable_raw_sufficient .utf16 v s hreach [0xA0, 0x41] false .unlimited 3 3 (by decide) hq (Nat.le_refl _) hadm⟩

/-- the same state, UTF-8 sink, without replacement: the query says 9; an `OutputFull` stop before the
second byte is admissible only for a destination of less than 6 bytes -/
example :
    let v := Gen.Variant.shiftJis
    let F := famOfVariant v
    let r := call F .utf8 (some 0x01 : Option Nat) [0xA0, 0x41] false (.full 1)
    variantMax .utf8NoRepl v (some 0x01 : Option Nat) 2 = some 9 ∧ r.res = .outputFull ∧
    Admissible F .utf8 5 r ∧ ¬ Admissible F .utf8 9 r := by
  intro v F r
  have hres : r.res = .outputFull := by decide +kernel
  have hout : r.out = [0x3042] := by decide +kernel
  have hneed : r.stopNeed = 3 := by decide +kernel
  refine ⟨by decide +kernel, hres, ⟨by rw [hout]; decide, ?_, ?_⟩, ?_⟩
  · intro _; rw [hout, hneed]; decide
  · intro l a h; rw [hres] at h; cases h
  · intro h
    have := h.2.1 hres
    rw [hout, hneed] at this
    revert this; decide

/-- Big5, a lead byte pending, with replacement (UTF-16 sink): the next byte is not a trail byte
(error, byte handed back), the query for 2 bytes says 4, the loop writes U+FFFD and the two bytes. -/
example :
    let v := Gen.Variant.big5
    let F := famOfVariant v
    let s : Option Nat := some 0x23
    variantInv v s ∧ variantMax .utf16 v s 2 = some 4 ∧
    ReplAdmissible F .utf16 false 2 s [0x20, 0x41] [] 4 ∧
    (∃ t, replLoop F .utf16 false 2 s [0x20, 0x41] [] = some t ∧ t.out = [0xFFFD, 0x20, 0x41] ∧
      t.res ≠ .outputFull) := by
  intro v F s
  have hinv : variantInv v s := by
    intro l h
    have : l = 0x23 := by injection h with h; exact h.symm
    rw [this]; decide
  have hq : variantMax .utf16 v s [0x20, 0x41].length = some 4 := by decide +kernel
  have c1 : (call F .utf16 s [0x20, 0x41] false .unlimited).res = .malformed 1 0 := by decide +kernel
  have c1o : (call F .utf16 s [0x20, 0x41] false .unlimited).out = [] := by decide +kernel
  have c1r : (call F .utf16 s [0x20, 0x41] false .unlimited).read = 0 := by decide +kernel
  have c1s : (call F .utf16 s [0x20, 0x41] false .unlimited).st = (none : Option Nat) := rfl
  have c2 : (call F .utf16 (none : Option Nat) [0x20, 0x41] false .unlimited).res = .inputEmpty := by decide +kernel
  have c2o : (call F .utf16 (none : Option Nat) [0x20, 0x41] false .unlimited).out = [0x20, 0x41] := by decide +kernel
  have hadm : ReplAdmissible F .utf16 false 2 s [0x20, 0x41] [] 4 := by
    simp only [ReplAdmissible, List.headD_nil, List.tail_nil]
    refine ⟨⟨by rw [c1o]; decide, ?_, ?_⟩, ?_⟩
    · intro h; rw [c1] at h; cases h
    · intro l a _; rw [c1o]; decide
    · intro l a _
      rw [c1s, c1r, c1o]
      refine ⟨⟨by rw [List.drop_zero, c2o]; decide, ?_, ?_⟩, ?_⟩
      · intro h; rw [List.drop_zero, c2] at h; cases h
      · intro l a h; rw [List.drop_zero, c2] at h; cases h
      · intro l a h; rw [List.drop_zero, c2] at h; cases h
  have hrun : ∃ t, replLoop F .utf16 false 2 s [0x20, 0x41] [] = some t := by
    cases h : replLoop F .utf16 false 2 s [0x20, 0x41] [] with
    | some t => exact ⟨t, rfl⟩
    | none => exfalso; revert h; decide +kernel
  obtain ⟨t, ht⟩ := hrun
  have hto : t.out = [0xFFFD, 0x20, 0x41] := by
    have : (replLoop F .utf16 false 2 s [0x20, 0x41] []).map (·.out) = some [0xFFFD, 0x20, 0x41] := by decide +kernel
    rw [ht] at this; simpa using this
  exact ⟨hinv, hq, hadm, t, ht, hto,
    variant_repl_sufficient .utf16 (Or.inl rfl) v s [0x20, 0x41] false 2 [] 4 4 t hinv (by decide) hq (Nat.le_refl _) hadm ht⟩

/-- UTF-16BE with U+0000 pending after an unpaired surrogate (the state of finding F8): the
repaired query says 4 for 3 bytes, and 4 units are enough. -/
example :
    let v := Gen.Variant.utf16Be
    let F := famOfVariant v
    let s1 : Utf16St := (call F .utf16 F.init [0xD8, 0x3D] false .unlimited).st
    let s : Utf16St := (call F .utf16 s1 [0x00, 0x00] false .unlimited).st
    let r := call F .utf16 s [0x00, 0x41, 0x00] false .unlimited
    s = ⟨none, 0, true⟩ ∧ Reach v s ∧ variantMax .utf16 v s 3 = some 4 ∧ Admissible F .utf16 4 r ∧
    r.out = [0x0000, 0x0041] ∧ r.res ≠ .outputFull := by
  intro v F s1 s r
  have hreach : Reach v s :=
    Reach.call (v := v) .utf16 s1 [0x00, 0x00] false .unlimited
      (Reach.call .utf16 F.init [0xD8, 0x3D] false .unlimited Reach.init (by decide)) (by decide)
  have hq : variantMax .utf16 v s [0x00, 0x41, 0x00].length = some 4 := by decide +kernel
  have hout : r.out = [0x0000, 0x0041] := by decide +kernel
  have hres : r.res = .inputEmpty := by decide +kernel
  have hadm : Admissible F .utf16 4 r := by
    refine ⟨by rw [hout]; decide, ?_, ?_⟩
    · intro h; rw [hres] at h; cases h
    · intro l a h; rw [hres] at h; cases h
  exact ⟨rfl, hreach, hq, hadm, hout,
    reachable_raw_sufficient .utf16 v s hreach [0x00, 0x41, 0x00] false .unlimited 4 4 (by decide) hq (Nat.le_refl _) hadm⟩

/-- gb18030 with three bytes of a four-byte sequence pending: the query for one more byte says 5
units; the byte completes U+10000 (two units). -/
example :
    let v := Gen.Variant.gb18030
    let F := famOfVariant v
    let s : GbSt := (call F .utf16 F.init [0x90, 0x30, 0x81] false .unlimited).st
    let r := call F .utf16 s [0x30] false .unlimited
    s = ⟨.three 0x0F 0 0, none⟩ ∧ Reach v s ∧ variantMax .utf16 v s 1 = some 5 ∧ r.out = [0x10000] := by
  intro v F s r
  exact ⟨rfl, Reach.call .utf16 F.init [0x90, 0x30, 0x81] false .unlimited Reach.init (by decide),
    by decide +kernel, by decide +kernel⟩

/-- ISO-2022-JP with `ESC $` read (escape half-read) at the end of the stream: the query for 0 more
bytes says 2 (UTF-16) / 6 (UTF-8): one U+FFFD for the ESC and the `$` itself. -/
example :
    let v := Gen.Variant.iso2022Jp
    let F := famOfVariant v
    let s : Iso2022JpSt := (call F .utf16 F.init [0x1B, 0x24] false .unlimited).st
    s.decoderState = .escape ∧ Reach v s ∧ variantMax .utf16 v s 0 = some 2 ∧ variantMax .utf8 v s 0 = some 6 ∧
    (∃ t, replLoop F .utf16 true 3 s [] [] = some t ∧ t.out = [0xFFFD, 0x24]) := by
  intro v F s
  refine ⟨rfl, Reach.call .utf16 F.init [0x1B, 0x24] false .unlimited Reach.init (by decide),
    by decide +kernel, by decide +kernel, ?_⟩
  cases h : replLoop F .utf16 true 3 s [] [] with
  | some t =>
    refine ⟨t, rfl, ?_⟩
    have : (replLoop F .utf16 true 3 s [] []).map (·.out) = some [0xFFFD, 0x24] := by decide +kernel
    rw [h] at this; simpa using this
  | none => exfalso; revert h; decide +kernel

/-- overflow: near `usize::MAX` the queries answer `None`, never a wrapped number -/
example : variantMax .utf8 .big5 (none : Option Nat) (Gen.MaxLen.usizeMax / 3) = none ∧
    variantMax .utf16 .utf16Le utf16Init Gen.MaxLen.usizeMax = none ∧
    variantMax .utf16 .utf16Le utf16Init (Gen.MaxLen.usizeMax - 1) = some 9223372036854775808 := by
  decide +kernel

end EncodingRs.Lemmas.MaxLenVariant
