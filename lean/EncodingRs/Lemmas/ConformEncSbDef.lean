import EncodingRs.Lemmas.ConformEnc
import EncodingRs.Gen.Encodings
import EncodingRs.Gen.SingleByte
/-!
# C03, single-byte encodings: the checker

For an encoding `e` of the `*_INIT` list whose variant is `SingleByte(table, run_bmp_offset,
run_byte_offset, run_length)`: the Standard's index for `e.name` exists, and for every code
point the run/quadrant search `encode_u16` of the model over the regenerated table is the
Standard's single-byte encoder over that index.
-/
namespace EncodingRs.Lemmas.ConformEnc
open EncodingRs EncodingRs.Model EncodingRs.Spec.Encode

def sbCheckWith (index : Array Nat) (t a b l : Nat) : Bool :=
  checkEntries index (mkInverse index 0x10000) && checkInverse index (mkInverse index 0x10000)
    && allFrom (fun c => decide (singleByteWith (invLookup (mkInverse index 0x10000)) c
        = resOf (singleByteEncodeChar (Gen.singleByteTables.getD t #[]) a b l c) c)) 0 0x110000

/-- same value; the inverse table is computed once -/
def sbCheckWithFast (index : Array Nat) (t a b l : Nat) : Bool :=
  let inv := mkInverse index 0x10000
  let table := Gen.singleByteTables.getD t #[]
  checkEntries index inv && checkInverse index inv
    && allFrom (fun c => decide (singleByteWith (invLookup inv) c = resOf (singleByteEncodeChar table a b l c) c)) 0 0x110000

theorem sbCheckWithFast_eq (index : Array Nat) (t a b l : Nat) : sbCheckWithFast index t a b l = sbCheckWith index t a b l := rfl

def sbCheckEnc (e : Gen.EncodingInit) : Bool :=
  match e.variant with
  | .singleByte t a b l =>
    match Spec.Enc.singleByteIndexes.lookup e.name with
    | none => false
    | some index => sbCheckWithFast index t a b l
  | _ => true

theorem sbCheckWith_spec (index : Array Nat) (t a b l : Nat) (h : sbCheckWith index t a b l = true)
    (c : Nat) (hc : c < 0x110000) :
    singleByte index c = resOf (singleByteEncodeChar (Gen.singleByteTables.getD t #[]) a b l c) c := by
  unfold sbCheckWith at h
  simp only [Bool.and_eq_true] at h
  have hp : indexPointer index = invLookup (mkInverse index 0x10000) :=
    funext (indexPointer_eq_invLookup _ _ h.1.1 h.1.2)
  have := allFrom_spec _ _ _ h.2 c (Nat.zero_le c) (by omega)
  unfold singleByte
  rw [hp]
  exact of_decide_eq_true this

end EncodingRs.Lemmas.ConformEnc
