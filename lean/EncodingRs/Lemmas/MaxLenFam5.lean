import EncodingRs.Lemmas.MaxLenFam4
/-!
# C07 (decoder half): potentials for ISO-2022-JP

The formula `extra_to_output_from_state + byte_length + extra_to_input_from_state` is not itself
a potential (a trail-byte state whose next byte is ESC moves to `EscapeStart` *keeping* `lead`, so
the formula goes up by one without input).  The potential is the tighter `n + isoW s`, where
`isoW` counts what the state can still cost: 1 for a pending trail byte / ESC / prepended byte,
2 for `ESC $` or `ESC (`.  Under the state invariant `isoInvB` it is bounded by the formula.
-/
namespace EncodingRs.Lemmas.MaxLenFam
open EncodingRs EncodingRs.Model EncodingRs.Lemmas.Potential EncodingRs.Lemmas.MaxLenArith
open EncodingRs.Lemmas.Scalar EncodingRs.Gen.MaxLen

theorem iso_units : checkTrailU isoTrail .utf16 1 = true ∧ checkTrailU isoTrail .utf8 3 = true := by
  native_decide

theorem iso_trail_units (k : Sink) : checkTrailU isoTrail k (needBmp k) = true := by
  cases k
  · exact iso_units.2
  · exact iso_units.1

def isoBasic : IsoSt → Bool
  | .ascii | .roman | .katakana | .leadByte => true
  | _ => false

theorem isoBasic_toSt (o : IsoOut) : isoBasic o.toSt = true := by cases o <;> rfl

theorem isoBasic_ne {ds : IsoSt} (h : isoBasic ds = true) : ds ≠ .trailByte ∧ ds ≠ .escape := by
  cases ds <;> simp_all [isoBasic]

/-- `lead` is an ASCII byte; it is non-zero whenever it is in use -/
def isoInvB (s : Iso2022JpSt) : Prop :=
  s.lead < 0x80 ∧ (s.decoderState = .trailByte → s.lead ≠ 0) ∧ (s.decoderState = .escape → s.lead ≠ 0) ∧
  (s.pendingPrepended = true → s.lead ≠ 0 ∧ isoBasic s.decoderState = true)

theorem isoInvB_init : isoInvB isoInit := by
  refine ⟨by decide, ?_, ?_, ?_⟩ <;> intro h <;> cases h

/-- what the state can still cost, in characters -/
def isoW (s : Iso2022JpSt) : Nat :=
  if s.pendingPrepended then 1 else
  match s.decoderState with
  | .trailByte => 1
  | .escapeStart => 1
  | .escape => 2
  | _ => 0

theorem isoW_basic (ds : IsoSt) (os : IsoOut) (l : Nat) (f : Bool) (h : isoBasic ds = true) :
    isoW ⟨ds, os, l, f, false⟩ = 0 := by
  cases ds <;> simp_all [isoW, isoBasic]

theorem isoW_toSt (o os : IsoOut) (l : Nat) (f : Bool) : isoW ⟨o.toSt, os, l, f, false⟩ = 0 :=
  isoW_basic _ _ _ _ (isoBasic_toSt o)

/-- the tighter bound is below the formula -/
theorem isoW_le (s : Iso2022JpSt) (hi : isoInvB s) (n : Nat) : n + isoW s ≤ isoUtf16Nat s n := by
  obtain ⟨ds, os, l, f, p⟩ := s
  obtain ⟨_, h1, h2, h3⟩ := hi
  simp only at h1 h2 h3
  unfold isoUtf16Nat isoInNat iso2022JpExtraToOutputFromState isoW
  simp only
  cases p with
  | true =>
    have := (h3 rfl).1
    simp [this]
    omega
  | false =>
    cases ds
    case trailByte => have := h1 rfl; simp [this]
    case escape => have := h2 rfl; simp [this]
    all_goals simp
    all_goals omega

/-- the kinds of step of the ISO-2022-JP decoder -/
def IsoFacts (k : Sink) (s : Iso2022JpSt) (r : FeedRes Iso2022JpSt) : Prop :=
  (r.err = none ∧ isoW r.st = 0 ∧ unitsOfList k r.out ≤ needBmp k) ∨
  (r.err = none ∧ r.out = [] ∧ isoW r.st = isoW s + 1) ∨
  ((∃ e, r.err = some e) ∧ r.out = [] ∧ r.unread = false ∧ isoW r.st ≤ isoW s) ∨
  ((∃ e, r.err = some e) ∧ r.out = [] ∧ isoW r.st + 1 = isoW s)

theorem units_one_bmp (k : Sink) (c : Nat) (h : c < 0x10000) : unitsOfList k [c] ≤ needBmp k := by
  rw [units_single]; exact unitsOf_bmp k c h

theorem iso_facts (k : Sink) (ds : IsoSt) (os : IsoOut) (l : Nat) (f : Bool) (b : Nat)
    (hi : isoInvB ⟨ds, os, l, f, false⟩) (hb : b < 256) :
    isoInvB (isoFeed ⟨ds, os, l, f, false⟩ b).st ∧ IsoFacts k ⟨ds, os, l, f, false⟩ (isoFeed ⟨ds, os, l, f, false⟩ b) := by
  obtain ⟨hl, h1, h2, _⟩ := hi
  simp only at hl h1 h2
  have nf : ∀ {P : Prop}, (false = true → P) := by intro P h; cases h
  -- the ESC step common to the four basic states
  have esc : ∀ ds', isoBasic ds' = true →
      isoInvB (FeedRes.ok (⟨.escapeStart, os, l, f, false⟩ : Iso2022JpSt) []).st ∧
      IsoFacts k ⟨ds', os, l, f, false⟩ (FeedRes.ok (⟨.escapeStart, os, l, f, false⟩ : Iso2022JpSt) []) := by
    intro ds' hb'
    refine ⟨⟨hl, (by intro h; cases h), (by intro h; cases h), nf⟩, Or.inr (Or.inl ⟨rfl, rfl, ?_⟩)⟩
    show isoW ⟨.escapeStart, os, l, f, false⟩ = _
    rw [isoW_basic _ _ _ _ hb']; rfl
  -- a character / an error in a basic state
  have outc : ∀ ds' c, isoBasic ds' = true → c < 0x10000 →
      isoInvB (FeedRes.ok (⟨ds', os, l, false, false⟩ : Iso2022JpSt) [c]).st ∧
      IsoFacts k ⟨ds', os, l, f, false⟩ (FeedRes.ok (⟨ds', os, l, false, false⟩ : Iso2022JpSt) [c]) := by
    intro ds' c hb' hc
    refine ⟨⟨hl, ?_, ?_, nf⟩, Or.inl ⟨rfl, isoW_basic _ _ _ _ hb', units_one_bmp k c hc⟩⟩
    · exact fun h => absurd h (isoBasic_ne hb').1
    · exact fun h => absurd h (isoBasic_ne hb').2
  have badc : ∀ ds', isoBasic ds' = true →
      isoInvB (FeedRes.bad (⟨ds', os, l, false, false⟩ : Iso2022JpSt) 1 0).st ∧
      IsoFacts k ⟨ds', os, l, f, false⟩ (FeedRes.bad (⟨ds', os, l, false, false⟩ : Iso2022JpSt) 1 0) := by
    intro ds' hb'
    refine ⟨⟨hl, ?_, ?_, nf⟩, Or.inr (Or.inr (Or.inl ⟨⟨_, rfl⟩, rfl, rfl, ?_⟩))⟩
    · exact fun h => absurd h (isoBasic_ne hb').1
    · exact fun h => absurd h (isoBasic_ne hb').2
    · show isoW ⟨ds', os, l, false, false⟩ ≤ _
      rw [isoW_basic _ _ _ _ hb']; exact Nat.zero_le _
  cases ds with
  | ascii =>
    by_cases he : b = 0x1B
    · have hf : isoFeed ⟨.ascii, os, l, f, false⟩ b = FeedRes.ok ⟨.escapeStart, os, l, f, false⟩ [] := by
        unfold isoFeed; simp [he]
      rw [hf]; exact esc _ rfl
    · by_cases hbad : b > 0x7F ∨ b = 0x0E ∨ b = 0x0F
      · have hf : isoFeed ⟨.ascii, os, l, f, false⟩ b = FeedRes.bad ⟨.ascii, os, l, false, false⟩ 1 0 := by
          unfold isoFeed; simp [he, hbad]
        rw [hf]; exact badc _ rfl
      · have hf : isoFeed ⟨.ascii, os, l, f, false⟩ b = FeedRes.ok ⟨.ascii, os, l, false, false⟩ [b] := by
          unfold isoFeed; simp [he, hbad]
        rw [hf]; exact outc _ _ rfl (by omega)
  | roman =>
    by_cases he : b = 0x1B
    · have hf : isoFeed ⟨.roman, os, l, f, false⟩ b = FeedRes.ok ⟨.escapeStart, os, l, f, false⟩ [] := by
        unfold isoFeed; simp [he]
      rw [hf]; exact esc _ rfl
    · by_cases h5c : b = 0x5C
      · have hf : isoFeed ⟨.roman, os, l, f, false⟩ b = FeedRes.ok ⟨.roman, os, l, false, false⟩ [0x00A5] := by
          unfold isoFeed; subst h5c; simp
        rw [hf]; exact outc _ _ rfl (by decide)
      · by_cases h7e : b = 0x7E
        · have hf : isoFeed ⟨.roman, os, l, f, false⟩ b = FeedRes.ok ⟨.roman, os, l, false, false⟩ [0x203E] := by
            unfold isoFeed; subst h7e; simp
          rw [hf]; exact outc _ _ rfl (by decide)
        · by_cases hbad : b > 0x7F ∨ b = 0x0E ∨ b = 0x0F
          · have hf : isoFeed ⟨.roman, os, l, f, false⟩ b = FeedRes.bad ⟨.roman, os, l, false, false⟩ 1 0 := by
              unfold isoFeed; simp [he, h5c, h7e, hbad]
            rw [hf]; exact badc _ rfl
          · have hf : isoFeed ⟨.roman, os, l, f, false⟩ b = FeedRes.ok ⟨.roman, os, l, false, false⟩ [b] := by
              unfold isoFeed; simp [he, h5c, h7e, hbad]
            rw [hf]; exact outc _ _ rfl (by omega)
  | katakana =>
    by_cases he : b = 0x1B
    · have hf : isoFeed ⟨.katakana, os, l, f, false⟩ b = FeedRes.ok ⟨.escapeStart, os, l, f, false⟩ [] := by
        unfold isoFeed; simp [he]
      rw [hf]; exact esc _ rfl
    · by_cases hr : 0x21 ≤ b ∧ b ≤ 0x5F
      · have hf : isoFeed ⟨.katakana, os, l, f, false⟩ b
            = FeedRes.ok ⟨.katakana, os, l, false, false⟩ [b - 0x21 + 0xFF61] := by
          unfold isoFeed; simp [he, hr]
        rw [hf]; exact outc _ _ rfl (by omega)
      · have hf : isoFeed ⟨.katakana, os, l, f, false⟩ b = FeedRes.bad ⟨.katakana, os, l, false, false⟩ 1 0 := by
          unfold isoFeed; simp [he, hr]
        rw [hf]; exact badc _ rfl
  | leadByte =>
    by_cases he : b = 0x1B
    · have hf : isoFeed ⟨.leadByte, os, l, f, false⟩ b = FeedRes.ok ⟨.escapeStart, os, l, f, false⟩ [] := by
        unfold isoFeed; simp [he]
      rw [hf]; exact esc _ rfl
    · by_cases hr : 0x21 ≤ b ∧ b ≤ 0x7E
      · have hf : isoFeed ⟨.leadByte, os, l, f, false⟩ b = FeedRes.ok ⟨.trailByte, os, b, false, false⟩ [] := by
          unfold isoFeed; simp [he, hr]
        rw [hf]
        refine ⟨⟨(by show b < 0x80; omega), (by intro _; show b ≠ 0; omega), (by intro h; cases h), nf⟩,
          Or.inr (Or.inl ⟨rfl, rfl, rfl⟩)⟩
      · have hf : isoFeed ⟨.leadByte, os, l, f, false⟩ b = FeedRes.bad ⟨.leadByte, os, l, false, false⟩ 1 0 := by
          unfold isoFeed; simp [he, hr]
        rw [hf]; exact badc _ rfl
  | trailByte =>
    have hl0 : l ≠ 0 := h1 rfl
    by_cases he : b = 0x1B
    · have hf : isoFeed ⟨.trailByte, os, l, f, false⟩ b = FeedRes.bad ⟨.escapeStart, os, l, f, false⟩ 1 1 := by
        unfold isoFeed; simp [he]
      rw [hf]
      refine ⟨⟨hl, (by intro h; cases h), (by intro h; cases h), nf⟩,
        Or.inr (Or.inr (Or.inl ⟨⟨_, rfl⟩, rfl, rfl, Nat.le_refl _⟩))⟩
    · cases htf : isoTrail l b with
      | out cs =>
        have hf : isoFeed ⟨.trailByte, os, l, f, false⟩ b = FeedRes.ok ⟨.leadByte, os, l, f, false⟩ cs := by
          unfold isoFeed; simp [he, htf]
        rw [hf]
        refine ⟨⟨hl, (by intro h; cases h), (by intro h; cases h), nf⟩, Or.inl ⟨rfl, rfl, ?_⟩⟩
        exact trail_units (iso_trail_units k) l b (by omega) hb cs htf
      | bad =>
        have hf : isoFeed ⟨.trailByte, os, l, f, false⟩ b = FeedRes.bad ⟨.leadByte, os, l, f, false⟩ 2 0 := by
          unfold isoFeed; simp [he, htf]
        rw [hf]
        refine ⟨⟨hl, (by intro h; cases h), (by intro h; cases h), nf⟩,
          Or.inr (Or.inr (Or.inl ⟨⟨_, rfl⟩, rfl, rfl, Nat.zero_le _⟩))⟩
  | escapeStart =>
    by_cases hd : b = 0x24 ∨ b = 0x28
    · have hf : isoFeed ⟨.escapeStart, os, l, f, false⟩ b = FeedRes.ok ⟨.escape, os, b, f, false⟩ [] := by
        unfold isoFeed; simp [hd]
      rw [hf]
      refine ⟨⟨(by show b < 0x80; omega), (by intro h; cases h), (by intro _; show b ≠ 0; omega), nf⟩,
        Or.inr (Or.inl ⟨rfl, rfl, rfl⟩)⟩
    · have hf : isoFeed ⟨.escapeStart, os, l, f, false⟩ b
          = FeedRes.bad ⟨os.toSt, os, l, false, false⟩ 1 0 true := by
        unfold isoFeed; simp [hd]
      rw [hf]
      have hbs := isoBasic_toSt os
      refine ⟨⟨hl, ?_, ?_, nf⟩, Or.inr (Or.inr (Or.inr ⟨⟨_, rfl⟩, rfl, ?_⟩))⟩
      · exact fun h => absurd h (isoBasic_ne hbs).1
      · exact fun h => absurd h (isoBasic_ne hbs).2
      · show isoW ⟨os.toSt, os, l, false, false⟩ + 1 = _
        rw [isoW_toSt]; rfl
  | escape =>
    have hl0 : l ≠ 0 := h2 rfl
    cases ht : isoEscapeTarget l b with
    | some t =>
      have hbs := isoBasic_toSt t
      cases f with
      | true =>
        have hf : isoFeed ⟨.escape, os, l, true, false⟩ b = FeedRes.bad ⟨t.toSt, t, 0, true, false⟩ 3 3 := by
          unfold isoFeed; simp [ht]
        rw [hf]
        refine ⟨⟨(by show (0 : Nat) < 0x80; decide), ?_, ?_, nf⟩, Or.inr (Or.inr (Or.inl ⟨⟨_, rfl⟩, rfl, rfl, ?_⟩))⟩
        · exact fun h => absurd h (isoBasic_ne hbs).1
        · exact fun h => absurd h (isoBasic_ne hbs).2
        · show isoW ⟨t.toSt, t, 0, true, false⟩ ≤ _
          rw [isoW_toSt]; exact Nat.zero_le _
      | false =>
        have hf : isoFeed ⟨.escape, os, l, false, false⟩ b = FeedRes.ok ⟨t.toSt, t, 0, true, false⟩ [] := by
          unfold isoFeed; simp [ht]
        rw [hf]
        refine ⟨⟨(by show (0 : Nat) < 0x80; decide), ?_, ?_, nf⟩, Or.inl ⟨rfl, isoW_toSt _ _ _ _, ?_⟩⟩
        · exact fun h => absurd h (isoBasic_ne hbs).1
        · exact fun h => absurd h (isoBasic_ne hbs).2
        · show unitsOfList k [] ≤ _
          rw [units_nil]; exact Nat.zero_le _
    | none =>
      have hf : isoFeed ⟨.escape, os, l, f, false⟩ b = FeedRes.bad ⟨os.toSt, os, l, false, true⟩ 1 1 true := by
        unfold isoFeed; simp [ht]
      rw [hf]
      have hbs := isoBasic_toSt os
      refine ⟨⟨hl, ?_, ?_, fun _ => ⟨hl0, hbs⟩⟩, Or.inr (Or.inr (Or.inr ⟨⟨_, rfl⟩, rfl, rfl⟩))⟩
      · exact fun h => absurd h (isoBasic_ne hbs).1
      · exact fun h => absurd h (isoBasic_ne hbs).2

/-- the flush of the prepended byte -/
theorem iso_pend_facts (k : Sink) (s : Iso2022JpSt) (o : List Nat) (s' : Iso2022JpSt) (hi : isoInvB s)
    (h : isoPend s = some (o, s')) :
    isoInvB s' ∧ isoW s = 1 ∧
      ((isoW s' = 0 ∧ unitsOfList k o ≤ needBmp k) ∨ (isoW s' = 1 ∧ o = [])) := by
  obtain ⟨ds, os, l, f, p⟩ := s
  obtain ⟨hl, _, _, h3⟩ := hi
  simp only at hl h3
  unfold isoPend at h
  cases p with
  | false => simp at h
  | true =>
    obtain ⟨hl0, hbs⟩ := h3 rfl
    have nf : ∀ {P : Prop}, (false = true → P) := by intro P h; cases h
    simp only [if_true] at h
    cases ds <;> simp only [Option.some.injEq, Prod.mk.injEq] at h <;> obtain ⟨rfl, rfl⟩ := h
    case ascii =>
      exact ⟨⟨(by show (0 : Nat) < 0x80; decide), (by intro h; cases h), (by intro h; cases h), nf⟩, rfl,
        Or.inl ⟨rfl, units_one_bmp k l (by omega)⟩⟩
    case roman =>
      exact ⟨⟨(by show (0 : Nat) < 0x80; decide), (by intro h; cases h), (by intro h; cases h), nf⟩, rfl,
        Or.inl ⟨rfl, units_one_bmp k l (by omega)⟩⟩
    case katakana =>
      exact ⟨⟨(by show (0 : Nat) < 0x80; decide), (by intro h; cases h), (by intro h; cases h), nf⟩, rfl,
        Or.inl ⟨rfl, units_one_bmp k _ (by omega)⟩⟩
    case leadByte =>
      exact ⟨⟨hl, (fun _ => hl0), (by intro h; cases h), nf⟩, rfl, Or.inr ⟨rfl, rfl⟩⟩
    all_goals cases hbs

theorem iso_eof_facts (s : Iso2022JpSt) (e : Nat × Nat) (s' : Iso2022JpSt) (hi : isoInvB s)
    (h : isoEof s = some (e, s')) :
    isoInvB s' ∧ (s.pendingPrepended = false → isoW s' + 1 = isoW s) := by
  obtain ⟨ds, os, l, f, p⟩ := s
  obtain ⟨hl, h1, h2, h3⟩ := hi
  simp only at hl h1 h2 h3
  unfold isoEof at h
  have hbs := isoBasic_toSt os
  cases ds <;> simp only [Option.some.injEq, Prod.mk.injEq, reduceCtorEq] at h
  case trailByte =>
    obtain ⟨_, rfl⟩ := h
    refine ⟨⟨hl, ?_, ?_, ?_⟩, ?_⟩
    · exact fun h => absurd h (isoBasic_ne hbs).1
    · exact fun h => absurd h (isoBasic_ne hbs).2
    · intro hp; exact ⟨(h3 hp).1, hbs⟩
    · intro hp; simp only at hp; subst hp
      show isoW ⟨os.toSt, os, l, f, false⟩ + 1 = _
      rw [isoW_toSt]; rfl
  case escapeStart =>
    obtain ⟨_, rfl⟩ := h
    refine ⟨⟨hl, ?_, ?_, ?_⟩, ?_⟩
    · exact fun h => absurd h (isoBasic_ne hbs).1
    · exact fun h => absurd h (isoBasic_ne hbs).2
    · intro hp; exact ⟨(h3 hp).1, hbs⟩
    · intro hp; simp only at hp; subst hp
      show isoW ⟨os.toSt, os, l, f, false⟩ + 1 = _
      rw [isoW_toSt]; rfl
  case escape =>
    obtain ⟨_, rfl⟩ := h
    have hl0 := h2 rfl
    refine ⟨⟨hl, ?_, ?_, ?_⟩, ?_⟩
    · exact fun h => absurd h (isoBasic_ne hbs).1
    · exact fun h => absurd h (isoBasic_ne hbs).2
    · intro _; exact ⟨hl0, hbs⟩
    · intro hp; simp only at hp; subst hp
      rfl

/-- ISO-2022-JP: a bound `ψ (n + isoW s)` is a potential if it grows by a BMP character per byte -/
def isoPot (k : Sink) (repl : Bool) (ψ : Nat → Nat)
    (h_step : ∀ m, needBmp k + ψ m ≤ ψ (m + 1)) :
    Potential iso2022JpFam k repl where
  Inv := isoInvB
  Φ := fun s n => ψ (n + isoW s)
  inv_step := by
    intro (s : Iso2022JpSt) b hi hp hb
    have hpp : s.pendingPrepended = false := (EncodingRs.Lemmas.FamLaws.iso_pend_none_iff s).mp hp
    obtain ⟨ds, os, l, f, p⟩ := s
    simp only at hpp; subst hpp
    exact (iso_facts k ds os l f b hi hb).1
  inv_pend := fun s o s' hi h => (iso_pend_facts k s o s' hi h).1
  inv_eof := fun s e s' hi h => (iso_eof_facts s e s' hi h).1
  need_le := by
    intro (s : Iso2022JpSt) b n _ _ _
    show needBmp k ≤ ψ (n + 1 + isoW s)
    have := h_step (n + isoW s)
    have e : n + 1 + isoW s = n + isoW s + 1 := by omega
    rw [e]; omega
  step_ok := by
    intro (s : Iso2022JpSt) b n hi hp hb he
    have hpp : s.pendingPrepended = false := (EncodingRs.Lemmas.FamLaws.iso_pend_none_iff s).mp hp
    obtain ⟨ds, os, l, f, p⟩ := s
    simp only at hpp; subst hpp
    have he' : (isoFeed ⟨ds, os, l, f, false⟩ b).err = none := he
    show unitsOfList k (isoFeed ⟨ds, os, l, f, false⟩ b).out + ψ (n + isoW (isoFeed ⟨ds, os, l, f, false⟩ b).st)
      ≤ ψ (n + 1 + isoW ⟨ds, os, l, f, false⟩)
    rcases (iso_facts k ds os l f b hi hb).2 with ⟨_, hw, hu⟩ | ⟨_, ho, hw⟩ | ⟨⟨e, h⟩, _⟩ | ⟨⟨e, h⟩, _⟩
    · rw [hw]
      have := h_step n
      have := psi_mono ψ _ h_step (n + 1) (n + 1 + isoW ⟨ds, os, l, f, false⟩) (by omega)
      simp only [Nat.add_zero]; omega
    · rw [ho, hw, units_nil]
      have e : n + (isoW ⟨ds, os, l, f, false⟩ + 1) = n + 1 + isoW ⟨ds, os, l, f, false⟩ := by omega
      rw [e]; omega
    · rw [he'] at h; cases h
    · rw [he'] at h; cases h
  step_err := by
    intro _ (s : Iso2022JpSt) b n e hi hp hb he
    have hpp : s.pendingPrepended = false := (EncodingRs.Lemmas.FamLaws.iso_pend_none_iff s).mp hp
    obtain ⟨ds, os, l, f, p⟩ := s
    simp only at hpp; subst hpp
    have he' : (isoFeed ⟨ds, os, l, f, false⟩ b).err = some e := he
    show unitsOfList k (isoFeed ⟨ds, os, l, f, false⟩ b).out + replRoom k
      + ψ ((if (isoFeed ⟨ds, os, l, f, false⟩ b).unread then n + 1 else n)
          + isoW (isoFeed ⟨ds, os, l, f, false⟩ b).st)
      ≤ ψ (n + 1 + isoW ⟨ds, os, l, f, false⟩)
    rw [replRoom_eq_needBmp]
    rcases (iso_facts k ds os l f b hi hb).2 with ⟨h, _⟩ | ⟨h, _⟩ | ⟨_, ho, hu, hw⟩ | ⟨_, ho, hw⟩
    · rw [he'] at h; cases h
    · rw [he'] at h; cases h
    · rw [ho, hu, units_nil]
      simp only [Bool.false_eq_true, if_false, Nat.zero_add]
      have h1 := h_step (n + isoW ⟨ds, os, l, f, false⟩)
      have := psi_mono ψ _ h_step (n + isoW (isoFeed ⟨ds, os, l, f, false⟩ b).st)
        (n + isoW ⟨ds, os, l, f, false⟩) (by omega)
      have e : n + 1 + isoW ⟨ds, os, l, f, false⟩ = n + isoW ⟨ds, os, l, f, false⟩ + 1 := by omega
      rw [e]; omega
    · rw [ho, units_nil, ← hw]
      simp only [Nat.zero_add]
      have h1 := h_step (n + 1 + isoW (isoFeed ⟨ds, os, l, f, false⟩ b).st)
      have e : n + 1 + (isoW (isoFeed ⟨ds, os, l, f, false⟩ b).st + 1)
          = n + 1 + isoW (isoFeed ⟨ds, os, l, f, false⟩ b).st + 1 := by omega
      rw [e]
      split
      · exact h1
      · have := psi_mono ψ _ h_step (n + isoW (isoFeed ⟨ds, os, l, f, false⟩ b).st)
          (n + 1 + isoW (isoFeed ⟨ds, os, l, f, false⟩ b).st) (by omega)
        omega
  pend_le := by
    intro (s : Iso2022JpSt) o (s' : Iso2022JpSt) n hi h
    obtain ⟨_, hw, hc⟩ := iso_pend_facts k s o s' hi h
    show needBmp k ≤ ψ (n + isoW s) ∧ unitsOfList k o + ψ (n + isoW s') ≤ ψ (n + isoW s)
    rw [hw]
    have := h_step n
    rcases hc with ⟨hw', hu⟩ | ⟨hw', ho⟩
    · rw [hw']; simp only [Nat.add_zero]; omega
    · rw [hw', ho, units_nil]; omega
  eof_le := by
    intro (s : Iso2022JpSt) e (s' : Iso2022JpSt) hi hp h
    have hpp : s.pendingPrepended = false := (EncodingRs.Lemmas.FamLaws.iso_pend_none_iff s).mp hp
    have hw := (iso_eof_facts s e s' hi h).2 hpp
    show needBmp k ≤ ψ (0 + isoW s) ∧ (repl = true → replRoom k + ψ (0 + isoW s') ≤ ψ (0 + isoW s))
    rw [← hw, replRoom_eq_needBmp]
    simp only [Nat.zero_add]
    have := h_step (isoW s')
    exact ⟨by omega, fun _ => this⟩
  alt_le := by intro _ s src m r _ _ h; cases h
  alt_inv := by intro s src m r _ h; cases h

def isoPot16 : Potential iso2022JpFam .utf16 true :=
  isoPot .utf16 true (fun m => m) (by intro m; simp only [needBmp]; omega)

def isoPot8 (repl : Bool) : Potential iso2022JpFam .utf8 repl :=
  isoPot .utf8 repl (fun m => 3 * m) (by intro m; simp only [needBmp]; omega)

end EncodingRs.Lemmas.MaxLenFam
