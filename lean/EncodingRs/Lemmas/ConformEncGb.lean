import EncodingRs.Lemmas.ConformEncGbR0
import EncodingRs.Lemmas.ConformEncGbR1
import EncodingRs.Lemmas.ConformEncGbR2
import EncodingRs.Lemmas.ConformEncGbR3
import EncodingRs.Lemmas.ConformEncGbR4
import EncodingRs.Lemmas.ConformEncGbR5
import EncodingRs.Lemmas.ConformEncGbR6
import EncodingRs.Lemmas.ConformEncGbR7
import EncodingRs.Lemmas.ConformEncGbR8
import EncodingRs.Lemmas.ConformEncGbR9
/-!
# C03: the GBK and gb18030 encoders of the model are the Standard's, for every code point

Complete evaluation over all code points `< 0x110000` (`native_decide`): model over the
tables regenerated from `/repo/src/data.rs` and `gb18030_2022.rs`, Standard over the vendored
index gb18030 (GB18030-2022), index gb18030 ranges and the 18-row table of the encoder.
Both values of `is GBK` are evaluated in the same pass.
-/
namespace EncodingRs.Lemmas.ConformEnc
open EncodingRs EncodingRs.Model EncodingRs.Spec.Encode

/-- `gbCheck` holds for every code point (the ranges of `ConformEncGbR*.lean` together) -/
theorem gb_check (c : Nat) (hc : c < 0x110000) : gbCheck c = true := by
  by_cases h0 : c < 0x3400
  · exact allFrom_spec _ _ _ gb_check_r0 c (by omega) (by omega)
  by_cases h1 : c < 0x6800
  · exact allFrom_spec _ _ _ gb_check_r1 c (by omega) (by omega)
  by_cases h2 : c < 0x8200
  · exact allFrom_spec _ _ _ gb_check_r2 c (by omega) (by omega)
  by_cases h3 : c < 0x9C00
  · exact allFrom_spec _ _ _ gb_check_r3 c (by omega) (by omega)
  by_cases h4 : c < 0xD000
  · exact allFrom_spec _ _ _ gb_check_r4 c (by omega) (by omega)
  by_cases h5 : c < 0x10000
  · exact allFrom_spec _ _ _ gb_check_r5 c (by omega) (by omega)
  by_cases h6 : c < 0x50000
  · exact allFrom_spec _ _ _ gb_check_r6 c (by omega) (by omega)
  by_cases h7 : c < 0x90000
  · exact allFrom_spec _ _ _ gb_check_r7 c (by omega) (by omega)
  by_cases h8 : c < 0xD0000
  · exact allFrom_spec _ _ _ gb_check_r8 c (by omega) (by omega)
  exact allFrom_spec _ _ _ gb_check_r9 c (by omega) (by omega)

/-- per-character conformance, GBK (`isGBK = true`, `extended = false`) and gb18030 -/
theorem gb_conforms (isGBK : Bool) (c : Nat) (hc : c < 0x110000) :
    gb18030 isGBK c = resOf (gbEncodeChar (!isGBK) c) c := by
  have h := gb_check c hc
  unfold gbCheck at h
  rw [Bool.and_eq_true] at h
  unfold gb18030
  rw [gb_ptr]
  cases isGBK
  · exact of_decide_eq_true h.2
  · exact of_decide_eq_true h.1

end EncodingRs.Lemmas.ConformEnc
