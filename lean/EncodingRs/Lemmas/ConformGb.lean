import EncodingRs.Lemmas.ConformFin
/-!
C01 for gb18030 / GBK: simulation with held bytes.  After a bad third or fourth byte the
Standard restores the second (and third) byte; the crate keeps the second byte as
`pending_ascii` (written at the start of the next call) and the third as the new pending
first byte.  Control structure: symbolic.  Tables: complete finite evaluation — the
two-byte part (126 leads × 256 bytes, regenerated GBK/GB2312 tables vs vendored index
gb18030) and the four-byte part (all pointers 0 … 39419, regenerated range tables vs
vendored index gb18030 ranges); the astral range is arithmetic on both sides.
-/
set_option linter.unusedSimpArgs false
namespace EncodingRs.Lemmas.Conform
open EncodingRs EncodingRs.Model EncodingRs.Spec EncodingRs.Spec.Decode EncodingRs.Lemmas.Core

instance : DecidableEq gb18030.σ := inferInstanceAs (DecidableEq Gb18030)

def gbPσ : GbPending → Gb18030
  | .none => ⟨0, 0, 0⟩
  | .one a => ⟨a + 0x81, 0, 0⟩
  | .two a sm => ⟨a + 0x81, sm + 0x30, 0⟩
  | .three a sm tm => ⟨a + 0x81, sm + 0x30, tm + 0x81⟩

def gbσ (s : GbSt) : Gb18030 :=
  match s.pendingAscii with
  | some _ => ⟨0, 0, 0⟩
  | none => gbPσ s.pending

def gbHeld (s : GbSt) : List Nat :=
  match s.pendingAscii with
  | none => []
  | some x =>
    match s.pending with
    | .one tm => [x, tm + 0x81]
    | _ => [x]

def gbBack (s : GbSt) : Nat :=
  match s.pendingAscii with
  | some _ => 0
  | none => gbCount s.pending

def gbPInv : GbPending → Prop
  | .none => True
  | .one a => a < 126
  | .two a sm => a < 126 ∧ sm < 10
  | .three a sm tm => a < 126 ∧ sm < 10 ∧ tm < 126

def gbInvc (s : GbSt) : Prop :=
  gbPInv s.pending ∧
  ∀ x, s.pendingAscii = some x → (0x30 ≤ x ∧ x ≤ 0x39) ∧ (s.pending = .none ∨ ∃ tm, s.pending = .one tm)

/-! ### finite obligations -/

def gbOkB (s : GbSt) : Bool :=
  s.pendingAscii.isNone &&
  (match s.pending with
    | .none => true
    | .one a => decide (a < 126)
    | .two a sm => decide (a < 126) && decide (sm < 10)
    | .three a sm tm => decide (a < 126) && decide (sm < 10) && decide (tm < 126))

/-- a step without held bytes before or after it: one iteration of the Standard's loop -/
def gbStepOk (s : GbSt) (b : Nat) : Bool :=
  stepMatches gbσ (gb18030Handler (gbσ s) (some b)) (gbFeed s b) b && gbOkB (gbFeed s b).st &&
  decide (gbCount (gbFeed s b).st.pending ≤ gbCount s.pending + (if (gbFeed s b).unread = true then 0 else 1))

/-- neutral state: every byte (no table involved) -/
theorem gb_none_check : (List.range 256).all (fun b => gbStepOk ⟨.none, none⟩ b) = true := by decide +kernel

/-- after a first byte: every (first, byte) — the two-byte part of index gb18030 -/
theorem gb_one_check : (List.range 126).all (fun a => (List.range 256).all fun b => gbStepOk ⟨.one a, none⟩ b) = true := by
  native_decide

/-- `gbFour` as a function of the pointer -/
def gbFourP (pointer : Nat) : Option Nat :=
  if pointer ≤ 39419 then
    if pointer = 7457 then some 0xE7C7 else some (gb18030RangeDecode pointer)
  else if 189000 ≤ pointer ∧ pointer ≤ 1237575 then some (pointer - (189000 - 0x10000))
  else none

theorem gbFour_eq (a b c d : Nat) : gbFour a b c d = gbFourP (a * (10 * 126 * 10) + b * (10 * 126) + c * 10 + d) := rfl

/-- the BMP four-byte pointers: regenerated range tables vs vendored index gb18030 ranges -/
theorem gb_ranges_check : (List.range 39420).all (fun p => gbFourP p == gb18030RangesCodePoint p) = true := by
  native_decide

theorem ranges_all_le : ∀ e ∈ indexGb18030Ranges, e.1 ≤ 189000 := by decide +kernel
theorem ranges_last : indexGb18030Ranges.getLast? = some (189000, 0x10000) := by decide +kernel

theorem gbFourP_spec (p : Nat) : gbFourP p = gb18030RangesCodePoint p := by
  by_cases h : p ≤ 39419
  · have := all_range' gb_ranges_check p (by omega)
    simpa using this
  · unfold gbFourP gb18030RangesCodePoint
    by_cases h2 : p < 189000
    · ifs_omega
    · by_cases h3 : p ≤ 1237575
      · have hf : indexGb18030Ranges.filter (fun e => decide (e.1 ≤ p)) = indexGb18030Ranges := by
          rw [List.filter_eq_self]
          intro e he
          have := ranges_all_le e he
          simp only [decide_eq_true_eq]; omega
        rw [hf, ranges_last]
        ifs_omega
        simp only [Option.some.injEq]
        omega
      · ifs_omega


theorem gbOkB_sound (s : GbSt) (h : gbOkB s = true) : gbInvc s ∧ s.pendingAscii = none := by
  obtain ⟨pd, pa⟩ := s
  unfold gbOkB at h
  simp only [Bool.and_eq_true, Option.isNone_iff_eq_none] at h
  obtain ⟨hpa, hpd⟩ := h
  have hpa' : pa = none := hpa
  subst hpa'
  refine ⟨⟨?_, by intro x hx; cases hx⟩, rfl⟩
  cases pd <;> simp_all [gbPInv]

theorem gb_feed_of_ok (s : GbSt) (b : Nat) (hpa : s.pendingAscii = none) (h : gbStepOk s b = true) :
    gbInvc (gbFeed s b).st ∧
    ∀ (rest : List Nat) (p : Nat), gbBack s ≤ p → ∃ n p', n ≤ 8 ∧
      p' + (gbHeld (gbFeed s b).st).length = p + (gbHeld s).length + (if (gbFeed s b).unread = true then 0 else 1) ∧
      gbBack (gbFeed s b).st ≤ p' ∧
      Steps gb18030 n ⟨gbσ s, gbHeld s ++ b :: rest, p⟩
        ((gbFeed s b).out.map Ev.cp ++
          errEv (p + (gbHeld s).length + (if (gbFeed s b).unread = true then 0 else 1)) (gbFeed s b).err)
        ⟨gbσ (gbFeed s b).st, gbHeld (gbFeed s b).st ++ (if (gbFeed s b).unread = true then b :: rest else rest), p'⟩ := by
  unfold gbStepOk at h
  simp only [Bool.and_eq_true, decide_eq_true_eq] at h
  obtain ⟨⟨hm, hok⟩, hcnt⟩ := h
  obtain ⟨hinv, hpa'⟩ := gbOkB_sound _ hok
  refine ⟨hinv, ?_⟩
  intro rest p hbk
  have hh : gbHeld s = [] := by unfold gbHeld; rw [hpa]
  have hh' : gbHeld (gbFeed s b).st = [] := by unfold gbHeld; rw [hpa']
  have hb1 : gbBack s = gbCount s.pending := by unfold gbBack; rw [hpa]
  have hb2 : gbBack (gbFeed s b).st = gbCount (gbFeed s b).st.pending := by unfold gbBack; rw [hpa']
  have := feed_of_stepMatches gb18030 gbσ (gbσ s) (gbFeed s b) b hm rest p
  refine ⟨1, p + (if (gbFeed s b).unread = true then 0 else 1), by omega, ?_, ?_, ?_⟩
  · rw [hh, hh']; simp
  · rw [hb2]; rw [hb1] at hbk; omega
  · rw [hh, hh']
    simpa using this

theorem wsub8_ge (b c : Nat) (hb : b < 256) (hc : c < 256) (h : c ≤ b) : wsub8 b c = b - c := by
  unfold wsub8; omega
theorem wsub8_lt' (b c : Nat) (hb : b < 256) (hc : c < 256) (h : b < c) : wsub8 b c = b + 256 - c := by
  unfold wsub8; omega

/-- second byte is a digit: every third byte in 0x81..0xFE -/
theorem gb_two_ok (a sm b : Nat) (ha : a < 126) (hsm : sm < 10) (hb : b < 256) (h1 : 0x81 ≤ b) (h2 : b ≤ 0xFE) :
    gbStepOk ⟨.two a sm, none⟩ b = true := by
  have hw := wsub8_ge b 0x81 hb (by omega) h1
  unfold gbStepOk stepMatches gbFeed gb18030Handler gbσ gbPσ gbOkB
  dsimp only
  rw [hw]
  ifs_omega
  have e : b - 0x81 + 0x81 = b := by omega
  simp [FeedRes.ok, actMatches, gbσ, gbPσ, gbCount, e]
  omega

/-- three bytes pending, fourth is a digit: the four-byte pointer -/
theorem gb_three_ok (a sm tm b : Nat) (ha : a < 126) (hsm : sm < 10) (htm : tm < 126) (hb : b < 256)
    (h1 : 0x30 ≤ b) (h2 : b ≤ 0x39) : gbStepOk ⟨.three a sm tm, none⟩ b = true := by
  have hw := wsub8_ge b 0x30 hb (by omega) h1
  obtain ⟨P, hP⟩ : ∃ P, a * (10 * 126 * 10) + sm * (10 * 126) + tm * 10 + (b - 0x30) = P := ⟨_, rfl⟩
  have hptr : (a + 0x81 - 0x81) * (10 * 126 * 10) + (sm + 0x30 - 0x30) * (10 * 126) + (tm + 0x81 - 0x81) * 10 + b - 0x30
      = P := by omega
  have hmodel : gbFeed ⟨.three a sm tm, none⟩ b =
      (match gb18030RangesCodePoint P with
        | some c => FeedRes.ok gbInit [c]
        | none => FeedRes.bad gbInit 4 0) := by
    unfold gbFeed
    dsimp only
    rw [hw]
    ifs_omega
    rw [gbFour_eq, hP, gbFourP_spec]
    cases gb18030RangesCodePoint P <;> rfl
  have hspec : gb18030Handler (gbσ ⟨.three a sm tm, none⟩) (some b) =
      (match gb18030RangesCodePoint P with
        | none => ⟨⟨0, 0, 0⟩, [], .error 4 0⟩
        | some cp => ⟨⟨0, 0, 0⟩, [], .emit [cp]⟩) := by
    unfold gb18030Handler gbσ gbPσ
    dsimp only
    ifs_omega
    simp only [hptr]
    cases gb18030RangesCodePoint P <;> rfl
  unfold gbStepOk
  rw [hmodel, hspec]
  cases gb18030RangesCodePoint P <;>
    simp [stepMatches, gbOkB, FeedRes.ok, FeedRes.bad, actMatches, gbσ, gbPσ, gbInit, gbCount]

theorem gb_pend (s : GbSt) :
    gbFam.pend s = match s.pendingAscii with
      | some a => some ([a], (⟨s.pending, none⟩ : GbSt))
      | none => none := rfl

theorem gb_h_digit (x : Nat) (h1 : 0x30 ≤ x) (h2 : x ≤ 0x39) :
    gb18030.handler ⟨0, 0, 0⟩ (some x) = ⟨⟨0, 0, 0⟩, [], .emit [x]⟩ := by
  have hh : gb18030.handler = gb18030Handler := rfl
  rw [hh]
  unfold gb18030Handler
  dsimp only
  ifs_omega
  try rfl

theorem gb_h_first (tm : Nat) (h : tm < 126) :
    gb18030.handler ⟨0, 0, 0⟩ (some (tm + 0x81)) = ⟨⟨tm + 0x81, 0, 0⟩, [], .continue⟩ := by
  have hh : gb18030.handler = gb18030Handler := rfl
  rw [hh]
  unfold gb18030Handler
  dsimp only
  ifs_omega
  try rfl

theorem gb_fin0 (q : Nat) : stepFn gb18030 ⟨⟨0, 0, 0⟩, [], q⟩ = none := fin_eof gb18030 _ q rfl

theorem gb_ref0 (q : Nat) : ref gbFam ⟨.none, none⟩ [] q = [] := by
  rw [ref_nil gbFam ⟨.none, none⟩ q rfl]; rfl

theorem gb_eof (pd : GbPending) :
    gbFam.eof ⟨pd, none⟩ = if pd = .none then none else some ((gbCount pd, 0), (⟨.none, none⟩ : GbSt)) := rfl

theorem gb_h_eof (pd : GbPending) (hpd : gbPInv pd) (hne : pd ≠ .none) :
    gb18030.handler (gbPσ pd) none = ⟨⟨0, 0, 0⟩, [], .error (gbCount pd) 0⟩ := by
  have hh : gb18030.handler = gb18030Handler := rfl
  rw [hh]
  cases pd with
  | none => exact absurd rfl hne
  | one a => unfold gb18030Handler gbPσ; dsimp only; ifs_omega; rfl
  | two a sm => unfold gb18030Handler gbPσ; dsimp only; ifs_omega; rfl
  | three a sm tm => unfold gb18030Handler gbPσ; dsimp only; ifs_omega; rfl

def gbSim : Sim gbFam gb18030 where
  Inv := gbInvc
  σ_of := gbσ
  held := gbHeld
  back := gbBack
  init_back := rfl
  init_inv := ⟨trivial, (by intro x h; cases h)⟩
  init_st := rfl
  init_held := rfl
  rank_le := by
    intro s _
    show gbRank s ≤ 15
    obtain ⟨pd, pa⟩ := s
    unfold gbRank
    cases pd <;> simp only [gbCount] <;> split <;> omega
  flush := by
    intro s o s' hi hp
    obtain ⟨pd, pa⟩ := s
    rw [gb_pend] at hp
    cases pa with
    | none => cases hp
    | some x =>
      simp only [Option.some.injEq, Prod.mk.injEq] at hp
      obtain ⟨rfl, rfl⟩ := hp
      obtain ⟨hpd, hpa⟩ := hi
      obtain ⟨hx, hcase⟩ := hpa x rfl
      refine ⟨⟨hpd, (by intro y h; cases h)⟩, rfl, ?_⟩
      intro rest p _
      have e1 := gb_h_digit x hx.1 hx.2
      rcases hcase with h | ⟨tm, h⟩
      · have h' : pd = .none := h
        subst h'
        have s1 := steps_byte gb18030 (rest := rest) (p := p) e1 (by simp)
        refine ⟨1, p + 1, by omega, by simp [gbHeld], by simp [gbBack, gbCount], ?_⟩
        simpa [gbσ, gbHeld, gbPσ, evsOf] using s1
      · have h' : pd = .one tm := h
        subst h'
        have htm : tm < 126 := hpd
        have e2 := gb_h_first tm htm
        have s1 := steps_byte gb18030 (rest := (tm + 0x81) :: rest) (p := p) e1 (by simp)
        have s2 := steps_byte gb18030 (rest := rest) (p := p + 1) e2 (by simp)
        have := Steps_trans gb18030 s1 s2
        refine ⟨2, p + 2, by omega, by simp [gbHeld], by simp [gbBack, gbCount], ?_⟩
        simpa [gbσ, gbHeld, gbPσ, evsOf] using this
  feed := by
    intro s b hi hp hb
    obtain ⟨pd, pa⟩ := s
    rw [gb_pend] at hp
    cases pa with
    | some x => cases hp
    | none =>
      obtain ⟨hpd, _⟩ := hi
      have hfd : gbFam.feed = gbFeed := rfl
      cases pd with
      | none => rw [hfd]; exact gb_feed_of_ok ⟨.none, none⟩ b rfl (all_range' gb_none_check b hb)
      | one a =>
        have ha : a < 126 := hpd
        rw [hfd]; exact gb_feed_of_ok ⟨.one a, none⟩ b rfl (all_range' (all_range' gb_one_check a ha) b hb)
      | two a sm =>
        obtain ⟨ha, hsm⟩ : a < 126 ∧ sm < 10 := hpd
        by_cases hr : 0x81 ≤ b ∧ b ≤ 0xFE
        · rw [hfd]; exact gb_feed_of_ok ⟨.two a sm, none⟩ b rfl (gb_two_ok a sm b ha hsm hb hr.1 hr.2)
        · -- bad third byte: the Standard restores « second, byte »
          have hw : wsub8 b 0x81 > 0xFE - 0x81 := by unfold wsub8; omega
          have hf : gbFam.feed ⟨.two a sm, none⟩ b = FeedRes.bad ⟨.none, some (sm + 0x30)⟩ 1 1 true := by
            have hfd : gbFam.feed = gbFeed := rfl
            rw [hfd]
            unfold gbFeed
            dsimp only
            rw [if_pos hw]
            try rfl
          rw [hf]
          refine ⟨⟨trivial, ?_⟩, ?_⟩
          · intro x hx
            simp only [FeedRes.bad, Option.some.injEq] at hx
            subst hx
            exact ⟨⟨by omega, by omega⟩, Or.inl rfl⟩
          · intro rest p hbk
            have hp2 : 2 ≤ p := by simpa [gbBack, gbCount] using hbk
            have e1 : gb18030.handler ⟨a + 0x81, sm + 0x30, 0⟩ (some b) = ⟨⟨0, 0, 0⟩, [sm + 0x30, b], .error 1 0⟩ := by
              have hh : gb18030.handler = gb18030Handler := rfl
              rw [hh]
              unfold gb18030Handler
              dsimp only
              ifs_omega
              try rfl
            have s1 := steps_byte gb18030 (rest := rest) (p := p) e1 (by simp)
            refine ⟨1, p + 1 - 2, by omega, ?_, by simp [gbBack, FeedRes.bad], ?_⟩
            · simp [gbHeld, FeedRes.bad]; omega
            · have ee : p + 1 - 2 - 0 - 1 = p - 1 - 1 := by omega
              have e3 : p + 1 - 2 = p - 1 := by omega
              simpa [gbσ, gbHeld, gbPσ, FeedRes.bad, evsOf, errEv, mkErr, ee, e3] using s1
      | three a sm tm =>
        obtain ⟨ha, hsm, htm⟩ : a < 126 ∧ sm < 10 ∧ tm < 126 := hpd
        by_cases hr : 0x30 ≤ b ∧ b ≤ 0x39
        · rw [hfd]; exact gb_feed_of_ok ⟨.three a sm tm, none⟩ b rfl (gb_three_ok a sm tm b ha hsm htm hb hr.1 hr.2)
        · -- bad fourth byte: the Standard restores « second, third, byte »
          have hw : wsub8 b 0x30 > 0x39 - 0x30 := by unfold wsub8; omega
          have hf : gbFam.feed ⟨.three a sm tm, none⟩ b = FeedRes.bad ⟨.one tm, some (sm + 0x30)⟩ 1 2 true := by
            have hfd : gbFam.feed = gbFeed := rfl
            rw [hfd]
            unfold gbFeed
            dsimp only
            rw [if_pos hw]
            try rfl
          rw [hf]
          refine ⟨⟨htm, ?_⟩, ?_⟩
          · intro x hx
            simp only [FeedRes.bad, Option.some.injEq] at hx
            subst hx
            exact ⟨⟨by omega, by omega⟩, Or.inr ⟨tm, rfl⟩⟩
          · intro rest p hbk
            have hp3 : 3 ≤ p := by simpa [gbBack, gbCount] using hbk
            have e1 : gb18030.handler ⟨a + 0x81, sm + 0x30, tm + 0x81⟩ (some b)
                = ⟨⟨0, 0, 0⟩, [sm + 0x30, tm + 0x81, b], .error 1 0⟩ := by
              have hh : gb18030.handler = gb18030Handler := rfl
              rw [hh]
              unfold gb18030Handler
              dsimp only
              ifs_omega
              try rfl
            have s1 := steps_byte gb18030 (rest := rest) (p := p) e1 (by simp)
            refine ⟨1, p + 1 - 3, by omega, ?_, by simp [gbBack, FeedRes.bad], ?_⟩
            · simp [gbHeld, FeedRes.bad]; omega
            · have ee : p + 1 - 3 - 0 - 1 = p - 2 - 1 := by omega
              have e3 : p + 1 - 3 = p - 2 := by omega
              simpa [gbσ, gbHeld, gbPσ, FeedRes.bad, evsOf, errEv, mkErr, ee, e3] using s1
  fin := by
    intro s hi p _
    obtain ⟨pd, pa⟩ := s
    obtain ⟨hpd, hpa⟩ := hi
    cases pa with
    | some x =>
      obtain ⟨hx, hcase⟩ := hpa x rfl
      have e1 := gb_h_digit x hx.1 hx.2
      have hfl : ∀ q, ref gbFam ⟨pd, some x⟩ [] q = [Ev.cp x] ++ ref gbFam ⟨pd, none⟩ [] q := fun q =>
        ref_flush' gbFam ⟨pd, some x⟩ [x] ⟨pd, none⟩ [] q rfl rfl
      rw [hfl]
      rcases hcase with h | ⟨tm, h⟩
      · have h' : pd = .none := h
        subst h'
        rw [gb_ref0]
        have s1 := steps_byte gb18030 (rest := []) (p := p) e1 (by simp)
        refine ⟨1, _, by omega, ?_, gb_fin0 (p + 1)⟩
        simpa [gbσ, gbHeld, evsOf] using s1
      · have h' : pd = .one tm := h
        subst h'
        have htm : tm < 126 := hpd
        have e2 := gb_h_first tm htm
        have e3 := gb_h_eof (.one tm) htm (by simp)
        have hr : ∀ q, ref gbFam ⟨.one tm, none⟩ [] q = [Ev.err (q - 0 - 1) 1] := by
          intro q
          rw [ref_nil gbFam ⟨.one tm, none⟩ q rfl, gb_eof]
          simp [gb_ref0, mkErr, gbCount]
        rw [hr]
        have s1 := steps_byte gb18030 (rest := [tm + 0x81]) (p := p) e1 (by simp)
        have s2 := steps_byte gb18030 (rest := []) (p := p + 1) e2 (by simp)
        have s3 := step_eof gb18030 (gbPσ (.one tm)) (p + 1 + 1) (by rw [e3]; simp)
        rw [e3] at s3
        have := Steps_trans gb18030 (Steps_trans gb18030 s1 s2) s3
        refine ⟨3, _, by omega, ?_, gb_fin0 (p + 1 + 1)⟩
        simpa [gbσ, gbHeld, gbPσ, evsOf, gbCount] using this
    | none =>
      have hheld : gbHeld ⟨pd, none⟩ = [] := rfl
      rw [hheld, ref_nil gbFam ⟨pd, none⟩ _ rfl, gb_eof]
      simp only [List.length_nil, Nat.add_zero]
      by_cases hn : pd = .none
      · subst hn
        refine ⟨0, _, by omega, ?_, gb_fin0 p⟩
        simpa [gbσ, gbPσ] using Steps.refl (D := gb18030) ⟨⟨0, 0, 0⟩, [], p⟩
      · have e3 := gb_h_eof pd hpd hn
        have s3 := step_eof gb18030 (gbPσ pd) p (by rw [e3]; simp)
        rw [e3] at s3
        refine ⟨1, _, by omega, ?_, gb_fin0 p⟩
        simpa [hn, gbσ, gb_ref0, evsOf, mkErr] using s3

theorem decode_conforms_gb (bytes : List Nat) (hb : ∀ b ∈ bytes, b < 256) :
    Runs gb18030 bytes (ref gbFam gbFam.init bytes 0) ∧ ref gbFam gbFam.init bytes 0 = runGb18030 bytes :=
  sim_conforms gbSim bytes hb

end EncodingRs.Lemmas.Conform
