import EncodingRs.Lemmas.OneShot
import EncodingRs.Lemmas.ConformEncRepl
import EncodingRs.Thm.C04
import EncodingRs.Thm.C20
import EncodingRs.Thm.C03
import EncodingRs.Lemmas.OneShotCap
/-! Lemmas for C11, `Encoding::encode`: the with-replacement wrapper `Model.encRepl` against the
chunk-free reference run for EVERY stop policy, capacity and result (`InputEmpty` or `OutputFull`),
from any state (the existing `encRepl_html_of` covers the never-stop policy and `InputEmpty` only);
the loop of `encode`; the validated ASCII prefix. -/
namespace EncodingRs.Lemmas.OneShotEnc
open EncodingRs EncodingRs.Model EncodingRs.Model.OneShot EncodingRs.Lemmas.EncCore
open EncodingRs.Lemmas.ConformEnc (itemsFn itemsFn_split itemsFn_nil widthSum)
open EncodingRs.Lemmas.OneShot (passPred passPred_ascii)

/-! ### events of the reference run as bytes with numeric character references, and the flag -/

/-- the bytes an event list stands for when every `Unmappable(c)` is written as `&#c;` -/
def htmlE : List EEv → List Nat
  | [] => []
  | .byte b :: t => b :: htmlE t
  | .unmap u :: t => ncr u ++ htmlE t

/-- some character was reported unmappable -/
def anyUnmap : List EEv → Bool
  | [] => false
  | .byte _ :: t => anyUnmap t
  | .unmap _ :: _ => true

theorem htmlE_append : ∀ (a b : List EEv), htmlE (a ++ b) = htmlE a ++ htmlE b
  | [], b => rfl
  | .byte x :: t, b => by simp [htmlE, htmlE_append t b]
  | .unmap u :: t, b => by simp [htmlE, htmlE_append t b]

theorem htmlE_bytes : ∀ (l : List Nat), htmlE (l.map EEv.byte) = l
  | [] => rfl
  | a :: t => by simp [htmlE, htmlE_bytes t]

theorem anyUnmap_append : ∀ (a b : List EEv), anyUnmap (a ++ b) = (anyUnmap a || anyUnmap b)
  | [], b => by simp [anyUnmap]
  | .byte x :: t, b => by simp [anyUnmap, anyUnmap_append t b]
  | .unmap u :: t, b => by simp [anyUnmap]

theorem anyUnmap_bytes : ∀ (l : List Nat), anyUnmap (l.map EEv.byte) = false
  | [] => rfl
  | a :: t => by simp [anyUnmap, anyUnmap_bytes t]

/-- the reference of C03 (`erefHtml`, what the Standard's "encode" in error mode html yields by
`Thm.C03.encode_conforms`) is `htmlE` of the reference of C04 (`eref`, bytes and `Unmappable` reports
of any protocol-following history of the raw API) -/
theorem erefHtml_eq (F : EFam) : ∀ (text : List Nat) (s : F.σ),
    ConformEnc.erefHtml F s text = htmlE (eref F s text)
  | [], s => by simp [ConformEnc.erefHtml, eref, htmlE_bytes]
  | c :: t, s => by
    unfold ConformEnc.erefHtml
    rw [eref]
    unfold ConformEnc.charOut
    have hnf := processChar_unlimited_not_full F (F.rank s c + 1) s c []
    cases h : processChar F (F.rank s c + 1) s c .unlimited [] with
    | done st out b =>
      simp only [ConformEnc.ncrOfReport, List.nil_append]
      rw [htmlE_append, htmlE_bytes, erefHtml_eq F t st]
    | unmappable st out u =>
      simp only [ConformEnc.ncrOfReport]
      rw [htmlE_append, htmlE_bytes, erefHtml_eq F t st]
      simp [htmlE]
    | full st out need => rw [h] at hnf; simp [isFull] at hnf

/-! ### what a raw call leaves unread, in terms of the source buffer -/

theorem widthSum_append (a b : List (Nat × Nat)) : widthSum (a ++ b) = widthSum a + widthSum b := by
  simp [widthSum, List.map_append, List.sum_append]

/-- the items after a prefix of the items are the items of the buffer after the prefix's units -/
theorem itemsFn_drop (utf16 : Bool) (pre post : List (Nat × Nat)) (src : List Nat)
    (h : itemsFn utf16 src = pre ++ post) : itemsFn utf16 (src.drop (widthSum pre)) = post := by
  rcases List.eq_nil_or_concat pre with rfl | ⟨pre', x, rfl⟩
  · simpa [widthSum] using h
  · obtain ⟨c, w⟩ := x
    have h' : itemsFn utf16 src = pre' ++ (c, w) :: post := by rw [h]; simp
    have := itemsFn_split utf16 pre' src c w post h'
    rw [List.concat_eq_append, widthSum_append]
    simpa [widthSum] using this

theorem erunI_split (E : EFam) (last : Bool) : ∀ (items : List (Nat × Nat)) (s : E.σ) (b : Budget),
    ∃ pre, items = pre ++ (erunI E last s items b).2 ∧ (erunI E last s items b).1.read = widthSum pre := by
  intro items
  induction items with
  | nil =>
    intro s b
    refine ⟨[], rfl, ?_⟩
    simp only [erunI, erun, widthSum, List.map_nil, List.sum_nil]
    repeat' split
    all_goals rfl
  | cons it tl ih =>
    intro s b
    obtain ⟨c, w⟩ := it
    simp only [erunI]
    cases hres : processChar E (E.rank s c + 1) s c b [] with
    | full st out need => exact ⟨[], rfl, rfl⟩
    | unmappable st out u => exact ⟨[(c, w)], rfl, by simp [widthSum]⟩
    | done st out b' =>
      obtain ⟨pre, h1, h2⟩ := ih st b'
      refine ⟨(c, w) :: pre, by simp only [List.cons_append]; rw [← h1], ?_⟩
      simp only [h2, widthSum, List.map_cons, List.sum_cons]
      omega

/-- the characters of a source buffer, as the source reads them -/
def chars (utf16 : Bool) (src : List Nat) : List Nat := (itemsFn utf16 src).map Prod.fst

/-- **one raw call on a source buffer, any stop policy** (`last = true`): its events followed by the
reference run over the characters of the unread rest of the BUFFER are the reference run over the
characters of the buffer; after `InputEmpty` nothing is left -/
theorem ecall_sound (E : EFam) (L : ELaws E) (utf16 : Bool) (s : E.σ) (src : List Nat) (b : Budget) :
    eevs (ecall E utf16 s src true b)
        ++ eref E (ecall E utf16 s src true b).st (chars utf16 (src.drop (ecall E utf16 s src true b).read))
      = eref E s (chars utf16 src) ∧
    ((ecall E utf16 s src true b).res = .inputEmpty →
      eref E (ecall E utf16 s src true b).st (chars utf16 (src.drop (ecall E utf16 s src true b).read)) = []) := by
  have he : ecall E utf16 s src true b = (erunI E true s (itemsFn utf16 src) b).1 := by
    rw [erunI_fst]; rfl
  have hs := erunI_sound E L true (itemsFn utf16 src) s b [] (fun _ => rfl)
  obtain ⟨pre, h1, h2⟩ := erunI_split E true (itemsFn utf16 src) s b
  have hrest : itemsFn utf16 (src.drop (erunI E true s (itemsFn utf16 src) b).1.read)
      = (erunI E true s (itemsFn utf16 src) b).2 := by
    rw [h2]; exact itemsFn_drop utf16 pre _ src h1
  simp only [List.append_nil] at hs
  rw [he]
  unfold chars
  rw [hrest]
  refine ⟨hs, fun hie => ?_⟩
  obtain ⟨k1, k2⟩ := Thm.C04.final_nothing_left E L (itemsFn utf16 src) s b hie
  rw [k1]; exact k2

/-! ### the with-replacement wrapper, any stop policy -/

/-- the loop of `encode_from_utf8` / `encode_from_utf16` -/
theorem encRepl_go_sound (E : EFam) (L : ELaws E) (hpend : ∀ s, E.hasPending s = false → (E.eof s).1 = [])
    (utf16 : Bool) (src : List Nat) (eff : Nat) :
    ∀ (fuel : Nat) (s : E.σ) (budgets : List Budget) (tr tw : Nat) (acc : List Nat) (had : Bool)
      (inner : List (Nat × Nat × ERes × Nat)) (r : EReplRes E.σ),
      encRepl.go E utf16 true fuel s src budgets eff tr tw acc had inner = some r →
      (r.res = .inputEmpty ∨ r.res = .outputFull) ∧
      acc ++ htmlE (eref E s (chars utf16 (src.drop tr)))
        = r.out ++ htmlE (eref E r.st (chars utf16 (src.drop r.read))) ∧
      (had || anyUnmap (eref E s (chars utf16 (src.drop tr))))
        = (r.hadUnmappables || anyUnmap (eref E r.st (chars utf16 (src.drop r.read)))) ∧
      (r.res = .inputEmpty → eref E r.st (chars utf16 (src.drop r.read)) = [])
  | 0, _, _, _, _, _, _, _, _, h => by simp [encRepl.go] at h
  | fuel + 1, s, budgets, tr, tw, acc, had, inner, r, h => by
    unfold encRepl.go at h
    simp only at h
    obtain ⟨hs, hfin⟩ := ecall_sound E L utf16 s (src.drop tr) (budgets.headD .unlimited)
    rw [List.drop_drop] at hs hfin
    generalize ecall E utf16 s (src.drop tr) true (budgets.headD .unlimited) = r0 at h hs hfin
    cases hr0 : r0.res with
    | inputEmpty =>
      rw [hr0] at h
      simp only [Option.some.injEq] at h
      subst h
      have hnil := hfin hr0
      simp only [eevs, hr0, List.append_nil] at hs
      rw [hnil, List.append_nil] at hs
      simp only
      rw [hnil, ← hs, htmlE_bytes, anyUnmap_bytes]
      simp [htmlE, anyUnmap]
    | outputFull =>
      rw [hr0] at h
      simp only [Option.some.injEq] at h
      subst h
      simp only [eevs, hr0, List.append_nil] at hs
      simp only
      rw [← hs, htmlE_append, htmlE_bytes, anyUnmap_append, anyUnmap_bytes]
      simp
    | unmappable c =>
      rw [hr0] at h
      simp only at h
      simp only [eevs, hr0] at hs
      have hhtml : htmlE (eref E s (chars utf16 (src.drop tr)))
          = r0.out ++ ncr c ++ htmlE (eref E r0.st (chars utf16 (src.drop (tr + r0.read)))) := by
        rw [← hs, htmlE_append, htmlE_append, htmlE_bytes]
        simp [htmlE]
      have hany : anyUnmap (eref E s (chars utf16 (src.drop tr))) = true := by
        rw [← hs, anyUnmap_append, anyUnmap_append, anyUnmap_bytes]
        simp [anyUnmap]
      split at h
      · split at h
        · rename_i hdone
          simp only [Option.some.injEq] at h
          subst h
          simp only
          have hdrop : src.drop (tr + r0.read) = [] := by rw [hdone.1]; exact List.drop_length
          have hp : E.hasPending r0.st = false := by simpa using hdone.2
          have hnil : eref E r0.st (chars utf16 (src.drop (tr + r0.read))) = [] := by
            rw [hdrop]; unfold chars; rw [itemsFn_nil]; simp [eref, hpend _ hp]
          rw [hhtml, hany, hnil]
          simp [htmlE, anyUnmap]
        · simp only [Option.some.injEq] at h
          subst h
          simp only
          rw [hhtml, hany]
          simp
      · obtain ⟨i1, i2, i3, i4⟩ := encRepl_go_sound E L hpend utf16 src eff fuel r0.st budgets.tail _ _ _ true _ r h
        refine ⟨i1, ?_, ?_, i4⟩
        · rw [hhtml, ← i2]; simp [List.append_assoc]
        · rw [hany, ← i3]; simp

/-- **`encode_from_utf8` / `encode_from_utf16` with `last = true`, for every stop policy of the inner
calls, every capacity and both results**: what the call wrote, followed by the reference of the unread
rest of the buffer from the state it left, is the reference of the buffer; likewise for the flag;
after `InputEmpty` nothing is left -/
theorem encRepl_sound (E : EFam) (L : ELaws E) (hpend : ∀ s, E.hasPending s = false → (E.eof s).1 = [])
    (canAll : Bool) (ncrExtra : Nat) (utf16 : Bool) (cap fuel : Nat) (s : E.σ) (src : List Nat)
    (budgets : List Budget) (r : EReplRes E.σ)
    (h : encRepl E canAll ncrExtra utf16 true cap fuel s src budgets = some r) :
    (r.res = .inputEmpty ∨ r.res = .outputFull) ∧
    htmlE (eref E s (chars utf16 src)) = r.out ++ htmlE (eref E r.st (chars utf16 (src.drop r.read))) ∧
    anyUnmap (eref E s (chars utf16 src))
      = (r.hadUnmappables || anyUnmap (eref E r.st (chars utf16 (src.drop r.read)))) ∧
    (r.res = .inputEmpty → eref E r.st (chars utf16 (src.drop r.read)) = []) := by
  cases fuel with
  | zero => simp [encRepl] at h
  | succ fuel =>
    rw [encRepl] at h
    split at h
    · split at h
      · rename_i hempty
        simp only [Option.some.injEq] at h
        subst h
        have hsrc : src = [] := List.isEmpty_iff.mp hempty.1
        have hp : E.hasPending s = false := by simpa using hempty.2
        subst hsrc
        have : eref E s (chars utf16 []) = [] := by unfold chars; rw [itemsFn_nil]; simp [eref, hpend s hp]
        simp [this, htmlE, anyUnmap]
      · simp only [Option.some.injEq] at h
        subst h
        simp
    · obtain ⟨i1, i2, i3, i4⟩ := encRepl_go_sound E L hpend utf16 src _ fuel s budgets 0 0 [] false [] r h
      simp only [List.drop_zero, List.nil_append, Bool.false_or] at i2 i3
      exact ⟨i1, i2, i3, i4⟩


/-! ### the loop of `Encoding::encode` -/

/-- **the loop of `encode`**: for every stop policy of every inner call, every capacity / slack and
every number of `OutputFull` / `reserve_exact` rounds, what it appends is the reference run (with
numeric character references) over the characters of the `&str` slice it was given, and its flag is
"the reference run reports an unmappable character" -/
theorem encodeLoop_sound (v : Gen.Variant) (ifuel : Nat) :
    ∀ (fuel : Nat) (s : (efamOfVariant v).σ) (src : List Nat) (cap len : Nat) (slack : List Nat)
      (bs : List (List Budget)) (o : List Nat) (e : Bool),
      encodeLoop v ifuel fuel s src cap len slack bs = .ok (o, e) →
      o = htmlE (eref (efamOfVariant v) s (chars false src)) ∧
      e = anyUnmap (eref (efamOfVariant v) s (chars false src)) := by
  intro fuel
  induction fuel with
  | zero => intro s src cap len slack bs o e h; simp [encodeLoop] at h
  | succ fuel ih =>
    intro s src cap len slack bs o e h
    rw [encodeLoop] at h
    cases hrl : encRepl (efamOfVariant v) (canEncodeEverything v) Gen.ncrExtra false true (cap - len) ifuel s src
        (bs.headD []) with
    | none => rw [hrl] at h; cases h
    | some t =>
      rw [hrl] at h
      simp only at h
      obtain ⟨_, i2, i3, i4⟩ := encRepl_sound (efamOfVariant v) (Thm.C04.variant_elaws v)
        (Thm.C03.eof_empty_of_not_pending v) _ _ false _ ifuel s src _ t hrl
      cases hres : t.res with
      | inputEmpty =>
        simp only [hres, Outcome.ok.injEq, Prod.mk.injEq] at h
        obtain ⟨h1, h2⟩ := h
        rw [i4 hres] at i2 i3
        simp only [htmlE, anyUnmap, List.append_nil, Bool.or_false] at i2 i3
        exact ⟨by rw [← h1, i2], by rw [← h2, i3]⟩
      | unmappable c => simp only [hres] at h; cases h
      | outputFull =>
        simp only [hres] at h
        cases hq : Gen.MaxLen.U.addO cap (encMaxIfNoUnmappables false v (src.length - t.read)) with
        | none => rw [hq] at h; cases h
        | some sum =>
          rw [hq] at h
          simp only at h
          split at h
          · cases h
          · cases hrec : encodeLoop v ifuel fuel t.st (src.drop t.read)
                (max cap (nextPowerOfTwoU sum) + slack.headD 0) (len + t.out.length) slack.tail bs.tail with
            | panic => rw [hrec] at h; cases h
            | diverges => rw [hrec] at h; cases h
            | ok q =>
              obtain ⟨o', e'⟩ := q
              rw [hrec] at h
              simp only [Outcome.ok.injEq, Prod.mk.injEq] at h
              obtain ⟨h1, h2⟩ := h
              obtain ⟨j1, j2⟩ := ih _ _ _ _ _ _ o' e' hrec
              exact ⟨by rw [← h1, i2, j1], by rw [← h2, i3, j2]⟩

/-! ### the validated prefix: ASCII (ISO-2022-JP: ASCII other than 0E / 0F / 1B) passes the encoder -/

/-- from the initial state such a character is written as the same byte and leaves the state alone -/
theorem enc_pass (v : Gen.Variant) (c : Nat) (h : passPred v c = true) :
    (efamOfVariant v).step (efamOfVariant v).init c = ⟨(efamOfVariant v).init, [c], none, false⟩ := by
  have hc : c < 0x80 := passPred_ascii v c h
  have ofAscii : ∀ E : EFam, Thm.C20.AsciiEnc E → E.step E.init c = ⟨E.init, [c], none, false⟩ := by
    intro E hE
    obtain ⟨h1, h2, h3, h4⟩ := hE c hc
    cases hs : E.step E.init c with
    | mk st out um ur =>
      rw [hs] at h1 h2 h3 h4
      simp only at h1 h2 h3 h4
      rw [h1, h2, h3, h4]
  cases v with
  | iso2022Jp =>
    have hh : c < 0x80 ∧ c ≠ 0x0E ∧ c ≠ 0x0F ∧ c ≠ 0x1B := by simpa [passPred] using h
    show isoEncStep .ascii c = _
    unfold isoEncStep
    simp only
    rw [if_neg (by omega), if_pos (by omega)]
    rfl
  | replacement => exact ofAscii _ (Thm.C20.asciiEnc_of_variant .utf8 (by decide))
  | utf16Be => exact ofAscii _ (Thm.C20.asciiEnc_of_variant .utf8 (by decide))
  | utf16Le => exact ofAscii _ (Thm.C20.asciiEnc_of_variant .utf8 (by decide))
  | singleByte t a b d => exact ofAscii _ (Thm.C20.asciiEnc_of_variant _ (by simp))
  | utf8 => exact ofAscii _ (Thm.C20.asciiEnc_of_variant _ (by decide))
  | gbk => exact ofAscii _ (Thm.C20.asciiEnc_of_variant _ (by decide))
  | gb18030 => exact ofAscii _ (Thm.C20.asciiEnc_of_variant _ (by decide))
  | big5 => exact ofAscii _ (Thm.C20.asciiEnc_of_variant _ (by decide))
  | eucJp => exact ofAscii _ (Thm.C20.asciiEnc_of_variant _ (by decide))
  | shiftJis => exact ofAscii _ (Thm.C20.asciiEnc_of_variant _ (by decide))
  | eucKr => exact ofAscii _ (Thm.C20.asciiEnc_of_variant _ (by decide))
  | userDefined => exact ofAscii _ (Thm.C20.asciiEnc_of_variant _ (by decide))

theorem eref_pass (v : Gen.Variant) : ∀ (pre rest : List Nat), (∀ c ∈ pre, passPred v c = true) →
    eref (efamOfVariant v) (efamOfVariant v).init (pre ++ rest)
      = pre.map EEv.byte ++ eref (efamOfVariant v) (efamOfVariant v).init rest
  | [], rest, _ => rfl
  | c :: t, rest, h => by
    have hstep := enc_pass v c (h c (List.mem_cons_self ..))
    have hpc : processChar (efamOfVariant v) ((efamOfVariant v).rank (efamOfVariant v).init c + 1)
        (efamOfVariant v).init c .unlimited [] = .done (efamOfVariant v).init [c] .unlimited := by
      simp [processChar, Budget.isZero, hstep, Budget.dec]
    rw [List.cons_append, eref_cons, hpc]
    simp only [charEvs, charSt, List.map_cons, List.map_nil, List.cons_append, List.nil_append]
    rw [eref_pass v t rest (fun x hx => h x (List.mem_cons_of_mem _ hx))]

theorem init_eof_nil (v : Gen.Variant) : ((efamOfVariant v).eof (efamOfVariant v).init).1 = [] := by
  cases v <;> rfl

open EncodingRs.Thm.C19 in
/-- `Utf8Source` reads an ASCII prefix byte by byte -/
theorem chars_ascii_prefix (P : Nat → Bool) (hP : ∀ b, P b = true → b < 0x80) : ∀ (bytes : List Nat),
    chars false bytes = bytes.take (upTo P bytes) ++ chars false (bytes.drop (upTo P bytes))
  | [] => by simp [upTo]
  | b :: r => by
    simp only [upTo]
    by_cases hb : P b = true
    · have hlt := hP b hb
      simp only [hb, if_true, List.take_succ_cons, List.drop_succ_cons, List.cons_append]
      rw [← chars_ascii_prefix P hP r]
      simp [chars, itemsFn, items8, itemsOf, read8, hlt]
    · simp [hb]

open EncodingRs.Thm.C19 in
theorem validUpToNoRepl_upTo (v : Gen.Variant) (bytes : List Nat) :
    validUpToNoRepl v bytes = upTo (passPred v) bytes := by
  unfold validUpToNoRepl
  by_cases hi : v = .iso2022Jp
  · simp only [hi, if_true]
    rw [iso2022JpAsciiValidUpTo_eq]
    congr 1
  · simp only [hi, if_false]
    rw [asciiValidUpTo_eq]
    congr 1
    funext b
    simp [passPred, hi]

/-- the UTF-8 encoder writes the UTF-8 form: for UTF-8 output the borrowed input is the reference -/
theorem utf8_eref (text : List Nat) :
    htmlE (eref utf8EFam utf8EFam.init text) = Spec.Conv.utf8EncodeAll text ∧
      anyUnmap (eref utf8EFam utf8EFam.init text) = false := by
  induction text with
  | nil => exact ⟨rfl, rfl⟩
  | cons c t ih =>
    have hpc : processChar utf8EFam (utf8EFam.rank utf8EFam.init c + 1) utf8EFam.init c .unlimited []
        = .done utf8EFam.init (Spec.Conv.utf8Encode c) .unlimited := by
      simp only [processChar, Budget.isZero, Bool.false_eq_true, if_false, List.nil_append, Budget.dec]
      rfl
    rw [eref_cons, hpc]
    simp only [charEvs, charSt]
    rw [htmlE_append, htmlE_bytes, anyUnmap_append, anyUnmap_bytes, ih.1, ih.2]
    exact ⟨rfl, rfl⟩

end EncodingRs.Lemmas.OneShotEnc
