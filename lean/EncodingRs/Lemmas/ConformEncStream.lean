import EncodingRs.Lemmas.ConformEnc
/-!
# C03, stream level: from per-character conformance to whole texts

`eref` is the reference run of an encoder model over a text (every character processed with an
unlimited budget, `Unmappable` reports recorded as they are returned, then the end-of-stream
block); `erefHtml` writes the decimal numeric character reference instead, as the
with-replacement wrapper does.  `Conforms F E φ` collects the per-character facts; the theorems
`eref_runs_report` / `erefHtml_runs_html` lift them to texts by induction, against the
Standard's "process a queue" relation `Spec.Encode.Runs`.
-/
namespace EncodingRs.Lemmas.ConformEnc
open EncodingRs EncodingRs.Spec.Encode
open EncodingRs.Model hiding Ev

def evsOfReport : Option Nat → List Ev
  | some u => [Ev.error u]
  | none => []

/-- reference run of the model, `Unmappable` reports recorded -/
def eref (F : EFam) : F.σ → List Nat → List Ev
  | s, [] => (F.eof s).1.map Ev.byte
  | s, c :: rest =>
    (charOut F s c).1.map Ev.byte ++ (evsOfReport (charOut F s c).2.1 ++ eref F (charOut F s c).2.2 rest)

def ncrOfReport : Option Nat → List Nat
  | some u => Model.ncr u
  | none => []

/-- reference run of the model with numeric character references -/
def erefHtml (F : EFam) : F.σ → List Nat → List Nat
  | s, [] => (F.eof s).1
  | s, c :: rest =>
    (charOut F s c).1 ++ (ncrOfReport (charOut F s c).2.1 ++ erefHtml F (charOut F s c).2.2 rest)

/-- the code points a numeric character reference consists of -/
def isNcrChar (a : Nat) : Prop := a = 0x26 ∨ a = 0x23 ∨ a = 0x3B ∨ (0x30 ≤ a ∧ a ≤ 0x39)

/-- in state `s` the handler passes the characters of a numeric character reference through -/
def NcrPass (E : Encoder) (s : E.σ) : Prop :=
  ∀ a, isNcrChar a → E.handler s (some a) = ⟨s, none, .bytes [a]⟩

structure Conforms (F : EFam) (E : Encoder) (φ : F.σ → E.σ) : Prop where
  /-- one character: the chain of handler runs does what the model does -/
  char : ∀ s c, c < 0x110000 →
    specChain E.handler 3 (φ s) c = some ((charOut F s c).1, (charOut F s c).2.1, φ (charOut F s c).2.2)
  /-- end-of-queue -/
  eof : ∀ s mode, Runs E mode (φ s) [] ((F.eof s).1.map Ev.byte)
  /-- after an error the encoder is in a state that passes a numeric character reference through -/
  ncr : ∀ s c u, c < 0x110000 → (charOut F s c).2.1 = some u → NcrPass E (φ (charOut F s c).2.2)
  /-- what is reported is a code point -/
  report_lt : ∀ s c u, c < 0x110000 → (charOut F s c).2.1 = some u → u < 0x110000

/-! ### chains of handler runs are runs of "process a queue" -/

theorem runs_of_chain (E : Encoder) (mode : Mode) (rest : List Nat) (out : List Ev) :
    ∀ (fuel : Nat) (s : E.σ) (c : Nat) (o : List Nat) (st : E.σ),
      specChain E.handler fuel s c = some (o, none, st) → Runs E mode st rest out →
      Runs E mode s (c :: rest) (o.map Ev.byte ++ out)
  | 0, _, _, _, _, h, _ => by simp [specChain] at h
  | fuel + 1, s, c, o, st, h, hr => by
    unfold specChain at h
    split at h
    · rename_i bs hres hrest
      cases h
      have := Runs.bytes (mode := mode) s (c :: rest) o out (by simpa using hres)
      apply this
      simp only [List.head?_cons, HStep.queueAfter, hrest, List.tail_cons]
      exact hr
    · rename_i bs c' hres hrest
      split at h
      · rename_i o' e st' hch
        cases h
        have ih := runs_of_chain E mode rest out fuel _ c' o' st hch hr
        have := Runs.bytes (mode := mode) s (c :: rest) bs (o'.map Ev.byte ++ out) (by simpa using hres)
        rw [List.map_append, List.append_assoc]
        apply this
        simp only [List.head?_cons, HStep.queueAfter, hrest, List.tail_cons]
        exact ih
      · cases h
    · cases h
    · cases h

theorem runs_of_chain_report (E : Encoder) (rest : List Nat) (out : List Ev) (u : Nat) :
    ∀ (fuel : Nat) (s : E.σ) (c : Nat) (o : List Nat) (st : E.σ),
      specChain E.handler fuel s c = some (o, some u, st) → Runs E .report st rest out →
      Runs E .report s (c :: rest) (o.map Ev.byte ++ (Ev.error u :: out))
  | 0, _, _, _, _, h, _ => by simp [specChain] at h
  | fuel + 1, s, c, o, st, h, hr => by
    unfold specChain at h
    split at h
    · cases h
    · rename_i bs c' hres hrest
      split at h
      · rename_i o' e st' hch
        cases h
        have ih := runs_of_chain_report E rest out u fuel _ c' o' st hch hr
        have := Runs.bytes (mode := .report) s (c :: rest) bs (o'.map Ev.byte ++ (Ev.error u :: out)) (by simpa using hres)
        rw [List.map_append, List.append_assoc]
        apply this
        simp only [List.head?_cons, HStep.queueAfter, hrest, List.tail_cons]
        exact ih
      · cases h
    · rename_i u' hres hrest
      cases h
      have := Runs.errorReport (mode := .report) s (c :: rest) u out rfl (by simpa using hres)
      simp only [List.map_nil, List.nil_append]
      apply this
      simp only [List.head?_cons, HStep.queueAfter, hrest, List.tail_cons]
      exact hr
    · cases h

theorem runs_of_chain_html (E : Encoder) (rest : List Nat) (out : List Ev) (u : Nat) :
    ∀ (fuel : Nat) (s : E.σ) (c : Nat) (o : List Nat) (st : E.σ),
      specChain E.handler fuel s c = some (o, some u, st) →
      Runs E .html st (ncrCodePoints u ++ rest) out →
      Runs E .html s (c :: rest) (o.map Ev.byte ++ out)
  | 0, _, _, _, _, h, _ => by simp [specChain] at h
  | fuel + 1, s, c, o, st, h, hr => by
    unfold specChain at h
    split at h
    · cases h
    · rename_i bs c' hres hrest
      split at h
      · rename_i o' e st' hch
        cases h
        have ih := runs_of_chain_html E rest out u fuel _ c' o' st hch hr
        have := Runs.bytes (mode := .html) s (c :: rest) bs (o'.map Ev.byte ++ out) (by simpa using hres)
        rw [List.map_append, List.append_assoc]
        apply this
        simp only [List.head?_cons, HStep.queueAfter, hrest, List.tail_cons]
        exact ih
      · cases h
    · rename_i u' hres hrest
      cases h
      have := Runs.errorHtml (mode := .html) s (c :: rest) u out rfl (by simpa using hres)
      simp only [List.map_nil, List.nil_append]
      apply this
      simp only [List.head?_cons, HStep.queueAfter, hrest, List.tail_cons]
      exact hr
    · cases h

/-- a numeric character reference in front of the queue is passed through -/
theorem runs_ncr_prefix (E : Encoder) (mode : Mode) (s : E.σ) (hp : NcrPass E s) (rest : List Nat)
    (out : List Ev) (hr : Runs E mode s rest out) :
    ∀ (l : List Nat), (∀ a ∈ l, isNcrChar a) → Runs E mode s (l ++ rest) (l.map Ev.byte ++ out)
  | [], _ => hr
  | a :: l, hl => by
    have ha := hp a (hl a (List.mem_cons_self ..))
    have ih := runs_ncr_prefix E mode s hp rest out hr l (fun b hb => hl b (List.mem_cons_of_mem _ hb))
    have := Runs.bytes (mode := mode) s (a :: l ++ rest) [a] (l.map Ev.byte ++ out)
      (by simp only [List.cons_append, List.head?_cons]; rw [ha])
    simp only [List.map_cons, List.cons_append]
    apply this
    simp only [List.cons_append, List.head?_cons, HStep.queueAfter, List.tail_cons]
    rw [ha]
    exact ih

/-! ### the text-level theorems -/

theorem eref_runs_report (F : EFam) (E : Encoder) (φ : F.σ → E.σ) (H : Conforms F E φ) :
    ∀ (text : List Nat) (s : F.σ), (∀ c ∈ text, c < 0x110000) →
      Runs E .report (φ s) text (eref F s text)
  | [], s, _ => H.eof s .report
  | c :: rest, s, hb => by
    have hc := H.char s c (hb c (List.mem_cons_self ..))
    have ih := eref_runs_report F E φ H rest (charOut F s c).2.2 (fun b h => hb b (List.mem_cons_of_mem _ h))
    unfold eref
    cases hu : (charOut F s c).2.1 with
    | none =>
      rw [hu] at hc
      exact runs_of_chain E .report rest _ 3 (φ s) c _ _ hc ih
    | some u =>
      rw [hu] at hc
      exact runs_of_chain_report E rest _ u 3 (φ s) c _ _ hc ih

/-! ### `write_ncr`: decimal numeric character references -/

theorem decimalDigits_eq : ∀ (fuel n : Nat), n < 10 ^ (fuel + 1) →
    Model.decimalDigits (fuel + 1) n = Spec.Encode.decimalDigits n
  | 0, n, h => by
    have h10 : n < 10 := by simpa using h
    unfold Model.decimalDigits
    rw [Spec.Encode.decimalDigits]
    simp [h10]
  | fuel + 1, n, h => by
    unfold Model.decimalDigits
    rw [Spec.Encode.decimalDigits]
    by_cases h10 : n < 10
    · simp [h10]
    · simp only [h10, if_false]
      rw [decimalDigits_eq fuel (n / 10) (by rw [Nat.pow_succ] at h; omega)]

/-- (d) `write_ncr` writes `&#`, the decimal digits of the code point, `;` -/
theorem ncr_decimal (c : Nat) (hc : c < 0x110000) :
    Model.ncr c = [0x26, 0x23] ++ Spec.Encode.decimalDigits c ++ [0x3B] := by
  unfold Model.ncr
  rw [decimalDigits_eq 7 c (by omega)]

theorem ncr_eq_ncrCodePoints (c : Nat) (hc : c < 0x110000) : Model.ncr c = ncrCodePoints c :=
  ncr_decimal c hc

/-- the value of a digit string (Horner) -/
def valueOfDigits (ds : List Nat) : Nat := ds.foldl (fun acc d => acc * 10 + (d - 0x30)) 0

theorem valueOfDigits_append (ds : List Nat) (d : Nat) :
    valueOfDigits (ds ++ [d]) = valueOfDigits ds * 10 + (d - 0x30) := by
  unfold valueOfDigits
  rw [List.foldl_append]
  rfl

/-- the digits are ASCII digits, they denote `n` in base ten, and there is no leading zero
(except for `n = 0` itself): the shortest sequence of ASCII digits representing `n` -/
theorem decimalDigits_spec (n : Nat) :
    (∀ d ∈ Spec.Encode.decimalDigits n, 0x30 ≤ d ∧ d ≤ 0x39)
      ∧ valueOfDigits (Spec.Encode.decimalDigits n) = n
      ∧ (Spec.Encode.decimalDigits n).head? ≠ none
      ∧ (0 < n → (Spec.Encode.decimalDigits n).head? ≠ some 0x30) := by
  induction n using Nat.strongRecOn with
  | _ n ih =>
    rw [Spec.Encode.decimalDigits]
    by_cases h10 : n < 10
    · simp only [h10, if_true]
      refine ⟨?_, ?_, ?_, ?_⟩
      · intro d hd
        have : d = 0x30 + n := by simpa using hd
        omega
      · simp [valueOfDigits]
      · simp
      · intro hn
        simp only [List.head?_cons, ne_eq, Option.some.injEq]
        omega
    · simp only [h10, if_false]
      have ⟨h1, h2, h3, h4⟩ := ih (n / 10) (by omega)
      refine ⟨?_, ?_, ?_, ?_⟩
      · intro d hd
        rcases List.mem_append.mp hd with hd | hd
        · exact h1 d hd
        · have : d = 0x30 + n % 10 := by simpa using hd
          omega
      · rw [valueOfDigits_append, h2]
        omega
      · cases hdd : Spec.Encode.decimalDigits (n / 10) with
        | nil => rw [hdd] at h3; simp at h3
        | cons a t => simp
      · intro _
        cases hdd : Spec.Encode.decimalDigits (n / 10) with
        | nil => rw [hdd] at h3; simp at h3
        | cons a t =>
          have := h4 (by omega)
          rw [hdd] at this
          simpa using this

theorem ncrCodePoints_isNcrChar (u : Nat) : ∀ a ∈ ncrCodePoints u, isNcrChar a := by
  intro a ha
  unfold ncrCodePoints at ha
  simp only [List.mem_append, List.mem_cons, List.not_mem_nil, or_false] at ha
  unfold isNcrChar
  rcases ha with (h | h) | h
  · rcases h with h | h <;> omega
  · have := (decimalDigits_spec u).1 a h
    omega
  · omega

/-! ### error mode "html" -/

theorem erefHtml_runs_html (F : EFam) (E : Encoder) (φ : F.σ → E.σ) (H : Conforms F E φ) :
    ∀ (text : List Nat) (s : F.σ), (∀ c ∈ text, c < 0x110000) →
      Runs E .html (φ s) text ((erefHtml F s text).map Ev.byte)
  | [], s, _ => H.eof s .html
  | c :: rest, s, hb => by
    have hcb := hb c (List.mem_cons_self ..)
    have hc := H.char s c hcb
    have ih := erefHtml_runs_html F E φ H rest (charOut F s c).2.2 (fun b h => hb b (List.mem_cons_of_mem _ h))
    unfold erefHtml
    rw [List.map_append]
    cases hu : (charOut F s c).2.1 with
    | none =>
      rw [hu] at hc
      simp only [ncrOfReport, List.nil_append]
      exact runs_of_chain E .html rest _ 3 (φ s) c _ _ hc ih
    | some u =>
      rw [hu] at hc
      simp only [ncrOfReport]
      rw [List.map_append, ncr_eq_ncrCodePoints u (H.report_lt s c u hcb hu)]
      apply runs_of_chain_html E rest _ u 3 (φ s) c _ _ hc
      exact runs_ncr_prefix E .html _ (H.ncr s c u hcb hu) rest _ ih _ (ncrCodePoints_isNcrChar u)

end EncodingRs.Lemmas.ConformEnc
