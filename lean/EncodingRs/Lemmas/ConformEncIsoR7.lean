import EncodingRs.Lemmas.ConformEncIsoDef
/-! C03, ISO-2022-JP: complete evaluation of `isoCheck` (all three encoder states) over the code points 0xA000 ≤ c < 0x110000 (`native_decide`). -/
namespace EncodingRs.Lemmas.ConformEnc

theorem iso_check_r7 : allFrom isoCheck 0xA000 0x106000 = true := by native_decide

end EncodingRs.Lemmas.ConformEnc
