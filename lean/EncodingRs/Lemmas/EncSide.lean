import EncodingRs.Lemmas.EncCore
import EncodingRs.Lemmas.EncFam
import EncodingRs.Lemmas.EncMaxLenVariant
import EncodingRs.Lemmas.ConformEncRepl
/-!
Shared lemmas for the encoder-side theorems of C06 / C08 / C09 / C18
(`Thm/C06Enc.lean`, `Thm/C08Enc.lean`, `Thm/C09Enc.lean`, `Thm/C18Enc.lean`):

* source items: widths are positive, the items of `src.drop (widthSum pre)` are the items that
  follow `pre` (`itemsOfSrc_drop`), every scalar read from a valid source is a scalar value;
* raw calls: what `erunI` consumed is a prefix of the item list and `read` is its width sum
  (`erunI_split`), an `Unmappable` report stems from the last item consumed (`erunI_unmappable`);
* the with-replacement loop `encRepl.go` as an inductive relation `GoRel` (`go_rel`), so that the
  theorems about the loop are inductions over four clean cases instead of unfoldings of the
  function;
* `write_ncr` writes at most `NCR_EXTRA` bytes; per-variant facts (`reports_ok`,
  `canAll_no_unmappable`, `eof_not_pending`, `needs_le`).
-/
namespace EncodingRs.Lemmas.EncSide
open EncodingRs EncodingRs.Model EncodingRs.Lemmas.EncCore EncodingRs.Lemmas.EncPotential
open EncodingRs.Lemmas.EncMaxLenVariant

/-! ### source items -/

theorem widthSum_append (a b : List (Nat × Nat)) : widthSum (a ++ b) = widthSum a + widthSum b := by
  simp [widthSum]

theorem widthSum_nil' : widthSum ([] : List (Nat × Nat)) = 0 := rfl

theorem itemsOfSrc_eq_itemsFn (utf16 : Bool) (src : List Nat) :
    itemsOfSrc utf16 src = ConformEnc.itemsFn utf16 src := rfl

theorem itemsOfSrc_nil (utf16 : Bool) : itemsOfSrc utf16 [] = [] := by cases utf16 <;> rfl

/-- the items of the buffer after a prefix `pre` of its items are the remaining items: `total_read`
always points at a character boundary, and re-slicing the source there (`&src[total_read..]`) yields
the same characters as reading on -/
theorem itemsOfSrc_drop (utf16 : Bool) (pre post : List (Nat × Nat)) (src : List Nat)
    (h : itemsOfSrc utf16 src = pre ++ post) : itemsOfSrc utf16 (src.drop (widthSum pre)) = post := by
  rcases List.eq_nil_or_concat pre with hp | ⟨pre0, it, hp⟩
  · subst hp
    simpa using h
  · rw [List.concat_eq_append] at hp
    subst hp
    obtain ⟨c, w⟩ := it
    have h' : ConformEnc.itemsFn utf16 src = pre0 ++ (c, w) :: post := by
      rw [← itemsOfSrc_eq_itemsFn, h]; simp
    have h2 := ConformEnc.itemsFn_split utf16 pre0 src c w post h'
    rw [widthSum_append]
    have e : widthSum [(c, w)] = w := by simp [widthSum]
    rw [e]
    exact h2

theorem itemsOf_width_pos (read : List Nat → Option (Nat × Nat))
    (hw : ∀ units c w, read units = some (c, w) → 1 ≤ w) :
    ∀ (fuel : Nat) (units : List Nat), ∀ it ∈ itemsOf read fuel units, 1 ≤ it.2 := by
  intro fuel
  induction fuel with
  | zero => intro units it h; simp [itemsOf] at h
  | succ fuel ih =>
    intro units it h
    cases hr : read units with
    | none => simp [itemsOf, hr] at h
    | some cw =>
      obtain ⟨c, w⟩ := cw
      simp only [itemsOf, hr] at h
      rcases List.mem_cons.mp h with h | h
      · subst h; exact hw units c w hr
      · exact ih _ it h

/-- every character read from a source buffer is at least one unit wide -/
theorem itemsOfSrc_width_pos (utf16 : Bool) (src : List Nat) : ∀ it ∈ itemsOfSrc utf16 src, 1 ≤ it.2 := by
  cases utf16
  · exact itemsOf_width_pos read8 ConformEnc.read8_width _ _
  · exact itemsOf_width_pos read16 ConformEnc.read16_width _ _

/-- a prefix of the items of a valid buffer is no longer than the buffer -/
theorem widthSum_prefix_le (utf16 : Bool) (src : List Nat) (hsrc : SrcOK utf16 src)
    (pre post : List (Nat × Nat)) (h : itemsOfSrc utf16 src = pre ++ post) : widthSum pre ≤ src.length := by
  have h2 := (itemsOfSrc_ok utf16 src hsrc).2
  rw [h, widthSum_append] at h2
  omega

/-! #### UTF-16: any buffer of units, valid or not -/

theorem read16_width_le (units : List Nat) (c w : Nat) (h : read16 units = some (c, w)) : w ≤ units.length := by
  cases units with
  | nil => simp [read16] at h
  | cons u rest =>
    simp only [read16] at h
    repeat' split at h
    all_goals
      simp only [Option.some.injEq, Prod.mk.injEq] at h
      simp only [List.length_cons]
      omega

theorem itemsOf16_widthSum : ∀ (fuel : Nat) (units : List Nat), units.length ≤ fuel →
    widthSum (itemsOf read16 fuel units) = units.length := by
  intro fuel
  induction fuel with
  | zero =>
    intro units hl
    have : units = [] := List.eq_nil_of_length_eq_zero (by omega)
    subst this
    simp [itemsOf]
  | succ fuel ih =>
    intro units hl
    cases hr : read16 units with
    | none =>
      cases units with
      | nil => simp [itemsOf, read16]
      | cons u rest =>
        exfalso
        simp only [read16] at hr
        repeat' split at hr
        all_goals cases hr
    | some cw =>
      obtain ⟨c, w⟩ := cw
      have h1 := ConformEnc.read16_width units c w hr
      have h2 := read16_width_le units c w hr
      simp only [itemsOf, hr]
      rw [widthSum_cons, ih (units.drop w) (by rw [List.length_drop]; omega), List.length_drop]
      omega

/-- the widths of the characters read from ANY UTF-16 buffer add up to its length -/
theorem items16_widthSum (units : List Nat) : widthSum (items16 units) = units.length :=
  itemsOf16_widthSum units.length units (Nat.le_refl _)

/-! #### scalar values -/

theorem isScalar_iff (c : Nat) : isScalar c = true ↔ c < 0x110000 ∧ ¬ (0xD800 ≤ c ∧ c ≤ 0xDFFF) := by
  simp only [isScalar, Bool.and_eq_true, decide_eq_true_eq, Bool.not_eq_true', Bool.and_eq_false_iff,
    decide_eq_false_iff_not]
  omega

/-- what `Utf16Source::read` yields is a scalar value (16-bit units) -/
theorem read16_scalar (units : List Nat) (hu : ∀ u ∈ units, u < 0x10000) (c w : Nat)
    (h : read16 units = some (c, w)) : isScalar c = true := by
  cases units with
  | nil => simp [read16] at h
  | cons u rest =>
    have hu0 : u < 0x10000 := hu u (List.mem_cons_self ..)
    simp only [read16] at h
    rw [isScalar_iff]
    repeat' split at h
    all_goals
      simp only [Option.some.injEq, Prod.mk.injEq] at h
      omega

theorem itemsOf16_scalar : ∀ (fuel : Nat) (units : List Nat), (∀ u ∈ units, u < 0x10000) →
    ∀ it ∈ itemsOf read16 fuel units, isScalar it.1 = true := by
  intro fuel
  induction fuel with
  | zero => intro units _ it h; simp [itemsOf] at h
  | succ fuel ih =>
    intro units hu it h
    cases hr : read16 units with
    | none => simp [itemsOf, hr] at h
    | some cw =>
      obtain ⟨c, w⟩ := cw
      simp only [itemsOf, hr] at h
      rcases List.mem_cons.mp h with h | h
      · subst h; exact read16_scalar units hu c w hr
      · exact ih _ (fun x hx => hu x (List.mem_of_mem_drop hx)) it h

/-- one well-formed UTF-8 sequence is read as a scalar value -/
theorem read8_seq_scalar (sq rest : List Nat) (h : Spec.wellFormedSeq sq = true) :
    ∃ c, read8 (sq ++ rest) = some (c, sq.length) ∧ isScalar c = true := by
  rcases sq with _ | ⟨b0, _ | ⟨b1, _ | ⟨b2, _ | ⟨b3, _ | ⟨b4, t⟩⟩⟩⟩⟩
  · simp [Spec.wellFormedSeq] at h
  · have h0 : b0 < 0x80 := by
      simp only [Spec.wellFormedSeq, Spec.wf1, decide_eq_true_eq] at h; omega
    refine ⟨b0, by simp [read8, h0], ?_⟩
    rw [isScalar_iff]
    omega
  · have h0 : 0xC2 ≤ b0 ∧ b0 ≤ 0xDF := by
      simp only [Spec.wellFormedSeq, Spec.wf2, Bool.and_eq_true, decide_eq_true_eq] at h; omega
    have n1 : ¬ b0 < 0x80 := by omega
    have n2 : b0 < 0xE0 := by omega
    refine ⟨(b0 % 32) * 64 + b1 % 64, ?_, ?_⟩
    · simp only [read8, List.cons_append, n1, n2, if_false, if_true]; rfl
    · have : b0 % 32 < 32 := Nat.mod_lt _ (by decide)
      have : b1 % 64 < 64 := Nat.mod_lt _ (by decide)
      rw [isScalar_iff]
      omega
  · have h0 : (b0 = 0xE0 ∧ 0xA0 ≤ b1 ∧ b1 ≤ 0xBF) ∨ (0xE1 ≤ b0 ∧ b0 ≤ 0xEC ∧ 0x80 ≤ b1 ∧ b1 ≤ 0xBF)
        ∨ (b0 = 0xED ∧ 0x80 ≤ b1 ∧ b1 ≤ 0x9F) ∨ (0xEE ≤ b0 ∧ b0 ≤ 0xEF ∧ 0x80 ≤ b1 ∧ b1 ≤ 0xBF) := by
      simp only [Spec.wellFormedSeq, Spec.wf3, Spec.second3Ok, Bool.and_eq_true, Bool.or_eq_true,
        decide_eq_true_eq, beq_iff_eq] at h
      omega
    have n1 : ¬ b0 < 0x80 := by omega
    have n2 : ¬ b0 < 0xE0 := by omega
    have n3 : b0 < 0xF0 := by omega
    refine ⟨(b0 % 16) * 4096 + b1 % 64 * 64 + b2 % 64, ?_, ?_⟩
    · simp only [read8, List.cons_append, n1, n2, n3, if_false, if_true]; rfl
    · have : b2 % 64 < 64 := Nat.mod_lt _ (by decide)
      rw [isScalar_iff]
      omega
  · have h0 : (b0 = 0xF0 ∧ 0x90 ≤ b1 ∧ b1 ≤ 0xBF) ∨ (0xF1 ≤ b0 ∧ b0 ≤ 0xF3 ∧ 0x80 ≤ b1 ∧ b1 ≤ 0xBF)
        ∨ (b0 = 0xF4 ∧ 0x80 ≤ b1 ∧ b1 ≤ 0x8F) := by
      simp only [Spec.wellFormedSeq, Spec.wf4, Spec.second4Ok, Bool.and_eq_true, Bool.or_eq_true,
        decide_eq_true_eq, beq_iff_eq] at h
      omega
    have n1 : ¬ b0 < 0x80 := by omega
    have n2 : ¬ b0 < 0xE0 := by omega
    have n3 : ¬ b0 < 0xF0 := by omega
    refine ⟨(b0 % 8) * 262144 + b1 % 64 * 4096 + b2 % 64 * 64 + b3 % 64, ?_, ?_⟩
    · simp only [read8, List.cons_append, n1, n2, n3, if_false]; rfl
    · have : b2 % 64 < 64 := Nat.mod_lt _ (by decide)
      have : b3 % 64 < 64 := Nat.mod_lt _ (by decide)
      rw [isScalar_iff]
      omega
  · simp [Spec.wellFormedSeq] at h

theorem itemsOf8_scalar (bs : List Nat) (h : Spec.WellFormedUtf8 bs) : ∀ (fuel : Nat),
    ∀ it ∈ itemsOf read8 fuel bs, isScalar it.1 = true := by
  induction h with
  | nil =>
    intro fuel it hit
    cases fuel <;> simp [itemsOf, read8] at hit
  | cons sq rest hs _ ih =>
    intro fuel it hit
    obtain ⟨c, hr, hsc⟩ := read8_seq_scalar sq rest hs
    cases fuel with
    | zero => simp [itemsOf] at hit
    | succ fuel =>
      simp only [itemsOf, hr] at hit
      have hd : (sq ++ rest).drop sq.length = rest := List.drop_left
      rw [hd] at hit
      rcases List.mem_cons.mp hit with h | h
      · subst h; exact hsc
      · exact ih fuel it h

/-- **every character read from a valid source buffer is a Unicode scalar value** -/
theorem itemsOfSrc_scalar (utf16 : Bool) (src : List Nat) (h : SrcOK utf16 src) :
    ∀ it ∈ itemsOfSrc utf16 src, isScalar it.1 = true := by
  cases utf16 with
  | true => exact itemsOf16_scalar _ src h
  | false => exact itemsOf8_scalar src h _

theorem isScalar_lt (c : Nat) (h : isScalar c = true) : c < 0x110000 := ((isScalar_iff c).mp h).1

/-! ### raw calls: what was consumed is a prefix of the items -/

variable (E : EFam)

theorem erun_nil_read (last : Bool) (s : E.σ) (b : Budget) : (erun E last s [] b).read = 0 := by
  simp only [erun]
  repeat' split
  all_goals rfl

/-- the items a raw call consumed, followed by those it left, are the items it was given; `read` is
the width of what it consumed -/
theorem erunI_split (last : Bool) : ∀ (items : List (Nat × Nat)) (s : E.σ) (b : Budget),
    ∃ pre, items = pre ++ (erunI E last s items b).2 ∧ (erunI E last s items b).1.read = widthSum pre := by
  intro items
  induction items with
  | nil =>
    intro s b
    exact ⟨[], rfl, erun_nil_read E last s b⟩
  | cons it tl ih =>
    intro s b
    obtain ⟨c, w⟩ := it
    simp only [erunI]
    cases hres : processChar E (E.rank s c + 1) s c b [] with
    | full st out need => exact ⟨[], rfl, rfl⟩
    | unmappable st out u => exact ⟨[(c, w)], rfl, by simp [widthSum]⟩
    | done st out b' =>
      obtain ⟨pre, h1, h2⟩ := ih st b'
      refine ⟨(c, w) :: pre, ?_, ?_⟩
      · simp only [List.cons_append]; rw [← h1]
      · simp only [widthSum_cons]; omega

/-- `InputEmpty` ⇒ nothing was left (any `last`) -/
theorem erunI_inputEmpty (last : Bool) : ∀ (items : List (Nat × Nat)) (s : E.σ) (b : Budget),
    (erunI E last s items b).1.res = .inputEmpty → (erunI E last s items b).2 = [] := by
  intro items
  induction items with
  | nil => intro s b _; rfl
  | cons it tl ih =>
    intro s b h
    obtain ⟨c, w⟩ := it
    simp only [erunI] at h ⊢
    cases hres : processChar E (E.rank s c + 1) s c b [] with
    | full st out need => simp [hres] at h
    | unmappable st out u => simp [hres] at h
    | done st out b' =>
      simp only [hres] at h ⊢
      exact ih st b' h

theorem processChar_unmappable_step : ∀ (f : Nat) (s : E.σ) (c : Nat) (b : Budget) (acc : List Nat)
    (st : E.σ) (out : List Nat) (u : Nat), processChar E f s c b acc = .unmappable st out u →
    ∃ s0, (E.step s0 c).unmappable = some u ∧ st = (E.step s0 c).st := by
  intro f
  induction f with
  | zero => intro s c b acc st out u h; simp [processChar] at h
  | succ f ih =>
    intro s c b acc st out u h
    rw [processChar] at h
    split at h
    · cases h
    · simp only at h
      split at h
      · rename_i u' hu
        cases h
        exact ⟨s, hu, rfl⟩
      · split at h
        · exact ih _ c _ _ st out u h
        · cases h

/-- **an `Unmappable(u)` return stems from the last character consumed**: the items consumed are
`pre ++ [(c, w)]`, and `u` is what the encoder's step reports for `c` (in the state `s0` the
character was read in); nothing after that character was touched -/
theorem erunI_unmappable (last : Bool) : ∀ (items : List (Nat × Nat)) (s : E.σ) (b : Budget) (u : Nat),
    (erunI E last s items b).1.res = .unmappable u →
    ∃ pre c w s0, items = pre ++ (c, w) :: (erunI E last s items b).2
      ∧ (erunI E last s items b).1.read = widthSum pre + w
      ∧ (E.step s0 c).unmappable = some u ∧ (erunI E last s items b).1.st = (E.step s0 c).st := by
  intro items
  induction items with
  | nil =>
    intro s b u h
    exfalso
    simp only [erunI, erun] at h
    repeat' split at h
    all_goals cases h
  | cons it tl ih =>
    intro s b u h
    obtain ⟨c, w⟩ := it
    simp only [erunI] at h ⊢
    cases hres : processChar E (E.rank s c + 1) s c b [] with
    | full st out need => simp [hres] at h
    | unmappable st out u' =>
      simp only [hres] at h ⊢
      cases h
      obtain ⟨s0, h1, h2⟩ := processChar_unmappable_step E _ s c b [] st out u hres
      exact ⟨[], c, w, s0, rfl, by simp [widthSum], h1, h2⟩
    | done st out b' =>
      simp only [hres] at h ⊢
      obtain ⟨pre, c', w', s0, h1, h2, h3, h4⟩ := ih st b' u h
      refine ⟨(c, w) :: pre, c', w', s0, ?_, ?_, h3, h4⟩
      · simp only [List.cons_append]; rw [← h1]
      · simp only [widthSum_cons]; omega

/-- after a `last` call that returned `InputEmpty` the end-of-stream block has been run: the encoder
is in the state it leaves and its bytes are the end of the output -/
theorem erun_inputEmpty_last_st : ∀ (items : List (Nat × Nat)) (s : E.σ) (b : Budget),
    (erun E true s items b).res = .inputEmpty →
    ∃ s' o, (erun E true s items b).st = (E.eof s').2 ∧ (erun E true s items b).out = o ++ (E.eof s').1 := by
  intro items
  induction items with
  | nil =>
    intro s b h
    simp only [erun, if_true] at h ⊢
    split
    · rename_i he
      exact ⟨s, [], rfl, by rw [List.isEmpty_iff.mp he]; rfl⟩
    · rename_i he
      simp only [he] at h
      split
      · rename_i hz; simp [hz] at h
      · exact ⟨s, [], rfl, rfl⟩
  | cons it tl ih =>
    intro s b h
    obtain ⟨c, w⟩ := it
    simp only [erun] at h ⊢
    cases hres : processChar E (E.rank s c + 1) s c b [] with
    | full st out need => simp [hres] at h
    | unmappable st out u => simp [hres] at h
    | done st out b' =>
      simp only [hres] at h ⊢
      obtain ⟨s', o, h1, h2⟩ := ih st b' h
      exact ⟨s', out ++ o, h1, by rw [h2, List.append_assoc]⟩

/-- a raw call on a source buffer, seen through `erunI` -/
theorem ecall_eq_erunI (utf16 : Bool) (s : E.σ) (src : List Nat) (last : Bool) (b : Budget) :
    ecall E utf16 s src last b = (erunI E last s (itemsOfSrc utf16 src) b).1 := by
  rw [erunI_fst]; rfl

/-- the unconsumed part of the source buffer holds exactly the items the call left -/
theorem ecall_rest (utf16 : Bool) (s : E.σ) (src : List Nat) (last : Bool) (b : Budget) :
    itemsOfSrc utf16 (src.drop (ecall E utf16 s src last b).read)
      = (erunI E last s (itemsOfSrc utf16 src) b).2 := by
  obtain ⟨pre, h1, h2⟩ := erunI_split E last (itemsOfSrc utf16 src) s b
  rw [ecall_eq_erunI, h2]
  exact itemsOfSrc_drop utf16 pre _ src h1

/-! ### `write_ncr` -/

theorem decimalDigits_length_le : ∀ (fuel n k : Nat), n < 10 ^ (k + 1) →
    (decimalDigits fuel n).length ≤ k + 1 := by
  intro fuel
  induction fuel with
  | zero => intro n k _; simp [decimalDigits]
  | succ fuel ih =>
    intro n k h
    unfold decimalDigits
    split
    · simp
    · rename_i h10
      cases k with
      | zero => simp at h; omega
      | succ k =>
        have : n / 10 < 10 ^ (k + 1) := by
          rw [Nat.pow_succ] at h
          exact (Nat.div_lt_iff_lt_mul (by decide)).mpr h
        have := ih (n / 10) k this
        simp only [List.length_append, List.length_cons, List.length_nil]
        omega

/-- a numeric character reference for a code point is at most `NCR_EXTRA` = 10 bytes (`&#1114111;`) -/
theorem ncr_length_le (c : Nat) (h : c < 0x110000) : (ncr c).length ≤ Gen.ncrExtra := by
  have := decimalDigits_length_le 8 c 6 (by omega)
  simp only [ncr, List.length_append, List.length_cons, List.length_nil, Gen.ncrExtra]
  omega

/-- … and at least four (`&#0;`) -/
theorem ncr_length_pos (c : Nat) : 1 ≤ (ncr c).length := by
  simp only [ncr, List.length_append, List.length_cons, List.length_nil]
  omega

/-! ### the with-replacement loop as a relation -/

/-- `encRepl.go`, one constructor per way a round of the loop of `Encoder::encode_from_utf8/16` ends.
`r` is the inner raw call of the round (on `&src[total_read..]`, the destination being
`&mut dst[total_written..effective_dst_len]`). -/
inductive GoRel (utf16 last : Bool) (src : List Nat) (eff : Nat) :
    E.σ → List Budget → Nat → Nat → List Nat → Bool → List (Nat × Nat × ERes × Nat) → EReplRes E.σ → Prop
  /-- the inner call returned `InputEmpty` or `OutputFull`: so does the wrapper -/
  | stop (s : E.σ) (budgets : List Budget) (tr tw : Nat) (acc : List Nat) (had : Bool)
      (inner : List (Nat × Nat × ERes × Nat)) (r : ECallRes E.σ)
      (hr : r = ecall E utf16 s (src.drop tr) last (budgets.headD .unlimited))
      (hres : r.res = .inputEmpty ∨ r.res = .outputFull) :
      GoRel utf16 last src eff s budgets tr tw acc had inner
        ⟨r.res, tr + r.read, acc ++ r.out, had, r.st, inner ++ [(eff - tw, r.out.length, r.res, r.stopNeed)]⟩
  /-- `Unmappable`, the reference filled the destination up to the reserve, and nothing is left to do -/
  | unmapEnd (s : E.σ) (budgets : List Budget) (tr tw : Nat) (acc : List Nat) (had : Bool)
      (inner : List (Nat × Nat × ERes × Nat)) (r : ECallRes E.σ) (c : Nat)
      (hr : r = ecall E utf16 s (src.drop tr) last (budgets.headD .unlimited))
      (hres : r.res = .unmappable c)
      (hfull : tw + r.out.length + (ncr c).length ≥ eff)
      (hend : tr + r.read = src.length ∧ ¬ (last = true ∧ E.hasPending r.st = true)) :
      GoRel utf16 last src eff s budgets tr tw acc had inner
        ⟨.inputEmpty, tr + r.read, acc ++ r.out ++ ncr c, true, r.st,
          inner ++ [(eff - tw, r.out.length, r.res, r.stopNeed)]⟩
  /-- `Unmappable`, the reference filled the destination up to the reserve: `OutputFull` -/
  | unmapFull (s : E.σ) (budgets : List Budget) (tr tw : Nat) (acc : List Nat) (had : Bool)
      (inner : List (Nat × Nat × ERes × Nat)) (r : ECallRes E.σ) (c : Nat)
      (hr : r = ecall E utf16 s (src.drop tr) last (budgets.headD .unlimited))
      (hres : r.res = .unmappable c)
      (hfull : tw + r.out.length + (ncr c).length ≥ eff)
      (hend : ¬ (tr + r.read = src.length ∧ ¬ (last = true ∧ E.hasPending r.st = true))) :
      GoRel utf16 last src eff s budgets tr tw acc had inner
        ⟨.outputFull, tr + r.read, acc ++ r.out ++ ncr c, true, r.st,
          inner ++ [(eff - tw, r.out.length, r.res, r.stopNeed)]⟩
  /-- `Unmappable`, room left: next round -/
  | unmapCont (s : E.σ) (budgets : List Budget) (tr tw : Nat) (acc : List Nat) (had : Bool)
      (inner : List (Nat × Nat × ERes × Nat)) (r : ECallRes E.σ) (c : Nat) (t : EReplRes E.σ)
      (hr : r = ecall E utf16 s (src.drop tr) last (budgets.headD .unlimited))
      (hres : r.res = .unmappable c)
      (hroom : ¬ (tw + r.out.length + (ncr c).length ≥ eff))
      (hnext : GoRel utf16 last src eff r.st budgets.tail (tr + r.read) (tw + r.out.length + (ncr c).length)
        (acc ++ r.out ++ ncr c) true (inner ++ [(eff - tw, r.out.length, r.res, r.stopNeed)]) t) :
      GoRel utf16 last src eff s budgets tr tw acc had inner t

theorem go_rel (utf16 last : Bool) (src : List Nat) (eff : Nat) :
    ∀ (fuel : Nat) (s : E.σ) (budgets : List Budget) (tr tw : Nat) (acc : List Nat) (had : Bool)
      (inner : List (Nat × Nat × ERes × Nat)) (t : EReplRes E.σ),
      encRepl.go E utf16 last fuel s src budgets eff tr tw acc had inner = some t →
      GoRel E utf16 last src eff s budgets tr tw acc had inner t := by
  intro fuel
  induction fuel with
  | zero => intro s budgets tr tw acc had inner t h; simp [encRepl.go] at h
  | succ fuel ih =>
    intro s budgets tr tw acc had inner t h
    rw [encRepl.go] at h
    simp only at h
    generalize hr : ecall E utf16 s (List.drop tr src) last (budgets.headD Budget.unlimited) = r at h
    cases hres : r.res with
    | inputEmpty =>
      simp only [hres] at h
      cases h
      have := GoRel.stop (eff := eff) s budgets tr tw acc had inner r hr.symm (Or.inl hres)
      rw [hres] at this
      exact this
    | outputFull =>
      simp only [hres] at h
      cases h
      have := GoRel.stop (eff := eff) s budgets tr tw acc had inner r hr.symm (Or.inr hres)
      rw [hres] at this
      exact this
    | unmappable c =>
      simp only [hres] at h
      by_cases hfull : tw + r.out.length + (ncr c).length ≥ eff
      · rw [if_pos hfull] at h
        by_cases hend : tr + r.read = src.length ∧ ¬ (last = true ∧ E.hasPending r.st = true)
        · rw [if_pos hend] at h
          cases h
          have := GoRel.unmapEnd (eff := eff) s budgets tr tw acc had inner r c hr.symm hres hfull hend
          rw [hres] at this
          exact this
        · rw [if_neg hend] at h
          cases h
          have := GoRel.unmapFull (eff := eff) s budgets tr tw acc had inner r c hr.symm hres hfull hend
          rw [hres] at this
          exact this
      · rw [if_neg hfull] at h
        have hn := ih _ _ _ _ _ _ _ t h
        have := GoRel.unmapCont (eff := eff) s budgets tr tw acc had inner r c t hr.symm hres hfull
        rw [hres] at this
        exact this hn

/-- the whole wrapper: either the early return (destination shorter than `NCR_EXTRA`, nothing done)
or the loop started with empty counters on the destination minus the reserve -/
theorem encRepl_cases (canAll : Bool) (ncrExtra : Nat) (utf16 last : Bool) (cap fuel : Nat) (s : E.σ)
    (src : List Nat) (budgets : List Budget) (t : EReplRes E.σ)
    (h : encRepl E canAll ncrExtra utf16 last cap fuel s src budgets = some t) :
    ((¬ canAll = true ∧ cap < ncrExtra) ∧
      ((src = [] ∧ ¬ (last = true ∧ E.hasPending s = true) ∧ t = ⟨.inputEmpty, 0, [], false, s, []⟩)
       ∨ (¬ (src = [] ∧ ¬ (last = true ∧ E.hasPending s = true)) ∧ t = ⟨.outputFull, 0, [], false, s, []⟩)))
    ∨ (¬ (¬ canAll = true ∧ cap < ncrExtra) ∧
        GoRel E utf16 last src (if canAll = true then cap else cap - ncrExtra) s budgets 0 0 [] false [] t) := by
  cases fuel with
  | zero => simp [encRepl] at h
  | succ fuel =>
    rw [encRepl] at h
    by_cases hsmall : ¬ canAll = true ∧ cap < ncrExtra
    · rw [if_pos hsmall] at h
      left
      refine ⟨hsmall, ?_⟩
      by_cases he : src.isEmpty = true ∧ ¬ (last = true ∧ E.hasPending s = true)
      · rw [if_pos he] at h
        cases h
        exact Or.inl ⟨List.isEmpty_iff.mp he.1, he.2, rfl⟩
      · rw [if_neg he] at h
        cases h
        refine Or.inr ⟨?_, rfl⟩
        intro hc
        exact he ⟨List.isEmpty_iff.mpr hc.1, hc.2⟩
    · rw [if_neg hsmall] at h
      right
      exact ⟨hsmall, go_rel E utf16 last src _ fuel s budgets 0 0 [] false [] t h⟩

/-! ### termination of the loop -/

/-- an `Unmappable` return consumed at least one source unit -/
theorem ecall_unmappable_read_pos (utf16 : Bool) (s : E.σ) (src : List Nat) (last : Bool) (b : Budget) (u : Nat)
    (h : (ecall E utf16 s src last b).res = .unmappable u) :
    1 ≤ (ecall E utf16 s src last b).read ∧ src ≠ [] := by
  rw [ecall_eq_erunI] at h ⊢
  obtain ⟨pre, c, w, s0, h1, h2, _, _⟩ := erunI_unmappable E last _ s b u h
  have hw : 1 ≤ w := itemsOfSrc_width_pos utf16 src (c, w) (by rw [h1]; simp)
  refine ⟨by omega, ?_⟩
  intro hnil
  subst hnil
  rw [itemsOfSrc_nil] at h1
  simp at h1

/-- **the loop terminates**: `src.length - total_read + 1` rounds are enough, whatever the inner calls
do (every round but the last ends in `Unmappable`, which consumes at least one unit) -/
theorem go_terminates (utf16 last : Bool) (src : List Nat) (eff : Nat) :
    ∀ (fuel : Nat) (s : E.σ) (budgets : List Budget) (tr tw : Nat) (acc : List Nat) (had : Bool)
      (inner : List (Nat × Nat × ERes × Nat)), src.length - tr < fuel →
      ∃ t, encRepl.go E utf16 last fuel s src budgets eff tr tw acc had inner = some t := by
  intro fuel
  induction fuel with
  | zero => intro s budgets tr tw acc had inner h; omega
  | succ fuel ih =>
    intro s budgets tr tw acc had inner hf
    rw [encRepl.go]
    simp only
    have hpos := ecall_unmappable_read_pos E utf16 s (src.drop tr) last (budgets.headD .unlimited)
    generalize ecall E utf16 s (List.drop tr src) last (budgets.headD Budget.unlimited) = r at hpos
    cases hres : r.res with
    | inputEmpty => exact ⟨_, rfl⟩
    | outputFull => exact ⟨_, rfl⟩
    | unmappable c =>
      simp only
      obtain ⟨h1, h2⟩ := hpos c hres
      split
      · split <;> exact ⟨_, rfl⟩
      · apply ih
        have : tr < src.length := Nat.lt_of_not_le (fun hc => h2 (List.drop_eq_nil_of_le hc))
        omega

theorem encRepl_terminates (canAll : Bool) (ncrExtra : Nat) (utf16 last : Bool) (cap fuel : Nat) (s : E.σ)
    (src : List Nat) (budgets : List Budget) (hf : src.length + 2 ≤ fuel) :
    ∃ t, encRepl E canAll ncrExtra utf16 last cap fuel s src budgets = some t := by
  cases fuel with
  | zero => omega
  | succ fuel =>
    rw [encRepl]
    split
    · split <;> exact ⟨_, rfl⟩
    · exact go_terminates E utf16 last src _ fuel s budgets 0 0 [] false [] (by omega)

/-- more fuel does not change the result -/
theorem go_fuel_mono (utf16 last : Bool) (src : List Nat) (eff : Nat) :
    ∀ (fuel : Nat) (s : E.σ) (budgets : List Budget) (tr tw : Nat) (acc : List Nat) (had : Bool)
      (inner : List (Nat × Nat × ERes × Nat)) (t : EReplRes E.σ),
      encRepl.go E utf16 last fuel s src budgets eff tr tw acc had inner = some t →
      ∀ fuel', fuel ≤ fuel' → encRepl.go E utf16 last fuel' s src budgets eff tr tw acc had inner = some t := by
  intro fuel
  induction fuel with
  | zero => intro s budgets tr tw acc had inner t h; simp [encRepl.go] at h
  | succ fuel ih =>
    intro s budgets tr tw acc had inner t h fuel' hle
    cases fuel' with
    | zero => omega
    | succ fuel' =>
      rw [encRepl.go] at h ⊢
      simp only at h ⊢
      generalize ecall E utf16 s (List.drop tr src) last (budgets.headD Budget.unlimited) = r at h ⊢
      cases hres : r.res with
      | inputEmpty => simp only [hres] at h ⊢; exact h
      | outputFull => simp only [hres] at h ⊢; exact h
      | unmappable c =>
        simp only [hres] at h ⊢
        split
        · rename_i hfull
          rw [if_pos hfull] at h
          exact h
        · rename_i hfull
          rw [if_neg hfull] at h
          exact ih _ _ _ _ _ _ _ t h fuel' (by omega)

theorem encRepl_fuel_mono (canAll : Bool) (ncrExtra : Nat) (utf16 last : Bool) (cap fuel fuel' : Nat) (s : E.σ)
    (src : List Nat) (budgets : List Budget) (t : EReplRes E.σ)
    (h : encRepl E canAll ncrExtra utf16 last cap fuel s src budgets = some t) (hle : fuel ≤ fuel') :
    encRepl E canAll ncrExtra utf16 last cap fuel' s src budgets = some t := by
  cases fuel with
  | zero => simp [encRepl] at h
  | succ fuel =>
    cases fuel' with
    | zero => omega
    | succ fuel' =>
      rw [encRepl] at h ⊢
      split
      · rename_i hs; rw [if_pos hs] at h; exact h
      · rename_i hs
        rw [if_neg hs] at h
        exact go_fuel_mono E utf16 last src _ fuel s budgets 0 0 [] false [] t h fuel' (by omega)

/-! ### per-variant facts -/

/-- what an encoder reports as unmappable is the character itself; the only exception is the one
the Encoding Standard prescribes: ISO-2022-JP reports U+FFFD for U+000E / U+000F / U+001B -/
def ReportsOk (E : EFam) : Prop :=
  ∀ s c u, (E.step s c).unmappable = some u → u = c ∨ (u = 0xFFFD ∧ (c = 0x0E ∨ c = 0x0F ∨ c = 0x1B))

theorem stateless_reports (enc : Nat → Option (List Nat)) (s : Unit) (c u : Nat)
    (h : (statelessStep enc s c).unmappable = some u) : u = c := by
  unfold statelessStep at h
  split at h
  · simp [EStep.ok] at h
  · simp only [EStep.unmap, Option.some.injEq] at h
    exact h.symm

def RepSpec (c : Nat) (r : EStep IsoEncSt) : Prop :=
  ∀ u, r.unmappable = some u → u = c ∨ (u = 0xFFFD ∧ (c = 0x0E ∨ c = 0x0F ∨ c = 0x1B))

theorem repSpec_ok (c : Nat) (st : IsoEncSt) (out : List Nat) : RepSpec c (EStep.ok st out) := by
  intro u h; simp [EStep.ok] at h
theorem repSpec_again (c : Nat) (st : IsoEncSt) (out : List Nat) : RepSpec c (EStep.again st out) := by
  intro u h; simp [EStep.again] at h
theorem repSpec_self (c : Nat) (st : IsoEncSt) (out : List Nat) : RepSpec c (EStep.unmap st c out) := by
  intro u h
  simp only [EStep.unmap, Option.some.injEq] at h
  exact Or.inl h.symm
theorem repSpec_fffd (c : Nat) (st : IsoEncSt) (hc : c = 0x0E ∨ c = 0x0F ∨ c = 0x1B) :
    RepSpec c (EStep.unmap st 0xFFFD) := by
  intro u h
  simp only [EStep.unmap, Option.some.injEq] at h
  exact Or.inr ⟨h.symm, hc⟩

theorem isoEncStep_reports (s : IsoEncSt) (c : Nat) : RepSpec c (isoEncStep s c) := by
  cases s <;>
  · unfold isoEncStep
    simp only
    repeat' split
    all_goals first
      | with_reducible apply repSpec_ok
      | with_reducible apply repSpec_again
      | with_reducible apply repSpec_self
      | (with_reducible apply repSpec_fffd; assumption)

theorem reports_ok (v : Gen.Variant) : ReportsOk (efamOfVariant v) := by
  intro s c u h
  cases v with
  | iso2022Jp => exact isoEncStep_reports s c u h
  | singleByte t a b l => exact Or.inl (stateless_reports _ s c u h)
  | utf8 => exact Or.inl (stateless_reports _ s c u h)
  | gbk => exact Or.inl (stateless_reports _ s c u h)
  | gb18030 => exact Or.inl (stateless_reports _ s c u h)
  | big5 => exact Or.inl (stateless_reports _ s c u h)
  | eucJp => exact Or.inl (stateless_reports _ s c u h)
  | shiftJis => exact Or.inl (stateless_reports _ s c u h)
  | eucKr => exact Or.inl (stateless_reports _ s c u h)
  | replacement => exact Or.inl (stateless_reports _ s c u h)
  | utf16Be => exact Or.inl (stateless_reports _ s c u h)
  | utf16Le => exact Or.inl (stateless_reports _ s c u h)
  | userDefined => exact Or.inl (stateless_reports _ s c u h)

/-- what is reported for a scalar value is a scalar value -/
theorem ReportsOk.scalar {E : EFam} (h : ReportsOk E) (s : E.σ) (c u : Nat)
    (hu : (E.step s c).unmappable = some u) (hc : isScalar c = true) : isScalar u = true := by
  rcases h s c u hu with h1 | ⟨h1, _⟩
  · rw [h1]; exact hc
  · rw [h1]; decide

/-- the encoders whose `Encoding::can_encode_everything()` is true (output encoding UTF-8) never
report an unmappable character -/
theorem canAll_no_unmappable (v : Gen.Variant) (h : canEncodeEverything v = true)
    (s : (efamOfVariant v).σ) (c : Nat) : ((efamOfVariant v).step s c).unmappable = none := by
  cases v <;> first | rfl | cases h

/-- after the end-of-stream block `has_pending_state()` is false -/
theorem eof_not_pending (v : Gen.Variant) (s : (efamOfVariant v).σ) :
    (efamOfVariant v).hasPending ((efamOfVariant v).eof s).2 = false := by
  cases v with
  | iso2022Jp =>
    have hs : ∀ s' : IsoEncSt, isoEncHasPending (isoEncEof s').2 = false := by
      intro s'; cases s' <;> rfl
    exact hs s
  | _ => rfl

/-- `has_pending_state() = false` ⇒ the end-of-stream block writes nothing -/
theorem eof_empty_of_not_pending (v : Gen.Variant) (s : (efamOfVariant v).σ)
    (h : (efamOfVariant v).hasPending s = false) : ((efamOfVariant v).eof s).1 = [] := by
  cases v with
  | iso2022Jp =>
    have hs : ∀ s' : IsoEncSt, isoEncHasPending s' = false → (isoEncEof s').1 = [] := by
      intro s' h'; cases s' <;> first | rfl | cases h'
    exact hs s h
  | _ => rfl

theorem variant_elaws (v : Gen.Variant) : ELaws (efamOfVariant v) := by
  constructor
  cases v
  case iso2022Jp => intro s; cases s <;> rfl
  all_goals (intro s; rfl)

/-! ### `total_read` stays on a character boundary -/

/-- `n` is a character boundary of the buffer: it is the width of a prefix `pre` of the buffer's
characters, and the buffer re-sliced at `n` yields exactly the characters after `pre` (so `n` is never
inside a surrogate pair or a UTF-8 sequence) -/
def Bnd (utf16 : Bool) (src : List Nat) (n : Nat) : Prop :=
  ∃ pre, itemsOfSrc utf16 src = pre ++ itemsOfSrc utf16 (src.drop n) ∧ n = widthSum pre

theorem bnd_zero (utf16 : Bool) (src : List Nat) : Bnd utf16 src 0 := ⟨[], by simp, rfl⟩

theorem Bnd.le {utf16 : Bool} {src : List Nat} {n : Nat} (h : Bnd utf16 src n) (hsrc : SrcOK utf16 src) :
    n ≤ src.length := by
  obtain ⟨pre, h1, h2⟩ := h
  rw [h2]
  exact widthSum_prefix_le utf16 src hsrc pre _ h1

theorem Bnd.mem {utf16 : Bool} {src : List Nat} {n : Nat} (h : Bnd utf16 src n) :
    ∀ it ∈ itemsOfSrc utf16 (src.drop n), it ∈ itemsOfSrc utf16 src := by
  obtain ⟨pre, h1, _⟩ := h
  intro it hit
  rw [h1]
  exact List.mem_append_right _ hit

/-! #### the rest of a valid buffer after a character boundary is valid -/

theorem items8_cons (sq rest : List Nat) (c : Nat) (hr : read8 (sq ++ rest) = some (c, sq.length))
    (hpos : 1 ≤ sq.length) : items8 (sq ++ rest) = (c, sq.length) :: items8 rest := by
  unfold items8
  have hl : (sq ++ rest).length = (sq.length + rest.length - 1) + 1 := by
    simp only [List.length_append]; omega
  rw [hl]
  simp only [itemsOf, hr]
  rw [List.drop_left]
  congr 1
  exact ConformEnc.itemsOf_fuel read8 ConformEnc.read8_width rfl _ _ rest (by omega) (Nat.le_refl _)

theorem bnd8_wf (src : List Nat) (h : Spec.WellFormedUtf8 src) : ∀ (pre : List (Nat × Nat)) (n : Nat),
    items8 src = pre ++ items8 (src.drop n) → n = widthSum pre → Spec.WellFormedUtf8 (src.drop n) := by
  induction h with
  | nil => intro pre n _ _; simpa using Spec.WellFormedUtf8.nil
  | cons sq rest hs hrest ih =>
    intro pre n h1 h2
    obtain ⟨c, hr, _, hpos⟩ := read8_seq sq rest hs
    cases pre with
    | nil =>
      have : n = 0 := by simpa using h2
      subst this
      simpa using Spec.WellFormedUtf8.cons sq rest hs hrest
    | cons it pre' =>
      obtain ⟨c', w'⟩ := it
      rw [items8_cons sq rest c hr hpos] at h1
      simp only [List.cons_append, List.cons.injEq, Prod.mk.injEq] at h1
      obtain ⟨⟨_, hw⟩, h3⟩ := h1
      have hn : n = sq.length + widthSum pre' := by rw [h2, widthSum_cons, hw]
      have hd : (sq ++ rest).drop n = rest.drop (widthSum pre') := by
        rw [hn, ← List.drop_drop, List.drop_left]
      rw [hd] at h3 ⊢
      exact ih pre' _ h3 rfl

/-- **re-slicing a valid buffer at a character boundary yields a valid buffer**: `&src[n..]` is
again a `&str` (the slice expression does not panic) resp. a buffer of 16-bit units -/
theorem Bnd.srcOK {utf16 : Bool} {src : List Nat} {n : Nat} (h : Bnd utf16 src n) (hsrc : SrcOK utf16 src) :
    SrcOK utf16 (src.drop n) := by
  cases utf16 with
  | true => exact fun u hu => hsrc u (List.mem_of_mem_drop hu)
  | false =>
    obtain ⟨pre, h1, h2⟩ := h
    exact bnd8_wf src hsrc pre n h1 h2

variable (E : EFam)

/-- a raw call made at a character boundary ends at a character boundary -/
theorem bnd_step (utf16 last : Bool) (src : List Nat) (s : E.σ) (b : Budget) (tr : Nat)
    (h : Bnd utf16 src tr) : Bnd utf16 src (tr + (ecall E utf16 s (src.drop tr) last b).read) := by
  obtain ⟨pre, h1, h2⟩ := h
  obtain ⟨pre', h3, h4⟩ := erunI_split E last (itemsOfSrc utf16 (src.drop tr)) s b
  have h5 := ecall_rest E utf16 s (src.drop tr) last b
  rw [List.drop_drop] at h5
  refine ⟨pre ++ pre', ?_, ?_⟩
  · rw [h5, List.append_assoc, ← h3]
    exact h1
  · rw [widthSum_append, ← h2, ecall_eq_erunI, h4]

/-- a raw call made at a character boundary that returns `InputEmpty` consumed the buffer to its end -/
theorem bnd_inputEmpty (utf16 last : Bool) (src : List Nat) (s : E.σ) (b : Budget) (tr : Nat)
    (h : Bnd utf16 src tr) (hsrc : SrcOK utf16 src)
    (hres : (ecall E utf16 s (src.drop tr) last b).res = .inputEmpty) :
    tr + (ecall E utf16 s (src.drop tr) last b).read = src.length := by
  obtain ⟨pre, h1, h2⟩ := h
  obtain ⟨pre', h3, h4⟩ := erunI_split E last (itemsOfSrc utf16 (src.drop tr)) s b
  rw [ecall_eq_erunI] at hres ⊢
  rw [erunI_inputEmpty E last _ s b hres, List.append_nil] at h3
  have h5 := (itemsOfSrc_ok utf16 src hsrc).2
  rw [h1, widthSum_append, ← h2, h3] at h5
  omega

/-- what a raw call made at a character boundary of a valid buffer reports as unmappable is a scalar
value -/
theorem bnd_unmappable_scalar (hrep : ReportsOk E) (utf16 last : Bool) (src : List Nat) (s : E.σ) (b : Budget)
    (tr : Nat) (h : Bnd utf16 src tr) (hsrc : SrcOK utf16 src) (u : Nat)
    (hres : (ecall E utf16 s (src.drop tr) last b).res = .unmappable u) : isScalar u = true := by
  rw [ecall_eq_erunI] at hres
  obtain ⟨pre, c, w, s0, h1, _, h3, _⟩ := erunI_unmappable E last _ s b u hres
  have hmem : (c, w) ∈ itemsOfSrc utf16 src := h.mem (c, w) (by rw [h1]; simp)
  exact hrep.scalar s0 c u h3 (itemsOfSrc_scalar utf16 src hsrc (c, w) hmem)

/-! ### facts about the loop, by induction over `GoRel` -/

theorem go_inner_mono {utf16 last : Bool} {src : List Nat} {eff : Nat} {s : E.σ} {budgets : List Budget}
    {tr tw : Nat} {acc : List Nat} {had : Bool} {inner : List (Nat × Nat × ERes × Nat)} {t : EReplRes E.σ}
    (h : GoRel E utf16 last src eff s budgets tr tw acc had inner t) : ∀ x ∈ inner, x ∈ t.inner := by
  induction h with
  | stop s budgets tr tw acc had inner r hr hres => intro x hx; exact List.mem_append_left _ hx
  | unmapEnd s budgets tr tw acc had inner r c hr hres hfull hend =>
    intro x hx; exact List.mem_append_left _ hx
  | unmapFull s budgets tr tw acc had inner r c hr hres hfull hend =>
    intro x hx; exact List.mem_append_left _ hx
  | unmapCont s budgets tr tw acc had inner r c t hr hres hroom hnext ih =>
    intro x hx; exact ih x (List.mem_append_left _ hx)

/-- the with-replacement call never reports `Unmappable` -/
theorem go_res {utf16 last : Bool} {src : List Nat} {eff : Nat} {s : E.σ} {budgets : List Budget}
    {tr tw : Nat} {acc : List Nat} {had : Bool} {inner : List (Nat × Nat × ERes × Nat)} {t : EReplRes E.σ}
    (h : GoRel E utf16 last src eff s budgets tr tw acc had inner t) :
    t.res = .inputEmpty ∨ t.res = .outputFull := by
  induction h with
  | stop s budgets tr tw acc had inner r hr hres => exact hres
  | unmapEnd => exact Or.inl rfl
  | unmapFull => exact Or.inr rfl
  | unmapCont s budgets tr tw acc had inner r c t hr hres hroom hnext ih => exact ih

/-- `total_read` ends on a character boundary and never decreases -/
theorem go_bnd {utf16 last : Bool} {src : List Nat} {eff : Nat} {s : E.σ} {budgets : List Budget}
    {tr tw : Nat} {acc : List Nat} {had : Bool} {inner : List (Nat × Nat × ERes × Nat)} {t : EReplRes E.σ}
    (h : GoRel E utf16 last src eff s budgets tr tw acc had inner t) :
    Bnd utf16 src tr → Bnd utf16 src t.read ∧ tr ≤ t.read := by
  induction h with
  | stop s budgets tr tw acc had inner r hr hres =>
    intro hb; subst hr
    exact ⟨bnd_step E utf16 last src s _ tr hb, Nat.le_add_right _ _⟩
  | unmapEnd s budgets tr tw acc had inner r c hr hres hfull hend =>
    intro hb; subst hr
    exact ⟨bnd_step E utf16 last src s _ tr hb, Nat.le_add_right _ _⟩
  | unmapFull s budgets tr tw acc had inner r c hr hres hfull hend =>
    intro hb; subst hr
    exact ⟨bnd_step E utf16 last src s _ tr hb, Nat.le_add_right _ _⟩
  | unmapCont s budgets tr tw acc had inner r c t hr hres hroom hnext ih =>
    intro hb; subst hr
    have := ih (bnd_step E utf16 last src s _ tr hb)
    exact ⟨this.1, by omega⟩

/-- `InputEmpty` from the with-replacement call: the whole buffer was consumed -/
theorem go_inputEmpty {utf16 last : Bool} {src : List Nat} {eff : Nat} {s : E.σ} {budgets : List Budget}
    {tr tw : Nat} {acc : List Nat} {had : Bool} {inner : List (Nat × Nat × ERes × Nat)} {t : EReplRes E.σ}
    (h : GoRel E utf16 last src eff s budgets tr tw acc had inner t) (hsrc : SrcOK utf16 src) :
    Bnd utf16 src tr → t.res = .inputEmpty → t.read = src.length := by
  induction h with
  | stop s budgets tr tw acc had inner r hr hres =>
    intro hb hi; subst hr
    exact bnd_inputEmpty E utf16 last src s _ tr hb hsrc hi
  | unmapEnd s budgets tr tw acc had inner r c hr hres hfull hend =>
    intro _ _; exact hend.1
  | unmapFull s budgets tr tw acc had inner r c hr hres hfull hend =>
    intro _ hi; cases hi
  | unmapCont s budgets tr tw acc had inner r c t hr hres hroom hnext ih =>
    intro hb hi; subst hr
    exact ih (bnd_step E utf16 last src s _ tr hb) hi

/-- the output of the with-replacement loop fits: every inner call writes into
`dst[total_written..effective_dst_len]`, and a numeric character reference fits into the reserve -/
theorem go_out_le {utf16 last : Bool} {src : List Nat} {eff : Nat} {s : E.σ} {budgets : List Budget}
    {tr tw : Nat} {acc : List Nat} {had : Bool} {inner : List (Nat × Nat × ERes × Nat)} {t : EReplRes E.σ}
    (h : GoRel E utf16 last src eff s budgets tr tw acc had inner t) (hsrc : SrcOK utf16 src)
    (hrep : ReportsOk E) :
    InnerAdmissible t.inner → Bnd utf16 src tr → acc.length = tw → tw ≤ eff →
    t.out.length ≤ eff + Gen.ncrExtra := by
  induction h with
  | stop s budgets tr tw acc had inner r hr hres =>
    intro hadm _ hacc hle
    have := (hadm (eff - tw, r.out.length, r.res, r.stopNeed) (by simp)).1
    simp only [List.length_append] at this ⊢
    omega
  | unmapEnd s budgets tr tw acc had inner r c hr hres hfull hend =>
    intro hadm hb hacc hle
    have h1 := (hadm (eff - tw, r.out.length, r.res, r.stopNeed) (by simp)).1
    subst hr
    have h2 := ncr_length_le c (isScalar_lt c (bnd_unmappable_scalar E hrep utf16 last src s _ tr hb hsrc c hres))
    simp only [List.length_append] at h1 ⊢
    omega
  | unmapFull s budgets tr tw acc had inner r c hr hres hfull hend =>
    intro hadm hb hacc hle
    have h1 := (hadm (eff - tw, r.out.length, r.res, r.stopNeed) (by simp)).1
    subst hr
    have h2 := ncr_length_le c (isScalar_lt c (bnd_unmappable_scalar E hrep utf16 last src s _ tr hb hsrc c hres))
    simp only [List.length_append] at h1 ⊢
    omega
  | unmapCont s budgets tr tw acc had inner r c t hr hres hroom hnext ih =>
    intro hadm hb hacc hle
    subst hr
    apply ih hadm (bnd_step E utf16 last src s _ tr hb)
    · simp only [List.length_append]; omega
    · omega

/-- when the encoder never reports an unmappable character the loop is its first round -/
theorem go_out_le_no_unmappable {utf16 last : Bool} {src : List Nat} {eff : Nat} {s : E.σ}
    {budgets : List Budget} {tr tw : Nat} {acc : List Nat} {had : Bool}
    {inner : List (Nat × Nat × ERes × Nat)} {t : EReplRes E.σ}
    (h : GoRel E utf16 last src eff s budgets tr tw acc had inner t)
    (hno : ∀ s c, (E.step s c).unmappable = none) :
    InnerAdmissible t.inner → acc.length = tw → tw ≤ eff → t.out.length ≤ eff := by
  have hnever : ∀ (s : E.σ) (src' : List Nat) (b : Budget) (c : Nat),
      (ecall E utf16 s src' last b).res ≠ .unmappable c := by
    intro s src' b c
    exact erun_no_unmappable E last _ s b c (fun it _ s => hno s it.1)
  induction h with
  | stop s budgets tr tw acc had inner r hr hres =>
    intro hadm hacc hle
    have := (hadm (eff - tw, r.out.length, r.res, r.stopNeed) (by simp)).1
    simp only [List.length_append] at this ⊢
    omega
  | unmapEnd s budgets tr tw acc had inner r c hr hres hfull hend =>
    subst hr; exact absurd hres (hnever _ _ _ _)
  | unmapFull s budgets tr tw acc had inner r c hr hres hfull hend =>
    subst hr; exact absurd hres (hnever _ _ _ _)
  | unmapCont s budgets tr tw acc had inner r c t hr hres hroom hnext ih =>
    subst hr; exact absurd hres (hnever _ _ _ _)

end EncodingRs.Lemmas.EncSide
