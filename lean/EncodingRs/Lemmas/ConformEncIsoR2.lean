import EncodingRs.Lemmas.ConformEncIsoDef
/-! C03, ISO-2022-JP: complete evaluation of `isoCheck` (all three encoder states) over the code points 0x5C00 ≤ c < 0x6A00 (`native_decide`). -/
namespace EncodingRs.Lemmas.ConformEnc

theorem iso_check_r2 : allFrom isoCheck 0x5C00 0xE00 = true := by native_decide

end EncodingRs.Lemmas.ConformEnc
