import EncodingRs.Lemmas.ConformEncIsoDef
/-! C03, ISO-2022-JP: complete evaluation of `isoCheck` (all three encoder states) over the code points 0x6A00 ≤ c < 0x7800 (`native_decide`). -/
namespace EncodingRs.Lemmas.ConformEnc

theorem iso_check_r3 : allFrom isoCheck 0x6A00 0xE00 = true := by native_decide

end EncodingRs.Lemmas.ConformEnc
