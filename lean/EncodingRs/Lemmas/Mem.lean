import EncodingRs.Spec.Conv
import EncodingRs.Model.Mem
/-!
Helper lemmas for C15: bit-level forms of the Rust = arithmetic forms of the
specification, and the inductive facts about the loops of `Model/Mem.lean`.
-/
namespace EncodingRs.Lemmas.Mem
open EncodingRs.Spec.Conv EncodingRs.Model.Mem

/-! ## bit-level bridging -/

theorem or80 : ∀ y, y < 64 → y ||| 0x80 = 0x80 + y := by decide
theorem orC0 : ∀ y, y < 32 → y ||| 0xC0 = 0xC0 + y := by decide
theorem orE0 : ∀ y, y < 16 → y ||| 0xE0 = 0xE0 + y := by decide
theorem orF0 : ∀ y, y < 8 → y ||| 0xF0 = 0xF0 + y := by decide

theorem and3F (a : Nat) : a &&& 0x3F = a % 64 := Nat.and_two_pow_sub_one_eq_mod a 6
theorem andFC0 (a : Nat) : (a &&& 0xFC0) >>> 6 = a / 64 % 64 := by
  rw [Nat.shiftRight_and_distrib, Nat.shiftRight_eq_div_pow]
  exact Nat.and_two_pow_sub_one_eq_mod _ 6
theorem and3F000 (a : Nat) : (a &&& 0x3F000) >>> 12 = a / 4096 % 64 := by
  rw [Nat.shiftRight_and_distrib, Nat.shiftRight_eq_div_pow]
  exact Nat.and_two_pow_sub_one_eq_mod _ 6

theorem enc2_eq (u : Nat) (h0 : 0x80 ≤ u) (h : u < 0x800) : enc2 u = utf8Encode u := by
  unfold enc2 utf8Encode
  rw [Nat.shiftRight_eq_div_pow, and3F, or80 _ (by omega), orC0 _ (by omega)]
  simp only [show ¬ u < 0x80 by omega, show u < 0x800 by omega, if_false, if_true]

theorem enc3_eq (u : Nat) (h0 : 0x800 ≤ u) (h : u < 0x10000) : enc3 u = utf8Encode u := by
  unfold enc3 utf8Encode
  rw [Nat.shiftRight_eq_div_pow, and3F, andFC0, or80 _ (by omega), or80 _ (by omega), orE0 _ (by omega)]
  simp only [show ¬ u < 0x80 by omega, show ¬ u < 0x800 by omega, show u < 0x10000 by omega, if_false, if_true]

theorem enc4_eq (a : Nat) (h0 : 0x10000 ≤ a) (h : a < 0x110000) : enc4 a = utf8Encode a := by
  unfold enc4 utf8Encode
  rw [Nat.shiftRight_eq_div_pow, and3F, andFC0, and3F000, or80 _ (by omega), or80 _ (by omega),
    or80 _ (by omega), orF0 _ (by omega)]
  simp only [show ¬ a < 0x80 by omega, show ¬ a < 0x800 by omega, show ¬ a < 0x10000 by omega, if_false]

theorem enc3_fffd : enc3 0xFFFD = utf8Encode replacement := by decide
theorem fffd8_eq : fffd8 = utf8Encode replacement := by decide

theorem astralOf_eq (u s : Nat) (hu : isHighSurrogate u = true) (hs : isLowSurrogate s = true) :
    astralOf u s = pairValue u s := by
  simp only [isHighSurrogate, isLowSurrogate, Bool.and_eq_true, decide_eq_true_eq] at hu hs
  unfold astralOf pairValue
  simp only [Nat.shiftLeft_eq]
  omega

theorem pairValue_range (u s : Nat) (hu : isHighSurrogate u = true) (hs : isLowSurrogate s = true) :
    0x10000 ≤ pairValue u s ∧ pairValue u s < 0x110000 := by
  simp only [isHighSurrogate, isLowSurrogate, Bool.and_eq_true, decide_eq_true_eq] at hu hs
  unfold pairValue
  omega

theorem wsub_surr (u : Nat) (h : u < 65536) :
    (wsub16 u 0xD800 > 0xDFFF - 0xD800) ↔ isSurrogate u = false := by
  simp only [wsub16, isSurrogate, Bool.and_eq_false_iff, decide_eq_false_iff_not]
  omega

theorem wsub_high (u : Nat) (h : u < 65536) :
    (wsub16 u 0xD800 ≤ 0xDBFF - 0xD800) ↔ isHighSurrogate u = true := by
  simp only [wsub16, isHighSurrogate, Bool.and_eq_true, decide_eq_true_eq]
  omega

theorem wsub_low (u : Nat) (h : u < 65536) :
    (wsub16 u 0xDC00 ≤ 0xDFFF - 0xDC00) ↔ isLowSurrogate u = true := by
  simp only [wsub16, isLowSurrogate, Bool.and_eq_true, decide_eq_true_eq]
  omega


/-! ## `encodeIntoUtf8`: unfolding by class of the first unit -/

theorem surr_split (u : Nat) : isSurrogate u = (isHighSurrogate u || isLowSurrogate u) := by
  simp only [isSurrogate, isHighSurrogate, isLowSurrogate]
  by_cases h1 : 0xD800 ≤ u <;> by_cases h2 : u ≤ 0xDBFF <;> by_cases h3 : 0xDC00 ≤ u <;>
    by_cases h4 : u ≤ 0xDFFF <;> simp [h1, h2, h3, h4] <;> omega

theorem not_high_of_low {u : Nat} (h : isLowSurrogate u = true) : isHighSurrogate u = false := by
  simp only [isHighSurrogate, isLowSurrogate, Bool.and_eq_true, decide_eq_true_eq, Bool.and_eq_false_iff,
    decide_eq_false_iff_not] at *
  omega

theorem encodeInto_nonsurr (u : Nat) (rest : List Nat) (free : Nat) (h : isSurrogate u = false) :
    encodeIntoUtf8 (u :: rest) free =
      if free < utf8Len u then (0, [])
      else (1 + (encodeIntoUtf8 rest (free - utf8Len u)).1, utf8Encode u ++ (encodeIntoUtf8 rest (free - utf8Len u)).2) := by
  rw [surr_split, Bool.or_eq_false_iff] at h
  rw [encodeIntoUtf8.eq_def]
  simp [h.1, h.2]

theorem encodeInto_low (u : Nat) (rest : List Nat) (free : Nat) (h : isLowSurrogate u = true) :
    encodeIntoUtf8 (u :: rest) free =
      if free < 3 then (0, [])
      else (1 + (encodeIntoUtf8 rest (free - 3)).1, utf8Encode replacement ++ (encodeIntoUtf8 rest (free - 3)).2) := by
  rw [encodeIntoUtf8.eq_def]
  simp [h, not_high_of_low h]

theorem encodeInto_high_end (u : Nat) (free : Nat) (h : isHighSurrogate u = true) :
    encodeIntoUtf8 [u] free = if free < 3 then (0, []) else (1, utf8Encode replacement) := by
  rw [encodeIntoUtf8.eq_def]
  simp [h]

theorem encodeInto_pair (u l : Nat) (rest : List Nat) (free : Nat) (h : isHighSurrogate u = true)
    (hl : isLowSurrogate l = true) :
    encodeIntoUtf8 (u :: l :: rest) free =
      if free < 4 then (0, [])
      else (2 + (encodeIntoUtf8 rest (free - 4)).1, utf8Encode (pairValue u l) ++ (encodeIntoUtf8 rest (free - 4)).2) := by
  rw [encodeIntoUtf8.eq_def]
  simp [h, hl]

theorem encodeInto_high_unpaired (u l : Nat) (rest : List Nat) (free : Nat) (h : isHighSurrogate u = true)
    (hl : isLowSurrogate l = false) :
    encodeIntoUtf8 (u :: l :: rest) free =
      if free < 3 then (0, [])
      else (1 + (encodeIntoUtf8 (l :: rest) (free - 3)).1,
            utf8Encode replacement ++ (encodeIntoUtf8 (l :: rest) (free - 3)).2) := by
  rw [encodeIntoUtf8.eq_def]
  simp [h, hl]

theorem utf8Len_pos (c : Nat) : 1 ≤ utf8Len c := by
  unfold utf8Len; repeat' split
  all_goals omega

theorem utf8Encode_length (c : Nat) : (utf8Encode c).length = utf8Len c := by
  unfold utf8Encode utf8Len
  repeat' split
  all_goals rfl

theorem encodeInto_zero (src : List Nat) : encodeIntoUtf8 src 0 = (0, []) := by
  cases src with
  | nil => rfl
  | cons u rest =>
    rw [encodeIntoUtf8.eq_def]
    have := utf8Len_pos u
    cases rest <;> simp <;> omega


/-! ## `convert_utf16_to_utf8_partial` = `encodeIntoUtf8` -/

def U16 (src : List Nat) : Prop := ∀ u ∈ src, u < 65536

theorem U16.tail {u : Nat} {rest : List Nat} (h : U16 (u :: rest)) : U16 rest :=
  fun x hx => h x (List.mem_cons_of_mem _ hx)
theorem U16.head {u : Nat} {rest : List Nat} (h : U16 (u :: rest)) : u < 65536 :=
  h u List.mem_cons_self

theorem nonsurr_of_lt {u : Nat} (h : u < 0x800) : isSurrogate u = false := by
  simp only [isSurrogate, Bool.and_eq_false_iff, decide_eq_false_iff_not]; omega

theorem utf8Len_ascii {u : Nat} (h : u < 0x80) : utf8Len u = 1 := by simp [utf8Len, h]
theorem utf8Len_two {u : Nat} (h0 : ¬ u < 0x80) (h : u < 0x800) : utf8Len u = 2 := by simp [utf8Len, h, h0]
theorem utf8Len_three {u : Nat} (h0 : ¬ u < 0x800) (h : u < 0x10000) : utf8Len u = 3 := by
  have : ¬ u < 0x80 := by omega
  simp [utf8Len, h, h0, this]
theorem utf8Len_four {u : Nat} (h0 : ¬ u < 0x10000) : utf8Len u = 4 := by
  have : ¬ u < 0x80 := by omega
  have : ¬ u < 0x800 := by omega
  simp [utf8Len, *]
theorem utf8Encode_ascii {u : Nat} (h : u < 0x80) : utf8Encode u = [u] := by simp [utf8Encode, h]
theorem utf8Len_repl : utf8Len replacement = 3 := by decide

/-- with at most two free bytes the cold loop is the greedy rule -/
theorem tailLow_eq (src : List Nat) (free : Nat) (hf : free ≤ 2) :
    utf16ToUtf8TailLow src free = encodeIntoUtf8 src free := by
  induction src generalizing free with
  | nil => rfl
  | cons u rest ih =>
    rw [utf16ToUtf8TailLow]
    by_cases h1 : u < 0x80
    · rw [encodeInto_nonsurr _ _ _ (nonsurr_of_lt (by omega)), utf8Len_ascii h1, utf8Encode_ascii h1]
      simp only [h1, if_true]
      by_cases hz : free = 0
      · simp [hz]
      · have : ¬ free < 1 := by omega
        simp only [hz, this, if_false, step, ih (free - 1) (by omega)]
    · by_cases h2 : u < 0x800
      · rw [encodeInto_nonsurr _ _ _ (nonsurr_of_lt h2), utf8Len_two h1 h2, ← enc2_eq u (by omega) h2]
        simp only [h1, h2, if_true, if_false]
        by_cases hz : free < 2
        · simp [hz]
        · simp only [hz, if_false, step, ih (free - 2) (by omega)]
      · simp only [h1, h2, if_false]
        by_cases hs : isSurrogate u = true
        · rw [surr_split, Bool.or_eq_true] at hs
          rcases hs with hs | hs
          · cases rest with
            | nil => rw [encodeInto_high_end _ _ hs]; simp; omega
            | cons l rest' =>
              by_cases hl : isLowSurrogate l = true
              · rw [encodeInto_pair _ _ _ _ hs hl]; simp; omega
              · rw [encodeInto_high_unpaired _ _ _ _ hs (by simpa using hl)]; simp; omega
          · rw [encodeInto_low _ _ _ hs]; simp; omega
        · rw [encodeInto_nonsurr _ _ _ (by simpa using hs)]
          have : 3 ≤ utf8Len u := by
            unfold utf8Len; simp only [h1, h2, if_false]; split <;> omega
          simp; omega


/-- one step of the cold loop with at most three free bytes -/
theorem tailLow_eq3 (u : Nat) (rest : List Nat) (free : Nat) (hf : free ≤ 3) (hu : u < 0x800) :
    utf16ToUtf8TailLow (u :: rest) free = encodeIntoUtf8 (u :: rest) free := by
  rw [utf16ToUtf8TailLow, encodeInto_nonsurr _ _ _ (nonsurr_of_lt hu)]
  by_cases h1 : u < 0x80
  · rw [utf8Len_ascii h1, utf8Encode_ascii h1]
    simp only [h1, if_true]
    by_cases hz : free = 0
    · simp [hz]
    · have : ¬ free < 1 := by omega
      simp only [hz, this, if_false, step, tailLow_eq rest (free - 1) (by omega)]
  · rw [utf8Len_two h1 hu, ← enc2_eq u (by omega) hu]
    simp only [h1, hu, if_true, if_false]
    by_cases hz : free < 2
    · simp [hz]
    · simp only [hz, if_false, step, tailLow_eq rest (free - 2) (by omega)]

/-- **the cold tail**: with at most three free bytes (which is what the hot
loop leaves) `convert_utf16_to_utf8_partial_tail` is exactly the greedy rule -/
theorem tail_eq (src : List Nat) (free : Nat) (hf : free ≤ 3) (h16 : U16 src) :
    utf16ToUtf8Tail src free = encodeIntoUtf8 src free := by
  cases src with
  | nil => rfl
  | cons u rest =>
    have hu := h16.head
    unfold utf16ToUtf8Tail
    by_cases h2 : u < 0x800
    · simp only [h2, if_true]; exact tailLow_eq3 u rest free hf h2
    · simp only [h2, if_false]
      by_cases hs : isSurrogate u = true
      · have hw : wsub16 u 0xD800 ≤ 0xDFFF - 0xD800 := by
          have h := wsub_surr u hu
          by_cases hc : wsub16 u 0xD800 > 0xDFFF - 0xD800
          · have := h.mp hc; rw [hs] at this; cases this
          · omega
        simp only [hw, if_true]
        rw [surr_split, Bool.or_eq_true] at hs
        by_cases hh : isHighSurrogate u = true
        · simp only [(wsub_high u hu).mpr hh, if_true]
          cases rest with
          | nil =>
            rw [encodeInto_high_end _ _ hh, enc3_fffd]
          | cons l rest' =>
            by_cases hl : isLowSurrogate l = true
            · rw [encodeInto_pair _ _ _ _ hh hl]
              have : 0xDC00 ≤ l ∧ l ≤ 0xDFFF := by
                simpa [isLowSurrogate] using hl
              simp only [this, and_self, if_true]
              have : free < 4 := by omega
              simp [this]
            · rw [encodeInto_high_unpaired _ _ _ _ hh (by simpa using hl)]
              have : ¬ (0xDC00 ≤ l ∧ l ≤ 0xDFFF) := by
                simpa [isLowSurrogate] using hl
              simp only [this, if_false, enc3_fffd]
              by_cases hz : free < 3
              · simp [hz]
              · have : free - 3 = 0 := by omega
                simp [hz, this, encodeInto_zero]
        · have hlow : isLowSurrogate u = true := by
            rcases hs with hs | hs
            · exact absurd hs hh
            · exact hs
          have : ¬ wsub16 u 0xD800 ≤ 0xDBFF - 0xD800 := fun h => hh ((wsub_high u hu).mp h)
          simp only [this, if_false]
          rw [encodeInto_low _ _ _ hlow, enc3_fffd]
          by_cases hz : free < 3
          · simp [hz]
          · have : free - 3 = 0 := by omega
            simp [hz, this, encodeInto_zero]
      · have hs' : isSurrogate u = false := by simpa using hs
        have hw : ¬ wsub16 u 0xD800 ≤ 0xDFFF - 0xD800 := by
          have := (wsub_surr u hu).mpr hs'
          omega
        simp only [hw, if_false]
        rw [encodeInto_nonsurr _ _ _ hs', utf8Len_three h2 hu, enc3_eq u (by omega) hu]
        by_cases hz : free < 3
        · simp [hz]
        · have : free - 3 = 0 := by omega
          simp [hz, this, encodeInto_zero]

/-! ### the hot loop is a run of the greedy rule that stops with at most three free bytes -/

def InnerOk (src : List Nat) (free : Nat) (r : Nat × List Nat) : Prop :=
  r.2.length ≤ free ∧ r.1 ≤ src.length ∧ (r.1 = src.length ∨ free - r.2.length ≤ 3) ∧
  encodeIntoUtf8 src free = step r.1 r.2 (encodeIntoUtf8 (src.drop r.1) (free - r.2.length))

theorem innerOk_stop (src : List Nat) (free : Nat) (h : src = [] ∨ free ≤ 3) : InnerOk src free (0, []) := by
  refine ⟨by simp, by simp, ?_, ?_⟩
  · rcases h with h | h
    · left; simp [h]
    · right; simpa using h
  · simp [step]

theorem innerOk_step (src rest' : List Nat) (k : Nat) (w : List Nat) (free : Nat) (r : Nat × List Nat)
    (hk : src.drop k = rest') (hlen : src.length = k + rest'.length) (hw : w.length ≤ free)
    (hE : encodeIntoUtf8 src free = step k w (encodeIntoUtf8 rest' (free - w.length)))
    (ih : InnerOk rest' (free - w.length) r) : InnerOk src free (step k w r) := by
  obtain ⟨h1, h2, h3, h4⟩ := ih
  refine ⟨?_, ?_, ?_, ?_⟩
  · simp only [step, List.length_append]; omega
  · simp only [step]; omega
  · simp only [step, List.length_append]; omega
  · rw [hE, h4]
    simp only [step, List.length_append, List.append_assoc, Nat.add_assoc]
    rw [← hk, List.drop_drop, Nat.sub_sub]

theorem inner_run (n : Nat) : ∀ (src : List Nat) (free : Nat), src.length ≤ n → U16 src →
    InnerOk src free (utf16ToUtf8Inner src free) := by
  induction n with
  | zero =>
    intro src free hl _
    have : src = [] := List.eq_nil_of_length_eq_zero (by omega)
    subst this
    exact innerOk_stop [] free (Or.inl rfl)
  | succ n ih =>
    intro src free hl h16
    cases src with
    | nil => exact innerOk_stop [] free (Or.inl rfl)
    | cons u rest =>
      have hu := h16.head
      have hrest := h16.tail
      have hlr : rest.length ≤ n := by simpa using hl
      rw [utf16ToUtf8Inner.eq_def]
      simp only []
      by_cases h1 : u < 0x80
      · simp only [h1, if_true]
        by_cases hz : free = 0
        · simp only [hz, if_true]; exact innerOk_stop _ _ (Or.inr (by omega))
        · simp only [hz, if_false]
          refine innerOk_step _ rest 1 [u] free _ rfl (by simp; omega) (by simp; omega) ?_ (ih rest _ hlr hrest)
          rw [encodeInto_nonsurr _ _ _ (nonsurr_of_lt (by omega)), utf8Len_ascii h1, utf8Encode_ascii h1]
          have : ¬ free < 1 := by omega
          simp [this, step]
      · simp only [h1, if_false]
        by_cases h4 : free < 4
        · simp only [h4, if_true]; exact innerOk_stop _ _ (Or.inr (by omega))
        · simp only [h4, if_false]
          by_cases h2 : u < 0x800
          · simp only [h2, if_true]
            have hlen : (enc2 u).length = 2 := rfl
            refine innerOk_step _ rest 1 (enc2 u) free _ rfl (by simp; omega) (by omega) ?_ (by rw [hlen]; exact ih rest _ hlr hrest)
            rw [encodeInto_nonsurr _ _ _ (nonsurr_of_lt h2), utf8Len_two h1 h2, hlen, enc2_eq u (by omega) h2]
            have : ¬ free < 2 := by omega
            simp [this, step]
          · simp only [h2, if_false]
            by_cases hs : isSurrogate u = false
            · simp only [(wsub_surr u hu).mpr hs, if_true]
              have hlen : (enc3 u).length = 3 := rfl
              refine innerOk_step _ rest 1 (enc3 u) free _ rfl (by simp; omega) (by omega) ?_ (by rw [hlen]; exact ih rest _ hlr hrest)
              rw [encodeInto_nonsurr _ _ _ hs, utf8Len_three h2 hu, hlen, enc3_eq u (by omega) hu]
              have : ¬ free < 3 := by omega
              simp [this, step]
            · have hns : ¬ wsub16 u 0xD800 > 0xDFFF - 0xD800 := fun h => hs ((wsub_surr u hu).mp h)
              simp only [hns, if_false]
              have hlen : fffd8.length = 3 := rfl
              have hf3 : ¬ free < 3 := by omega
              by_cases hh : isHighSurrogate u = true
              · simp only [(wsub_high u hu).mpr hh, if_true]
                cases rest with
                | nil =>
                  refine ⟨by simp [fffd8]; omega, by simp, Or.inl (by simp), ?_⟩
                  rw [encodeInto_high_end _ _ hh]
                  simp [hf3, step, fffd8_eq, encodeIntoUtf8]
                | cons s rest' =>
                  have hs16 := hrest.head
                  simp only []
                  by_cases hl : isLowSurrogate s = true
                  · simp only [(wsub_low s hs16).mpr hl, if_true]
                    have hlen4 : (enc4 (astralOf u s)).length = 4 := rfl
                    have hr := pairValue_range u s hh hl
                    refine innerOk_step _ rest' 2 _ free _ rfl (by simp; omega) (by omega) ?_
                      (by rw [hlen4]; exact ih rest' _ (by simp at hlr; omega) hrest.tail)
                    rw [encodeInto_pair _ _ _ _ hh hl, hlen4, astralOf_eq u s hh hl, enc4_eq _ hr.1 hr.2]
                    simp [h4, step]
                  · have : ¬ wsub16 s 0xDC00 ≤ 0xDFFF - 0xDC00 := fun h => hl ((wsub_low s hs16).mp h)
                    simp only [this, if_false]
                    refine innerOk_step _ (s :: rest') 1 fffd8 free _ rfl (by simp; omega) (by omega) ?_
                      (by rw [hlen]; exact ih (s :: rest') _ hlr hrest)
                    rw [encodeInto_high_unpaired _ _ _ _ hh (by simpa using hl), hlen, fffd8_eq]
                    simp [hf3, step]
              · have hnh : ¬ wsub16 u 0xD800 ≤ 0xDBFF - 0xD800 := fun h => hh ((wsub_high u hu).mp h)
                simp only [hnh, if_false]
                have hlow : isLowSurrogate u = true := by
                  have : isSurrogate u = true := by simpa using hs
                  rw [surr_split, Bool.or_eq_true] at this
                  rcases this with h | h
                  · exact absurd h hh
                  · exact h
                refine innerOk_step _ rest 1 fffd8 free _ rfl (by simp; omega) (by omega) ?_
                  (by rw [hlen]; exact ih rest _ hlr hrest)
                rw [encodeInto_low _ _ _ hlow, hlen, fffd8_eq]
                simp [hf3, step]

theorem partial_eq (src : List Nat) (cap : Nat) (h16 : U16 src) :
    convertUtf16ToUtf8Partial src cap = encodeIntoUtf8 src cap := by
  have hrun := inner_run src.length src cap (Nat.le_refl _) h16
  unfold convertUtf16ToUtf8Partial
  simp only []
  generalize utf16ToUtf8Inner src cap = r at hrun ⊢
  obtain ⟨r1, r2⟩ := r
  obtain ⟨h1, h2, h3, h4⟩ := hrun
  simp only at h1 h2 h3 h4 ⊢
  by_cases he : r1 = src.length
  · rw [if_pos he, h4, he, List.drop_length]
    simp [step, encodeIntoUtf8]
  · rw [if_neg he]
    have h3' : cap - r2.length ≤ 3 := by
      rcases h3 with h | h
      · exact absurd h he
      · exact h
    rw [tail_eq _ _ h3' (fun x hx => h16 x (List.mem_of_mem_drop hx)), h4]
    rfl

/-! ## the contract of the greedy rule -/

/-- what `(read, written bytes)` must satisfy for source `src` and `free` destination bytes -/
structure EncodeIntoSpec (src : List Nat) (free : Nat) (r : Nat × List Nat) : Prop where
  read_le : r.1 ≤ src.length
  written_le : r.2.length ≤ free
  exact : r.2 = utf8EncodeAll (decodeUtf16Lossy (src.take r.1))
  compositional : decodeUtf16Lossy src = decodeUtf16Lossy (src.take r.1) ++ decodeUtf16Lossy (src.drop r.1)
  no_split : ∀ h l, 0 < r.1 → src[r.1 - 1]? = some h → src[r.1]? = some l →
    ¬ (isHighSurrogate h = true ∧ isLowSurrogate l = true)
  maximal : r.1 = src.length ∨
    ∃ c, (decodeUtf16Lossy (src.drop r.1)).head? = some c ∧ free < r.2.length + utf8Len c

theorem spec_stop (src : List Nat) (free : Nat)
    (h : src = [] ∨ ∃ c, (decodeUtf16Lossy src).head? = some c ∧ free < utf8Len c) :
    EncodeIntoSpec src free (0, []) := by
  refine ⟨by simp, by simp, by simp [utf8EncodeAll, decodeUtf16Lossy], by simp [decodeUtf16Lossy],
    by simp, ?_⟩
  rcases h with h | ⟨c, h1, h2⟩
  · left; simp [h]
  · right; exact ⟨c, by simpa using h1, by simpa using h2⟩

theorem spec_step (src pre rest' : List Nat) (k c free : Nat) (r : Nat × List Nat)
    (hsrc : src = pre ++ rest') (hk : pre.length = k) (hk0 : 0 < k)
    (hdec : ∀ n, decodeUtf16Lossy (pre ++ rest'.take n) = c :: decodeUtf16Lossy (rest'.take n))
    (hns : ∀ h l, pre.getLast? = some h → rest'.head? = some l →
      ¬ (isHighSurrogate h = true ∧ isLowSurrogate l = true))
    (hfit : utf8Len c ≤ free)
    (ih : EncodeIntoSpec rest' (free - utf8Len c) r) :
    EncodeIntoSpec src free (k + r.1, utf8Encode c ++ r.2) := by
  obtain ⟨i1, i2, i3, i4, i5, i6⟩ := ih
  subst hsrc
  subst hk
  have htake : (pre ++ rest').take (pre.length + r.1) = pre ++ rest'.take r.1 := by
    rw [List.take_append]; simp [List.take_of_length_le]
  have hdrop : (pre ++ rest').drop (pre.length + r.1) = rest'.drop r.1 := by
    rw [List.drop_append]; simp [List.drop_of_length_le]
  have hfull := hdec rest'.length
  rw [List.take_length] at hfull
  refine ⟨?_, ?_, ?_, ?_, ?_, ?_⟩
  · simp only [List.length_append]; omega
  · simp only [List.length_append, utf8Encode_length]; omega
  · simp only [htake, hdec, utf8EncodeAll, ← i3]
  · simp only [htake, hdrop, hdec, hfull]
    rw [i4]; simp
  · intro h l _ h1 h2
    simp only at h1 h2
    by_cases hr : r.1 = 0
    · rw [hr] at h1 h2
      simp only [Nat.add_zero] at h1 h2
      apply hns h l
      · rw [List.getLast?_eq_getElem?]
        rw [List.getElem?_append_left (by omega)] at h1
        exact h1
      · rw [List.getElem?_append_right (by omega)] at h2
        simpa [List.head?_eq_getElem?] using h2
    · apply i5 h l (by omega)
      · rw [List.getElem?_append_right (by omega)] at h1
        rw [← h1]; congr 1; omega
      · rw [List.getElem?_append_right (by omega)] at h2
        rw [← h2]; congr 1; omega
  · simp only [hdrop, List.length_append, utf8Encode_length]
    rcases i6 with h | ⟨c', h1, h2⟩
    · left; omega
    · right; exact ⟨c', h1, by omega⟩

theorem not_high_of_nonsurr {u : Nat} (h1 : ¬ isHighSurrogate u = true) : isHighSurrogate u = false := by simpa using h1

theorem decode_low (u : Nat) (t : List Nat) (hl : isLowSurrogate u = true) :
    decodeUtf16Lossy (u :: t) = replacement :: decodeUtf16Lossy t := by
  rw [decodeUtf16Lossy.eq_def]; simp [hl, not_high_of_low hl]

theorem decode_nonsurr (u : Nat) (t : List Nat) (hh : ¬ isHighSurrogate u = true) (hl : ¬ isLowSurrogate u = true) :
    decodeUtf16Lossy (u :: t) = u :: decodeUtf16Lossy t := by
  rw [decodeUtf16Lossy.eq_def]; simp [hl, hh]

theorem encodeInto_spec (src : List Nat) (free : Nat) : EncodeIntoSpec src free (encodeIntoUtf8 src free) := by
  fun_induction encodeIntoUtf8 src free
  case case1 => exact spec_stop _ _ (Or.inl rfl)
  case case2 u free hh hf =>
    exact spec_stop _ _ (Or.inr ⟨replacement, by simp [decodeUtf16Lossy, hh], by rw [utf8Len_repl]; exact hf⟩)
  case case3 u free hh hf =>
    have := spec_step [u] [u] [] 1 replacement free (0, []) rfl rfl (by omega)
      (by intro n; simp [decodeUtf16Lossy, hh]) (by simp) (by rw [utf8Len_repl]; omega) (spec_stop _ _ (Or.inl rfl))
    simpa using this
  case case4 u free hh l cs hl hf =>
    exact spec_stop _ _ (Or.inr ⟨pairValue u l, by simp [decodeUtf16Lossy, hh, hl],
      by rw [utf8Len_four (by have := (pairValue_range u l hh hl).1; omega)]; exact hf⟩)
  case case5 u free hh l cs hl hf ih =>
    have h4 : utf8Len (pairValue u l) = 4 := utf8Len_four (by have := (pairValue_range u l hh hl).1; omega)
    refine spec_step (u :: l :: cs) [u, l] cs 2 (pairValue u l) free _ rfl rfl (by omega)
      (by intro n; simp [decodeUtf16Lossy, hh, hl]) ?_ (by omega) (by rw [h4]; exact ih)
    intro h l' h1 _
    simp at h1; subst h1
    simp [not_high_of_low hl]
  case case6 u free hh l cs hl hf =>
    exact spec_stop _ _ (Or.inr ⟨replacement, by simp [decodeUtf16Lossy, hh, hl], by rw [utf8Len_repl]; exact hf⟩)
  case case7 u free hh l cs hl hf ih =>
    refine spec_step (u :: l :: cs) [u] (l :: cs) 1 replacement free _ rfl rfl (by omega)
      ?_ ?_ (by rw [utf8Len_repl]; omega) (by rw [utf8Len_repl]; exact ih)
    · intro n
      cases n with
      | zero => simp [decodeUtf16Lossy, hh]
      | succ n => simp [decodeUtf16Lossy, hh, hl]
    · intro h l' _ h2
      simp at h2; subst h2
      simp [hl]
  case case8 u rest free hh hl hf =>
    exact spec_stop _ _ (Or.inr ⟨replacement, by rw [decode_low _ _ hl]; rfl, by rw [utf8Len_repl]; exact hf⟩)
  case case9 u rest free hh hl hf ih =>
    refine spec_step (u :: rest) [u] rest 1 replacement free _ rfl rfl (by omega)
      (by intro n; exact decode_low _ _ hl) ?_ (by rw [utf8Len_repl]; omega) (by rw [utf8Len_repl]; exact ih)
    intro h l' h1 _
    simp at h1; subst h1
    simp [hh]
  case case10 u rest free hh hl hf =>
    exact spec_stop _ _ (Or.inr ⟨u, by rw [decode_nonsurr _ _ hh hl]; rfl, hf⟩)
  case case11 u rest free hh hl hf ih =>
    refine spec_step (u :: rest) [u] rest 1 u free _ rfl rfl (by omega)
      (by intro n; exact decode_nonsurr _ _ hh hl) ?_ (by omega) ih
    intro h l' h1 _
    simp at h1; subst h1
    simp [hh]

/-- three bytes per code unit always suffice -/
theorem encodeInto_full (src : List Nat) (free : Nat) : U16 src → 3 * src.length ≤ free →
    (encodeIntoUtf8 src free).1 = src.length := by
  fun_induction encodeIntoUtf8 src free
  case case1 => intros; rfl
  case case2 u free hh hf => intro _ h; simp at h; omega
  case case3 u free hh hf => intros; rfl
  case case4 u free hh l cs hl hf => intro _ h; simp at h; omega
  case case5 u free hh l cs hl hf ih =>
    intro h16 h; simp at h ⊢
    rw [ih h16.tail.tail (by omega)]; omega
  case case6 u free hh l cs hl hf => intro _ h; simp at h; omega
  case case7 u free hh l cs hl hf ih =>
    intro h16 h; simp at h ⊢
    rw [ih h16.tail (by simp; omega)]; simp; omega
  case case8 u rest free hh hl hf => intro _ h; simp at h; omega
  case case9 u rest free hh hl hf ih =>
    intro h16 h; simp at h ⊢
    rw [ih h16.tail (by omega)]; omega
  case case10 u rest free hh hl hf =>
    intro h16 h; simp at h
    have : utf8Len u ≤ 3 := by
      have := h16.head
      unfold utf8Len; repeat' split
      all_goals omega
    omega
  case case11 u rest free hh hl hf ih =>
    intro h16 h; simp at h ⊢
    have : utf8Len u ≤ 3 := by
      have := h16.head
      unfold utf8Len; repeat' split
      all_goals omega
    rw [ih h16.tail (by omega)]; omega

/-! ## Latin1 -/

def U8 (src : List Nat) : Prop := ∀ b ∈ src, b < 256

theorem U8.tail {u : Nat} {rest : List Nat} (h : U8 (u :: rest)) : U8 rest :=
  fun x hx => h x (List.mem_cons_of_mem _ hx)
theorem U8.head {u : Nat} {rest : List Nat} (h : U8 (u :: rest)) : u < 256 :=
  h u List.mem_cons_self

theorem latin1Partial_eq (src : List Nat) (free : Nat) (h8 : U8 src) :
    convertLatin1ToUtf8Partial src free = latin1IntoUtf8 src free := by
  induction src generalizing free with
  | nil => rfl
  | cons b rest ih =>
    have hb := h8.head
    rw [convertLatin1ToUtf8Partial, latin1IntoUtf8]
    by_cases h1 : b < 0x80
    · rw [utf8Len_ascii h1, utf8Encode_ascii h1]
      simp only [h1, if_true]
      by_cases hz : free = 0
      · simp [hz]
      · have : ¬ free < 1 := by omega
        simp only [hz, this, if_false, step, ih (free - 1) h8.tail]
    · rw [utf8Len_two h1 (by omega), ← enc2_eq b (by omega) (by omega)]
      simp only [h1, if_false]
      by_cases hz : free < 2
      · simp [hz]
      · simp only [hz, if_false, step, ih (free - 2) h8.tail]
        rfl

/-- contract of the Latin1 → UTF-8 partial conversion -/
structure Latin1IntoSpec (src : List Nat) (free : Nat) (r : Nat × List Nat) : Prop where
  read_le : r.1 ≤ src.length
  written_le : r.2.length ≤ free
  exact : r.2 = utf8EncodeAll (latin1Decode (src.take r.1))
  maximal : r.1 = src.length ∨ ∃ b, src[r.1]? = some b ∧ free < r.2.length + utf8Len b

theorem latin1Into_spec (src : List Nat) (free : Nat) : Latin1IntoSpec src free (latin1IntoUtf8 src free) := by
  induction src generalizing free with
  | nil => exact ⟨by simp [latin1IntoUtf8], by simp [latin1IntoUtf8], by simp [latin1IntoUtf8, latin1Decode, utf8EncodeAll], Or.inl (by simp [latin1IntoUtf8])⟩
  | cons b rest ih =>
    rw [latin1IntoUtf8]
    by_cases hf : free < utf8Len b
    · simp only [hf, if_true]
      exact ⟨by simp, by simp, by simp [latin1Decode, utf8EncodeAll], Or.inr ⟨b, by simp, by simpa using hf⟩⟩
    · simp only [hf, if_false]
      obtain ⟨i1, i2, i3, i4⟩ := ih (free - utf8Len b)
      refine ⟨by simp; omega, by simp [utf8Encode_length]; omega, ?_, ?_⟩
      · simp only [latin1Decode] at i3 ⊢
        rw [Nat.add_comm, List.take_succ_cons]
        simp only [utf8EncodeAll, ← i3]
      · simp only [List.length_append, utf8Encode_length, List.length_cons]
        rcases i4 with h | ⟨b', h1, h2⟩
        · left; omega
        · right
          refine ⟨b', ?_, by omega⟩
          rw [Nat.add_comm, List.getElem?_cons_succ]; exact h1

theorem latin1Into_full (src : List Nat) (free : Nat) (h8 : U8 src) (hf : 2 * src.length ≤ free) :
    (latin1IntoUtf8 src free).1 = src.length := by
  induction src generalizing free with
  | nil => rfl
  | cons b rest ih =>
    have hb := h8.head
    have : utf8Len b ≤ 2 := by
      unfold utf8Len; repeat' split
      all_goals omega
    simp at hf
    rw [latin1IntoUtf8]
    have h : ¬ free < utf8Len b := by omega
    simp only [h, if_false]
    rw [ih _ h8.tail (by omega)]; simp; omega

theorem utf16EncodeAll_bmp (cs : List Nat) (h : ∀ c ∈ cs, c < 0x10000) : utf16EncodeAll cs = cs := by
  induction cs with
  | nil => rfl
  | cons c rest ih =>
    have hc := h c List.mem_cons_self
    simp only [utf16EncodeAll, utf16Encode, hc, if_true]
    rw [ih (fun x hx => h x (List.mem_cons_of_mem _ hx))]; rfl

theorem decodeUtf16_nonsurr (us : List Nat) (h : ∀ u ∈ us, isSurrogate u = false) : decodeUtf16Lossy us = us := by
  induction us with
  | nil => rfl
  | cons u rest ih =>
    have hu := h u List.mem_cons_self
    rw [surr_split, Bool.or_eq_false_iff] at hu
    rw [decode_nonsurr u rest (by simp [hu.1]) (by simp [hu.2]), ih (fun x hx => h x (List.mem_cons_of_mem _ hx))]

/-! ## copy_* -/

theorem asciiCopy_spec (src : List Nat) (cap : Nat) (hc : src.length ≤ cap) :
    (asciiCopy src cap).2 = src.take (asciiPrefixLen src) ∧
    ((asciiCopy src cap).1 = none → asciiPrefixLen src = src.length) ∧
    (∀ c i, (asciiCopy src cap).1 = some (c, i) → i = asciiPrefixLen src ∧ src[i]? = some c ∧ ¬ c < 0x80) := by
  induction src generalizing cap with
  | nil => simp [asciiCopy, asciiPrefixLen]
  | cons u rest ih =>
    cases cap with
    | zero => simp at hc
    | succ cap =>
      simp at hc
      rw [asciiCopy]
      by_cases h : u < 0x80
      · obtain ⟨i1, i2, i3⟩ := ih cap hc
        simp only [h, if_true, asciiPrefixLen, List.take_succ_cons, i1, true_and]
        refine ⟨?_, ?_⟩
        · intro hn
          rw [Option.map_eq_none_iff] at hn
          simp [i2 hn]
        · intro c i hs
          rw [Option.map_eq_some_iff] at hs
          obtain ⟨⟨c', i'⟩, h1, h2⟩ := hs
          simp only [Prod.mk.injEq] at h2
          obtain ⟨rfl, rfl⟩ := h2
          obtain ⟨j1, j2, j3⟩ := i3 c' i' h1
          exact ⟨by omega, by simpa using j2, j3⟩
      · simp only [h, if_false, asciiPrefixLen]
        simp
        omega

/-! ## `ensure_utf16_validity` -/

theorem andF800_val (u : Nat) : u &&& 0xF800 = (u / 2048 % 32) * 2048 := by
  have e1 : (u &&& 0xF800) >>> 11 = u / 2048 % 32 := by
    rw [Nat.shiftRight_and_distrib, Nat.shiftRight_eq_div_pow]
    exact Nat.and_two_pow_sub_one_eq_mod _ 5
  have e2 : (u &&& 0xF800) % 2048 = 0 := by
    have := Nat.and_mod_two_pow (a := u) (b := 0xF800) (n := 11)
    simp at this
    exact this
  rw [Nat.shiftRight_eq_div_pow] at e1
  have := Nat.div_add_mod (u &&& 0xF800) 2048
  simp at e1
  omega

theorem andF800 (u : Nat) (h : u < 65536) : ((u &&& 0xF800) != 0xD800) = !(isSurrogate u) := by
  rw [andF800_val]
  simp only [isSurrogate, bne, Bool.not_eq_eq_eq_not, Bool.not_not]
  by_cases hs : 0xD800 ≤ u ∧ u ≤ 0xDFFF
  · have : u / 2048 % 32 * 2048 = 0xD800 := by omega
    simp [this, hs.1, hs.2]
  · have : ¬ (u / 2048 % 32 * 2048 = 0xD800) := by omega
    have h2 : (decide (0xD800 ≤ u) && decide (u ≤ 0xDFFF)) = false := by
      simp only [Bool.and_eq_false_iff, decide_eq_false_iff_not]; omega
    simp [this, h2]

theorem wsub_low_not (s : Nat) (h : s < 65536) (hl : ¬ isLowSurrogate s = true) :
    wsub16 s 0xDC00 > 0xDFFF - 0xDC00 := by
  have h := wsub_low s h
  by_cases hc : wsub16 s 0xDC00 ≤ 0xDFFF - 0xDC00
  · exact absurd (h.mp hc) hl
  · omega

theorem wsub_high_not (u : Nat) (h : u < 65536) (hh : ¬ isHighSurrogate u = true) :
    wsub16 u 0xD800 > 0xDBFF - 0xD800 := by
  have h := wsub_high u h
  by_cases hc : wsub16 u 0xD800 ≤ 0xDBFF - 0xD800
  · exact absurd (h.mp hc) hh
  · omega

theorem ru_nil : replaceUnpaired [] = [] := rfl

theorem ru_nonsurr (u : Nat) (t : List Nat) (hh : ¬ isHighSurrogate u = true) (hl : ¬ isLowSurrogate u = true) :
    replaceUnpaired (u :: t) = u :: replaceUnpaired t := by
  unfold replaceUnpaired; rw [unpairedMask.eq_def]; simp [hh, hl]

theorem ru_low (u : Nat) (t : List Nat) (hl : isLowSurrogate u = true) :
    replaceUnpaired (u :: t) = replacement :: replaceUnpaired t := by
  unfold replaceUnpaired; rw [unpairedMask.eq_def]; simp [hl, not_high_of_low hl]

theorem ru_high_end (u : Nat) (hh : isHighSurrogate u = true) : replaceUnpaired [u] = [replacement] := by
  unfold replaceUnpaired; rw [unpairedMask.eq_def]; simp [hh]

theorem ru_pair (u l : Nat) (t : List Nat) (hh : isHighSurrogate u = true) (hl : isLowSurrogate l = true) :
    replaceUnpaired (u :: l :: t) = u :: l :: replaceUnpaired t := by
  unfold replaceUnpaired; rw [unpairedMask.eq_def]; simp [hh, hl]

theorem ru_high_unpaired (u l : Nat) (t : List Nat) (hh : isHighSurrogate u = true) (hl : ¬ isLowSurrogate l = true) :
    replaceUnpaired (u :: l :: t) = replacement :: replaceUnpaired (l :: t) := by
  unfold replaceUnpaired; rw [unpairedMask.eq_def]; simp [hh, hl]

theorem validUpTo_spec (n : Nat) : ∀ buf : List Nat, buf.length ≤ n → U16 buf →
    utf16ValidUpTo buf ≤ buf.length ∧
    replaceUnpaired buf = buf.take (utf16ValidUpTo buf) ++
      (if utf16ValidUpTo buf < buf.length then replacement :: replaceUnpaired (buf.drop (utf16ValidUpTo buf + 1)) else []) := by
  induction n with
  | zero =>
    intro buf hl _
    have : buf = [] := List.eq_nil_of_length_eq_zero (by omega)
    subst this
    simp [utf16ValidUpTo, ru_nil]
  | succ n ih =>
    intro buf hl h16
    cases buf with
    | nil => simp [utf16ValidUpTo, ru_nil]
    | cons u rest =>
      have hu := h16.head
      have hlr : rest.length ≤ n := by simpa using hl
      rw [utf16ValidUpTo.eq_def]
      simp only []
      rw [andF800 u hu]
      by_cases hs : isSurrogate u = false
      · obtain ⟨i1, i2⟩ := ih rest hlr h16.tail
        have hs' := hs
        rw [surr_split, Bool.or_eq_false_iff] at hs'
        simp only [hs, Bool.not_false, if_true]
        refine ⟨by simp; omega, ?_⟩
        rw [ru_nonsurr u rest (by simp [hs'.1]) (by simp [hs'.2])]
        simp only [List.take_succ_cons, List.drop_succ_cons, List.length_cons, Nat.add_lt_add_iff_right,
          List.cons_append]
        rw [← i2]
      · have hs1 : isSurrogate u = true := by simpa using hs
        simp only [hs1, Bool.not_true, Bool.false_eq_true, if_false]
        by_cases hh : isHighSurrogate u = true
        · have : ¬ wsub16 u 0xD800 > 0xDBFF - 0xD800 := by
            have := (wsub_high u hu).mpr hh; omega
          simp only [this, if_false]
          cases rest with
          | nil => simp [ru_high_end u hh, ru_nil]
          | cons s rest' =>
            have hs16 := h16.tail.head
            simp only []
            by_cases hl2 : isLowSurrogate s = true
            · have : ¬ wsub16 s 0xDC00 > 0xDFFF - 0xDC00 := by
                have := (wsub_low s hs16).mpr hl2; omega
              simp only [this, if_false]
              obtain ⟨i1, i2⟩ := ih rest' (by simp at hlr; omega) h16.tail.tail
              refine ⟨by simp; omega, ?_⟩
              rw [ru_pair u s rest' hh hl2]
              simp only [List.take_succ_cons, List.drop_succ_cons, List.length_cons, Nat.add_lt_add_iff_right,
                List.cons_append]
              rw [← i2]
            · have : wsub16 s 0xDC00 > 0xDFFF - 0xDC00 := by
                exact wsub_low_not s hs16 hl2
              simp only [this, if_true]
              simp [ru_high_unpaired u s rest' hh hl2]
        · have : wsub16 u 0xD800 > 0xDBFF - 0xD800 := by
            exact wsub_high_not u hu hh
          simp only [this, if_true]
          have hlow : isLowSurrogate u = true := by
            rw [surr_split, Bool.or_eq_true] at hs1
            rcases hs1 with h | h
            · exact absurd h hh
            · exact h
          simp [ru_low u rest hlow]

theorem ensureLoop_eq (fuel : Nat) : ∀ buf : List Nat, buf.length < fuel → U16 buf →
    ensureLoop fuel buf = replaceUnpaired buf := by
  induction fuel with
  | zero => intro buf h; omega
  | succ fuel ih =>
    intro buf hl h16
    obtain ⟨h1, h2⟩ := validUpTo_spec buf.length buf (Nat.le_refl _) h16
    rw [ensureLoop]
    by_cases hk : utf16ValidUpTo buf ≥ buf.length
    · simp only [hk, if_true]
      have : ¬ utf16ValidUpTo buf < buf.length := by omega
      rw [h2]; simp only [this, if_false, List.append_nil]
      rw [List.take_of_length_le (by omega)]
    · simp only [hk, if_false]
      have hlt : utf16ValidUpTo buf < buf.length := by omega
      rw [ih _ (by simp; omega) (fun x hx => h16 x (List.mem_of_mem_drop hx))]
      rw [h2]; simp only [hlt, if_true]
      rfl

theorem repl_not_high : ¬ isHighSurrogate replacement = true := by decide
theorem repl_not_low : ¬ isLowSurrogate replacement = true := by decide

theorem valid_nonsurr (u : Nat) (t : List Nat) (hh : ¬ isHighSurrogate u = true) (hl : ¬ isLowSurrogate u = true) :
    validUtf16 (u :: t) = validUtf16 t := by
  rw [validUtf16.eq_def]; simp [hh, hl]

theorem valid_pair (u l : Nat) (t : List Nat) (hh : isHighSurrogate u = true) (hl : isLowSurrogate l = true) :
    validUtf16 (u :: l :: t) = validUtf16 t := by
  rw [validUtf16.eq_def]; simp [hh, hl]

theorem decode_pair (u l : Nat) (t : List Nat) (hh : isHighSurrogate u = true) (hl : isLowSurrogate l = true) :
    decodeUtf16Lossy (u :: l :: t) = pairValue u l :: decodeUtf16Lossy t := by
  rw [decodeUtf16Lossy.eq_def]; simp [hh, hl]

theorem decode_high_unpaired (u l : Nat) (t : List Nat) (hh : isHighSurrogate u = true) (hl : ¬ isLowSurrogate l = true) :
    decodeUtf16Lossy (u :: l :: t) = replacement :: decodeUtf16Lossy (l :: t) := by
  rw [decodeUtf16Lossy.eq_def]; simp [hh, hl]

theorem decode_high_end (u : Nat) (hh : isHighSurrogate u = true) : decodeUtf16Lossy [u] = [replacement] := by
  rw [decodeUtf16Lossy.eq_def]; simp [hh]

/-- everything one wants to know about `replaceUnpaired`, by one induction -/
theorem ru_props (buf : List Nat) :
    (replaceUnpaired buf).length = buf.length ∧
    validUtf16 (replaceUnpaired buf) = true ∧
    decodeUtf16Lossy (replaceUnpaired buf) = decodeUtf16Lossy buf ∧
    (validUtf16 buf = true → replaceUnpaired buf = buf) := by
  fun_induction unpairedMask buf
  case case1 => simp [ru_nil, validUtf16]
  case case2 u hh =>
    rw [ru_high_end u hh, decode_high_end u hh]
    refine ⟨rfl, by decide, by decide, ?_⟩
    intro h; rw [validUtf16.eq_def] at h; simp [hh] at h
  case case3 u hh l t hl ih =>
    obtain ⟨i1, i2, i3, i4⟩ := ih
    rw [ru_pair u l t hh hl, valid_pair u l _ hh hl, decode_pair u l _ hh hl, decode_pair u l _ hh hl,
      valid_pair u l _ hh hl]
    refine ⟨by simp [i1], i2, by rw [i3], ?_⟩
    intro h; rw [i4 h]
  case case4 u hh l t hl ih =>
    obtain ⟨i1, i2, i3, i4⟩ := ih
    rw [ru_high_unpaired u l t hh hl, valid_nonsurr _ _ repl_not_high repl_not_low,
      decode_nonsurr _ _ repl_not_high repl_not_low, decode_high_unpaired u l t hh hl]
    refine ⟨by simp [i1], i2, by rw [i3], ?_⟩
    intro h; rw [validUtf16.eq_def] at h; simp [hh, hl] at h
  case case5 u t hh hl ih =>
    obtain ⟨i1, i2, i3, i4⟩ := ih
    rw [ru_low u t hl, valid_nonsurr _ _ repl_not_high repl_not_low,
      decode_nonsurr _ _ repl_not_high repl_not_low, decode_low u t hl]
    refine ⟨by simp [i1], i2, by rw [i3], ?_⟩
    intro h; rw [validUtf16.eq_def] at h; simp [hh, hl] at h
  case case6 u t hh hl ih =>
    obtain ⟨i1, i2, i3, i4⟩ := ih
    rw [ru_nonsurr u t hh hl, valid_nonsurr _ _ hh hl, decode_nonsurr _ _ hh hl, decode_nonsurr _ _ hh hl,
      valid_nonsurr _ _ hh hl]
    refine ⟨by simp [i1], i2, by rw [i3], ?_⟩
    intro h; rw [i4 h]

/-! ## UTF-8 → Latin1 -/

theorem contTest : ∀ t, t < 256 → ((t &&& 0xC0) != 0x80) = !(isCont t) := by decide +kernel

theorem latin1Byte (b0 b1 : Nat) (h0 : 0xC2 ≤ b0) (h0' : b0 ≤ 0xC3) (h1 : 0x80 ≤ b1) (h1' : b1 ≤ 0xBF) :
    ((b0 &&& 0x1F) <<< 6) % 256 ||| (b1 &&& 0x3F) = cp2 b0 b1 := by
  rw [and3F]
  have hb : b0 = 0xC2 ∨ b0 = 0xC3 := by omega
  rcases hb with rfl | rfl
  · rw [show ((0xC2 &&& 0x1F) <<< 6) % 256 = 0x80 by decide, Nat.or_comm, or80 _ (by omega)]
    unfold cp2; omega
  · rw [show ((0xC3 &&& 0x1F) <<< 6) % 256 = 0xC0 by decide, Nat.or_comm]
    have : ∀ y, y < 64 → y ||| 0xC0 = 0xC0 + y := by decide
    rw [this _ (by omega)]
    unfold cp2; omega

theorem validUtf8_ascii (b0 : Nat) (r0 : List Nat) (h : b0 < 0x80) : validUtf8 (b0 :: r0) = validUtf8 r0 := by
  rw [validUtf8.eq_def]; simp [h]

theorem decodeUtf8_ascii (b0 : Nat) (r0 : List Nat) (h : b0 < 0x80) :
    decodeUtf8Lossy (b0 :: r0) = b0 :: decodeUtf8Lossy r0 := by
  rw [decodeUtf8Lossy.eq_def]; simp [h]

theorem utf8ToLatin1_ok (n : Nat) : ∀ src : List Nat, src.length ≤ n → U8 src → validUtf8 src = true →
    (decodeUtf8Lossy src).all isLatin1 = true →
    isUtf8Latin1 src = true ∧ utf8ToLatin1Loop src = decodeUtf8Lossy src := by
  induction n with
  | zero =>
    intro src hl _ _ _
    have : src = [] := List.eq_nil_of_length_eq_zero (by omega)
    subst this
    simp [isUtf8Latin1, utf8ToLatin1Loop, decodeUtf8Lossy]
  | succ n ih =>
    intro src hl h8 hv hl1
    cases src with
    | nil => simp [isUtf8Latin1, utf8ToLatin1Loop, decodeUtf8Lossy]
    | cons b0 r0 =>
      have hb0 := h8.head
      have hlr : r0.length ≤ n := by simpa using hl
      by_cases h1 : b0 < 0x80
      · rw [validUtf8_ascii b0 r0 h1] at hv
        rw [decodeUtf8_ascii b0 r0 h1] at hl1 ⊢
        simp only [List.all_cons, Bool.and_eq_true] at hl1
        obtain ⟨i1, i2⟩ := ih r0 hlr h8.tail hv hl1.2
        rw [isUtf8Latin1.eq_def, utf8ToLatin1Loop.eq_def]
        simp [h1, i1, i2]
      · rw [validUtf8.eq_def] at hv
        simp only [h1, if_false] at hv
        by_cases h2 : isLead2 b0 = true
        · simp only [h2, if_true] at hv
          cases r0 with
          | nil => cases hv
          | cons b1 r1 =>
            simp only [Bool.and_eq_true] at hv
            have hb1 := h8.tail.head
            have hdec : decodeUtf8Lossy (b0 :: b1 :: r1) = cp2 b0 b1 :: decodeUtf8Lossy r1 := by
              rw [decodeUtf8Lossy.eq_def]; simp [h1, h2, hv.1]
            rw [hdec] at hl1 ⊢
            simp only [List.all_cons, Bool.and_eq_true] at hl1
            obtain ⟨i1, i2⟩ := ih r1 (by simp at hlr; omega) h8.tail.tail hv.2 hl1.2
            have hc := hv.1
            have hlat := hl1.1
            unfold isLead2 at h2
            unfold isCont at hc
            unfold isLatin1 cp2 at hlat
            simp only [Bool.and_eq_true, decide_eq_true_eq] at h2 hc hlat
            have hr : 0xC2 ≤ b0 ∧ b0 ≤ 0xC3 := by omega
            have e := latin1Byte b0 b1 hr.1 hr.2 hc.1 hc.2
            rw [isUtf8Latin1.eq_def, utf8ToLatin1Loop.eq_def]
            simp only [h1, hr, and_self, if_true, if_false, contTest b1 hb1, hv.1, Bool.not_true,
              Bool.false_eq_true, i1, i2, e]
        · simp only [h2, Bool.false_eq_true, if_false] at hv
          by_cases h3 : isLead3 b0 = true
          · simp only [h3, if_true] at hv
            exfalso
            obtain ⟨b1, b2, r2, rfl⟩ : ∃ b1 b2 r2, r0 = b1 :: b2 :: r2 := by
              cases r0 with
              | nil => cases hv
              | cons b1 r1 =>
                cases r1 with
                | nil => cases hv
                | cons b2 r2 => exact ⟨b1, b2, r2, rfl⟩
            · 
              simp only [Bool.and_eq_true] at hv
              have hdec : decodeUtf8Lossy (b0 :: b1 :: b2 :: r2) = cp3 b0 b1 b2 :: decodeUtf8Lossy r2 := by
                rw [decodeUtf8Lossy.eq_def]; simp [h1, h2, h3, hv.1.1, hv.1.2]
              rw [hdec] at hl1
              simp only [List.all_cons, Bool.and_eq_true] at hl1
              have hlat := hl1.1
              have hs := hv.1.1
              have hc := hv.1.2
              unfold isLead3 at h3
              unfold isCont at hc
              unfold isLatin1 cp3 at hlat
              unfold secondOk isCont at hs
              simp only [Bool.and_eq_true, decide_eq_true_eq] at h3 hc hlat
              by_cases he : b0 = 0xE0
              · subst he; simp at hs; omega
              · by_cases hd : b0 = 0xED
                · subst hd; simp at hs; omega
                · have : ¬ b0 = 0xF0 := by omega
                  have : ¬ b0 = 0xF4 := by omega
                  simp [*] at hs; omega
          · simp only [h3, Bool.false_eq_true, if_false] at hv
            by_cases h4 : isLead4 b0 = true
            · simp only [h4, if_true] at hv
              exfalso
              obtain ⟨b1, b2, b3, r3, rfl⟩ : ∃ b1 b2 b3 r3, r0 = b1 :: b2 :: b3 :: r3 := by
                cases r0 with
                | nil => cases hv
                | cons b1 r1 =>
                  cases r1 with
                  | nil => cases hv
                  | cons b2 r2 =>
                    cases r2 with
                    | nil => cases hv
                    | cons b3 r3 => exact ⟨b1, b2, b3, r3, rfl⟩
              · 
                simp only [Bool.and_eq_true] at hv
                have hdec : decodeUtf8Lossy (b0 :: b1 :: b2 :: b3 :: r3) = cp4 b0 b1 b2 b3 :: decodeUtf8Lossy r3 := by
                  rw [decodeUtf8Lossy.eq_def]; simp [h1, h2, h3, h4, hv.1.1.1, hv.1.1.2, hv.1.2]
                rw [hdec] at hl1
                simp only [List.all_cons, Bool.and_eq_true] at hl1
                have hlat := hl1.1
                have hs := hv.1.1.1
                unfold isLead4 at h4
                unfold isLatin1 cp4 at hlat
                unfold secondOk isCont at hs
                simp only [Bool.and_eq_true, decide_eq_true_eq] at h4 hlat
                by_cases he : b0 = 0xF0
                · subst he; simp at hs; omega
                · by_cases hd : b0 = 0xF4
                  · subst hd; simp at hs; omega
                  · have : ¬ b0 = 0xE0 := by omega
                    have : ¬ b0 = 0xED := by omega
                    simp [*] at hs; omega
            · simp [h4] at hv

/-! ## `decode_latin1` / `encode_latin1_lossy` -/

theorem asciiValidUpTo_eq (src : List Nat) : asciiValidUpTo src = asciiPrefixLen src := by
  induction src with
  | nil => rfl
  | cons b rest ih => simp [asciiValidUpTo, asciiPrefixLen, ih]

theorem asciiPrefixLen_le (src : List Nat) : asciiPrefixLen src ≤ src.length := by
  induction src with
  | nil => simp [asciiPrefixLen]
  | cons b rest ih => simp only [asciiPrefixLen]; split <;> simp <;> omega

theorem asciiPrefixLen_full (src : List Nat) :
    (asciiPrefixLen src ≥ src.length) ↔ src.all (fun b => decide (b < 0x80)) = true := by
  induction src with
  | nil => simp [asciiPrefixLen]
  | cons b rest ih =>
    simp only [asciiPrefixLen, List.all_cons, Bool.and_eq_true, decide_eq_true_eq, List.length_cons]
    by_cases h : b < 0x80
    · simp only [h, if_true, true_and, ← ih]; omega
    · simp [h]

theorem utf8EncodeAll_append (a b : List Nat) : utf8EncodeAll (a ++ b) = utf8EncodeAll a ++ utf8EncodeAll b := by
  induction a with
  | nil => rfl
  | cons c rest ih => simp [utf8EncodeAll, ih]

/-- the ASCII prefix is copied verbatim by every conversion -/
theorem ascii_prefix_facts (src : List Nat) :
    utf8EncodeAll (src.take (asciiPrefixLen src)) = src.take (asciiPrefixLen src) ∧
    decodeUtf8Lossy src = src.take (asciiPrefixLen src) ++ decodeUtf8Lossy (src.drop (asciiPrefixLen src)) ∧
    validUtf8 src = validUtf8 (src.drop (asciiPrefixLen src)) := by
  induction src with
  | nil => simp [asciiPrefixLen, utf8EncodeAll]
  | cons b rest ih =>
    by_cases h : b < 0x80
    · simp only [asciiPrefixLen, h, if_true, List.take_succ_cons, List.drop_succ_cons, utf8EncodeAll,
        utf8Encode_ascii h, decodeUtf8_ascii b rest h, validUtf8_ascii b rest h]
      refine ⟨by simp [ih.1], by rw [ih.2.1]; simp, ih.2.2⟩
    · simp [asciiPrefixLen, h, utf8EncodeAll]

theorem decode_latin1_ok (src : List Nat) (h8 : U8 src)
    (hconv : ∀ t : List Nat, U8 t → convertLatin1ToUtf8 t (t.length * 2) = .ok (utf8EncodeAll (latin1Decode t))) :
    decodeLatin1 src = .ok (src.all (fun b => decide (b < 0x80)), utf8EncodeAll (latin1Decode src)) := by
  unfold decodeLatin1
  simp only [asciiValidUpTo_eq]
  have hf := asciiPrefixLen_full src
  have hp := ascii_prefix_facts src
  by_cases hge : asciiPrefixLen src ≥ src.length
  · simp only [hge, if_true, hf.mp hge]
    have : src.take (asciiPrefixLen src) = src := List.take_of_length_le hge
    rw [this] at hp
    simp only [latin1Decode, hp.1]
  · have hall : src.all (fun b => decide (b < 0x80)) = false := by
      cases h : src.all (fun b => decide (b < 0x80)) with
      | false => rfl
      | true => exact absurd (hf.mpr h) hge
    simp only [hge, if_false, hall]
    rw [hconv _ (fun x hx => h8 x (List.mem_of_mem_drop hx))]
    simp only [latin1Decode]
    rw [← hp.1, ← utf8EncodeAll_append, List.take_append_drop]

theorem validUtf8Latin1_drop (src : List Nat) (hv : validUtf8Latin1 src = true) :
    validUtf8Latin1 (src.drop (asciiPrefixLen src)) = true := by
  have hp := ascii_prefix_facts src
  unfold validUtf8Latin1 at hv ⊢
  rw [Bool.and_eq_true] at hv ⊢
  refine ⟨by rw [← hp.2.2]; exact hv.1, ?_⟩
  have := hv.2
  rw [hp.2.1, List.all_append, Bool.and_eq_true] at this
  exact this.2

theorem encode_latin1_ok (dbg : Bool) (src : List Nat) (h8 : U8 src) (hv : validUtf8Latin1 src = true)
    (hconv : ∀ t : List Nat, U8 t → validUtf8Latin1 t = true →
      convertUtf8ToLatin1Lossy dbg t t.length = .ok (decodeUtf8Lossy t)) :
    encodeLatin1Lossy dbg src = .ok (src.all (fun b => decide (b < 0x80)), decodeUtf8Lossy src) := by
  unfold encodeLatin1Lossy
  simp only [asciiValidUpTo_eq]
  have hf := asciiPrefixLen_full src
  have hp := ascii_prefix_facts src
  by_cases hge : asciiPrefixLen src ≥ src.length
  · simp only [hge, if_true, hf.mp hge]
    have h1 : src.take (asciiPrefixLen src) = src := List.take_of_length_le hge
    have h2 : src.drop (asciiPrefixLen src) = [] := List.drop_of_length_le hge
    rw [hp.2.1, h1, h2]; simp [decodeUtf8Lossy]
  · have hall : src.all (fun b => decide (b < 0x80)) = false := by
      cases h : src.all (fun b => decide (b < 0x80)) with
      | false => rfl
      | true => exact absurd (hf.mpr h) hge
    simp only [hge, if_false, hall]
    have hlen : src.length - asciiPrefixLen src = (src.drop (asciiPrefixLen src)).length := by simp
    rw [hlen, hconv _ (fun x hx => h8 x (List.mem_of_mem_drop hx)) (validUtf8Latin1_drop src hv)]
    simp only
    rw [← hp.2.1]

/-- the model of the crate's `is_utf8_latin1` accepts only valid Latin1-range UTF-8 -/
theorem isUtf8Latin1_sound (n : Nat) : ∀ src : List Nat, src.length ≤ n → U8 src → isUtf8Latin1 src = true →
    validUtf8Latin1 src = true := by
  induction n with
  | zero =>
    intro src hl _ _
    have : src = [] := List.eq_nil_of_length_eq_zero (by omega)
    subst this; decide
  | succ n ih =>
    intro src hl h8 hm
    cases src with
    | nil => decide
    | cons b0 r0 =>
      have hlr : r0.length ≤ n := by simpa using hl
      rw [isUtf8Latin1.eq_def] at hm
      simp only [] at hm
      by_cases h1 : b0 < 0x80
      · simp only [h1, if_true] at hm
        have := ih r0 hlr h8.tail hm
        unfold validUtf8Latin1 at this ⊢
        rw [validUtf8_ascii b0 r0 h1, decodeUtf8_ascii b0 r0 h1]
        rw [Bool.and_eq_true] at this ⊢
        refine ⟨this.1, ?_⟩
        simp only [List.all_cons, Bool.and_eq_true]
        exact ⟨by simp [isLatin1]; omega, this.2⟩
      · simp only [h1, if_false] at hm
        by_cases hr : 0xC2 ≤ b0 ∧ b0 ≤ 0xC3
        · simp only [hr, and_self, if_true] at hm
          cases r0 with
          | nil => cases hm
          | cons t r1 =>
            have ht := h8.tail.head
            simp only [contTest t ht] at hm
            by_cases hc : isCont t = true
            · simp only [hc, Bool.not_true, Bool.false_eq_true, if_false] at hm
              have := ih r1 (by simp at hlr; omega) h8.tail.tail hm
              have h2 : isLead2 b0 = true := by
                unfold isLead2; simp only [Bool.and_eq_true, decide_eq_true_eq]; omega
              have hdec : decodeUtf8Lossy (b0 :: t :: r1) = cp2 b0 t :: decodeUtf8Lossy r1 := by
                rw [decodeUtf8Lossy.eq_def]; simp [h1, h2, hc]
              have hval : validUtf8 (b0 :: t :: r1) = validUtf8 r1 := by
                rw [validUtf8.eq_def]; simp [h1, h2, hc]
              unfold validUtf8Latin1 at this ⊢
              rw [hdec, hval]
              rw [Bool.and_eq_true] at this ⊢
              refine ⟨this.1, ?_⟩
              simp only [List.all_cons, Bool.and_eq_true]
              refine ⟨?_, this.2⟩
              unfold isCont at hc
              simp only [Bool.and_eq_true, decide_eq_true_eq] at hc
              unfold isLatin1 cp2
              simp only [decide_eq_true_eq]
              omega
            · have : isCont t = false := by simpa using hc
              simp [this] at hm
        · simp only [hr, if_false] at hm
          cases hm

/-! ## stride structure of the ASCII kernels -/

theorem asciiCopy_eq_scan (src : List Nat) (cap : Nat) :
    asciiCopy src cap = scanUnits (src.take (min src.length cap)) := by
  induction src generalizing cap with
  | nil => simp [asciiCopy, scanUnits]
  | cons u rest ih =>
    cases cap with
    | zero => simp [asciiCopy, scanUnits]
    | succ cap =>
      rw [asciiCopy]
      have : min (u :: rest).length (cap + 1) = min rest.length cap + 1 := by
        simp only [List.length_cons]; omega
      rw [this, List.take_succ_cons, scanUnits]
      by_cases h : u < 0x80
      · have h' : ¬ u ≥ 0x80 := by omega
        simp only [h, h', if_true, if_false, ih cap]
      · have h' : u ≥ 0x80 := by omega
        simp only [h, h', if_true, if_false]

theorem scan_append_ascii (a b : List Nat) (ha : a.all (fun x => decide (x < 0x80)) = true) :
    scanUnits (a ++ b) = ((scanUnits b).1.map (fun p => (p.1, p.2 + a.length)), a ++ (scanUnits b).2) := by
  induction a with
  | nil =>
    simp only [List.nil_append, List.length_nil, Nat.add_zero]
    generalize scanUnits b = x
    obtain ⟨o, w⟩ := x
    cases o <;> rfl
  | cons c r ih =>
    simp only [List.all_cons, Bool.and_eq_true, decide_eq_true_eq] at ha
    have hc : ¬ c ≥ 0x80 := by omega
    rw [List.cons_append, scanUnits]
    simp only [hc, if_false, ih ha.2, List.length_cons, List.cons_append]
    cases (scanUnits b).1 with
    | none => rfl
    | some p => simp [Nat.add_assoc]

theorem scan_append_nonascii (a b : List Nat) (ha : a.all (fun x => decide (x < 0x80)) = false) :
    scanUnits (a ++ b) = scanUnits a := by
  induction a with
  | nil => simp at ha
  | cons c r ih =>
    rw [List.cons_append, scanUnits, scanUnits]
    by_cases hc : c ≥ 0x80
    · simp only [hc, if_true]
    · simp only [hc, if_false]
      have : r.all (fun x => decide (x < 0x80)) = false := by
        simp only [List.all_cons, Bool.and_eq_false_iff, decide_eq_false_iff_not] at ha
        rcases ha with h | h
        · omega
        · exact h
      rw [ih this]

theorem strides_eq_scan (fuel : Nat) (s : List Nat) : asciiCopyStrides fuel s = scanUnits s := by
  induction fuel generalizing s with
  | zero => rfl
  | succ fuel ih =>
    rw [asciiCopyStrides]
    by_cases h16 : 16 ≤ s.length
    · simp only [h16, if_true]
      have hlen : (s.take 16).length = 16 := by simp; omega
      by_cases ha : (s.take 16).all (fun b => decide (b < 0x80)) = true
      · simp only [ha, if_true, ih]
        conv => rhs; rw [← List.take_append_drop 16 s]
        rw [scan_append_ascii _ _ ha, hlen]
      · have ha' : (s.take 16).all (fun b => decide (b < 0x80)) = false := by simpa using ha
        simp only [ha', Bool.false_eq_true, if_false]
        conv => rhs; rw [← List.take_append_drop 16 s]
        rw [scan_append_nonascii _ _ ha']
    · simp only [h16, if_false]

theorem asciiCopyImpl_eq (src : List Nat) (cap : Nat) : asciiCopyImpl src cap = asciiCopy src cap := by
  unfold asciiCopyImpl
  rw [strides_eq_scan, asciiCopy_eq_scan]

end EncodingRs.Lemmas.Mem
