import EncodingRs.Lemmas.ConformEncGbDef
/-! C03, GBK / gb18030: complete evaluation of `gbCheck` over the code points 0xD000 ≤ c < 0x10000 (`native_decide`). -/
namespace EncodingRs.Lemmas.ConformEnc

theorem gb_check_r5 : allFrom gbCheck 0xD000 0x3000 = true := by native_decide

end EncodingRs.Lemmas.ConformEnc
