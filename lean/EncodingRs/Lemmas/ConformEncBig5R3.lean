import EncodingRs.Lemmas.ConformEncBig5Def
/-! C03, Big5: complete evaluation of `big5Check` over the code points 0x9C00 ≤ c < 0xD000 (`native_decide`). -/
namespace EncodingRs.Lemmas.ConformEnc

theorem big5_check_r3 : allFrom big5Check 0x9C00 0x3400 = true := by native_decide

end EncodingRs.Lemmas.ConformEnc
