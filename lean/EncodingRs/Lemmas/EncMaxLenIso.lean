import EncodingRs.Lemmas.EncPotential
import EncodingRs.Lemmas.EncFam
/-!
The ISO-2022-JP encoder potential (encoder half of C07).

`Iso2022JpEncoder::max_buffer_length_from_utf16_without_replacement(n) = 3 + 4 n + ⌊(n + 1) / 2⌋`
and `…_from_utf8_…(n) = 3 + 3 n` do not look at the encoder state, but the worst cases do:

* from UTF-16 the worst input alternates ASCII and kanji: `ESC ( B` + 1 byte, `ESC $ B` + 2 bytes
  (nine bytes for two units), and ends with `ESC ( B` at the end of the stream; starting in the
  Jis0208 state an even number of units is worst (`3 + 4 n + ⌊n / 2⌋ + [n odd]`… see `isoPhi`);
* from UTF-8 a character that needs an escape to Jis0208 or Roman is at least two bytes long.

The potential `isoPhi utf16 s n` is the exact worst case of the *model* (including its space
checks: three free bytes before every read, also right after an escape sequence) up to the
constant the formula is generous by; it is bounded by the formula in every state (`isoPhi_le`).
-/
namespace EncodingRs.Lemmas.EncMaxLenIso
open EncodingRs EncodingRs.Model EncodingRs.Lemmas.EncPotential EncodingRs.Lemmas.EncFam

/-- how a faithful step ends: `Unmappable`; the character written in the same state (one byte in
Ascii/Roman, two bytes for a non-ASCII character in Jis0208); or a three-byte escape sequence to a
*different* state that fits the character -/
def StepClass (s : IsoEncSt) (c : Nat) (r : EStep IsoEncSt) : Prop :=
  (∃ u, r.unmappable = some u)
  ∨ (r.unmappable = none ∧ r.unread = false ∧ r.st = s
      ∧ r.out.length ≤ (if s = .jis0208 then 2 else 1) ∧ (s = .jis0208 → 0x80 ≤ c))
  ∨ (r.unmappable = none ∧ r.unread = true ∧ r.out.length = 3 ∧ r.st ≠ s
      ∧ ((r.st = .ascii ∧ c ≤ 0x7F) ∨ (r.st = .roman ∧ 0x80 ≤ c) ∨ (r.st = .jis0208 ∧ 0x80 ≤ c)))

theorem class_unmap (s : IsoEncSt) (c : Nat) (st : IsoEncSt) (u : Nat) (out : List Nat) :
    StepClass s c (EStep.unmap st u out) := Or.inl ⟨u, rfl⟩

theorem class_ok (s : IsoEncSt) (c : Nat) (out : List Nat)
    (hl : out.length ≤ (if s = .jis0208 then 2 else 1)) (hc : s = .jis0208 → 0x80 ≤ c) :
    StepClass s c (EStep.ok s out) := Or.inr (Or.inl ⟨rfl, rfl, rfl, hl, hc⟩)

theorem class_again (s : IsoEncSt) (c : Nat) (st : IsoEncSt) (out : List Nat) (hl : out.length = 3) (hne : st ≠ s)
    (hc : (st = .ascii ∧ c ≤ 0x7F) ∨ (st = .roman ∧ 0x80 ≤ c) ∨ (st = .jis0208 ∧ 0x80 ≤ c)) :
    StepClass s c (EStep.again st out) := Or.inr (Or.inr ⟨rfl, rfl, hl, hne, hc⟩)

theorem isoEncStep_class (s : IsoEncSt) (c : Nat) : StepClass s c (isoEncStep s c) := by
  cases s
  · -- Ascii
    unfold isoEncStep
    simp only
    repeat' split
    all_goals first
      | with_reducible apply class_unmap
      | (with_reducible apply class_ok
         · exact Nat.le_of_ble_eq_true rfl
         · intro h; cases h)
      | (with_reducible apply class_again
         · rfl
         · intro h; cases h
         · first
           | (refine Or.inr (Or.inl ⟨rfl, ?_⟩); omega)
           | (refine Or.inr (Or.inr ⟨rfl, ?_⟩); omega))
  · -- Roman
    unfold isoEncStep
    simp only
    repeat' split
    all_goals first
      | with_reducible apply class_unmap
      | (with_reducible apply class_ok
         · exact Nat.le_of_ble_eq_true rfl
         · intro h; cases h)
      | (with_reducible apply class_again
         · rfl
         · intro h; cases h
         · first
           | (refine Or.inl ⟨rfl, ?_⟩; omega)
           | (refine Or.inr (Or.inr ⟨rfl, ?_⟩); omega))
  · -- Jis0208
    unfold isoEncStep
    simp only
    repeat' split
    all_goals first
      | with_reducible apply class_unmap
      | (with_reducible apply class_again
         · rfl
         · intro h; cases h
         · first
           | (refine Or.inl ⟨rfl, ?_⟩; omega)
           | (refine Or.inr (Or.inl ⟨rfl, ?_⟩); omega))
      | (with_reducible apply class_ok
         · rename_i bs hbs
           exact iso2022JpTwoByte_outLe c bs hbs
         · intro _; omega)

/-! ### the cost of one character in terms of the classification -/

theorem charCost_succ (E : EFam) (Φ : E.σ → Nat → Nat) (fuel : Nat) (s : E.σ) (c n : Nat) :
    charCost E Φ (fuel + 1) s c n =
      max (E.need s c)
        (match (E.step s c).unmappable with
         | some _ => 0
         | none =>
           (E.step s c).out.length +
             (if (E.step s c).unread then charCost E Φ fuel (E.step s c).st c n
              else Φ (E.step s c).st n)) := rfl

/-- the cost of a step that does not hand the character back -/
theorem iso_cost_direct (Φ : iso2022JpEFam.σ → Nat → Nat) (fuel : Nat) (s : IsoEncSt) (c n B : Nat)
    (hr : (isoEncStep s c).unread = false) (h3 : 3 ≤ B)
    (hD : ∀ len, len ≤ (if s = .jis0208 then 2 else 1) → (s = .jis0208 → 0x80 ≤ c) → len + Φ s n ≤ B) :
    charCost iso2022JpEFam Φ (fuel + 1) s c n ≤ B := by
  show max 3 (match (isoEncStep s c).unmappable with
    | some _ => 0
    | none => (isoEncStep s c).out.length +
        (if (isoEncStep s c).unread then charCost iso2022JpEFam Φ fuel (isoEncStep s c).st c n
         else Φ (isoEncStep s c).st n)) ≤ B
  apply Nat.max_le.mpr
  refine ⟨h3, ?_⟩
  rcases isoEncStep_class s c with ⟨u, hu⟩ | ⟨hu, _, hst, hlen, hc⟩ | ⟨_, hr', _⟩
  · rw [hu]; exact Nat.zero_le _
  · rw [hu, hr, hst]
    simp only [Bool.false_eq_true, if_false]
    exact hD _ hlen hc
  · rw [hr] at hr'; cases hr'

/-- **the cost of one character**: `B` covers it when it covers the space checks (three bytes; six
when an escape sequence is written first), the direct write, and escape + write in the new state -/
theorem iso_char_le (Φ : iso2022JpEFam.σ → Nat → Nat) (s : IsoEncSt) (c n B : Nat) (h3 : 3 ≤ B)
    (hD : ∀ len, len ≤ (if s = .jis0208 then 2 else 1) → (s = .jis0208 → 0x80 ≤ c) → len + Φ s n ≤ B)
    (hA : ∀ s', s' ≠ s → ((s' = .ascii ∧ c ≤ 0x7F) ∨ (s' = .roman ∧ 0x80 ≤ c) ∨ (s' = .jis0208 ∧ 0x80 ≤ c)) →
      6 ≤ B ∧ ∀ len, len ≤ (if s' = .jis0208 then 2 else 1) → 3 + len + Φ s' n ≤ B) :
    charCost iso2022JpEFam Φ (iso2022JpEFam.rank s c + 1) s c n ≤ B := by
  cases hr : (isoEncStep s c).unread with
  | false => exact iso_cost_direct Φ _ s c n B hr h3 hD
  | true =>
    have hrank : iso2022JpEFam.rank s c = 1 := by
      show isoEncRank s c = 1
      unfold isoEncRank; rw [hr]; rfl
    rw [hrank]
    show max 3 (match (isoEncStep s c).unmappable with
      | some _ => 0
      | none => (isoEncStep s c).out.length +
          (if (isoEncStep s c).unread then charCost iso2022JpEFam Φ 1 (isoEncStep s c).st c n
           else Φ (isoEncStep s c).st n)) ≤ B
    apply Nat.max_le.mpr
    refine ⟨h3, ?_⟩
    rcases isoEncStep_class s c with ⟨u, hu⟩ | ⟨_, hr', _⟩ | ⟨hu, _, hlen, hne, hcase⟩
    · rw [hu]; exact Nat.zero_le _
    · rw [hr] at hr'; cases hr'
    · rw [hu, hr, hlen]
      simp only [if_true]
      have hA' := hA (isoEncStep s c).st hne hcase
      have h2 := isoEncStep_again_once s c hr
      have : charCost iso2022JpEFam Φ 1 (isoEncStep s c).st c n ≤ B - 3 :=
        iso_cost_direct Φ 0 (isoEncStep s c).st c n (B - 3) h2 (by omega)
        (by intro len hl _; have := hA'.2 len hl; omega)
      omega

/-! ### the potential -/

/-- worst-case output of the encoder in state `s` for `n` more source units -/
def isoPhi (utf16 : Bool) (s : IsoEncSt) (n : Nat) : Nat :=
  if utf16 then
    match s with
    | .jis0208 => 3 + n * 4 + n / 2
    | _ => 3 + n * 4 + (n + 1) / 2
  else
    match s with
    | .ascii => n * 3 + 2
    | _ => 3 + n * 3

/-- the exact value of the query formula -/
def isoMaxNat (utf16 : Bool) (n : Nat) : Nat := if utf16 then 3 + n * 4 + (n + 1) / 2 else 3 + n * 3

/-- the formula covers the potential of every state -/
theorem isoPhi_le (utf16 : Bool) (s : IsoEncSt) (n : Nat) : isoPhi utf16 s n ≤ isoMaxNat utf16 n := by
  cases utf16 <;> cases s <;> simp only [isoPhi, isoMaxNat, if_true, Bool.false_eq_true, if_false] <;> omega

theorem iso_char (utf16 : Bool) (s : IsoEncSt) (c w n : Nat) (hw : WOK utf16 c w) :
    charCost iso2022JpEFam (isoPhi utf16) (iso2022JpEFam.rank s c + 1) s c n ≤ isoPhi utf16 s (n + w) := by
  have hpos := hw.pos
  -- from UTF-8 a non-ASCII character is at least two bytes long
  have h8 : utf16 = false → 0x80 ≤ c → 2 ≤ w := by
    intro hu hc; subst hu
    simp only [WOK, Bool.false_eq_true, if_false] at hw; omega
  apply iso_char_le
  · cases utf16 <;> cases s <;> simp only [isoPhi, if_true, Bool.false_eq_true, if_false] <;> omega
  · intro len hl hc
    cases utf16
    · have h8' := h8 rfl
      cases s <;> simp only [isoPhi, Bool.false_eq_true, if_false, if_true, reduceCtorEq] at hl h8' hc ⊢
      · omega
      · omega
      · have := h8' (hc trivial); omega
    · cases s <;> simp only [isoPhi, if_false, if_true, reduceCtorEq] at hl ⊢ <;> omega
  · intro s' hne hcase
    cases utf16
    · have h8' := h8 rfl
      cases s <;> cases s' <;>
        simp only [isoPhi, Bool.false_eq_true, if_false, if_true, reduceCtorEq, ne_eq, not_true_eq_false,
          false_and, true_and, or_false, false_or] at hne hcase ⊢ <;>
        first
          | contradiction
          | (have := h8' hcase; refine ⟨by omega, ?_⟩; intro len hl; omega)
          | (refine ⟨by omega, ?_⟩; intro len hl; omega)
    · cases s <;> cases s' <;>
        simp only [isoPhi, if_false, if_true, reduceCtorEq, ne_eq, not_true_eq_false,
          false_and, true_and, or_false, false_or] at hne hcase ⊢ <;>
        first
          | contradiction
          | (refine ⟨by omega, ?_⟩; intro len hl; omega)

def isoPot (utf16 : Bool) : EPotential iso2022JpEFam utf16 where
  Inv := fun _ => True
  Φ := isoPhi utf16
  inv_init := trivial
  inv_step := fun _ _ _ => trivial
  inv_eof := fun _ _ => trivial
  char_le := fun s c w n _ hw => iso_char utf16 s c w n hw
  eof_le := by
    intro s _
    cases utf16 <;> cases s <;> simp only [isoPhi, iso2022JpEFam, if_true, Bool.false_eq_true, if_false] <;> omega

end EncodingRs.Lemmas.EncMaxLenIso
