import EncodingRs.Model.Bidi
import EncodingRs.Spec.Bidi
import EncodingRs.Lemmas.BidiData
/-!
Helper lemmas for C16 (mem classification and bidi checks).

Layout: `bool_omega`; OR-reduction / stride lemmas (`unitCheck_eq`); the `wrapping_sub`
range idiom; the two per-character predicates; `validate_ascii` = scalar scan
(`validateAscii_eq`, `scan_inv`); UTF-16; unfolding of the specification's `decodeUtf8`,
`utf8Bidi`, `utf8Latin1`, `validUtf8` by sequence shape; per lead-byte class facts
(`rtl_*`: the model's test on a well-formed sequence is the documented list; `bad3_eq`,
`bad4_eq`: the `UTF8_DATA` tests are Table 3-7); `innerStep_eq` / `tailStep_eq` (the two
`match byte` blocks of `is_utf8_bidi` compute `specInner` / `specTail`); loop inductions
(`utf8BidiLoop_eq`, `isUtf8Latin1Loop_spec`, `strBidiLoop_eq`, `isStrLatin1Loop_spec`);
`decode_encode` (sanity of the specification's decoder).
-/
namespace EncodingRs.Lemmas.Bidi
open EncodingRs EncodingRs.Model.Bidi EncodingRs.Spec.Bidi

/-- Bool/Prop normalisation followed by `omega` -/
macro "bool_omega" : tactic => `(tactic| (
  (try rw [Bool.eq_iff_iff])
  simp only [Bool.or_eq_true, Bool.and_eq_true, Bool.not_eq_true', Bool.not_true, Bool.and_eq_false_iff, Bool.or_eq_false_iff,
    Bool.not_false, decide_eq_true_eq, decide_eq_false_iff_not, beq_iff_eq, bne_iff_ne, beq_eq_false_iff_ne, ne_eq,
    Bool.false_eq_true, Bool.true_eq_false, false_iff, true_iff, iff_false, iff_true, ge_iff_le, gt_iff_lt,
    not_true_eq_false, not_false_eq_true, false_or, or_false, true_or, or_true, true_and, and_true, false_and, and_false] at *
  <;> omega))

theorem foldl_or_lt (k : Nat) (t : List Nat) (a : Nat) :
    t.foldl (· ||| ·) a < 2 ^ k ↔ a < 2 ^ k ∧ ∀ x ∈ t, x < 2 ^ k := by
  induction t generalizing a with
  | nil => simp
  | cons b t ih =>
    simp only [List.foldl_cons, ih, List.mem_cons, forall_eq_or_imp]
    constructor
    · rintro ⟨h1, h2⟩
      exact ⟨Nat.lt_of_le_of_lt Nat.left_le_or h1, Nat.lt_of_le_of_lt Nat.right_le_or h1, h2⟩
    · rintro ⟨h1, h2, h3⟩
      exact ⟨Nat.or_lt_two_pow h1 h2, h3⟩

theorem reduceOrBelow_eq (k : Nat) (l : List Nat) :
    reduceOrBelow (2 ^ k) l = l.all (fun b => decide (b < 2 ^ k)) := by
  cases l with
  | nil => rfl
  | cons a t =>
    simp only [reduceOrBelow, List.all_cons]
    rw [Bool.eq_iff_iff]
    simp only [decide_eq_true_eq, foldl_or_lt, Bool.and_eq_true, List.all_eq_true]

theorem unitCheck_eq (stride k : Nat) (hs : 0 < stride) :
    ∀ (fuel : Nat) (buf : List Nat), buf.length ≤ fuel →
      unitCheck stride (2 ^ k) fuel buf = buf.all (fun b => decide (b < 2 ^ k)) := by
  intro fuel
  induction fuel with
  | zero => intro buf _; exact reduceOrBelow_eq k buf
  | succ fuel ih =>
    intro buf hlen
    simp only [unitCheck]
    split
    · next hfull =>
      have hsplit : buf = buf.take stride ++ buf.drop stride := (List.take_append_drop stride buf).symm
      have hall : buf.all (fun b => decide (b < 2 ^ k))
          = ((buf.take stride).all (fun b => decide (b < 2 ^ k)) && (buf.drop stride).all (fun b => decide (b < 2 ^ k))) := by
        conv => lhs; rw [hsplit]
        rw [List.all_append]
      rw [hall]
      split
      · next h1 =>
        rw [h1, Bool.true_and]
        apply ih
        rw [List.length_drop]; omega
      · next h1 =>
        have : (buf.take stride).all (fun b => decide (b < 2 ^ k)) = false := by simpa using h1
        rw [this, Bool.false_and]
    · exact reduceOrBelow_eq k buf


/-! ### the `wrapping_sub` range idiom is the interval test -/

theorem inRange32_eq (i s e : Nat) (hi : i < 0x100000000) (hs : s ≤ e) (he : e < 0x100000000) :
    inRange32 i s e = decide (s ≤ i ∧ i < e) := by
  unfold inRange32 wsub32
  rw [decide_eq_decide]
  omega

theorem inInclusiveRange32_eq (i s e : Nat) (hi : i < 0x100000000) (hs : s ≤ e) (he : e < 0x100000000) :
    inInclusiveRange32 i s e = decide (s ≤ i ∧ i ≤ e) := by
  unfold inInclusiveRange32 wsub32
  rw [decide_eq_decide]
  omega

theorem inRange16_eq (i s e : Nat) (hi : i < 0x10000) (hs : s ≤ e) (he : e < 0x10000) :
    inRange16 i s e = decide (s ≤ i ∧ i < e) := by
  unfold inRange16 wsub16
  rw [decide_eq_decide]
  omega

theorem inInclusiveRange16_eq (i s e : Nat) (hi : i < 0x10000) (hs : s ≤ e) (he : e < 0x10000) :
    inInclusiveRange16 i s e = decide (s ≤ i ∧ i ≤ e) := by
  unfold inInclusiveRange16 wsub16
  rw [decide_eq_decide]
  omega

theorem inInclusiveRange8_eq (i s e : Nat) (hi : i < 0x100) (hs : s ≤ e) (he : e < 0x100) :
    inInclusiveRange8 i s e = decide (s ≤ i ∧ i ≤ e) := by
  unfold inInclusiveRange8 wsub8
  rw [decide_eq_decide]
  omega

/-! ### the two per-character predicates -/

theorem isCharBidi_eq (c : Nat) (h : c < 0x100000000) : isCharBidi c = isRtlScalar c := by
  unfold isCharBidi isRtlScalar isRtlControl isRtlBmpBlock isRtlAstralBlock
  rw [inRange32_eq _ _ _ h (by decide) (by decide), inRange32_eq _ _ _ h (by decide) (by decide),
    inRange32_eq _ _ _ h (by decide) (by decide), inRange32_eq _ _ _ h (by decide) (by decide),
    inInclusiveRange32_eq _ _ _ h (by decide) (by decide)]
  repeat' split
  all_goals bool_omega

theorem isUtf16CodeUnitBidi_eq (u : Nat) (h : u < 0x10000) : isUtf16CodeUnitBidi u = isRtlUnit u := by
  unfold isUtf16CodeUnitBidi isRtlUnit isRtlControl isRtlBmpBlock isRtlLeadSurrogate
  rw [inRange16_eq _ _ _ h (by decide) (by decide), inRange16_eq _ _ _ h (by decide) (by decide),
    inRange16_eq _ _ _ h (by decide) (by decide), inRange16_eq _ _ _ h (by decide) (by decide),
    inInclusiveRange16_eq _ _ _ h (by decide) (by decide)]
  repeat' split
  all_goals bool_omega

/-- a scalar value's code-unit test agrees with the scalar test on the BMP -/
theorem isRtlUnit_of_bmp (c : Nat) (h : c < 0xD800 ∨ (0xE000 ≤ c ∧ c < 0x10000)) : isRtlUnit c = isRtlScalar c := by
  unfold isRtlUnit isRtlScalar isRtlControl isRtlBmpBlock isRtlLeadSurrogate isRtlAstralBlock
  bool_omega

theorem not_rtl_of_latin1 (c : Nat) (h : c < 0x100) : isRtlScalar c = false ∧ isRtlUnit c = false := by
  unfold isRtlUnit isRtlScalar isRtlControl isRtlBmpBlock isRtlLeadSurrogate isRtlAstralBlock
  constructor <;> bool_omega

/-! ### `validate_ascii` is the scalar scan, whatever the stride -/

theorem scanNonAscii_shift (c : Nat) (l : List Nat) :
    scanNonAscii c l = (scanNonAscii 0 l).map (fun bp => (bp.1, c + bp.2)) := by
  induction l generalizing c with
  | nil => rfl
  | cons b r ih =>
    simp only [scanNonAscii]
    split
    · simp
    · rw [ih (c + 1), ih (0 + 1)]
      cases scanNonAscii 0 r with
      | none => rfl
      | some bp => simp only [Option.map_some]; congr 2; omega

theorem scanNonAscii_append_ascii (c : Nat) (pre r : List Nat)
    (h : pre.all (fun b => decide (b < 0x80)) = true) :
    scanNonAscii c (pre ++ r) = scanNonAscii (c + pre.length) r := by
  induction pre generalizing c with
  | nil => rfl
  | cons b p ih =>
    simp only [List.all_cons, Bool.and_eq_true, decide_eq_true_eq] at h
    simp only [List.cons_append, scanNonAscii, List.length_cons]
    rw [if_neg (by omega), ih (c + 1) h.2]
    congr 1; omega

theorem scanNonAscii_append_nonascii (c : Nat) (pre r : List Nat)
    (h : ¬ pre.all (fun b => decide (b < 0x80)) = true) :
    scanNonAscii c (pre ++ r) = scanNonAscii c pre ∧ (scanNonAscii c pre).isSome := by
  induction pre generalizing c with
  | nil => simp at h
  | cons b p ih =>
    simp only [List.cons_append, scanNonAscii]
    split
    · simp
    · next hb =>
      apply ih
      simp only [List.all_cons, Bool.and_eq_true, decide_eq_true_eq, not_and] at h
      exact h (by omega)

theorem validateAsciiLoop_eq (stride : Nat) (hs : 0 < stride) :
    ∀ (fuel c : Nat) (buf : List Nat), buf.length ≤ fuel →
      validateAsciiLoop stride fuel c buf = scanNonAscii c buf := by
  intro fuel
  induction fuel with
  | zero => intro c buf _; rfl
  | succ fuel ih =>
    intro c buf hlen
    simp only [validateAsciiLoop]
    split
    · next hfull =>
      have hsplit : buf = buf.take stride ++ buf.drop stride := (List.take_append_drop stride buf).symm
      have htl : (buf.take stride).length = stride := by rw [List.length_take]; omega
      split
      · next h1 =>
        rw [ih _ _ (by rw [List.length_drop]; omega)]
        conv => rhs; rw [hsplit]
        rw [scanNonAscii_append_ascii c _ _ h1, htl]
      · next h1 =>
        have := scanNonAscii_append_nonascii c (buf.take stride) (buf.drop stride) h1
        conv => rhs; rw [hsplit, this.1, scanNonAscii_shift]
        have h2 := this.2
        rw [scanNonAscii_shift] at h2
        cases hsc : scanNonAscii 0 (buf.take stride) with
        | none => rw [hsc] at h2; simp at h2
        | some bp => rfl
    · rfl

theorem validateAscii_eq (buf : List Nat) : validateAscii buf = scanNonAscii 0 buf :=
  validateAsciiLoop_eq STRIDE (by decide) _ _ _ (Nat.le_refl _)

/-- What the scan establishes, for any quantity `F` that ignores leading ASCII:
either the whole buffer is ASCII, or the buffer from the reported index on
starts with the reported (non-ASCII) byte. -/
theorem scan_inv {β : Type} (F : List Nat → β) (hF : ∀ b r, b < 0x80 → F (b :: r) = F r) :
    ∀ (l : List Nat) (c : Nat),
      match scanNonAscii c l with
      | none => F l = F []
      | some (b, p) => ∃ r, c ≤ p ∧ p - c < l.length ∧ l.drop (p - c) = b :: r ∧ 0x80 ≤ b ∧ F l = F (b :: r) := by
  intro l
  induction l with
  | nil => intro c; simp [scanNonAscii]
  | cons a t ih =>
    intro c
    simp only [scanNonAscii]
    by_cases ha : a ≥ 0x80
    · rw [if_pos ha]
      refine ⟨t, Nat.le_refl _, ?_, ?_, ha, rfl⟩
      · simp
      · simp
    · rw [if_neg ha]
      have := ih (c + 1)
      revert this
      cases scanNonAscii (c + 1) t with
      | none => intro h; simp only at h ⊢; rw [hF a t (by omega), h]
      | some bp =>
        obtain ⟨b, p⟩ := bp
        simp only
        rintro ⟨r, h1, h2, h3, h4, h5⟩
        refine ⟨r, by omega, ?_, ?_, h4, ?_⟩
        · simp only [List.length_cons]; omega
        · have : p - c = (p - (c + 1)) + 1 := by omega
          rw [this, List.drop_succ_cons]; exact h3
        · rw [hF a t (by omega)]; exact h5

/-! ### UTF-16 -/

/-- the model's answer type read as the specification's -/
def toSpec : Model.Bidi.Latin1Bidi → Spec.Bidi.Latin1Bidi
  | .latin1 => .latin1
  | .leftToRight => .leftToRight
  | .bidi => .bidi


theorem isUtf16Bidi_eq (us : List Nat) (h : ∀ u ∈ us, u < 0x10000) : isUtf16Bidi us = anyRtlUnit us := by
  unfold isUtf16Bidi anyRtlUnit
  induction us with
  | nil => rfl
  | cons u r ih =>
    simp only [List.any_cons]
    rw [isUtf16CodeUnitBidi_eq u (h u (List.mem_cons_self)), ih (fun x hx => h x (List.mem_cons_of_mem _ hx))]

theorem isUtf16Bidi_cons (u : Nat) (r : List Nat) :
    isUtf16Bidi (u :: r) = (isUtf16CodeUnitBidi u || isUtf16Bidi r) := rfl

theorem checkUtf16Rest_eq (us : List Nat) :
    checkUtf16Rest us = if isUtf16Bidi us then Model.Bidi.Latin1Bidi.bidi else Model.Bidi.Latin1Bidi.leftToRight := by
  induction us with
  | nil => rfl
  | cons u r ih =>
    rw [checkUtf16Rest, isUtf16Bidi_cons, ih]
    cases isUtf16CodeUnitBidi u <;> simp

theorem isUtf16CodeUnitBidi_latin1 (u : Nat) (h : u < 0x100) : isUtf16CodeUnitBidi u = false := by
  rw [isUtf16CodeUnitBidi_eq u (by omega)]; exact (not_rtl_of_latin1 u h).2

theorem checkUtf16_eq (us : List Nat) :
    checkUtf16 us =
      if us.all (fun u => decide (u < 0x100)) then Model.Bidi.Latin1Bidi.latin1
      else if isUtf16Bidi us then Model.Bidi.Latin1Bidi.bidi else Model.Bidi.Latin1Bidi.leftToRight := by
  induction us with
  | nil => rfl
  | cons u r ih =>
    rw [checkUtf16, isUtf16Bidi_cons, List.all_cons]
    by_cases hu : u < 0x100
    · rw [if_pos hu, ih, isUtf16CodeUnitBidi_latin1 u hu]
      simp [hu]
    · rw [if_neg hu, checkUtf16Rest_eq]
      cases isUtf16CodeUnitBidi u <;> simp [hu]


/-! ### unfolding `decodeUtf8` by sequence shape -/

theorem decode_ascii (b0 : Nat) (r : List Nat) (h : b0 < 0x80) :
    decodeUtf8 (b0 :: r) = (decodeUtf8 r).map (b0 :: ·) := by
  rcases r with _ | ⟨b1, _ | ⟨b2, _ | ⟨b3, r⟩⟩⟩ <;> simp only [decodeUtf8, if_pos h]

theorem decode_two (b0 b1 : Nat) (r : List Nat) (h : 0xC2 ≤ b0 ∧ b0 ≤ 0xDF) :
    decodeUtf8 (b0 :: b1 :: r) = if isCont b1 then (decodeUtf8 r).map (cp2 b0 b1 :: ·) else none := by
  have h1 : ¬ b0 < 0x80 := by omega
  rcases r with _ | ⟨b2, _ | ⟨b3, r⟩⟩ <;> simp only [decodeUtf8, if_neg h1, if_pos h]

theorem decode_three (b0 b1 b2 : Nat) (r : List Nat) (h : 0xE0 ≤ b0 ∧ b0 ≤ 0xEF) :
    decodeUtf8 (b0 :: b1 :: b2 :: r) =
      if second3Ok b0 b1 ∧ isCont b2 then (decodeUtf8 r).map (cp3 b0 b1 b2 :: ·) else none := by
  have h1 : ¬ b0 < 0x80 := by omega
  have h2 : ¬ (0xC2 ≤ b0 ∧ b0 ≤ 0xDF) := by omega
  rcases r with _ | ⟨b3, r⟩ <;> simp only [decodeUtf8, if_neg h1, if_neg h2, if_pos h]

theorem decode_four (b0 b1 b2 b3 : Nat) (r : List Nat) (h : 0xF0 ≤ b0 ∧ b0 ≤ 0xF4) :
    decodeUtf8 (b0 :: b1 :: b2 :: b3 :: r) =
      if second4Ok b0 b1 ∧ isCont b2 ∧ isCont b3 then (decodeUtf8 r).map (cp4 b0 b1 b2 b3 :: ·) else none := by
  have h1 : ¬ b0 < 0x80 := by omega
  have h2 : ¬ (0xC2 ≤ b0 ∧ b0 ≤ 0xDF) := by omega
  have h3 : ¬ (0xE0 ≤ b0 ∧ b0 ≤ 0xEF) := by omega
  simp only [decodeUtf8, if_neg h1, if_neg h2, if_neg h3, if_pos h]

theorem decode_badlead (b0 : Nat) (r : List Nat) (h : (0x80 ≤ b0 ∧ b0 < 0xC2) ∨ 0xF5 ≤ b0) :
    decodeUtf8 (b0 :: r) = none := by
  have h1 : ¬ b0 < 0x80 := by omega
  have h2 : ¬ (0xC2 ≤ b0 ∧ b0 ≤ 0xDF) := by omega
  have h3 : ¬ (0xE0 ≤ b0 ∧ b0 ≤ 0xEF) := by omega
  have h4 : ¬ (0xF0 ≤ b0 ∧ b0 ≤ 0xF4) := by omega
  rcases r with _ | ⟨b1, _ | ⟨b2, _ | ⟨b3, r⟩⟩⟩ <;> simp only [decodeUtf8, if_neg h1, if_neg h2, if_neg h3, if_neg h4]

theorem decode_short1 (b0 : Nat) (h : 0x80 ≤ b0) : decodeUtf8 [b0] = none := by
  simp only [decodeUtf8, if_neg (show ¬ b0 < 0x80 by omega)]

theorem decode_short2 (b0 b1 : Nat) (h : 0xE0 ≤ b0) : decodeUtf8 [b0, b1] = none := by
  simp only [decodeUtf8, if_neg (show ¬ b0 < 0x80 by omega), if_neg (show ¬ (0xC2 ≤ b0 ∧ b0 ≤ 0xDF) by omega)]

theorem decode_short3 (b0 b1 b2 : Nat) (h : 0xF0 ≤ b0) : decodeUtf8 [b0, b1, b2] = none := by
  simp only [decodeUtf8, if_neg (show ¬ b0 < 0x80 by omega), if_neg (show ¬ (0xC2 ≤ b0 ∧ b0 ≤ 0xDF) by omega),
    if_neg (show ¬ (0xE0 ≤ b0 ∧ b0 ≤ 0xEF) by omega)]


theorem shr6 (b : Nat) : b >>> 6 = b / 64 := by rw [Nat.shiftRight_eq_div_pow]



/-! ### `utf8Bidi` by sequence shape -/

/-- a two-byte sequence is malformed or encodes a right-to-left scalar -/
def seq2Bidi (b0 b1 : Nat) : Bool := !isCont b1 || isRtlScalar (cp2 b0 b1)
def seq3Bidi (b0 b1 b2 : Nat) : Bool := !(second3Ok b0 b1 && isCont b2) || isRtlScalar (cp3 b0 b1 b2)
def seq4Bidi (b0 b1 b2 b3 : Nat) : Bool :=
  !(second4Ok b0 b1 && isCont b2 && isCont b3) || isRtlScalar (cp4 b0 b1 b2 b3)

theorem U_nil : utf8Bidi [] = false := rfl

theorem U_of_none (l : List Nat) (h : decodeUtf8 l = none) : utf8Bidi l = true := by
  unfold utf8Bidi; rw [h]

/-- `utf8Bidi` as a function of the decoder's result -/
def bidiOf : Option (List Nat) → Bool
  | none => true
  | some cs => anyRtlScalar cs

theorem utf8Bidi_def (l : List Nat) : utf8Bidi l = bidiOf (decodeUtf8 l) := by
  unfold utf8Bidi bidiOf; cases decodeUtf8 l <;> rfl

theorem U_map_cons (c : Nat) (r : List Nat) :
    bidiOf ((decodeUtf8 r).map (c :: ·)) = (isRtlScalar c || utf8Bidi r) := by
  rw [utf8Bidi_def]
  cases decodeUtf8 r with
  | none => simp [bidiOf]
  | some cs => simp [bidiOf, anyRtlScalar]

theorem U_ascii (b0 : Nat) (r : List Nat) (h : b0 < 0x80) : utf8Bidi (b0 :: r) = utf8Bidi r := by
  rw [utf8Bidi_def]
  rw [decode_ascii b0 r h, U_map_cons, (not_rtl_of_latin1 b0 (by omega)).1, Bool.false_or]

theorem U_two (b0 b1 : Nat) (r : List Nat) (h : 0xC2 ≤ b0 ∧ b0 ≤ 0xDF) :
    utf8Bidi (b0 :: b1 :: r) = (seq2Bidi b0 b1 || utf8Bidi r) := by
  rw [utf8Bidi_def]
  rw [decode_two b0 b1 r h]
  unfold seq2Bidi
  cases hc : isCont b1
  · simp [bidiOf]
  · simp only [if_true, U_map_cons]; simp

theorem U_three (b0 b1 b2 : Nat) (r : List Nat) (h : 0xE0 ≤ b0 ∧ b0 ≤ 0xEF) :
    utf8Bidi (b0 :: b1 :: b2 :: r) = (seq3Bidi b0 b1 b2 || utf8Bidi r) := by
  rw [utf8Bidi_def]
  rw [decode_three b0 b1 b2 r h]
  unfold seq3Bidi
  by_cases hc : second3Ok b0 b1 = true ∧ isCont b2 = true
  · rw [if_pos hc, U_map_cons, hc.1, hc.2]; simp
  · rw [if_neg hc]
    have : (second3Ok b0 b1 && isCont b2) = false := by
      cases h1 : second3Ok b0 b1 <;> cases h2 : isCont b2 <;> simp_all
    rw [this]; simp [bidiOf]

theorem U_four (b0 b1 b2 b3 : Nat) (r : List Nat) (h : 0xF0 ≤ b0 ∧ b0 ≤ 0xF4) :
    utf8Bidi (b0 :: b1 :: b2 :: b3 :: r) = (seq4Bidi b0 b1 b2 b3 || utf8Bidi r) := by
  rw [utf8Bidi_def]
  rw [decode_four b0 b1 b2 b3 r h]
  unfold seq4Bidi
  by_cases hc : second4Ok b0 b1 = true ∧ isCont b2 = true ∧ isCont b3 = true
  · rw [if_pos hc, U_map_cons, hc.1, hc.2.1, hc.2.2]; simp
  · rw [if_neg hc]
    have : (second4Ok b0 b1 && isCont b2 && isCont b3) = false := by
      cases h1 : second4Ok b0 b1 <;> cases h2 : isCont b2 <;> cases h3 : isCont b3 <;> simp_all
    rw [this]; simp [bidiOf]



/-! ### per lead-byte class: the model's right-to-left test on a well-formed sequence is the documented list -/

theorem isCont_iff (b : Nat) : isCont b = true ↔ 0x80 ≤ b ∧ b ≤ 0xBF := by
  unfold isCont; bool_omega

theorem second3Ok_iff (b0 b1 : Nat) : second3Ok b0 b1 = true ↔
    ((b0 ≠ 0xE0 ∨ 0xA0 ≤ b1) ∧ (b0 ≠ 0xED ∨ b1 ≤ 0x9F) ∧ 0x80 ≤ b1 ∧ b1 ≤ 0xBF) := by
  unfold second3Ok
  split
  · next h => have : b0 = 0xE0 := by simpa using h
              subst this; bool_omega
  · next h =>
    have h0 : b0 ≠ 0xE0 := by simpa using h
    split
    · next h' => have : b0 = 0xED := by simpa using h'
                 subst this; bool_omega
    · next h' => have : b0 ≠ 0xED := by simpa using h'
                 bool_omega

theorem second4Ok_iff (b0 b1 : Nat) : second4Ok b0 b1 = true ↔
    ((b0 ≠ 0xF0 ∨ 0x90 ≤ b1) ∧ (b0 ≠ 0xF4 ∨ b1 ≤ 0x8F) ∧ 0x80 ≤ b1 ∧ b1 ≤ 0xBF) := by
  unfold second4Ok
  split
  · next h => have : b0 = 0xF0 := by simpa using h
              subst this; bool_omega
  · next h =>
    have h0 : b0 ≠ 0xF0 := by simpa using h
    split
    · next h' => have : b0 = 0xF4 := by simpa using h'
                 subst this; bool_omega
    · next h' => have : b0 ≠ 0xF4 := by simpa using h'
                 bool_omega

theorem rtl_two_lo (b0 b1 : Nat) (h0 : 0xC2 ≤ b0 ∧ b0 ≤ 0xD5) (h1 : isCont b1 = true) :
    isRtlScalar (cp2 b0 b1) = false := by
  rw [isCont_iff] at h1
  unfold isRtlScalar isRtlControl isRtlBmpBlock isRtlAstralBlock cp2
  bool_omega

theorem rtl_two_d6 (b1 : Nat) (h1 : isCont b1 = true) :
    isRtlScalar (cp2 0xD6 b1) = decide (b1 > 0x8F) := by
  rw [isCont_iff] at h1
  unfold isRtlScalar isRtlControl isRtlBmpBlock isRtlAstralBlock cp2
  bool_omega

theorem rtl_two_hi (b0 b1 : Nat) (h0 : 0xD7 ≤ b0 ∧ b0 ≤ 0xDF) (h1 : isCont b1 = true) :
    isRtlScalar (cp2 b0 b1) = true := by
  rw [isCont_iff] at h1
  unfold isRtlScalar isRtlControl isRtlBmpBlock isRtlAstralBlock cp2
  bool_omega

theorem rtl_three_normal (b0 b1 b2 : Nat) (h0 : b0 = 0xE1 ∨ (0xE3 ≤ b0 ∧ b0 ≤ 0xEC) ∨ b0 = 0xEE)
    (h1 : second3Ok b0 b1 = true) (h2 : isCont b2 = true) : isRtlScalar (cp3 b0 b1 b2) = false := by
  rw [isCont_iff] at h2; rw [second3Ok_iff] at h1
  unfold isRtlScalar isRtlControl isRtlBmpBlock isRtlAstralBlock cp3
  bool_omega

theorem rtl_three_e2 (b1 b2 : Nat) (h1 : second3Ok 0xE2 b1 = true) (h2 : isCont b2 = true) :
    isRtlScalar (cp3 0xE2 b1 b2) = e2Bidi b1 b2 := by
  rw [isCont_iff] at h2; rw [second3Ok_iff] at h1
  unfold isRtlScalar isRtlControl isRtlBmpBlock isRtlAstralBlock cp3 e2Bidi
  by_cases h80 : b1 = 0x80
  · subst h80; simp only [beq_self_eq_true, if_true]; bool_omega
  · have : (b1 == 0x80) = false := by simpa using h80
    rw [this]
    by_cases h81 : b1 = 0x81
    · subst h81; simp only [Bool.false_eq_true, if_false, beq_self_eq_true, if_true]; bool_omega
    · have : (b1 == 0x81) = false := by simpa using h81
      rw [this]; simp only [Bool.false_eq_true, if_false]; bool_omega

theorem rtl_three_e0 (b1 b2 : Nat) (h1 : second3Ok 0xE0 b1 = true) (h2 : isCont b2 = true) :
    isRtlScalar (cp3 0xE0 b1 b2) = decide (b1 < 0xA4) := by
  rw [isCont_iff] at h2; rw [second3Ok_iff] at h1
  unfold isRtlScalar isRtlControl isRtlBmpBlock isRtlAstralBlock cp3
  bool_omega

theorem rtl_three_ed (b1 b2 : Nat) (h1 : second3Ok 0xED b1 = true) (h2 : isCont b2 = true) :
    isRtlScalar (cp3 0xED b1 b2) = false := by
  rw [isCont_iff] at h2; rw [second3Ok_iff] at h1
  unfold isRtlScalar isRtlControl isRtlBmpBlock isRtlAstralBlock cp3
  bool_omega

theorem rtl_three_ef (b1 b2 : Nat) (h1 : second3Ok 0xEF b1 = true) (h2 : isCont b2 = true) :
    isRtlScalar (cp3 0xEF b1 b2) = efBidi b1 b2 := by
  rw [isCont_iff] at h2; rw [second3Ok_iff] at h1
  unfold efBidi
  rw [inInclusiveRange8_eq b1 0xAC 0xB7 (by omega) (by decide) (by decide),
    inInclusiveRange8_eq b1 0xB9 0xBB (by omega) (by decide) (by decide)]
  unfold isRtlScalar isRtlControl isRtlBmpBlock isRtlAstralBlock cp3
  repeat' split
  all_goals bool_omega

theorem rtl_four_normal (b0 b1 b2 b3 : Nat) (h0 : 0xF1 ≤ b0 ∧ b0 ≤ 0xF4)
    (h1 : second4Ok b0 b1 = true) (h2 : isCont b2 = true) (h3 : isCont b3 = true) :
    isRtlScalar (cp4 b0 b1 b2 b3) = false := by
  rw [isCont_iff] at h2 h3; rw [second4Ok_iff] at h1
  unfold isRtlScalar isRtlControl isRtlBmpBlock isRtlAstralBlock cp4
  bool_omega

theorem rtl_four_f0 (b1 b2 b3 : Nat)
    (h1 : second4Ok 0xF0 b1 = true) (h2 : isCont b2 = true) (h3 : isCont b3 = true) :
    isRtlScalar (cp4 0xF0 b1 b2 b3) = ((b1 == 0x90 || b1 == 0x9E) && decide (b2 ≥ 0xA0)) := by
  rw [isCont_iff] at h2 h3; rw [second4Ok_iff] at h1
  unfold isRtlScalar isRtlControl isRtlBmpBlock isRtlAstralBlock cp4
  bool_omega



/-! ### the `UTF8_DATA` validity tests are Table 3-7 -/

theorem bad3_eq (b0 b1 b2 : Nat) (h0 : 0xE0 ≤ b0 ∧ b0 ≤ 0xEF) (h1 : b1 < 256) :
    bad3 b0 b1 b2 = !(second3Ok b0 b1 && isCont b2) := by
  unfold bad3
  rw [shr6]
  by_cases h2 : b2 / 64 < 4
  · have := bad3_table (b0 - 0xE0) (by omega) b1 h1 (b2 / 64) h2
    rw [show b0 - 0xE0 + 0xE0 = b0 by omega] at this
    rw [this]
    have : (b2 / 64 == 2) = isCont b2 := by unfold isCont; bool_omega
    rw [this]
  · have hc : isCont b2 = false := by unfold isCont; bool_omega
    rw [hc, Bool.and_false, Bool.not_false]
    have hle : b2 / 64 ≤ (utf8Data b1 &&& utf8Data (b0 + 0x80)) ||| b2 / 64 := Nat.right_le_or
    have : ((utf8Data b1 &&& utf8Data (b0 + 0x80)) ||| b2 / 64) ≠ 2 := by omega
    simpa using this

theorem bad4_eq (b0 b1 b2 b3 : Nat) (h0 : 0xF0 ≤ b0 ∧ b0 ≤ 0xF4) (h1 : b1 < 256) (h2 : b2 < 256) (h3 : b3 < 256) :
    bad4 b0 b1 b2 b3 = !(second4Ok b0 b1 && isCont b2 && isCont b3) := by
  unfold bad4
  rw [shr6, and_c0 b3 h3]
  have := bad4_table (b0 - 0xF0) (by omega) b1 h1 (b2 / 64) (by omega) (b3 / 64) (by omega)
  rw [show b0 - 0xF0 + 0xF0 = b0 by omega] at this
  rw [this]
  have e2 : (b2 / 64 == 2) = isCont b2 := by unfold isCont; bool_omega
  have e3 : (b3 / 64 == 2) = isCont b3 := by unfold isCont; bool_omega
  rw [e2, e3]



/-- decide the `if`s whose condition is linear arithmetic over the hypotheses -/
macro "ifs" : tactic => `(tactic| repeat (first | rw [if_pos (by omega)] | rw [if_neg (by omega)]))

theorem seq2_cases (b0 b1 : Nat) (h1 : b1 < 256) (X : Bool)
    (hX : isCont b1 = true → isRtlScalar (cp2 b0 b1) = X) :
    seq2Bidi b0 b1 = (!inInclusiveRange8 b1 0x80 0xBF || X) := by
  rw [inInclusiveRange8_eq b1 _ _ h1 (by decide) (by decide)]
  unfold seq2Bidi
  have : isCont b1 = decide (0x80 ≤ b1 ∧ b1 ≤ 0xBF) := by unfold isCont; bool_omega
  rw [← this]
  cases h : isCont b1
  · simp
  · rw [hX h]

theorem seq3_cases (b0 b1 b2 : Nat) (h0 : 0xE0 ≤ b0 ∧ b0 ≤ 0xEF) (h1 : b1 < 256) (X : Bool)
    (hX : second3Ok b0 b1 = true → isCont b2 = true → isRtlScalar (cp3 b0 b1 b2) = X) :
    seq3Bidi b0 b1 b2 = (bad3 b0 b1 b2 || X) := by
  rw [bad3_eq b0 b1 b2 h0 h1]
  unfold seq3Bidi
  cases h : second3Ok b0 b1 <;> cases h' : isCont b2
  · simp
  · simp
  · simp
  · rw [hX h h']

theorem seq4_cases (b0 b1 b2 b3 : Nat) (h0 : 0xF0 ≤ b0 ∧ b0 ≤ 0xF4) (h1 : b1 < 256) (h2 : b2 < 256) (h3 : b3 < 256)
    (X : Bool)
    (hX : second4Ok b0 b1 = true → isCont b2 = true → isCont b3 = true → isRtlScalar (cp4 b0 b1 b2 b3) = X) :
    seq4Bidi b0 b1 b2 b3 = (bad4 b0 b1 b2 b3 || X) := by
  rw [bad4_eq b0 b1 b2 b3 h0 h1 h2 h3]
  unfold seq4Bidi
  cases h : second4Ok b0 b1 <;> cases h' : isCont b2 <;> cases h'' : isCont b3 <;> first | (rw [hX h h' h'']) | simp

/-- what one `match byte` of `is_utf8_bidi` has to compute, in terms of the specification -/
def specInner (b0 b1 b2 b3 : Nat) : Step :=
  if b0 < 0x80 then .ascii
  else if 0xC2 ≤ b0 ∧ b0 ≤ 0xDF then (if seq2Bidi b0 b1 then .ret true else .adv 2)
  else if 0xE0 ≤ b0 ∧ b0 ≤ 0xEF then (if seq3Bidi b0 b1 b2 then .ret true else .adv 3)
  else if 0xF0 ≤ b0 ∧ b0 ≤ 0xF4 then (if seq4Bidi b0 b1 b2 b3 then .ret true else .adv 4)
  else .ret true

theorem specInner_ascii (b0 b1 b2 b3 : Nat) (h : b0 < 0x80) : specInner b0 b1 b2 b3 = .ascii := by
  unfold specInner; ifs
theorem specInner_two (b0 b1 b2 b3 : Nat) (h : 0xC2 ≤ b0 ∧ b0 ≤ 0xDF) :
    specInner b0 b1 b2 b3 = if seq2Bidi b0 b1 then .ret true else .adv 2 := by
  unfold specInner; ifs
theorem specInner_three (b0 b1 b2 b3 : Nat) (h : 0xE0 ≤ b0 ∧ b0 ≤ 0xEF) :
    specInner b0 b1 b2 b3 = if seq3Bidi b0 b1 b2 then .ret true else .adv 3 := by
  unfold specInner; ifs
theorem specInner_four (b0 b1 b2 b3 : Nat) (h : 0xF0 ≤ b0 ∧ b0 ≤ 0xF4) :
    specInner b0 b1 b2 b3 = if seq4Bidi b0 b1 b2 b3 then .ret true else .adv 4 := by
  unfold specInner; ifs
theorem specInner_bad (b0 b1 b2 b3 : Nat) (h : (0x80 ≤ b0 ∧ b0 < 0xC2) ∨ 0xF5 ≤ b0) :
    specInner b0 b1 b2 b3 = .ret true := by
  unfold specInner; ifs

theorem innerStep_eq (b0 b1 b2 b3 : Nat) (h1 : b1 < 256) (h2 : b2 < 256) (h3 : b3 < 256) :
    innerStep b0 b1 b2 b3 = specInner b0 b1 b2 b3 := by
  have hcls : b0 < 0x80 ∨ (0x80 ≤ b0 ∧ b0 < 0xC2) ∨ (0xC2 ≤ b0 ∧ b0 ≤ 0xD5) ∨ b0 = 0xD6 ∨ (0xD7 ≤ b0 ∧ b0 ≤ 0xDF)
      ∨ b0 = 0xE0 ∨ (b0 = 0xE1 ∨ (0xE3 ≤ b0 ∧ b0 ≤ 0xEC) ∨ b0 = 0xEE) ∨ b0 = 0xE2 ∨ b0 = 0xED ∨ b0 = 0xEF
      ∨ b0 = 0xF0 ∨ (0xF1 ≤ b0 ∧ b0 ≤ 0xF4) ∨ 0xF5 ≤ b0 := by omega
  rcases hcls with h | h | h | h | h | h | h | h | h | h | h | h | h
  · rw [specInner_ascii _ _ _ _ h]; unfold innerStep; ifs
  · rw [specInner_bad _ _ _ _ (Or.inl h)]; unfold innerStep; ifs
  · rw [specInner_two _ _ _ _ (by omega), seq2_cases b0 b1 h1 false (rtl_two_lo b0 b1 h)]
    unfold innerStep; ifs
    cases inInclusiveRange8 b1 0x80 0xBF <;> simp
  · subst h
    rw [specInner_two _ _ _ _ (by omega), seq2_cases 0xD6 b1 h1 _ (rtl_two_d6 b1)]
    unfold innerStep; ifs
    cases inInclusiveRange8 b1 0x80 0xBF
    · simp
    · by_cases h8 : b1 > 0x8F <;> simp [h8]
  · rw [specInner_two _ _ _ _ (by omega), seq2_cases b0 b1 h1 true (rtl_two_hi b0 b1 h)]
    unfold innerStep; ifs
    cases inInclusiveRange8 b1 0x80 0xBF <;> simp
  · subst h
    rw [specInner_three _ _ _ _ (by omega), seq3_cases 0xE0 b1 b2 (by omega) h1 _ (rtl_three_e0 b1 b2)]
    unfold innerStep; ifs
    cases bad3 0xE0 b1 b2
    · by_cases h8 : b1 < 0xA4 <;> simp [h8]
    · simp
  · rw [specInner_three _ _ _ _ (by omega), seq3_cases b0 b1 b2 (by omega) h1 false (rtl_three_normal b0 b1 b2 h)]
    unfold innerStep; ifs
    cases bad3 b0 b1 b2 <;> simp
  · subst h
    rw [specInner_three _ _ _ _ (by omega), seq3_cases 0xE2 b1 b2 (by omega) h1 _ (rtl_three_e2 b1 b2)]
    unfold innerStep; ifs
    cases bad3 0xE2 b1 b2 <;> cases e2Bidi b1 b2 <;> simp
  · subst h
    rw [specInner_three _ _ _ _ (by omega), seq3_cases 0xED b1 b2 (by omega) h1 false (rtl_three_ed b1 b2)]
    unfold innerStep; ifs
    cases bad3 0xED b1 b2 <;> simp
  · subst h
    rw [specInner_three _ _ _ _ (by omega), seq3_cases 0xEF b1 b2 (by omega) h1 _ (rtl_three_ef b1 b2)]
    unfold innerStep; ifs
    cases bad3 0xEF b1 b2 <;> cases efBidi b1 b2 <;> simp
  · subst h
    rw [specInner_four _ _ _ _ (by omega), seq4_cases 0xF0 b1 b2 b3 (by omega) h1 h2 h3 _ (rtl_four_f0 b1 b2 b3)]
    unfold innerStep; ifs
    cases bad4 0xF0 b1 b2 b3
    · cases ((b1 == 0x90 || b1 == 0x9E) && decide (b2 ≥ 0xA0)) <;> simp
    · simp
  · rw [specInner_four _ _ _ _ (by omega), seq4_cases b0 b1 b2 b3 (by omega) h1 h2 h3 false (rtl_four_normal b0 b1 b2 b3 h)]
    unfold innerStep; ifs
    cases bad4 b0 b1 b2 b3 <;> simp
  · rw [specInner_bad _ _ _ _ (Or.inr h)]; unfold innerStep; ifs



theorem specInner_sound (b0 b1 b2 b3 : Nat) (r : List Nat) :
    match specInner b0 b1 b2 b3 with
    | .ret b => b = true ∧ utf8Bidi (b0 :: b1 :: b2 :: b3 :: r) = true
    | .ascii => b0 < 0x80
    | .adv n => (n = 2 ∨ n = 3 ∨ n = 4) ∧
        utf8Bidi (b0 :: b1 :: b2 :: b3 :: r) = utf8Bidi ((b0 :: b1 :: b2 :: b3 :: r).drop n) := by
  have hcls : b0 < 0x80 ∨ ((0x80 ≤ b0 ∧ b0 < 0xC2) ∨ 0xF5 ≤ b0) ∨ (0xC2 ≤ b0 ∧ b0 ≤ 0xDF)
      ∨ (0xE0 ≤ b0 ∧ b0 ≤ 0xEF) ∨ (0xF0 ≤ b0 ∧ b0 ≤ 0xF4) := by omega
  rcases hcls with h | h | h | h | h
  · rw [specInner_ascii _ _ _ _ h]; exact h
  · rw [specInner_bad _ _ _ _ h]; exact ⟨rfl, U_of_none _ (decode_badlead _ _ h)⟩
  · rw [specInner_two _ _ _ _ h, U_two _ _ _ h]
    cases seq2Bidi b0 b1 <;> simp
  · rw [specInner_three _ _ _ _ h, U_three _ _ _ _ h]
    cases seq3Bidi b0 b1 b2 <;> simp
  · rw [specInner_four _ _ _ _ h, U_four _ _ _ _ _ h]
    cases seq4Bidi b0 b1 b2 b3 <;> simp

/-- what the second `match byte` of `is_utf8_bidi` has to compute, in terms of the specification -/
def specTail (b0 : Nat) (rest : List Nat) : TailStep :=
  if b0 < 0x80 then .cont 1
  else if 0xC2 ≤ b0 ∧ b0 ≤ 0xDF then
    (if 2 > rest.length then .ret true
     else if seq2Bidi b0 (rest.getD 1 0) then .ret true else .cont 2)
  else if 0xE0 ≤ b0 ∧ b0 ≤ 0xEF then
    (if 3 > rest.length then .ret true
     else .ret (seq3Bidi b0 (rest.getD 1 0) (rest.getD 2 0)))
  else .ret true

theorem specTail_ascii (b0 : Nat) (rest : List Nat) (h : b0 < 0x80) : specTail b0 rest = .cont 1 := by
  unfold specTail; ifs
theorem specTail_two (b0 : Nat) (rest : List Nat) (h : 0xC2 ≤ b0 ∧ b0 ≤ 0xDF) :
    specTail b0 rest = (if 2 > rest.length then .ret true
     else if seq2Bidi b0 (rest.getD 1 0) then .ret true else .cont 2) := by
  unfold specTail; rw [if_neg (by omega), if_pos h]
theorem specTail_three (b0 : Nat) (rest : List Nat) (h : 0xE0 ≤ b0 ∧ b0 ≤ 0xEF) :
    specTail b0 rest = (if 3 > rest.length then .ret true
     else .ret (seq3Bidi b0 (rest.getD 1 0) (rest.getD 2 0))) := by
  unfold specTail; rw [if_neg (by omega), if_neg (by omega), if_pos h]
theorem specTail_other (b0 : Nat) (rest : List Nat) (h : (0x80 ≤ b0 ∧ b0 < 0xC2) ∨ 0xF0 ≤ b0) :
    specTail b0 rest = .ret true := by
  unfold specTail; ifs

theorem getD_lt_256 (rest : List Nat) (hb : ∀ b ∈ rest, b < 256) (i : Nat) : rest.getD i 0 < 256 := by
  rw [List.getD_eq_getElem?_getD]
  cases h : rest[i]? with
  | none => simp
  | some x => simp only [Option.getD_some]; exact hb x (List.mem_of_getElem? h)

theorem tailStep_eq (b0 : Nat) (rest : List Nat) (hb : ∀ b ∈ rest, b < 256) :
    tailStep b0 rest = specTail b0 rest := by
  have h1 := getD_lt_256 rest hb 1
  have hcls : b0 < 0x80 ∨ (0x80 ≤ b0 ∧ b0 < 0xC2) ∨ (0xC2 ≤ b0 ∧ b0 ≤ 0xD5) ∨ b0 = 0xD6 ∨ (0xD7 ≤ b0 ∧ b0 ≤ 0xDF)
      ∨ b0 = 0xE0 ∨ (b0 = 0xE1 ∨ (0xE3 ≤ b0 ∧ b0 ≤ 0xEC) ∨ b0 = 0xEE) ∨ b0 = 0xE2 ∨ b0 = 0xED ∨ b0 = 0xEF
      ∨ 0xF0 ≤ b0 := by omega
  simp only [tailStep]
  rcases hcls with h | h | h | h | h | h | h | h | h | h | h
  · rw [specTail_ascii _ _ h]; ifs
  · rw [specTail_other _ _ (Or.inl h)]; ifs
  · rw [specTail_two _ _ (by omega), seq2_cases b0 (rest.getD 1 0) h1 false (rtl_two_lo b0 (rest.getD 1 0) h)]
    ifs
    by_cases hl : 2 > rest.length
    · rw [if_pos hl, if_pos hl]
    · rw [if_neg hl, if_neg hl]
      cases inInclusiveRange8 (rest.getD 1 0) 0x80 0xBF <;> simp
  · subst h
    rw [specTail_two _ _ (by omega), seq2_cases 0xD6 (rest.getD 1 0) h1 _ (rtl_two_d6 (rest.getD 1 0))]
    ifs
    by_cases hl : 2 > rest.length
    · rw [if_pos hl, if_pos hl]
    · rw [if_neg hl, if_neg hl]
      cases inInclusiveRange8 (rest.getD 1 0) 0x80 0xBF
      · simp
      · by_cases h8 : (rest.getD 1 0) > 0x8F <;> simp
  · rw [specTail_two _ _ (by omega), seq2_cases b0 (rest.getD 1 0) h1 true (rtl_two_hi b0 (rest.getD 1 0) h)]
    ifs
    by_cases hl : 2 > rest.length
    · rw [if_pos hl]
    · rw [if_neg hl]
      cases inInclusiveRange8 (rest.getD 1 0) 0x80 0xBF <;> simp
  · subst h
    rw [specTail_three _ _ (by omega), seq3_cases 0xE0 (rest.getD 1 0) (rest.getD 2 0) (by omega) h1 _ (rtl_three_e0 (rest.getD 1 0) (rest.getD 2 0))]
    ifs
    by_cases hl : 3 > rest.length
    · rw [if_pos hl, if_pos hl]
    · rw [if_neg hl, if_neg hl]
      cases bad3 0xE0 (rest.getD 1 0) (rest.getD 2 0)
      · simp only [Bool.false_eq_true, if_false, Bool.false_or]
        by_cases h8 : (rest.getD 1 0) < 0xA4
        · rw [if_pos h8, decide_eq_true h8]
        · rw [if_neg h8, decide_eq_false h8]
      · simp
  · rw [specTail_three _ _ (by omega), seq3_cases b0 (rest.getD 1 0) (rest.getD 2 0) (by omega) h1 false (rtl_three_normal b0 (rest.getD 1 0) (rest.getD 2 0) h)]
    ifs
    by_cases hl : 3 > rest.length
    · rw [if_pos hl, if_pos hl]
    · rw [if_neg hl, if_neg hl]
      cases bad3 b0 (rest.getD 1 0) (rest.getD 2 0) <;> simp
  · subst h
    rw [specTail_three _ _ (by omega), seq3_cases 0xE2 (rest.getD 1 0) (rest.getD 2 0) (by omega) h1 _ (rtl_three_e2 (rest.getD 1 0) (rest.getD 2 0))]
    ifs
    by_cases hl : 3 > rest.length
    · rw [if_pos hl, if_pos hl]
    · rw [if_neg hl, if_neg hl]
      cases bad3 0xE2 (rest.getD 1 0) (rest.getD 2 0) <;> cases e2Bidi (rest.getD 1 0) (rest.getD 2 0) <;> simp
  · subst h
    rw [specTail_three _ _ (by omega), seq3_cases 0xED (rest.getD 1 0) (rest.getD 2 0) (by omega) h1 false (rtl_three_ed (rest.getD 1 0) (rest.getD 2 0))]
    ifs
    by_cases hl : 3 > rest.length
    · rw [if_pos hl, if_pos hl]
    · rw [if_neg hl, if_neg hl]
      cases bad3 0xED (rest.getD 1 0) (rest.getD 2 0) <;> simp
  · subst h
    rw [specTail_three _ _ (by omega), seq3_cases 0xEF (rest.getD 1 0) (rest.getD 2 0) (by omega) h1 _ (rtl_three_ef (rest.getD 1 0) (rest.getD 2 0))]
    ifs
    by_cases hl : 3 > rest.length
    · rw [if_pos hl, if_pos hl]
    · rw [if_neg hl, if_neg hl]
      cases bad3 0xEF (rest.getD 1 0) (rest.getD 2 0) <;> cases efBidi (rest.getD 1 0) (rest.getD 2 0) <;> simp
  · rw [specTail_other _ _ (Or.inr h)]; ifs

theorem specTail_sound (b0 : Nat) (t : List Nat) (ht : t.length ≤ 2) :
    match specTail b0 (b0 :: t) with
    | .ret b => utf8Bidi (b0 :: t) = b
    | .cont n => 1 ≤ n ∧ n ≤ (b0 :: t).length ∧ utf8Bidi (b0 :: t) = utf8Bidi ((b0 :: t).drop n) := by
  have hcls : b0 < 0x80 ∨ ((0x80 ≤ b0 ∧ b0 < 0xC2) ∨ 0xF5 ≤ b0) ∨ (0xC2 ≤ b0 ∧ b0 ≤ 0xDF)
      ∨ (0xE0 ≤ b0 ∧ b0 ≤ 0xEF) ∨ (0xF0 ≤ b0 ∧ b0 ≤ 0xF4) := by omega
  rcases hcls with h | h | h | h | h
  · rw [specTail_ascii _ _ h]
    exact ⟨Nat.le_refl _, by simp, by rw [U_ascii _ _ h]; rfl⟩
  · rw [specTail_other _ _ (by omega)]
    exact U_of_none _ (decode_badlead _ _ h)
  · rw [specTail_two _ _ h]
    rcases t with _ | ⟨b1, t⟩
    · simp only [List.length_cons, List.length_nil]
      rw [if_pos (by omega)]
      exact U_of_none _ (decode_short1 _ (by omega))
    · simp only [List.length_cons]
      rw [if_neg (by omega)]
      simp only [List.getD_cons_succ, List.getD_cons_zero]
      rw [U_two _ _ _ h]
      cases seq2Bidi b0 b1 <;> simp
  · rw [specTail_three _ _ h]
    rcases t with _ | ⟨b1, _ | ⟨b2, t⟩⟩
    · simp only [List.length_cons, List.length_nil]
      rw [if_pos (by omega)]
      exact U_of_none _ (decode_short1 _ (by omega))
    · simp only [List.length_cons, List.length_nil]
      rw [if_pos (by omega)]
      exact U_of_none _ (decode_short2 _ _ (by omega))
    · have : t = [] := by
        cases t with
        | nil => rfl
        | cons _ _ => simp at ht
      subst this
      simp only [List.length_cons, List.length_nil]
      rw [if_neg (by omega)]
      simp only [List.getD_cons_succ, List.getD_cons_zero]
      rw [U_three _ _ _ _ h, U_nil, Bool.or_false]
  · rw [specTail_other _ _ (by omega)]
    rcases t with _ | ⟨b1, _ | ⟨b2, t⟩⟩
    · exact U_of_none _ (decode_short1 _ (by omega))
    · exact U_of_none _ (decode_short2 _ _ (by omega))
    · have : t = [] := by
        cases t with
        | nil => rfl
        | cons _ _ => simp at ht
      subst this
      exact U_of_none _ (decode_short3 _ _ _ (by omega))



theorem head?_getD (l : List Nat) (h : l ≠ []) : l.head? = some (l.getD 0 0) := by
  cases l with
  | nil => exact absurd rfl h
  | cons a t => rfl

theorem lt256_drop (l : List Nat) (n : Nat) (hb : ∀ b ∈ l, b < 256) : ∀ b ∈ l.drop n, b < 256 :=
  fun b hm => hb b (List.mem_of_mem_drop hm)

/-- precondition of each control point of the `is_utf8_bidi` model -/
def modeOk (fuel : Nat) (rest : List Nat) : Mode → Prop
  | .outer => 2 * rest.length + 2 ≤ fuel
  | .inner byte => 2 * rest.length + 1 ≤ fuel ∧ 4 ≤ rest.length ∧ rest.head? = some byte
  | .tail byte => 2 * rest.length + 1 ≤ fuel ∧ rest.length < 4 ∧ rest.head? = some byte

theorem utf8BidiLoop_eq : ∀ (fuel : Nat) (mode : Mode) (rest : List Nat), (∀ b ∈ rest, b < 256) →
    modeOk fuel rest mode → utf8BidiLoop fuel mode rest = utf8Bidi rest := by
  intro fuel
  induction fuel with
  | zero =>
    intro mode rest _ hm
    cases mode <;> simp only [modeOk] at hm <;> omega
  | succ fuel ih =>
    intro mode rest hb hm
    cases mode with
    | outer =>
      simp only [modeOk] at hm
      simp only [utf8BidiLoop]
      rw [validateAscii_eq]
      have hs := scan_inv utf8Bidi U_ascii rest 0
      cases hsc : scanNonAscii 0 rest with
      | none => rw [hsc] at hs; simp only at hs ⊢; rw [hs, U_nil]
      | some bp =>
        obtain ⟨b, p⟩ := bp
        rw [hsc] at hs
        simp only at hs ⊢
        obtain ⟨r, _, hp, hdrop, hb80, hU⟩ := hs
        rw [Nat.sub_zero] at hp hdrop
        have hlen : (rest.drop p).length = rest.length - p := List.length_drop
        split
        · next h4 =>
          rw [ih (.inner b) (rest.drop p) (lt256_drop rest p hb) ⟨by omega, by omega, by rw [hdrop]; rfl⟩, hdrop, hU]
        · next h4 =>
          rw [ih (.tail b) (rest.drop p) (lt256_drop rest p hb) ⟨by omega, by omega, by rw [hdrop]; rfl⟩, hdrop, hU]
    | inner byte =>
      obtain ⟨hf, h4, hh⟩ := hm
      rcases rest with _ | ⟨b0, _ | ⟨b1, _ | ⟨b2, _ | ⟨b3, r⟩⟩⟩⟩ <;> simp only [List.length_cons, List.length_nil] at h4 <;> try omega
      simp only [List.head?_cons, Option.some.injEq] at hh
      subst hh
      simp only [utf8BidiLoop, List.getD_cons_succ, List.getD_cons_zero]
      rw [innerStep_eq b0 b1 b2 b3 (hb b1 (by simp)) (hb b2 (by simp)) (hb b3 (by simp))]
      have hs := specInner_sound b0 b1 b2 b3 r
      cases hst : specInner b0 b1 b2 b3 with
      | ret b => rw [hst] at hs; simp only at hs ⊢; rw [hs.1, hs.2]
      | ascii =>
        rw [hst] at hs; simp only at hs ⊢
        rw [ih .outer _ (lt256_drop _ 1 hb) (by simp only [modeOk, List.drop_succ_cons, List.drop_zero, List.length_cons] at hf ⊢; omega)]
        simp only [List.drop_succ_cons, List.drop_zero]
        rw [U_ascii _ _ hs]
      | adv n =>
        rw [hst] at hs; simp only at hs ⊢
        obtain ⟨hn, hU⟩ := hs
        have hlen : ((b0 :: b1 :: b2 :: b3 :: r).drop n).length = (b0 :: b1 :: b2 :: b3 :: r).length - n := List.length_drop
        simp only [List.length_cons] at hlen hf
        generalize hr' : (b0 :: b1 :: b2 :: b3 :: r).drop n = rest' at *
        have hb' : ∀ b ∈ rest', b < 256 := by rw [← hr']; exact lt256_drop _ n hb
        split
        · next hlt =>
          split
          · next h0 =>
            have : rest' = [] := List.eq_nil_of_length_eq_zero h0
            rw [hU, this, U_nil]
          · next h0 =>
            have hne : rest' ≠ [] := fun h => h0 (by rw [h]; rfl)
            rw [ih (.tail _) rest' hb' ⟨by omega, by omega, head?_getD rest' hne⟩, hU]
        · next hlt =>
          have hne : rest' ≠ [] := fun h => hlt (by rw [h]; simp)
          rw [ih (.inner _) rest' hb' ⟨by omega, by omega, head?_getD rest' hne⟩, hU]
    | tail byte =>
      obtain ⟨hf, h4, hh⟩ := hm
      rcases rest with _ | ⟨b0, t⟩
      · simp at hh
      simp only [List.head?_cons, Option.some.injEq] at hh
      subst hh
      simp only [utf8BidiLoop]
      rw [tailStep_eq b0 _ hb]
      have hs := specTail_sound b0 t (by simp only [List.length_cons] at h4; omega)
      cases hst : specTail b0 (b0 :: t) with
      | ret b => rw [hst] at hs; simp only at hs ⊢; rw [hs]
      | cont n =>
        rw [hst] at hs; simp only at hs ⊢
        obtain ⟨h1, h2, hU⟩ := hs
        have hlen : ((b0 :: t).drop n).length = (b0 :: t).length - n := List.length_drop
        rw [ih .outer _ (lt256_drop _ n hb) (by simp only [modeOk]; omega), hU]

theorem isUtf8Bidi_eq (bs : List Nat) (hb : ∀ b ∈ bs, b < 256) : isUtf8Bidi bs = utf8Bidi bs :=
  utf8BidiLoop_eq _ .outer bs hb (Nat.le_refl _)



/-! ### `utf8Latin1` by sequence shape -/

def latin1Of : Option (List Nat) → Bool
  | none => false
  | some cs => allLatin1 cs

theorem utf8Latin1_def (l : List Nat) : utf8Latin1 l = latin1Of (decodeUtf8 l) := by
  unfold utf8Latin1 latin1Of; cases decodeUtf8 l <;> rfl

theorem L_nil : utf8Latin1 [] = true := rfl

theorem L_map_cons (c : Nat) (r : List Nat) :
    latin1Of ((decodeUtf8 r).map (c :: ·)) = (decide (c ≤ 0xFF) && utf8Latin1 r) := by
  rw [utf8Latin1_def]
  cases decodeUtf8 r with
  | none => simp [latin1Of]
  | some cs => simp [latin1Of, allLatin1]

theorem L_ascii (b0 : Nat) (r : List Nat) (h : b0 < 0x80) : utf8Latin1 (b0 :: r) = utf8Latin1 r := by
  rw [utf8Latin1_def, decode_ascii b0 r h, L_map_cons]
  have : decide (b0 ≤ 0xFF) = true := by simp; omega
  rw [this, Bool.true_and]

theorem L_two (b0 b1 : Nat) (r : List Nat) (h : 0xC2 ≤ b0 ∧ b0 ≤ 0xDF) :
    utf8Latin1 (b0 :: b1 :: r) = (isCont b1 && decide (cp2 b0 b1 ≤ 0xFF) && utf8Latin1 r) := by
  rw [utf8Latin1_def, decode_two b0 b1 r h]
  cases hc : isCont b1
  · simp [latin1Of]
  · simp only [if_true, L_map_cons]; simp

theorem L_of_none (l : List Nat) (h : decodeUtf8 l = none) : utf8Latin1 l = false := by
  unfold utf8Latin1; rw [h]

/-- a sequence whose lead byte is not ASCII, `C2` or `C3` is malformed or above U+00FF -/
theorem L_notlatin (b0 : Nat) (r : List Nat) (h80 : 0x80 ≤ b0) (hne : ¬ (b0 = 0xC2 ∨ b0 = 0xC3)) :
    utf8Latin1 (b0 :: r) = false := by
  have hcls : ((0x80 ≤ b0 ∧ b0 < 0xC2) ∨ 0xF5 ≤ b0) ∨ (0xC4 ≤ b0 ∧ b0 ≤ 0xDF)
      ∨ (0xE0 ≤ b0 ∧ b0 ≤ 0xEF) ∨ (0xF0 ≤ b0 ∧ b0 ≤ 0xF4) := by omega
  rcases hcls with h | h | h | h
  · exact L_of_none _ (decode_badlead _ _ h)
  · rcases r with _ | ⟨b1, r⟩
    · exact L_of_none _ (decode_short1 _ h80)
    · rw [L_two _ _ _ (by omega)]
      cases hc : isCont b1
      · simp
      · have : decide (cp2 b0 b1 ≤ 0xFF) = false := by
          rw [isCont_iff] at hc; unfold cp2; bool_omega
        rw [this]; simp
  · rcases r with _ | ⟨b1, _ | ⟨b2, r⟩⟩
    · exact L_of_none _ (decode_short1 _ h80)
    · exact L_of_none _ (decode_short2 _ _ (by omega))
    · rw [utf8Latin1_def, decode_three _ _ _ _ h]
      by_cases hc : second3Ok b0 b1 = true ∧ isCont b2 = true
      · rw [if_pos hc, L_map_cons]
        have : decide (cp3 b0 b1 b2 ≤ 0xFF) = false := by
          obtain ⟨h1, h2⟩ := hc
          rw [isCont_iff] at h2; rw [second3Ok_iff] at h1; unfold cp3; bool_omega
        rw [this]; simp
      · rw [if_neg hc]; rfl
  · rcases r with _ | ⟨b1, _ | ⟨b2, _ | ⟨b3, r⟩⟩⟩
    · exact L_of_none _ (decode_short1 _ h80)
    · exact L_of_none _ (decode_short2 _ _ (by omega))
    · exact L_of_none _ (decode_short3 _ _ _ (by omega))
    · rw [utf8Latin1_def, decode_four _ _ _ _ _ h]
      by_cases hc : second4Ok b0 b1 = true ∧ isCont b2 = true ∧ isCont b3 = true
      · rw [if_pos hc, L_map_cons]
        have : decide (cp4 b0 b1 b2 b3 ≤ 0xFF) = false := by
          obtain ⟨h1, h2, h3⟩ := hc
          rw [isCont_iff] at h2 h3; rw [second4Ok_iff] at h1; unfold cp4; bool_omega
        rw [this]; simp
      · rw [if_neg hc]; rfl

/-- the continuation test of `is_utf8_latin1_impl` -/
theorem and_c0_ne_80 (b : Nat) (h : b < 256) : ((b &&& 0xC0) != 0x80) = !isCont b := by
  rw [and_c0 b h]; unfold isCont; bool_omega

/-- a `C2`/`C3` sequence is Latin1 and not right-to-left -/
theorem latin1_two (b0 b1 : Nat) (h0 : b0 = 0xC2 ∨ b0 = 0xC3) (h1 : isCont b1 = true) :
    decide (cp2 b0 b1 ≤ 0xFF) = true ∧ seq2Bidi b0 b1 = false := by
  have hr := rtl_two_lo b0 b1 (by omega) h1
  unfold seq2Bidi
  rw [hr, h1]
  rw [isCont_iff] at h1
  refine ⟨?_, rfl⟩
  unfold cp2; bool_omega



/-- both specification quantities at once (they ignore leading ASCII) -/
def LU (l : List Nat) : Bool × Bool := (utf8Latin1 l, utf8Bidi l)

theorem LU_ascii (b : Nat) (r : List Nat) (h : b < 0x80) : LU (b :: r) = LU r := by
  unfold LU; rw [L_ascii b r h, U_ascii b r h]

set_option maxRecDepth 10000 in
/-- `is_utf8_latin1_impl`: `None` iff well-formed and all Latin1; otherwise the
returned offset is a point up to which the input is well-formed Latin1 (so the
bidi status of the rest is the bidi status of the whole). -/
theorem isUtf8Latin1Loop_spec : ∀ (fuel total : Nat) (bytes : List Nat), (∀ b ∈ bytes, b < 256) →
    bytes.length + 1 ≤ fuel →
    match isUtf8Latin1Loop fuel total bytes with
    | none => utf8Latin1 bytes = true
    | some off => utf8Latin1 bytes = false ∧ total ≤ off ∧ off - total ≤ bytes.length ∧
        utf8Bidi (bytes.drop (off - total)) = utf8Bidi bytes := by
  intro fuel
  induction fuel with
  | zero => intro total bytes _ h; omega
  | succ fuel ih =>
    intro total bytes hb hf
    simp only [isUtf8Latin1Loop]
    rw [validateAscii_eq]
    have hs := scan_inv LU LU_ascii bytes 0
    cases hsc : scanNonAscii 0 bytes with
    | none =>
      rw [hsc] at hs; simp only at hs ⊢
      have : utf8Latin1 bytes = utf8Latin1 [] := congrArg Prod.fst hs
      rw [this]; rfl
    | some bp =>
      obtain ⟨b, p⟩ := bp
      rw [hsc] at hs
      dsimp only
      have hs2 : ∃ r, 0 ≤ p ∧ p - 0 < bytes.length ∧ bytes.drop (p - 0) = b :: r ∧ 0x80 ≤ b ∧ LU bytes = LU (b :: r) := hs
      obtain ⟨r, _, hp, hdrop, hb80, hLU⟩ := hs2
      rw [Nat.sub_zero] at hp hdrop
      have hL : utf8Latin1 bytes = utf8Latin1 (b :: r) := congrArg Prod.fst hLU
      have hU : utf8Bidi bytes = utf8Bidi (b :: r) := congrArg Prod.snd hLU
      have hlen : (bytes.drop p).length = bytes.length - p := List.length_drop
      have hb256 : b < 256 := by
        have : b ∈ bytes.drop p := by rw [hdrop]; simp
        exact hb b (List.mem_of_mem_drop this)
      rw [inInclusiveRange8_eq b _ _ hb256 (by decide) (by decide)]
      have hstop : utf8Latin1 bytes = false → (utf8Latin1 bytes = false ∧ total ≤ total + p ∧ total + p - total ≤ bytes.length ∧
          utf8Bidi (bytes.drop (total + p - total)) = utf8Bidi bytes) := by
        intro h
        refine ⟨h, by omega, by omega, ?_⟩
        rw [show total + p - total = p by omega, hdrop, hU]
      by_cases hc : 0xC2 ≤ b ∧ b ≤ 0xC3
      · rw [if_pos (by simpa using hc)]
        rcases r with _ | ⟨b1, r'⟩
        · -- lead byte is the last byte
          have : (p + 1 == bytes.length) = true := by
            rw [hdrop] at hlen; simp only [List.length_cons, List.length_nil] at hlen
            simp; omega
          rw [if_pos this]
          apply hstop
          rw [hL]; exact L_of_none _ (decode_short1 _ hb80)
        · have hlen' : bytes.length - p = r'.length + 2 := by
            rw [hdrop] at hlen; simp only [List.length_cons] at hlen; omega
          have : ¬ (p + 1 == bytes.length) = true := by simp; omega
          rw [if_neg this]
          have hg : bytes.getD (p + 1) 0 = b1 := by
            have := congrArg (fun l => l.getD 1 0) hdrop
            simp only [List.getD_cons_succ, List.getD_cons_zero] at this
            rw [← this, List.getD_eq_getElem?_getD, List.getD_eq_getElem?_getD, List.getElem?_drop]
          rw [hg]
          have hb1 : b1 < 256 := by
            have : b1 ∈ bytes.drop p := by rw [hdrop]; simp
            exact hb b1 (List.mem_of_mem_drop this)
          rw [and_c0_ne_80 b1 hb1]
          cases hcont : isCont b1
          · simp only [Bool.not_false, if_true]
            apply hstop
            rw [hL, L_two _ _ _ (by omega), hcont]; simp
          · simp only [Bool.not_true, Bool.false_eq_true, if_false]
            have hdrop2 : bytes.drop (p + 2) = r' := by
              have := congrArg (fun l => l.drop 2) hdrop
              simp only [List.drop_drop, List.drop_succ_cons, List.drop_zero] at this
              exact this.symm ▸ (by first | rfl | (congr 1; omega))
            have hl2 := latin1_two b b1 (by omega) hcont
            have hL2 : utf8Latin1 bytes = utf8Latin1 r' := by
              rw [hL, L_two _ _ _ (by omega), hcont, hl2.1]; simp
            have hU2 : utf8Bidi bytes = utf8Bidi r' := by
              rw [hU, U_two _ _ _ (by omega), hl2.2]; simp
            have hih := ih (total + p + 2) (bytes.drop (p + 2)) (lt256_drop _ _ hb)
              (by rw [hdrop2]; omega)
            rw [hdrop2] at hih
            rw [hdrop2]
            cases hres : isUtf8Latin1Loop fuel (total + p + 2) r' with
            | none => rw [hres] at hih; simp only at hih ⊢; rw [hL2]; exact hih
            | some off =>
              rw [hres] at hih; simp only at hih ⊢
              obtain ⟨h1, h2, h3, h4⟩ := hih
              refine ⟨by rw [hL2]; exact h1, by omega, by omega, ?_⟩
              rw [hU2, ← h4, ← hdrop2, List.drop_drop]
              congr 2; omega
      · rw [if_neg (by simpa using hc)]
        apply hstop
        rw [hL]; exact L_notlatin b r hb80 (by omega)

theorem isUtf8Latin1_eq (bs : List Nat) (hb : ∀ b ∈ bs, b < 256) : isUtf8Latin1 bs = utf8Latin1 bs := by
  have := isUtf8Latin1Loop_spec (bs.length + 1) 0 bs hb (Nat.le_refl _)
  unfold isUtf8Latin1 isUtf8Latin1Impl
  cases h : isUtf8Latin1Loop (bs.length + 1) 0 bs with
  | none => rw [h] at this; simp only at this; rw [this]; rfl
  | some off => rw [h] at this; simp only at this; rw [this.1]; rfl

theorem checkUtf8_eq (bs : List Nat) (hb : ∀ b ∈ bs, b < 256) :
    toSpec (checkUtf8 bs) = combine (utf8Latin1 bs) (utf8Bidi bs) := by
  have := isUtf8Latin1Loop_spec (bs.length + 1) 0 bs hb (Nat.le_refl _)
  unfold checkUtf8 isUtf8Latin1Impl
  cases h : isUtf8Latin1Loop (bs.length + 1) 0 bs with
  | none => rw [h] at this; simp only at this ⊢; rw [this]; rfl
  | some off =>
    rw [h] at this; simp only at this ⊢
    obtain ⟨h1, _, _, h4⟩ := this
    rw [Nat.sub_zero] at h4
    rw [isUtf8Bidi_eq _ (lt256_drop bs off hb), h4, h1]
    unfold combine
    cases utf8Bidi bs <;> rfl



/-! ### well-formedness by sequence shape (for the `&str` functions) -/

theorem V_ascii (b0 : Nat) (r : List Nat) (h : b0 < 0x80) : validUtf8 (b0 :: r) = validUtf8 r := by
  unfold validUtf8; rw [decode_ascii b0 r h]; cases decodeUtf8 r <;> rfl

theorem V_of_none (l : List Nat) (h : decodeUtf8 l = none) : validUtf8 l = false := by
  unfold validUtf8; rw [h]; rfl

/-- the head of a well-formed string that does not start with ASCII -/
theorem valid_head (b0 : Nat) (t : List Nat) (hV : validUtf8 (b0 :: t) = true) (h80 : 0x80 ≤ b0) :
    (0xC2 ≤ b0 ∧ b0 ≤ 0xDF ∧ ∃ b1 r, t = b1 :: r ∧ isCont b1 = true ∧ validUtf8 r = true) ∨
    (0xE0 ≤ b0 ∧ b0 ≤ 0xEF ∧ ∃ b1 b2 r, t = b1 :: b2 :: r ∧ second3Ok b0 b1 = true ∧ isCont b2 = true
        ∧ validUtf8 r = true) ∨
    (0xF0 ≤ b0 ∧ b0 ≤ 0xF4 ∧ ∃ b1 b2 b3 r, t = b1 :: b2 :: b3 :: r ∧ second4Ok b0 b1 = true ∧ isCont b2 = true
        ∧ isCont b3 = true ∧ validUtf8 r = true) := by
  have hcls : ((0x80 ≤ b0 ∧ b0 < 0xC2) ∨ 0xF5 ≤ b0) ∨ (0xC2 ≤ b0 ∧ b0 ≤ 0xDF)
      ∨ (0xE0 ≤ b0 ∧ b0 ≤ 0xEF) ∨ (0xF0 ≤ b0 ∧ b0 ≤ 0xF4) := by omega
  rcases hcls with h | h | h | h
  · rw [V_of_none _ (decode_badlead _ _ h)] at hV; cases hV
  · left
    refine ⟨h.1, h.2, ?_⟩
    rcases t with _ | ⟨b1, r⟩
    · rw [V_of_none _ (decode_short1 _ h80)] at hV; cases hV
    · refine ⟨b1, r, rfl, ?_⟩
      unfold validUtf8 at hV ⊢
      rw [decode_two _ _ _ h] at hV
      cases hc : isCont b1
      · rw [hc] at hV; simp at hV
      · rw [hc] at hV; simp only [if_true] at hV
        refine ⟨rfl, ?_⟩
        cases hd : decodeUtf8 r
        · rw [hd] at hV; simp at hV
        · rfl
  · right; left
    refine ⟨h.1, h.2, ?_⟩
    rcases t with _ | ⟨b1, _ | ⟨b2, r⟩⟩
    · rw [V_of_none _ (decode_short1 _ h80)] at hV; cases hV
    · rw [V_of_none _ (decode_short2 _ _ (by omega))] at hV; cases hV
    · refine ⟨b1, b2, r, rfl, ?_⟩
      unfold validUtf8 at hV ⊢
      rw [decode_three _ _ _ _ h] at hV
      by_cases hc : second3Ok b0 b1 = true ∧ isCont b2 = true
      · rw [if_pos hc] at hV
        refine ⟨hc.1, hc.2, ?_⟩
        cases hd : decodeUtf8 r
        · rw [hd] at hV; simp at hV
        · rfl
      · rw [if_neg hc] at hV; simp at hV
  · right; right
    refine ⟨h.1, h.2, ?_⟩
    rcases t with _ | ⟨b1, _ | ⟨b2, _ | ⟨b3, r⟩⟩⟩
    · rw [V_of_none _ (decode_short1 _ h80)] at hV; cases hV
    · rw [V_of_none _ (decode_short2 _ _ (by omega))] at hV; cases hV
    · rw [V_of_none _ (decode_short3 _ _ _ (by omega))] at hV; cases hV
    · refine ⟨b1, b2, b3, r, rfl, ?_⟩
      unfold validUtf8 at hV ⊢
      rw [decode_four _ _ _ _ _ h] at hV
      by_cases hc : second4Ok b0 b1 = true ∧ isCont b2 = true ∧ isCont b3 = true
      · rw [if_pos hc] at hV
        refine ⟨hc.1, hc.2.1, hc.2.2, ?_⟩
        cases hd : decodeUtf8 r
        · rw [hd] at hV; simp at hV
        · rfl
      · rw [if_neg hc] at hV; simp at hV

/-! ### `is_str_bidi`: one iteration of `'inner` in closed form per sequence length -/

theorem strStep_ascii (b0 : Nat) (rest : List Nat) (h : b0 < 0x80) : strStep b0 rest = .ascii := by
  unfold strStep; ifs

theorem strStep_two (b0 b1 : Nat) (r : List Nat) (h : 0xC2 ≤ b0 ∧ b0 ≤ 0xDF) :
    strStep b0 (b0 :: b1 :: r) =
      if b0 ≥ 0xD6 then (if b0 = 0xD6 then (if b1 > 0x8F then .ret true else .adv 2) else .ret true)
      else .adv 2 := by
  unfold strStep idx
  rw [if_pos (by omega), if_pos (by omega)]
  simp only [List.getElem?_cons_succ, List.getElem?_cons_zero]

theorem strNormal3 (b0 : Nat) (h : b0 < 256) :
    (!inInclusiveRange8 b0 0xE3 0xEE && b0 != 0xE1) = decide (¬ (0xE3 ≤ b0 ∧ b0 ≤ 0xEE) ∧ b0 ≠ 0xE1) := by
  rw [inInclusiveRange8_eq b0 _ _ h (by decide) (by decide)]
  bool_omega

theorem strStep_three (b0 b1 b2 : Nat) (r : List Nat) (h : 0xE0 ≤ b0 ∧ b0 ≤ 0xEF) :
    strStep b0 (b0 :: b1 :: b2 :: r) =
      if b0 = 0xE0 then (if b1 < 0xA4 then .ret true else .adv 3)
      else if b0 = 0xE2 then (if e2Bidi b1 b2 then .ret true else .adv 3)
      else if b0 = 0xEF then (if efBidi b1 b2 then .ret true else .adv 3)
      else .adv 3 := by
  unfold strStep idx
  rw [if_neg (by omega), if_pos (by omega), strNormal3 b0 (by omega)]
  simp only [List.getElem?_cons_succ, List.getElem?_cons_zero, decide_eq_true_eq]
  have hcls : b0 = 0xE0 ∨ b0 = 0xE2 ∨ b0 = 0xEF ∨ (b0 = 0xE1 ∨ (0xE3 ≤ b0 ∧ b0 ≤ 0xEE)) := by omega
  rcases hcls with h' | h' | h' | h'
  · subst h'; simp
  · subst h'; simp
  · subst h'; ifs
    unfold efBidi
    repeat' split
    all_goals first | (simp_all; done) | (simp_all; omega) | omega
  · ifs

theorem strStep_four (b0 b1 b2 b3 : Nat) (r : List Nat) (h : 0xF0 ≤ b0) :
    strStep b0 (b0 :: b1 :: b2 :: b3 :: r) =
      if b0 = 0xF0 ∧ (b1 = 0x90 ∨ b1 = 0x9E) then (if b2 ≥ 0xA0 then .ret true else .adv 4) else .adv 4 := by
  unfold strStep idx
  rw [if_neg (by omega), if_neg (by omega)]
  simp only [List.getElem?_cons_succ, List.getElem?_cons_zero]



theorem seq2_valid (b0 b1 : Nat) (h : isCont b1 = true) : seq2Bidi b0 b1 = isRtlScalar (cp2 b0 b1) := by
  unfold seq2Bidi; rw [h]; simp
theorem seq3_valid (b0 b1 b2 : Nat) (h1 : second3Ok b0 b1 = true) (h2 : isCont b2 = true) :
    seq3Bidi b0 b1 b2 = isRtlScalar (cp3 b0 b1 b2) := by
  unfold seq3Bidi; rw [h1, h2]; simp
theorem seq4_valid (b0 b1 b2 b3 : Nat) (h1 : second4Ok b0 b1 = true) (h2 : isCont b2 = true) (h3 : isCont b3 = true) :
    seq4Bidi b0 b1 b2 b3 = isRtlScalar (cp4 b0 b1 b2 b3) := by
  unfold seq4Bidi; rw [h1, h2, h3]; simp

/-- one iteration of `'inner` of `is_str_bidi` on a well-formed string: never panics,
returns `true` only for a right-to-left scalar, otherwise skips exactly one scalar that is
not right-to-left -/
theorem strStep_sound (b0 : Nat) (t : List Nat) (hV : validUtf8 (b0 :: t) = true) :
    match strStep b0 (b0 :: t) with
    | .ret b => b = true ∧ utf8Bidi (b0 :: t) = true
    | .ascii => b0 < 0x80
    | .adv n => 2 ≤ n ∧ n ≤ (b0 :: t).length ∧ validUtf8 ((b0 :: t).drop n) = true ∧
        utf8Bidi (b0 :: t) = utf8Bidi ((b0 :: t).drop n)
    | .panic => False := by
  by_cases ha : b0 < 0x80
  · rw [strStep_ascii _ _ ha]; exact ha
  · rcases valid_head b0 t hV (by omega) with ⟨h1, h2, b1, r, rfl, hc1, hVr⟩ | ⟨h1, h2, b1, b2, r, rfl, hs, hc2, hVr⟩
        | ⟨h1, h2, b1, b2, b3, r, rfl, hs, hc2, hc3, hVr⟩
    · rw [strStep_two _ _ _ ⟨h1, h2⟩, U_two _ _ _ ⟨h1, h2⟩, seq2_valid _ _ hc1]
      have hcls : (0xC2 ≤ b0 ∧ b0 ≤ 0xD5) ∨ b0 = 0xD6 ∨ (0xD7 ≤ b0 ∧ b0 ≤ 0xDF) := by omega
      rcases hcls with h | h | h
      · rw [if_neg (by omega), rtl_two_lo _ _ h hc1]
        exact ⟨by omega, by simp, hVr, by simp⟩
      · subst h
        rw [if_pos (by omega), if_pos rfl, rtl_two_d6 _ hc1]
        by_cases h8 : b1 > 0x8F
        · rw [if_pos h8, decide_eq_true h8]; exact ⟨rfl, by simp⟩
        · rw [if_neg h8, decide_eq_false h8]; exact ⟨by omega, by simp, hVr, by simp⟩
      · rw [if_pos (by omega), if_neg (by omega), rtl_two_hi _ _ h hc1]
        exact ⟨rfl, by simp⟩
    · rw [strStep_three _ _ _ _ ⟨h1, h2⟩, U_three _ _ _ _ ⟨h1, h2⟩, seq3_valid _ _ _ hs hc2]
      have hcls : b0 = 0xE0 ∨ b0 = 0xE2 ∨ b0 = 0xEF ∨ b0 = 0xED ∨ (b0 = 0xE1 ∨ (0xE3 ≤ b0 ∧ b0 ≤ 0xEC) ∨ b0 = 0xEE) := by omega
      rcases hcls with h | h | h | h | h
      · subst h
        rw [if_pos rfl, rtl_three_e0 _ _ hs hc2]
        by_cases h8 : b1 < 0xA4
        · rw [if_pos h8, decide_eq_true h8]; exact ⟨rfl, by simp⟩
        · rw [if_neg h8, decide_eq_false h8]; exact ⟨by omega, by simp, hVr, by simp⟩
      · subst h
        rw [if_neg (by omega), if_pos rfl, rtl_three_e2 _ _ hs hc2]
        cases e2Bidi b1 b2
        · exact ⟨by omega, by simp, hVr, by simp⟩
        · exact ⟨rfl, by simp⟩
      · subst h
        rw [if_neg (by omega), if_neg (by omega), if_pos rfl, rtl_three_ef _ _ hs hc2]
        cases efBidi b1 b2
        · exact ⟨by omega, by simp, hVr, by simp⟩
        · exact ⟨rfl, by simp⟩
      · subst h
        rw [if_neg (by omega), if_neg (by omega), if_neg (by omega), rtl_three_ed _ _ hs hc2]
        exact ⟨by omega, by simp, hVr, by simp⟩
      · rw [if_neg (by omega), if_neg (by omega), if_neg (by omega), rtl_three_normal _ _ _ h hs hc2]
        exact ⟨by omega, by simp, hVr, by simp⟩
    · rw [strStep_four _ _ _ _ _ (by omega), U_four _ _ _ _ _ ⟨h1, h2⟩, seq4_valid _ _ _ _ hs hc2 hc3]
      have hcls : b0 = 0xF0 ∨ (0xF1 ≤ b0 ∧ b0 ≤ 0xF4) := by omega
      rcases hcls with h | h
      · subst h
        rw [rtl_four_f0 _ _ _ hs hc2 hc3]
        by_cases hq : b1 = 0x90 ∨ b1 = 0x9E
        · rw [if_pos ⟨rfl, hq⟩]
          have : (b1 == 0x90 || b1 == 0x9E) = true := by bool_omega
          rw [this, Bool.true_and]
          by_cases h8 : b2 ≥ 0xA0
          · rw [if_pos h8, decide_eq_true h8]; exact ⟨rfl, by simp⟩
          · rw [if_neg h8, decide_eq_false h8]; exact ⟨by omega, by simp, hVr, by simp⟩
        · rw [if_neg (fun hh => hq hh.2)]
          have : (b1 == 0x90 || b1 == 0x9E) = false := by bool_omega
          rw [this, Bool.false_and]
          exact ⟨by omega, by simp, hVr, by simp⟩
      · rw [if_neg (by omega), rtl_four_normal _ _ _ _ h hs hc2 hc3]
        exact ⟨by omega, by simp, hVr, by simp⟩

/-- both quantities the `&str` loops depend on (they ignore leading ASCII) -/
def VLU (l : List Nat) : Bool × Bool × Bool := (validUtf8 l, utf8Latin1 l, utf8Bidi l)

theorem VLU_ascii (b : Nat) (r : List Nat) (h : b < 0x80) : VLU (b :: r) = VLU r := by
  unfold VLU; rw [V_ascii b r h, L_ascii b r h, U_ascii b r h]

set_option maxRecDepth 10000 in
theorem strBidiLoop_eq : ∀ (fuel : Nat) (inner : Option Nat) (rest : List Nat), validUtf8 rest = true →
    (match inner with
     | none => 2 * rest.length + 2 ≤ fuel
     | some byte => 2 * rest.length + 1 ≤ fuel ∧ rest.head? = some byte) →
    strBidiLoop fuel inner rest = some (utf8Bidi rest) := by
  intro fuel
  induction fuel with
  | zero =>
    intro inner rest _ hm
    cases inner <;> simp only at hm <;> omega
  | succ fuel ih =>
    intro inner rest hV hm
    cases inner with
    | none =>
      simp only at hm
      simp only [strBidiLoop]
      rw [validateAscii_eq]
      have hs := scan_inv VLU VLU_ascii rest 0
      cases hsc : scanNonAscii 0 rest with
      | none =>
        rw [hsc] at hs
        have : utf8Bidi rest = utf8Bidi [] := congrArg (fun x => x.2.2) hs
        simp only; rw [this, U_nil]
      | some bp =>
        obtain ⟨b, p⟩ := bp
        rw [hsc] at hs
        have hs2 : ∃ r, 0 ≤ p ∧ p - 0 < rest.length ∧ rest.drop (p - 0) = b :: r ∧ 0x80 ≤ b ∧ VLU rest = VLU (b :: r) := hs
        obtain ⟨r, _, hp, hdrop, hb80, hVLU⟩ := hs2
        rw [Nat.sub_zero] at hp hdrop
        have hV' : validUtf8 rest = validUtf8 (b :: r) := congrArg (fun x => x.1) hVLU
        have hU : utf8Bidi rest = utf8Bidi (b :: r) := congrArg (fun x => x.2.2) hVLU
        have hlen : (rest.drop p).length = rest.length - p := List.length_drop
        simp only
        rw [ih (some b) (rest.drop p) (by rw [hdrop, ← hV']; exact hV) ⟨by omega, by rw [hdrop]; rfl⟩, hdrop, hU]
    | some byte =>
      obtain ⟨hf, hh⟩ := hm
      rcases rest with _ | ⟨b0, t⟩
      · simp at hh
      simp only [List.head?_cons, Option.some.injEq] at hh
      subst hh
      simp only [strBidiLoop]
      have hs := strStep_sound b0 t hV
      cases hst : strStep b0 (b0 :: t) with
      | ret b => rw [hst] at hs; simp only at hs ⊢; rw [hs.1, hs.2]
      | panic => rw [hst] at hs; exact absurd hs id
      | ascii =>
        rw [hst] at hs; simp only at hs ⊢
        simp only [List.drop_succ_cons, List.drop_zero]
        rw [ih none t (by rw [← V_ascii b0 t hs]; exact hV) (by simp only [List.length_cons] at hf ⊢; omega), U_ascii _ _ hs]
      | adv n =>
        rw [hst] at hs; simp only at hs ⊢
        obtain ⟨h2, hn, hV', hU⟩ := hs
        have hlen : ((b0 :: t).drop n).length = (b0 :: t).length - n := List.length_drop
        split
        · next hge =>
          have : (b0 :: t).drop n = [] := List.drop_eq_nil_of_le hge
          rw [hU, this, U_nil]
        · next hge =>
          have hne : (b0 :: t).drop n ≠ [] := by
            intro h; rw [h] at hlen; simp only [List.length_nil] at hlen; omega
          rw [ih (some _) _ hV' ⟨by omega, head?_getD _ hne⟩, hU]

theorem isStrBidi_eq (bs : List Nat) (hV : validUtf8 bs = true) : isStrBidi bs = some (utf8Bidi bs) :=
  strBidiLoop_eq _ none bs hV (Nat.le_refl _)



set_option maxRecDepth 10000 in
/-- `is_str_latin1_impl` on a well-formed string: never panics; `None` iff all Latin1;
otherwise the returned offset is a scalar boundary before which everything is Latin1. -/
theorem isStrLatin1Loop_spec : ∀ (fuel total : Nat) (bytes : List Nat), validUtf8 bytes = true →
    bytes.length + 1 ≤ fuel →
    match isStrLatin1Loop fuel total bytes with
    | none => False
    | some none => utf8Latin1 bytes = true
    | some (some off) => utf8Latin1 bytes = false ∧ total ≤ off ∧ off - total ≤ bytes.length ∧
        validUtf8 (bytes.drop (off - total)) = true ∧
        utf8Bidi (bytes.drop (off - total)) = utf8Bidi bytes := by
  intro fuel
  induction fuel with
  | zero => intro total bytes _ h; omega
  | succ fuel ih =>
    intro total bytes hV hf
    simp only [isStrLatin1Loop]
    rw [validateAscii_eq]
    have hs := scan_inv VLU VLU_ascii bytes 0
    cases hsc : scanNonAscii 0 bytes with
    | none =>
      rw [hsc] at hs
      have : utf8Latin1 bytes = utf8Latin1 [] := congrArg (fun x => x.2.1) hs
      simp only; rw [this]; rfl
    | some bp =>
      obtain ⟨b, p⟩ := bp
      rw [hsc] at hs
      have hs2 : ∃ r, 0 ≤ p ∧ p - 0 < bytes.length ∧ bytes.drop (p - 0) = b :: r ∧ 0x80 ≤ b ∧ VLU bytes = VLU (b :: r) := hs
      obtain ⟨r, _, hp, hdrop, hb80, hVLU⟩ := hs2
      rw [Nat.sub_zero] at hp hdrop
      have hV' : validUtf8 bytes = validUtf8 (b :: r) := congrArg (fun x => x.1) hVLU
      have hL : utf8Latin1 bytes = utf8Latin1 (b :: r) := congrArg (fun x => x.2.1) hVLU
      have hU : utf8Bidi bytes = utf8Bidi (b :: r) := congrArg (fun x => x.2.2) hVLU
      have hlen : (bytes.drop p).length = bytes.length - p := List.length_drop
      have hVbr : validUtf8 (b :: r) = true := by rw [← hV']; exact hV
      dsimp only
      by_cases hc : b > 0xC3
      · rw [if_pos hc]
        refine ⟨?_, by omega, by omega, ?_, ?_⟩
        · rw [hL]; exact L_notlatin b r hb80 (by omega)
        · rw [show total + p - total = p by omega, hdrop]; exact hVbr
        · rw [show total + p - total = p by omega, hdrop, hU]
      · rw [if_neg hc]
        rcases valid_head b r hVbr hb80 with ⟨h1, h2, b1, r', rfl, hc1, hVr⟩ | ⟨h1, _⟩ | ⟨h1, _⟩
        · have hlen' : bytes.length - p = r'.length + 2 := by
            rw [hdrop] at hlen; simp only [List.length_cons] at hlen; omega
          rw [if_pos (by omega)]
          have hdrop2 : bytes.drop (p + 2) = r' := by
            have := congrArg (fun l => l.drop 2) hdrop
            simp only [List.drop_drop, List.drop_succ_cons, List.drop_zero] at this
            exact this.symm ▸ (by first | rfl | (congr 1; omega))
          have hl2 := latin1_two b b1 (by omega) hc1
          have hL2 : utf8Latin1 bytes = utf8Latin1 r' := by
            rw [hL, L_two _ _ _ (by omega), hc1, hl2.1]; simp
          have hU2 : utf8Bidi bytes = utf8Bidi r' := by
            rw [hU, U_two _ _ _ (by omega), hl2.2]; simp
          have hih := ih (total + p + 2) (bytes.drop (p + 2)) (by rw [hdrop2]; exact hVr)
            (by rw [hdrop2]; omega)
          rw [hdrop2] at hih
          rw [hdrop2]
          cases hres : isStrLatin1Loop fuel (total + p + 2) r' with
          | none => rw [hres] at hih; exact hih
          | some o =>
            cases o with
            | none => rw [hres] at hih; simp only at hih ⊢; rw [hL2]; exact hih
            | some off =>
              rw [hres] at hih; simp only at hih ⊢
              obtain ⟨h1', h2', h3', h4', h5'⟩ := hih
              have hd : bytes.drop (off - total) = r'.drop (off - (total + p + 2)) := by
                rw [← hdrop2, List.drop_drop]; congr 1; omega
              refine ⟨by rw [hL2]; exact h1', by omega, by omega, ?_, ?_⟩
              · rw [hd]; exact h4'
              · rw [hd, h5', hU2]
        · omega
        · omega

theorem isStrLatin1_eq (bs : List Nat) (hV : validUtf8 bs = true) : isStrLatin1 bs = some (utf8Latin1 bs) := by
  have := isStrLatin1Loop_spec (bs.length + 1) 0 bs hV (Nat.le_refl _)
  unfold isStrLatin1 isStrLatin1Impl
  cases h : isStrLatin1Loop (bs.length + 1) 0 bs with
  | none => rw [h] at this; exact absurd this id
  | some o =>
    cases o with
    | none => rw [h] at this; simp only at this; rw [this]; rfl
    | some off => rw [h] at this; simp only at this; rw [this.1]; rfl

theorem checkStr_eq (bs : List Nat) (hV : validUtf8 bs = true) :
    (checkStr bs).map toSpec = some (combine (utf8Latin1 bs) (utf8Bidi bs)) := by
  have := isStrLatin1Loop_spec (bs.length + 1) 0 bs hV (Nat.le_refl _)
  unfold checkStr isStrLatin1Impl
  cases h : isStrLatin1Loop (bs.length + 1) 0 bs with
  | none => rw [h] at this; exact absurd this id
  | some o =>
    cases o with
    | none => rw [h] at this; simp only at this ⊢; rw [this]; rfl
    | some off =>
      rw [h] at this; simp only at this ⊢
      obtain ⟨h1, _, _, h4, h5⟩ := this
      rw [Nat.sub_zero] at h4 h5
      rw [isStrBidi_eq _ h4, h5, h1]
      unfold combine
      cases utf8Bidi bs <;> rfl



/-! ### the decoder of the specification inverts the UTF-8 encoding form (sanity of the spec) -/

theorem decode_encodeScalar_append (c : Nat) (rest : List Nat) (hc : isScalar c = true) :
    decodeUtf8 (encodeScalar c ++ rest) = (decodeUtf8 rest).map (c :: ·) := by
  have hs : c < 0xD800 ∨ (0xE000 ≤ c ∧ c < 0x110000) := by unfold isScalar at hc; bool_omega
  unfold encodeScalar
  by_cases h1 : c < 0x80
  · rw [if_pos h1]; exact decode_ascii c rest h1
  · rw [if_neg h1]
    by_cases h2 : c < 0x800
    · rw [if_pos h2]
      simp only [List.cons_append, List.nil_append]
      rw [decode_two _ _ _ (by omega)]
      have : isCont (0x80 + c % 0x40) = true := by rw [isCont_iff]; omega
      rw [if_pos this]
      have : cp2 (0xC0 + c / 0x40) (0x80 + c % 0x40) = c := by unfold cp2; omega
      rw [this]
    · rw [if_neg h2]
      by_cases h3 : c < 0x10000
      · rw [if_pos h3]
        simp only [List.cons_append, List.nil_append]
        rw [decode_three _ _ _ _ (by omega)]
        have hc2 : isCont (0x80 + c % 0x40) = true := by rw [isCont_iff]; omega
        have hs3 : second3Ok (0xE0 + c / 0x1000) (0x80 + c / 0x40 % 0x40) = true := by
          rw [second3Ok_iff]; omega
        rw [if_pos ⟨hs3, hc2⟩]
        have : cp3 (0xE0 + c / 0x1000) (0x80 + c / 0x40 % 0x40) (0x80 + c % 0x40) = c := by unfold cp3; omega
        rw [this]
      · rw [if_neg h3]
        simp only [List.cons_append, List.nil_append]
        rw [decode_four _ _ _ _ _ (by omega)]
        have hc3 : isCont (0x80 + c % 0x40) = true := by rw [isCont_iff]; omega
        have hc2 : isCont (0x80 + c / 0x40 % 0x40) = true := by rw [isCont_iff]; omega
        have hs4 : second4Ok (0xF0 + c / 0x40000) (0x80 + c / 0x1000 % 0x40) = true := by
          rw [second4Ok_iff]; omega
        rw [if_pos ⟨hs4, hc2, hc3⟩]
        have : cp4 (0xF0 + c / 0x40000) (0x80 + c / 0x1000 % 0x40) (0x80 + c / 0x40 % 0x40) (0x80 + c % 0x40) = c := by
          unfold cp4; omega
        rw [this]

theorem decode_encode (cs : List Nat) (h : ∀ c ∈ cs, isScalar c = true) : decodeUtf8 (encodeUtf8 cs) = some cs := by
  induction cs with
  | nil => rfl
  | cons c cs ih =>
    unfold encodeUtf8 at ih ⊢
    rw [List.flatMap_cons, decode_encodeScalar_append c _ (h c List.mem_cons_self),
      ih (fun x hx => h x (List.mem_cons_of_mem _ hx))]
    rfl


end EncodingRs.Lemmas.Bidi
