def hello := "world"
