/-!
# Reference conversions between UTF-8, UTF-16 and Latin1 (specification side of C15)

Import-free. Everything is over `Nat` (bytes, UTF-16 code units, code points)
and `List`.

* Unicode scalar values (D76), UTF-8 (D92, Table 3-6) and UTF-16 (D91) encoding
  forms of one scalar value;
* lossy UTF-16 decoding: every unpaired surrogate becomes U+FFFD (what
  `char::decode_utf16(..).map(|r| r.unwrap_or('\u{FFFD}'))` computes, and what
  WebIDL's "convert to scalar value string" does);
* lossy UTF-8 decoding with one U+FFFD per *maximal subpart of an ill-formed
  subsequence* (Unicode ch. 3 "U+FFFD Substitution of Maximal Subparts",
  Table 3-7 of well-formed byte sequences; this is the WHATWG UTF-8 decoder's
  behaviour and `String::from_utf8_lossy`'s);
* Latin1 (ISO-8859-1 as "byte value = code point").
-/
namespace EncodingRs.Spec.Conv

/-! ## scalar values -/

def isHighSurrogate (u : Nat) : Bool := 0xD800 ≤ u && u ≤ 0xDBFF
def isLowSurrogate (u : Nat) : Bool := 0xDC00 ≤ u && u ≤ 0xDFFF
def isSurrogate (u : Nat) : Bool := 0xD800 ≤ u && u ≤ 0xDFFF

/-- D76: any code point except the surrogates -/
def isScalar (c : Nat) : Bool := c ≤ 0x10FFFF && !isSurrogate c

def replacement : Nat := 0xFFFD

/-! ## encoding forms of one scalar value -/

/-- UTF-8 (Table 3-6) -/
def utf8Encode (c : Nat) : List Nat :=
  if c < 0x80 then [c]
  else if c < 0x800 then [0xC0 + c / 64, 0x80 + c % 64]
  else if c < 0x10000 then [0xE0 + c / 4096, 0x80 + c / 64 % 64, 0x80 + c % 64]
  else [0xF0 + c / 262144, 0x80 + c / 4096 % 64, 0x80 + c / 64 % 64, 0x80 + c % 64]

/-- length of the UTF-8 form -/
def utf8Len (c : Nat) : Nat :=
  if c < 0x80 then 1 else if c < 0x800 then 2 else if c < 0x10000 then 3 else 4

/-- UTF-16 (D91) -/
def utf16Encode (c : Nat) : List Nat :=
  if c < 0x10000 then [c]
  else [0xD800 + (c - 0x10000) / 1024, 0xDC00 + (c - 0x10000) % 1024]

def utf8EncodeAll : List Nat → List Nat
  | [] => []
  | c :: cs => utf8Encode c ++ utf8EncodeAll cs

def utf16EncodeAll : List Nat → List Nat
  | [] => []
  | c :: cs => utf16Encode c ++ utf16EncodeAll cs

/-! ## lossy UTF-16 decoding -/

/-- the scalar value of a surrogate pair -/
def pairValue (hi lo : Nat) : Nat := 0x10000 + (hi - 0xD800) * 1024 + (lo - 0xDC00)

/-- Code units to scalar values; an unpaired surrogate (a high one not
followed by a low one, or a low one not preceded by a high one that it pairs
with) becomes U+FFFD. -/
def decodeUtf16Lossy : List Nat → List Nat
  | [] => []
  | u :: rest =>
    if isHighSurrogate u then
      match rest with
      | [] => [replacement]
      | l :: rest' =>
        if isLowSurrogate l then pairValue u l :: decodeUtf16Lossy rest'
        else replacement :: decodeUtf16Lossy (l :: rest')
    else if isLowSurrogate u then replacement :: decodeUtf16Lossy rest
    else u :: decodeUtf16Lossy rest

/-- well-formed UTF-16: no unpaired surrogate -/
def validUtf16 : List Nat → Bool
  | [] => true
  | u :: rest =>
    if isHighSurrogate u then
      match rest with
      | [] => false
      | l :: rest' => isLowSurrogate l && validUtf16 rest'
    else if isLowSurrogate u then false
    else validUtf16 rest

/-- the code units that are unpaired surrogates, as a mask over the input -/
def unpairedMask : List Nat → List Bool
  | [] => []
  | u :: rest =>
    if isHighSurrogate u then
      match rest with
      | [] => [true]
      | l :: rest' =>
        if isLowSurrogate l then false :: false :: unpairedMask rest'
        else true :: unpairedMask (l :: rest')
    else if isLowSurrogate u then true :: unpairedMask rest
    else false :: unpairedMask rest

/-! ## UTF-16 → UTF-8 into a bounded destination -/

/-- The Encoding Standard's `TextEncoder.encodeInto()` on code units: walk the
characters of the lossy decoding, append the UTF-8 form of each character
while it fits into the remaining `free` bytes, stop at the first character
that does not fit. Result: `(code units read, bytes written)`. -/
def encodeIntoUtf8 : List Nat → Nat → Nat × List Nat
  | [], _ => (0, [])
  | u :: rest, free =>
    if isHighSurrogate u then
      match rest with
      | [] => if free < 3 then (0, []) else (1, utf8Encode replacement)
      | l :: rest' =>
        if isLowSurrogate l then
          if free < 4 then (0, [])
          else (2 + (encodeIntoUtf8 rest' (free - 4)).1,
                utf8Encode (pairValue u l) ++ (encodeIntoUtf8 rest' (free - 4)).2)
        else if free < 3 then (0, [])
        else (1 + (encodeIntoUtf8 (l :: rest') (free - 3)).1,
              utf8Encode replacement ++ (encodeIntoUtf8 (l :: rest') (free - 3)).2)
    else if isLowSurrogate u then
      if free < 3 then (0, [])
      else (1 + (encodeIntoUtf8 rest (free - 3)).1, utf8Encode replacement ++ (encodeIntoUtf8 rest (free - 3)).2)
    else if free < utf8Len u then (0, [])
    else (1 + (encodeIntoUtf8 rest (free - utf8Len u)).1, utf8Encode u ++ (encodeIntoUtf8 rest (free - utf8Len u)).2)

/-- Latin1 → UTF-8 into a bounded destination: same greedy rule per byte -/
def latin1IntoUtf8 : List Nat → Nat → Nat × List Nat
  | [], _ => (0, [])
  | b :: rest, free =>
    if free < utf8Len b then (0, [])
    else (1 + (latin1IntoUtf8 rest (free - utf8Len b)).1, utf8Encode b ++ (latin1IntoUtf8 rest (free - utf8Len b)).2)

/-- replace exactly the unpaired surrogates by U+FFFD -/
def replaceUnpaired (us : List Nat) : List Nat :=
  List.zipWith (fun u (m : Bool) => if m then replacement else u) us (unpairedMask us)

/-! ## lossy UTF-8 decoding (maximal subparts) -/

def isCont (b : Nat) : Bool := 0x80 ≤ b && b ≤ 0xBF

/-- Table 3-7: the range allowed for the second byte after lead `b0` -/
def secondOk (b0 b1 : Nat) : Bool :=
  if b0 == 0xE0 then 0xA0 ≤ b1 && b1 ≤ 0xBF
  else if b0 == 0xED then 0x80 ≤ b1 && b1 ≤ 0x9F
  else if b0 == 0xF0 then 0x90 ≤ b1 && b1 ≤ 0xBF
  else if b0 == 0xF4 then 0x80 ≤ b1 && b1 ≤ 0x8F
  else isCont b1

def isLead2 (b : Nat) : Bool := 0xC2 ≤ b && b ≤ 0xDF
def isLead3 (b : Nat) : Bool := 0xE0 ≤ b && b ≤ 0xEF
def isLead4 (b : Nat) : Bool := 0xF0 ≤ b && b ≤ 0xF4

def cp2 (b0 b1 : Nat) : Nat := (b0 - 0xC0) * 64 + (b1 - 0x80)
def cp3 (b0 b1 b2 : Nat) : Nat := (b0 - 0xE0) * 4096 + (b1 - 0x80) * 64 + (b2 - 0x80)
def cp4 (b0 b1 b2 b3 : Nat) : Nat :=
  (b0 - 0xF0) * 262144 + (b1 - 0x80) * 4096 + (b2 - 0x80) * 64 + (b3 - 0x80)

/-- Bytes to scalar values. A well-formed sequence (Table 3-7) yields its
scalar value; otherwise the longest prefix of the remaining input that is an
initial subsequence of a well-formed sequence (at least one byte) yields one
U+FFFD and decoding resumes right after it. -/
def decodeUtf8Lossy : List Nat → List Nat
  | [] => []
  | b0 :: r0 =>
    if b0 < 0x80 then b0 :: decodeUtf8Lossy r0
    else if isLead2 b0 then
      match r0 with
      | [] => [replacement]
      | b1 :: r1 =>
        if isCont b1 then cp2 b0 b1 :: decodeUtf8Lossy r1
        else replacement :: decodeUtf8Lossy (b1 :: r1)
    else if isLead3 b0 then
      match r0 with
      | [] => [replacement]
      | b1 :: r1 =>
        if secondOk b0 b1 then
          match r1 with
          | [] => [replacement]
          | b2 :: r2 =>
            if isCont b2 then cp3 b0 b1 b2 :: decodeUtf8Lossy r2
            else replacement :: decodeUtf8Lossy (b2 :: r2)
        else replacement :: decodeUtf8Lossy (b1 :: r1)
    else if isLead4 b0 then
      match r0 with
      | [] => [replacement]
      | b1 :: r1 =>
        if secondOk b0 b1 then
          match r1 with
          | [] => [replacement]
          | b2 :: r2 =>
            if isCont b2 then
              match r2 with
              | [] => [replacement]
              | b3 :: r3 =>
                if isCont b3 then cp4 b0 b1 b2 b3 :: decodeUtf8Lossy r3
                else replacement :: decodeUtf8Lossy (b3 :: r3)
            else replacement :: decodeUtf8Lossy (b2 :: r2)
        else replacement :: decodeUtf8Lossy (b1 :: r1)
    else replacement :: decodeUtf8Lossy r0

/-- well-formed UTF-8 (Table 3-7) -/
def validUtf8 : List Nat → Bool
  | [] => true
  | b0 :: r0 =>
    if b0 < 0x80 then validUtf8 r0
    else if isLead2 b0 then
      match r0 with
      | b1 :: r1 => isCont b1 && validUtf8 r1
      | _ => false
    else if isLead3 b0 then
      match r0 with
      | b1 :: b2 :: r2 => secondOk b0 b1 && isCont b2 && validUtf8 r2
      | _ => false
    else if isLead4 b0 then
      match r0 with
      | b1 :: b2 :: b3 :: r3 => secondOk b0 b1 && isCont b2 && isCont b3 && validUtf8 r3
      | _ => false
    else false

/-! ## Latin1 -/

/-- Latin1 byte to scalar value: the identity on values -/
def latin1Decode (bs : List Nat) : List Nat := bs

/-- scalar values that Latin1 can represent -/
def isLatin1 (c : Nat) : Bool := c ≤ 0xFF

/-- valid UTF-8 all of whose scalar values are at most U+00FF -/
def validUtf8Latin1 (bs : List Nat) : Bool := validUtf8 bs && (decodeUtf8Lossy bs).all isLatin1

/-! ## ASCII prefix -/

/-- number of leading units below 0x80 -/
def asciiPrefixLen : List Nat → Nat
  | [] => 0
  | u :: rest => if u < 0x80 then asciiPrefixLen rest + 1 else 0

/-! sanity examples -/
example : utf8Encode 0x20AC = [0xE2, 0x82, 0xAC] := by decide
example : utf8Encode 0x1F4A9 = [0xF0, 0x9F, 0x92, 0xA9] := by decide
example : utf16Encode 0x1F4A9 = [0xD83D, 0xDCA9] := by decide
example : decodeUtf16Lossy [0x61, 0xD83D, 0xDCA9, 0xDCA9, 0xD83D] = [0x61, 0x1F4A9, 0xFFFD, 0xFFFD] := by decide
example : decodeUtf8Lossy [0xF0, 0x9F, 0x92, 0xA9] = [0x1F4A9] := by decide
-- E1 80 is one maximal subpart, ED A0 is two (A0 is not allowed after ED), F4 90 two
example : decodeUtf8Lossy [0xE1, 0x80, 0x41, 0xED, 0xA0, 0x80, 0xF4, 0x90] =
    [0xFFFD, 0x41, 0xFFFD, 0xFFFD, 0xFFFD, 0xFFFD, 0xFFFD] := by decide
example : decodeUtf8Lossy [0xF1, 0x80, 0x80, 0xC2] = [0xFFFD, 0xFFFD] := by decide
example : validUtf8 [0xC3, 0xA4, 0xE2, 0x82, 0xAC] = true := by decide
example : validUtf8Latin1 [0xC3, 0xA4, 0xE2, 0x82, 0xAC] = false := by decide
example : unpairedMask [0xD800, 0xD800, 0xDC00, 0xDC00] = [true, false, false, true] := by decide

end EncodingRs.Spec.Conv
