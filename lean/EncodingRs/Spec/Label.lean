import EncodingRs.Spec.LabelData
/-!
WHATWG Encoding Standard, "get an encoding" (§4.2):
 1. Remove any leading and trailing ASCII whitespace from label.
 2. If label is an ASCII case-insensitive match for any of the labels listed in
    the table, return the corresponding encoding; otherwise return failure.
ASCII whitespace (Infra): U+0009 TAB, U+000A LF, U+000C FF, U+000D CR, U+0020 SPACE.
-/
namespace EncodingRs.Spec

def isAsciiWhitespace (b : Nat) : Bool := b == 0x09 || b == 0x0A || b == 0x0C || b == 0x0D || b == 0x20

def asciiLower (b : Nat) : Nat := if 0x41 ≤ b ∧ b ≤ 0x5A then b + 0x20 else b

def stripLeading (bs : List Nat) : List Nat := bs.dropWhile isAsciiWhitespace
def stripTrailing (bs : List Nat) : List Nat := (bs.reverse.dropWhile isAsciiWhitespace).reverse
def strip (bs : List Nat) : List Nat := stripTrailing (stripLeading bs)

def asciiCaseInsensitiveMatch (a b : List Nat) : Bool := a.map asciiLower == b.map asciiLower

/-- result: the name of the encoding (as bytes) or failure -/
def getEncoding (label : List Nat) : Option (List Nat) :=
  (labelTable.find? (fun row => asciiCaseInsensitiveMatch row.1 (strip label))).map (·.2)

/-- the name of the replacement encoding -/
def replacementName : List Nat := [114, 101, 112, 108, 97, 99, 101, 109, 101, 110, 116]

end EncodingRs.Spec
