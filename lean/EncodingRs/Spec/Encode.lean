import EncodingRs.Spec.IndexData
import EncodingRs.Spec.IndexDataEnc
import EncodingRs.Spec.Conv
/-!
# The encoders of the WHATWG Encoding Standard (C03)

A literal transcription of the *encoder* handlers of the Encoding Standard
(https://encoding.spec.whatwg.org/, the text the pinned tree implements, incl.
the GB18030-2022 changes: sections 9 "Legacy single-byte encodings", 8.1.2
"UTF-8 encoder", 10.2.2 "gb18030 encoder" / 10.1.2 "GBK encoder", 11.1.2 "Big5
encoder", 12.1.2 "EUC-JP encoder", 12.2.2 "ISO-2022-JP encoder", 12.3.2
"Shift_JIS encoder", 13.1.2 "EUC-KR encoder", 14.5.2 "x-user-defined
encoder"), of the index look-ups of section 5 "Indexes" ("index pointer",
"index gb18030 ranges pointer", "index Shift_JIS pointer", "index Big5 pointer")
and of the "process a queue" / "process an item" loop of section 4.1 with the
error modes "fatal" and "html".

Conventions
* A code point / scalar value is a `Nat`; the end-of-queue item is `none`.
* An index is an `Array Nat`, pointer ↦ code point, `0` = the pointer has no
  entry (no index maps to U+0000).  The vendored indexes are in
  `Spec/IndexData.lean` and `Spec/IndexDataEnc.lean` (spec/PROVENANCE.md).
* Every step of a handler is numbered as in the Standard.  `a >> 6k` is written
  `a / 64^k`, `a & 0x3F` is `a % 64` and `0x80 | t` (t < 0x40) is `0x80 + t`.
* "index pointer" is a plain linear search for the FIRST pointer
  (`firstPointerFrom`); nothing here is optimised.  Every table-driven handler `h` is written
  as `hWith ptr` where `ptr` is the pointer search of its "Let pointer be …" step, and
  `h := hWith (the Standard's search)`; the only purpose is that the complete evaluations of
  `Lemmas/ConformEnc*.lean` can substitute a checked inverse table for the linear search.

This file is the trusted reading of the Standard for property C03.
-/
namespace EncodingRs.Spec.Encode
open EncodingRs.Spec

/-! ## 5. Indexes -/

/-- the first pointer `q ≥ pointer` (among the next `n` pointers) whose entry is `codePoint` -/
def firstPointerFrom (index : Array Nat) (codePoint : Nat) : Nat → Nat → Option Nat
  | _, 0 => none
  | pointer, n + 1 =>
    if index.getD pointer 0 = codePoint then some pointer
    else firstPointerFrom index codePoint (pointer + 1) n

/-- "The index pointer for code point in index is the first pointer corresponding
to code point in index, or null if code point is not in index." -/
def indexPointer (index : Array Nat) (codePoint : Nat) : Option Nat :=
  if codePoint = 0 then none else firstPointerFrom index codePoint 0 index.size

/-- "The index code point for pointer in index is the code point corresponding to
pointer in index, or null if pointer is not in index." -/
def indexCodePoint (index : Array Nat) (pointer : Nat) : Option Nat :=
  match index[pointer]? with
  | some 0 => none
  | some c => some c
  | none => none

/-- the last pointer below `pointer` whose entry is `codePoint` -/
def lastPointerBelow (index : Array Nat) (codePoint : Nat) : Nat → Option Nat
  | 0 => none
  | pointer + 1 =>
    if index.getD pointer 0 = codePoint then some pointer
    else lastPointerBelow index codePoint pointer

/-- the last pointer corresponding to code point in index, or null -/
def indexLastPointer (index : Array Nat) (codePoint : Nat) : Option Nat :=
  if codePoint = 0 then none else lastPointerBelow index codePoint index.size

/-- an index "excluding all entries whose pointer" satisfies `excluded` -/
def excluding (index : Array Nat) (excluded : Nat → Bool) : Array Nat :=
  index.mapIdx fun pointer codePoint => if excluded pointer then 0 else codePoint

/-- "The index gb18030 ranges pointer for code point":
1. If code point is U+E7C7, return pointer 7457.
2. Let offset be the last code point in index gb18030 ranges that is less than or equal to
   code point and let pointer offset be its corresponding pointer.
3. Return a pointer whose value is pointer offset + code point − offset. -/
def indexGb18030RangesPointer (codePoint : Nat) : Nat :=
  if codePoint = 0xE7C7 then 7457 else
  -- the rows are in ascending order: the last row whose code point is ≤ code point
  let rec go (i : Nat) (offset pointerOffset : Nat) : Nat → Nat × Nat
    | 0 => (offset, pointerOffset)
    | fuel + 1 =>
      if i < Enc.gb18030RangesCodePoints.size ∧ Enc.gb18030RangesCodePoints.getD i 0 ≤ codePoint then
        go (i + 1) (Enc.gb18030RangesCodePoints.getD i 0) (Enc.gb18030RangesPointers.getD i 0) fuel
      else (offset, pointerOffset)
  let (offset, pointerOffset) := go 0 0 0 (Enc.gb18030RangesCodePoints.size + 1)
  pointerOffset + codePoint - offset

/-- "index Shift_JIS pointer": index jis0208 excluding all entries whose pointer is in the
range 8272 to 8835, inclusive -/
def indexShiftJisIndex : Array Nat := excluding Enc.indexJis0208Full fun p => 8272 ≤ p && p ≤ 8835

def indexShiftJisPointer (codePoint : Nat) : Option Nat := indexPointer indexShiftJisIndex codePoint

/-- "index Big5 pointer", step 1: index Big5 excluding all entries whose pointer is less than
(0xA1 − 0x81) × 157 -/
def indexBig5Index : Array Nat := excluding indexBig5 fun p => p < (0xA1 - 0x81) * 157

/-- "The index Big5 pointer for code point":
2. If code point is U+2550, U+255E, U+2561, U+256A, U+5341, or U+5345, return the last
   pointer corresponding to code point in index.
3. Return the index pointer for code point in index. -/
def indexBig5Pointer (codePoint : Nat) : Option Nat :=
  if codePoint = 0x2550 ∨ codePoint = 0x255E ∨ codePoint = 0x2561 ∨ codePoint = 0x256A
      ∨ codePoint = 0x5341 ∨ codePoint = 0x5345 then
    indexLastPointer indexBig5Index codePoint
  else indexPointer indexBig5Index codePoint

/-! ## handlers -/

/-- what a handler returns -/
inductive Result
  | finished
  /-- "return one or more bytes" -/
  | bytes (bs : List Nat)
  /-- "return error with code point" -/
  | error (codePoint : Nat)
deriving DecidableEq, Repr

def isAsciiCodePoint (c : Nat) : Bool := c ≤ 0x7F

/-- 9.1 single-byte encoder; `ptr codePoint` = "the index pointer for code point in index single-byte" -/
def singleByteWith (ptr : Nat → Option Nat) (codePoint : Nat) : Result :=
  -- 2. If code point is an ASCII code point, return a byte whose value is code point.
  if isAsciiCodePoint codePoint then .bytes [codePoint] else
  -- 3. Let pointer be the index pointer for code point in index single-byte.
  match ptr codePoint with
  -- 4. If pointer is null, return error with code point.
  | none => .error codePoint
  -- 5. Return a byte whose value is pointer + 0x80.
  | some pointer => .bytes [pointer + 0x80]

/-- 9.1 single-byte encoder (`index` = index single-byte of the encoding) -/
def singleByte (index : Array Nat) (codePoint : Nat) : Result := singleByteWith (indexPointer index) codePoint

/-- 8.1.2 UTF-8 encoder, step 5: "While count is greater than 0" -/
def utf8Trail (codePoint : Nat) : Nat → List Nat
  | 0 => []
  | count + 1 =>
    -- temp = code point >> (6 × (count − 1)); append 0x80 | (temp & 0x3F)
    (0x80 + codePoint / 64 ^ count % 64) :: utf8Trail codePoint count

/-- 8.1.2 UTF-8 encoder -/
def utf8 (codePoint : Nat) : Result :=
  -- 2. ASCII code point: a byte whose value is code point
  if isAsciiCodePoint codePoint then .bytes [codePoint] else
  -- 3. count and offset by range: U+0080..U+07FF: 1, 0xC0; U+0800..U+FFFF: 2, 0xE0;
  --    U+10000..U+10FFFF: 3, 0xF0
  let (count, offset) :=
    if codePoint ≤ 0x07FF then (1, 0xC0) else if codePoint ≤ 0xFFFF then (2, 0xE0) else (3, 0xF0)
  -- 4. bytes = « (code point >> (6 × count)) + offset »   5. the loop   6. return bytes
  .bytes ((codePoint / 64 ^ count + offset) :: utf8Trail codePoint count)

/-- the table of step 5 of the gb18030 encoder -/
def gb180302022Row (codePoint : Nat) : Option (Nat × Nat) :=
  (indexPointer Enc.gb180302022CodePoints codePoint).map fun i =>
    let pair := Enc.gb180302022Bytes.getD i 0
    (pair / 256, pair % 256)

/-- 10.2.2 gb18030 encoder (`isGBK` set: 10.1.2 GBK encoder); `ptr codePoint` = "the index pointer
for code point in index gb18030" -/
def gb18030With (ptr : Nat → Option Nat) (isGBK : Bool) (codePoint : Nat) : Result :=
  -- 2.
  if isAsciiCodePoint codePoint then .bytes [codePoint] else
  -- 3. If code point is U+E5E5, return error with code point.
  if codePoint = 0xE5E5 then .error codePoint else
  -- 4. If is GBK is true and code point is U+20AC, return byte 0x80.
  if isGBK = true ∧ codePoint = 0x20AC then .bytes [0x80] else
  -- 5. If there is a row in the table whose first column is code point, return its two bytes.
  match gb180302022Row codePoint with
  | some (b1, b2) => .bytes [b1, b2]
  | none =>
  -- 6. Let pointer be the index pointer for code point in index gb18030.
  match ptr codePoint with
  -- 7. If pointer is non-null:
  | some pointer =>
    let lead := pointer / 190 + 0x81
    let trail := pointer % 190
    let offset := if trail < 0x3F then 0x40 else 0x41
    .bytes [lead, trail + offset]
  | none =>
  -- 8. If is GBK is true, return error with code point.
  if isGBK = true then .error codePoint else
  -- 9. Set pointer to the index gb18030 ranges pointer for code point.
  let pointer := indexGb18030RangesPointer codePoint
  -- 10.-17.
  let byte1 := pointer / (10 * 126 * 10)
  let pointer := pointer % (10 * 126 * 10)
  let byte2 := pointer / (10 * 126)
  let pointer := pointer % (10 * 126)
  let byte3 := pointer / 10
  let byte4 := pointer % 10
  .bytes [byte1 + 0x81, byte2 + 0x30, byte3 + 0x81, byte4 + 0x30]

/-- 10.2.2 gb18030 encoder (`isGBK` set: 10.1.2 GBK encoder) -/
def gb18030 (isGBK : Bool) (codePoint : Nat) : Result := gb18030With (indexPointer indexGb18030) isGBK codePoint

/-- 11.1.2 Big5 encoder; `ptr codePoint` = "the index Big5 pointer for code point" -/
def big5With (ptr : Nat → Option Nat) (codePoint : Nat) : Result :=
  if isAsciiCodePoint codePoint then .bytes [codePoint] else
  -- 3. Let pointer be the index Big5 pointer for code point.
  match ptr codePoint with
  -- 4.
  | none => .error codePoint
  | some pointer =>
    -- 5. lead = pointer / 157 + 0x81   6. trail = pointer % 157
    let lead := pointer / 157 + 0x81
    let trail := pointer % 157
    -- 7. offset = 0x40 if trail < 0x3F, otherwise 0x62
    let offset := if trail < 0x3F then 0x40 else 0x62
    .bytes [lead, trail + offset]

/-- 11.1.2 Big5 encoder -/
def big5 (codePoint : Nat) : Result := big5With indexBig5Pointer codePoint

/-- 13.1.2 EUC-KR encoder; `ptr codePoint` = "the index pointer for code point in index EUC-KR" -/
def eucKrWith (ptr : Nat → Option Nat) (codePoint : Nat) : Result :=
  if isAsciiCodePoint codePoint then .bytes [codePoint] else
  match ptr codePoint with
  | none => .error codePoint
  | some pointer =>
    let lead := pointer / 190 + 0x81
    let trail := pointer % 190 + 0x41
    .bytes [lead, trail]

/-- 13.1.2 EUC-KR encoder -/
def eucKr (codePoint : Nat) : Result := eucKrWith (indexPointer indexEucKr) codePoint

/-- 12.1.2 EUC-JP encoder; `ptr codePoint` = "the index pointer for code point in index jis0208" -/
def eucJpWith (ptr : Nat → Option Nat) (codePoint : Nat) : Result :=
  -- 2.
  if isAsciiCodePoint codePoint then .bytes [codePoint] else
  -- 3. U+00A5 ↦ 0x5C   4. U+203E ↦ 0x7E
  if codePoint = 0x00A5 then .bytes [0x5C] else
  if codePoint = 0x203E then .bytes [0x7E] else
  -- 5. U+FF61..U+FF9F: two bytes 0x8E, code point − 0xFF61 + 0xA1
  if 0xFF61 ≤ codePoint ∧ codePoint ≤ 0xFF9F then .bytes [0x8E, codePoint - 0xFF61 + 0xA1] else
  -- 6. If code point is U+2212, set it to U+FF0D.
  let codePoint := if codePoint = 0x2212 then 0xFF0D else codePoint
  -- 7. Let pointer be the index pointer for code point in index jis0208.
  match ptr codePoint with
  -- 8.
  | none => .error codePoint
  | some pointer =>
    -- 9. lead = pointer / 94 + 0xA1   10. trail = pointer % 94 + 0xA1
    .bytes [pointer / 94 + 0xA1, pointer % 94 + 0xA1]

/-- 12.1.2 EUC-JP encoder -/
def eucJp (codePoint : Nat) : Result := eucJpWith (indexPointer Enc.indexJis0208Full) codePoint

/-- 12.3.2 Shift_JIS encoder; `ptr codePoint` = "the index Shift_JIS pointer for code point" -/
def shiftJisWith (ptr : Nat → Option Nat) (codePoint : Nat) : Result :=
  -- 2. If code point is an ASCII code point or U+0080, return a byte whose value is code point.
  if isAsciiCodePoint codePoint ∨ codePoint = 0x80 then .bytes [codePoint] else
  -- 3. 4.
  if codePoint = 0x00A5 then .bytes [0x5C] else
  if codePoint = 0x203E then .bytes [0x7E] else
  -- 5. U+FF61..U+FF9F: a byte whose value is code point − 0xFF61 + 0xA1
  if 0xFF61 ≤ codePoint ∧ codePoint ≤ 0xFF9F then .bytes [codePoint - 0xFF61 + 0xA1] else
  -- 6.
  let codePoint := if codePoint = 0x2212 then 0xFF0D else codePoint
  -- 7. Let pointer be the index Shift_JIS pointer for code point.
  match ptr codePoint with
  | none => .error codePoint
  | some pointer =>
    -- 9.-12.
    let lead := pointer / 188
    let leadOffset := if lead < 0x1F then 0x81 else 0xC1
    let trail := pointer % 188
    let offset := if trail < 0x3F then 0x40 else 0x41
    .bytes [lead + leadOffset, trail + offset]

/-- 12.3.2 Shift_JIS encoder -/
def shiftJis (codePoint : Nat) : Result := shiftJisWith indexShiftJisPointer codePoint

/-- 14.5.2 x-user-defined encoder -/
def userDefined (codePoint : Nat) : Result :=
  if isAsciiCodePoint codePoint then .bytes [codePoint] else
  -- 3. U+F780..U+F7FF: a byte whose value is code point − 0xF780 + 0x80
  if 0xF780 ≤ codePoint ∧ codePoint ≤ 0xF7FF then .bytes [codePoint - 0xF780 + 0x80] else
  .error codePoint

/-! ### encoders as state machines -/

/-- one run of a handler on one item: the state afterwards, the code point restored to the
I/O queue if any ("restore code point to ioQueue": the handler's variable `code point` with its
current value), and what was returned -/
structure HStep (σ : Type) where
  st : σ
  restore : Option Nat
  result : Result

/-- the I/O queue after one run of the handler on its first item -/
def HStep.queueAfter {σ : Type} (r : HStep σ) (q : List Nat) : List Nat :=
  match r.restore with
  | some codePoint => codePoint :: q.tail
  | none => q.tail

/-- an encoder: its state variables and its handler (`none` = end-of-queue) -/
structure Encoder where
  σ : Type
  init : σ
  handler : σ → Option Nat → HStep σ

/-- an encoder without state: "1. If code point is end-of-queue, return finished." and the rest -/
def stateless (h : Nat → Result) : Encoder where
  σ := Unit
  init := ()
  handler := fun _ item =>
    match item with
    | none => ⟨(), none, .finished⟩
    | some codePoint => ⟨(), none, h codePoint⟩

/-- "ISO-2022-JP encoder state" (initially ASCII) -/
inductive IsoState | ascii | roman | jis0208
deriving DecidableEq, Repr

/-- 12.2.2 ISO-2022-JP encoder; `ptr codePoint` = "the index pointer for code point in index jis0208" -/
def iso2022JpHandlerWith (ptr : Nat → Option Nat) (state : IsoState) (item : Option Nat) : HStep IsoState :=
  match item with
  | none =>
    -- 1. end-of-queue and state is not ASCII: set state to ASCII, return 0x1B 0x28 0x42.
    if state ≠ .ascii then ⟨.ascii, none, .bytes [0x1B, 0x28, 0x42]⟩
    -- 2. end-of-queue and state is ASCII: return finished.
    else ⟨state, none, .finished⟩
  | some codePoint =>
  -- 3. If state is ASCII or Roman, and code point is U+000E, U+000F, or U+001B, return error with U+FFFD.
  if (state = .ascii ∨ state = .roman) ∧ (codePoint = 0x0E ∨ codePoint = 0x0F ∨ codePoint = 0x1B) then
    ⟨state, none, .error 0xFFFD⟩ else
  -- 4. If state is ASCII and code point is an ASCII code point, return a byte whose value is code point.
  if state = .ascii ∧ isAsciiCodePoint codePoint = true then ⟨state, none, .bytes [codePoint]⟩ else
  -- 5. If state is Roman and code point is an ASCII code point, excluding U+005C and U+007E, or is
  --    U+00A5 or U+203E:
  if state = .roman ∧ ((isAsciiCodePoint codePoint = true ∧ codePoint ≠ 0x5C ∧ codePoint ≠ 0x7E)
      ∨ codePoint = 0xA5 ∨ codePoint = 0x203E) then
    -- 5.1 ASCII code point: the byte   5.2 U+00A5: 0x5C   5.3 U+203E: 0x7E
    if isAsciiCodePoint codePoint then ⟨state, none, .bytes [codePoint]⟩
    else if codePoint = 0xA5 then ⟨state, none, .bytes [0x5C]⟩
    else ⟨state, none, .bytes [0x7E]⟩
  else
  -- 6. If code point is an ASCII code point, and state is not ASCII, restore code point to ioQueue,
  --    set state to ASCII, and return three bytes 0x1B 0x28 0x42.
  if isAsciiCodePoint codePoint = true ∧ state ≠ .ascii then ⟨.ascii, some codePoint, .bytes [0x1B, 0x28, 0x42]⟩ else
  -- 7. If code point is either U+00A5 or U+203E, and state is not Roman, restore code point to ioQueue,
  --    set state to Roman, and return three bytes 0x1B 0x28 0x4A.
  if (codePoint = 0xA5 ∨ codePoint = 0x203E) ∧ state ≠ .roman then ⟨.roman, some codePoint, .bytes [0x1B, 0x28, 0x4A]⟩ else
  -- 8. If code point is U+2212, set it to U+FF0D.
  let codePoint' := if codePoint = 0x2212 then 0xFF0D else codePoint
  -- 9. If code point is in the range U+FF61 to U+FF9F, inclusive, set it to the index code point for
  --    code point − 0xFF61 in index ISO-2022-JP katakana.
  let codePoint' :=
    if 0xFF61 ≤ codePoint' ∧ codePoint' ≤ 0xFF9F then
      (indexCodePoint Enc.indexIso2022JpKatakana (codePoint' - 0xFF61)).getD 0
    else codePoint'
  -- 10. Let pointer be the index pointer for code point in index jis0208.
  match ptr codePoint' with
  -- 11. If pointer is null:
  | none =>
    -- 11.1 If state is jis0208, restore code point to ioQueue, set state to ASCII, return 0x1B 0x28 0x42.
    if state = .jis0208 then ⟨.ascii, some codePoint', .bytes [0x1B, 0x28, 0x42]⟩
    -- 11.2 Return error with code point.
    else ⟨state, none, .error codePoint'⟩
  | some pointer =>
    -- 12. If state is not jis0208, restore code point to ioQueue, set state to jis0208, return 0x1B 0x24 0x42.
    if state ≠ .jis0208 then ⟨.jis0208, some codePoint', .bytes [0x1B, 0x24, 0x42]⟩ else
    -- 13. lead = pointer / 94 + 0x21   14. trail = pointer % 94 + 0x21   15. return two bytes
    ⟨state, none, .bytes [pointer / 94 + 0x21, pointer % 94 + 0x21]⟩

/-- 12.2.2 ISO-2022-JP encoder -/
def iso2022JpHandler (state : IsoState) (item : Option Nat) : HStep IsoState :=
  iso2022JpHandlerWith (indexPointer Enc.indexJis0208Full) state item

def iso2022Jp : Encoder := ⟨IsoState, .ascii, iso2022JpHandler⟩

/-! ### 4.2 names: "get an output encoding", "get an encoder" -/

/-- "To get an output encoding from an encoding encoding: 1. If encoding is replacement or
UTF-16BE/LE, then return UTF-8.  2. Return encoding." (by name) -/
def outputEncodingName (name : String) : String :=
  if name = "replacement" ∨ name = "UTF-16BE" ∨ name = "UTF-16LE" then "UTF-8" else name

/-- the encoder of an encoding, by the Standard's name of the encoding: the single-byte encoder
over the encoding's index for the legacy single-byte encodings, the encoder of its section
otherwise; `none` for the three encodings that have no encoder (replacement, UTF-16BE/LE) and for
strings that are not names of encodings -/
def encoderOfName (name : String) : Option Encoder :=
  match Enc.singleByteIndexes.lookup name with
  | some index => some (stateless (singleByte index))
  | none =>
    match name with
    | "UTF-8" => some (stateless utf8)
    | "GBK" => some (stateless (gb18030 true))
    | "gb18030" => some (stateless (gb18030 false))
    | "Big5" => some (stateless big5)
    | "EUC-JP" => some (stateless eucJp)
    | "ISO-2022-JP" => some iso2022Jp
    | "Shift_JIS" => some (stateless shiftJis)
    | "EUC-KR" => some (stateless eucKr)
    | "x-user-defined" => some (stateless userDefined)
    | _ => none

/-! ## 4.1 "process a queue" -/

/-- "the shortest sequence of ASCII digits representing the code point's value in base ten" -/
def decimalDigits (n : Nat) : List Nat :=
  if n < 10 then [0x30 + n] else decimalDigits (n / 10) ++ [0x30 + n % 10]
decreasing_by omega

/-- what error mode "html" pushes to the front of the I/O queue: U+0026 (&), U+0023 (#), the
digits, U+003B (;) -/
def ncrCodePoints (codePoint : Nat) : List Nat := [0x26, 0x23] ++ decimalDigits codePoint ++ [0x3B]

/-- error modes of an encoder run.  `report` is not a mode of the Standard: it is a "fatal" run
that is resumed after every error (state and I/O queue as the failed run left them), each error being
recorded in the output — what a caller of the `*_without_replacement` API observes. -/
inductive Mode | fatal | html | report
deriving DecidableEq, Repr

/-- output of a run: bytes and (modes `fatal`, `report`) returned errors -/
inductive Ev
  | byte (b : Nat)
  | error (codePoint : Nat)
deriving DecidableEq, Repr

/-- "process a queue" with an encoder, an I/O queue of scalar values and an error mode, as a
relation: `Runs E mode state queue out`.  One constructor per outcome of "process an item";
the item read is `queue.head?` (`none` = end-of-queue); a restored code point is put back in front. -/
inductive Runs (E : Encoder) (mode : Mode) : E.σ → List Nat → List Ev → Prop
  /-- 3. result is finished: return -/
  | finished (s : E.σ) (q : List Nat) :
      (E.handler s q.head?).result = .finished → Runs E mode s q []
  /-- 4. result is one or more items: push them to output; continue -/
  | bytes (s : E.σ) (q : List Nat) (bs : List Nat) (out : List Ev) :
      (E.handler s q.head?).result = .bytes bs →
      Runs E mode (E.handler s q.head?).st ((E.handler s q.head?).queueAfter q) out →
      Runs E mode s q (bs.map Ev.byte ++ out)
  /-- 5. result is an error, mode "fatal": return result -/
  | errorFatal (s : E.σ) (q : List Nat) (c : Nat) :
      mode = .fatal → (E.handler s q.head?).result = .error c → Runs E mode s q [Ev.error c]
  /-- a "fatal" run resumed after the error -/
  | errorReport (s : E.σ) (q : List Nat) (c : Nat) (out : List Ev) :
      mode = .report → (E.handler s q.head?).result = .error c →
      Runs E mode (E.handler s q.head?).st ((E.handler s q.head?).queueAfter q) out →
      Runs E mode s q (Ev.error c :: out)
  /-- 5. result is an error, mode "html": push the numeric character reference to the front of the queue; continue -/
  | errorHtml (s : E.σ) (q : List Nat) (c : Nat) (out : List Ev) :
      mode = .html → (E.handler s q.head?).result = .error c →
      Runs E mode (E.handler s q.head?).st
        (ncrCodePoints c ++ ((E.handler s q.head?).queueAfter q)) out →
      Runs E mode s q out

/-- the same loop as a function with fuel (for the driver); `none` = out of fuel -/
def run (E : Encoder) (mode : Mode) : Nat → E.σ → List Nat → Option (List Ev)
  | 0, _, _ => none
  | fuel + 1, s, q =>
    let r := E.handler s q.head?
    let q' := r.queueAfter q
    match r.result with
    | .finished => some []
    | .bytes bs => (run E mode fuel r.st q').map fun out => bs.map Ev.byte ++ out
    | .error c =>
      match mode with
      | .fatal => some [Ev.error c]
      | .report => (run E mode fuel r.st q').map fun out => Ev.error c :: out
      | .html => run E mode fuel r.st (ncrCodePoints c ++ q')

/-- handler runs that suffice for a queue of `n` scalar values: at most 2 per item plus, in mode
"html", the 10 code points of the longest numeric character reference, plus the end-of-queue runs -/
def fuelFor (n : Nat) : Nat := 24 * n + 8

def bytesOf : List Ev → List Nat
  | [] => []
  | .byte b :: t => b :: bytesOf t
  | .error _ :: t => bytesOf t

/-- "encode": get an encoder from the (output) encoding, process the queue in mode "html" -/
def encode (name : String) (text : List Nat) : Option (List Nat) :=
  match encoderOfName (outputEncodingName name) with
  | none => none
  | some E => (run E .html (fuelFor text.length) E.init text).map bytesOf

/-- a string of UTF-16 code units as a scalar value string (Infra: "convert a string into a scalar
value string": surrogate pairs are one code point, every remaining surrogate is replaced by U+FFFD) -/
def scalarValuesOfUtf16 (units : List Nat) : List Nat := Conv.decodeUtf16Lossy units

end EncodingRs.Spec.Encode
