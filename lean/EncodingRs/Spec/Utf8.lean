/-!
# Well-formed UTF-8 / UTF-16 and the "valid up to" functions (specification side of C14)

Import-free. Bytes and UTF-16 code units are `Nat` (the definitions are total on
all naturals; the theorems of `Thm/C14.lean` assume `b < 256` resp. `u < 65536`
only where the Rust arithmetic needs it).

**Well-formed UTF-8** is the Unicode Standard's Table 3-7 ("Well-Formed UTF-8
Byte Sequences", D92):

| code points        | 1st    | 2nd      | 3rd    | 4th    |
|--------------------|--------|----------|--------|--------|
| U+0000..U+007F     | 00..7F |          |        |        |
| U+0080..U+07FF     | C2..DF | 80..BF   |        |        |
| U+0800..U+0FFF     | E0     | *A0*..BF | 80..BF |        |
| U+1000..U+CFFF     | E1..EC | 80..BF   | 80..BF |        |
| U+D000..U+D7FF     | ED     | 80..*9F* | 80..BF |        |
| U+E000..U+FFFF     | EE..EF | 80..BF   | 80..BF |        |
| U+10000..U+3FFFF   | F0     | *90*..BF | 80..BF | 80..BF |
| U+40000..U+FFFFF   | F1..F3 | 80..BF   | 80..BF | 80..BF |
| U+100000..U+10FFFF | F4     | 80..*8F* | 80..BF | 80..BF |

`validUpTo bs` is the length of the longest prefix of `bs` that is a
concatenation of well-formed sequences. A trailing sequence that is
incomplete (but valid so far) is **not** counted — this is exactly
`core::str::Utf8Error::valid_up_to()` (and `bs.length` when `from_utf8` is `Ok`).
-/
namespace EncodingRs.Spec

/-- `80..BF` -/
def isCont (b : Nat) : Bool := 0x80 ≤ b && b ≤ 0xBF

/-- Table 3-7, row 1 -/
def wf1 (b0 : Nat) : Bool := b0 ≤ 0x7F

/-- Table 3-7, row 2 -/
def wf2 (b0 b1 : Nat) : Bool := 0xC2 ≤ b0 && b0 ≤ 0xDF && isCont b1

/-- Table 3-7, rows 3–6: the (first, second) byte pairs of three-byte sequences -/
def second3Ok (b0 b1 : Nat) : Bool :=
  (b0 == 0xE0 && 0xA0 ≤ b1 && b1 ≤ 0xBF) ||
  (0xE1 ≤ b0 && b0 ≤ 0xEC && 0x80 ≤ b1 && b1 ≤ 0xBF) ||
  (b0 == 0xED && 0x80 ≤ b1 && b1 ≤ 0x9F) ||
  (0xEE ≤ b0 && b0 ≤ 0xEF && 0x80 ≤ b1 && b1 ≤ 0xBF)

/-- Table 3-7, rows 7–9: the (first, second) byte pairs of four-byte sequences -/
def second4Ok (b0 b1 : Nat) : Bool :=
  (b0 == 0xF0 && 0x90 ≤ b1 && b1 ≤ 0xBF) ||
  (0xF1 ≤ b0 && b0 ≤ 0xF3 && 0x80 ≤ b1 && b1 ≤ 0xBF) ||
  (b0 == 0xF4 && 0x80 ≤ b1 && b1 ≤ 0x8F)

def wf3 (b0 b1 b2 : Nat) : Bool := second3Ok b0 b1 && isCont b2
def wf4 (b0 b1 b2 b3 : Nat) : Bool := second4Ok b0 b1 && isCont b2 && isCont b3

/-- `bs` is exactly one well-formed UTF-8 byte sequence (one row of Table 3-7) -/
def wellFormedSeq : List Nat → Bool
  | [b0] => wf1 b0
  | [b0, b1] => wf2 b0 b1
  | [b0, b1, b2] => wf3 b0 b1 b2
  | [b0, b1, b2, b3] => wf4 b0 b1 b2 b3
  | _ => false

/-- `bs` is a concatenation of well-formed UTF-8 byte sequences, i.e. valid UTF-8
(the declarative definition; `validUpTo` below is proved to be the length of the
longest prefix satisfying it: `Thm.C14.validUpTo_prefix_wf`, `validUpTo_maximal`) -/
inductive WellFormedUtf8 : List Nat → Prop
  | nil : WellFormedUtf8 []
  | cons (s rest : List Nat) : wellFormedSeq s = true → WellFormedUtf8 rest → WellFormedUtf8 (s ++ rest)

/-- the scalar value encoded by a well-formed sequence (D92 bit distribution, Table 3-6) -/
def scalarOfSeq : List Nat → Nat
  | [b0] => b0
  | [b0, b1] => (b0 - 0xC0) * 64 + (b1 - 0x80)
  | [b0, b1, b2] => (b0 - 0xE0) * 4096 + (b1 - 0x80) * 64 + (b2 - 0x80)
  | [b0, b1, b2, b3] => (b0 - 0xF0) * 262144 + (b1 - 0x80) * 4096 + (b2 - 0x80) * 64 + (b3 - 0x80)
  | _ => 0

/-- Greedy scan parameterised by a predicate `keep` on well-formed sequences:
the length of the longest prefix of `bs` that is a concatenation of well-formed
sequences all satisfying `keep`. (Table 3-7 is prefix-free — no well-formed
sequence is a proper prefix of another — so "greedy" and "longest" coincide;
`Thm.C14.validUpTo_prefix_wf` / `validUpTo_maximal` prove this.) -/
def scanSeqs (keep : List Nat → Bool) : List Nat → Nat
  | [] => 0
  | b0 :: r =>
    if wf1 b0 then (if keep [b0] then 1 + scanSeqs keep r else 0) else
    match r with
    | [] => 0
    | b1 :: r1 =>
      if wf2 b0 b1 then (if keep [b0, b1] then 2 + scanSeqs keep r1 else 0) else
      match r1 with
      | [] => 0
      | b2 :: r2 =>
        if wf3 b0 b1 b2 then (if keep [b0, b1, b2] then 3 + scanSeqs keep r2 else 0) else
        match r2 with
        | [] => 0
        | b3 :: r3 =>
          if wf4 b0 b1 b2 b3 then (if keep [b0, b1, b2, b3] then 4 + scanSeqs keep r3 else 0) else 0

/-- **UTF-8 "valid up to"**: length of the longest prefix that is a concatenation
of well-formed UTF-8 byte sequences (= `bs.length` iff `bs` is valid UTF-8). -/
def validUpTo (bs : List Nat) : Nat := scanSeqs (fun _ => true) bs

/-- `bs` is valid UTF-8 in its entirety -/
def validUtf8 (bs : List Nat) : Bool := validUpTo bs == bs.length

/-- index of the first element satisfying `bad`, or the length if there is none -/
def firstIdx (bad : Nat → Bool) : List Nat → Nat
  | [] => 0
  | b :: r => if bad b then 0 else 1 + firstIdx bad r

/-- `Encoding::ascii_valid_up_to`: "the index of the first byte that makes the
input malformed as ASCII or the length of the slice" -/
def firstNonAscii (bs : List Nat) : Nat := firstIdx (fun b => 0x80 ≤ b) bs

/-- `Encoding::iso_2022_jp_ascii_valid_up_to`: index of the first byte not
representable in the ASCII state of ISO-2022-JP: non-ASCII, or one of
SO (0x0E), SI (0x0F), ESC (0x1B) -/
def firstIso2022JpNonAscii (bs : List Nat) : Nat :=
  firstIdx (fun b => 0x80 ≤ b || b == 0x0E || b == 0x0F || b == 0x1B) bs

/-- the sequence encodes a code point below U+0100 -/
def isLatin1Seq (s : List Nat) : Bool := scalarOfSeq s < 0x100

/-- `mem::utf8_latin1_up_to`: "the index of first byte that starts an invalid
byte sequence or a non-Latin1 byte sequence, or the length of the string if
there are neither" -/
def utf8Latin1UpTo (bs : List Nat) : Nat := scanSeqs isLatin1Seq bs

/-- `mem::str_latin1_up_to` (argument is a `&str`, i.e. valid UTF-8): "the index
of first byte that starts a non-Latin1 byte sequence, or the length of the
string if there are none". On valid UTF-8 this is the same scan. -/
def strLatin1UpTo (bs : List Nat) : Nat := scanSeqs isLatin1Seq bs

/-- high (lead) surrogate `D800..DBFF` -/
def isHighSurrogate (u : Nat) : Bool := 0xD800 ≤ u && u ≤ 0xDBFF
/-- low (trail) surrogate `DC00..DFFF` -/
def isLowSurrogate (u : Nat) : Bool := 0xDC00 ≤ u && u ≤ 0xDFFF

/-- `mem::utf16_valid_up_to`: "the index of the first unpaired surrogate or, if
the input is valid UTF-16 in its entirety, the length of the input". A high
surrogate is paired iff immediately followed by a low surrogate; a low surrogate
is paired iff it is the second unit of such a pair. -/
def utf16ValidUpTo : List Nat → Nat
  | [] => 0
  | u :: r =>
    if isHighSurrogate u then
      match r with
      | [] => 0
      | v :: r' => if isLowSurrogate v then 2 + utf16ValidUpTo r' else 0
    else if isLowSurrogate u then 0
    else 1 + utf16ValidUpTo r

end EncodingRs.Spec
