import EncodingRs.Model.Core
import EncodingRs.Spec.IndexData
import EncodingRs.Spec.IndexData2
/-!
# The decoders of the WHATWG Encoding Standard, transcribed

(https://encoding.spec.whatwg.org, sections 4.1 "Encoders and decoders", 5 "Indexes",
8–14 the individual decoders.)  Only `Model.Ev` is taken from `Model/Core.lean`
(the event type: `cp c` = a scalar value was output, `err start len` = an error whose
malformed sequence is the `len` stream bytes starting at absolute offset `start`).

* A **handler** takes the decoder's state and an *item* (`some byte` or `none` =
  end-of-queue) and answers with the new state, the bytes it *restores* to the I/O
  queue (prepended, first element becomes the head) and one of the Standard's results
  `finished`, `continue`, one or more code points, `error`.
* **Error spans.**  The Standard does not say which bytes an error is "about".  Every
  `return error` below is annotated `error len after` following DESIGN.md Appendix A:
  the malformed sequence is the `len` bytes that end `after` bytes before the read
  position of the I/O queue *after the handler's restores have been applied*
  (`after ≠ 0` only where a later, well-formed unit has already been consumed and still
  takes effect: ISO-2022-JP escape sequences).  This annotation is the agreed reading
  of the crate documentation's "malformed sequence"; it is part of the trusted base.
* **run** ("process a queue" / "process an item" of 4.1): items are read from the
  queue (reading from an empty queue yields end-of-queue and leaves it in place) and
  handed to the handler until it returns `finished`.  `continue` and code points are
  as in the Standard; an `error` is *recorded* (`Ev.err`) and the loop goes on, which
  is the Standard's error mode "replacement" with the error in place of the pushed
  U+FFFD (`Thm.C02.textOf true` puts the U+FFFD back; the crate's
  `*_without_replacement` API reports each of these errors and goes on in the same way).
  Given twice: the relation `Runs` (what the theorems are about; deterministic) and the
  fuelled function `runFuel` / `run` (what the driver executes), linked by
  `runFuel_sound` / `runFuel_complete`.
-/
namespace EncodingRs.Spec.Decode
open EncodingRs.Model (Ev)

/-- what a handler returns -/
inductive Action
  | finished
  | continue
  | emit (cps : List Nat)
  | error (len after : Nat)
deriving DecidableEq, Repr

structure HRes (σ : Type) where
  st : σ
  /-- "restore … to ioQueue": prepended in this order -/
  restore : List Nat
  act : Action
deriving DecidableEq, Repr

structure Decoder where
  σ : Type
  init : σ
  handler : σ → Option Nat → HRes σ

/-- "index code point for pointer in index": 0 in the vendored arrays = no entry = null -/
def indexCodePoint (index : Array Nat) (pointer : Nat) : Option Nat :=
  let c := index.getD pointer 0
  if c = 0 then none else some c

/-- index jis0208 (pointers 0 … 11279): the two vendored parts, see spec/PROVENANCE.md -/
def jis0208 : Array Nat := indexJis0208 ++ indexJis0208Tail

/-! ## 4.1 the run loop -/

structure Cfg (σ : Type) where
  st : σ
  /-- the I/O queue (end-of-queue implicit at the end) -/
  queue : List Nat
  /-- number of stream bytes before the head of the queue -/
  pos : Nat

def evsOf (act : Action) (pos : Nat) : List Ev :=
  match act with
  | .emit cps => cps.map Ev.cp
  | .error len after => [Ev.err (pos - after - len) len]
  | _ => []

/-- "process an item" for an item that has just been read (`pos` = read position after it) -/
def stepItem (D : Decoder) (st : D.σ) (item : Option Nat) (queue : List Nat) (pos : Nat) :
    Option (Cfg D.σ × List Ev) :=
  let r := D.handler st item
  if r.act = .finished then none
  else some (⟨r.st, r.restore ++ queue, pos - r.restore.length⟩, evsOf r.act (pos - r.restore.length))

/-- read an item and process it; `none` = the handler returned `finished` -/
def stepFn (D : Decoder) (c : Cfg D.σ) : Option (Cfg D.σ × List Ev) :=
  match c.queue with
  | [] => stepItem D c.st none [] c.pos
  | b :: q => stepItem D c.st (some b) q (c.pos + 1)

/-- `n` iterations of the loop -/
inductive Steps (D : Decoder) : Nat → Cfg D.σ → List Ev → Cfg D.σ → Prop
  | refl (c : Cfg D.σ) : Steps D 0 c [] c
  | step {n : Nat} {c c' c'' : Cfg D.σ} {e es : List Ev} :
      stepFn D c = some (c', e) → Steps D n c' es c'' → Steps D (n + 1) c (e ++ es) c''

/-- the decoder, run on the byte sequence `bytes` as a complete stream, outputs `evs` -/
def Runs (D : Decoder) (bytes : List Nat) (evs : List Ev) : Prop :=
  ∃ n c, Steps D n ⟨D.init, bytes, 0⟩ evs c ∧ stepFn D c = none

def runFuel (D : Decoder) : Nat → Cfg D.σ → Option (List Ev)
  | 0, _ => none
  | n + 1, c =>
    match stepFn D c with
    | none => some []
    | some (c', e) => (runFuel D n c').map (e ++ ·)

theorem runFuel_sound (D : Decoder) : ∀ (n : Nat) (c : Cfg D.σ) (evs : List Ev),
    runFuel D n c = some evs → ∃ m c', Steps D m c evs c' ∧ stepFn D c' = none := by
  intro n
  induction n with
  | zero => intro c evs h; cases h
  | succ n ih =>
    intro c evs h
    unfold runFuel at h
    cases hs : stepFn D c with
    | none =>
      simp only [hs, Option.some.injEq] at h
      subst h
      exact ⟨0, c, .refl c, hs⟩
    | some p =>
      obtain ⟨c', e⟩ := p
      simp only [hs] at h
      cases hr : runFuel D n c' with
      | none => simp [hr] at h
      | some es =>
        simp only [hr, Option.map_some, Option.some.injEq] at h
        subst h
        obtain ⟨m, c'', hst, hfin⟩ := ih c' es hr
        exact ⟨m + 1, c'', .step hs hst, hfin⟩

theorem runFuel_complete (D : Decoder) : ∀ (m : Nat) (c c' : Cfg D.σ) (evs : List Ev),
    Steps D m c evs c' → stepFn D c' = none → ∀ n, m < n → runFuel D n c = some evs := by
  intro m c c' evs h
  induction h with
  | refl c =>
    intro hfin n hn
    cases n with
    | zero => omega
    | succ n => simp [runFuel, hfin]
  | step hs _ ih =>
    intro hfin n hn
    cases n with
    | zero => omega
    | succ n =>
      unfold runFuel
      simp only [hs]
      rw [ih hfin n (by omega)]
      rfl

theorem Steps_det (D : Decoder) : ∀ (m : Nat) (c c₁ : Cfg D.σ) (e₁ : List Ev), Steps D m c e₁ c₁ →
    stepFn D c₁ = none → ∀ (m₂ : Nat) (c₂ : Cfg D.σ) (e₂ : List Ev), Steps D m₂ c e₂ c₂ → stepFn D c₂ = none →
    e₁ = e₂ := by
  intro m c c₁ e₁ h
  induction h with
  | refl c =>
    intro hfin m₂ c₂ e₂ h₂ _
    cases h₂ with
    | refl => rfl
    | step hs _ => rw [hfin] at hs; cases hs
  | step hs _ ih =>
    intro hfin m₂ c₂ e₂ h₂ hfin₂
    cases h₂ with
    | refl => rw [hfin₂] at hs; cases hs
    | step hs₂ hrest =>
      rw [hs] at hs₂
      cases hs₂
      rw [ih hfin _ _ _ hrest hfin₂]

/-- the Standard's decoder is deterministic: a byte sequence has one output -/
theorem Runs_det (D : Decoder) (bytes : List Nat) (e₁ e₂ : List Ev)
    (h₁ : Runs D bytes e₁) (h₂ : Runs D bytes e₂) : e₁ = e₂ := by
  obtain ⟨n₁, c₁, s₁, f₁⟩ := h₁
  obtain ⟨n₂, c₂, s₂, f₂⟩ := h₂
  exact Steps_det D _ _ _ _ s₁ f₁ _ _ _ s₂ f₂

theorem Steps_trans (D : Decoder) {n m : Nat} {c c' c'' : Cfg D.σ} {e e' : List Ev}
    (h : Steps D n c e c') (h' : Steps D m c' e' c'') : Steps D (n + m) c (e ++ e') c'' := by
  induction h with
  | refl c => simpa using h'
  | step hs _ ih =>
    have := Steps.step hs (ih h')
    rw [List.append_assoc]
    have e : ∀ a b : Nat, a + 1 + b = a + b + 1 := by omega
    rw [e]
    exact this

/-- enough iterations for every decoder of the Standard (each byte is looked at a bounded
number of times; `Lemmas/Conform.lean` proves the bound through the simulation) -/
def fuelFor (len : Nat) : Nat := 256 * len + 512

/-- the executable decoder: the output for a complete stream -/
def run (D : Decoder) (bytes : List Nat) : List Ev :=
  (runFuel D (fuelFor bytes.length) ⟨D.init, bytes, 0⟩).getD []

/-! ## 8 UTF-8 decoder (8.1.1) -/

structure Utf8 where
  codePoint : Nat
  bytesSeen : Nat
  bytesNeeded : Nat
  lower : Nat
  upper : Nat
deriving DecidableEq, Repr

def utf8Handler (s : Utf8) : Option Nat → HRes Utf8
  -- 1. end-of-queue and bytes needed is not 0: set bytes needed to 0, return error
  -- 2. end-of-queue: finished
  | none =>
    if s.bytesNeeded ≠ 0 then ⟨⟨s.codePoint, s.bytesSeen, 0, s.lower, s.upper⟩, [], .error (s.bytesSeen + 1) 0⟩
    else ⟨s, [], .finished⟩
  | some byte =>
    -- 3. bytes needed is 0: based on byte
    if s.bytesNeeded = 0 then
      if byte ≤ 0x7F then ⟨s, [], .emit [byte]⟩
      else if 0xC2 ≤ byte ∧ byte ≤ 0xDF then
        -- set bytes needed to 1 and code point to byte & 0x1F
        ⟨⟨byte &&& 0x1F, s.bytesSeen, 1, s.lower, s.upper⟩, [], .continue⟩
      else if 0xE0 ≤ byte ∧ byte ≤ 0xEF then
        -- if byte is 0xE0, set lower boundary to 0xA0; if byte is 0xED, set upper boundary to 0x9F;
        -- set bytes needed to 2 and code point to byte & 0xF
        ⟨⟨byte &&& 0xF, s.bytesSeen, 2, if byte = 0xE0 then 0xA0 else s.lower, if byte = 0xED then 0x9F else s.upper⟩,
          [], .continue⟩
      else if 0xF0 ≤ byte ∧ byte ≤ 0xF4 then
        -- if byte is 0xF0, set lower boundary to 0x90; if byte is 0xF4, set upper boundary to 0x8F;
        -- set bytes needed to 3 and code point to byte & 0x7
        ⟨⟨byte &&& 0x7, s.bytesSeen, 3, if byte = 0xF0 then 0x90 else s.lower, if byte = 0xF4 then 0x8F else s.upper⟩,
          [], .continue⟩
      else ⟨s, [], .error 1 0⟩
    -- 4. byte not in lower..upper: reset everything, restore byte, return error
    else if ¬ (s.lower ≤ byte ∧ byte ≤ s.upper) then
      ⟨⟨0, 0, 0, 0x80, 0xBF⟩, [byte], .error (s.bytesSeen + 1) 0⟩
    else
      -- 5. boundaries back to 0x80 / 0xBF  6. code point = (code point << 6) | (byte & 0x3F)  7. bytes seen + 1
      let codePoint := (s.codePoint <<< 6) ||| (byte &&& 0x3F)
      let bytesSeen := s.bytesSeen + 1
      -- 8. not complete: continue; 9.–11. return the code point, reset code point, bytes needed, bytes seen
      if bytesSeen ≠ s.bytesNeeded then ⟨⟨codePoint, bytesSeen, s.bytesNeeded, 0x80, 0xBF⟩, [], .continue⟩
      else ⟨⟨0, 0, 0, 0x80, 0xBF⟩, [], .emit [codePoint]⟩

def utf8 : Decoder := ⟨Utf8, ⟨0, 0, 0, 0x80, 0xBF⟩, utf8Handler⟩

/-! ## 9 single-byte decoder (9.1) -/

def singleByteHandler (index : Array Nat) (_ : Unit) : Option Nat → HRes Unit
  | none => ⟨(), [], .finished⟩
  | some byte =>
    if byte ≤ 0x7F then ⟨(), [], .emit [byte]⟩
    else match indexCodePoint index (byte - 0x80) with
      | none => ⟨(), [], .error 1 0⟩
      | some cp => ⟨(), [], .emit [cp]⟩

def singleByte (index : Array Nat) : Decoder := ⟨Unit, (), singleByteHandler index⟩

/-! ## 10.2 gb18030 decoder (GBK's decoder is gb18030's decoder, 10.1) -/

/-- "index gb18030 ranges code point for pointer" (5) -/
def gb18030RangesCodePoint (pointer : Nat) : Option Nat :=
  if (pointer > 39419 ∧ pointer < 189000) ∨ pointer > 1237575 then none
  else if pointer = 7457 then some 0xE7C7
  else
    -- the last pointer in index gb18030 ranges that is ≤ pointer, and its code point
    match (indexGb18030Ranges.filter (fun e => e.1 ≤ pointer)).getLast? with
    | some (offset, codePointOffset) => some (codePointOffset + pointer - offset)
    | none => none

structure Gb18030 where
  first : Nat
  second : Nat
  third : Nat
deriving DecidableEq, Repr

def gb18030Handler (s : Gb18030) : Option Nat → HRes Gb18030
  -- 1. end-of-queue, nothing pending: finished.  2. otherwise clear and return error
  | none =>
    if s.first = 0 ∧ s.second = 0 ∧ s.third = 0 then ⟨s, [], .finished⟩
    else ⟨⟨0, 0, 0⟩, [], .error ((if s.first ≠ 0 then 1 else 0) + (if s.second ≠ 0 then 1 else 0) + (if s.third ≠ 0 then 1 else 0)) 0⟩
  | some byte =>
    -- 3. third is set
    if s.third ≠ 0 then
      if ¬ (0x30 ≤ byte ∧ byte ≤ 0x39) then ⟨⟨0, 0, 0⟩, [s.second, s.third, byte], .error 1 0⟩
      else
        match gb18030RangesCodePoint ((s.first - 0x81) * (10 * 126 * 10) + (s.second - 0x30) * (10 * 126) + (s.third - 0x81) * 10 + byte - 0x30) with
        | none => ⟨⟨0, 0, 0⟩, [], .error 4 0⟩
        | some cp => ⟨⟨0, 0, 0⟩, [], .emit [cp]⟩
    -- 4. second is set
    else if s.second ≠ 0 then
      if 0x81 ≤ byte ∧ byte ≤ 0xFE then ⟨{ s with third := byte }, [], .continue⟩
      else ⟨⟨0, 0, 0⟩, [s.second, byte], .error 1 0⟩
    -- 5. first is set
    else if s.first ≠ 0 then
      if 0x30 ≤ byte ∧ byte ≤ 0x39 then ⟨{ s with second := byte }, [], .continue⟩
      else
        let lead := s.first
        let offset := if byte < 0x7F then 0x40 else 0x41
        let pointer : Option Nat :=
          if (0x40 ≤ byte ∧ byte ≤ 0x7E) ∨ (0x80 ≤ byte ∧ byte ≤ 0xFE) then some ((lead - 0x81) * 190 + (byte - offset)) else none
        match pointer.bind (indexCodePoint indexGb18030) with
        | some cp => ⟨⟨0, 0, 0⟩, [], .emit [cp]⟩
        | none => if byte ≤ 0x7F then ⟨⟨0, 0, 0⟩, [byte], .error 1 0⟩ else ⟨⟨0, 0, 0⟩, [], .error 2 0⟩
    -- 6. ASCII  7. 0x80  8. lead  9. error
    else if byte ≤ 0x7F then ⟨s, [], .emit [byte]⟩
    else if byte = 0x80 then ⟨s, [], .emit [0x20AC]⟩
    else if 0x81 ≤ byte ∧ byte ≤ 0xFE then ⟨{ s with first := byte }, [], .continue⟩
    else ⟨s, [], .error 1 0⟩

def gb18030 : Decoder := ⟨Gb18030, ⟨0, 0, 0⟩, gb18030Handler⟩

/-! ## 11.1 Big5 decoder -/

def big5Handler (lead : Nat) : Option Nat → HRes Nat
  | none => if lead ≠ 0 then ⟨0, [], .error 1 0⟩ else ⟨lead, [], .finished⟩
  | some byte =>
    if lead ≠ 0 then
      let offset := if byte < 0x7F then 0x40 else 0x62
      let pointer : Option Nat :=
        if (0x40 ≤ byte ∧ byte ≤ 0x7E) ∨ (0xA1 ≤ byte ∧ byte ≤ 0xFE) then some ((lead - 0x81) * 157 + (byte - offset)) else none
      -- the table of two-code-point results
      if pointer = some 1133 then ⟨0, [], .emit [0x00CA, 0x0304]⟩
      else if pointer = some 1135 then ⟨0, [], .emit [0x00CA, 0x030C]⟩
      else if pointer = some 1164 then ⟨0, [], .emit [0x00EA, 0x0304]⟩
      else if pointer = some 1166 then ⟨0, [], .emit [0x00EA, 0x030C]⟩
      else match pointer.bind (indexCodePoint indexBig5) with
        | some cp => ⟨0, [], .emit [cp]⟩
        | none => if byte ≤ 0x7F then ⟨0, [byte], .error 1 0⟩ else ⟨0, [], .error 2 0⟩
    else if byte ≤ 0x7F then ⟨0, [], .emit [byte]⟩
    else if 0x81 ≤ byte ∧ byte ≤ 0xFE then ⟨byte, [], .continue⟩
    else ⟨0, [], .error 1 0⟩

def big5 : Decoder := ⟨Nat, 0, big5Handler⟩

/-! ## 12.1 EUC-JP decoder -/

structure EucJp where
  jis0212 : Bool
  lead : Nat
deriving DecidableEq, Repr

def eucJpHandler (s : EucJp) : Option Nat → HRes EucJp
  -- (the malformed sequence at end-of-queue includes the 0x8F that set the jis0212 flag)
  | none => if s.lead ≠ 0 then ⟨{ s with lead := 0 }, [], .error (if s.jis0212 then 2 else 1) 0⟩ else ⟨s, [], .finished⟩
  | some byte =>
    -- 3. half-width katakana
    if s.lead = 0x8E ∧ 0xA1 ≤ byte ∧ byte ≤ 0xDF then ⟨{ s with lead := 0 }, [], .emit [0xFF61 - 0xA1 + byte]⟩
    -- 4. JIS X 0212 lead
    else if s.lead = 0x8F ∧ 0xA1 ≤ byte ∧ byte ≤ 0xFE then ⟨{ jis0212 := true, lead := byte }, [], .continue⟩
    -- 5. trail
    else if s.lead ≠ 0 then
      let lead := s.lead
      let codePoint : Option Nat :=
        if (0xA1 ≤ lead ∧ lead ≤ 0xFE) ∧ (0xA1 ≤ byte ∧ byte ≤ 0xFE) then
          indexCodePoint (if s.jis0212 then indexJis0212 else jis0208) ((lead - 0xA1) * 94 + byte - 0xA1)
        else none
      match codePoint with
      | some cp => ⟨⟨false, 0⟩, [], .emit [cp]⟩
      | none =>
        -- the malformed sequence: the lead (and the 0x8F before it), plus the byte unless it is restored
        let n := if s.jis0212 then 2 else 1
        if byte ≤ 0x7F then ⟨⟨false, 0⟩, [byte], .error n 0⟩ else ⟨⟨false, 0⟩, [], .error (n + 1) 0⟩
    else if byte ≤ 0x7F then ⟨s, [], .emit [byte]⟩
    else if byte = 0x8E ∨ byte = 0x8F ∨ (0xA1 ≤ byte ∧ byte ≤ 0xFE) then ⟨{ s with lead := byte }, [], .continue⟩
    else ⟨s, [], .error 1 0⟩

def eucJp : Decoder := ⟨EucJp, ⟨false, 0⟩, eucJpHandler⟩

/-! ## 12.2 ISO-2022-JP decoder -/

inductive IsoState | ascii | roman | katakana | leadByte | trailByte | escapeStart | escape
deriving DecidableEq, Repr

structure Iso2022Jp where
  state : IsoState
  outputState : IsoState
  lead : Nat
  output : Bool
deriving DecidableEq, Repr

def iso2022JpHandler (s : Iso2022Jp) (item : Option Nat) : HRes Iso2022Jp :=
  match s.state with
  | .ascii =>
    match item with
    | some byte =>
      if byte = 0x1B then ⟨{ s with state := .escapeStart }, [], .continue⟩
      else if byte ≤ 0x7F ∧ byte ≠ 0x0E ∧ byte ≠ 0x0F then ⟨{ s with output := false }, [], .emit [byte]⟩
      else ⟨{ s with output := false }, [], .error 1 0⟩
    | none => ⟨s, [], .finished⟩
  | .roman =>
    match item with
    | some byte =>
      if byte = 0x1B then ⟨{ s with state := .escapeStart }, [], .continue⟩
      else if byte = 0x5C then ⟨{ s with output := false }, [], .emit [0x00A5]⟩
      else if byte = 0x7E then ⟨{ s with output := false }, [], .emit [0x203E]⟩
      else if byte ≤ 0x7F ∧ byte ≠ 0x0E ∧ byte ≠ 0x0F then ⟨{ s with output := false }, [], .emit [byte]⟩
      else ⟨{ s with output := false }, [], .error 1 0⟩
    | none => ⟨s, [], .finished⟩
  | .katakana =>
    match item with
    | some byte =>
      if byte = 0x1B then ⟨{ s with state := .escapeStart }, [], .continue⟩
      else if 0x21 ≤ byte ∧ byte ≤ 0x5F then ⟨{ s with output := false }, [], .emit [0xFF61 - 0x21 + byte]⟩
      else ⟨{ s with output := false }, [], .error 1 0⟩
    | none => ⟨s, [], .finished⟩
  | .leadByte =>
    match item with
    | some byte =>
      if byte = 0x1B then ⟨{ s with state := .escapeStart }, [], .continue⟩
      else if 0x21 ≤ byte ∧ byte ≤ 0x7E then ⟨{ s with output := false, lead := byte, state := .trailByte }, [], .continue⟩
      else ⟨{ s with output := false }, [], .error 1 0⟩
    | none => ⟨s, [], .finished⟩
  | .trailByte =>
    match item with
    | some byte =>
      -- the lead byte is the malformed sequence; the ESC after it has been consumed and starts an escape
      if byte = 0x1B then ⟨{ s with state := .escapeStart }, [], .error 1 1⟩
      else if 0x21 ≤ byte ∧ byte ≤ 0x7E then
        match indexCodePoint jis0208 ((s.lead - 0x21) * 94 + byte - 0x21) with
        | none => ⟨{ s with state := .leadByte }, [], .error 2 0⟩
        | some cp => ⟨{ s with state := .leadByte }, [], .emit [cp]⟩
      else ⟨{ s with state := .leadByte }, [], .error 2 0⟩
    | none => ⟨{ s with state := .leadByte }, [], .error 1 0⟩
  | .escapeStart =>
    match item with
    | some byte =>
      if byte = 0x24 ∨ byte = 0x28 then ⟨{ s with lead := byte, state := .escape }, [], .continue⟩
      else ⟨{ s with output := false, state := s.outputState }, [byte], .error 1 0⟩
    | none => ⟨{ s with output := false, state := s.outputState }, [], .error 1 0⟩
  | .escape =>
    let lead := s.lead
    let s := { s with lead := 0 }
    let state : Option IsoState :=
      match item with
      | some byte =>
        if lead = 0x28 ∧ byte = 0x42 then some .ascii
        else if lead = 0x28 ∧ byte = 0x4A then some .roman
        else if lead = 0x28 ∧ byte = 0x49 then some .katakana
        else if lead = 0x24 ∧ (byte = 0x40 ∨ byte = 0x42) then some .leadByte
        else none
      | none => none
    match state with
    | some st =>
      let output := s.output
      let s := { s with state := st, outputState := st, output := true }
      -- "return error if output is true": the previous escape sequence (3 bytes) had no effect;
      -- this one (3 bytes) has been consumed after it and takes effect
      if output then ⟨s, [], .error 3 3⟩ else ⟨s, [], .continue⟩
    | none =>
      -- the ESC is the malformed sequence; lead (and byte) go back to the queue
      ⟨{ s with output := false, state := s.outputState },
        match item with
        | none => [lead]
        | some byte => [lead, byte],
        .error 1 0⟩

def iso2022Jp : Decoder := ⟨Iso2022Jp, ⟨.ascii, .ascii, 0, false⟩, iso2022JpHandler⟩

/-! ## 12.3 Shift_JIS decoder -/

def shiftJisHandler (lead : Nat) : Option Nat → HRes Nat
  | none => if lead ≠ 0 then ⟨0, [], .error 1 0⟩ else ⟨lead, [], .finished⟩
  | some byte =>
    if lead ≠ 0 then
      let offset := if byte < 0x7F then 0x40 else 0x41
      let leadOffset := if lead < 0xA0 then 0x81 else 0xC1
      let pointer : Option Nat :=
        if (0x40 ≤ byte ∧ byte ≤ 0x7E) ∨ (0x80 ≤ byte ∧ byte ≤ 0xFC) then some ((lead - leadOffset) * 188 + byte - offset) else none
      -- 3.4 end-user-defined characters
      match pointer with
      | some p =>
        if 8836 ≤ p ∧ p ≤ 10715 then ⟨0, [], .emit [0xE000 - 8836 + p]⟩
        else match indexCodePoint jis0208 p with
          | some cp => ⟨0, [], .emit [cp]⟩
          | none => if byte ≤ 0x7F then ⟨0, [byte], .error 1 0⟩ else ⟨0, [], .error 2 0⟩
      | none => if byte ≤ 0x7F then ⟨0, [byte], .error 1 0⟩ else ⟨0, [], .error 2 0⟩
    else if byte ≤ 0x7F ∨ byte = 0x80 then ⟨0, [], .emit [byte]⟩
    else if 0xA1 ≤ byte ∧ byte ≤ 0xDF then ⟨0, [], .emit [0xFF61 - 0xA1 + byte]⟩
    else if (0x81 ≤ byte ∧ byte ≤ 0x9F) ∨ (0xE0 ≤ byte ∧ byte ≤ 0xFC) then ⟨byte, [], .continue⟩
    else ⟨0, [], .error 1 0⟩

def shiftJis : Decoder := ⟨Nat, 0, shiftJisHandler⟩

/-! ## 13.1 EUC-KR decoder -/

def eucKrHandler (lead : Nat) : Option Nat → HRes Nat
  | none => if lead ≠ 0 then ⟨0, [], .error 1 0⟩ else ⟨lead, [], .finished⟩
  | some byte =>
    if lead ≠ 0 then
      let pointer : Option Nat :=
        if 0x41 ≤ byte ∧ byte ≤ 0xFE then some ((lead - 0x81) * 190 + (byte - 0x41)) else none
      match pointer.bind (indexCodePoint indexEucKr) with
      | some cp => ⟨0, [], .emit [cp]⟩
      | none => if byte ≤ 0x7F then ⟨0, [byte], .error 1 0⟩ else ⟨0, [], .error 2 0⟩
    else if byte ≤ 0x7F then ⟨0, [], .emit [byte]⟩
    else if 0x81 ≤ byte ∧ byte ≤ 0xFE then ⟨byte, [], .continue⟩
    else ⟨0, [], .error 1 0⟩

def eucKr : Decoder := ⟨Nat, 0, eucKrHandler⟩

/-! ## 14.1 replacement decoder -/

def replacementHandler (errorReturned : Bool) : Option Nat → HRes Bool
  | none => ⟨errorReturned, [], .finished⟩
  | some _ => if errorReturned = false then ⟨true, [], .error 1 0⟩ else ⟨errorReturned, [], .finished⟩

def replacement : Decoder := ⟨Bool, false, replacementHandler⟩

/-! ## 14.2 shared UTF-16 decoder (14.3 UTF-16BE, 14.4 UTF-16LE) -/

structure Utf16 where
  leadingByte : Option Nat
  leadingSurrogate : Option Nat
deriving DecidableEq, Repr

def isLeadingSurrogate (u : Nat) : Bool := 0xD800 ≤ u ∧ u ≤ 0xDBFF
def isTrailingSurrogate (u : Nat) : Bool := 0xDC00 ≤ u ∧ u ≤ 0xDFFF

def utf16Handler (be : Bool) (s : Utf16) : Option Nat → HRes Utf16
  -- 1. end-of-queue with something pending: error (the pending surrogate's 2 bytes and/or the odd byte)
  | none =>
    if s.leadingByte.isSome ∨ s.leadingSurrogate.isSome then
      ⟨⟨none, none⟩, [], .error ((if s.leadingSurrogate.isSome then 2 else 0) + (if s.leadingByte.isSome then 1 else 0)) 0⟩
    else ⟨s, [], .finished⟩
  | some byte =>
    match s.leadingByte with
    | none => ⟨{ s with leadingByte := some byte }, [], .continue⟩
    | some leadingByte =>
      let codeUnit := if be then (leadingByte <<< 8) + byte else (byte <<< 8) + leadingByte
      match s.leadingSurrogate with
      | some leadingSurrogate =>
        if isTrailingSurrogate codeUnit then
          ⟨⟨none, none⟩, [], .emit [0x10000 + ((leadingSurrogate - 0xD800) <<< 10) + (codeUnit - 0xDC00)]⟩
        else
          let byte1 := codeUnit >>> 8
          let byte2 := codeUnit &&& 0x00FF
          ⟨⟨none, none⟩, if be then [byte1, byte2] else [byte2, byte1], .error 2 0⟩
      | none =>
        if isLeadingSurrogate codeUnit then ⟨⟨none, some codeUnit⟩, [], .continue⟩
        else if isTrailingSurrogate codeUnit then ⟨⟨none, none⟩, [], .error 2 0⟩
        else ⟨⟨none, none⟩, [], .emit [codeUnit]⟩

def utf16 (be : Bool) : Decoder := ⟨Utf16, ⟨none, none⟩, utf16Handler be⟩

/-! ## 14.5 x-user-defined decoder -/

def userDefinedHandler (_ : Unit) : Option Nat → HRes Unit
  | none => ⟨(), [], .finished⟩
  | some byte => if byte ≤ 0x7F then ⟨(), [], .emit [byte]⟩ else ⟨(), [], .emit [0xF780 + byte - 0x80]⟩

def userDefined : Decoder := ⟨Unit, (), userDefinedHandler⟩

/-! ## the 40 encodings by name (4.2 "Names and labels": name ↦ decoder) -/

def singleByteIndex (name : String) : Array Nat :=
  match singleByteIndexes.find? (·.1 == name) with
  | some (_, a) => a
  | none => #[]

/-- which decoder (and, for the single-byte ones, which index) an encoding uses -/
inductive Kind
  | utf8 | gb18030 | big5 | eucJp | iso2022Jp | shiftJis | eucKr | replacement | utf16 (be : Bool) | userDefined
  | singleByte (index : String)
deriving DecidableEq, Repr

def kindOfName (name : String) : Option Kind :=
  match name with
  | "UTF-8" => some .utf8
  | "GBK" => some .gb18030        -- "GBK's decoder is gb18030's decoder"
  | "gb18030" => some .gb18030
  | "Big5" => some .big5
  | "EUC-JP" => some .eucJp
  | "ISO-2022-JP" => some .iso2022Jp
  | "Shift_JIS" => some .shiftJis
  | "EUC-KR" => some .eucKr
  | "replacement" => some .replacement
  | "UTF-16BE" => some (.utf16 true)
  | "UTF-16LE" => some (.utf16 false)
  | "x-user-defined" => some .userDefined
  | "ISO-8859-8-I" => some (.singleByte "ISO-8859-8")   -- ISO-8859-8-I uses index ISO-8859-8
  | n => if singleByteIndexes.any (·.1 == n) then some (.singleByte n) else none

def decoderOfKind : Kind → Decoder
  | .utf8 => utf8
  | .gb18030 => gb18030
  | .big5 => big5
  | .eucJp => eucJp
  | .iso2022Jp => iso2022Jp
  | .shiftJis => shiftJis
  | .eucKr => eucKr
  | .replacement => replacement
  | .utf16 be => utf16 be
  | .userDefined => userDefined
  | .singleByte index => singleByte (singleByteIndex index)

def decoderOfName (name : String) : Option Decoder := (kindOfName name).map decoderOfKind

def runUtf8 := run utf8
def runUtf16 (be : Bool) := run (utf16 be)
def runSingleByte (index : Array Nat) := run (singleByte index)
def runGb18030 := run gb18030
def runBig5 := run big5
def runEucJp := run eucJp
def runIso2022Jp := run iso2022Jp
def runShiftJis := run shiftJis
def runEucKr := run eucKr
def runReplacement := run replacement
def runUserDefined := run userDefined

end EncodingRs.Spec.Decode
