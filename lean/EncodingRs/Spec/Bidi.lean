/-!
# Specification for C16 (mem classification and bidi checks)

Import-free. Everything here is written from the *documentation* of
`encoding_rs::mem` and from the Unicode Standard, not from the function bodies.

* `isRtlScalar` / `isRtlUnit` — the documented right-to-left block list. Source:
  the block list in the comment of `is_char_bidi` (mem.rs, "Controls … BMP RTL …
  Supplementary RTL …") which spells out the prose of the doc comments
  ("on a Unicode block basis …, Hebrew presentation forms … treated as if they
  formed a block on their own, … the four RIGHT-TO-LEFT FOO controls in General
  Punctuation …, U+FEFF is excluded from Arabic Presentation Forms-B"), and for
  code units the doc comment of `is_utf16_code_unit_bidi` ("returns `true` for
  such high surrogates"):

      U+200F RLM, U+202B RLE, U+202E RLO, U+2067 RLI
      U+0590...U+08FF
      U+FB1D...U+FDFF   Hebrew presentation forms and Arabic Presentation Forms A
      U+FE70...U+FEFE   Arabic Presentation Forms B (excl. BOM)
      U+10800...U+10FFF (Lead surrogate U+D802 or U+D803)
      U+1E800...U+1EFFF (Lead surrogate U+D83A or U+D83B)

* naive per-unit definitions `allAscii`, `allBasicLatin`, `allLatin1`, `anyRtlUnit`, …
* well-formed UTF-8 (Unicode Standard, Table 3-7) as a decoder
  `decodeUtf8 : List Nat → Option (List Nat)` and the encoder `encodeUtf8`.

Bytes, code units and scalar values are `Nat`.
-/
namespace EncodingRs.Spec.Bidi

/-! ## The documented right-to-left block list -/

/-- the four controls with RIGHT-TO-LEFT in their name (General Punctuation) -/
def isRtlControl (c : Nat) : Bool := c == 0x200F || c == 0x202B || c == 0x202E || c == 0x2067

/-- BMP right-to-left blocks of the list -/
def isRtlBmpBlock (c : Nat) : Bool :=
  (0x0590 ≤ c && c ≤ 0x08FF) || (0xFB1D ≤ c && c ≤ 0xFDFF) || (0xFE70 ≤ c && c ≤ 0xFEFE)

/-- supplementary right-to-left blocks of the list -/
def isRtlAstralBlock (c : Nat) : Bool :=
  (0x10800 ≤ c && c ≤ 0x10FFF) || (0x1E800 ≤ c && c ≤ 0x1EFFF)

/-- a scalar value triggers right-to-left processing (documented list) -/
def isRtlScalar (c : Nat) : Bool := isRtlControl c || isRtlBmpBlock c || isRtlAstralBlock c

/-- the lead (high) surrogates of the two supplementary blocks -/
def isRtlLeadSurrogate (u : Nat) : Bool := u == 0xD802 || u == 0xD803 || u == 0xD83A || u == 0xD83B

/-- a UTF-16 code unit triggers right-to-left processing (documented list) -/
def isRtlUnit (u : Nat) : Bool := isRtlControl u || isRtlBmpBlock u || isRtlLeadSurrogate u

/-! ## Naive per-unit definitions -/

/-- every byte is ASCII -/
def allAscii (bs : List Nat) : Bool := bs.all (fun b => decide (b < 0x80))
/-- every UTF-16 code unit is Basic Latin -/
def allBasicLatin (us : List Nat) : Bool := us.all (fun u => decide (u < 0x80))
/-- every UTF-16 code unit / scalar value is at most U+00FF -/
def allLatin1 (us : List Nat) : Bool := us.all (fun u => decide (u ≤ 0xFF))
/-- some scalar value is right-to-left -/
def anyRtlScalar (cs : List Nat) : Bool := cs.any isRtlScalar
/-- some code unit is right-to-left -/
def anyRtlUnit (us : List Nat) : Bool := us.any isRtlUnit

/-- the three-way answer of the `check_*_for_latin1_and_bidi` functions -/
inductive Latin1Bidi where
  | latin1 | leftToRight | bidi
  deriving DecidableEq, Repr

/-- "Returns `Latin1` if the Latin1 check would return true. Otherwise `Bidi` if the
bidi check would return true. Otherwise `LeftToRight`." -/
def combine (isLatin1 isBidi : Bool) : Latin1Bidi :=
  if isLatin1 then .latin1 else if isBidi then .bidi else .leftToRight

/-! ## UTF-8 (Unicode Standard, D92 and Table 3-7) -/

/-- Unicode scalar value (D76) -/
def isScalar (c : Nat) : Bool := c < 0xD800 || (0xE000 ≤ c && c < 0x110000)

/-- continuation byte `80..BF` -/
def isCont (b : Nat) : Bool := 0x80 ≤ b && b ≤ 0xBF

/-- Table 3-7, second byte of a three-byte sequence:
`E0 A0..BF`, `E1..EC 80..BF`, `ED 80..9F`, `EE..EF 80..BF` -/
def second3Ok (b0 b1 : Nat) : Bool :=
  if b0 == 0xE0 then 0xA0 ≤ b1 && b1 ≤ 0xBF
  else if b0 == 0xED then 0x80 ≤ b1 && b1 ≤ 0x9F
  else 0x80 ≤ b1 && b1 ≤ 0xBF

/-- Table 3-7, second byte of a four-byte sequence:
`F0 90..BF`, `F1..F3 80..BF`, `F4 80..8F` -/
def second4Ok (b0 b1 : Nat) : Bool :=
  if b0 == 0xF0 then 0x90 ≤ b1 && b1 ≤ 0xBF
  else if b0 == 0xF4 then 0x80 ≤ b1 && b1 ≤ 0x8F
  else 0x80 ≤ b1 && b1 ≤ 0xBF

def cp2 (b0 b1 : Nat) : Nat := (b0 - 0xC0) * 0x40 + (b1 - 0x80)
def cp3 (b0 b1 b2 : Nat) : Nat := (b0 - 0xE0) * 0x1000 + (b1 - 0x80) * 0x40 + (b2 - 0x80)
def cp4 (b0 b1 b2 b3 : Nat) : Nat :=
  (b0 - 0xF0) * 0x40000 + (b1 - 0x80) * 0x1000 + (b2 - 0x80) * 0x40 + (b3 - 0x80)

/-- Decoder for well-formed UTF-8 (Table 3-7): the scalar values, or `none` if the
byte sequence is not well-formed (bad lead, bad continuation, overlong form,
surrogate, above U+10FFFF, truncated sequence). -/
def decodeUtf8 : List Nat → Option (List Nat)
  | [] => some []
  | b0 :: r =>
    if b0 < 0x80 then (decodeUtf8 r).map (b0 :: ·)
    else match r with
      | [] => none
      | b1 :: r1 =>
        if 0xC2 ≤ b0 ∧ b0 ≤ 0xDF then
          if isCont b1 then (decodeUtf8 r1).map (cp2 b0 b1 :: ·) else none
        else match r1 with
          | [] => none
          | b2 :: r2 =>
            if 0xE0 ≤ b0 ∧ b0 ≤ 0xEF then
              if second3Ok b0 b1 ∧ isCont b2 then (decodeUtf8 r2).map (cp3 b0 b1 b2 :: ·) else none
            else match r2 with
              | [] => none
              | b3 :: r3 =>
                if 0xF0 ≤ b0 ∧ b0 ≤ 0xF4 then
                  if second4Ok b0 b1 ∧ isCont b2 ∧ isCont b3 then
                    (decodeUtf8 r3).map (cp4 b0 b1 b2 b3 :: ·)
                  else none
                else none

/-- well-formed UTF-8 -/
def validUtf8 (bs : List Nat) : Bool := (decodeUtf8 bs).isSome

/-- UTF-8 encoding form (D92) of one scalar value -/
def encodeScalar (c : Nat) : List Nat :=
  if c < 0x80 then [c]
  else if c < 0x800 then [0xC0 + c / 0x40, 0x80 + c % 0x40]
  else if c < 0x10000 then [0xE0 + c / 0x1000, 0x80 + c / 0x40 % 0x40, 0x80 + c % 0x40]
  else [0xF0 + c / 0x40000, 0x80 + c / 0x1000 % 0x40, 0x80 + c / 0x40 % 0x40, 0x80 + c % 0x40]

def encodeUtf8 (cs : List Nat) : List Nat := cs.flatMap encodeScalar

/-- what `is_utf8_bidi` is documented to return: "`true` if the input is invalid
UTF-8 or the input contains an RTL character" -/
def utf8Bidi (bs : List Nat) : Bool :=
  match decodeUtf8 bs with
  | none => true
  | some cs => anyRtlScalar cs

/-- what `is_utf8_latin1` is documented to return: "valid UTF-8 representing only
code points less than or equal to U+00FF" -/
def utf8Latin1 (bs : List Nat) : Bool :=
  match decodeUtf8 bs with
  | none => false
  | some cs => allLatin1 cs

/-! Examples -/
example : isRtlScalar 0x058F = false ∧ isRtlScalar 0x0590 = true ∧ isRtlScalar 0x08FF = true
    ∧ isRtlScalar 0x0900 = false ∧ isRtlScalar 0xFB1C = false ∧ isRtlScalar 0xFB1D = true
    ∧ isRtlScalar 0xFEFE = true ∧ isRtlScalar 0xFEFF = false ∧ isRtlScalar 0x2067 = true
    ∧ isRtlScalar 0x2066 = false ∧ isRtlScalar 0x10800 = true ∧ isRtlScalar 0x1F000 = false := by decide
example : isRtlUnit 0xD802 = true ∧ isRtlUnit 0xD804 = false ∧ isRtlUnit 0xD83B = true
    ∧ isRtlUnit 0xD83C = false ∧ isRtlUnit 0xDC00 = false := by decide
example : decodeUtf8 [0x61, 0xD6, 0x90, 0xE2, 0x80, 0x8F, 0xF0, 0x90, 0xA0, 0x80] = some [0x61, 0x590, 0x200F, 0x10800] := by decide
example : decodeUtf8 [0xC0, 0x80] = none ∧ decodeUtf8 [0xE0, 0x9F, 0xBF] = none
    ∧ decodeUtf8 [0xED, 0xA0, 0x80] = none ∧ decodeUtf8 [0xF4, 0x90, 0x80, 0x80] = none
    ∧ decodeUtf8 [0xE2, 0x80] = none ∧ decodeUtf8 [0x80] = none := by decide
example : encodeUtf8 [0x61, 0x590, 0x200F, 0x10800] = [0x61, 0xD6, 0x90, 0xE2, 0x80, 0x8F, 0xF0, 0x90, 0xA0, 0x80] := by decide
example : utf8Bidi [0x61, 0xC2] = true ∧ utf8Bidi [0x61, 0xC3, 0xBF] = false
    ∧ utf8Latin1 [0x61, 0xC3, 0xBF] = true ∧ utf8Latin1 [0xC4, 0x80] = false := by decide

end EncodingRs.Spec.Bidi
