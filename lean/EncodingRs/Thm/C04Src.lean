import EncodingRs.Thm.C03
import EncodingRs.Thm.C04
import EncodingRs.Thm.C09Enc
/-!
# C04 — the two source forms agree

`Thm/C04.lean` proves that a protocol-following history over a *text* (`EProto`, items of any
width) yields the reference run of the text.  This module closes the gap to the *source buffers*:

* `utf8_utf16_source_agree` — `Utf8Source` on the UTF-8 form and `Utf16Source` on the UTF-16 form of
  the same text of scalar values read the same characters, namely the text;
* `ESrcProto` — histories of raw calls over actual source buffers (a list of buffers, each UTF-8 or
  UTF-16, the unconsumed part of a buffer re-pushed); `src_history_is_proto` turns such a history into
  an `EProto` history of the text the buffers stand for, `src_history_eq_ref` is the reference run;
* `raw_forms_agree` / `raw_forms_agree_chunked` — for each encoder, ANY history over the UTF-8 form
  and ANY history over the UTF-16 form of the same text (any chunking of the text, any stop decisions)
  produce the same bytes and the same `Unmappable` reports;
* `repl_forms_agree`, `repl_raw_forms_agree` — likewise for the with-replacement methods
  (`Thm.C09Enc.EReplProto`), including `had_unmappables`, and across the two APIs;
* `lossy_utf16_as_utf8`, `lossy_utf16_as_utf8_repl` — a UTF-16 buffer with unpaired surrogates behaves as
  the UTF-8 form of its lossy conversion (`Spec.Conv.decodeUtf16Lossy`: each unpaired surrogate is
  U+FFFD, `unpaired_is_fffd`).
-/
namespace EncodingRs.Thm.C04Src
open EncodingRs EncodingRs.Model EncodingRs.Lemmas.EncCore EncodingRs.Lemmas.EncPotential
open EncodingRs.Lemmas.EncSide EncodingRs.Thm.C04 EncodingRs.Thm.C09Enc

/-- the characters a source buffer yields, in order -/
def charsOf (utf16 : Bool) (src : List Nat) : List Nat := (itemsOfSrc utf16 src).map Prod.fst

theorem charsOf_nil (utf16 : Bool) : charsOf utf16 [] = [] := by
  unfold charsOf; rw [itemsOfSrc_nil]; rfl

/-! ## the two forms of a text read as the text -/

theorem isScalar_lt' (c : Nat) (h : isScalar c = true) : c < 0x110000 := ((isScalar_iff c).mp h).1

/-- lossy UTF-16 decoding inverts the UTF-16 encoding form on scalar values -/
theorem decodeUtf16Lossy_encodeAll : ∀ (text : List Nat), (∀ c ∈ text, isScalar c = true) →
    Spec.Conv.decodeUtf16Lossy (Spec.Conv.utf16EncodeAll text) = text
  | [], _ => by simp [Spec.Conv.utf16EncodeAll, Spec.Conv.decodeUtf16Lossy]
  | c :: t, h => by
    have hc := (isScalar_iff c).mp (h c (List.mem_cons_self ..))
    have ih := decodeUtf16Lossy_encodeAll t (fun x hx => h x (List.mem_cons_of_mem _ hx))
    rw [Spec.Conv.utf16EncodeAll]
    unfold Spec.Conv.utf16Encode
    by_cases hb : c < 0x10000
    · rw [if_pos hb]
      have hh : Spec.Conv.isHighSurrogate c = false := by unfold Spec.Conv.isHighSurrogate; simp; omega
      have hl : Spec.Conv.isLowSurrogate c = false := by unfold Spec.Conv.isLowSurrogate; simp; omega
      rw [List.singleton_append, Spec.Conv.decodeUtf16Lossy.eq_def]
      simp only [hh, hl, Bool.false_eq_true, if_false]
      rw [ih]
    · rw [if_neg hb]
      have hh : Spec.Conv.isHighSurrogate (0xD800 + (c - 0x10000) / 1024) = true := by
        unfold Spec.Conv.isHighSurrogate; simp; omega
      have hl : Spec.Conv.isLowSurrogate (0xDC00 + (c - 0x10000) % 1024) = true := by
        unfold Spec.Conv.isLowSurrogate; simp; omega
      have hv : Spec.Conv.pairValue (0xD800 + (c - 0x10000) / 1024) (0xDC00 + (c - 0x10000) % 1024) = c := by
        unfold Spec.Conv.pairValue; omega
      rw [List.cons_append, List.cons_append, List.nil_append, Spec.Conv.decodeUtf16Lossy.eq_def]
      simp only [hh, hl, if_true]
      rw [ih, hv]

/-- **C04 `utf8_utf16_source_agree`**: for every text of scalar values, what `Utf8Source` reads from
its UTF-8 form and what `Utf16Source` reads from its UTF-16 form is the same character sequence —
the text itself (C03 `utf8_source_reads` / `utf16_source_reads`) -/
theorem utf8_utf16_source_agree (text : List Nat) (ht : ∀ c ∈ text, isScalar c = true) :
    (items8 (Spec.Conv.utf8EncodeAll text)).map Prod.fst = text ∧
    (items16 (Spec.Conv.utf16EncodeAll text)).map Prod.fst = text := by
  refine ⟨?_, ?_⟩
  · rw [Thm.C03.utf8_source_reads text (fun c hc => isScalar_lt' c (ht c hc)), List.map_map]
    simp [Function.comp_def]
  · have := Thm.C03.utf16_source_reads (Spec.Conv.utf16EncodeAll text)
    rw [show (fun x : Nat × Nat => x.1) = Prod.fst from rfl] at this
    rw [this]
    exact decodeUtf16Lossy_encodeAll text ht

theorem charsOf_utf8 (text : List Nat) (ht : ∀ c ∈ text, isScalar c = true) :
    charsOf false (Spec.Conv.utf8EncodeAll text) = text := (utf8_utf16_source_agree text ht).1

theorem charsOf_utf16 (text : List Nat) (ht : ∀ c ∈ text, isScalar c = true) :
    charsOf true (Spec.Conv.utf16EncodeAll text) = text := (utf8_utf16_source_agree text ht).2

/-- any UTF-16 buffer reads as its lossy decoding -/
theorem charsOf_utf16_lossy (units : List Nat) : charsOf true units = Spec.Conv.decodeUtf16Lossy units :=
  Thm.C03.utf16_source_reads units

/-! ## histories of raw calls over source buffers -/

/-- the text a sequence of source buffers `(utf16?, units)` stands for -/
def textOf : List (Bool × List Nat) → List Nat
  | [] => []
  | (u, src) :: more => charsOf u src ++ textOf more

/-- **A caller of the raw (`*_without_replacement`) API working on actual source buffers.**  `bufs`
are the buffers still to be pushed, each with its own source form (`true` = UTF-16 units, `false` =
UTF-8 bytes); every buffer but the last is pushed with `last = false`; whatever a call did not
consume (`&src[read..]`) is pushed again; the stop decision `b` of each call is arbitrary. -/
inductive ESrcProto (E : EFam) : E.σ → List (Bool × List Nat) → List EEv → Prop
  /-- the call that ends the stream -/
  | final (s : E.σ) (utf16 : Bool) (src : List Nat) (b : Budget) :
      (ecall E utf16 s src true b).res = .inputEmpty →
      ESrcProto E s [(utf16, src)] (eevs (ecall E utf16 s src true b))
  /-- a `last` call that stopped early (`OutputFull` / `Unmappable`) -/
  | lastStep (s : E.σ) (utf16 : Bool) (src : List Nat) (b : Budget) (evs' : List EEv) :
      (ecall E utf16 s src true b).res ≠ .inputEmpty →
      ESrcProto E (ecall E utf16 s src true b).st [(utf16, src.drop (ecall E utf16 s src true b).read)] evs' →
      ESrcProto E s [(utf16, src)] (eevs (ecall E utf16 s src true b) ++ evs')
  /-- a non-`last` call on the first buffer -/
  | chunkStep (s : E.σ) (utf16 : Bool) (src : List Nat) (more : List (Bool × List Nat)) (b : Budget)
      (evs' : List EEv) :
      ESrcProto E (ecall E utf16 s src false b).st
        ((utf16, src.drop (ecall E utf16 s src false b).read) :: more) evs' →
      ESrcProto E s ((utf16, src) :: more) (eevs (ecall E utf16 s src false b) ++ evs')
  /-- a buffer with no character left is dropped -/
  | next (s : E.σ) (utf16 : Bool) (src : List Nat) (more : List (Bool × List Nat)) (evs : List EEv) :
      itemsOfSrc utf16 src = [] → ESrcProto E s more evs → ESrcProto E s ((utf16, src) :: more) evs

/-- a history over source buffers is a history (in the sense of `Thm.C04.EProto`) over the text the
buffers stand for -/
theorem src_history_is_proto (E : EFam) (s : E.σ) (bufs : List (Bool × List Nat)) (evs : List EEv)
    (h : ESrcProto E s bufs evs) : EProto E s (textOf bufs) evs := by
  induction h with
  | final s utf16 src b hres =>
    rw [ecall_eq_erunI] at hres ⊢
    have := EProto.final (E := E) s (itemsOfSrc utf16 src) b hres
    simpa [textOf, charsOf] using this
  | lastStep s utf16 src b evs' hres _ ih =>
    have hrest := ecall_rest E utf16 s src true b
    simp only [textOf, charsOf, List.append_nil] at ih ⊢
    rw [hrest] at ih
    rw [ecall_eq_erunI] at hres ih ⊢
    exact EProto.lastStep (E := E) s (itemsOfSrc utf16 src) b evs' hres ih
  | chunkStep s utf16 src more b evs' _ ih =>
    have hrest := ecall_rest E utf16 s src false b
    simp only [textOf, charsOf] at ih ⊢
    rw [hrest] at ih
    rw [ecall_eq_erunI] at ih ⊢
    exact EProto.chunkStep (E := E) s (itemsOfSrc utf16 src) (textOf more) b evs' ih
  | next s utf16 src more evs hnil _ ih =>
    simpa [textOf, charsOf, hnil] using ih

/-- every history over source buffers yields the reference run of the text they stand for -/
theorem src_history_eq_ref (E : EFam) (L : ELaws E) (s : E.σ) (bufs : List (Bool × List Nat)) (evs : List EEv)
    (h : ESrcProto E s bufs evs) : evs = eref E s (textOf bufs) :=
  enc_history_eq_ref E L s _ evs (src_history_is_proto E s bufs evs h)

/-! ## the two forms give the same results -/

theorem flatten_scalar {parts : List (List Nat)} {text : List Nat} (h : parts.flatten = text)
    (ht : ∀ c ∈ text, isScalar c = true) : ∀ p ∈ parts, ∀ c ∈ p, isScalar c = true := by
  intro p hp c hc
  apply ht
  rw [← h]
  exact List.mem_flatten.mpr ⟨p, hp, hc⟩

/-- a text cut into parts, each part handed over in UTF-8 form: the buffers stand for the text -/
theorem textOf_utf8_parts : ∀ (parts : List (List Nat)), (∀ p ∈ parts, ∀ c ∈ p, isScalar c = true) →
    textOf (parts.map fun t => (false, Spec.Conv.utf8EncodeAll t)) = parts.flatten
  | [], _ => rfl
  | p :: ps, h => by
    simp only [List.map_cons, textOf, List.flatten_cons]
    rw [charsOf_utf8 p (h p (List.mem_cons_self ..)),
      textOf_utf8_parts ps (fun q hq => h q (List.mem_cons_of_mem _ hq))]

/-- the same in UTF-16 form (cuts between characters, so never inside a surrogate pair) -/
theorem textOf_utf16_parts : ∀ (parts : List (List Nat)), (∀ p ∈ parts, ∀ c ∈ p, isScalar c = true) →
    textOf (parts.map fun t => (true, Spec.Conv.utf16EncodeAll t)) = parts.flatten
  | [], _ => rfl
  | p :: ps, h => by
    simp only [List.map_cons, textOf, List.flatten_cons]
    rw [charsOf_utf16 p (h p (List.mem_cons_self ..)),
      textOf_utf16_parts ps (fun q hq => h q (List.mem_cons_of_mem _ hq))]

/-- **C04, raw API, UTF-8 vs UTF-16, any chunking.**  For every encoder family with `ELaws` (all
variants), every text of scalar values, every way `parts8` of cutting it into UTF-8 buffers and every
way `parts16` of cutting it into UTF-16 buffers (at character boundaries), ANY protocol-following
history over the former and ANY over the latter — whatever the stop decisions — produce the same
bytes and the same `Unmappable` reports in the same order: those of the reference run of the text. -/
theorem raw_forms_agree_chunked (E : EFam) (L : ELaws E) (text : List Nat) (ht : ∀ c ∈ text, isScalar c = true)
    (parts8 parts16 : List (List Nat)) (h8 : parts8.flatten = text) (h16 : parts16.flatten = text)
    (e8 e16 : List EEv)
    (p8 : ESrcProto E E.init (parts8.map fun t => (false, Spec.Conv.utf8EncodeAll t)) e8)
    (p16 : ESrcProto E E.init (parts16.map fun t => (true, Spec.Conv.utf16EncodeAll t)) e16) :
    e8 = e16 ∧ e8 = eref E E.init text := by
  have a := src_history_eq_ref E L _ _ _ p8
  have b := src_history_eq_ref E L _ _ _ p16
  rw [textOf_utf8_parts parts8 (flatten_scalar h8 ht), h8] at a
  rw [textOf_utf16_parts parts16 (flatten_scalar h16 ht), h16] at b
  exact ⟨by rw [a, b], a⟩

/-- **C04, raw API, UTF-8 vs UTF-16, whole buffers**: any history over the UTF-8 form of a text and
any history over its UTF-16 form produce the same bytes and the same `Unmappable` reports -/
theorem raw_forms_agree (E : EFam) (L : ELaws E) (text : List Nat) (ht : ∀ c ∈ text, isScalar c = true)
    (e8 e16 : List EEv)
    (p8 : ESrcProto E E.init [(false, Spec.Conv.utf8EncodeAll text)] e8)
    (p16 : ESrcProto E E.init [(true, Spec.Conv.utf16EncodeAll text)] e16) :
    e8 = e16 ∧ e8 = eref E E.init text :=
  raw_forms_agree_chunked E L text ht [text] [text] (by simp) (by simp) e8 e16 p8 p16

/-- for each of the 40 encodings -/
theorem raw_forms_agree_all (v : Gen.Variant) (text : List Nat) (ht : ∀ c ∈ text, isScalar c = true)
    (parts8 parts16 : List (List Nat)) (h8 : parts8.flatten = text) (h16 : parts16.flatten = text)
    (e8 e16 : List EEv)
    (p8 : ESrcProto (efamOfVariant v) (efamOfVariant v).init
      (parts8.map fun t => (false, Spec.Conv.utf8EncodeAll t)) e8)
    (p16 : ESrcProto (efamOfVariant v) (efamOfVariant v).init
      (parts16.map fun t => (true, Spec.Conv.utf16EncodeAll t)) e16) :
    e8 = e16 ∧ e8 = eref (efamOfVariant v) (efamOfVariant v).init text :=
  raw_forms_agree_chunked _ (C04.variant_elaws v) text ht parts8 parts16 h8 h16 e8 e16 p8 p16

/-! ### with replacement

`Thm.C09Enc.EReplProto` is a history over source buffers already (its constructors take the buffer
`src` of each call and its source form); the text index of a history whose first call is on the
UTF-8 (UTF-16) form of `text` is `charsOf false (utf8EncodeAll text)` (`charsOf true (utf16EncodeAll text)`). -/

/-- **C04, with replacement, UTF-8 vs UTF-16**: any protocol-following history of
`encode_from_utf8` calls over the UTF-8 form of a text and any history of `encode_from_utf16` calls
over its UTF-16 form (any capacities, stop decisions, `OutputFull` returns re-pushed) write the same
bytes and give the same `had_unmappables` answer — `manualBytes` / `hasUnmap` of the reference run -/
theorem repl_forms_agree (v : Gen.Variant) (canAll : Bool) (ncrExtra : Nat) (text : List Nat)
    (ht : ∀ c ∈ text, isScalar c = true) (b8 b16 : List Nat) (had8 had16 : Bool)
    (p8 : EReplProto (efamOfVariant v) canAll ncrExtra (efamOfVariant v).init
      (charsOf false (Spec.Conv.utf8EncodeAll text)) b8 had8)
    (p16 : EReplProto (efamOfVariant v) canAll ncrExtra (efamOfVariant v).init
      (charsOf true (Spec.Conv.utf16EncodeAll text)) b16 had16) :
    b8 = b16 ∧ had8 = had16 ∧
      b8 = manualBytes (eref (efamOfVariant v) (efamOfVariant v).init text) ∧
      had8 = hasUnmap (eref (efamOfVariant v) (efamOfVariant v).init text) := by
  rw [charsOf_utf8 text ht] at p8
  rw [charsOf_utf16 text ht] at p16
  obtain ⟨a1, a2⟩ := repl_history_eq_ref _ (Lemmas.EncSide.variant_elaws v) (eof_empty_of_not_pending v) canAll
    ncrExtra _ text b8 had8 p8
  obtain ⟨c1, c2⟩ := repl_history_eq_ref _ (Lemmas.EncSide.variant_elaws v) (eof_empty_of_not_pending v) canAll
    ncrExtra _ text b16 had16 p16
  exact ⟨by rw [a1, c1], by rw [a2, c2], a1, a2⟩

/-- **C04 across the two APIs and the two forms**: a with-replacement history over one form of the
text and a raw history (source buffers, any chunking) over the other form: the former's bytes are
the latter's with `&#…;` for each `Unmappable`, and `had_unmappables` says whether there was one -/
theorem repl_raw_forms_agree (v : Gen.Variant) (canAll : Bool) (ncrExtra : Nat) (text : List Nat)
    (ht : ∀ c ∈ text, isScalar c = true) (replUtf16 : Bool) (bytes : List Nat) (had : Bool)
    (prepl : EReplProto (efamOfVariant v) canAll ncrExtra (efamOfVariant v).init
      (charsOf replUtf16 (if replUtf16 then Spec.Conv.utf16EncodeAll text else Spec.Conv.utf8EncodeAll text))
      bytes had)
    (parts : List (List Nat)) (hparts : parts.flatten = text) (e : List EEv)
    (praw : ESrcProto (efamOfVariant v) (efamOfVariant v).init
      (parts.map fun t => (!replUtf16, if replUtf16 then Spec.Conv.utf8EncodeAll t else Spec.Conv.utf16EncodeAll t)) e) :
    bytes = manualBytes e ∧ (had = true ↔ ∃ c, EEv.unmap c ∈ e) := by
  have hman : EProto (efamOfVariant v) (efamOfVariant v).init text e := by
    have := src_history_is_proto _ _ _ _ praw
    cases replUtf16 with
    | true =>
      simp only [Bool.not_true, if_true] at this
      rwa [textOf_utf8_parts parts (flatten_scalar hparts ht), hparts] at this
    | false =>
      simp only [Bool.not_false, Bool.false_eq_true, if_false] at this
      rwa [textOf_utf16_parts parts (flatten_scalar hparts ht), hparts] at this
  have hrepl : EReplProto (efamOfVariant v) canAll ncrExtra (efamOfVariant v).init text bytes had := by
    cases replUtf16 with
    | true => simpa [charsOf_utf16 text ht] using prepl
    | false => simpa [charsOf_utf8 text ht] using prepl
  exact C09Enc.all_encoders v canAll ncrExtra text bytes had e hrepl hman

/-! ## unpaired surrogates: the lossy case -/

/-- what the lossy conversion yields are scalar values -/
theorem decodeUtf16Lossy_scalar (units : List Nat) (hu : ∀ u ∈ units, u < 0x10000) :
    ∀ c ∈ Spec.Conv.decodeUtf16Lossy units, isScalar c = true := by
  intro c hc
  rw [← charsOf_utf16_lossy] at hc
  obtain ⟨it, hit, rfl⟩ := List.mem_map.mp hc
  exact itemsOf16_scalar _ units hu it hit

/-- an unpaired surrogate is read as U+FFFD (restated from `Thm.C04.lone_surrogate_fffd`), and the
lossy conversion puts U+FFFD there -/
theorem unpaired_is_fffd (u : Nat) (rest : List Nat) (hu : 0xD800 ≤ u ∧ u ≤ 0xDFFF)
    (hn : ∀ lo t, rest = lo :: t → u ≤ 0xDBFF → ¬ (0xDC00 ≤ lo ∧ lo ≤ 0xDFFF)) :
    read16 (u :: rest) = some (0xFFFD, 1) ∧
      Spec.Conv.decodeUtf16Lossy (u :: rest) = 0xFFFD :: Spec.Conv.decodeUtf16Lossy rest := by
  have hr := lone_surrogate_fffd u rest hu hn
  refine ⟨hr, ?_⟩
  have h1 := charsOf_utf16_lossy (u :: rest)
  have h2 := charsOf_utf16_lossy rest
  rw [← h1, ← h2]
  unfold charsOf itemsOfSrc
  simp only [if_true]
  have hcons : items16 (u :: rest) = (0xFFFD, 1) :: items16 rest := by
    unfold items16
    simp only [List.length_cons, itemsOf, hr, List.drop_succ_cons, List.drop_zero]
  rw [hcons]
  rfl

/-- **C04, lossy case, raw API**: a UTF-16 buffer with unpaired surrogates (any 16-bit units)
behaves as the UTF-8 form of its lossy conversion: any history over the one and any history over the
other produce the same bytes and the same `Unmappable` reports -/
theorem lossy_utf16_as_utf8 (E : EFam) (L : ELaws E) (units : List Nat) (hu : ∀ u ∈ units, u < 0x10000)
    (e16 e8 : List EEv)
    (p16 : ESrcProto E E.init [(true, units)] e16)
    (p8 : ESrcProto E E.init [(false, Spec.Conv.utf8EncodeAll (Spec.Conv.decodeUtf16Lossy units))] e8) :
    e16 = e8 ∧ e16 = eref E E.init (Spec.Conv.decodeUtf16Lossy units) := by
  have a := src_history_eq_ref E L _ _ _ p16
  have b := src_history_eq_ref E L _ _ _ p8
  simp only [textOf, List.append_nil] at a b
  rw [charsOf_utf16_lossy] at a
  rw [charsOf_utf8 _ (decodeUtf16Lossy_scalar units hu)] at b
  exact ⟨by rw [a, b], a⟩

/-- **C04, lossy case, with replacement** (bytes and `had_unmappables`) -/
theorem lossy_utf16_as_utf8_repl (v : Gen.Variant) (canAll : Bool) (ncrExtra : Nat) (units : List Nat)
    (hu : ∀ u ∈ units, u < 0x10000) (b16 b8 : List Nat) (had16 had8 : Bool)
    (p16 : EReplProto (efamOfVariant v) canAll ncrExtra (efamOfVariant v).init (charsOf true units) b16 had16)
    (p8 : EReplProto (efamOfVariant v) canAll ncrExtra (efamOfVariant v).init
      (charsOf false (Spec.Conv.utf8EncodeAll (Spec.Conv.decodeUtf16Lossy units))) b8 had8) :
    b16 = b8 ∧ had16 = had8 := by
  rw [charsOf_utf16_lossy] at p16
  rw [charsOf_utf8 _ (decodeUtf16Lossy_scalar units hu)] at p8
  exact repl_histories_agree v canAll ncrExtra _ b16 b8 had16 had8 p16 p8

/-! ## cutting ONE buffer at a character boundary

The caller of a streaming encoder cuts a buffer `src` at some index `n` and pushes `src[..n]` and
`src[n..]` separately.  If `n` is a character boundary of the buffer (`Lemmas.EncSide.Bnd`: the width
of a prefix of its characters — so never between the halves of a surrogate pair, never inside a UTF-8
sequence) the two pieces read, on their own, as the characters before and after the cut: the sources
only look at the units of the character they are reading (`Utf16Source` one unit further, to see whether
a high surrogate is paired).  This holds for ANY buffer of units, also with unpaired surrogates. -/

theorem getD_take (l : List Nat) (n i : Nat) (h : i < n) : (l.take n).getD i 0 = l.getD i 0 := by
  simp [List.getD_eq_getElem?_getD, h]

/-- `Utf16Source::read` does not depend on what follows the character it reads -/
theorem read16_take (src : List Nat) (c w k : Nat) (h : read16 src = some (c, w)) :
    read16 (src.take (w + k)) = some (c, w) := by
  cases src with
  | nil => simp [read16] at h
  | cons u rest =>
    by_cases h1 : u < 0xD800 ∨ 0xDFFF < u
    · have hr : read16 (u :: rest) = some (u, 1) := by simp [read16, h1]
      rw [hr] at h
      simp only [Option.some.injEq, Prod.mk.injEq] at h
      obtain ⟨rfl, rfl⟩ := h
      rw [show 1 + k = k + 1 by omega, List.take_succ_cons]
      simp [read16, h1]
    · by_cases h2 : u ≤ 0xDBFF
      · cases rest with
        | nil =>
          have hr : read16 [u] = some (0xFFFD, 1) := by simp [read16, h1, h2]
          rw [hr] at h
          simp only [Option.some.injEq, Prod.mk.injEq] at h
          obtain ⟨rfl, rfl⟩ := h
          rw [show 1 + k = k + 1 by omega, List.take_succ_cons]
          simp [read16, h1, h2]
        | cons lo t =>
          by_cases h3 : 0xDC00 ≤ lo ∧ lo ≤ 0xDFFF
          · have hr : read16 (u :: lo :: t) = some (0x10000 + (u - 0xD800) * 0x400 + (lo - 0xDC00), 2) := by
              simp [read16, h1, h2, h3]
            rw [hr] at h
            simp only [Option.some.injEq, Prod.mk.injEq] at h
            obtain ⟨rfl, rfl⟩ := h
            rw [show 2 + k = (k + 1) + 1 by omega, List.take_succ_cons, List.take_succ_cons]
            simp [read16, h1, h2, h3]
          · have hr : read16 (u :: lo :: t) = some (0xFFFD, 1) := by simp [read16, h1, h2, h3]
            rw [hr] at h
            simp only [Option.some.injEq, Prod.mk.injEq] at h
            obtain ⟨rfl, rfl⟩ := h
            rw [show 1 + k = k + 1 by omega, List.take_succ_cons]
            cases k with
            | zero => simp [read16, h1, h2]
            | succ k =>
              rw [List.take_succ_cons]
              simp [read16, h1, h2, h3]
      · have hr : read16 (u :: rest) = some (0xFFFD, 1) := by simp [read16, h1, h2]
        rw [hr] at h
        simp only [Option.some.injEq, Prod.mk.injEq] at h
        obtain ⟨rfl, rfl⟩ := h
        rw [show 1 + k = k + 1 by omega, List.take_succ_cons]
        simp [read16, h1, h2]

/-- `Utf8Source::read` looks at the bytes of the sequence it reads only -/
theorem read8_take (src : List Nat) (c w k : Nat) (h : read8 src = some (c, w)) :
    read8 (src.take (w + k)) = some (c, w) := by
  cases src with
  | nil => simp [read8] at h
  | cons a rest =>
    by_cases h1 : a < 0x80
    · have hr : read8 (a :: rest) = some (a, 1) := by simp [read8, h1]
      rw [hr] at h
      simp only [Option.some.injEq, Prod.mk.injEq] at h
      obtain ⟨rfl, rfl⟩ := h
      rw [show 1 + k = k + 1 by omega, List.take_succ_cons]
      simp [read8, h1]
    · by_cases h2 : a < 0xE0
      · have hr : read8 (a :: rest) = some ((a % 32) * 64 + (rest.getD 0 0) % 64, 2) := by simp [read8, h1, h2]
        rw [hr] at h
        simp only [Option.some.injEq, Prod.mk.injEq] at h
        obtain ⟨rfl, rfl⟩ := h
        rw [show 2 + k = (k + 1) + 1 by omega, List.take_succ_cons]
        simp only [read8, h1, h2, if_false, if_true]
        rw [getD_take rest (k + 1) 0 (by omega)]
      · by_cases h3 : a < 0xF0
        · have hr : read8 (a :: rest)
              = some ((a % 16) * 4096 + (rest.getD 0 0) % 64 * 64 + (rest.getD 1 0) % 64, 3) := by
            simp [read8, h1, h2, h3]
          rw [hr] at h
          simp only [Option.some.injEq, Prod.mk.injEq] at h
          obtain ⟨rfl, rfl⟩ := h
          rw [show 3 + k = (k + 2) + 1 by omega, List.take_succ_cons]
          simp only [read8, h1, h2, h3, if_false, if_true]
          rw [getD_take rest (k + 2) 0 (by omega), getD_take rest (k + 2) 1 (by omega)]
        · have hr : read8 (a :: rest)
              = some ((a % 8) * 262144 + (rest.getD 0 0) % 64 * 4096 + (rest.getD 1 0) % 64 * 64
                  + (rest.getD 2 0) % 64, 4) := by
            simp [read8, h1, h2, h3]
          rw [hr] at h
          simp only [Option.some.injEq, Prod.mk.injEq] at h
          obtain ⟨rfl, rfl⟩ := h
          rw [show 4 + k = (k + 3) + 1 by omega, List.take_succ_cons]
          simp only [read8, h1, h2, h3, if_false]
          rw [getD_take rest (k + 3) 0 (by omega), getD_take rest (k + 3) 1 (by omega),
            getD_take rest (k + 3) 2 (by omega)]

/-- the items of the buffer truncated after a prefix `pre` of its items are `pre` -/
theorem itemsOf_take_prefix (read : List Nat → Option (Nat × Nat))
    (hw : ∀ units c w, read units = some (c, w) → 1 ≤ w) (hnil : read [] = none)
    (hloc : ∀ src c w k, read src = some (c, w) → read (src.take (w + k)) = some (c, w)) :
    ∀ (pre post : List (Nat × Nat)) (src : List Nat) (f1 f2 : Nat),
      (src.take (widthSum pre)).length ≤ f2 → itemsOf read f1 src = pre ++ post →
      itemsOf read f2 (src.take (widthSum pre)) = pre := by
  intro pre
  induction pre with
  | nil =>
    intro post src f1 f2 _ _
    simp only [widthSum_nil, List.take_zero]
    cases f2 <;> simp [itemsOf, hnil]
  | cons it pre' ih =>
    intro post src f1 f2 hf2 h
    obtain ⟨c, w⟩ := it
    cases f1 with
    | zero => simp [itemsOf] at h
    | succ f1 =>
      cases hr : read src with
      | none => simp [itemsOf, hr] at h
      | some cw =>
        obtain ⟨c0, w0⟩ := cw
        simp only [itemsOf, hr, List.cons_append, List.cons.injEq, Prod.mk.injEq] at h
        obtain ⟨⟨rfl, rfl⟩, hrest⟩ := h
        have hw0 := hw src c0 w0 hr
        have hne : src ≠ [] := by intro hc; rw [hc, hnil] at hr; cases hr
        rw [widthSum_cons] at hf2 ⊢
        have hread := hloc src c0 w0 (widthSum pre') hr
        have hlen : 1 ≤ (src.take (w0 + widthSum pre')).length := by
          cases src with
          | nil => exact absurd rfl hne
          | cons a r =>
            rw [show w0 + widthSum pre' = (w0 - 1 + widthSum pre') + 1 by omega, List.take_succ_cons]
            simp
        cases f2 with
        | zero => omega
        | succ f2 =>
          have hdrop : (src.take (w0 + widthSum pre')).drop w0 = (src.drop w0).take (widthSum pre') := by
            rw [List.drop_take, show w0 + widthSum pre' - w0 = widthSum pre' by omega]
          simp only [itemsOf, hread]
          rw [hdrop]
          congr 1
          apply ih post (src.drop w0) f1 f2 _ hrest
          rw [← hdrop, List.length_drop]
          omega

theorem itemsOfSrc_take (utf16 : Bool) (src : List Nat) (n : Nat) (h : Bnd utf16 src n) :
    ∃ pre, itemsOfSrc utf16 src = pre ++ itemsOfSrc utf16 (src.drop n) ∧ itemsOfSrc utf16 (src.take n) = pre := by
  obtain ⟨pre, h1, h2⟩ := h
  refine ⟨pre, h1, ?_⟩
  rw [h2]
  cases utf16 with
  | false =>
    exact itemsOf_take_prefix read8 Lemmas.ConformEnc.read8_width rfl read8_take pre _ src src.length _
      (Nat.le_refl _) h1
  | true =>
    exact itemsOf_take_prefix read16 Lemmas.ConformEnc.read16_width rfl read16_take pre _ src src.length _
      (Nat.le_refl _) h1

/-- **cutting a buffer at a character boundary**: the two pieces, read on their own, yield the
characters of the whole buffer — for any buffer of units (unpaired surrogates included) and either
source form -/
theorem charsOf_take_drop (utf16 : Bool) (src : List Nat) (n : Nat) (h : Bnd utf16 src n) :
    charsOf utf16 (src.take n) ++ charsOf utf16 (src.drop n) = charsOf utf16 src := by
  obtain ⟨pre, h1, h2⟩ := itemsOfSrc_take utf16 src n h
  unfold charsOf
  rw [h2, h1, List.map_append]

/-- hence: a history that pushes `src[..n]` (not `last`) and then `src[n..]`, for a cut `n` at a
character boundary, yields the reference run of the characters of the whole buffer — the same as any
history over the uncut buffer -/
theorem cut_buffer_history (E : EFam) (L : ELaws E) (utf16 : Bool) (src : List Nat) (n : Nat)
    (h : Bnd utf16 src n) (ecut ewhole : List EEv)
    (pcut : ESrcProto E E.init [(utf16, src.take n), (utf16, src.drop n)] ecut)
    (pwhole : ESrcProto E E.init [(utf16, src)] ewhole) :
    ecut = ewhole ∧ ecut = eref E E.init (charsOf utf16 src) := by
  have a := src_history_eq_ref E L _ _ _ pcut
  have b := src_history_eq_ref E L _ _ _ pwhole
  simp only [textOf, List.append_nil] at a b
  rw [charsOf_take_drop utf16 src n h] at a
  exact ⟨by rw [a, b], a⟩

/-- the boundaries of a UTF-16 buffer are exactly what `Bnd` says; in particular the index between
the halves of a surrogate pair is not one: the pair read as a whole has width 2 -/
example : ¬ Bnd true [0xD83D, 0xDE00] 1 := by
  rintro ⟨pre, h1, h2⟩
  have hi : itemsOfSrc true [0xD83D, 0xDE00] = [(0x1F600, 2)] := by decide
  rw [hi] at h1
  cases pre with
  | nil => simp [widthSum] at h2
  | cons it t =>
    simp only [List.cons_append, List.cons.injEq] at h1
    obtain ⟨rfl, _⟩ := h1
    simp only [widthSum_cons] at h2
    omega

/-! ## Non-vacuity

x-user-defined, text `a` U+1F600 (astral, unmappable) `b`: as UTF-8 `61 F0 9F 98 80 62`, as UTF-16
`0061 D83D DE00 0062`; the two histories — each: `Unmappable(U+1F600)` after `a`, then `b` — are
inhabited and have the same events, although `read` differs (5 bytes vs 3 units). -/

example : Spec.Conv.utf8EncodeAll [0x61, 0x1F600, 0x62] = [0x61, 0xF0, 0x9F, 0x98, 0x80, 0x62]
    ∧ Spec.Conv.utf16EncodeAll [0x61, 0x1F600, 0x62] = [0x61, 0xD83D, 0xDE00, 0x62] := by decide

example : ESrcProto userDefinedEFam () [(false, [0x61, 0xF0, 0x9F, 0x98, 0x80, 0x62])]
    [.byte 0x61, .unmap 0x1F600, .byte 0x62] :=
  ESrcProto.lastStep (E := userDefinedEFam) () false [0x61, 0xF0, 0x9F, 0x98, 0x80, 0x62] .unlimited [.byte 0x62]
    (by decide)
    (ESrcProto.final (E := userDefinedEFam) () false [0x62] .unlimited (by decide))

example : ESrcProto userDefinedEFam () [(true, [0x61, 0xD83D, 0xDE00, 0x62])]
    [.byte 0x61, .unmap 0x1F600, .byte 0x62] :=
  ESrcProto.lastStep (E := userDefinedEFam) () true [0x61, 0xD83D, 0xDE00, 0x62] .unlimited [.byte 0x62]
    (by decide)
    (ESrcProto.final (E := userDefinedEFam) () true [0x62] .unlimited (by decide))

example : (ecall userDefinedEFam false () [0x61, 0xF0, 0x9F, 0x98, 0x80, 0x62] true .unlimited).read = 5
    ∧ (ecall userDefinedEFam true () [0x61, 0xD83D, 0xDE00, 0x62] true .unlimited).read = 3 := by decide

/-- two chunks, the first in UTF-16 and the second in UTF-8 -/
example : ESrcProto userDefinedEFam () [(true, [0x61]), (false, [0x62])] [.byte 0x61, .byte 0x62] :=
  ESrcProto.chunkStep (E := userDefinedEFam) () true [0x61] [(false, [0x62])] .unlimited [.byte 0x62]
    (ESrcProto.next (E := userDefinedEFam) () true [] [(false, [0x62])] [.byte 0x62] (by decide)
      (ESrcProto.final (E := userDefinedEFam) () false [0x62] .unlimited (by decide)))

/-- the lossy case: `0061 DC00 D83D` (a lone low surrogate, a high surrogate at the end) -/
example : Spec.Conv.decodeUtf16Lossy [0x61, 0xDC00, 0xD83D] = [0x61, 0xFFFD, 0xFFFD] := by decide

end EncodingRs.Thm.C04Src
