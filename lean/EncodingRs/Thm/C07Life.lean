import EncodingRs.Lemmas.LifeLeaf
import EncodingRs.Lemmas.PotMono
import EncodingRs.Thm.C07
/-!
# C07 — the BOM life-cycle arms of `Decoder::max_*` are sufficient

`Model.Decoder.maxLen q v nom d n` is the hand model of `Decoder::max_utf8_buffer_length`,
`…_without_replacement` and `max_utf16_buffer_length` (lib.rs) in every `DecoderLifeCycle` state.
`decoder_life_raw_sufficient`: in **every** life-cycle state of a decoder reachable from
`Decoder.new` (`LifeInv`, `lifeInv_reachable`), for every nominal encoding, BOM mode, source and
query: if the query answers `Q` for the number of bytes passed and the destination holds at least
`Q` units, then the call — including the replay of withheld potential-BOM bytes into the nominal
decoder and the switch to a fresh UTF-8 / UTF-16 decoder — does not return `OutputFull`, provided
its inner variant-decoder calls are admissible in the sense the driver checks
(`InnerAdmissible` = `Driver.Ops.innerAdmissible`).  `decoder_life_no_panic`: nor does it reach the
"output buffer must have been too small" panic of the replay.
-/
namespace EncodingRs.Thm.C07
open EncodingRs EncodingRs.Model EncodingRs.Lemmas.Core EncodingRs.Lemmas.FamLaws EncodingRs.Lemmas.Potential
open EncodingRs.Lemmas.PotMono EncodingRs.Lemmas.LifeLeaf EncodingRs.Lemmas.MaxLenVariant EncodingRs.Lemmas.Life
open EncodingRs.Thm.C10 EncodingRs.Gen.MaxLen

/-- what `Decoder::new` is told about the nominal encoding (as in `Driver.Ops.nominalOf`) -/
def nominalOf : Gen.Variant → Nominal
  | .utf8 => .utf8
  | .utf16Be => .utf16be
  | .utf16Le => .utf16le
  | _ => .other

theorem nominalOf_utf8 (v : Gen.Variant) : nominalOf v = .utf8 ↔ v = .utf8 := by cases v <;> simp [nominalOf]
theorem nominalOf_utf16be (v : Gen.Variant) : nominalOf v = .utf16be ↔ v = .utf16Be := by cases v <;> simp [nominalOf]
theorem nominalOf_utf16le (v : Gen.Variant) : nominalOf v = .utf16le ↔ v = .utf16Le := by cases v <;> simp [nominalOf]

/-! ### invariant and potential of whichever decoder is current -/

def curInv (v : Gen.Variant) : Cur (famOfVariant v) → Prop
  | .nominal s => variantInv v s
  | .utf8 s => variantInv .utf8 s
  | .utf16be s => variantInv .utf16Be s
  | .utf16le s => variantInv .utf16Le s

def curPhi (q : Query) (v : Gen.Variant) : Cur (famOfVariant v) → Nat → Nat
  | .nominal s, n => qPhi q v s n
  | .utf8 s, n => qPhi q .utf8 s n
  | .utf16be s, n => qPhi q .utf16Be s n
  | .utf16le s, n => qPhi q .utf16Le s n

theorem curPhi_mono (q : Query) (v : Gen.Variant) (c : Cur (famOfVariant v)) {n n' : Nat} (h : n ≤ n') :
    curPhi q v c n ≤ curPhi q v c n' := by
  cases c with
  | nominal s => exact qPhi_mono q v s h
  | utf8 s => exact qPhi_mono q .utf8 s h
  | utf16be s => exact qPhi_mono q .utf16Be s h
  | utf16le s => exact qPhi_mono q .utf16Le s h

theorem curPhi_le (q : Query) (v : Gen.Variant) (c : Cur (famOfVariant v)) (n Q : Nat) (hi : curInv v c)
    (h : curMax q v c n = some Q) : curPhi q v c n ≤ Q := by
  cases c with
  | nominal s => exact qPhi_le q v s n Q hi h
  | utf8 s => exact qPhi_le q .utf8 s n Q hi h
  | utf16be s => exact qPhi_le q .utf16Be s n Q hi h
  | utf16le s => exact qPhi_le q .utf16Le s n Q hi h

theorem cur_call_inv (v : Gen.Variant) (k : Sink) (c : Cur (famOfVariant v)) (src : List Nat) (last : Bool)
    (b : Budget) (hi : curInv v c) (hb : ∀ x ∈ src, x < 256) : curInv v (c.call k src last b).cur := by
  cases c with
  | nominal s => exact q_call_inv v k s src last b hi hb
  | utf8 s => exact q_call_inv .utf8 k s src last b hi hb
  | utf16be s => exact q_call_inv .utf16Be k s src last b hi hb
  | utf16le s => exact q_call_inv .utf16Le k s src last b hi hb

theorem cur_call_full (q : Query) (v : Gen.Variant) (c : Cur (famOfVariant v)) (src : List Nat) (last : Bool)
    (b : Budget) (hi : curInv v c) (hb : ∀ x ∈ src, x < 256)
    (hres : (c.call (sinkOf q) src last b).res = .outputFull) :
    unitsOfList (sinkOf q) (c.call (sinkOf q) src last b).out + (c.call (sinkOf q) src last b).stopNeed
      ≤ curPhi q v c src.length := by
  cases c with
  | nominal s => exact q_call_full q v s src last b hi hb hres
  | utf8 s => exact q_call_full q .utf8 s src last b hi hb hres
  | utf16be s => exact q_call_full q .utf16Be s src last b hi hb hres
  | utf16le s => exact q_call_full q .utf16Le s src last b hi hb hres

theorem cur_call_slack (q : Query) (v : Gen.Variant) (c : Cur (famOfVariant v)) (src : List Nat)
    (b : Budget) (m : Nat) (hi : curInv v c) (hb : ∀ x ∈ src, x < 256) :
    ((c.call (sinkOf q) src false b).res = .inputEmpty →
      unitsOfList (sinkOf q) (c.call (sinkOf q) src false b).out + curPhi q v (c.call (sinkOf q) src false b).cur m
        ≤ curPhi q v c (src.length + m)) ∧
    ((c.call (sinkOf q) src false b).res = .outputFull →
      unitsOfList (sinkOf q) (c.call (sinkOf q) src false b).out + (c.call (sinkOf q) src false b).stopNeed
        ≤ curPhi q v c (src.length + m)) := by
  cases c with
  | nominal s => exact q_call_slack q v s src b m hi hb
  | utf8 s => exact q_call_slack q .utf8 s src b m hi hb
  | utf16be s => exact q_call_slack q .utf16Be s src b m hi hb
  | utf16le s => exact q_call_slack q .utf16Le s src b m hi hb

/-! ### admissibility of the inner calls, as the driver checks it -/

/-- the side conditions of `Model.Admissible` for one inner raw call `(out, res, stopNeed)` -/
def AdmT (k : Sink) (cap : Nat) (x : List Nat × Res × Nat) : Prop :=
  unitsOfList k x.1 ≤ cap ∧
  (x.2.1 = .outputFull → cap < unitsOfList k x.1 + x.2.2) ∧
  (∀ l a, x.2.1 = .malformed l a → unitsOfList k x.1 + replRoom k ≤ cap)

/-- `Driver.Ops.innerAdmissible` as a proposition: every inner call is admissible for what is left
of the destination after the earlier ones (the replay of withheld bytes comes first) -/
def InnerAdmissible (k : Sink) : Nat → List (List Nat × Res × Nat) → Prop
  | _, [] => True
  | cap, x :: t => AdmT k cap x ∧ InnerAdmissible k (cap - unitsOfList k x.1) t

/-- the Boolean function of the driver, verbatim -/
def innerAdmissibleB (k : Sink) (cap : Nat) : List (List Nat × Res × Nat) → Bool
  | [] => true
  | (out, res, need) :: t =>
    let u := unitsOfList k out
    decide (u ≤ cap) &&
    (match res with
      | .outputFull => decide (cap < u + need)
      | .malformed _ _ => decide (u + replRoom k ≤ cap)
      | .inputEmpty => true) &&
    innerAdmissibleB k (cap - u) t

theorem innerAdmissibleB_iff (k : Sink) : ∀ (inner : List (List Nat × Res × Nat)) (cap : Nat),
    innerAdmissibleB k cap inner = true ↔ InnerAdmissible k cap inner := by
  intro inner
  induction inner with
  | nil => intro cap; simp [innerAdmissibleB, InnerAdmissible]
  | cons x t ih =>
    intro cap
    obtain ⟨out, res, need⟩ := x
    simp only [innerAdmissibleB, InnerAdmissible, AdmT, Bool.and_eq_true, decide_eq_true_eq, ih]
    cases res <;> simp

/-- a `Decoder` call whose inner variant-decoder calls are all admissible for a destination of `cap` units -/
def DAdmissible {F : Fam} (k : Sink) (cap : Nat) : DRes F → Prop
  | .panic => True
  | .ok _ _ _ _ inner => InnerAdmissible k cap inner

/-- the conclusion of C07 for a `Decoder` call -/
def NoFull {F : Fam} (k : Sink) (cap : Nat) : DRes F → Prop
  | .panic => True
  | .ok res _ _ _ inner => InnerAdmissible k cap inner → res ≠ .outputFull

theorem cur_noFull (q : Query) (v : Gen.Variant) (c : Cur (famOfVariant v)) (src : List Nat) (last : Bool)
    (b : Budget) (cap : Nat) (hi : curInv v c) (hb : ∀ x ∈ src, x < 256) (hphi : curPhi q v c src.length ≤ cap)
    (hadm : AdmT (sinkOf q) cap ((c.call (sinkOf q) src last b).out, (c.call (sinkOf q) src last b).res,
      (c.call (sinkOf q) src last b).stopNeed)) :
    (c.call (sinkOf q) src last b).res ≠ .outputFull := by
  intro hres
  have h1 := cur_call_full q v c src last b hi hb hres
  have h2 := hadm.2.1 hres
  simp only at h2
  omega

theorem drop_bytes {src : List Nat} (off : Nat) (hb : ∀ x ∈ src, x < 256) : ∀ x ∈ src.drop off, x < 256 :=
  fun x hx => hb x (List.mem_of_mem_drop hx)

/-- `$decode_to_utf_checking_end`: the current decoder on the source minus `offset` BOM bytes -/
theorem checkingEnd_noFull (q : Query) (v : Gen.Variant) (c : Cur (famOfVariant v)) (src : List Nat)
    (last : Bool) (b : Budget) (off cap : Nat) (hi : curInv v c) (hb : ∀ x ∈ src, x < 256)
    (hphi : curPhi q v c (src.length - off) ≤ cap) :
    NoFull (sinkOf q) cap (checkingEnd (sinkOf q) c src last b off [] []) := by
  unfold checkingEnd NoFull
  simp only [List.nil_append, InnerAdmissible]
  intro hadm
  exact cur_noFull q v c (src.drop off) last b cap hi (drop_bytes off hb)
    (by rw [List.length_drop]; exact hphi) hadm.1

/-- `$decode_to_utf_after_one_potential_bom_byte`: replay of one withheld byte, then the source -/
theorem afterOne_noFull (q : Query) (v : Gen.Variant) (c : Cur (famOfVariant v)) (src : List Nat)
    (last : Bool) (fb : Nat) (b1 b2 : Budget) (cap : Nat) (hi : curInv v c) (hb : ∀ x ∈ src, x < 256)
    (hfb : fb < 256) (hphi : curPhi q v c (src.length + 2) ≤ cap) :
    NoFull (sinkOf q) cap (afterOne (sinkOf q) c src last fb b1 b2) := by
  unfold afterOne
  have hb1 : ∀ x ∈ [fb], x < 256 := by intro x hx; simp only [List.mem_singleton] at hx; rw [hx]; exact hfb
  have hsl := cur_call_slack q v c [fb] b1 (src.length + 1) hi hb1
  have hinv := cur_call_inv v (sinkOf q) c [fb] false b1 hi hb1
  have e : [fb].length + (src.length + 1) = src.length + 2 := by simp only [List.length_singleton]; omega
  rw [e] at hsl
  generalize c.call (sinkOf q) [fb] false b1 = r1 at hsl hinv ⊢
  simp only
  cases hres : r1.res with
  | inputEmpty =>
    simp only
    unfold checkingEnd NoFull
    simp only [List.cons_append, List.nil_append, InnerAdmissible, List.drop_zero]
    intro hadm
    have h1 := hsl.1 hres
    have hm : curPhi q v r1.cur src.length ≤ curPhi q v r1.cur (src.length + 1) :=
      curPhi_mono q v r1.cur (Nat.le_add_right src.length 1)
    have h3 : curPhi q v r1.cur src.length ≤ cap - unitsOfList (sinkOf q) r1.out := by omega
    exact cur_noFull q v r1.cur src last b2 (cap - unitsOfList (sinkOf q) r1.out) hinv hb h3 hadm.2.1
  | malformed l a =>
    simp only [NoFull]
    intro _ h; cases h
  | outputFull =>
    simp only
    split
    · simp only [NoFull, InnerAdmissible]
      intro hadm
      exfalso
      have h1 := hsl.2 hres
      have h2 := hadm.1.2.1 rfl
      simp only at h2
      omega
    · trivial

/-- `$decode_to_utf_after_two_potential_bom_bytes`: replay of `EF BB`, then the source -/
theorem afterTwo_noFull (q : Query) (v : Gen.Variant) (c : Cur (famOfVariant v)) (src : List Nat)
    (last : Bool) (b1 b2 : Budget) (cap : Nat) (hi : curInv v c) (hb : ∀ x ∈ src, x < 256)
    (hphi : curPhi q v c (src.length + 2) ≤ cap) :
    NoFull (sinkOf q) cap (afterTwo (sinkOf q) c src last b1 b2) := by
  unfold afterTwo
  have hb1 : ∀ x ∈ [0xEF, 0xBB], x < 256 := by decide
  have hsl := cur_call_slack q v c [0xEF, 0xBB] b1 src.length hi hb1
  have hinv := cur_call_inv v (sinkOf q) c [0xEF, 0xBB] false b1 hi hb1
  have e : [0xEF, 0xBB].length + src.length = src.length + 2 := by
    simp only [List.length_cons, List.length_nil]; omega
  rw [e] at hsl
  generalize c.call (sinkOf q) [0xEF, 0xBB] false b1 = r1 at hsl hinv ⊢
  simp only
  cases hres : r1.res with
  | inputEmpty =>
    simp only
    unfold checkingEnd NoFull
    simp only [List.cons_append, List.nil_append, InnerAdmissible, List.drop_zero]
    intro hadm
    have h1 := hsl.1 hres
    have h3 : curPhi q v r1.cur src.length ≤ cap - unitsOfList (sinkOf q) r1.out := by omega
    exact cur_noFull q v r1.cur src last b2 (cap - unitsOfList (sinkOf q) r1.out) hinv hb h3 hadm.2.1
  | malformed l a =>
    simp only
    split <;> (simp only [NoFull]; intro _ h; cases h)
  | outputFull =>
    simp only
    split
    · simp only [NoFull, InnerAdmissible]
      intro hadm
      exfalso
      have h1 := hsl.2 hres
      have h2 := hadm.1.2.1 rfl
      simp only at h2
      omega
    · trivial

/-! ### the invariant of the life cycle -/

/-- what holds of every decoder reachable from `Decoder.new (famOfVariant v) (nominalOf v) bom`:
the variant decoder's invariant; while sniffing nothing has reached the nominal decoder; the
`At…Start` states of BOM removal occur only for the encoding whose BOM they remove -/
structure LifeInv (v : Gen.Variant) (d : Decoder (famOfVariant v)) : Prop where
  cur : curInv v d.cur
  fresh : sniffingLife d.life = true → d.cur = .nominal (famOfVariant v).init
  own8 : d.life = .atUtf8Start → v = .utf8
  own16be : d.life = .atUtf16BeStart → v = .utf16Be
  own16le : d.life = .atUtf16LeStart → v = .utf16Le

theorem lifeInv_new (v : Gen.Variant) (bom : BomHandling) :
    LifeInv v (Decoder.new (famOfVariant v) (nominalOf v) bom) := by
  refine ⟨variantInv_init v, fun _ => rfl, ?_, ?_, ?_⟩
  all_goals
    intro h
    cases bom <;> cases v <;> simp [Decoder.new, nominalOf] at h ⊢

theorem curInv_utf8_init (v : Gen.Variant) : curInv v (.utf8 utf8Fam.init) := variantInv_init .utf8
theorem curInv_utf16_init (v : Gen.Variant) (be : Bool) :
    curInv v (if be then .utf16be (utf16Fam true).init else .utf16le (utf16Fam false).init) := by
  cases be
  · exact variantInv_init .utf16Le
  · exact variantInv_init .utf16Be

/-- the current decoder after a call satisfies its invariant, and the decoder is no longer sniffing -/
def SettledInv (v : Gen.Variant) : DRes (famOfVariant v) → Prop
  | .panic => True
  | .ok _ _ _ d' _ => curInv v d'.cur ∧ sniffingLife d'.life = false

theorem checkingEnd_settledInv (v : Gen.Variant) (k : Sink) (c : Cur (famOfVariant v)) (src : List Nat)
    (last : Bool) (b : Budget) (off : Nat) (pre : List (List Nat × Res × Nat)) (preOut : List Nat)
    (hi : curInv v c) (hb : ∀ x ∈ src, x < 256) :
    SettledInv v (checkingEnd k c src last b off pre preOut) := by
  have hs := checkingEnd_settled k c src last b off pre preOut
  unfold checkingEnd at hs ⊢
  exact ⟨cur_call_inv v k c (src.drop off) last b hi (drop_bytes off hb), hs.1⟩

theorem afterOne_settledInv (v : Gen.Variant) (k : Sink) (c : Cur (famOfVariant v)) (src : List Nat)
    (last : Bool) (fb : Nat) (b1 b2 : Budget) (hi : curInv v c) (hb : ∀ x ∈ src, x < 256) (hfb : fb < 256) :
    SettledInv v (afterOne k c src last fb b1 b2) := by
  have hb1 : ∀ x ∈ [fb], x < 256 := by intro x hx; simp only [List.mem_singleton] at hx; rw [hx]; exact hfb
  have hinv := cur_call_inv v k c [fb] false b1 hi hb1
  unfold afterOne
  simp only
  split
  · exact checkingEnd_settledInv v k _ src last b2 0 _ _ hinv hb
  · exact ⟨hinv, rfl⟩
  · split
    · exact ⟨hinv, rfl⟩
    · trivial

theorem afterTwo_settledInv (v : Gen.Variant) (k : Sink) (c : Cur (famOfVariant v)) (src : List Nat)
    (last : Bool) (b1 b2 : Budget) (hi : curInv v c) (hb : ∀ x ∈ src, x < 256) :
    SettledInv v (afterTwo k c src last b1 b2) := by
  have hb1 : ∀ x ∈ [0xEF, 0xBB], x < 256 := by decide
  have hinv := cur_call_inv v k c [0xEF, 0xBB] false b1 hi hb1
  unfold afterTwo
  simp only
  split
  · exact checkingEnd_settledInv v k _ src last b2 0 _ _ hinv hb
  · split
    · exact ⟨hinv, rfl⟩
    · exact ⟨hinv, rfl⟩
  · split
    · exact ⟨hinv, rfl⟩
    · trivial

theorem replayOne_lt (l : Life) (fb : Nat) (h : replayOne l = some fb) : fb < 256 := by
  cases l <;> simp [replayOne] at h <;> omega

theorem SettledInv.lifeInv {v : Gen.Variant} {res : Res} {read : Nat} {out : List Nat}
    {d' : Decoder (famOfVariant v)} {inner : List (List Nat × Res × Nat)}
    (h : SettledInv v (.ok res read out d' inner)) : LifeInv v d' := by
  obtain ⟨h1, h2⟩ := h
  refine ⟨h1, fun hs => (by rw [h2] at hs; cases hs), ?_, ?_, ?_⟩
  all_goals
    intro hl
    rw [hl] at h2
    cases h2

/-- **`LifeInv` is preserved by every call** (any sink, chunk, stop decisions) -/
theorem rawCall_lifeInv (v : Gen.Variant) (k : Sink) (d : Decoder (famOfVariant v)) (src : List Nat)
    (last : Bool) (b1 b2 : Budget) (res : Res) (read : Nat) (out : List Nat) (d' : Decoder (famOfVariant v))
    (inner : List (List Nat × Res × Nat)) (hd : LifeInv v d) (hb : ∀ x ∈ src, x < 256)
    (h : d.rawCall k src last b1 b2 = .ok res read out d' inner) : LifeInv v d' := by
  have hleaf := rawCall_leaf k d src last b1 b2
  rw [h] at hleaf
  generalize hr : DRes.ok res read out d' inner = r at hleaf
  cases hleaf with
  | finished _ => cases hr
  | idle _ _ => cases hr; exact hd
  | wait n life' hsn hseen _ =>
    cases hr
    refine ⟨hd.cur, fun _ => hd.fresh hsn, ?_, ?_, ?_⟩
    all_goals
      intro hl
      simp only at hl
      rw [hl] at hseen
      cases hseen
  | direct _ =>
    have := checkingEnd_settledInv v k d.cur src last b2 0 [] [] hd.cur hb
    rw [← hr] at this; exact this.lifeInv
  | bom8 off _ =>
    have := checkingEnd_settledInv v k (.utf8 utf8Fam.init) src last b2 off [] [] (curInv_utf8_init v) hb
    rw [← hr] at this; exact this.lifeInv
  | bom16 be off _ =>
    have := checkingEnd_settledInv v k _ src last b2 off [] [] (curInv_utf16_init v be) hb
    rw [← hr] at this; exact this.lifeInv
  | one fb hfb =>
    have := afterOne_settledInv v k d.cur src last fb b1 b2 hd.cur hb (replayOne_lt _ _ hfb)
    rw [← hr] at this; exact this.lifeInv
  | two _ =>
    have := afterTwo_settledInv v k d.cur src last b1 b2 hd.cur hb
    rw [← hr] at this; exact this.lifeInv

/-- the decoders reachable from `new_decoder*` by any history of calls -/
inductive DReach (v : Gen.Variant) (bom : BomHandling) : Decoder (famOfVariant v) → Prop
  | new : DReach v bom (Decoder.new (famOfVariant v) (nominalOf v) bom)
  | call (k : Sink) (d : Decoder (famOfVariant v)) (src : List Nat) (last : Bool) (b1 b2 : Budget)
      (res : Res) (read : Nat) (out : List Nat) (d' : Decoder (famOfVariant v))
      (inner : List (List Nat × Res × Nat)) :
      DReach v bom d → (∀ x ∈ src, x < 256) → d.rawCall k src last b1 b2 = .ok res read out d' inner →
      DReach v bom d'

theorem lifeInv_reachable (v : Gen.Variant) (bom : BomHandling) (d : Decoder (famOfVariant v))
    (h : DReach v bom d) : LifeInv v d := by
  induction h with
  | new => exact lifeInv_new v bom
  | call k d src last b1 b2 res read out d' inner _ hb hcall ih =>
    exact rawCall_lifeInv v k d src last b1 b2 res read out d' inner ih hb hcall

/-! ### what the life-cycle arms of the query guarantee -/

theorem utf8Extra_init : utf8ExtraFromState utf8Fam.init = 0 := rfl
theorem utf16Additional_init (be : Bool) : utf16AdditionalFromState (utf16Fam be).init = 1 := rfl

/-- the "utf8_bom" bound covers a fresh UTF-8 decoder fed `x` bytes -/
theorem utf8Bom_le (q : Query) (x u : Nat) (h : utf8BomBound q x = some u) :
    qPhi q .utf8 utf8Fam.init x ≤ u := by
  cases q with
  | utf8 =>
    obtain ⟨b, hb, hu, _⟩ := addO_some h
    have := (mulU_some hb).1
    show 3 + 3 * (x + utf8ExtraFromState utf8Fam.init) ≤ u
    rw [utf8Extra_init]; omega
  | utf8NoRepl =>
    have := (addU_some h).1
    show x + (3 + utf8ExtraFromState utf8Fam.init) ≤ u
    rw [utf8Extra_init]; omega
  | utf16 =>
    have := (addU_some h).1
    show x + (1 + utf8ExtraFromState utf8Fam.init) ≤ u
    rw [utf8Extra_init]; omega

/-- the "utf16_bom" bound covers a fresh UTF-16 decoder fed `x` bytes -/
theorem utf16Bom_le (q : Query) (x u : Nat) (h : utf16BomBound q x = some u) :
    qPhi q .utf16Be (utf16Fam true).init x ≤ u ∧ qPhi q .utf16Le (utf16Fam false).init x ≤ u := by
  cases q with
  | utf8 =>
    obtain ⟨b, hb, hu, _⟩ := addO_some h
    obtain ⟨c, hc, hb', _⟩ := mulO_some hb
    obtain ⟨e, he, _, hc'⟩ := divO_some hc
    have := (addU_some he).1
    constructor
    · show 1 + 3 * ((x + utf16AdditionalFromState (utf16Fam true).init) / 2) ≤ u
      rw [utf16Additional_init]; omega
    · show 1 + 3 * ((x + utf16AdditionalFromState (utf16Fam false).init) / 2) ≤ u
      rw [utf16Additional_init]; omega
  | utf8NoRepl =>
    obtain ⟨b, hb, hu, _⟩ := addO_some h
    obtain ⟨c, hc, hb', _⟩ := mulO_some hb
    obtain ⟨e, he, _, hc'⟩ := divO_some hc
    have := (addU_some he).1
    constructor
    · show 1 + 3 * ((x + utf16AdditionalFromState (utf16Fam true).init) / 2) ≤ u
      rw [utf16Additional_init]; omega
    · show 1 + 3 * ((x + utf16AdditionalFromState (utf16Fam false).init) / 2) ≤ u
      rw [utf16Additional_init]; omega
  | utf16 =>
    obtain ⟨b, hb, hu, _⟩ := addO_some h
    obtain ⟨e, he, _, hb'⟩ := divO_some hb
    have := (addU_some he).1
    constructor
    · show 1 + (x + utf16AdditionalFromState (utf16Fam true).init) / 2 ≤ u
      rw [utf16Additional_init]; omega
    · show 1 + (x + utf16AdditionalFromState (utf16Fam false).init) / 2 ≤ u
      rw [utf16Additional_init]; omega

/-- the `AtStart` arm -/
theorem atStart_arm (q : Query) (v : Gen.Variant) (nom : Nominal) (c : Cur (famOfVariant v)) (n Q : Nat)
    (hq : Decoder.maxLen q v nom ⟨.atStart, c⟩ n = some Q) :
    ∃ u8 u16, utf8BomBound q n = some u8 ∧ utf16BomBound q n = some u16 ∧ u8 ≤ Q ∧ u16 ≤ Q ∧
      ((nom = .utf8 ∨ nom = .utf16le ∨ nom = .utf16be) ∨ ∃ nb, curMax q v c n = some nb ∧ nb ≤ Q) := by
  simp only [Decoder.maxLen] at hq
  cases h8 : utf8BomBound q n with
  | none => simp [h8] at hq
  | some u8 =>
    cases h16 : utf16BomBound q n with
    | none => simp [h8, h16] at hq
    | some u16 =>
      simp only [h8, h16] at hq
      refine ⟨u8, u16, rfl, rfl, ?_⟩
      split at hq
      · rename_i hn
        simp only [Option.some.injEq] at hq
        exact ⟨by omega, by omega, Or.inl hn⟩
      · cases hnb : curMax q v c n with
        | none => simp [hnb] at hq
        | some nb =>
          simp only [hnb, Option.some.injEq] at hq
          exact ⟨by omega, by omega, Or.inr ⟨nb, rfl, by omega⟩⟩

/-- the `SeenUtf8First` / `SeenUtf8Second` arm -/
theorem seen8_arm (q : Query) (v : Gen.Variant) (nom : Nominal) (life : Life) (c : Cur (famOfVariant v)) (n Q : Nat)
    (hl : life = .seenUtf8First ∨ life = .seenUtf8Second)
    (hq : Decoder.maxLen q v nom ⟨life, c⟩ n = some Q) :
    ∃ u8, utf8BomBound q (n + 2) = some u8 ∧ u8 ≤ Q ∧
      (nom = .utf8 ∨ ∃ nb, curMax q v c (n + 2) = some nb ∧ nb ≤ Q) := by
  rcases hl with rfl | rfl <;>
  · simp only [Decoder.maxLen] at hq
    cases hs : U.addU n 2 with
    | none => simp [hs] at hq
    | some sum =>
      have hsum := (addU_some hs).1
      simp only [hs] at hq
      subst hsum
      cases h8 : utf8BomBound q (n + 2) with
      | none => simp [h8] at hq
      | some u8 =>
        simp only [h8] at hq
        refine ⟨u8, rfl, ?_⟩
        split at hq
        · rename_i hn
          simp only [Option.some.injEq] at hq
          exact ⟨by omega, Or.inl hn⟩
        · cases hnb : curMax q v c (n + 2) with
          | none => simp [hnb] at hq
          | some nb =>
            simp only [hnb, Option.some.injEq] at hq
            exact ⟨by omega, Or.inr ⟨nb, rfl, by omega⟩⟩

/-- the `SeenUtf16BeFirst` / `SeenUtf16LeFirst` arm -/
theorem seen16_arm (q : Query) (v : Gen.Variant) (nom : Nominal) (life : Life) (c : Cur (famOfVariant v)) (n Q : Nat)
    (hl : life = .seenUtf16BeFirst ∨ life = .seenUtf16LeFirst)
    (hq : Decoder.maxLen q v nom ⟨life, c⟩ n = some Q) :
    ∃ u16, utf16BomBound q (n + 2) = some u16 ∧ u16 ≤ Q ∧
      ((nom = .utf16le ∨ nom = .utf16be) ∨ ∃ nb, curMax q v c (n + 2) = some nb ∧ nb ≤ Q) := by
  rcases hl with rfl | rfl <;>
  · simp only [Decoder.maxLen] at hq
    cases hs : U.addU n 2 with
    | none => simp [hs] at hq
    | some sum =>
      have hsum := (addU_some hs).1
      simp only [hs] at hq
      subst hsum
      cases h16 : utf16BomBound q (n + 2) with
      | none => simp [h16] at hq
      | some u16 =>
        simp only [h16] at hq
        refine ⟨u16, rfl, ?_⟩
        split at hq
        · rename_i hn
          simp only [Option.some.injEq] at hq
          exact ⟨by omega, Or.inl hn⟩
        · cases hnb : curMax q v c (n + 2) with
          | none => simp [hnb] at hq
          | some nb =>
            simp only [hnb, Option.some.injEq] at hq
            exact ⟨by omega, Or.inr ⟨nb, rfl, by omega⟩⟩

/-- the `ConvertingWithPendingBB` arm -/
theorem pendingBB_arm (q : Query) (v : Gen.Variant) (nom : Nominal) (c : Cur (famOfVariant v)) (n Q : Nat)
    (hq : Decoder.maxLen q v nom ⟨.convertingWithPendingBB, c⟩ n = some Q) :
    curMax q v c (n + 2) = some Q := by
  simp only [Decoder.maxLen] at hq
  cases hs : U.addU n 2 with
  | none => simp [hs] at hq
  | some sum =>
    have hsum := (addU_some hs).1
    simp only [hs] at hq
    subst hsum
    exact hq

/-- the nominal decoder in its initial state, when the nominal encoding is UTF-8 / UTF-16 -/
theorem nominal_utf8_le (q : Query) (v : Gen.Variant) (hv : nominalOf v = .utf8) (x u : Nat)
    (h : utf8BomBound q x = some u) : curPhi q v (.nominal (famOfVariant v).init) x ≤ u := by
  have hv' := (nominalOf_utf8 v).mp hv
  subst hv'
  exact utf8Bom_le q x u h

theorem nominal_utf16_le (q : Query) (v : Gen.Variant) (hv : nominalOf v = .utf16le ∨ nominalOf v = .utf16be)
    (x u : Nat) (h : utf16BomBound q x = some u) : curPhi q v (.nominal (famOfVariant v).init) x ≤ u := by
  rcases hv with hv | hv
  · have hv' := (nominalOf_utf16le v).mp hv
    subst hv'
    exact (utf16Bom_le q x u h).2
  · have hv' := (nominalOf_utf16be v).mp hv
    subst hv'
    exact (utf16Bom_le q x u h).1

/-- the value answered in a state without withheld bytes covers the current decoder fed the whole source -/
theorem budget_direct (q : Query) (v : Gen.Variant) (d : Decoder (famOfVariant v)) (n Q : Nat) (hd : LifeInv v d)
    (hl : d.life = .converting ∨ startLife d.life = true)
    (hq : Decoder.maxLen q v (nominalOf v) d n = some Q) : curPhi q v d.cur n ≤ Q := by
  obtain ⟨life, c⟩ := d
  have hcur := hd.cur
  have hfresh := hd.fresh
  simp only at hl hcur hfresh ⊢
  cases life <;> first
    | exact curPhi_le q v c n Q hcur hq
    | (exfalso; (rcases hl with hl | hl <;> cases hl); done)
    | skip
  -- atStart
  obtain ⟨u8, u16, h8, h16, hu8, hu16, hn | ⟨nb, hnb, hle⟩⟩ := atStart_arm q v _ c n Q hq
  · rw [hfresh rfl]
    rcases hn with hn | hn | hn
    · exact Nat.le_trans (nominal_utf8_le q v hn n u8 h8) hu8
    · exact Nat.le_trans (nominal_utf16_le q v (Or.inl hn) n u16 h16) hu16
    · exact Nat.le_trans (nominal_utf16_le q v (Or.inr hn) n u16 h16) hu16
  · exact Nat.le_trans (curPhi_le q v c n nb hcur hnb) hle

/-- … and a fresh UTF-8 decoder fed (at most) the source, in the states in which a UTF-8 BOM may complete -/
theorem budget_bom8 (q : Query) (v : Gen.Variant) (d : Decoder (famOfVariant v)) (n Q : Nat) (hd : LifeInv v d)
    (hl : canSwitch8 d.life = true)
    (hq : Decoder.maxLen q v (nominalOf v) d n = some Q) : qPhi q .utf8 utf8Fam.init n ≤ Q := by
  obtain ⟨life, c⟩ := d
  cases life <;> first | (cases hl; done) | skip
  case atStart =>
    obtain ⟨u8, u16, h8, h16, hu8, hu16, _⟩ := atStart_arm q v _ c n Q hq
    exact Nat.le_trans (utf8Bom_le q n u8 h8) hu8
  case atUtf8Start =>
    have hv := hd.own8 rfl
    have hc : c = .nominal (famOfVariant v).init := hd.fresh rfl
    subst hv
    rw [hc] at hq
    exact qPhi_le q .utf8 utf8Fam.init n Q (variantInv_init .utf8) hq
  case seenUtf8First =>
    obtain ⟨u8, h8, hu8, _⟩ := seen8_arm q v _ _ c n Q (Or.inl rfl) hq
    exact Nat.le_trans (Nat.le_trans (qPhi_mono q .utf8 utf8Fam.init (Nat.le_add_right n 2)) (utf8Bom_le q _ u8 h8)) hu8
  case seenUtf8Second =>
    obtain ⟨u8, h8, hu8, _⟩ := seen8_arm q v _ _ c n Q (Or.inr rfl) hq
    exact Nat.le_trans (Nat.le_trans (qPhi_mono q .utf8 utf8Fam.init (Nat.le_add_right n 2)) (utf8Bom_le q _ u8 h8)) hu8

/-- … and a fresh UTF-16 decoder of the byte order whose BOM may complete -/
theorem budget_bom16 (q : Query) (v : Gen.Variant) (d : Decoder (famOfVariant v)) (n Q : Nat) (hd : LifeInv v d)
    (be : Bool) (hl : canSwitch16 be d.life = true)
    (hq : Decoder.maxLen q v (nominalOf v) d n = some Q) :
    curPhi q v (if be then .utf16be (utf16Fam true).init else .utf16le (utf16Fam false).init) n ≤ Q := by
  have key : ∀ u16, utf16BomBound q n = some u16 → u16 ≤ Q →
      curPhi q v (if be then .utf16be (utf16Fam true).init else .utf16le (utf16Fam false).init) n ≤ Q := by
    intro u16 h16 hu
    cases be
    · exact Nat.le_trans (utf16Bom_le q n u16 h16).2 hu
    · exact Nat.le_trans (utf16Bom_le q n u16 h16).1 hu
  have key2 : ∀ u16, utf16BomBound q (n + 2) = some u16 → u16 ≤ Q →
      curPhi q v (if be then .utf16be (utf16Fam true).init else .utf16le (utf16Fam false).init) n ≤ Q := by
    intro u16 h16 hu
    cases be
    · exact Nat.le_trans (Nat.le_trans (qPhi_mono q .utf16Le (utf16Fam false).init (Nat.le_add_right n 2))
        (utf16Bom_le q _ u16 h16).2) hu
    · exact Nat.le_trans (Nat.le_trans (qPhi_mono q .utf16Be (utf16Fam true).init (Nat.le_add_right n 2))
        (utf16Bom_le q _ u16 h16).1) hu
  obtain ⟨life, c⟩ := d
  cases life <;> first | (cases hl; done) | skip
  case atStart =>
    obtain ⟨u8, u16, h8, h16, hu8, hu16, _⟩ := atStart_arm q v _ c n Q hq
    exact key u16 h16 hu16
  case atUtf16BeStart =>
    have hv := hd.own16be rfl
    have hc : c = .nominal (famOfVariant v).init := hd.fresh rfl
    have hbe : be = true := hl
    subst hv; subst hbe
    rw [hc] at hq
    exact qPhi_le q .utf16Be (utf16Fam true).init n Q (variantInv_init .utf16Be) hq
  case atUtf16LeStart =>
    have hv := hd.own16le rfl
    have hc : c = .nominal (famOfVariant v).init := hd.fresh rfl
    have hbe : be = false := by cases be <;> first | rfl | cases hl
    subst hv; subst hbe
    rw [hc] at hq
    exact qPhi_le q .utf16Le (utf16Fam false).init n Q (variantInv_init .utf16Le) hq
  case seenUtf16BeFirst =>
    obtain ⟨u16, h16, hu16, _⟩ := seen16_arm q v _ _ c n Q (Or.inl rfl) hq
    exact key2 u16 h16 hu16
  case seenUtf16LeFirst =>
    obtain ⟨u16, h16, hu16, _⟩ := seen16_arm q v _ _ c n Q (Or.inr rfl) hq
    exact key2 u16 h16 hu16

/-- … and, while bytes are withheld, the current decoder fed the withheld bytes and the source -/
theorem budget_replay (q : Query) (v : Gen.Variant) (d : Decoder (famOfVariant v)) (n Q : Nat) (hd : LifeInv v d)
    (hl : 0 < withheld d.life)
    (hq : Decoder.maxLen q v (nominalOf v) d n = some Q) : curPhi q v d.cur (n + 2) ≤ Q := by
  obtain ⟨life, c⟩ := d
  have hcur := hd.cur
  have hfresh := hd.fresh
  simp only at hcur hfresh ⊢
  cases life <;> first | (simp [withheld] at hl; done) | skip
  case convertingWithPendingBB => exact curPhi_le q v c _ Q hcur (pendingBB_arm q v _ c n Q hq)
  case seenUtf8First =>
    obtain ⟨u8, h8, hu8, hn | ⟨nb, hnb, hle⟩⟩ := seen8_arm q v _ _ c n Q (Or.inl rfl) hq
    · rw [hfresh rfl]; exact Nat.le_trans (nominal_utf8_le q v hn _ u8 h8) hu8
    · exact Nat.le_trans (curPhi_le q v c _ nb hcur hnb) hle
  case seenUtf8Second =>
    obtain ⟨u8, h8, hu8, hn | ⟨nb, hnb, hle⟩⟩ := seen8_arm q v _ _ c n Q (Or.inr rfl) hq
    · rw [hfresh rfl]; exact Nat.le_trans (nominal_utf8_le q v hn _ u8 h8) hu8
    · exact Nat.le_trans (curPhi_le q v c _ nb hcur hnb) hle
  case seenUtf16BeFirst =>
    obtain ⟨u16, h16, hu16, hn | ⟨nb, hnb, hle⟩⟩ := seen16_arm q v _ _ c n Q (Or.inl rfl) hq
    · rw [hfresh rfl]; exact Nat.le_trans (nominal_utf16_le q v hn _ u16 h16) hu16
    · exact Nat.le_trans (curPhi_le q v c _ nb hcur hnb) hle
  case seenUtf16LeFirst =>
    obtain ⟨u16, h16, hu16, hn | ⟨nb, hnb, hle⟩⟩ := seen16_arm q v _ _ c n Q (Or.inr rfl) hq
    · rw [hfresh rfl]; exact Nat.le_trans (nominal_utf16_le q v hn _ u16 h16) hu16
    · exact Nat.le_trans (curPhi_le q v c _ nb hcur hnb) hle

theorem replayOne_withheld (l : Life) (fb : Nat) (h : replayOne l = some fb) : 0 < withheld l := by
  cases l <;> simp [replayOne] at h <;> simp [withheld]

/-! ### the theorem -/

/-- **C07, life-cycle arms, without replacement**: in every life-cycle state of a decoder reachable
from `new_decoder*` (`LifeInv`), for every nominal encoding and every query `q`: if
`Decoder::max_*` answers `Q` for the number of bytes passed and the destination holds at least `Q`
units, a `decode_to_*_without_replacement` call whose inner variant-decoder calls (the replay of
withheld bytes included) are admissible does not return `OutputFull`.
`q = .utf16`: `max_utf16_buffer_length` / `decode_to_utf16_without_replacement`;
`q = .utf8NoRepl`: `max_utf8_buffer_length_without_replacement` / `decode_to_utf8_without_replacement`;
`q = .utf8`: the (larger) with-replacement value is sufficient for the raw method too. -/
theorem decoder_life_raw_sufficient (q : Query) (v : Gen.Variant) (d : Decoder (famOfVariant v))
    (hd : LifeInv v d) (src : List Nat) (last : Bool) (b1 b2 : Budget) (cap Q : Nat)
    (hb : ∀ x ∈ src, x < 256)
    (hq : Decoder.maxLen q v (nominalOf v) d src.length = some Q) (hcap : Q ≤ cap) :
    NoFull (sinkOf q) cap (d.rawCall (sinkOf q) src last b1 b2) := by
  have hleaf := rawCall_leaf (sinkOf q) d src last b1 b2
  generalize d.rawCall (sinkOf q) src last b1 b2 = r at hleaf
  cases hleaf with
  | finished _ => trivial
  | idle _ _ => intro _ h; cases h
  | wait n life' _ _ _ => intro _ h; cases h
  | direct hl =>
    exact checkingEnd_noFull q v d.cur src last b2 0 cap hd.cur hb
      (Nat.le_trans (budget_direct q v d _ Q hd hl hq) hcap)
  | bom8 off hl =>
    refine checkingEnd_noFull q v (.utf8 utf8Fam.init) src last b2 off cap (curInv_utf8_init v) hb ?_
    exact Nat.le_trans (Nat.le_trans (qPhi_mono q .utf8 utf8Fam.init (Nat.sub_le _ _))
      (budget_bom8 q v d _ Q hd hl hq)) hcap
  | bom16 be off hl =>
    refine checkingEnd_noFull q v _ src last b2 off cap (curInv_utf16_init v be) hb ?_
    exact Nat.le_trans (Nat.le_trans (curPhi_mono q v _ (Nat.sub_le _ _))
      (budget_bom16 q v d _ Q hd be hl hq)) hcap
  | one fb hfb =>
    exact afterOne_noFull q v d.cur src last fb b1 b2 cap hd.cur hb (replayOne_lt _ _ hfb)
      (Nat.le_trans (budget_replay q v d _ Q hd (replayOne_withheld _ _ hfb) hq) hcap)
  | two hl =>
    exact afterTwo_noFull q v d.cur src last b1 b2 cap hd.cur hb
      (Nat.le_trans (budget_replay q v d _ Q hd (by rw [hl]; simp [withheld]) hq) hcap)

/-- for every decoder reachable from `new_decoder` / `new_decoder_with_bom_removal` /
`new_decoder_without_bom_handling` of any of the 40 encodings by any history of calls -/
theorem reachable_life_raw_sufficient (q : Query) (v : Gen.Variant) (bom : BomHandling)
    (d : Decoder (famOfVariant v)) (hr : DReach v bom d) (src : List Nat) (last : Bool) (b1 b2 : Budget)
    (cap Q : Nat) (hb : ∀ x ∈ src, x < 256)
    (hq : Decoder.maxLen q v (nominalOf v) d src.length = some Q) (hcap : Q ≤ cap)
    (hadm : DAdmissible (sinkOf q) cap (d.rawCall (sinkOf q) src last b1 b2)) :
    ∀ res read out d' inner, d.rawCall (sinkOf q) src last b1 b2 = .ok res read out d' inner → res ≠ .outputFull := by
  intro res read out d' inner h
  have := decoder_life_raw_sufficient q v d (lifeInv_reachable v bom d hr) src last b1 b2 cap Q hb hq hcap
  rw [h] at this hadm
  exact this hadm

/-! ### no "output buffer must have been too small" panic -/

/-- the withheld bytes that are replayed into the current decoder before the source -/
def replayBytes : Life → List Nat
  | .seenUtf8First => [0xEF]
  | .seenUtf8Second => [0xEF, 0xBB]
  | .seenUtf16BeFirst => [0xFE]
  | .seenUtf16LeFirst => [0xFF]
  | .convertingWithPendingBB => [0xBB]
  | _ => []

theorem replayBytes_one (l : Life) (fb : Nat) (h : replayOne l = some fb) : replayBytes l = [fb] := by
  cases l <;> simp [replayOne] at h <;> simp [replayBytes, h]

theorem checkingEnd_ne_panic {F : Fam} (k : Sink) (c : Cur F) (src : List Nat) (last : Bool) (b : Budget)
    (off : Nat) (pre : List (List Nat × Res × Nat)) (preOut : List Nat) :
    checkingEnd k c src last b off pre preOut ≠ .panic := by
  unfold checkingEnd; intro h; cases h

/-- **the replay of withheld bytes does not panic** when the destination is at least as large as
the matching query's answer: the panic path of `Model.afterOne` / `afterTwo` (the Rust
`unreachable!("Output buffer must have been too small.")`) needs an `OutputFull` answer of the replay
call, which an admissible replay call cannot give. (`hrep`: the `OutputFull` clause of
`Model.Admissible` for the replay call.) -/
theorem decoder_life_no_panic (q : Query) (v : Gen.Variant) (d : Decoder (famOfVariant v))
    (hd : LifeInv v d) (src : List Nat) (last : Bool) (b1 b2 : Budget) (cap Q : Nat)
    (hq : Decoder.maxLen q v (nominalOf v) d src.length = some Q) (hcap : Q ≤ cap)
    (hfin : d.life ≠ .finished)
    (hrep : (d.cur.call (sinkOf q) (replayBytes d.life) false b1).res = .outputFull →
      cap < unitsOfList (sinkOf q) (d.cur.call (sinkOf q) (replayBytes d.life) false b1).out
        + (d.cur.call (sinkOf q) (replayBytes d.life) false b1).stopNeed) :
    d.rawCall (sinkOf q) src last b1 b2 ≠ .panic := by
  have hleaf := rawCall_leaf (sinkOf q) d src last b1 b2
  generalize d.rawCall (sinkOf q) src last b1 b2 = r at hleaf
  cases hleaf with
  | finished h => exact absurd h hfin
  | idle _ _ => intro h; cases h
  | wait n life' _ _ _ => intro h; cases h
  | direct _ => exact checkingEnd_ne_panic _ _ _ _ _ _ _ _
  | bom8 off _ => exact checkingEnd_ne_panic _ _ _ _ _ _ _ _
  | bom16 be off _ => exact checkingEnd_ne_panic _ _ _ _ _ _ _ _
  | one fb hfb =>
    have hphi := Nat.le_trans (budget_replay q v d _ Q hd (replayOne_withheld _ _ hfb) hq) hcap
    rw [replayBytes_one _ _ hfb] at hrep
    have hb1 : ∀ x ∈ [fb], x < 256 := by
      intro x hx; simp only [List.mem_singleton] at hx; rw [hx]; exact replayOne_lt _ _ hfb
    have hsl := (cur_call_slack q v d.cur [fb] b1 (src.length + 1) hd.cur hb1).2
    have e : [fb].length + (src.length + 1) = src.length + 2 := by simp only [List.length_singleton]; omega
    rw [e] at hsl
    unfold afterOne
    generalize d.cur.call (sinkOf q) [fb] false b1 = r1 at hsl hrep ⊢
    simp only
    cases hres : r1.res with
    | inputEmpty => simp only; exact checkingEnd_ne_panic _ _ _ _ _ _ _ _
    | malformed l a => simp only; intro h; cases h
    | outputFull =>
      simp only
      split
      · intro h; cases h
      · exfalso
        have h1 := hsl hres
        have h2 := hrep hres
        omega
  | two hl =>
    have hphi := Nat.le_trans (budget_replay q v d _ Q hd (by rw [hl]; simp [withheld]) hq) hcap
    rw [hl] at hrep
    have hb1 : ∀ x ∈ [0xEF, 0xBB], x < 256 := by decide
    have hsl := (cur_call_slack q v d.cur [0xEF, 0xBB] b1 src.length hd.cur hb1).2
    have e : [0xEF, 0xBB].length + src.length = src.length + 2 := by
      simp only [List.length_cons, List.length_nil]; omega
    rw [e] at hsl
    unfold afterTwo
    simp only [replayBytes] at hrep
    generalize d.cur.call (sinkOf q) [0xEF, 0xBB] false b1 = r1 at hsl hrep ⊢
    simp only
    cases hres : r1.res with
    | inputEmpty => simp only; exact checkingEnd_ne_panic _ _ _ _ _ _ _ _
    | malformed l a => simp only; split <;> (intro h; cases h)
    | outputFull =>
      simp only
      split
      · intro h; cases h
      · exfalso
        have h1 := hsl hres
        have h2 := hrep hres
        omega

/-! ### Non-vacuity -/

section demo
/-- windows-1252 -/
private def vW : Gen.Variant := .singleByte 19 160 32 96
private def dW0 : Decoder (famOfVariant vW) := Decoder.new (famOfVariant vW) (nominalOf vW) .sniff
/-- after `EF`, `BB` in two calls: both withheld -/
private def dW2 : Decoder (famOfVariant vW) := ⟨.seenUtf8Second, .nominal ()⟩

set_option maxRecDepth 8192 in
/-- windows-1252, sniffing, `EF BB` withheld: the state is reachable; for one more byte the three
queries answer 12 / 9 / 4 (the maximum of the UTF-8-after-BOM bound for 1 + 2 bytes, 12 / 6 / 4, and
the nominal decoder's 9 / 9 / 3); the byte `41` makes the decoder replay `EF BB` (two characters) and decode `A`:
three UTF-16 units, admissible in a 4-unit destination, `InputEmpty`. -/
example :
    DReach vW .sniff dW2 ∧
    Decoder.maxLen .utf8 vW (nominalOf vW) dW2 1 = some 12 ∧
    Decoder.maxLen .utf8NoRepl vW (nominalOf vW) dW2 1 = some 9 ∧
    Decoder.maxLen .utf16 vW (nominalOf vW) dW2 1 = some 4 ∧
    dW2.rawCall .utf16 [0x41] false .unlimited .unlimited =
      .ok .inputEmpty 1 [0xEF, 0xBB, 0x41] ⟨.converting, .nominal ()⟩
        [([0xEF, 0xBB], .inputEmpty, 0), ([0x41], .inputEmpty, 0)] ∧
    InnerAdmissible .utf16 4 [([0xEF, 0xBB], .inputEmpty, 0), ([0x41], .inputEmpty, 0)] := by
  have h1 : dW0.rawCall .utf16 [0xEF] false .unlimited .unlimited =
      .ok .inputEmpty 1 [] ⟨.seenUtf8First, .nominal ()⟩ [] := rfl
  have h2 : (⟨.seenUtf8First, .nominal ()⟩ : Decoder (famOfVariant vW)).rawCall .utf16 [0xBB] false .unlimited .unlimited =
      .ok .inputEmpty 1 [] dW2 [] := rfl
  refine ⟨?_, by decide +kernel, by decide +kernel, by decide +kernel, rfl, ?_⟩
  · exact DReach.call .utf16 _ [0xBB] false .unlimited .unlimited _ _ _ _ _
      (DReach.call .utf16 dW0 [0xEF] false .unlimited .unlimited _ _ _ _ _ DReach.new (by decide) h1) (by decide) h2
  · refine ⟨⟨by decide, (by intro h; cases h), (by intro l a h; cases h)⟩,
      ⟨by decide, (by intro h; cases h), (by intro l a h; cases h)⟩, trivial⟩

set_option maxRecDepth 8192 in
/-- the bound is tight for the replay: in a 2-unit destination (the documented minimum) the replay of
`EF BB` may stop with `OutputFull` after `EF`, leaving `BB` pending (finding F2's repaired path) —
admissible for 2 units, not for the 4 the query asks for. -/
example :
    dW2.rawCall .utf16 [0x41] false (.full 1) .unlimited =
      .ok .outputFull 0 [0xEF] ⟨.convertingWithPendingBB, .nominal ()⟩ [([0xEF], .outputFull, 1)] ∧
    InnerAdmissible .utf16 1 [([0xEF], .outputFull, 1)] ∧ ¬ InnerAdmissible .utf16 4 [([0xEF], .outputFull, 1)] := by
  refine ⟨rfl, ⟨⟨by decide, (by intro _; decide), (by intro l a h; cases h)⟩, trivial⟩, ?_⟩
  intro h
  have := h.1.2.1 rfl
  revert this; decide
end demo

end EncodingRs.Thm.C07
