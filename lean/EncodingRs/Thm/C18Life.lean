import EncodingRs.Thm.C18
import EncodingRs.Lemmas.LifeLift
/-!
# C18 through the BOM life cycle — the public `Decoder` on a real destination

`Thm/C18.lean` threads an arbitrary old destination through one call of a *variant* decoder
(`callMem`).  Here the same for what a user calls, with the stores of the call modelled one by one:

* `rawCallMem` — `Decoder::decode_to_utf8/16_without_replacement` (`Model.Decoder.rawCall`, BOM life
  cycle included) on a destination with old contents `old`: every inner variant-decoder call (the
  replay of one or two withheld potential-BOM bytes first, then the call on the source) stores its
  code units at `dst[written_so_far..]` (`storeInner`, `storeAt`).
* `replCallMem` — `Decoder::decode_to_utf8` / `decode_to_utf16` (`Thm.C07.Decoder.replCall`) with the
  destination threaded through the loop: the stores of every raw call at `dst[total_written..]`, then
  the U+FFFD at the new `total_written`, and so on.

Theorems (every life-cycle state, every source, every stop policy, either sink; no reachability or
admissibility hypothesis is needed):

* **`rawCallMem_eq`** / **`replCallMem_eq`**: the result is the result of the pure model, `written` is
  the number of code units of its output, and the destination afterwards is
  `store old (encodeUnits k out)` — the written units followed by the old contents from `written` on —
  *whatever the destination held before*;
* **`decoder_call_independent_of_dst`** / **`decoder_repl_independent_of_dst`**: two runs that differ
  only in the old destination contents return the same values (result, `read`, `had_errors`, decoder
  state) and the same written prefix;
* **`decoder_prefix_fully_stored`** / **`decoder_repl_prefix_fully_stored`**: every unit of
  `dst[..written]` is stored by the call (no gap between the stores of the replay, of the call on the
  source, of the U+FFFDs and of the later raw calls of the loop);
* **`decoder_beyond_written_unmodified`** / **`decoder_repl_beyond_written_unmodified`**: the MODEL
  modifies nothing at or beyond `written`.

**The last item is a fact about the model's `store`, not a claim about the crate.**  The
implementation is allowed to write beyond `written` ("Garbage may be written in the output buffer
beyond the point logically written to", lib.rs), and it does: the bulk ASCII / SIMD kernels of the
real code may store a whole stride that begins at or before the final `written` and extends up to
`MAX_STRIDE_SIZE` units beyond it.  That is why `decode_to_str*` zero a window behind `written`, and
why `Thm/C05Str.lean` carries the explicit stride-garbage hypothesis (`hgarbage` / `hmod`: beyond
`written` the destination differs from the old contents at most inside
`[written, written + MAX_STRIDE_SIZE)`) instead of using `beyond_written_unmodified`.  What C18 claims
about the crate — the returned values and `dst[..written]` do not depend on old contents — is the
first two items plus the correspondence run with three destination fill patterns.
-/
namespace EncodingRs.Thm.C18Life
open EncodingRs EncodingRs.Model EncodingRs.Lemmas.LifeLift EncodingRs.Thm.C07 EncodingRs.Thm.C18

variable {F : Fam}

/-! ### stores -/

/-- store `units` at offset `off` -/
def storeAt (dst : List Nat) (off : Nat) (units : List Nat) : List Nat :=
  dst.take off ++ units ++ dst.drop (off + units.length)

theorem store_nil (old : List Nat) : store old [] = old := by simp [store]

/-- a store directly behind what has been written so far extends the written prefix and leaves the
rest of the old contents alone -/
theorem storeAt_store (old acc units : List Nat) :
    storeAt (store old acc) acc.length units = store old (acc ++ units) := by
  unfold storeAt store
  have h1 : (acc ++ old.drop acc.length).take acc.length = acc := by
    rw [List.take_append_of_le_length (Nat.le_refl _), List.take_length]
  have h2 : (acc ++ old.drop acc.length).drop (acc.length + units.length) = old.drop (acc ++ units).length := by
    simp [List.drop_drop]
  rw [h1, h2]

theorem encodeUnits_append (k : Sink) (a b : List Nat) : encodeUnits k (a ++ b) = encodeUnits k a ++ encodeUnits k b := by
  cases k <;> simp [encodeUnits, List.flatMap_append]

/-- the stores of the inner variant-decoder calls of one `Decoder` call, in order: each at the
current write offset; returns the new offset and the destination -/
def storeInner (k : Sink) : List (List Nat × Res × Nat) → Nat → List Nat → Nat × List Nat
  | [], tw, dst => (tw, dst)
  | x :: t, tw, dst => storeInner k t (tw + (encodeUnits k x.1).length) (storeAt dst tw (encodeUnits k x.1))

theorem storeInner_store (k : Sink) : ∀ (inner : List (List Nat × Res × Nat)) (acc old : List Nat),
    storeInner k inner acc.length (store old acc)
      = ((acc ++ encodeUnits k (innerOut inner)).length, store old (acc ++ encodeUnits k (innerOut inner))) := by
  intro inner
  induction inner with
  | nil => intro acc old; simp [storeInner, innerOut]; cases k <;> simp [encodeUnits]
  | cons x t ih =>
    intro acc old
    have e : innerOut (x :: t) = x.1 ++ innerOut t := by simp [innerOut]
    rw [storeInner, storeAt_store, ← List.length_append, ih, e, encodeUnits_append, List.append_assoc]

/-! ### the without-replacement methods -/

structure DMemRes (F : Fam) where
  r : DRes F
  written : Nat
  dst : List Nat

/-- `decode_to_utf8/16_without_replacement` on a destination with old contents `old` -/
def rawCallMem (k : Sink) (old : List Nat) (d : Decoder F) (src : List Nat) (last : Bool) (b1 b2 : Budget) :
    DMemRes F :=
  match d.rawCall k src last b1 b2 with
  | .panic => ⟨.panic, 0, old⟩
  | .ok res read out d' inner =>
    ⟨.ok res read out d' inner, (storeInner k inner 0 old).1, (storeInner k inner 0 old).2⟩

/-- **the call on a real destination returns what the pure model returns; `written` is the number of
code units of the model's output and the destination is that output stored over the old contents** —
whatever the old contents -/
theorem rawCallMem_eq (k : Sink) (old : List Nat) (d : Decoder F) (src : List Nat) (last : Bool) (b1 b2 : Budget) :
    (rawCallMem k old d src last b1 b2).r = d.rawCall k src last b1 b2 ∧
    ∀ res read out d' inner, d.rawCall k src last b1 b2 = .ok res read out d' inner →
      (rawCallMem k old d src last b1 b2).written = (encodeUnits k out).length ∧
      (rawCallMem k old d src last b1 b2).dst = store old (encodeUnits k out) := by
  have hc := rawCall_coh k d src last b1 b2
  unfold rawCallMem
  cases hcall : d.rawCall k src last b1 b2 with
  | panic => exact ⟨rfl, by intro _ _ _ _ _ h; cases h⟩
  | ok res read out d' inner =>
    refine ⟨rfl, ?_⟩
    intro res' read' out' d'' inner' h
    simp only [DRes.ok.injEq] at h
    obtain ⟨_, _, ho, _, _⟩ := h
    subst ho
    rw [hcall] at hc
    have hs := storeInner_store k inner [] old
    rw [store_nil, List.nil_append, ← hc.1] at hs
    simp only [List.length_nil] at hs
    simp only
    rw [hs]
    exact ⟨rfl, rfl⟩

/-- **all return values and the written prefix are the same whatever the destination held before** -/
theorem decoder_call_independent_of_dst (k : Sink) (old₁ old₂ : List Nat) (d : Decoder F) (src : List Nat)
    (last : Bool) (b1 b2 : Budget) :
    (rawCallMem k old₁ d src last b1 b2).r = (rawCallMem k old₂ d src last b1 b2).r ∧
    (rawCallMem k old₁ d src last b1 b2).written = (rawCallMem k old₂ d src last b1 b2).written ∧
    (rawCallMem k old₁ d src last b1 b2).dst.take (rawCallMem k old₁ d src last b1 b2).written
      = (rawCallMem k old₂ d src last b1 b2).dst.take (rawCallMem k old₂ d src last b1 b2).written := by
  have h1 := rawCallMem_eq k old₁ d src last b1 b2
  have h2 := rawCallMem_eq k old₂ d src last b1 b2
  refine ⟨h1.1.trans h2.1.symm, ?_⟩
  cases hcall : d.rawCall k src last b1 b2 with
  | panic =>
    unfold rawCallMem
    rw [hcall]
    exact ⟨rfl, by simp⟩
  | ok res read out d' inner =>
    obtain ⟨a1, a2⟩ := h1.2 res read out d' inner hcall
    obtain ⟨c1, c2⟩ := h2.2 res read out d' inner hcall
    rw [a1, a2, c1, c2]
    exact ⟨rfl, by simp [store]⟩

/-- **every unit of the written prefix is stored by the call** -/
theorem decoder_prefix_fully_stored (k : Sink) (old : List Nat) (d : Decoder F) (src : List Nat) (last : Bool)
    (b1 b2 : Budget) (res : Res) (read : Nat) (out : List Nat) (d' : Decoder F)
    (inner : List (List Nat × Res × Nat)) (h : d.rawCall k src last b1 b2 = .ok res read out d' inner)
    (i : Nat) (hi : i < (rawCallMem k old d src last b1 b2).written) :
    (rawCallMem k old d src last b1 b2).dst[i]? = (encodeUnits k out)[i]? := by
  obtain ⟨a1, a2⟩ := (rawCallMem_eq k old d src last b1 b2).2 res read out d' inner h
  rw [a1] at hi
  rw [a2]
  exact prefix_fully_stored old _ i hi

/-- the written prefix is the model's output -/
theorem decoder_prefix_eq (k : Sink) (old : List Nat) (d : Decoder F) (src : List Nat) (last : Bool)
    (b1 b2 : Budget) (res : Res) (read : Nat) (out : List Nat) (d' : Decoder F)
    (inner : List (List Nat × Res × Nat)) (h : d.rawCall k src last b1 b2 = .ok res read out d' inner) :
    (rawCallMem k old d src last b1 b2).dst.take (rawCallMem k old d src last b1 b2).written = encodeUnits k out := by
  obtain ⟨a1, a2⟩ := (rawCallMem_eq k old d src last b1 b2).2 res read out d' inner h
  rw [a1, a2]
  simp [store]

/-- **(model) nothing at or beyond `written` is modified** — a fact about the model's stores; the real
bulk kernels may write a stride beyond `written` (module comment; `Thm/C05Str.lean`'s stride-garbage
hypothesis) -/
theorem decoder_beyond_written_unmodified (k : Sink) (old : List Nat) (d : Decoder F) (src : List Nat)
    (last : Bool) (b1 b2 : Budget) (i : Nat) (hi : (rawCallMem k old d src last b1 b2).written ≤ i) :
    (rawCallMem k old d src last b1 b2).dst[i]? = old[i]? := by
  cases hcall : d.rawCall k src last b1 b2 with
  | panic =>
    unfold rawCallMem
    rw [hcall]
  | ok res read out d' inner =>
    obtain ⟨a1, a2⟩ := (rawCallMem_eq k old d src last b1 b2).2 res read out d' inner hcall
    rw [a1] at hi
    rw [a2]
    exact beyond_written_unmodified old _ i hi

/-- a call whose output fits leaves the length of the destination unchanged -/
theorem decoder_dst_length (k : Sink) (old : List Nat) (d : Decoder F) (src : List Nat) (last : Bool)
    (b1 b2 : Budget) (hfit : (rawCallMem k old d src last b1 b2).written ≤ old.length) :
    (rawCallMem k old d src last b1 b2).dst.length = old.length := by
  cases hcall : d.rawCall k src last b1 b2 with
  | panic =>
    unfold rawCallMem
    rw [hcall]
  | ok res read out d' inner =>
    obtain ⟨a1, a2⟩ := (rawCallMem_eq k old d src last b1 b2).2 res read out d' inner hcall
    rw [a1] at hfit
    rw [a2]
    simp only [store, List.length_append, List.length_drop]
    omega

/-! ### the with-replacement methods: the destination threaded through the loop -/

/-- `Decoder::decode_to_utf8` / `decode_to_utf16` on a destination: `tw` = `total_written`, `dst` = the
destination as the earlier iterations left it.  Returns the result of the pure loop, the final
`total_written` and the destination. -/
def replCallMem (k : Sink) (last : Bool) :
    Nat → Decoder F → List Nat → List (Budget × Budget) → Nat → List Nat →
    Option (Option (DReplRes F × Nat × List Nat))
  | 0, _, _, _, _, _ => none
  | fuel + 1, d, src, bs, tw, dst =>
    match d.rawCall k src last (bs.headD (.unlimited, .unlimited)).1 (bs.headD (.unlimited, .unlimited)).2 with
    | .panic => some none
    | .ok res read out d' inner =>
      match res with
      | .malformed _ _ =>
        match replCallMem k last fuel d' (src.drop read) bs.tail
            ((storeInner k inner tw dst).1 + (encodeUnits k [0xFFFD]).length)
            (storeAt (storeInner k inner tw dst).2 (storeInner k inner tw dst).1 (encodeUnits k [0xFFFD])) with
        | some (some (t, w, dd)) => some (some (⟨t.res, read + t.read, out ++ 0xFFFD :: t.out, true, t.d⟩, w, dd))
        | some none => some none
        | none => none
      | _ => some (some (⟨res, read, out, false, d'⟩, (storeInner k inner tw dst).1, (storeInner k inner tw dst).2))

/-- what the memory-level loop must return, given the result of the pure loop -/
def memOf (k : Sink) (old acc : List Nat) (t : DReplRes F) : DReplRes F × Nat × List Nat :=
  (t, (acc ++ encodeUnits k t.out).length, store old (acc ++ encodeUnits k t.out))

/-- the loop on a destination whose first `acc.length` units hold `acc` (what has been written so far)
computes what the pure loop computes and stores its output behind `acc` -/
theorem replCallMem_go (k : Sink) (last : Bool) :
    ∀ (fuel : Nat) (d : Decoder F) (src : List Nat) (bs : List (Budget × Budget)) (acc old : List Nat),
      replCallMem k last fuel d src bs acc.length (store old acc) =
        (Decoder.replCall k last fuel d src bs).map (Option.map (memOf k old acc)) := by
  intro fuel
  induction fuel with
  | zero => intro d src bs acc old; rfl
  | succ fuel ih =>
    intro d src bs acc old
    rw [replCallMem, Decoder.replCall]
    have hc := rawCall_coh k d src last (bs.headD (.unlimited, .unlimited)).1 (bs.headD (.unlimited, .unlimited)).2
    cases hcall : d.rawCall k src last (bs.headD (.unlimited, .unlimited)).1 (bs.headD (.unlimited, .unlimited)).2 with
    | panic => rfl
    | ok res read out d' inner =>
      rw [hcall] at hc
      have hst := storeInner_store k inner acc old
      rw [← hc.1] at hst
      simp only
      rw [hst]
      cases res with
      | inputEmpty => simp [memOf]
      | outputFull => simp [memOf]
      | malformed l a =>
        simp only
        rw [storeAt_store, ← List.length_append, ih]
        cases hrec : Decoder.replCall k last fuel d' (src.drop read) bs.tail with
        | none => rfl
        | some o =>
          cases o with
          | none => rfl
          | some t' =>
            simp only [Option.map_some, memOf, Option.some.injEq, Prod.mk.injEq, true_and]
            have e : acc ++ encodeUnits k out ++ encodeUnits k [0xFFFD] ++ encodeUnits k t'.out
                = acc ++ encodeUnits k (out ++ 0xFFFD :: t'.out) := by
              have : out ++ 0xFFFD :: t'.out = out ++ ([0xFFFD] ++ t'.out) := rfl
              rw [this, encodeUnits_append, encodeUnits_append]
              simp [List.append_assoc]
            rw [e]
            exact ⟨rfl, rfl⟩

/-- `Decoder::decode_to_utf8` / `decode_to_utf16` on a destination with old contents `old` -/
def decodeMem (k : Sink) (last : Bool) (old : List Nat) (fuel : Nat) (d : Decoder F) (src : List Nat)
    (bs : List (Budget × Budget)) : Option (Option (DReplRes F × Nat × List Nat)) :=
  replCallMem k last fuel d src bs 0 old

/-- **the with-replacement call on a real destination returns exactly what the pure model returns** —
result, `read`, `had_errors`, the decoder left behind —, `written` is the number of code units of its
output (U+FFFDs included) and the destination is that output stored over the old contents, whatever
the old contents -/
theorem replCallMem_eq (k : Sink) (last : Bool) (old : List Nat) (fuel : Nat) (d : Decoder F) (src : List Nat)
    (bs : List (Budget × Budget)) :
    decodeMem k last old fuel d src bs =
      (Decoder.replCall k last fuel d src bs).map (Option.map fun t =>
        (t, (encodeUnits k t.out).length, store old (encodeUnits k t.out))) := by
  have h := replCallMem_go k last fuel d src bs [] old
  rw [store_nil] at h
  simp only [List.length_nil] at h
  unfold decodeMem
  rw [h]
  congr 1

/-- **nothing is computed from the destination's old contents**: the returned values and `written`
agree for any two old contents, and so does the written prefix -/
theorem decoder_repl_independent_of_dst (k : Sink) (last : Bool) (old₁ old₂ : List Nat) (fuel : Nat)
    (d : Decoder F) (src : List Nat) (bs : List (Budget × Budget)) :
    (decodeMem k last old₁ fuel d src bs).map (Option.map fun p => (p.1, p.2.1, p.2.2.take p.2.1))
      = (decodeMem k last old₂ fuel d src bs).map (Option.map fun p => (p.1, p.2.1, p.2.2.take p.2.1)) := by
  rw [replCallMem_eq, replCallMem_eq]
  cases Decoder.replCall k last fuel d src bs with
  | none => rfl
  | some o =>
    cases o with
    | none => rfl
    | some t => simp [store]

/-- **every unit of the written prefix is stored by the call**: `dst[..written]` is the UTF-8 / UTF-16
form of everything the loop reports as written, U+FFFDs included — the stores of the successive raw
calls and replacement characters tile it without gaps -/
theorem decoder_repl_prefix_fully_stored (k : Sink) (last : Bool) (old : List Nat) (fuel : Nat)
    (d : Decoder F) (src : List Nat) (bs : List (Budget × Budget)) (t : DReplRes F) (w : Nat) (dst : List Nat)
    (h : decodeMem k last old fuel d src bs = some (some (t, w, dst))) :
    Decoder.replCall k last fuel d src bs = some (some t) ∧
    w = (encodeUnits k t.out).length ∧ dst.take w = encodeUnits k t.out ∧
    ∀ i, i < w → dst[i]? = (encodeUnits k t.out)[i]? := by
  rw [replCallMem_eq] at h
  cases hrun : Decoder.replCall k last fuel d src bs with
  | none => rw [hrun] at h; simp at h
  | some o =>
    cases o with
    | none => rw [hrun] at h; simp at h
    | some t' =>
      rw [hrun] at h
      simp only [Option.map_some, Option.some.injEq, Prod.mk.injEq] at h
      obtain ⟨ht, hw, hd⟩ := h
      subst ht; subst hw; subst hd
      refine ⟨rfl, rfl, by simp [store], ?_⟩
      intro i hi
      exact prefix_fully_stored old _ i hi

/-- **(model) nothing at or beyond `written` is modified** by the with-replacement loop — again a fact
about the model's stores, not about the bulk kernels of the crate (module comment) -/
theorem decoder_repl_beyond_written_unmodified (k : Sink) (last : Bool) (old : List Nat) (fuel : Nat)
    (d : Decoder F) (src : List Nat) (bs : List (Budget × Budget)) (t : DReplRes F) (w : Nat) (dst : List Nat)
    (h : decodeMem k last old fuel d src bs = some (some (t, w, dst))) (i : Nat) (hi : w ≤ i) :
    dst[i]? = old[i]? := by
  rw [replCallMem_eq] at h
  cases hrun : Decoder.replCall k last fuel d src bs with
  | none => rw [hrun] at h; simp at h
  | some o =>
    cases o with
    | none => rw [hrun] at h; simp at h
    | some t' =>
      rw [hrun] at h
      simp only [Option.map_some, Option.some.injEq, Prod.mk.injEq] at h
      obtain ⟨ht, hw, hd⟩ := h
      subst ht; subst hw; subst hd
      exact beyond_written_unmodified old _ i hi

/-! ### Non-vacuity

UTF-8 with `EF BB` withheld as a potential BOM, last call on `41` into an 8-byte destination
pre-filled with `A5`, with replacement: no BOM after all; the replay of `EF BB` into the UTF-8 decoder
followed by `41` reports the truncated sequence (U+FFFD: three bytes stored at offset 0), the second
raw call of the loop stores `41` at offset 3; the rest of the destination keeps its fill. -/
section demo
private def dU2 : Decoder (famOfVariant .utf8) := ⟨.seenUtf8Second, .nominal utf8Fam.init⟩

set_option maxRecDepth 8192 in
example :
    (decodeMem .utf8 true (List.replicate 8 0xA5) 3 dU2 [0x41] []).map
        (Option.map fun p => (p.1.res, p.1.read, p.1.out, p.1.hadErrors))
      = some (some (.inputEmpty, 1, [0xFFFD, 0x41], true)) ∧
    (decodeMem .utf8 true (List.replicate 8 0xA5) 3 dU2 [0x41] []).map (Option.map fun p => p.2)
      = some (some (4, [0xEF, 0xBF, 0xBD, 0x41, 0xA5, 0xA5, 0xA5, 0xA5])) := by
  constructor <;> decide +kernel
end demo

end EncodingRs.Thm.C18Life
