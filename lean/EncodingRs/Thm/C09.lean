import EncodingRs.Model.Repl
import EncodingRs.Thm.C02
/-!
# C09 — replacement modes equal the documented manual error-recovery procedure (decoder side)
-/
namespace EncodingRs.Thm.C09
open EncodingRs EncodingRs.Model EncodingRs.Lemmas.Core EncodingRs.Lemmas.FamLaws EncodingRs.Thm.C02

theorem textOf_append (repl : Bool) (a b : List Ev) : textOf repl (a ++ b) = textOf repl a ++ textOf repl b := by
  induction a with
  | nil => rfl
  | cons e t ih =>
    cases e with
    | cp c => simp [textOf, ih]
    | err s l => simp only [List.cons_append, textOf]; split <;> simp [ih]

theorem textOf_cps (repl : Bool) (l : List Nat) : textOf repl (l.map Ev.cp) = l := by
  induction l with
  | nil => rfl
  | cons c t ih => simp [textOf, ih]

/-- what one raw call contributes to the text under the manual procedure:
its output, plus one U+FFFD if it returned `Malformed` -/
theorem textOf_evs {σ} (r : CallRes σ) (pos : Nat) :
    textOf true (evs r pos) = r.out ++ (match r.res with | .malformed _ _ => [0xFFFD] | _ => []) := by
  unfold evs
  rw [textOf_append, textOf_cps]
  cases r.res <;> simp [resEv, textOf, mkErr]

/-- **The built-in replacement loop writes exactly the replaced text of what it
consumed**: for every stop policy of its inner calls, its output followed by
the replaced reference text of the rest of the stream is the replaced
reference text of the stream; the state it leaves is the state of the last
inner call. -/
theorem replLoop_sound (F : Fam) (k : Sink) (L : Laws F) (last : Bool) :
    ∀ (fuel : Nat) (s : F.σ) (src : List Nat) (budgets : List Budget) (pos : Nat) (rest : List Nat)
      (t : ReplRes F.σ), (last = true → rest = []) →
      replLoop F k last fuel s src budgets = some t →
      t.out ++ textOf true (ref F t.st (src.drop t.read ++ rest) (pos + t.read))
        = textOf true (ref F s (src ++ rest) pos) := by
  intro fuel
  induction fuel with
  | zero => intro s src budgets pos rest t _ h; simp [replLoop] at h
  | succ fuel ih =>
    intro s src budgets pos rest t hl h
    rw [replLoop] at h
    have hs := call_sound F k L last src s (budgets.headD .unlimited) pos rest hl
    generalize hr : call F k s src last (budgets.headD .unlimited) = r at h hs
    unfold replStep at h
    cases hres : r.res with
    | malformed l a =>
      simp only [hres] at h
      cases hrec : replLoop F k last fuel r.st (src.drop r.read) budgets.tail with
      | none => rw [hrec] at h; cases h
      | some t' =>
        rw [hrec] at h
        simp only [Option.some.injEq] at h
        subst h
        have IH := ih _ _ _ (pos + r.read) rest t' hl hrec
        simp only [List.drop_drop, List.append_assoc, List.cons_append] at IH ⊢
        rw [← hs, textOf_append, textOf_evs, hres]
        simp only [List.append_assoc, List.cons_append, List.nil_append]
        rw [← IH]
        have e : pos + (r.read + t'.read) = pos + r.read + t'.read := by omega
        rw [e]
    | inputEmpty =>
      simp only [hres, Option.some.injEq] at h
      subst h
      simp only
      rw [← hs, textOf_append, textOf_evs, hres]
      simp
    | outputFull =>
      simp only [hres, Option.some.injEq] at h
      subst h
      simp only
      rw [← hs, textOf_append, textOf_evs, hres]
      simp

/-- `had_errors` is true precisely when at least one substitution happened in this call -/
theorem hadErrors_iff (F : Fam) (k : Sink) (last : Bool) :
    ∀ (fuel : Nat) (s : F.σ) (src : List Nat) (budgets : List Budget) (t : ReplRes F.σ),
      replLoop F k last fuel s src budgets = some t → (t.hadErrors = true ↔ 0 < t.replaced) := by
  intro fuel
  induction fuel with
  | zero => intro s src budgets t h; simp [replLoop] at h
  | succ fuel ih =>
    intro s src budgets t h
    rw [replLoop] at h
    generalize call F k s src last (budgets.headD .unlimited) = r at h
    unfold replStep at h
    cases hres : r.res with
    | malformed l a =>
      simp only [hres] at h
      cases hrec : replLoop F k last fuel r.st (src.drop r.read) budgets.tail with
      | none => rw [hrec] at h; cases h
      | some t' => rw [hrec] at h; simp only [Option.some.injEq] at h; subst h; simp
    | inputEmpty => simp only [hres, Option.some.injEq] at h; subst h; simp
    | outputFull => simp only [hres, Option.some.injEq] at h; subst h; simp

/-- the with-replacement call never reports `Malformed` -/
theorem replLoop_res (F : Fam) (k : Sink) (last : Bool) :
    ∀ (fuel : Nat) (s : F.σ) (src : List Nat) (budgets : List Budget) (t : ReplRes F.σ),
      replLoop F k last fuel s src budgets = some t → t.res = .inputEmpty ∨ t.res = .outputFull := by
  intro fuel
  induction fuel with
  | zero => intro s src budgets t h; simp [replLoop] at h
  | succ fuel ih =>
    intro s src budgets t h
    rw [replLoop] at h
    generalize call F k s src last (budgets.headD .unlimited) = r at h
    unfold replStep at h
    cases hres : r.res with
    | malformed l a =>
      simp only [hres] at h
      cases hrec : replLoop F k last fuel r.st (src.drop r.read) budgets.tail with
      | none => rw [hrec] at h; cases h
      | some t' =>
        rw [hrec] at h; simp only [Option.some.injEq] at h; subst h; exact ih _ _ _ t' hrec
    | inputEmpty => simp only [hres, Option.some.injEq] at h; subst h; left; rfl
    | outputFull => simp only [hres, Option.some.injEq] at h; subst h; right; rfl

/-- **C09**: the text a caller assembles with the manual procedure over the
without-replacement method (any protocol-following history `e`, one U+FFFD per
`Malformed`: `textOf true e`) and the text the built-in replacement produces in a
single `last` call on the whole stream are the same. -/
theorem builtin_eq_manual (F : Fam) (k : Sink) (L : Laws F) (stream : List Nat) (e : List Ev)
    (hman : Proto F F.init 0 stream e) (fuel : Nat) (budgets : List Budget) (t : ReplRes F.σ)
    (hrun : replLoop F k true fuel F.init stream budgets = some t)
    (hdone : ref F t.st (stream.drop t.read) t.read = []) :
    t.out = textOf true e := by
  have h1 := replLoop_sound F k L true fuel F.init stream budgets 0 [] t (fun _ => rfl) hrun
  rw [history_eq_ref F L _ _ _ _ hman]
  simp only [List.append_nil, Nat.zero_add] at h1
  rw [← h1, hdone]
  simp [textOf]

/-! Non-vacuity: EUC-KR, stream `41 81 FF 42` — built-in replacement in one call. -/
example : (replLoop eucKrFam .utf8 true 5 eucKrFam.init [0x41, 0x81, 0xFF, 0x42] []).map
    (fun t => (t.res, t.read, t.out, t.hadErrors)) = some (.inputEmpty, 4, [0x41, 0xFFFD, 0x42], true) := by
  decide +kernel

end EncodingRs.Thm.C09
