import EncodingRs.Lemmas.EncSide
/-!
# C06, encoder side — conversions stay inside caller buffers and honour the read/written contract

Index arithmetic of the encoder model (`Model/Encoder.lean`): raw calls
`Encoder::encode_from_utf{8,16}_without_replacement` = `ecall`, with-replacement calls
`Encoder::encode_from_utf{8,16}` = `encRepl`.  As on the decoder side (`Thm/C06.lean`), actual memory
safety of `unsafe` code is a runtime fact covered by the guard-band correspondence run only.

Everything is stated for every encoder family / every variant `v` (all 40 encodings), every encoder
state `s`, both source forms (`utf16`), every `last` and every stop policy (`budget`).

A source buffer is *valid* (`SrcOK`): UTF-16 units are 16-bit; UTF-8 input is well-formed (it is a
`&str`).  For UTF-16 the bounds are also proved for arbitrary lists of units.

* `read_le_src`, `read_le_src_utf16`, `inputEmpty_consumed_all`, `inputEmpty_last_eof`,
  `inputEmpty_last_not_pending`;
* `read_boundary`: `read` is the total width of a prefix of the buffer's characters (never inside a
  surrogate pair / UTF-8 sequence), and re-slicing the buffer there yields the remaining characters;
* `written_le_cap`, `step_fits_need`;
* `unmappable_last_item`, `unmappable_reports`, `unmappable_scalar`;
* with replacement: `encRepl_res`, `encRepl_read_boundary`, `encRepl_read_le`,
  `encRepl_inputEmpty_consumed_all`, `encRepl_written_le_cap`, and the `*_all_encodings` forms.
-/
namespace EncodingRs.Thm.C06Enc
open EncodingRs EncodingRs.Model EncodingRs.Lemmas.EncCore EncodingRs.Lemmas.EncPotential
open EncodingRs.Lemmas.EncMaxLenVariant EncodingRs.Lemmas.EncSide

/-! ## raw calls -/

/-- **`read` is a character boundary** (every family, state, source form, stop policy; no validity
assumption): the call consumed a prefix `pre` of the characters of the buffer, `read` is the number of
units they occupy, and the buffer re-sliced at `read` holds exactly the remaining characters -/
theorem read_boundary (E : EFam) (utf16 : Bool) (s : E.σ) (src : List Nat) (last : Bool) (budget : Budget) :
    ∃ pre post, itemsOfSrc utf16 src = pre ++ post
      ∧ (ecall E utf16 s src last budget).read = widthSum pre
      ∧ itemsOfSrc utf16 (src.drop (ecall E utf16 s src last budget).read) = post := by
  obtain ⟨pre, h1, h2⟩ := erunI_split E last (itemsOfSrc utf16 src) s budget
  refine ⟨pre, _, h1, ?_, ecall_rest E utf16 s src last budget⟩
  rw [ecall_eq_erunI, h2]

/-- `read` never exceeds the source length -/
theorem read_le_src (E : EFam) (utf16 : Bool) (s : E.σ) (src : List Nat) (last : Bool) (budget : Budget)
    (hsrc : SrcOK utf16 src) : (ecall E utf16 s src last budget).read ≤ src.length := by
  obtain ⟨pre, post, h1, h2, _⟩ := read_boundary E utf16 s src last budget
  rw [h2]
  exact widthSum_prefix_le utf16 src hsrc pre post h1

/-- from UTF-16: for ANY list of units (unpaired surrogates, even values that are not 16-bit) -/
theorem read_le_src_utf16 (E : EFam) (s : E.σ) (units : List Nat) (last : Bool) (budget : Budget) :
    (ecall E true s units last budget).read ≤ units.length := by
  obtain ⟨pre, post, h1, h2, _⟩ := read_boundary E true s units last budget
  have h3 : widthSum (itemsOfSrc true units) = units.length := items16_widthSum units
  rw [h1, widthSum_append] at h3
  omega

/-- `InputEmpty` is returned only when the whole source was consumed -/
theorem inputEmpty_consumed_all (E : EFam) (utf16 : Bool) (s : E.σ) (src : List Nat) (last : Bool)
    (budget : Budget) (hsrc : SrcOK utf16 src)
    (h : (ecall E utf16 s src last budget).res = .inputEmpty) :
    (ecall E utf16 s src last budget).read = src.length := by
  have := bnd_inputEmpty E utf16 last src s budget 0 (bnd_zero utf16 src) hsrc (by simpa using h)
  simpa using this

theorem inputEmpty_consumed_all_utf16 (E : EFam) (s : E.σ) (units : List Nat) (last : Bool) (budget : Budget)
    (h : (ecall E true s units last budget).res = .inputEmpty) :
    (ecall E true s units last budget).read = units.length := by
  obtain ⟨pre, h1, h2⟩ := erunI_split E last (itemsOfSrc true units) s budget
  rw [ecall_eq_erunI] at h ⊢
  rw [erunI_inputEmpty E last _ s budget h, List.append_nil] at h1
  rw [h2, ← h1]
  exact items16_widthSum units

/-- `InputEmpty` from a `last` call: the end-of-stream block was run — the encoder is in the state
it leaves (`E.eof s').2` and the bytes it writes are the end of the output -/
theorem inputEmpty_last_eof (E : EFam) (utf16 : Bool) (s : E.σ) (src : List Nat) (budget : Budget)
    (h : (ecall E utf16 s src true budget).res = .inputEmpty) :
    ∃ s' o, (ecall E utf16 s src true budget).st = (E.eof s').2
      ∧ (ecall E utf16 s src true budget).out = o ++ (E.eof s').1 :=
  erun_inputEmpty_last_st E _ s budget h

/-- … so `has_pending_state()` is false afterwards (all encodings) -/
theorem inputEmpty_last_not_pending (v : Gen.Variant) (utf16 : Bool) (s : (efamOfVariant v).σ)
    (src : List Nat) (budget : Budget)
    (h : (ecall (efamOfVariant v) utf16 s src true budget).res = .inputEmpty) :
    (efamOfVariant v).hasPending (ecall (efamOfVariant v) utf16 s src true budget).st = false := by
  obtain ⟨s', _, h1, _⟩ := inputEmpty_last_eof (efamOfVariant v) utf16 s src budget h
  rw [h1]
  exact eof_not_pending v s'

/-- an admissible call wrote at most `cap` bytes -/
theorem written_le_cap (E : EFam) (cap : Nat) (r : ECallRes E.σ) (h : EAdmissible E cap r) :
    r.out.length ≤ cap := h.1

/-- the space checks suffice (all encodings): one step never writes more than the `need` that was
checked before it, the end-of-stream block never more than `eofNeed` — so a call that stops
whenever less than that is free (`EAdmissible`'s second condition is the converse) stays inside
`cap` -/
theorem step_fits_need (v : Gen.Variant) (s : (efamOfVariant v).σ) (c : Nat) :
    ((efamOfVariant v).step s c).out.length ≤ (efamOfVariant v).need s c
    ∧ ((efamOfVariant v).eof s).1.length ≤ (efamOfVariant v).eofNeed s :=
  ⟨Lemmas.EncFam.estep_out_le_need v s c, Lemmas.EncFam.eeof_out_le_need v s⟩

/-- **`Unmappable(u)` stems from the last character read**: the characters consumed are
`pre ++ [(c, w)]`, nothing after them was touched (`post` is what the re-sliced buffer yields), and
`u` is what the encoder's step reports for `c` -/
theorem unmappable_last_item (E : EFam) (utf16 : Bool) (s : E.σ) (src : List Nat) (last : Bool)
    (budget : Budget) (u : Nat) (h : (ecall E utf16 s src last budget).res = .unmappable u) :
    ∃ pre c w post s0, itemsOfSrc utf16 src = pre ++ (c, w) :: post
      ∧ (ecall E utf16 s src last budget).read = widthSum pre + w
      ∧ itemsOfSrc utf16 (src.drop (ecall E utf16 s src last budget).read) = post
      ∧ (E.step s0 c).unmappable = some u := by
  have h' := h
  rw [ecall_eq_erunI] at h'
  obtain ⟨pre, c, w, s0, h1, h2, h3, _⟩ := erunI_unmappable E last _ s budget u h'
  refine ⟨pre, c, w, _, s0, h1, ?_, ecall_rest E utf16 s src last budget, h3⟩
  rw [ecall_eq_erunI, h2]

/-- all encodings: the character reported is the character read — except that ISO-2022-JP reports
U+FFFD for U+000E, U+000F and U+001B, as the Encoding Standard prescribes -/
theorem unmappable_reports (v : Gen.Variant) (utf16 : Bool) (s : (efamOfVariant v).σ) (src : List Nat)
    (last : Bool) (budget : Budget) (u : Nat)
    (h : (ecall (efamOfVariant v) utf16 s src last budget).res = .unmappable u) :
    ∃ pre c w post, itemsOfSrc utf16 src = pre ++ (c, w) :: post
      ∧ (ecall (efamOfVariant v) utf16 s src last budget).read = widthSum pre + w
      ∧ (u = c ∨ (v = .iso2022Jp ∧ u = 0xFFFD ∧ (c = 0x0E ∨ c = 0x0F ∨ c = 0x1B))) := by
  obtain ⟨pre, c, w, post, s0, h1, h2, _, h4⟩ := unmappable_last_item _ utf16 s src last budget u h
  refine ⟨pre, c, w, post, h1, h2, ?_⟩
  cases v with
  | iso2022Jp =>
    rcases reports_ok .iso2022Jp s0 c u h4 with h5 | h5
    · exact Or.inl h5
    · exact Or.inr ⟨rfl, h5⟩
  | singleByte t a b l => exact Or.inl (stateless_reports _ s0 c u h4)
  | utf8 => exact Or.inl (stateless_reports _ s0 c u h4)
  | gbk => exact Or.inl (stateless_reports _ s0 c u h4)
  | gb18030 => exact Or.inl (stateless_reports _ s0 c u h4)
  | big5 => exact Or.inl (stateless_reports _ s0 c u h4)
  | eucJp => exact Or.inl (stateless_reports _ s0 c u h4)
  | shiftJis => exact Or.inl (stateless_reports _ s0 c u h4)
  | eucKr => exact Or.inl (stateless_reports _ s0 c u h4)
  | replacement => exact Or.inl (stateless_reports _ s0 c u h4)
  | utf16Be => exact Or.inl (stateless_reports _ s0 c u h4)
  | utf16Le => exact Or.inl (stateless_reports _ s0 c u h4)
  | userDefined => exact Or.inl (stateless_reports _ s0 c u h4)

/-- all encodings, valid source: what is reported is a Unicode scalar value (a Rust `char`) -/
theorem unmappable_scalar (v : Gen.Variant) (utf16 : Bool) (s : (efamOfVariant v).σ) (src : List Nat)
    (last : Bool) (budget : Budget) (hsrc : SrcOK utf16 src) (u : Nat)
    (h : (ecall (efamOfVariant v) utf16 s src last budget).res = .unmappable u) : isScalar u = true :=
  bnd_unmappable_scalar _ (reports_ok v) utf16 last src s budget 0 (bnd_zero utf16 src) hsrc u (by simpa using h)

/-- for each of the 40 encodings -/
theorem read_le_all_encodings (v : Gen.Variant) (utf16 : Bool) (s : (efamOfVariant v).σ) (src : List Nat)
    (last : Bool) (budget : Budget) (hsrc : SrcOK utf16 src) :
    (ecall (efamOfVariant v) utf16 s src last budget).read ≤ src.length :=
  read_le_src _ utf16 s src last budget hsrc

/-! ## with replacement (`Encoder::encode_from_utf8` / `encode_from_utf16`) -/

/-- the with-replacement call never reports `Unmappable` -/
theorem encRepl_res (E : EFam) (canAll : Bool) (ncrExtra : Nat) (utf16 last : Bool) (cap fuel : Nat) (s : E.σ)
    (src : List Nat) (budgets : List Budget) (t : EReplRes E.σ)
    (h : encRepl E canAll ncrExtra utf16 last cap fuel s src budgets = some t) :
    t.res = .inputEmpty ∨ t.res = .outputFull := by
  rcases encRepl_cases E canAll ncrExtra utf16 last cap fuel s src budgets t h with
    ⟨_, ⟨_, _, ht⟩ | ⟨_, ht⟩⟩ | ⟨_, hgo⟩
  · subst ht; exact Or.inl rfl
  · subst ht; exact Or.inr rfl
  · exact go_res E hgo

/-- **the total `read` of a with-replacement call is a character boundary** -/
theorem encRepl_read_boundary (E : EFam) (canAll : Bool) (ncrExtra : Nat) (utf16 last : Bool) (cap fuel : Nat)
    (s : E.σ) (src : List Nat) (budgets : List Budget) (t : EReplRes E.σ)
    (h : encRepl E canAll ncrExtra utf16 last cap fuel s src budgets = some t) :
    ∃ pre, itemsOfSrc utf16 src = pre ++ itemsOfSrc utf16 (src.drop t.read) ∧ t.read = widthSum pre := by
  rcases encRepl_cases E canAll ncrExtra utf16 last cap fuel s src budgets t h with
    ⟨_, ⟨_, _, ht⟩ | ⟨_, ht⟩⟩ | ⟨_, hgo⟩
  · subst ht; exact bnd_zero utf16 src
  · subst ht; exact bnd_zero utf16 src
  · exact (go_bnd E hgo (bnd_zero utf16 src)).1

/-- total `read` ≤ source length -/
theorem encRepl_read_le (E : EFam) (canAll : Bool) (ncrExtra : Nat) (utf16 last : Bool) (cap fuel : Nat)
    (s : E.σ) (src : List Nat) (budgets : List Budget) (t : EReplRes E.σ) (hsrc : SrcOK utf16 src)
    (h : encRepl E canAll ncrExtra utf16 last cap fuel s src budgets = some t) : t.read ≤ src.length :=
  Bnd.le (encRepl_read_boundary E canAll ncrExtra utf16 last cap fuel s src budgets t h) hsrc

/-- `InputEmpty` from the with-replacement call: the whole source was consumed -/
theorem encRepl_inputEmpty_consumed_all (E : EFam) (canAll : Bool) (ncrExtra : Nat) (utf16 last : Bool)
    (cap fuel : Nat) (s : E.σ) (src : List Nat) (budgets : List Budget) (t : EReplRes E.σ)
    (hsrc : SrcOK utf16 src)
    (h : encRepl E canAll ncrExtra utf16 last cap fuel s src budgets = some t)
    (hres : t.res = .inputEmpty) : t.read = src.length := by
  rcases encRepl_cases E canAll ncrExtra utf16 last cap fuel s src budgets t h with
    ⟨_, ⟨hs, _, ht⟩ | ⟨_, ht⟩⟩ | ⟨_, hgo⟩
  · subst ht; subst hs; rfl
  · subst ht; cases hres
  · exact go_inputEmpty E hgo hsrc (bnd_zero utf16 src) hres

/-- **`written ≤ dst.len()` for the with-replacement call**: if every inner raw call was admissible
for the part of the destination it was offered (`InnerAdmissible`, the predicate of
`Lemmas/EncMaxLenVariant.lean` that the correspondence run checks as `innerOk`), the source is valid,
the encoder reports characters or U+FFFD (`ReportsOk`), the reserve is at least `NCR_EXTRA` = 10 and
an encoder with `can_encode_everything()` indeed never reports an unmappable character, then the
total output — inner outputs and numeric character references — fits into the destination -/
theorem encRepl_written_le_cap (E : EFam) (canAll : Bool) (ncrExtra : Nat) (utf16 last : Bool)
    (cap fuel : Nat) (s : E.σ) (src : List Nat) (budgets : List Budget) (t : EReplRes E.σ)
    (hsrc : SrcOK utf16 src) (hrep : ReportsOk E) (hK : Gen.ncrExtra ≤ ncrExtra)
    (hall : canAll = true → ∀ s c, (E.step s c).unmappable = none)
    (h : encRepl E canAll ncrExtra utf16 last cap fuel s src budgets = some t)
    (hadm : InnerAdmissible t.inner) : t.out.length ≤ cap := by
  rcases encRepl_cases E canAll ncrExtra utf16 last cap fuel s src budgets t h with
    ⟨_, ⟨_, _, ht⟩ | ⟨_, ht⟩⟩ | ⟨hroom, hgo⟩
  · subst ht; exact Nat.zero_le _
  · subst ht; exact Nat.zero_le _
  · cases canAll with
    | true =>
      simp only [if_true] at hgo
      exact go_out_le_no_unmappable E hgo (hall rfl) hadm rfl (Nat.zero_le _)
    | false =>
      simp only [Bool.false_eq_true, if_false] at hgo
      have := go_out_le E hgo hsrc hrep hadm (bnd_zero utf16 src) rfl (Nat.zero_le _)
      have hc : ¬ cap < ncrExtra := by
        intro hc; exact hroom ⟨by simp, hc⟩
      omega

/-- all 40 encodings, with `can_encode_everything()` and `NCR_EXTRA` as in lib.rs -/
theorem encRepl_written_le_cap_all_encodings (v : Gen.Variant) (utf16 last : Bool) (cap fuel : Nat)
    (s : (efamOfVariant v).σ) (src : List Nat) (budgets : List Budget) (t : EReplRes (efamOfVariant v).σ)
    (hsrc : SrcOK utf16 src)
    (h : encRepl (efamOfVariant v) (canEncodeEverything v) Gen.ncrExtra utf16 last cap fuel s src budgets = some t)
    (hadm : InnerAdmissible t.inner) : t.out.length ≤ cap :=
  encRepl_written_le_cap _ _ _ utf16 last cap fuel s src budgets t hsrc (reports_ok v) (Nat.le_refl _)
    (fun hc s c => canAll_no_unmappable v hc s c) h hadm

theorem encRepl_read_le_all_encodings (v : Gen.Variant) (utf16 last : Bool) (cap fuel : Nat)
    (s : (efamOfVariant v).σ) (src : List Nat) (budgets : List Budget) (t : EReplRes (efamOfVariant v).σ)
    (hsrc : SrcOK utf16 src)
    (h : encRepl (efamOfVariant v) (canEncodeEverything v) Gen.ncrExtra utf16 last cap fuel s src budgets = some t) :
    t.read ≤ src.length ∧ (t.res = .inputEmpty → t.read = src.length)
      ∧ (t.res = .inputEmpty ∨ t.res = .outputFull) :=
  ⟨encRepl_read_le _ _ _ utf16 last cap fuel s src budgets t hsrc h,
   encRepl_inputEmpty_consumed_all _ _ _ utf16 last cap fuel s src budgets t hsrc h,
   encRepl_res _ _ _ utf16 last cap fuel s src budgets t h⟩

/-! ## Non-vacuity

Shift_JIS from UTF-16, `a` U+00E9 `b` with an 11-byte destination: the inner call stops at U+00E9
(`Unmappable`, two units read), the wrapper writes `&#233;` into the reserve (7 ≥ 11 - 10 bytes are
now used) and returns `OutputFull` with the `b` unread. -/
example :
    let t := encRepl shiftJisEFam false Gen.ncrExtra true true 11 6 () [0x61, 0xE9, 0x62] []
    t.map (·.res) = some .outputFull ∧ t.map (·.read) = some 2
      ∧ t.map (·.out) = some [0x61, 38, 35, 50, 51, 51, 59] ∧ t.map (·.hadUnmappables) = some true
      ∧ t.map (·.inner) = some [(1, 1, .unmappable 0xE9, 0)] := by
  decide +kernel

/-- a surrogate pair is consumed as a whole or not at all: GB18030 (astral characters take four
bytes), `a` U+1F600 with three bytes of room — `read = 1`, not 2 -/
example : (ecall (gbEFam true) true () [0x61, 0xD83D, 0xDE00] true (.full 1)).res = .outputFull
    ∧ (ecall (gbEFam true) true () [0x61, 0xD83D, 0xDE00] true (.full 1)).read = 1
    ∧ EAdmissible (gbEFam true) 4 (ecall (gbEFam true) true () [0x61, 0xD83D, 0xDE00] true (.full 1)) := by
  unfold EAdmissible; decide +kernel

end EncodingRs.Thm.C06Enc
