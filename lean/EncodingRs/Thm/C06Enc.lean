import EncodingRs.Lemmas.EncSide
/-!
# C06, encoder side — conversions stay inside caller buffers and honour the read/written contract

Index arithmetic of the encoder model (`Model/Encoder.lean`): raw calls
`Encoder::encode_from_utf{8,16}_without_replacement` = `ecall`, with-replacement calls
`Encoder::encode_from_utf{8,16}` = `encRepl`.  As on the decoder side (`Thm/C06.lean`), actual memory
safety of `unsafe` code is a runtime fact covered by the guard-band correspondence run only.

Everything is stated for every encoder family / every variant `v` (all 40 encodings), every encoder
state `s`, both source forms (`utf16`), every `last` and every stop policy (`budget`).

A source buffer is *valid* (`SrcOK`): UTF-16 units are 16-bit; UTF-8 input is well-formed (it is a
`&str`).  For UTF-16 the bounds are also proved for arbitrary lists of units.

* `read_le_src`, `read_le_src_utf16`, `inputEmpty_consumed_all`, `inputEmpty_last_eof`,
  `inputEmpty_last_not_pending`;
* `read_boundary`: `read` is the total width of a prefix of the buffer's characters (never inside a
  surrogate pair / UTF-8 sequence), and re-slicing the buffer there yields the remaining characters;
  `rest_valid` / `encRepl_rest_valid`: `&src[read..]` is valid UTF-8 again (the `str` slicing of the
  wrapper and of the caller cannot panic);
* `written_le_cap`, `step_fits_need`, `exists_admissible` (for every capacity there is an admissible
  stop: the scheme "check `need` bytes before each step" never overflows);
* `unmappable_last_item`, `unmappable_reports`, `unmappable_scalar`;
* with replacement: `encRepl_res`, `encRepl_read_boundary`, `encRepl_read_le`,
  `encRepl_inputEmpty_consumed_all`, `encRepl_written_le_cap`, and the `*_all_encodings` forms.
-/
namespace EncodingRs.Thm.C06Enc
open EncodingRs EncodingRs.Model EncodingRs.Lemmas.EncCore EncodingRs.Lemmas.EncPotential
open EncodingRs.Lemmas.EncMaxLenVariant EncodingRs.Lemmas.EncSide

/-! ## raw calls -/

/-- **`read` is a character boundary** (every family, state, source form, stop policy; no validity
assumption): the call consumed a prefix `pre` of the characters of the buffer, `read` is the number of
units they occupy, and the buffer re-sliced at `read` holds exactly the remaining characters -/
theorem read_boundary (E : EFam) (utf16 : Bool) (s : E.σ) (src : List Nat) (last : Bool) (budget : Budget) :
    ∃ pre post, itemsOfSrc utf16 src = pre ++ post
      ∧ (ecall E utf16 s src last budget).read = widthSum pre
      ∧ itemsOfSrc utf16 (src.drop (ecall E utf16 s src last budget).read) = post := by
  obtain ⟨pre, h1, h2⟩ := erunI_split E last (itemsOfSrc utf16 src) s budget
  refine ⟨pre, _, h1, ?_, ecall_rest E utf16 s src last budget⟩
  rw [ecall_eq_erunI, h2]

/-- `read` never exceeds the source length -/
theorem read_le_src (E : EFam) (utf16 : Bool) (s : E.σ) (src : List Nat) (last : Bool) (budget : Budget)
    (hsrc : SrcOK utf16 src) : (ecall E utf16 s src last budget).read ≤ src.length := by
  obtain ⟨pre, post, h1, h2, _⟩ := read_boundary E utf16 s src last budget
  rw [h2]
  exact widthSum_prefix_le utf16 src hsrc pre post h1

/-- from UTF-16: for ANY list of units (unpaired surrogates, even values that are not 16-bit) -/
theorem read_le_src_utf16 (E : EFam) (s : E.σ) (units : List Nat) (last : Bool) (budget : Budget) :
    (ecall E true s units last budget).read ≤ units.length := by
  obtain ⟨pre, post, h1, h2, _⟩ := read_boundary E true s units last budget
  have h3 : widthSum (itemsOfSrc true units) = units.length := items16_widthSum units
  rw [h1, widthSum_append] at h3
  omega

/-- **the unconsumed rest is a valid buffer again**: `&src[read..]` is a `&str` (slicing there does
not panic; re-pushing it is legitimate) resp. a buffer of 16-bit units -/
theorem rest_valid (E : EFam) (utf16 : Bool) (s : E.σ) (src : List Nat) (last : Bool) (budget : Budget)
    (hsrc : SrcOK utf16 src) : SrcOK utf16 (src.drop (ecall E utf16 s src last budget).read) := by
  have := bnd_step E utf16 last src s budget 0 (bnd_zero utf16 src)
  simp only [List.drop_zero, Nat.zero_add] at this
  exact this.srcOK hsrc

/-- `InputEmpty` is returned only when the whole source was consumed -/
theorem inputEmpty_consumed_all (E : EFam) (utf16 : Bool) (s : E.σ) (src : List Nat) (last : Bool)
    (budget : Budget) (hsrc : SrcOK utf16 src)
    (h : (ecall E utf16 s src last budget).res = .inputEmpty) :
    (ecall E utf16 s src last budget).read = src.length := by
  have := bnd_inputEmpty E utf16 last src s budget 0 (bnd_zero utf16 src) hsrc (by simpa using h)
  simpa using this

theorem inputEmpty_consumed_all_utf16 (E : EFam) (s : E.σ) (units : List Nat) (last : Bool) (budget : Budget)
    (h : (ecall E true s units last budget).res = .inputEmpty) :
    (ecall E true s units last budget).read = units.length := by
  obtain ⟨pre, h1, h2⟩ := erunI_split E last (itemsOfSrc true units) s budget
  rw [ecall_eq_erunI] at h ⊢
  rw [erunI_inputEmpty E last _ s budget h, List.append_nil] at h1
  rw [h2, ← h1]
  exact items16_widthSum units

/-- `InputEmpty` from a `last` call: the end-of-stream block was run — the encoder is in the state
it leaves (`E.eof s').2` and the bytes it writes are the end of the output -/
theorem inputEmpty_last_eof (E : EFam) (utf16 : Bool) (s : E.σ) (src : List Nat) (budget : Budget)
    (h : (ecall E utf16 s src true budget).res = .inputEmpty) :
    ∃ s' o, (ecall E utf16 s src true budget).st = (E.eof s').2
      ∧ (ecall E utf16 s src true budget).out = o ++ (E.eof s').1 :=
  erun_inputEmpty_last_st E _ s budget h

/-- … so `has_pending_state()` is false afterwards (all encodings) -/
theorem inputEmpty_last_not_pending (v : Gen.Variant) (utf16 : Bool) (s : (efamOfVariant v).σ)
    (src : List Nat) (budget : Budget)
    (h : (ecall (efamOfVariant v) utf16 s src true budget).res = .inputEmpty) :
    (efamOfVariant v).hasPending (ecall (efamOfVariant v) utf16 s src true budget).st = false := by
  obtain ⟨s', _, h1, _⟩ := inputEmpty_last_eof (efamOfVariant v) utf16 s src budget h
  rw [h1]
  exact eof_not_pending v s'

/-- an admissible call wrote at most `cap` bytes -/
theorem written_le_cap (E : EFam) (cap : Nat) (r : ECallRes E.σ) (h : EAdmissible E cap r) :
    r.out.length ≤ cap := h.1

/-- the space checks suffice (all encodings): one step never writes more than the `need` that was
checked before it, the end-of-stream block never more than `eofNeed` — so a call that stops
whenever less than that is free (`EAdmissible`'s second condition is the converse) stays inside
`cap` -/
theorem step_fits_need (v : Gen.Variant) (s : (efamOfVariant v).σ) (c : Nat) :
    ((efamOfVariant v).step s c).out.length ≤ (efamOfVariant v).need s c
    ∧ ((efamOfVariant v).eof s).1.length ≤ (efamOfVariant v).eofNeed s :=
  ⟨Lemmas.EncFam.estep_out_le_need v s c, Lemmas.EncFam.eeof_out_le_need v s⟩

/-- **`Unmappable(u)` stems from the last character read**: the characters consumed are
`pre ++ [(c, w)]`, nothing after them was touched (`post` is what the re-sliced buffer yields), and
`u` is what the encoder's step reports for `c` -/
theorem unmappable_last_item (E : EFam) (utf16 : Bool) (s : E.σ) (src : List Nat) (last : Bool)
    (budget : Budget) (u : Nat) (h : (ecall E utf16 s src last budget).res = .unmappable u) :
    ∃ pre c w post s0, itemsOfSrc utf16 src = pre ++ (c, w) :: post
      ∧ (ecall E utf16 s src last budget).read = widthSum pre + w
      ∧ itemsOfSrc utf16 (src.drop (ecall E utf16 s src last budget).read) = post
      ∧ (E.step s0 c).unmappable = some u := by
  have h' := h
  rw [ecall_eq_erunI] at h'
  obtain ⟨pre, c, w, s0, h1, h2, h3, _⟩ := erunI_unmappable E last _ s budget u h'
  refine ⟨pre, c, w, _, s0, h1, ?_, ecall_rest E utf16 s src last budget, h3⟩
  rw [ecall_eq_erunI, h2]

/-- all encodings: the character reported is the character read — except that ISO-2022-JP reports
U+FFFD for U+000E, U+000F and U+001B, as the Encoding Standard prescribes -/
theorem unmappable_reports (v : Gen.Variant) (utf16 : Bool) (s : (efamOfVariant v).σ) (src : List Nat)
    (last : Bool) (budget : Budget) (u : Nat)
    (h : (ecall (efamOfVariant v) utf16 s src last budget).res = .unmappable u) :
    ∃ pre c w post, itemsOfSrc utf16 src = pre ++ (c, w) :: post
      ∧ (ecall (efamOfVariant v) utf16 s src last budget).read = widthSum pre + w
      ∧ (u = c ∨ (v = .iso2022Jp ∧ u = 0xFFFD ∧ (c = 0x0E ∨ c = 0x0F ∨ c = 0x1B))) := by
  obtain ⟨pre, c, w, post, s0, h1, h2, _, h4⟩ := unmappable_last_item _ utf16 s src last budget u h
  refine ⟨pre, c, w, post, h1, h2, ?_⟩
  cases v with
  | iso2022Jp =>
    rcases reports_ok .iso2022Jp s0 c u h4 with h5 | h5
    · exact Or.inl h5
    · exact Or.inr ⟨rfl, h5⟩
  | singleByte t a b l => exact Or.inl (stateless_reports _ s0 c u h4)
  | utf8 => exact Or.inl (stateless_reports _ s0 c u h4)
  | gbk => exact Or.inl (stateless_reports _ s0 c u h4)
  | gb18030 => exact Or.inl (stateless_reports _ s0 c u h4)
  | big5 => exact Or.inl (stateless_reports _ s0 c u h4)
  | eucJp => exact Or.inl (stateless_reports _ s0 c u h4)
  | shiftJis => exact Or.inl (stateless_reports _ s0 c u h4)
  | eucKr => exact Or.inl (stateless_reports _ s0 c u h4)
  | replacement => exact Or.inl (stateless_reports _ s0 c u h4)
  | utf16Be => exact Or.inl (stateless_reports _ s0 c u h4)
  | utf16Le => exact Or.inl (stateless_reports _ s0 c u h4)
  | userDefined => exact Or.inl (stateless_reports _ s0 c u h4)

/-- all encodings, valid source: what is reported is a Unicode scalar value (a Rust `char`) -/
theorem unmappable_scalar (v : Gen.Variant) (utf16 : Bool) (s : (efamOfVariant v).σ) (src : List Nat)
    (last : Bool) (budget : Budget) (hsrc : SrcOK utf16 src) (u : Nat)
    (h : (ecall (efamOfVariant v) utf16 s src last budget).res = .unmappable u) : isScalar u = true :=
  bnd_unmappable_scalar _ (reports_ok v) utf16 last src s budget 0 (bnd_zero utf16 src) hsrc u (by simpa using h)

/-- for each of the 40 encodings -/
theorem read_le_all_encodings (v : Gen.Variant) (utf16 : Bool) (s : (efamOfVariant v).σ) (src : List Nat)
    (last : Bool) (budget : Budget) (hsrc : SrcOK utf16 src) :
    (ecall (efamOfVariant v) utf16 s src last budget).read ≤ src.length :=
  read_le_src _ utf16 s src last budget hsrc

/-! ## the space checks suffice: for every capacity an admissible stop exists

`written_le_cap` is a component of `EAdmissible`.  That admissibility is not an empty notion — that
for EVERY capacity (also zero), state and source there is a stop policy whose call is admissible —
is the statement that the implementation's scheme works: *check for `need` free bytes before every
step, stop with `OutputFull` when they are not there*.  It needs exactly `step_fits_need`: a step
never writes more than was checked. -/

/-- `k` more steps of budget -/
def addB : Budget → Nat → Budget
  | .unlimited, _ => .unlimited
  | .full n, k => .full (n + k)
  | .altAny, _ => .altAny

/-- number of steps the re-read loop takes for `c` when nothing stops it -/
def charSteps (E : EFam) : Nat → E.σ → Nat → Nat
  | 0, _, _ => 0
  | fuel + 1, s, c =>
    1 + (match (E.step s c).unmappable with
         | some _ => 0
         | none => if (E.step s c).unread then charSteps E fuel (E.step s c).st c else 0)

def setBudget {σ} (b : Budget) : CharRes σ → CharRes σ
  | .done st out _ => .done st out b
  | r => r

theorem addB_succ_isZero (b : Budget) (k : Nat) : (addB b (1 + k)).isZero = false := by
  cases b with
  | unlimited => rfl
  | altAny => rfl
  | full n => simp [addB, Budget.isZero]

theorem addB_succ_dec (b : Budget) (k : Nat) : (addB b (1 + k)).dec = addB b k := by
  cases b with
  | unlimited => rfl
  | altAny => rfl
  | full n => simp only [addB, Budget.dec]; congr 1; omega

theorem addB_zero (b : Budget) : addB b 0 = b := by cases b <;> rfl

/-- with exactly as many extra steps of budget as the character takes, the character is processed as
if nothing could stop it, and the original budget is what is left -/
theorem processChar_shift (E : EFam) : ∀ (fuel : Nat) (s : E.σ) (c : Nat) (b : Budget) (acc : List Nat),
    processChar E fuel s c (addB b (charSteps E fuel s c)) acc
      = setBudget b (processChar E fuel s c .unlimited acc) := by
  intro fuel
  induction fuel with
  | zero => intro s c b acc; simp [processChar, charSteps, setBudget, addB_zero]
  | succ fuel ih =>
    intro s c b acc
    rw [charSteps]
    generalize hk : (match (E.step s c).unmappable with
      | some _ => 0
      | none => if (E.step s c).unread then charSteps E fuel (E.step s c).st c else 0) = k
    rw [processChar, processChar, addB_succ_isZero, addB_succ_dec]
    simp only [Budget.isZero, Bool.false_eq_true, if_false, Budget.dec]
    cases hu : (E.step s c).unmappable with
    | some u => simp [setBudget]
    | none =>
      rw [hu] at hk
      simp only at hk ⊢
      cases hr : (E.step s c).unread with
      | true =>
        rw [hr] at hk
        simp only [if_true] at hk ⊢
        rw [← hk]
        exact ih _ c b _
      | false =>
        rw [hr] at hk
        simp only [Bool.false_eq_true, if_false] at hk ⊢
        rw [← hk, addB_zero]
        rfl

/-- the unstopped result fits behind `used` bytes -/
def FitsRes {σ} (cap used : Nat) : CharRes σ → Prop
  | .done _ out _ => used + out.length ≤ cap
  | .unmappable _ out _ => used + out.length ≤ cap
  | .full _ _ _ => False

/-- one character under the scheme "stop iff fewer than `need` bytes are free": either it stops
somewhere in the re-read loop, justified and inside the capacity, or the whole character fits -/
theorem processChar_exists (E : EFam) (hfit : ∀ s c, (E.step s c).out.length ≤ E.need s c) (cap used : Nat) :
    ∀ (fuel : Nat) (s : E.σ) (c : Nat) (acc : List Nat), used + acc.length ≤ cap →
      (∃ n st out need, processChar E fuel s c (.full n) acc = .full st out need
          ∧ used + out.length ≤ cap ∧ cap < used + out.length + need)
      ∨ FitsRes cap used (processChar E fuel s c .unlimited acc) := by
  intro fuel
  induction fuel with
  | zero => intro s c acc h; right; simpa [processChar, FitsRes] using h
  | succ fuel ih =>
    intro s c acc h
    by_cases hroom : used + acc.length + E.need s c ≤ cap
    · have hs := hfit s c
      cases hu : (E.step s c).unmappable with
      | some u =>
        right
        rw [processChar]
        simp only [Budget.isZero, Bool.false_eq_true, if_false, hu, FitsRes, List.length_append]
        omega
      | none =>
        cases hr : (E.step s c).unread with
        | true =>
          rcases ih (E.step s c).st c (acc ++ (E.step s c).out) (by simp only [List.length_append]; omega) with
            ⟨n, st, out, need, h1, h2, h3⟩ | h1
          · left
            refine ⟨n + 1, st, out, need, ?_, h2, h3⟩
            rw [processChar]
            simp only [Budget.isZero, Nat.add_one_ne_zero, beq_iff_eq, if_false, hu, hr, if_true, Budget.dec,
              Nat.add_sub_cancel]
            exact h1
          · right
            rw [processChar]
            simp only [Budget.isZero, Bool.false_eq_true, if_false, hu, hr, if_true, Budget.dec]
            exact h1
        | false =>
          right
          rw [processChar]
          simp only [Budget.isZero, Bool.false_eq_true, if_false, hu, hr, FitsRes, List.length_append]
          omega
    · left
      refine ⟨0, s, acc, E.need s c, ?_, h, by omega⟩
      rw [processChar]
      simp [Budget.isZero]

theorem erun_exists (E : EFam) (hfit : ∀ s c, (E.step s c).out.length ≤ E.need s c)
    (hfitE : ∀ s, (E.eof s).1.length ≤ E.eofNeed s) (cap : Nat) (last : Bool) :
    ∀ (items : List (Nat × Nat)) (s : E.σ) (used : Nat), used ≤ cap →
      ∃ b, used + (erun E last s items b).out.length ≤ cap
        ∧ ((erun E last s items b).res = .outputFull →
            cap < used + (erun E last s items b).out.length + (erun E last s items b).stopNeed) := by
  intro items
  induction items with
  | nil =>
    intro s used h
    cases last with
    | false => exact ⟨.unlimited, by simpa [erun] using h, by simp [erun]⟩
    | true =>
      by_cases he : (E.eof s).1.isEmpty = true
      · exact ⟨.unlimited, by simpa [erun, he] using h, by simp [erun, he]⟩
      · by_cases hroom : used + E.eofNeed s ≤ cap
        · refine ⟨.unlimited, ?_, ?_⟩
          · have := hfitE s
            simp only [erun, if_true, he, Budget.isZero, Bool.false_eq_true, if_false]
            omega
          · simp [erun, he, Budget.isZero]
        · refine ⟨.full 0, ?_, ?_⟩
          · simpa [erun, he, Budget.isZero] using h
          · intro _
            simp only [erun, if_true, he, Budget.isZero, beq_self_eq_true, Bool.false_eq_true, if_false,
              List.length_nil]
            omega
  | cons it tl ih =>
    intro s used h
    obtain ⟨c, w⟩ := it
    rcases processChar_exists E hfit cap used (E.rank s c + 1) s c [] (by simpa using h) with
      ⟨n, st, out, need, h1, h2, h3⟩ | h1
    · refine ⟨.full n, ?_, ?_⟩
      · simp only [erun, h1]; exact h2
      · intro _; simp only [erun, h1]; exact h3
    · cases hpc : processChar E (E.rank s c + 1) s c .unlimited [] with
      | full st out need => rw [hpc] at h1; exact h1.elim
      | unmappable st out u =>
        rw [hpc] at h1
        refine ⟨.unlimited, ?_, ?_⟩
        · simp only [erun, hpc]; exact h1
        · simp [erun, hpc]
      | done st out b' =>
        rw [hpc] at h1
        obtain ⟨b, hb1, hb2⟩ := ih st (used + out.length) h1
        have hsh := processChar_shift E (E.rank s c + 1) s c b []
        rw [hpc] at hsh
        simp only [setBudget] at hsh
        refine ⟨addB b (charSteps E (E.rank s c + 1) s c), ?_, ?_⟩
        · simp only [erun, hsh, List.length_append]; omega
        · intro hres
          simp only [erun, hsh, List.length_append] at hres ⊢
          have := hb2 hres
          omega

/-- **for every capacity an admissible raw call exists** (every family whose steps stay within the
space they check — all variants: `exists_admissible_all_encodings`) -/
theorem exists_admissible (E : EFam) (hfit : ∀ s c, (E.step s c).out.length ≤ E.need s c)
    (hfitE : ∀ s, (E.eof s).1.length ≤ E.eofNeed s) (cap : Nat) (utf16 : Bool) (s : E.σ) (src : List Nat)
    (last : Bool) : ∃ budget, EAdmissible E cap (ecall E utf16 s src last budget) := by
  obtain ⟨b, h1, h2⟩ := erun_exists E hfit hfitE cap last (itemsOfSrc utf16 src) s 0 (Nat.zero_le _)
  refine ⟨b, ?_, ?_⟩
  · rw [ecall_eq]; omega
  · intro hres; rw [ecall_eq] at hres ⊢; have := h2 hres; omega

theorem exists_admissible_all_encodings (v : Gen.Variant) (cap : Nat) (utf16 : Bool) (s : (efamOfVariant v).σ)
    (src : List Nat) (last : Bool) :
    ∃ budget, EAdmissible (efamOfVariant v) cap (ecall (efamOfVariant v) utf16 s src last budget) :=
  exists_admissible _ (Lemmas.EncFam.estep_out_le_need v) (Lemmas.EncFam.eeof_out_le_need v) cap utf16 s src last

/-! ## with replacement (`Encoder::encode_from_utf8` / `encode_from_utf16`) -/

/-- the with-replacement call never reports `Unmappable` -/
theorem encRepl_res (E : EFam) (canAll : Bool) (ncrExtra : Nat) (utf16 last : Bool) (cap fuel : Nat) (s : E.σ)
    (src : List Nat) (budgets : List Budget) (t : EReplRes E.σ)
    (h : encRepl E canAll ncrExtra utf16 last cap fuel s src budgets = some t) :
    t.res = .inputEmpty ∨ t.res = .outputFull := by
  rcases encRepl_cases E canAll ncrExtra utf16 last cap fuel s src budgets t h with
    ⟨_, ⟨_, _, ht⟩ | ⟨_, ht⟩⟩ | ⟨_, hgo⟩
  · subst ht; exact Or.inl rfl
  · subst ht; exact Or.inr rfl
  · exact go_res E hgo

/-- **the total `read` of a with-replacement call is a character boundary** -/
theorem encRepl_read_boundary (E : EFam) (canAll : Bool) (ncrExtra : Nat) (utf16 last : Bool) (cap fuel : Nat)
    (s : E.σ) (src : List Nat) (budgets : List Budget) (t : EReplRes E.σ)
    (h : encRepl E canAll ncrExtra utf16 last cap fuel s src budgets = some t) :
    ∃ pre, itemsOfSrc utf16 src = pre ++ itemsOfSrc utf16 (src.drop t.read) ∧ t.read = widthSum pre := by
  rcases encRepl_cases E canAll ncrExtra utf16 last cap fuel s src budgets t h with
    ⟨_, ⟨_, _, ht⟩ | ⟨_, ht⟩⟩ | ⟨_, hgo⟩
  · subst ht; exact bnd_zero utf16 src
  · subst ht; exact bnd_zero utf16 src
  · exact (go_bnd E hgo (bnd_zero utf16 src)).1

/-- the rest a with-replacement call leaves to the caller is a valid buffer (the intermediate values
of `total_read`, at which the wrapper slices `&src[total_read..]`, are character boundaries as well:
`Lemmas.EncSide.go_bnd` carries `Bnd` through every round) -/
theorem encRepl_rest_valid (E : EFam) (canAll : Bool) (ncrExtra : Nat) (utf16 last : Bool) (cap fuel : Nat)
    (s : E.σ) (src : List Nat) (budgets : List Budget) (t : EReplRes E.σ) (hsrc : SrcOK utf16 src)
    (h : encRepl E canAll ncrExtra utf16 last cap fuel s src budgets = some t) :
    SrcOK utf16 (src.drop t.read) :=
  Bnd.srcOK (encRepl_read_boundary E canAll ncrExtra utf16 last cap fuel s src budgets t h) hsrc

/-- total `read` ≤ source length -/
theorem encRepl_read_le (E : EFam) (canAll : Bool) (ncrExtra : Nat) (utf16 last : Bool) (cap fuel : Nat)
    (s : E.σ) (src : List Nat) (budgets : List Budget) (t : EReplRes E.σ) (hsrc : SrcOK utf16 src)
    (h : encRepl E canAll ncrExtra utf16 last cap fuel s src budgets = some t) : t.read ≤ src.length :=
  Bnd.le (encRepl_read_boundary E canAll ncrExtra utf16 last cap fuel s src budgets t h) hsrc

/-- `InputEmpty` from the with-replacement call: the whole source was consumed -/
theorem encRepl_inputEmpty_consumed_all (E : EFam) (canAll : Bool) (ncrExtra : Nat) (utf16 last : Bool)
    (cap fuel : Nat) (s : E.σ) (src : List Nat) (budgets : List Budget) (t : EReplRes E.σ)
    (hsrc : SrcOK utf16 src)
    (h : encRepl E canAll ncrExtra utf16 last cap fuel s src budgets = some t)
    (hres : t.res = .inputEmpty) : t.read = src.length := by
  rcases encRepl_cases E canAll ncrExtra utf16 last cap fuel s src budgets t h with
    ⟨_, ⟨hs, _, ht⟩ | ⟨_, ht⟩⟩ | ⟨_, hgo⟩
  · subst ht; subst hs; rfl
  · subst ht; cases hres
  · exact go_inputEmpty E hgo hsrc (bnd_zero utf16 src) hres

/-- **`written ≤ dst.len()` for the with-replacement call**: if every inner raw call was admissible
for the part of the destination it was offered (`InnerAdmissible`, the predicate of
`Lemmas/EncMaxLenVariant.lean` that the correspondence run checks as `innerOk`), the source is valid,
the encoder reports characters or U+FFFD (`ReportsOk`), the reserve is at least `NCR_EXTRA` = 10 and
an encoder with `can_encode_everything()` indeed never reports an unmappable character, then the
total output — inner outputs and numeric character references — fits into the destination -/
theorem encRepl_written_le_cap (E : EFam) (canAll : Bool) (ncrExtra : Nat) (utf16 last : Bool)
    (cap fuel : Nat) (s : E.σ) (src : List Nat) (budgets : List Budget) (t : EReplRes E.σ)
    (hsrc : SrcOK utf16 src) (hrep : ReportsOk E) (hK : Gen.ncrExtra ≤ ncrExtra)
    (hall : canAll = true → ∀ s c, (E.step s c).unmappable = none)
    (h : encRepl E canAll ncrExtra utf16 last cap fuel s src budgets = some t)
    (hadm : InnerAdmissible t.inner) : t.out.length ≤ cap := by
  rcases encRepl_cases E canAll ncrExtra utf16 last cap fuel s src budgets t h with
    ⟨_, ⟨_, _, ht⟩ | ⟨_, ht⟩⟩ | ⟨hroom, hgo⟩
  · subst ht; exact Nat.zero_le _
  · subst ht; exact Nat.zero_le _
  · cases canAll with
    | true =>
      simp only [if_true] at hgo
      exact go_out_le_no_unmappable E hgo (hall rfl) hadm rfl (Nat.zero_le _)
    | false =>
      simp only [Bool.false_eq_true, if_false] at hgo
      have := go_out_le E hgo hsrc hrep hadm (bnd_zero utf16 src) rfl (Nat.zero_le _)
      have hc : ¬ cap < ncrExtra := by
        intro hc; exact hroom ⟨by simp, hc⟩
      omega

/-- all 40 encodings, with `can_encode_everything()` and `NCR_EXTRA` as in lib.rs -/
theorem encRepl_written_le_cap_all_encodings (v : Gen.Variant) (utf16 last : Bool) (cap fuel : Nat)
    (s : (efamOfVariant v).σ) (src : List Nat) (budgets : List Budget) (t : EReplRes (efamOfVariant v).σ)
    (hsrc : SrcOK utf16 src)
    (h : encRepl (efamOfVariant v) (canEncodeEverything v) Gen.ncrExtra utf16 last cap fuel s src budgets = some t)
    (hadm : InnerAdmissible t.inner) : t.out.length ≤ cap :=
  encRepl_written_le_cap _ _ _ utf16 last cap fuel s src budgets t hsrc (reports_ok v) (Nat.le_refl _)
    (fun hc s c => canAll_no_unmappable v hc s c) h hadm

theorem encRepl_read_le_all_encodings (v : Gen.Variant) (utf16 last : Bool) (cap fuel : Nat)
    (s : (efamOfVariant v).σ) (src : List Nat) (budgets : List Budget) (t : EReplRes (efamOfVariant v).σ)
    (hsrc : SrcOK utf16 src)
    (h : encRepl (efamOfVariant v) (canEncodeEverything v) Gen.ncrExtra utf16 last cap fuel s src budgets = some t) :
    t.read ≤ src.length ∧ (t.res = .inputEmpty → t.read = src.length)
      ∧ (t.res = .inputEmpty ∨ t.res = .outputFull) :=
  ⟨encRepl_read_le _ _ _ utf16 last cap fuel s src budgets t hsrc h,
   encRepl_inputEmpty_consumed_all _ _ _ utf16 last cap fuel s src budgets t hsrc h,
   encRepl_res _ _ _ utf16 last cap fuel s src budgets t h⟩

/-! ## Non-vacuity

Shift_JIS from UTF-16, `a` U+00E9 `b` with an 11-byte destination: the inner call stops at U+00E9
(`Unmappable`, two units read), the wrapper writes `&#233;` into the reserve (7 ≥ 11 - 10 bytes are
now used) and returns `OutputFull` with the `b` unread. -/
example :
    let t := encRepl shiftJisEFam false Gen.ncrExtra true true 11 6 () [0x61, 0xE9, 0x62] []
    t.map (·.res) = some .outputFull ∧ t.map (·.read) = some 2
      ∧ t.map (·.out) = some [0x61, 38, 35, 50, 51, 51, 59] ∧ t.map (·.hadUnmappables) = some true
      ∧ t.map (·.inner) = some [(1, 1, .unmappable 0xE9, 0)] := by
  decide +kernel

/-- a surrogate pair is consumed as a whole or not at all: GB18030 (astral characters take four
bytes), `a` U+1F600 with three bytes of room — `read = 1`, not 2 -/
example : (ecall (gbEFam true) true () [0x61, 0xD83D, 0xDE00] true (.full 1)).res = .outputFull
    ∧ (ecall (gbEFam true) true () [0x61, 0xD83D, 0xDE00] true (.full 1)).read = 1
    ∧ EAdmissible (gbEFam true) 4 (ecall (gbEFam true) true () [0x61, 0xD83D, 0xDE00] true (.full 1)) := by
  unfold EAdmissible; decide +kernel

end EncodingRs.Thm.C06Enc
