import EncodingRs.Lemmas.ConformSimple
import EncodingRs.Lemmas.ConformFin
import EncodingRs.Lemmas.ConformUtf16
import EncodingRs.Lemmas.ConformGb
import EncodingRs.Lemmas.ConformIso
import EncodingRs.Lemmas.ScalarFam3
import EncodingRs.Thm.C02
/-!
# C01 — decoding conforms to the Encoding Standard for every byte sequence

`Conforms F D`: for every byte sequence presented as a complete stream, the reference
semantics of the decoder family `F` (the model of the Rust decoder; by C02
`history_eq_ref` this is what EVERY protocol-following history of calls reports: the
scalar values and the absolute spans of the malformed sequences) is exactly the output
of the Standard's decoder `D` (`Spec/Decode.lean`: literal transcription of the handler,
run by the Standard's loop; an error is recorded with the span of DESIGN.md Appendix A
where the Standard's "replacement" mode would push U+FFFD) — both as the relation
`Runs` and as the executable `Spec.Decode.run` that the driver compares with the real
decoder (`specdec` operation).

Per-family theorems are assembled from the generic simulation lemma
(`Lemmas/Conform.lean`: `sim_conforms`) and the step checks: symbolic for UTF-8, UTF-16,
replacement, x-user-defined, single-byte (arbitrary index), the gb18030 and ISO-2022-JP
control structure; complete finite evaluation (`native_decide`, listed in the evidence)
for the table-driven parts with the REGENERATED implementation tables on the model side
and the VENDORED indexes on the Standard's side.
-/
set_option linter.unusedSimpArgs false
namespace EncodingRs.Thm.C01
open EncodingRs EncodingRs.Model EncodingRs.Spec.Decode EncodingRs.Lemmas.Core EncodingRs.Lemmas.Conform

def Conforms (F : Fam) (D : Decoder) : Prop :=
  ∀ bytes : List Nat, (∀ b ∈ bytes, b < 256) →
    Runs D bytes (ref F F.init bytes 0) ∧ ref F F.init bytes 0 = Spec.Decode.run D bytes

/-! ## per family -/

theorem decode_conforms_utf8 : Conforms utf8Fam utf8 := Lemmas.Conform.decode_conforms_utf8
theorem decode_conforms_utf16 (be : Bool) : Conforms (utf16Fam be) (utf16 be) := Lemmas.Conform.decode_conforms_utf16 be
theorem decode_conforms_singleByte (index : Array Nat) : Conforms (singleByteFam index) (singleByte index) :=
  Lemmas.Conform.decode_conforms_singleByte index
theorem decode_conforms_userDefined : Conforms userDefinedFam userDefined := Lemmas.Conform.decode_conforms_userDefined
theorem decode_conforms_replacement : Conforms replacementFam replacement :=
  fun bytes _ => Lemmas.Conform.decode_conforms_replacement bytes
theorem decode_conforms_big5 : Conforms big5Fam big5 := Lemmas.Conform.decode_conforms_big5
theorem decode_conforms_eucKr : Conforms eucKrFam eucKr := Lemmas.Conform.decode_conforms_eucKr
theorem decode_conforms_shiftJis : Conforms shiftJisFam shiftJis := Lemmas.Conform.decode_conforms_shiftJis
theorem decode_conforms_eucJp : Conforms eucJpFam eucJp := Lemmas.Conform.decode_conforms_eucJp
theorem decode_conforms_gb18030 : Conforms gbFam gb18030 := Lemmas.Conform.decode_conforms_gb
theorem decode_conforms_iso2022Jp : Conforms iso2022JpFam iso2022Jp := Lemmas.Conform.decode_conforms_iso

/-! ## the 40 encodings -/

/-- the name of the `t`-th single-byte index of the vendored snapshot (same order as `SINGLE_BYTE_DATA`) -/
def indexNameOfTable (t : Nat) : String := (Spec.singleByteIndexes.map (·.1)).getD t ""

/-- which decoder of the Standard a `VariantDecoder` of the crate has to implement -/
def kindOfVariant : Gen.Variant → Kind
  | .singleByte t _ _ _ => .singleByte (indexNameOfTable t)
  | .utf8 => .utf8
  | .gbk => .gb18030
  | .gb18030 => .gb18030
  | .big5 => .big5
  | .eucJp => .eucJp
  | .iso2022Jp => .iso2022Jp
  | .shiftJis => .shiftJis
  | .eucKr => .eucKr
  | .replacement => .replacement
  | .utf16Be => .utf16 true
  | .utf16Le => .utf16 false
  | .userDefined => .userDefined

/-- the 27 REGENERATED single-byte tables are the 27 vendored single-byte indexes (128 entries each) -/
theorem single_byte_tables_eq_snapshot :
    (List.range 28).all (fun t =>
      decide ((Gen.singleByteTables.getD t #[]).toList = (singleByteIndex (indexNameOfTable t)).toList)) = true := by
  decide +kernel

theorem single_byte_table_eq (t : Nat) : Gen.singleByteTables.getD t #[] = singleByteIndex (indexNameOfTable t) := by
  by_cases h : t < 28
  · have := all_range' single_byte_tables_eq_snapshot t h
    simp only [decide_eq_true_eq] at this
    exact Array.toList_inj.mp this
  · have hs : Gen.singleByteTables.size = 27 := by decide
    have h1 : Gen.singleByteTables.getD t #[] = #[] := by
      simp [Array.getD, hs]; omega
    have hl : (Spec.singleByteIndexes.map (·.1)).length = 27 := by decide
    have h2 : indexNameOfTable t = "" := by
      unfold indexNameOfTable
      rw [List.getD_eq_getElem?_getD, List.getElem?_eq_none (by omega)]
      rfl
    rw [h1, h2]
    decide +kernel

/-- every initialiser of the regenerated `Gen.encodings` (the 40 `Encoding` statics of lib.rs) names an
encoding whose decoder in the Standard is the one its variant is compared with below: a wrong
name ↦ variant or variant ↦ table association in lib.rs breaks this -/
theorem encodings_kinds :
    Gen.encodings.all (fun e => decide (kindOfName e.name = some (kindOfVariant e.variant))) = true := by
  decide +kernel

theorem encodings_count : Gen.encodings.length = 40 := by decide

/-- **C01** for every variant decoder -/
theorem decode_conforms (v : Gen.Variant) : Conforms (famOfVariant v) (decoderOfKind (kindOfVariant v)) := by
  cases v with
  | singleByte t a b c =>
    show Conforms (singleByteFam (Gen.singleByteTables.getD t #[])) (singleByte (singleByteIndex (indexNameOfTable t)))
    rw [single_byte_table_eq]
    exact decode_conforms_singleByte _
  | utf8 => exact decode_conforms_utf8
  | gbk => exact decode_conforms_gb18030
  | gb18030 => exact decode_conforms_gb18030
  | big5 => exact decode_conforms_big5
  | eucJp => exact decode_conforms_eucJp
  | iso2022Jp => exact decode_conforms_iso2022Jp
  | shiftJis => exact decode_conforms_shiftJis
  | eucKr => exact decode_conforms_eucKr
  | replacement => exact decode_conforms_replacement
  | utf16Be => exact decode_conforms_utf16 true
  | utf16Le => exact decode_conforms_utf16 false
  | userDefined => exact decode_conforms_userDefined

/-- **C01** for each of the 40 encodings, by the encoding's NAME: the decoder the Standard
prescribes for that name outputs, for every byte sequence, exactly the events of the crate's
variant decoder for that encoding -/
theorem decode_conforms_encodings (e : Gen.EncodingInit) (he : e ∈ Gen.encodings) :
    ∃ D, decoderOfName e.name = some D ∧ Conforms (famOfVariant e.variant) D := by
  have h := encodings_kinds
  rw [List.all_eq_true] at h
  have hk := h e he
  simp only [decide_eq_true_eq] at hk
  refine ⟨decoderOfKind (kindOfVariant e.variant), ?_, decode_conforms e.variant⟩
  unfold decoderOfName
  rw [hk]
  rfl

/-- with replacement on: the text (one U+FFFD per error) is the Standard's output in its
error mode "replacement" -/
theorem decodeRepl_conforms (v : Gen.Variant) (bytes : List Nat) (hb : ∀ b ∈ bytes, b < 256) :
    Thm.C02.textOf true (ref (famOfVariant v) (famOfVariant v).init bytes 0)
      = Thm.C02.textOf true (Spec.Decode.run (decoderOfKind (kindOfVariant v)) bytes) := by
  rw [← (decode_conforms v bytes hb).2]

/-- … and whether there were errors -/
theorem hadErrors_conforms (v : Gen.Variant) (bytes : List Nat) (hb : ∀ b ∈ bytes, b < 256) :
    Thm.C02.hadErrors (ref (famOfVariant v) (famOfVariant v).init bytes 0)
      = Thm.C02.hadErrors (Spec.Decode.run (decoderOfKind (kindOfVariant v)) bytes) := by
  rw [← (decode_conforms v bytes hb).2]

/-- the Standard's output is unique (`Runs` is deterministic), so `decode_conforms` pins the events down -/
theorem decode_unique (v : Gen.Variant) (bytes : List Nat) (hb : ∀ b ∈ bytes, b < 256) (evs : List Ev)
    (h : Runs (decoderOfKind (kindOfVariant v)) bytes evs) :
    evs = ref (famOfVariant v) (famOfVariant v).init bytes 0 :=
  Runs_det _ bytes _ _ h (decode_conforms v bytes hb).1

/-! ## `Malformed(len, after)`: the documented numeric ranges -/

def ErrOk (e : Nat × Nat) : Prop := 1 ≤ e.1 ∧ e.1 ≤ 4 ∧ e.2 ≤ 3 ∧ e.1 + e.2 ≤ 6

def EOk {σ : Type} (r : FeedRes σ) : Prop := ∀ e, r.err = some e → ErrOk e

theorem eok_ok {σ} (st : σ) (out : List Nat) : EOk (FeedRes.ok st out) := by
  intro e h; simp [FeedRes.ok] at h
theorem eok_bad {σ} (st : σ) (l a : Nat) (u : Bool) (h : ErrOk (l, a)) : EOk (FeedRes.bad st l a u) := by
  intro e he; simp only [FeedRes.bad, Option.some.injEq] at he; rw [← he]; exact h

/-- walk a feed function down to its `.ok` / `.bad` leaves; constant error numbers are checked by `decide` -/
macro "eok_tac" : tactic =>
  `(tactic| repeat' (first
    | with_reducible apply eok_ok
    | (with_reducible apply eok_bad; (unfold ErrOk; decide))
    | split
    | simp only []))

theorem singleByte_eok (t : Array Nat) (s : Unit) (b : Nat) : EOk (singleByteFeed t s b) := by
  unfold singleByteFeed; eok_tac
theorem userDefined_eok (s : Unit) (b : Nat) : EOk (userDefinedFeed s b) := by
  unfold userDefinedFeed; eok_tac
theorem replacement_eok (s : Bool) (b : Nat) : EOk (replacementFeed s b) := by
  unfold replacementFeed; eok_tac
theorem twoByte_eok (lf : Nat → LeadRes) (tf : Nat → Nat → TrailRes) (s : Option Nat) (b : Nat) :
    EOk (twoByteFeed lf tf s b) := by
  unfold twoByteFeed; eok_tac
theorem eucJp_eok (s : EucJpSt) (b : Nat) : EOk (eucJpFeed s b) := by
  cases s <;> (unfold eucJpFeed; simp only; eok_tac)
theorem gb_eok (s : GbSt) (b : Nat) : EOk (gbFeed s b) := by
  obtain ⟨p, pa⟩ := s
  cases p <;> (unfold gbFeed; simp only; eok_tac)
theorem iso_eok (s : Iso2022JpSt) (b : Nat) : EOk (isoFeed s b) := by
  obtain ⟨ds, os, l, f, p⟩ := s
  cases ds <;> (unfold isoFeed; simp only; eok_tac)
theorem utf16_eok (be : Bool) (s : Utf16St) (b : Nat) : EOk (utf16Feed be s b) := by
  unfold utf16Feed; eok_tac

/-- UTF-8 reports `bytes seen + 1`: needs the state invariant (`seen ≤ 2`) -/
theorem utf8_eok (s : Utf8St) (b : Nat) (hi : Lemmas.Scalar.utf8Inv s) : EOk (utf8Feed s b) := by
  have hseen : s.seen ≤ 2 := by
    unfold Lemmas.Scalar.utf8Inv at hi
    rcases hi with h | h | h | h | h | h | h <;> omega
  unfold utf8Feed
  repeat' (first
    | with_reducible apply eok_ok
    | (with_reducible apply eok_bad; (unfold ErrOk; simp only; omega))
    | split
    | simp only [])

theorem errOk_of (l : Nat) (h1 : 1 ≤ l) (h2 : l ≤ 4) : ErrOk (l, 0) :=
  ⟨h1, h2, Nat.zero_le _, by show l + 0 ≤ 6; omega⟩

theorem utf8_eof_ok (s : Utf8St) (hi : Lemmas.Scalar.utf8Inv s) (e : Nat × Nat) (s' : Utf8St)
    (h : utf8Fam.eof s = some (e, s')) : ErrOk e := by
  have hseen : s.seen ≤ 2 := by
    unfold Lemmas.Scalar.utf8Inv at hi
    rcases hi with h | h | h | h | h | h | h <;> omega
  have he : utf8Fam.eof s = if s.needed ≠ 0 then some ((s.seen + 1, 0), utf8Init) else none := rfl
  rw [he] at h
  split at h
  · cases h; exact errOk_of _ (by omega) (by omega)
  · cases h

theorem gb_eof_ok (s : GbSt) (e : Nat × Nat) (s' : GbSt) (h : gbFam.eof s = some (e, s')) : ErrOk e := by
  have he : gbFam.eof s = if s.pending = .none then none
      else some ((gbCount s.pending, 0), (⟨.none, s.pendingAscii⟩ : GbSt)) := rfl
  rw [he] at h
  by_cases hp : s.pending = .none
  · rw [if_pos hp] at h; cases h
  · rw [if_neg hp] at h
    cases h
    refine errOk_of _ ?_ ?_ <;> (cases hq : s.pending <;> simp_all [gbCount])

theorem eucJp_eof_ok (s : EucJpSt) (e : Nat × Nat) (s' : EucJpSt) (h : eucJpFam.eof s = some (e, s')) : ErrOk e := by
  have he : eucJpFam.eof s = if s = .none then none else some ((eucJpCount s, 0), EucJpSt.none) := rfl
  rw [he] at h
  by_cases hp : s = .none
  · rw [if_pos hp] at h; cases h
  · rw [if_neg hp] at h
    cases h
    refine errOk_of _ ?_ ?_ <;> (cases s <;> simp_all [eucJpCount])

theorem twoByte_eof_ok (lf : Nat → LeadRes) (tf : Nat → Nat → TrailRes) (a : Bool) (s : Option Nat)
    (e : Nat × Nat) (s' : Option Nat) (h : (twoByteFam lf tf a).eof s = some (e, s')) : ErrOk e := by
  cases s with
  | none => cases h
  | some l => cases h; exact errOk_of 1 (by omega) (by omega)

theorem iso_eof_ok (s : Iso2022JpSt) (e : Nat × Nat) (s' : Iso2022JpSt) (h : isoEof s = some (e, s')) : ErrOk e := by
  unfold isoEof at h
  split at h
  all_goals first
    | (cases h; unfold ErrOk; decide)
    | cases h

theorem utf16_eof_ok (s : Utf16St) (e : Nat × Nat) (s' : Utf16St) (h : utf16Eof s = some (e, s')) : ErrOk e := by
  unfold utf16Eof at h
  repeat' split at h
  all_goals first
    | (cases h; unfold ErrOk; decide)
    | cases h

/-- **`malformed_numbers`**: for every variant decoder, in every reachable state (the invariant of
`Lemmas.Scalar.variantScalar`, established at `init` and preserved by every step on bytes `< 256`; it
is `True` except for the UTF-8 / UTF-16 / EUC-JP / gb18030 / ISO-2022-JP bounds on pending bytes),
every error a step or the end of the stream reports has `1 ≤ len ≤ 4`, `after ≤ 3`, `len + after ≤ 6` -/
theorem malformed_numbers (v : Gen.Variant) (s : (famOfVariant v).σ)
    (hi : (Lemmas.Scalar.variantScalar v).Inv s) :
    (∀ b e, ((famOfVariant v).feed s b).err = some e → ErrOk e) ∧
    (∀ e s', (famOfVariant v).eof s = some (e, s') → ErrOk e) := by
  cases v with
  | singleByte t a b c => exact ⟨fun b => singleByte_eok _ s b, fun e s' h => by cases h⟩
  | utf8 => exact ⟨fun b => utf8_eok s b hi, fun e s' h => utf8_eof_ok s hi e s' h⟩
  | gbk => exact ⟨fun b => gb_eok s b, fun e s' h => gb_eof_ok s e s' h⟩
  | gb18030 => exact ⟨fun b => gb_eok s b, fun e s' h => gb_eof_ok s e s' h⟩
  | big5 => exact ⟨fun b => twoByte_eok big5Lead big5Trail s b, fun e s' h => twoByte_eof_ok big5Lead big5Trail true s e s' h⟩
  | eucJp => exact ⟨fun b => eucJp_eok s b, fun e s' h => eucJp_eof_ok s e s' h⟩
  | iso2022Jp => exact ⟨fun b => iso_eok s b, fun e s' h => iso_eof_ok s e s' h⟩
  | shiftJis => exact ⟨fun b => twoByte_eok shiftJisLead shiftJisTrail s b, fun e s' h => twoByte_eof_ok shiftJisLead shiftJisTrail false s e s' h⟩
  | eucKr => exact ⟨fun b => twoByte_eok eucKrLead eucKrTrail s b, fun e s' h => twoByte_eof_ok eucKrLead eucKrTrail false s e s' h⟩
  | replacement => exact ⟨fun b => replacement_eok s b, fun e s' h => by cases h⟩
  | utf16Be => exact ⟨fun b => utf16_eok true s b, fun e s' h => utf16_eof_ok s e s' h⟩
  | utf16Le => exact ⟨fun b => utf16_eok false s b, fun e s' h => utf16_eof_ok s e s' h⟩
  | userDefined => exact ⟨fun b => userDefined_eok s b, fun e s' h => by cases h⟩

/-! ## non-vacuity -/

/-- the Standard's decoders run: UTF-8 (a character, a truncated sequence followed by a restored byte) -/
example : runUtf8 [0xE3, 0x81, 0x82, 0xE3, 0x81, 0x41, 0xFF] = [.cp 0x3042, .err 3 2, .cp 0x41, .err 6 1] := by
  decide +kernel
/-- UTF-16LE: a BMP unit after an unpaired high surrogate is restored and read again -/
example : runUtf16 false [0x3D, 0xD8, 0x41, 0x00, 0x3D] = [.err 0 2, .cp 0x41, .err 4 1] := by decide +kernel
/-- replacement: one error, then `finished` although bytes remain -/
example : runReplacement [0x41, 0x42, 0x43] = [.err 0 1] := by decide +kernel
/-- `Conforms` is not vacuous: the model says the same about the first stream -/
example : ref utf8Fam utf8Fam.init [0xE3, 0x81, 0x82, 0xE3, 0x81, 0x41, 0xFF] 0
    = [.cp 0x3042, .err 3 2, .cp 0x41, .err 6 1] := by
  rw [(decode_conforms_utf8 _ (by decide)).2]
  decide +kernel

end EncodingRs.Thm.C01
