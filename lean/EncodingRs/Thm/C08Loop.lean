import EncodingRs.Thm.C08
import EncodingRs.Thm.C09
import EncodingRs.Lemmas.MaxLenVariant
/-!
# C08, decoder side — the documented caller loop terminates within a linear number of calls

`Thm/C08.lean` gives per-call progress (`outputFull_progress`, `malformed_progress`).  This module
turns it into the bound the property asks for, mirroring `Thm/C08Enc.lean` (`ELoop`,
`calls_le_events`, `caller_loop_bound`):

* `DLoop F s stream n c` — the documented caller loop over the raw (`*_without_replacement`) API:
  the stream is pushed in chunks (non-`last` calls on any prefix of what remains, then `last` calls
  until `InputEmpty`); after `OutputFull` or `Malformed` the unconsumed rest of the chunk is pushed
  again; every call that does not return `InputEmpty` is `Admissible` for a destination of at least
  the documented minimum (`minCap`: 4 bytes of UTF-8 / 2 units of UTF-16).  The loop makes `n` calls,
  `c` of which are non-`last` calls that returned `InputEmpty` (chunks pushed completely; these may
  be empty and are not bounded by the stream).
* `calls_le_events`: `n ≤ |ref F s stream| + c + 1` — every other call contributes an event of the
  chunk-free reference semantics (`Malformed`: its error; `OutputFull`: at least one character,
  because an admissible `OutputFull` wrote at least one unit).
* `ref_length_le`: the reference semantics is linear in the stream: for every family with a
  with-replacement UTF-16 potential (C07: `Φ` pays one unit per character *and* per error),
  `|ref F s stream| ≤ Φ s |stream|`; for the 13 variant decoders `Φ s n ≤ n + 5`
  (`variantPot16_linear`).
* **`caller_loop_bound`**: for each of the 40 encodings, from every state satisfying the variant
  invariant (`variantInv`, true of every reachable state), on a stream of bytes:
  `calls ≤ bytes + chunks + 6`.  This is sharper than the `4 · units + 16` of the property text
  (which the harness oracle checks), and it counts completely pushed chunks separately because the
  caller may push any number of empty chunks.
* `DReplLoop` / **`repl_caller_loop_bound`**: the same bound for the caller loop over the
  with-replacement methods (`Model.replLoop`; inner calls admissible as `ReplAdmissible` states).
* **Termination, not only a bound on completed loops.**  Every derivation of `DLoop` / `DReplLoop` ends in
  the `final` constructor, so the bounds above say nothing about a loop that never gets there.
  `DLoopPre` / `DReplLoopPre` are the same relations with an extra constructor `start` that ends a
  derivation anywhere: "the caller has made `n` calls *so far*" (prefix-closed:
  `DLoopPre.prefix_closed`; complete runs are prefixes: `DLoop.toPre`).  `prefix_calls_le_events`,
  **`caller_loop_prefix_bound`**, **`repl_caller_loop_prefix_bound`**: the same bounds for every prefix;
  **`caller_loop_terminates`** / `repl_caller_loop_terminates`: there is no prefix with more than
  `bytes + chunks + 6` calls, hence the loop cannot go on for ever.  The theorems about complete loops
  are corollaries.
-/
namespace EncodingRs.Thm.C08Loop
open EncodingRs EncodingRs.Model EncodingRs.Lemmas.Core EncodingRs.Lemmas.FamLaws
open EncodingRs.Lemmas.Potential EncodingRs.Lemmas.MaxLenVariant EncodingRs.Lemmas.MaxLenFam
open EncodingRs.Thm.C08

/-! ## the caller loop over the raw API -/

/-- **The documented caller loop** over `decode_to_utf{8,16}_without_replacement` at the
variant-decoder level: `n` calls, `c` of them non-`last` calls that returned `InputEmpty`. -/
inductive DLoop (F : Fam) : F.σ → List Nat → Nat → Nat → Prop
  /-- the `last` call that ends the stream -/
  | final (k : Sink) (s : F.σ) (rem : List Nat) (b : Budget) :
      (call F k s rem true b).res = .inputEmpty → DLoop F s rem 1 0
  /-- a `last` call that stopped early (`OutputFull` / `Malformed`); the rest is pushed again -/
  | lastStep (k : Sink) (s : F.σ) (rem : List Nat) (b : Budget) (cap n c : Nat) :
      (call F k s rem true b).res ≠ .inputEmpty → minCap k ≤ cap →
      Admissible F k cap (call F k s rem true b) →
      DLoop F (call F k s rem true b).st (rem.drop (call F k s rem true b).read) n c →
      DLoop F s rem (n + 1) c
  /-- a non-`last` call that consumed its whole chunk -/
  | chunkDone (k : Sink) (s : F.σ) (src rest : List Nat) (b : Budget) (n c : Nat) :
      (call F k s src false b).res = .inputEmpty →
      DLoop F (call F k s src false b).st (src.drop (call F k s src false b).read ++ rest) n c →
      DLoop F s (src ++ rest) (n + 1) (c + 1)
  /-- a non-`last` call that stopped early; the rest of the chunk is pushed again -/
  | chunkStep (k : Sink) (s : F.σ) (src rest : List Nat) (b : Budget) (cap n c : Nat) :
      (call F k s src false b).res ≠ .inputEmpty → minCap k ≤ cap →
      Admissible F k cap (call F k s src false b) →
      DLoop F (call F k s src false b).st (src.drop (call F k s src false b).read ++ rest) n c →
      DLoop F s (src ++ rest) (n + 1) c

theorem length_pos_of_units (k : Sink) (l : List Nat) (h : 1 ≤ unitsOfList k l) : 1 ≤ l.length := by
  cases l with
  | nil => simp [unitsOfList] at h
  | cons _ _ => simp

/-- a call that does not return `InputEmpty` contributes at least one event (a character or an error) -/
theorem evs_pos (F : Fam) (k : Sink) (hb : NeedsBounded F) (s : F.σ) (src : List Nat) (last : Bool)
    (b : Budget) (cap : Nat) (hcap : minCap k ≤ cap) (hadm : Admissible F k cap (call F k s src last b))
    (hres : (call F k s src last b).res ≠ .inputEmpty) (pos : Nat) :
    1 ≤ (evs (call F k s src last b) pos).length := by
  unfold evs
  cases h : (call F k s src last b).res with
  | inputEmpty => exact absurd h hres
  | malformed l a => simp [resEv]
  | outputFull =>
    have := length_pos_of_units k _ (outputFull_progress F k hb s src last b cap hcap hadm h)
    simp only [List.length_append, List.length_map]
    omega

/-- **Every prefix of a run of the caller loop** over the raw API: `DLoopPre F s stream n c` — started
in state `s` with `stream` still to be pushed, the caller has made `n` calls *so far*, `c` of them
non-`last` calls that returned `InputEmpty`.  The step constructors are those of `DLoop`; `start` ends
a derivation anywhere, so no constructor requires that the run ever reaches the call that ends the
stream: a loop that went on for ever would have a derivation for every `n`
(`DLoopPre.prefix_closed`: the relation is closed under taking prefixes).  `final` (the call that ends
the stream) is kept so that complete runs are prefixes too (`DLoop.toPre`). -/
inductive DLoopPre (F : Fam) : F.σ → List Nat → Nat → Nat → Prop
  /-- no call made yet / the calls after this point are not looked at -/
  | start (s : F.σ) (stream : List Nat) : DLoopPre F s stream 0 0
  | final (k : Sink) (s : F.σ) (rem : List Nat) (b : Budget) :
      (call F k s rem true b).res = .inputEmpty → DLoopPre F s rem 1 0
  | lastStep (k : Sink) (s : F.σ) (rem : List Nat) (b : Budget) (cap n c : Nat) :
      (call F k s rem true b).res ≠ .inputEmpty → minCap k ≤ cap →
      Admissible F k cap (call F k s rem true b) →
      DLoopPre F (call F k s rem true b).st (rem.drop (call F k s rem true b).read) n c →
      DLoopPre F s rem (n + 1) c
  | chunkDone (k : Sink) (s : F.σ) (src rest : List Nat) (b : Budget) (n c : Nat) :
      (call F k s src false b).res = .inputEmpty →
      DLoopPre F (call F k s src false b).st (src.drop (call F k s src false b).read ++ rest) n c →
      DLoopPre F s (src ++ rest) (n + 1) (c + 1)
  | chunkStep (k : Sink) (s : F.σ) (src rest : List Nat) (b : Budget) (cap n c : Nat) :
      (call F k s src false b).res ≠ .inputEmpty → minCap k ≤ cap →
      Admissible F k cap (call F k s src false b) →
      DLoopPre F (call F k s src false b).st (src.drop (call F k s src false b).read ++ rest) n c →
      DLoopPre F s (src ++ rest) (n + 1) c

/-- a complete run is one of its prefixes -/
theorem DLoop.toPre {F : Fam} {s : F.σ} {stream : List Nat} {n c : Nat} (h : DLoop F s stream n c) :
    DLoopPre F s stream n c := by
  induction h with
  | final k s rem b hres => exact .final k s rem b hres
  | lastStep k s rem b cap n c hres hcap hadm _ ih => exact .lastStep k s rem b cap n c hres hcap hadm ih
  | chunkDone k s src rest b n c hres _ ih => exact .chunkDone k s src rest b n c hres ih
  | chunkStep k s src rest b cap n c hres hcap hadm _ ih => exact .chunkStep k s src rest b cap n c hres hcap hadm ih

/-- the relation is prefix-closed: whoever has made `n` calls has made `m` calls for every `m ≤ n` -/
theorem DLoopPre.prefix_closed {F : Fam} {s : F.σ} {stream : List Nat} {n c : Nat} (h : DLoopPre F s stream n c) :
    ∀ m, m ≤ n → ∃ c', c' ≤ c ∧ DLoopPre F s stream m c' := by
  induction h with
  | start s stream => intro m hm; exact ⟨0, Nat.le_refl _, by have : m = 0 := by omega
                                                              subst this; exact .start s stream⟩
  | final k s rem b hres =>
    intro m hm
    cases m with
    | zero => exact ⟨0, Nat.le_refl _, .start s rem⟩
    | succ m => have : m = 0 := by omega
                subst this; exact ⟨0, Nat.le_refl _, .final k s rem b hres⟩
  | lastStep k s rem b cap n c hres hcap hadm _ ih =>
    intro m hm
    cases m with
    | zero => exact ⟨0, Nat.zero_le _, .start s rem⟩
    | succ m =>
      obtain ⟨c', hc', h'⟩ := ih m (by omega)
      exact ⟨c', hc', .lastStep k s rem b cap m c' hres hcap hadm h'⟩
  | chunkDone k s src rest b n c hres _ ih =>
    intro m hm
    cases m with
    | zero => exact ⟨0, Nat.zero_le _, .start s (src ++ rest)⟩
    | succ m =>
      obtain ⟨c', hc', h'⟩ := ih m (by omega)
      exact ⟨c' + 1, by omega, .chunkDone k s src rest b m c' hres h'⟩
  | chunkStep k s src rest b cap n c hres hcap hadm _ ih =>
    intro m hm
    cases m with
    | zero => exact ⟨0, Nat.zero_le _, .start s (src ++ rest)⟩
    | succ m =>
      obtain ⟨c', hc', h'⟩ := ih m (by omega)
      exact ⟨c', hc', .chunkStep k s src rest b cap m c' hres hcap hadm h'⟩

/-- **at no point of the caller loop — complete or not — has it made more calls than the stream has
events, plus chunks, plus one** -/
theorem prefix_calls_le_events (F : Fam) (L : Laws F) (hb : NeedsBounded F) (s : F.σ) (stream : List Nat) (n c : Nat)
    (h : DLoopPre F s stream n c) : ∀ pos, n ≤ (ref F s stream pos).length + c + 1 := by
  induction h with
  | start s stream => intro pos; omega
  | final k s rem b hres => intro pos; omega
  | lastStep k s rem b cap n c hres hcap hadm _ ih =>
    intro pos
    have hs := call_sound F k L true rem s b pos [] (fun _ => rfl)
    simp only [List.append_nil] at hs
    have hp := evs_pos F k hb s rem true b cap hcap hadm hres pos
    have := ih (pos + (call F k s rem true b).read)
    rw [← hs, List.length_append]
    omega
  | chunkDone k s src rest b n c hres _ ih =>
    intro pos
    have hs := call_sound F k L false src s b pos rest (fun h => by cases h)
    have := ih (pos + (call F k s src false b).read)
    rw [← hs, List.length_append]
    omega
  | chunkStep k s src rest b cap n c hres hcap hadm _ ih =>
    intro pos
    have hs := call_sound F k L false src s b pos rest (fun h => by cases h)
    have hp := evs_pos F k hb s src false b cap hcap hadm hres pos
    have := ih (pos + (call F k s src false b).read)
    rw [← hs, List.length_append]
    omega

/-- **the caller loop terminates within a number of calls bounded by what the stream says**:
calls ≤ (characters + errors of the chunk-free reference semantics) + chunks + 1 (a complete run is a
prefix: `prefix_calls_le_events`) -/
theorem calls_le_events (F : Fam) (L : Laws F) (hb : NeedsBounded F) (s : F.σ) (stream : List Nat) (n c : Nat)
    (h : DLoop F s stream n c) : ∀ pos, n ≤ (ref F s stream pos).length + c + 1 :=
  prefix_calls_le_events F L hb s stream n c h.toPre

/-! ## the reference semantics is linear in the stream -/

theorem length_le_units16 (l : List Nat) : l.length ≤ unitsOfList .utf16 l := by
  induction l with
  | nil => simp [unitsOfList]
  | cons c t ih =>
    simp only [unitsOfList, List.map_cons, List.sum_cons, List.length_cons] at ih ⊢
    have : 1 ≤ unitsOf .utf16 c := by simp only [unitsOf]; split <;> omega
    omega

variable {F : Fam}

/-- one unfolding of `ref` from a state without delayed output -/
theorem ref_len_step (P : Potential F .utf16 true) (L : Laws F) (stream : List Nat)
    (hb : ∀ b ∈ stream, b < 256)
    (ihTail : ∀ b rest, stream = b :: rest → ∀ s pos, P.Inv s → (ref F s rest pos).length ≤ P.Φ s rest.length)
    (s : F.σ) (hi : P.Inv s) (hp : F.pend s = none)
    (ihRank : ∀ s', F.rank s' < F.rank s → P.Inv s' → ∀ pos, (ref F s' stream pos).length ≤ P.Φ s' stream.length)
    (pos : Nat) : (ref F s stream pos).length ≤ P.Φ s stream.length := by
  cases stream with
  | nil =>
    rw [ref_nil F s pos hp]
    cases he : F.eof s with
    | none => simp
    | some p =>
      obtain ⟨e, s2⟩ := p
      have h1 := (P.eof_le s e s2 hi hp he).2 rfl
      have h2 := ihRank s2 (F.eof_rank s e s2 he) (P.inv_eof s e s2 hi he) pos
      simp only [List.length_cons, List.length_nil, replRoom] at h1 h2 ⊢
      omega
  | cons b rest =>
    have hb0 : b < 256 := hb b (List.mem_cons_self ..)
    rw [ref_cons F s b rest pos hp]
    have hlen := length_le_units16 (F.feed s b).out
    cases hE : (F.feed s b).err with
    | none =>
      have hu := L.noerr_unread s b hE
      have hok := P.step_ok s b rest.length hi hp hb0 hE
      have ht := ihTail b rest rfl (F.feed s b).st (pos + 1) (P.inv_step s b hi hp hb0)
      simp only [hu, Bool.false_eq_true, if_false, errEv, List.append_nil, List.length_append,
        List.length_map, List.length_cons]
      omega
    | some e =>
      have herr := P.step_err rfl s b rest.length e hi hp hb0 hE
      cases hU : (F.feed s b).unread with
      | true =>
        have hr := ihRank (F.feed s b).st (F.unread_rank s b hU) (P.inv_step s b hi hp hb0) pos
        simp only [hU, if_true, replRoom] at herr
        simp only [if_true, errEv, List.length_append, List.length_map, List.length_cons,
          List.length_nil] at hr ⊢
        omega
      | false =>
        have ht := ihTail b rest rfl (F.feed s b).st (pos + 1) (P.inv_step s b hi hp hb0)
        simp only [hU, Bool.false_eq_true, if_false, replRoom] at herr
        simp only [Bool.false_eq_true, if_false, errEv, List.length_append, List.length_map, List.length_cons,
          List.length_nil]
        omega

/-- the same from any state: flush the delayed output first -/
theorem ref_len_any (P : Potential F .utf16 true) (L : Laws F) (stream : List Nat)
    (hb : ∀ b ∈ stream, b < 256)
    (ihTail : ∀ b rest, stream = b :: rest → ∀ s pos, P.Inv s → (ref F s rest pos).length ≤ P.Φ s rest.length)
    (s : F.σ) (hi : P.Inv s)
    (ihRank : ∀ s', F.rank s' < F.rank s → P.Inv s' → ∀ pos, (ref F s' stream pos).length ≤ P.Φ s' stream.length)
    (pos : Nat) : (ref F s stream pos).length ≤ P.Φ s stream.length := by
  cases hp : F.pend s with
  | none => exact ref_len_step P L stream hb ihTail s hi hp ihRank pos
  | some p =>
    obtain ⟨o, s'⟩ := p
    rw [ref_flush F s o s' stream pos L hp]
    have hr := F.pend_rank s o s' hp
    have h1 := ref_len_step P L stream hb ihTail s' (P.inv_pend s o s' hi hp) (L.pend_once s o s' hp)
      (fun s'' h => ihRank s'' (by omega)) pos
    have h2 := (P.pend_le s o s' stream.length hi hp).2
    have h3 := length_le_units16 o
    simp only [List.length_append, List.length_map]
    omega

theorem ref_len_rank (P : Potential F .utf16 true) (L : Laws F) (stream : List Nat)
    (hb : ∀ b ∈ stream, b < 256)
    (ihTail : ∀ b rest, stream = b :: rest → ∀ s pos, P.Inv s → (ref F s rest pos).length ≤ P.Φ s rest.length) :
    ∀ (r : Nat) (s : F.σ), F.rank s ≤ r → P.Inv s → ∀ pos, (ref F s stream pos).length ≤ P.Φ s stream.length := by
  intro r
  induction r with
  | zero =>
    intro s hr hi pos
    exact ref_len_any P L stream hb ihTail s hi (fun s' h => by omega) pos
  | succ r ih =>
    intro s hr hi pos
    exact ref_len_any P L stream hb ihTail s hi (fun s' h hi' pos' => ih s' (by omega) hi' pos') pos

/-- **the reference semantics is bounded by the with-replacement UTF-16 potential**: the number of
characters and errors a stream of `n` bytes denotes from state `s` is at most `Φ s n` (every
character costs at least one UTF-16 unit, every error the unit of its U+FFFD) -/
theorem ref_length_le (P : Potential F .utf16 true) (L : Laws F) :
    ∀ (stream : List Nat), (∀ b ∈ stream, b < 256) → ∀ (s : F.σ) (pos : Nat), P.Inv s →
      (ref F s stream pos).length ≤ P.Φ s stream.length := by
  intro stream
  induction stream with
  | nil =>
    intro hb s pos hi
    exact ref_len_rank P L [] hb (fun b rest h => by cases h) (F.rank s) s (Nat.le_refl _) hi pos
  | cons b rest ih =>
    intro hb s pos hi
    have hbt : ∀ x ∈ rest, x < 256 := fun x hx => hb x (List.mem_cons_of_mem _ hx)
    refine ref_len_rank P L (b :: rest) hb ?_ (F.rank s) s (Nat.le_refl _) hi pos
    intro b' rest' h s' pos' hi'
    simp only [List.cons.injEq] at h
    rw [← h.2]
    exact ih hbt s' pos' hi'

/-! ## the 13 variant decoders: `Φ s n ≤ n + 5` -/

/-- the with-replacement UTF-16 potential (= `max_utf16_buffer_length` or tighter) of every variant
decoder is at most `n + 5` in every state satisfying the variant invariant (the worst case is
gb18030 with three bytes and an ASCII byte pending: `1 + n + 4`) -/
theorem variantPot16_linear (v : Gen.Variant) (s : (famOfVariant v).σ) (n : Nat) (hi : variantInv v s) :
    (variantPot16 v).Φ s n ≤ n + 5 := by
  cases v with
  | singleByte t a b c => show n ≤ n + 5; omega
  | utf8 =>
    have hseen : s.seen ≤ 2 := by
      have hi' : Lemmas.Scalar.utf8Inv s := hi
      unfold Lemmas.Scalar.utf8Inv at hi'
      rcases hi' with h | h | h | h | h | h | h <;> omega
    show n + (1 + Gen.MaxLen.utf8ExtraFromState s) ≤ n + 5
    unfold Gen.MaxLen.utf8ExtraFromState
    split <;> omega
  | gbk =>
    show 1 + (n + gbW s) ≤ n + 5
    have : gbW s ≤ 4 := by
      unfold gbW
      have : gbCount s.pending ≤ 3 := by cases s.pending <;> simp [gbCount]
      split <;> omega
    omega
  | gb18030 =>
    show 1 + (n + gbW s) ≤ n + 5
    have : gbW s ≤ 4 := by
      unfold gbW
      have : gbCount s.pending ≤ 3 := by cases s.pending <;> simp [gbCount]
      split <;> omega
    omega
  | big5 => show 1 + (n + (if s.isSome then 1 else 0)) ≤ n + 5; split <;> omega
  | eucJp => show n + (if eucJpPending s then 1 else 0) ≤ n + 5; split <;> omega
  | iso2022Jp =>
    show n + isoW s ≤ n + 5
    have : isoW s ≤ 2 := by
      unfold isoW
      split
      · omega
      · split <;> omega
    omega
  | shiftJis => show n + (if s.isSome then 1 else 0) ≤ n + 5; split <;> omega
  | eucKr => show n + (if s.isSome then 1 else 0) ≤ n + 5; split <;> omega
  | replacement =>
    show replacementPhi .utf16 s ≤ n + 5
    unfold replacementPhi
    split
    · omega
    · show 1 ≤ n + 5; omega
  | utf16Be =>
    show 1 + (n + Gen.MaxLen.utf16AdditionalFromState s) / 2 ≤ n + 5
    have : Gen.MaxLen.utf16AdditionalFromState s ≤ 4 := by
      unfold Gen.MaxLen.utf16AdditionalFromState
      split <;> split <;> omega
    omega
  | utf16Le =>
    show 1 + (n + Gen.MaxLen.utf16AdditionalFromState s) / 2 ≤ n + 5
    have : Gen.MaxLen.utf16AdditionalFromState s ≤ 4 := by
      unfold Gen.MaxLen.utf16AdditionalFromState
      split <;> split <;> omega
    omega
  | userDefined => show n ≤ n + 5; omega

/-- what a stream of `n` bytes says (characters + errors) from a state satisfying the invariant:
at most `n + 5` events, for every variant decoder -/
theorem variant_ref_length_le (v : Gen.Variant) (s : (famOfVariant v).σ) (hi : variantInv v s)
    (stream : List Nat) (hb : ∀ b ∈ stream, b < 256) (pos : Nat) :
    (ref (famOfVariant v) s stream pos).length ≤ stream.length + 5 :=
  Nat.le_trans (ref_length_le (variantPot16 v) (famOfVariant_laws v) stream hb s pos hi)
    (variantPot16_linear v s stream.length hi)

/-- **C08, linear bound, all 40 encodings, raw API**: the documented caller loop over
`decode_to_utf{8,16}_without_replacement` with destinations of at least 4 bytes / 2 units, started
in any state satisfying the variant invariant, makes at most `bytes + chunks + 6` calls
(`chunks` = non-`last` calls that returned `InputEmpty`).  The constant differs from the
`4 · units + 16` the harness oracle uses: it is smaller in the stream length and counts completely
pushed (possibly empty) chunks explicitly. -/
theorem caller_loop_bound (v : Gen.Variant) (s : (famOfVariant v).σ) (hi : variantInv v s)
    (stream : List Nat) (hb : ∀ b ∈ stream, b < 256) (n c : Nat)
    (h : DLoop (famOfVariant v) s stream n c) : n ≤ stream.length + c + 6 := by
  have h1 := calls_le_events _ (famOfVariant_laws v) (famOfVariant_needsBounded v) s stream n c h 0
  have h2 := variant_ref_length_le v s hi stream hb 0
  omega

/-- from the initial state (a new variant decoder) -/
theorem caller_loop_bound_init (v : Gen.Variant) (stream : List Nat) (hb : ∀ b ∈ stream, b < 256) (n c : Nat)
    (h : DLoop (famOfVariant v) (famOfVariant v).init stream n c) : n ≤ stream.length + c + 6 :=
  caller_loop_bound v _ (variantInv_init v) stream hb n c h

/-- from every state reachable by any history of raw calls -/
theorem caller_loop_bound_reach (v : Gen.Variant) (s : (famOfVariant v).σ) (hr : Reach v s)
    (stream : List Nat) (hb : ∀ b ∈ stream, b < 256) (n c : Nat)
    (h : DLoop (famOfVariant v) s stream n c) : n ≤ stream.length + c + 6 :=
  caller_loop_bound v s (variant_inv_reachable v s hr) stream hb n c h

/-- in particular the property's `4 · bytes + 16` holds once the `c` completely pushed chunks are
added -/
theorem caller_loop_bound_weak (v : Gen.Variant) (s : (famOfVariant v).σ) (hi : variantInv v s)
    (stream : List Nat) (hb : ∀ b ∈ stream, b < 256) (n c : Nat)
    (h : DLoop (famOfVariant v) s stream n c) : n ≤ 4 * stream.length + 16 + c := by
  have := caller_loop_bound v s hi stream hb n c h
  omega

/-- **C08, the caller loop cannot go on: all 40 encodings, raw API, prefixes of runs.**  At no point
of the documented caller loop — whether or not it ever reaches the call that ends the stream — has it
made more than `bytes + chunks + 6` calls -/
theorem caller_loop_prefix_bound (v : Gen.Variant) (s : (famOfVariant v).σ) (hi : variantInv v s)
    (stream : List Nat) (hb : ∀ b ∈ stream, b < 256) (n c : Nat)
    (h : DLoopPre (famOfVariant v) s stream n c) : n ≤ stream.length + c + 6 := by
  have h1 := prefix_calls_le_events _ (famOfVariant_laws v) (famOfVariant_needsBounded v) s stream n c h 0
  have h2 := variant_ref_length_le v s hi stream hb 0
  omega

/-- **termination**: there is no prefix of a run with more than `bytes + chunks + 6` calls; since every
prefix of an infinite run would be derivable, the loop makes its last call after at most that many
(the `c` completely pushed chunks are the caller's: a caller who pushes finitely many chunks is done
after finitely many calls) -/
theorem caller_loop_terminates (v : Gen.Variant) (s : (famOfVariant v).σ) (hi : variantInv v s)
    (stream : List Nat) (hb : ∀ b ∈ stream, b < 256) :
    ¬ ∃ n c, stream.length + c + 6 < n ∧ DLoopPre (famOfVariant v) s stream n c := by
  intro ⟨n, c, hlt, h⟩
  have := caller_loop_prefix_bound v s hi stream hb n c h
  omega

/-! ## with replacement -/

theorem textOf_true_length (e : List Ev) : (C02.textOf true e).length = e.length := by
  induction e with
  | nil => rfl
  | cons x t ih => cases x <;> simp [C02.textOf, ih]

/-- with a destination of at least the documented minimum and admissible inner calls, a
with-replacement call that returns `OutputFull` has written at least one character (a character of
the first inner call, which filled the destination, or a U+FFFD) -/
theorem replLoop_outputFull_wrote (F : Fam) (k : Sink) (hb : NeedsBounded F) (last : Bool) (fuel : Nat)
    (s : F.σ) (src : List Nat) (budgets : List Budget) (cap : Nat) (t : ReplRes F.σ)
    (hcap : minCap k ≤ cap) (hadm : ReplAdmissible F k last fuel s src budgets cap)
    (h : replLoop F k last fuel s src budgets = some t) (hres : t.res = .outputFull) :
    1 ≤ t.out.length := by
  cases fuel with
  | zero => simp [replLoop] at h
  | succ fuel =>
    rw [replLoop] at h
    simp only [ReplAdmissible] at hadm
    have hprog := outputFull_progress F k hb s src last (budgets.headD .unlimited) cap hcap hadm.1
    generalize call F k s src last (budgets.headD .unlimited) = r at h hadm hprog
    unfold replStep at h
    cases hr : r.res with
    | malformed l a =>
      simp only [hr] at h
      cases hrec : replLoop F k last fuel r.st (src.drop r.read) budgets.tail with
      | none => rw [hrec] at h; cases h
      | some t' =>
        rw [hrec] at h; simp only [Option.some.injEq] at h; subst h
        simp only [List.length_append, List.length_cons]; omega
    | inputEmpty => simp only [hr, Option.some.injEq] at h; subst h; cases hres
    | outputFull =>
      simp only [hr, Option.some.injEq] at h; subst h
      exact length_pos_of_units k _ (hprog hr)

/-- **The documented caller loop over `decode_to_utf{8,16}`** (with replacement) at the
variant-decoder level: chunks in non-`last` calls, then `last` calls until `InputEmpty`; after
`OutputFull` the unconsumed rest is pushed again.  Every call that does not return `InputEmpty` had a
destination of at least `minCap` and admissible inner calls (`ReplAdmissible`). -/
inductive DReplLoop (F : Fam) : F.σ → List Nat → Nat → Nat → Prop
  | final (k : Sink) (s : F.σ) (rem : List Nat) (fuel : Nat) (budgets : List Budget) (t : ReplRes F.σ) :
      replLoop F k true fuel s rem budgets = some t → t.res = .inputEmpty → DReplLoop F s rem 1 0
  | lastStep (k : Sink) (s : F.σ) (rem : List Nat) (fuel : Nat) (budgets : List Budget) (t : ReplRes F.σ)
      (cap n c : Nat) :
      replLoop F k true fuel s rem budgets = some t → t.res ≠ .inputEmpty → minCap k ≤ cap →
      ReplAdmissible F k true fuel s rem budgets cap →
      DReplLoop F t.st (rem.drop t.read) n c → DReplLoop F s rem (n + 1) c
  | chunkDone (k : Sink) (s : F.σ) (src rest : List Nat) (fuel : Nat) (budgets : List Budget) (t : ReplRes F.σ)
      (n c : Nat) :
      replLoop F k false fuel s src budgets = some t → t.res = .inputEmpty →
      DReplLoop F t.st (src.drop t.read ++ rest) n c → DReplLoop F s (src ++ rest) (n + 1) (c + 1)
  | chunkStep (k : Sink) (s : F.σ) (src rest : List Nat) (fuel : Nat) (budgets : List Budget) (t : ReplRes F.σ)
      (cap n c : Nat) :
      replLoop F k false fuel s src budgets = some t → t.res ≠ .inputEmpty → minCap k ≤ cap →
      ReplAdmissible F k false fuel s src budgets cap →
      DReplLoop F t.st (src.drop t.read ++ rest) n c → DReplLoop F s (src ++ rest) (n + 1) c

/-- what a with-replacement call wrote, plus what the rest of the stream says, is what the stream says -/
theorem repl_call_events (F : Fam) (k : Sink) (L : Laws F) (last : Bool) (fuel : Nat) (s : F.σ)
    (src rest : List Nat) (budgets : List Budget) (t : ReplRes F.σ) (pos : Nat) (hl : last = true → rest = [])
    (h : replLoop F k last fuel s src budgets = some t) :
    t.out.length + (ref F t.st (src.drop t.read ++ rest) (pos + t.read)).length
      = (ref F s (src ++ rest) pos).length := by
  have := C09.replLoop_sound F k L last fuel s src budgets pos rest t hl h
  have := congrArg List.length this
  simpa [textOf_true_length] using this

/-- **every prefix of a run of the caller loop over the with-replacement methods** (`DReplLoop`
without the requirement that the run is complete: `start` ends a derivation anywhere) -/
inductive DReplLoopPre (F : Fam) : F.σ → List Nat → Nat → Nat → Prop
  | start (s : F.σ) (stream : List Nat) : DReplLoopPre F s stream 0 0
  | final (k : Sink) (s : F.σ) (rem : List Nat) (fuel : Nat) (budgets : List Budget) (t : ReplRes F.σ) :
      replLoop F k true fuel s rem budgets = some t → t.res = .inputEmpty → DReplLoopPre F s rem 1 0
  | lastStep (k : Sink) (s : F.σ) (rem : List Nat) (fuel : Nat) (budgets : List Budget) (t : ReplRes F.σ)
      (cap n c : Nat) :
      replLoop F k true fuel s rem budgets = some t → t.res ≠ .inputEmpty → minCap k ≤ cap →
      ReplAdmissible F k true fuel s rem budgets cap →
      DReplLoopPre F t.st (rem.drop t.read) n c → DReplLoopPre F s rem (n + 1) c
  | chunkDone (k : Sink) (s : F.σ) (src rest : List Nat) (fuel : Nat) (budgets : List Budget) (t : ReplRes F.σ)
      (n c : Nat) :
      replLoop F k false fuel s src budgets = some t → t.res = .inputEmpty →
      DReplLoopPre F t.st (src.drop t.read ++ rest) n c → DReplLoopPre F s (src ++ rest) (n + 1) (c + 1)
  | chunkStep (k : Sink) (s : F.σ) (src rest : List Nat) (fuel : Nat) (budgets : List Budget) (t : ReplRes F.σ)
      (cap n c : Nat) :
      replLoop F k false fuel s src budgets = some t → t.res ≠ .inputEmpty → minCap k ≤ cap →
      ReplAdmissible F k false fuel s src budgets cap →
      DReplLoopPre F t.st (src.drop t.read ++ rest) n c → DReplLoopPre F s (src ++ rest) (n + 1) c

theorem DReplLoop.toPre {F : Fam} {s : F.σ} {stream : List Nat} {n c : Nat} (h : DReplLoop F s stream n c) :
    DReplLoopPre F s stream n c := by
  induction h with
  | final k s rem fuel budgets t hrun hres => exact .final k s rem fuel budgets t hrun hres
  | lastStep k s rem fuel budgets t cap n c hrun hres hcap hadm _ ih =>
    exact .lastStep k s rem fuel budgets t cap n c hrun hres hcap hadm ih
  | chunkDone k s src rest fuel budgets t n c hrun hres _ ih =>
    exact .chunkDone k s src rest fuel budgets t n c hrun hres ih
  | chunkStep k s src rest fuel budgets t cap n c hrun hres hcap hadm _ ih =>
    exact .chunkStep k s src rest fuel budgets t cap n c hrun hres hcap hadm ih

theorem DReplLoopPre.prefix_closed {F : Fam} {s : F.σ} {stream : List Nat} {n c : Nat}
    (h : DReplLoopPre F s stream n c) : ∀ m, m ≤ n → ∃ c', c' ≤ c ∧ DReplLoopPre F s stream m c' := by
  induction h with
  | start s stream => intro m hm; exact ⟨0, Nat.le_refl _, by have : m = 0 := by omega
                                                              subst this; exact .start s stream⟩
  | final k s rem fuel budgets t hrun hres =>
    intro m hm
    cases m with
    | zero => exact ⟨0, Nat.le_refl _, .start s rem⟩
    | succ m => have : m = 0 := by omega
                subst this; exact ⟨0, Nat.le_refl _, .final k s rem fuel budgets t hrun hres⟩
  | lastStep k s rem fuel budgets t cap n c hrun hres hcap hadm _ ih =>
    intro m hm
    cases m with
    | zero => exact ⟨0, Nat.zero_le _, .start s rem⟩
    | succ m =>
      obtain ⟨c', hc', h'⟩ := ih m (by omega)
      exact ⟨c', hc', .lastStep k s rem fuel budgets t cap m c' hrun hres hcap hadm h'⟩
  | chunkDone k s src rest fuel budgets t n c hrun hres _ ih =>
    intro m hm
    cases m with
    | zero => exact ⟨0, Nat.zero_le _, .start s (src ++ rest)⟩
    | succ m =>
      obtain ⟨c', hc', h'⟩ := ih m (by omega)
      exact ⟨c' + 1, by omega, .chunkDone k s src rest fuel budgets t m c' hrun hres h'⟩
  | chunkStep k s src rest fuel budgets t cap n c hrun hres hcap hadm _ ih =>
    intro m hm
    cases m with
    | zero => exact ⟨0, Nat.zero_le _, .start s (src ++ rest)⟩
    | succ m =>
      obtain ⟨c', hc', h'⟩ := ih m (by omega)
      exact ⟨c', hc', .chunkStep k s src rest fuel budgets t cap m c' hrun hres hcap hadm h'⟩

theorem repl_prefix_calls_le_events (F : Fam) (L : Laws F) (hb : NeedsBounded F) (s : F.σ) (stream : List Nat)
    (n c : Nat) (h : DReplLoopPre F s stream n c) : ∀ pos, n ≤ (ref F s stream pos).length + c + 1 := by
  induction h with
  | start s stream => intro pos; omega
  | final k s rem fuel budgets t hrun hres => intro pos; omega
  | lastStep k s rem fuel budgets t cap n c hrun hres hcap hadm _ ih =>
    intro pos
    have hs := repl_call_events F k L true fuel s rem [] budgets t pos (fun _ => rfl) hrun
    simp only [List.append_nil] at hs
    have hfull : t.res = .outputFull := by
      rcases C09.replLoop_res F k true fuel s rem budgets t hrun with h' | h'
      · exact absurd h' hres
      · exact h'
    have hw := replLoop_outputFull_wrote F k hb true fuel s rem budgets cap t hcap hadm hrun hfull
    have := ih (pos + t.read)
    omega
  | chunkDone k s src rest fuel budgets t n c hrun hres _ ih =>
    intro pos
    have hs := repl_call_events F k L false fuel s src rest budgets t pos (fun h => by cases h) hrun
    have := ih (pos + t.read)
    omega
  | chunkStep k s src rest fuel budgets t cap n c hrun hres hcap hadm _ ih =>
    intro pos
    have hs := repl_call_events F k L false fuel s src rest budgets t pos (fun h => by cases h) hrun
    have hfull : t.res = .outputFull := by
      rcases C09.replLoop_res F k false fuel s src budgets t hrun with h' | h'
      · exact absurd h' hres
      · exact h'
    have hw := replLoop_outputFull_wrote F k hb false fuel s src budgets cap t hcap hadm hrun hfull
    have := ih (pos + t.read)
    omega

theorem repl_calls_le_events (F : Fam) (L : Laws F) (hb : NeedsBounded F) (s : F.σ) (stream : List Nat) (n c : Nat)
    (h : DReplLoop F s stream n c) : ∀ pos, n ≤ (ref F s stream pos).length + c + 1 :=
  repl_prefix_calls_le_events F L hb s stream n c h.toPre

/-- **C08, linear bound, all 40 encodings, with-replacement API**: the documented caller loop over
`decode_to_utf{8,16}` with destinations of at least 4 bytes / 2 units makes at most
`bytes + chunks + 6` calls -/
theorem repl_caller_loop_bound (v : Gen.Variant) (s : (famOfVariant v).σ) (hi : variantInv v s)
    (stream : List Nat) (hb : ∀ b ∈ stream, b < 256) (n c : Nat)
    (h : DReplLoop (famOfVariant v) s stream n c) : n ≤ stream.length + c + 6 := by
  have h1 := repl_calls_le_events _ (famOfVariant_laws v) (famOfVariant_needsBounded v) s stream n c h 0
  have h2 := variant_ref_length_le v s hi stream hb 0
  omega

theorem repl_caller_loop_bound_init (v : Gen.Variant) (stream : List Nat) (hb : ∀ b ∈ stream, b < 256) (n c : Nat)
    (h : DReplLoop (famOfVariant v) (famOfVariant v).init stream n c) : n ≤ stream.length + c + 6 :=
  repl_caller_loop_bound v _ (variantInv_init v) stream hb n c h

/-- **C08, with-replacement API, prefixes of runs**: at no point of the caller loop over
`decode_to_utf{8,16}` has it made more than `bytes + chunks + 6` calls.  (Each with-replacement call of
the prefix is one that returned — that it does return is `Lemmas.OneShotCap.variant_replLoop_terminates`:
`replLoop … ≠ none` for every stop policy once `fuel > 10 · bytes + 9`.) -/
theorem repl_caller_loop_prefix_bound (v : Gen.Variant) (s : (famOfVariant v).σ) (hi : variantInv v s)
    (stream : List Nat) (hb : ∀ b ∈ stream, b < 256) (n c : Nat)
    (h : DReplLoopPre (famOfVariant v) s stream n c) : n ≤ stream.length + c + 6 := by
  have h1 := repl_prefix_calls_le_events _ (famOfVariant_laws v) (famOfVariant_needsBounded v) s stream n c h 0
  have h2 := variant_ref_length_le v s hi stream hb 0
  omega

/-- **termination**: no prefix of a run has more than `bytes + chunks + 6` calls -/
theorem repl_caller_loop_terminates (v : Gen.Variant) (s : (famOfVariant v).σ) (hi : variantInv v s)
    (stream : List Nat) (hb : ∀ b ∈ stream, b < 256) :
    ¬ ∃ n c, stream.length + c + 6 < n ∧ DReplLoopPre (famOfVariant v) s stream n c := by
  intro ⟨n, c, hlt, h⟩
  have := repl_caller_loop_prefix_bound v s hi stream hb n c h
  omega

/-! Non-vacuity: the loop relation is inhabited — x-user-defined, `A B 80`, four-byte UTF-8
destination: the first `last` call writes `A B` and stops with an admissible `OutputFull` (2 written,
3 asked for), the second call ends the stream: two calls, `2 ≤ 3 + 0 + 6`. -/
example : DLoop userDefinedFam () [0x41, 0x42, 0x80] 2 0 :=
  DLoop.lastStep (F := userDefinedFam) .utf8 () [0x41, 0x42, 0x80] (.full 2) 4 1 0 (by decide) (by decide)
    ⟨by decide, by intro _; decide, by
      intro l a h
      have hr : (call userDefinedFam .utf8 () [0x41, 0x42, 0x80] true (.full 2)).res = .outputFull := by decide
      rw [hr] at h; cases h⟩
    (DLoop.final (F := userDefinedFam) .utf8 () [0x80] .unlimited (by decide))

/-- and its proper prefix: one call made, the stream not finished -/
example : DLoopPre userDefinedFam () [0x41, 0x42, 0x80] 1 0 :=
  DLoopPre.lastStep (F := userDefinedFam) .utf8 () [0x41, 0x42, 0x80] (.full 2) 4 0 0 (by decide) (by decide)
    ⟨by decide, by intro _; decide, by
      intro l a h
      have hr : (call userDefinedFam .utf8 () [0x41, 0x42, 0x80] true (.full 2)).res = .outputFull := by decide
      rw [hr] at h; cases h⟩
    (DLoopPre.start _ _)

end EncodingRs.Thm.C08Loop
