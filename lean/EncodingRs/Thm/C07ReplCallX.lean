import EncodingRs.Thm.C07LifeRepl
import EncodingRs.Model.ReplCall
/-!
The executable `Model.Decoder.replCallX` run by the driver after its search (`Driver/Ops/Dec.lean`,
`checkRepl`) is the function `Decoder.replCall` of the life-cycle theorems.
-/
namespace EncodingRs.Thm.C07ReplCallX
open EncodingRs EncodingRs.Model EncodingRs.Thm.C07

def toTuple {F : Fam} (t : DReplRes F) : Res × Nat × List Nat × Bool × Decoder F := (t.res, t.read, t.out, t.hadErrors, t.d)

theorem replCallX_eq {F : Fam} (k : Sink) (last : Bool) :
    ∀ (fuel : Nat) (d : Decoder F) (src : List Nat) (bs : List (Budget × Budget)),
      Decoder.replCallX k last fuel d src bs = (Decoder.replCall k last fuel d src bs).map (Option.map toTuple) := by
  intro fuel
  induction fuel with
  | zero => intro d src bs; rfl
  | succ fuel ih =>
    intro d src bs
    rw [Decoder.replCallX, Decoder.replCall]
    cases hr : d.rawCall k src last (bs.headD (.unlimited, .unlimited)).1 (bs.headD (.unlimited, .unlimited)).2 with
    | panic => rfl
    | ok res read out d' inner =>
      simp only
      cases res with
      | malformed l a =>
        simp only
        rw [ih]
        cases Decoder.replCall k last fuel d' (src.drop read) bs.tail with
        | none => rfl
        | some o =>
          cases o with
          | none => rfl
          | some t => rfl
      | inputEmpty => rfl
      | outputFull => rfl

end EncodingRs.Thm.C07ReplCallX
