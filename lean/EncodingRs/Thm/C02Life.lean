import EncodingRs.Thm.C02
import EncodingRs.Thm.C10Enc
/-!
# C02 lifted through the BOM life cycle

`history_eq_ref` (Thm/C02.lean) is about the variant decoders.  Here the same statement for the
public `Decoder` (`Model.Decoder.rawCall`: BOM sniffing / removal / off around a variant decoder):
two protocol-following histories of `Decoder` calls over the same stream and the same BOM mode — any
cuts (also inside the potential BOM, empty chunks, an empty final call), any stop decisions of the
inner calls (capacities, fast paths), either sink per call — report the same events (scalar values,
absolute malformed spans) and end with the same `encoding()`.

Side condition carried by a history (`C10.DHist`): a `BB` left pending by an `OutputFull` /
`Malformed` replay (state `ConvertingWithPendingBB`) is replayable (`ReplayOk`; see Thm/C10.lean:
proved under rank 0).  Everything else (`hfin`, `ReplayOk` in the `Seen…` states) is proved in
Thm/C10Final.lean.
-/
namespace EncodingRs.Thm.C02
open EncodingRs EncodingRs.Model EncodingRs.Lemmas.Core EncodingRs.Lemmas.FamLaws EncodingRs.Lemmas.Life
open EncodingRs.Thm.C10

/-- **C02 for the `Decoder`**: two histories over the same stream from a decoder as made by
`new_decoder` / `new_decoder_with_bom_removal` / `new_decoder_without_bom_handling` agree on the
events and on the final `encoding()`; both are the documented ones (`dref`, `drefTag`). -/
theorem decoder_histories_agree (v : Gen.Variant) (nom : Nominal) (bom : BomHandling) (stream : List Nat)
    (e₁ e₂ : List Ev) (d₁ d₂ : Decoder (famOfVariant v))
    (h₁ : DHist (Decoder.new (famOfVariant v) nom bom) 0 stream e₁ d₁)
    (h₂ : DHist (Decoder.new (famOfVariant v) nom bom) 0 stream e₂ d₂) :
    e₁ = e₂ ∧ curTag d₁.cur = curTag d₂.cur ∧
    e₁ = dref (Decoder.new (famOfVariant v) nom bom) stream 0 ∧
    curTag d₁.cur = drefTag (Decoder.new (famOfVariant v) nom bom) stream := by
  have a₁ := new_decoder_history v nom bom stream e₁ d₁ h₁
  have a₂ := new_decoder_history v nom bom stream e₂ d₂ h₂
  have t₁ := dhist_tag _ 0 stream e₁ d₁ h₁
  have t₂ := dhist_tag _ 0 stream e₂ d₂ h₂
  exact ⟨a₁.trans a₂.symm, t₁.trans t₂.symm, a₁, t₁⟩

/-- the same from any fresh life-cycle state (mid-sniffing included), for any family with the basic
facts `FamOk` -/
theorem decoder_histories_agree_from {F : Fam} (H : FamOk F) (d : Decoder F) (pos : Nat) (rem : List Nat)
    (e₁ e₂ : List Ev) (d₁ d₂ : Decoder F) (hw : withheld d.life ≤ pos) (hf : Fresh d)
    (h₁ : DHist d pos rem e₁ d₁) (h₂ : DHist d pos rem e₂ d₂) :
    e₁ = e₂ ∧ curTag d₁.cur = curTag d₂.cur := by
  refine ⟨?_, ?_⟩
  · rw [dhist_eq_dref H d pos rem e₁ d₁ hw hf h₁, dhist_eq_dref H d pos rem e₂ d₂ hw hf h₂]
  · rw [dhist_tag d pos rem e₁ d₁ h₁, dhist_tag d pos rem e₂ d₂ h₂]

/-- the text (with or without U+FFFD substitution) and the had-errors answer are functions of the
events, hence equally independent of the chunking at the `Decoder` level -/
theorem decoder_text_agree (v : Gen.Variant) (nom : Nominal) (bom : BomHandling) (stream : List Nat)
    (e₁ e₂ : List Ev) (d₁ d₂ : Decoder (famOfVariant v))
    (h₁ : DHist (Decoder.new (famOfVariant v) nom bom) 0 stream e₁ d₁)
    (h₂ : DHist (Decoder.new (famOfVariant v) nom bom) 0 stream e₂ d₂) (repl : Bool) :
    textOf repl e₁ = textOf repl e₂ ∧ hadErrors e₁ = hadErrors e₂ := by
  rw [(decoder_histories_agree v nom bom stream e₁ e₂ d₁ d₂ h₁ h₂).1]
  exact ⟨rfl, rfl⟩

/-! Non-vacuity: windows-1252-like single-byte decoder, sniffing, stream `EF BB BF 41`: one call on
the whole stream, and one byte per call — both `DHist`, both end as UTF-8 having said `41`. -/
section demo
private def Fd := singleByteFam (Gen.singleByteTables.getD 19 #[])
private def d0 : Decoder Fd := Decoder.new Fd .other .sniff

example : ∃ dfin, DHist d0 0 [0xEF, 0xBB, 0xBF, 0x41] [Ev.cp 0x41] dfin ∧ curTag dfin.cur = .utf8 := by
  have h : d0.rawCall .utf8 [0xEF, 0xBB, 0xBF, 0x41] true .unlimited .unlimited =
      .ok .inputEmpty 4 [0x41] ⟨.finished, .utf8 utf8Fam.init⟩ [([0x41], .inputEmpty, 0)] := by
    rfl
  exact ⟨_, DHist.final .utf8 d0 0 _ .unlimited .unlimited 4 [0x41] _ _ (fun h => by cases h) h, rfl⟩

example : ∃ dfin, DHist d0 0 ([0xEF] ++ ([0xBB] ++ ([0xBF] ++ [0x41]))) [Ev.cp 0x41] dfin ∧
    curTag dfin.cur = .utf8 := by
  have h1 : d0.rawCall .utf16 [0xEF] false .unlimited .unlimited =
      .ok .inputEmpty 1 [] ⟨.seenUtf8First, .nominal ()⟩ [] := by rfl
  have h2 : (⟨.seenUtf8First, .nominal ()⟩ : Decoder Fd).rawCall .utf16 [0xBB] false .unlimited .unlimited =
      .ok .inputEmpty 1 [] ⟨.seenUtf8Second, .nominal ()⟩ [] := by rfl
  have h3 : (⟨.seenUtf8Second, .nominal ()⟩ : Decoder Fd).rawCall .utf16 [0xBF] false .unlimited .unlimited =
      .ok .inputEmpty 1 [] ⟨.converting, .utf8 utf8Fam.init⟩ [([], .inputEmpty, 0)] := by rfl
  have h4 : (⟨.converting, .utf8 utf8Fam.init⟩ : Decoder Fd).rawCall .utf16 [0x41] true .unlimited .unlimited =
      .ok .inputEmpty 1 [0x41] ⟨.finished, .utf8 utf8Fam.init⟩ [([0x41], .inputEmpty, 0)] := by rfl
  refine ⟨(⟨.finished, .utf8 utf8Fam.init⟩ : Decoder Fd), ?_, rfl⟩
  have s4 := DHist.final .utf16 _ 3 [0x41] .unlimited .unlimited 1 [0x41] _ _ (fun h => by cases h) h4
  have s3 := DHist.chunkStep .utf16 _ 2 [0xBF] [0x41] .unlimited .unlimited .inputEmpty 1 [] _ _ _ _
    (fun h => by cases h) h3 s4
  have s2 := DHist.chunkStep .utf16 _ 1 [0xBB] ([0xBF] ++ [0x41]) .unlimited .unlimited .inputEmpty 1 [] _ _ _ _
    (fun h => by cases h) h2 s3
  have s1 := DHist.chunkStep .utf16 d0 0 [0xEF] ([0xBB] ++ ([0xBF] ++ [0x41])) .unlimited .unlimited .inputEmpty 1 [] _ _ _ _
    (fun h => by cases h) h1 s2
  exact s1
end demo

end EncodingRs.Thm.C02
