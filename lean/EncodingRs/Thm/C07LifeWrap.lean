import EncodingRs.Thm.C07Life
/-!
# C07 — the life-cycle arms of `Decoder::max_*` never answer a wrapped number

`maxLen_le_usizeMax`: whatever `Model.Decoder.maxLen` answers in any life-cycle state fits `usize`
(for a byte count that does): every arm is built from the checked operations `U.addU` / `U.addO` /
`U.mulU` / `U.mulO` / `U.divO`, `max`, and the variant queries (`variantMax_le_usizeMax`).
-/
namespace EncodingRs.Thm.C07
open EncodingRs EncodingRs.Model EncodingRs.Lemmas.MaxLenVariant EncodingRs.Gen.MaxLen

theorem curMax_le_usizeMax (q : Query) (v : Gen.Variant) (c : Cur (famOfVariant v)) (n Q : Nat)
    (hn : n ≤ usizeMax) (h : curMax q v c n = some Q) : Q ≤ usizeMax := by
  cases c with
  | nominal s => exact variantMax_le_usizeMax q v s n Q hn h
  | utf8 s => exact variantMax_le_usizeMax q .utf8 s n Q hn h
  | utf16be s => exact variantMax_le_usizeMax q .utf16Be s n Q hn h
  | utf16le s => exact variantMax_le_usizeMax q .utf16Le s n Q hn h

theorem utf8Bom_le_usizeMax (q : Query) (x u : Nat) (h : utf8BomBound q x = some u) : u ≤ usizeMax := by
  cases q with
  | utf8 => obtain ⟨b, _, _, hu⟩ := addO_some h; exact hu
  | utf8NoRepl => exact (addU_some h).2
  | utf16 => exact (addU_some h).2

theorem utf16Bom_le_usizeMax (q : Query) (x u : Nat) (h : utf16BomBound q x = some u) : u ≤ usizeMax := by
  cases q <;> (obtain ⟨b, _, _, hu⟩ := addO_some h; exact hu)

/-- **no wrapped number from the life-cycle arms** -/
theorem maxLen_le_usizeMax (q : Query) (v : Gen.Variant) (nom : Nominal) (d : Decoder (famOfVariant v))
    (n Q : Nat) (hn : n ≤ usizeMax) (h : Decoder.maxLen q v nom d n = some Q) : Q ≤ usizeMax := by
  have seen8 : ∀ (life : Life) (c : Cur (famOfVariant v)), life = .seenUtf8First ∨ life = .seenUtf8Second →
      Decoder.maxLen q v nom ⟨life, c⟩ n = some Q → Q ≤ usizeMax := by
    intro life c hl hq
    rcases hl with rfl | rfl <;>
    · simp only [Decoder.maxLen] at hq
      cases hs : U.addU n 2 with
      | none => simp [hs] at hq
      | some sum =>
        have hsum := (addU_some hs).2
        simp only [hs] at hq
        cases h8 : utf8BomBound q sum with
        | none => simp [h8] at hq
        | some u8 =>
          simp only [h8] at hq
          have b8 := utf8Bom_le_usizeMax q sum u8 h8
          split at hq
          · simp only [Option.some.injEq] at hq; omega
          · cases hnb : curMax q v c sum with
            | none => simp [hnb] at hq
            | some nb =>
              simp only [hnb, Option.some.injEq] at hq
              have := curMax_le_usizeMax q v c sum nb hsum hnb
              omega
  have seen16 : ∀ (life : Life) (c : Cur (famOfVariant v)), life = .seenUtf16BeFirst ∨ life = .seenUtf16LeFirst →
      Decoder.maxLen q v nom ⟨life, c⟩ n = some Q → Q ≤ usizeMax := by
    intro life c hl hq
    rcases hl with rfl | rfl <;>
    · simp only [Decoder.maxLen] at hq
      cases hs : U.addU n 2 with
      | none => simp [hs] at hq
      | some sum =>
        have hsum := (addU_some hs).2
        simp only [hs] at hq
        cases h16 : utf16BomBound q sum with
        | none => simp [h16] at hq
        | some u16 =>
          simp only [h16] at hq
          have b16 := utf16Bom_le_usizeMax q sum u16 h16
          split at hq
          · simp only [Option.some.injEq] at hq; omega
          · cases hnb : curMax q v c sum with
            | none => simp [hnb] at hq
            | some nb =>
              simp only [hnb, Option.some.injEq] at hq
              have := curMax_le_usizeMax q v c sum nb hsum hnb
              omega
  obtain ⟨life, c⟩ := d
  cases life
  case converting => exact curMax_le_usizeMax q v c n Q hn h
  case atUtf8Start => exact curMax_le_usizeMax q v c n Q hn h
  case atUtf16BeStart => exact curMax_le_usizeMax q v c n Q hn h
  case atUtf16LeStart => exact curMax_le_usizeMax q v c n Q hn h
  case finished => simp [Decoder.maxLen] at h
  case seenUtf8First => exact seen8 _ c (Or.inl rfl) h
  case seenUtf8Second => exact seen8 _ c (Or.inr rfl) h
  case seenUtf16BeFirst => exact seen16 _ c (Or.inl rfl) h
  case seenUtf16LeFirst => exact seen16 _ c (Or.inr rfl) h
  case convertingWithPendingBB =>
    simp only [Decoder.maxLen] at h
    cases hs : U.addU n 2 with
    | none => simp [hs] at h
    | some sum =>
      have hsum := (addU_some hs).2
      simp only [hs] at h
      exact curMax_le_usizeMax q v c sum Q hsum h
  case atStart =>
    simp only [Decoder.maxLen] at h
    cases h8 : utf8BomBound q n with
    | none => simp [h8] at h
    | some u8 =>
      cases h16 : utf16BomBound q n with
      | none => simp [h8, h16] at h
      | some u16 =>
        simp only [h8, h16] at h
        have b8 := utf8Bom_le_usizeMax q n u8 h8
        have b16 := utf16Bom_le_usizeMax q n u16 h16
        split at h
        · simp only [Option.some.injEq] at h; omega
        · cases hnb : curMax q v c n with
          | none => simp [hnb] at h
          | some nb =>
            simp only [hnb, Option.some.injEq] at h
            have := curMax_le_usizeMax q v c n nb hn hnb
            omega

/-- overflow: near `usize::MAX` the arms answer `None` (sniffing windows-1252 decoder, `EF BB` withheld) -/
example :
    Decoder.maxLen .utf8 (.singleByte 19 160 32 96) .other ⟨.seenUtf8Second, .nominal ()⟩ (usizeMax / 3) = none ∧
    Decoder.maxLen .utf16 (.singleByte 19 160 32 96) .other ⟨.seenUtf8Second, .nominal ()⟩ (usizeMax - 1) = none ∧
    Decoder.maxLen .utf16 (.singleByte 19 160 32 96) .other ⟨.seenUtf8Second, .nominal ()⟩ (usizeMax - 3)
      = some usizeMax := by
  decide +kernel

end EncodingRs.Thm.C07
