import EncodingRs.Lemmas.C17.Big5LessSlow
import EncodingRs.Lemmas.C17.Big5Fast0
import EncodingRs.Lemmas.C17.Big5Fast1
import EncodingRs.Lemmas.C17.Big5Fast2
import EncodingRs.Lemmas.C17.Big5Fast3
import EncodingRs.Lemmas.C17.ShiftJisLessSlow
import EncodingRs.Lemmas.C17.ShiftJisFast
import EncodingRs.Lemmas.C17.EucJpLessSlow
import EncodingRs.Lemmas.C17.EucJpFast
import EncodingRs.Lemmas.C17.EucKrFast
import EncodingRs.Lemmas.C17.GbLessSlowFalse
import EncodingRs.Lemmas.C17.GbLessSlowTrue
import EncodingRs.Lemmas.C17.GbFastFalse
import EncodingRs.Lemmas.C17.GbFastTrue
import EncodingRs.Lemmas.C17.IsoLessSlowAscii
import EncodingRs.Lemmas.C17.IsoLessSlowRoman
import EncodingRs.Lemmas.C17.IsoLessSlowJis0208
import EncodingRs.Lemmas.C17.IsoFastAscii
import EncodingRs.Lemmas.C17.IsoFastRoman
import EncodingRs.Lemmas.C17.IsoFastJis0208
import EncodingRs.Lemmas.C17.L1JisSjis
import EncodingRs.Lemmas.C17.L1JisEuc
import EncodingRs.Lemmas.C17.L1JisIso
import EncodingRs.Lemmas.C17.L1Gb
import EncodingRs.Lemmas.C17.L1Big5
import EncodingRs.Lemmas.C17.KanjiSjisFast
import EncodingRs.Lemmas.C17.KanjiSjisLessSlow
import EncodingRs.Lemmas.C17.KanjiEucFast
import EncodingRs.Lemmas.C17.KanjiEucLessSlow
import EncodingRs.Lemmas.C17.KanjiIsoFast
import EncodingRs.Lemmas.C17.KanjiIsoLessSlow
import EncodingRs.Lemmas.C17.KanjiMapped
import EncodingRs.Lemmas.C17.KanjiMappedLessSlow
import EncodingRs.Lemmas.C17.Hangul
import EncodingRs.Lemmas.C17.Hanja
import EncodingRs.Lemmas.C17.HanziFast
import EncodingRs.Lemmas.C17.HanziLessSlow
import EncodingRs.Lemmas.C17.Sorted
import EncodingRs.Thm.C14
import EncodingRs.Thm.C16
/-!
# C17 — observable behaviour is identical across build configurations

(i) **Feature-gated tables and code** (`less-slow-*`, `fast-*`).  `Model/DataEncGated.lean`
models every feature-gated variant as written, over the feature-gated tables that the
translator regenerates from `/repo/src/data.rs` on every run.  Here:

* *lookup level*: each gated lookup equals the default one for every input of its domain
  (`jis0208_level1_kanji_*_encode`, `gb2312_level1_hanzi_encode`: every `u16`; the directly
  indexed `fast-*` lookups: every index their caller can pass; Big5: see `big5_level1_*`,
  where the variants deliberately divide the work differently between
  `big5_level1_hanzi_encode` and `big5_other_encode`);
* *encoder level*: the per-character function of every affected encoder (Big5, EUC-KR,
  EUC-JP, Shift_JIS, GBK, gb18030, ISO-2022-JP in each of its three states) built with the
  gated pieces is the SAME FUNCTION (for every `c : Nat`, hence every `char`) as the one the
  rest of the framework is about (`Model/EncFam.lean`, `efamOfVariant`), so every theorem
  and every correspondence result about the default build is about these builds too
  (`efam_*`: the encoder families are equal).

All table facts are complete evaluations (`native_decide`, one per file in `Lemmas/C17/`,
65 536 inputs each); nothing is sampled.

(ii) **Kernel shapes / validator paths** (`simd-accel`, SIMD vs scalar UTF-8 validation):
re-exports of the stride-independence theorems of C14 / C16 (`c17_validator_paths_agree_*`).
What is NOT proved (assumptions, covered by the cross-configuration run of `./check C17`
only): the lane-wise semantics of `core::simd`, `multiversion` run-time dispatch and CPU
feature detection, and the external `simdutf8` validator.
-/
namespace EncodingRs.Thm.C17
open EncodingRs EncodingRs.Model EncodingRs.Lemmas.C17

/-! ## (i) lookup level -/

/-- `jis0208_level1_kanji_shift_jis_encode`: binary search over `JIS0208_LEVEL1_KANJI_CODE_POINTS` +
`JIS0208_LEVEL1_KANJI_SHIFT_JIS_BYTES` (less-slow-kanji-encode) = linear search + pointer arithmetic (default),
for every `u16` -/
theorem jis0208_level1_kanji_shift_jis_encode_lessslow (bmp : Nat) (h : bmp < 65536) :
    jis0208Level1KanjiShiftJisEncodeLessSlow bmp = jis0208Level1KanjiShiftJisEncode bmp :=
  agree16_spec l1_jis_sjis_check bmp h

/-- … composed with `shift_jis_to_euc_jp` = the default EUC-JP arithmetic, for every `u16` -/
theorem jis0208_level1_kanji_euc_jp_encode_lessslow (bmp : Nat) (h : bmp < 65536) :
    jis0208Level1KanjiEucJpEncodeLessSlow bmp = jis0208Level1KanjiEucJpEncode bmp :=
  agree16_spec l1_jis_euc_check bmp h

/-- … composed with `shift_jis_to_iso_2022_jp` = the default ISO-2022-JP arithmetic, for every `u16` -/
theorem jis0208_level1_kanji_iso_2022_jp_encode_lessslow (bmp : Nat) (h : bmp < 65536) :
    jis0208Level1KanjiIso2022JpEncodeLessSlow bmp = jis0208Level1KanjiIso2022JpEncode bmp :=
  agree16_spec l1_jis_iso_check bmp h

/-- `gb2312_level1_hanzi_encode`: less-slow-gb-hanzi-encode = default, for every `u16` -/
theorem gb2312_level1_hanzi_encode_lessslow (bmp : Nat) (h : bmp < 65536) :
    gb2312Level1HanziEncodeLessSlow bmp = gb2312Level1HanziEncode bmp :=
  agree16_spec l1_gb_check bmp h

/-- `big5_level1_hanzi_encode`, less-slow: whatever it answers, the default answers the same.
(The converse fails for exactly the code points of pointers 10896..10950, which the default finds in its
level-1 scan and the less-slow build through `big5_other_encode`: see `big5_lessslow_bmp`.) -/
theorem big5_level1_hanzi_encode_lessslow (bmp : Nat) (h : bmp < 65536) (lt : Nat × Nat)
    (hl : big5Level1HanziEncodeLessSlow bmp = some lt) : big5Level1HanziEncode bmp = some lt := by
  have := all_range l1_big5_lessslow_check bmp h
  simp only [hl] at this
  exact of_decide_eq_true this

/-- `big5_level1_hanzi_encode`, fast (direct index, ALL unified ideographs): whatever the default answers,
the fast variant answers the same -/
theorem big5_level1_hanzi_encode_fast (bmp : Nat) (h : bmp < 65536) (lt : Nat × Nat)
    (hl : big5Level1HanziEncode bmp = some lt) : big5Level1HanziEncodeFast bmp = some lt := by
  have := all_range l1_big5_fast_check bmp h
  simp only [hl] at this
  exact of_decide_eq_true this

/-- `encode_kanji` of shift_jis.rs: fast (`jis0208_kanji_shift_jis_encode`, direct index into
`JIS0208_KANJI_BYTES`, `lead | 0x80`) = default, on the whole range it is called with -/
theorem shift_jis_encode_kanji_fast (bmp : Nat) (h1 : 0x4E00 ≤ bmp) (h2 : bmp ≤ 0x9FA0) :
    shiftJisEncodeKanjiFast bmp = shiftJisEncodeKanji bmp :=
  agreeFrom_spec kanji_sjis_fast_check bmp h1 (by omega)
theorem shift_jis_encode_kanji_lessslow (bmp : Nat) (h1 : 0x4E00 ≤ bmp) (h2 : bmp ≤ 0x9FA0) :
    shiftJisEncodeKanjiLessSlow bmp = shiftJisEncodeKanji bmp :=
  agreeFrom_spec kanji_sjis_lessslow_check bmp h1 (by omega)

/-- `encode_kanji` of euc_jp.rs (fast: incl. the IBM-kanji `position(..).unwrap()` path and `shift_jis_to_euc_jp`) -/
theorem euc_jp_encode_kanji_fast (bmp : Nat) (h1 : 0x4E00 ≤ bmp) (h2 : bmp ≤ 0x9FA0) :
    eucJpEncodeKanjiFast bmp = eucJpEncodeKanji bmp :=
  agreeFrom_spec kanji_euc_fast_check bmp h1 (by omega)
theorem euc_jp_encode_kanji_lessslow (bmp : Nat) (h1 : 0x4E00 ≤ bmp) (h2 : bmp ≤ 0x9FA0) :
    eucJpEncodeKanjiLessSlow bmp = eucJpEncodeKanji bmp :=
  agreeFrom_spec kanji_euc_lessslow_check bmp h1 (by omega)

/-- `encode_kanji` of iso_2022_jp.rs -/
theorem iso_2022_jp_encode_kanji_fast (bmp : Nat) (h1 : 0x4E00 ≤ bmp) (h2 : bmp ≤ 0x9FA0) :
    iso2022JpEncodeKanjiFast bmp = iso2022JpEncodeKanji bmp :=
  agreeFrom_spec kanji_iso_fast_check bmp h1 (by omega)
theorem iso_2022_jp_encode_kanji_lessslow (bmp : Nat) (h1 : 0x4E00 ≤ bmp) (h2 : bmp ≤ 0x9FA0) :
    iso2022JpEncodeKanjiLessSlow bmp = iso2022JpEncodeKanji bmp :=
  agreeFrom_spec kanji_iso_lessslow_check bmp h1 (by omega)

/-- `is_kanji_mapped` of iso_2022_jp.rs -/
theorem is_kanji_mapped_fast (bmp : Nat) (h1 : 0x4E00 ≤ bmp) (h2 : bmp ≤ 0x9FA0) :
    isKanjiMappedFast bmp = isKanjiMapped bmp :=
  agreeFrom_spec kanji_mapped_fast_check bmp h1 (by omega)
theorem is_kanji_mapped_lessslow (bmp : Nat) (h1 : 0x4E00 ≤ bmp) (h2 : bmp ≤ 0x9FA0) :
    isKanjiMappedLessSlow bmp = isKanjiMapped bmp :=
  agreeFrom_spec kanji_mapped_lessslow_check bmp h1 (by omega)

/-- `ksx1001_encode_hangul` / `cp949_hangul_encode` (fast-hangul-encode: direct index into
`CP949_HANGUL_BYTES`) = default (binary search in KS X 1001, else the CP949 range arithmetic), for every
Hangul syllable -/
theorem ksx1001_encode_hangul_fast (bmp : Nat) (h1 : 0xAC00 ≤ bmp) (h2 : bmp < 0xD7A4) :
    ksx1001EncodeHangulFast bmp (bmp - 0xAC00) = ksx1001EncodeHangul bmp :=
  agreeFrom_spec hangul_fast_check bmp h1 (by omega)

/-- `ksx1001_encode_hanja` (fast-hanja-encode) = default on both ranges it is called with -/
theorem ksx1001_encode_hanja_fast (bmp : Nat)
    (h : (0x4E00 ≤ bmp ∧ bmp < 0x9F9D) ∨ (0xF900 ≤ bmp ∧ bmp < 0xFA0C)) :
    ksx1001EncodeHanjaFast bmp = ksx1001EncodeHanja bmp := by
  rcases h with ⟨h1, h2⟩ | ⟨h1, h2⟩
  · exact agreeFrom_spec hanja_unified_fast_check bmp h1 (by omega)
  · exact agreeFrom_spec hanja_compat_fast_check bmp h1 (by omega)

/-- `encode_hanzi` of gb18030.rs: fast (`gbk_hanzi_encode`, direct index into `GBK_HANZI_BYTES`) = default
(level-1 scan, level-2 scan, GBK range arithmetic), for every unified ideograph it is called with -/
theorem gb_encode_hanzi_fast (bmp : Nat) (h1 : 0x4E00 ≤ bmp) (h2 : bmp < 0x9FA6) :
    gbEncodeHanziFast bmp (bmp - 0x4E00) = gbEncodeHanzi bmp :=
  agreeFrom_spec hanzi_fast_check bmp h1 (by omega)
theorem gb_encode_hanzi_lessslow (bmp : Nat) (h1 : 0x4E00 ≤ bmp) (h2 : bmp < 0x9FA6) :
    gbEncodeHanziLessSlow bmp (bmp - 0x4E00) = gbEncodeHanzi bmp :=
  agreeFrom_spec hanzi_lessslow_check bmp h1 (by omega)

/-- precondition of the three `binary_search` calls (strictly increasing code-point arrays, byte-pair arrays
of the same length) -/
theorem gated_code_points_sorted :
    strictlySorted Gen.big5Level1HanziCodePoints = true ∧ strictlySorted Gen.jis0208Level1KanjiCodePoints = true
    ∧ strictlySorted Gen.gb2312Level1HanziCodePoints = true
    ∧ Gen.big5Level1HanziCodePoints.size = Gen.big5Level1HanziBytes.size
    ∧ Gen.jis0208Level1KanjiCodePoints.size = Gen.jis0208Level1KanjiShiftJisBytes.size
    ∧ Gen.gb2312Level1HanziCodePoints.size = Gen.gb2312Level1HanziBytes.size := by
  have h := code_points_sorted_check
  simp only [Bool.and_eq_true, decide_eq_true_eq] at h
  obtain ⟨⟨⟨⟨⟨a, b⟩, c⟩, d⟩, e⟩, f⟩ := h
  exact ⟨a, b, c, d, e, f⟩

/-- the directly indexed tables are at least as long as the index ranges of their callers (no index panic;
`BIG5_UNIFIED_IDEOGRAPH_BYTES` is guarded by its own length test) -/
theorem gated_direct_table_sizes :
    0x9FA1 - 0x4E00 ≤ Gen.jis0208KanjiBytes.size ∧ 0xD7A4 - 0xAC00 ≤ Gen.cp949HangulBytes.size
    ∧ 0x9F9D - 0x4E00 ≤ Gen.ksx1001UnifiedHanjaBytes.size ∧ 0xFA0C - 0xF900 ≤ Gen.ksx1001CompatibilityHanjaBytes.size
    ∧ 0x9FA6 - 0x4E00 ≤ Gen.gbkHanziBytes.size := by
  have h := direct_table_sizes_check
  simp only [Bool.and_eq_true, decide_eq_true_eq] at h
  obtain ⟨⟨⟨⟨a, b⟩, c⟩, d⟩, e⟩ := h
  exact ⟨a, b, c, d, e⟩

/-! ## (i) encoder level: the per-character functions are the same functions -/

/-- the Big5 `$bmp_body`, less-slow = default, for every `u16` -/
theorem big5_lessslow_bmp (bmp : Nat) (h : bmp < 65536) : big5EncodeBmpLessSlow bmp = big5EncodeBmp bmp := by
  have hc := all_range big5_lessslow_check bmp h
  rw [Bool.or_eq_true, decide_eq_true_eq, decide_eq_true_eq] at hc
  rcases hc with hc | hc
  · show big5EncodeBmpOf (big5Level1HanziEncodeLessSlow bmp) (big5EncodePointer bmp) = big5EncodeBmp bmp
    rw [hc]
    rfl
  · exact hc

theorem big5_lessslow_char (c : Nat) : big5EncodeCharLessSlow c = big5EncodeChar c := by
  unfold big5EncodeCharLessSlow big5EncodeChar
  by_cases h1 : c < 0x80
  · simp only [if_pos h1]
  · by_cases h2 : c > 0xFFFF
    · simp only [if_neg h1, if_pos h2]
    · simp only [if_neg h1, if_neg h2]
      exact big5_lessslow_bmp c (by omega)

/-- outside the `u16` range the feature-selected code is not reached -/
theorem big5_with_astral (l : Nat → Option (Nat × Nat)) (o : Nat → Option Nat) (c : Nat) (h : ¬ c < 65536) :
    big5EncodeCharWith l o c = big5EncodeChar c := by
  unfold big5EncodeCharWith big5EncodeChar
  have h1 : ¬ c < 0x80 := by omega
  have h2 : c > 0xFFFF := by omega
  simp only [if_neg h1, if_pos h2]

theorem big5_fast_char (c : Nat) : big5EncodeCharFast c = big5EncodeChar c := by
  by_cases h : c < 65536
  · exact agreeQuarter_spec big5_fast_check0 big5_fast_check1 big5_fast_check2 big5_fast_check3 c h
  · exact big5_with_astral _ _ c h

theorem eucKr_with_astral (a : Nat → Nat → Nat × Nat) (b : Nat → Option (Nat × Nat)) (c : Nat) (h : ¬ c < 65536) :
    eucKrEncodeCharWith a b c = eucKrEncodeChar c := by
  unfold eucKrEncodeCharWith eucKrEncodeChar
  have h1 : ¬ c < 0x80 := by omega
  have h2 : c > 0xFFFF := by omega
  simp only [if_neg h1, if_pos h2]

theorem eucKr_fast_char (c : Nat) : eucKrEncodeCharFast c = eucKrEncodeChar c := by
  by_cases h : c < 65536
  · exact agree16_spec eucKr_fast_check c h
  · exact eucKr_with_astral _ _ c h

theorem eucJp_with_astral (k : Nat → Option (Nat × Nat)) (c : Nat) (h : ¬ c < 65536) :
    eucJpEncodeCharWith k c = eucJpEncodeChar c := by
  unfold eucJpEncodeCharWith eucJpEncodeChar
  have h1 : ¬ c < 0x80 := by omega
  have h2 : c > 0xFFFF := by omega
  simp only [if_neg h1, if_pos h2]

theorem eucJp_lessslow_char (c : Nat) : eucJpEncodeCharLessSlow c = eucJpEncodeChar c := by
  by_cases h : c < 65536
  · exact agree16_spec eucJp_lessslow_check c h
  · exact eucJp_with_astral _ c h

theorem eucJp_fast_char (c : Nat) : eucJpEncodeCharFast c = eucJpEncodeChar c := by
  by_cases h : c < 65536
  · exact agree16_spec eucJp_fast_check c h
  · exact eucJp_with_astral _ c h

theorem shiftJis_with_astral (k : Nat → Option (Nat × Nat)) (c : Nat) (h : ¬ c < 65536) :
    shiftJisEncodeCharWith k c = shiftJisEncodeChar c := by
  unfold shiftJisEncodeCharWith shiftJisEncodeChar
  have h1 : ¬ c < 0x80 := by omega
  have h2 : c > 0xFFFF := by omega
  simp only [if_neg h1, if_pos h2]

theorem shiftJis_lessslow_char (c : Nat) : shiftJisEncodeCharLessSlow c = shiftJisEncodeChar c := by
  by_cases h : c < 65536
  · exact agree16_spec shiftJis_lessslow_check c h
  · exact shiftJis_with_astral _ c h

theorem shiftJis_fast_char (c : Nat) : shiftJisEncodeCharFast c = shiftJisEncodeChar c := by
  by_cases h : c < 65536
  · exact agree16_spec shiftJis_fast_check c h
  · exact shiftJis_with_astral _ c h

theorem gb_with_astral (hz : Nat → Nat → Nat × Nat) (extended : Bool) (c : Nat) (h : ¬ c < 65536) :
    gbEncodeCharWith hz extended c = gbEncodeChar extended c := by
  unfold gbEncodeCharWith gbEncodeChar
  have h1 : ¬ c < 0x80 := by omega
  have h2 : c > 0xFFFF := by omega
  simp only [if_neg h1, if_pos h2]

/-- GBK (`extended = false`) and gb18030 (`extended = true`) -/
theorem gb_lessslow_char (extended : Bool) (c : Nat) : gbEncodeCharLessSlow extended c = gbEncodeChar extended c := by
  by_cases h : c < 65536
  · cases extended
    · exact agree16_spec gb_lessslow_false_check c h
    · exact agree16_spec gb_lessslow_true_check c h
  · exact gb_with_astral _ extended c h

theorem gb_fast_char (extended : Bool) (c : Nat) : gbEncodeCharFast extended c = gbEncodeChar extended c := by
  by_cases h : c < 65536
  · cases extended
    · exact agree16_spec gb_fast_false_check c h
    · exact agree16_spec gb_fast_true_check c h
  · exact gb_with_astral _ extended c h

/-- outside the `u16` range the ISO-2022-JP `body` block does not reach the feature-selected code -/
theorem iso_with_astral (m : Nat → Bool) (k : Nat → Option (Nat × Nat)) (s : IsoEncSt) (c : Nat) (h : ¬ c < 65536) :
    isoEncStepWith m k s c = isoEncStep s c := by
  have h1 : ¬ (c = 0x0E ∨ c = 0x0F ∨ c = 0x1B) := by omega
  have h2 : ¬ c ≤ 0x7F := by omega
  have h3 : ¬ (c = 0xA5 ∨ c = 0x203E) := by omega
  have h4 : c > 0xFFFF := by omega
  have h5 : ¬ (c = 0x5C ∨ c = 0x7E) := by omega
  have h6 : ¬ c = 0xA5 := by omega
  have h7 : ¬ c = 0x203E := by omega
  cases s <;>
  · unfold isoEncStepWith isoEncStep
    simp only [if_neg h1, if_neg h2, if_neg h3, if_pos h4, if_neg h5, if_neg h6, if_neg h7]

/-- the ISO-2022-JP step (all three encoder states), less-slow = default -/
theorem iso_lessslow_step (s : IsoEncSt) (c : Nat) : isoEncStepLessSlow s c = isoEncStep s c := by
  by_cases h : c < 65536
  · cases s
    · exact agree16_spec iso_lessslow_ascii_check c h
    · exact agree16_spec iso_lessslow_roman_check c h
    · exact agree16_spec iso_lessslow_jis0208_check c h
  · exact iso_with_astral _ _ s c h

/-- the ISO-2022-JP step (all three encoder states), fast = default -/
theorem iso_fast_step (s : IsoEncSt) (c : Nat) : isoEncStepFast s c = isoEncStep s c := by
  by_cases h : c < 65536
  · cases s
    · exact agree16_spec iso_fast_ascii_check c h
    · exact agree16_spec iso_fast_roman_check c h
    · exact agree16_spec iso_fast_jis0208_check c h
  · exact iso_with_astral _ _ s c h

/-! ### corollaries: the encoder families of the framework ARE the families of the other builds -/

theorem efam_big5_lessslow : statelessEFam big5EncodeCharLessSlow 2 = big5EFam :=
  congrArg (statelessEFam · 2) (funext big5_lessslow_char)
theorem efam_big5_fast : statelessEFam big5EncodeCharFast 2 = big5EFam :=
  congrArg (statelessEFam · 2) (funext big5_fast_char)
theorem efam_eucKr_fast : statelessEFam eucKrEncodeCharFast 2 = eucKrEFam :=
  congrArg (statelessEFam · 2) (funext eucKr_fast_char)
theorem efam_eucJp_lessslow : statelessEFam eucJpEncodeCharLessSlow 2 = eucJpEFam :=
  congrArg (statelessEFam · 2) (funext eucJp_lessslow_char)
theorem efam_eucJp_fast : statelessEFam eucJpEncodeCharFast 2 = eucJpEFam :=
  congrArg (statelessEFam · 2) (funext eucJp_fast_char)
theorem efam_shiftJis_lessslow : statelessEFam shiftJisEncodeCharLessSlow 2 = shiftJisEFam :=
  congrArg (statelessEFam · 2) (funext shiftJis_lessslow_char)
theorem efam_shiftJis_fast : statelessEFam shiftJisEncodeCharFast 2 = shiftJisEFam :=
  congrArg (statelessEFam · 2) (funext shiftJis_fast_char)
theorem efam_gb_lessslow (extended : Bool) : statelessEFam (gbEncodeCharLessSlow extended) 4 = gbEFam extended :=
  congrArg (statelessEFam · 4) (funext (gb_lessslow_char extended))
theorem efam_gb_fast (extended : Bool) : statelessEFam (gbEncodeCharFast extended) 4 = gbEFam extended :=
  congrArg (statelessEFam · 4) (funext (gb_fast_char extended))

/-- per-character step of every affected encoder, less-slow build = default build -/
theorem estep_big5_lessslow (s : Unit) (c : Nat) : statelessStep big5EncodeCharLessSlow s c = big5EFam.step s c :=
  congrArg (statelessStep · s c) (funext big5_lessslow_char)
theorem estep_eucJp_lessslow (s : Unit) (c : Nat) : statelessStep eucJpEncodeCharLessSlow s c = eucJpEFam.step s c :=
  congrArg (statelessStep · s c) (funext eucJp_lessslow_char)
theorem estep_shiftJis_lessslow (s : Unit) (c : Nat) :
    statelessStep shiftJisEncodeCharLessSlow s c = shiftJisEFam.step s c :=
  congrArg (statelessStep · s c) (funext shiftJis_lessslow_char)
theorem estep_gb_lessslow (extended : Bool) (s : Unit) (c : Nat) :
    statelessStep (gbEncodeCharLessSlow extended) s c = (gbEFam extended).step s c :=
  congrArg (statelessStep · s c) (funext (gb_lessslow_char extended))
theorem estep_iso2022jp_lessslow (s : IsoEncSt) (c : Nat) : isoEncStepLessSlow s c = iso2022JpEFam.step s c :=
  iso_lessslow_step s c

/-- per-character step of every affected encoder, fast-legacy-encode build = default build -/
theorem estep_big5_fast (s : Unit) (c : Nat) : statelessStep big5EncodeCharFast s c = big5EFam.step s c :=
  congrArg (statelessStep · s c) (funext big5_fast_char)
theorem estep_eucKr_fast (s : Unit) (c : Nat) : statelessStep eucKrEncodeCharFast s c = eucKrEFam.step s c :=
  congrArg (statelessStep · s c) (funext eucKr_fast_char)
theorem estep_eucJp_fast (s : Unit) (c : Nat) : statelessStep eucJpEncodeCharFast s c = eucJpEFam.step s c :=
  congrArg (statelessStep · s c) (funext eucJp_fast_char)
theorem estep_shiftJis_fast (s : Unit) (c : Nat) : statelessStep shiftJisEncodeCharFast s c = shiftJisEFam.step s c :=
  congrArg (statelessStep · s c) (funext shiftJis_fast_char)
theorem estep_gb_fast (extended : Bool) (s : Unit) (c : Nat) :
    statelessStep (gbEncodeCharFast extended) s c = (gbEFam extended).step s c :=
  congrArg (statelessStep · s c) (funext (gb_fast_char extended))
theorem estep_iso2022jp_fast (s : IsoEncSt) (c : Nat) : isoEncStepFast s c = iso2022JpEFam.step s c :=
  iso_fast_step s c

/-! ## (ii) kernel shapes and validator paths

Re-exports (the proofs are in `Thm/C14.lean` / `Thm/C16.lean`).  ASSUMED, not proved: that a
`core::simd` lane-wise test of a 16-unit vector is the conjunction of the per-unit tests, that
`multiversion` dispatch and CPU feature detection select semantically identical clones, and
that `simdutf8` is a correct validator (hypothesis `hfast` below). -/

/-- whatever block plan a build uses to walk a buffer (16-unit strides of the default build, the
`16, 32, …, 32, 16` shape of `simd-accel`, anything else), the stride scan finds what the unit-by-unit
scan finds: the validators / ASCII kernels of all builds compute the same index -/
theorem c17_validator_paths_agree_any_plan (ok : Nat → Bool) (plan₁ plan₂ : List Nat) (consumed : Nat) (bs : List Nat) :
    Model.Valid.blockScan ok plan₁ consumed bs = Model.Valid.blockScan ok plan₂ consumed bs := by
  rw [C14.stride_scan_any_plan, C14.stride_scan_any_plan]

/-- `Encoding::ascii_valid_up_to`: the default shape and the `simd-accel` shape of `ascii_valid_impl`
return the same index for every buffer -/
theorem c17_validator_paths_agree_ascii (bs : List Nat) :
    Model.Valid.asciiValidUpToSimd bs = Model.Valid.asciiValidUpTo bs := by
  rw [C14.ascii_valid_up_to_simd_spec, C14.ascii_valid_up_to_spec]

/-- `Encoding::utf8_valid_up_to`: the SIMD-validator path (any validator `fast` that is correct whenever it
answers) and the built-in scalar path (`verif_force_scalar_utf8(true)`, `fast` never answering) return the
same index for every byte buffer -/
theorem c17_validator_paths_agree_utf8 (fast : List Nat → Option Nat)
    (hfast : ∀ bs n, fast bs = some n → n = Spec.validUpTo bs) (bs : List Nat) (hb : ∀ b ∈ bs, b < 256) :
    Model.Valid.utf8ValidUpToWith fast bs = Model.Valid.utf8ValidUpTo bs := by
  rw [C14.utf8_valid_up_to_with_fast_spec fast hfast bs hb, C14.utf8_valid_up_to_spec bs hb]

/-- `mem::str_latin1_up_to`: default shape = `simd-accel` shape on every `&str` -/
theorem c17_validator_paths_agree_str_latin1 (bs : List Nat) (hv : Spec.validUtf8 bs = true) :
    Model.Valid.strLatin1UpToSimd bs = Model.Valid.strLatin1UpTo bs := by
  rw [C14.str_latin1_up_to_simd_spec bs hv, C14.str_latin1_up_to_spec bs hv]

/-- `is_ascii` / `is_basic_latin` / `is_utf16_latin1` (C16): the OR-reduction over strides of ANY positive
length (8-unit ALU words, 16-unit SIMD vectors, double strides) answers the same -/
theorem c17_validator_paths_agree_unit_check (stride₁ stride₂ k fuel : Nat) (h1 : 0 < stride₁) (h2 : 0 < stride₂)
    (buf : List Nat) (hf : buf.length ≤ fuel) :
    Model.Bidi.unitCheck stride₁ (2 ^ k) fuel buf = Model.Bidi.unitCheck stride₂ (2 ^ k) fuel buf := by
  rw [C16.unit_check_any_stride stride₁ k fuel h1 buf hf, C16.unit_check_any_stride stride₂ k fuel h2 buf hf]

/- PENDING: (a) the `fast-hangul-encode` / `fast-hanja-encode` features enabled one without the other
(`eucKrEncodeCharFastHangul`, `eucKrEncodeCharFastHanja` of `Model/DataEncGated.lean`): follows from
`ksx1001_encode_hangul_fast` / `ksx1001_encode_hanja_fast` by a congruence over `eucKrEncodeBmpWith`; only the
combination selected by `fast-legacy-encode` is a theorem (`eucKr_fast_char`).
(b) the `simd-accel` kernels of ascii.rs / mem.rs / handles.rs beyond the validators re-exported above
(`ascii_to_ascii`, `basic_latin_to_ascii`, pack/unpack, `convert_*`): modelled as the per-unit loops they
implement (C15); their agreement with the default build is established by the cross-configuration run only. -/

end EncodingRs.Thm.C17
