import EncodingRs.Lemmas.OneShot
import EncodingRs.Lemmas.OneShotCap
import EncodingRs.Lemmas.OneShotEnc
/-!
# C11 — the one-shot convenience API equals the streaming API and borrows only when promised

`streamText v bytes` / `streamErr v bytes` are what **any** protocol-following
streaming history of a fresh decoder without BOM handling for variant `v` says
about the stream `bytes`: by C02 (`history_eq_ref`) every history yields the
events `ref F F.init bytes 0`, and by C09 (`replLoop_sound`, `builtin_eq_manual`)
the built-in replacement yields `textOf true` of them; `had_errors` of a history
is `hadErrors` of them.

The theorems below hold for every stop policy (`bs`, `budget`: where the decoder
answers `OutputFull`, i.e. for every capacity the real code may have computed)
and every fuel, whenever the model returns (`= some r`).  Decode side only:
`Encoding::encode` has no Lean model yet and is covered by the harness oracle.
-/
namespace EncodingRs.Thm.C11
open EncodingRs EncodingRs.Model EncodingRs.Model.OneShot EncodingRs.Lemmas.Core EncodingRs.Lemmas.FamLaws
open EncodingRs.Lemmas.OneShot EncodingRs.Thm.C02 EncodingRs.Thm.C09

/-- the text every streaming history (with replacement) of a fresh decoder for `v` yields on `bytes` -/
def streamText (v : Gen.Variant) (bytes : List Nat) : List Nat :=
  textOf true (ref (famOfVariant v) (famOfVariant v).init bytes 0)

/-- whether a streaming history reports a malformed sequence (`had_errors` / `Malformed`) -/
def streamErr (v : Gen.Variant) (bytes : List Nat) : Bool :=
  hadErrors (ref (famOfVariant v) (famOfVariant v).init bytes 0)

/-! ### the model's variant tests identify the encodings the Rust compares by address -/

/-- over the regenerated `Gen.encodings`: `is_potentially_borrowable` of the model agrees with the
index list extracted from lib.rs, `v = .utf8` holds exactly for `UTF_8`, and the variants the
one-shot code singles out (`ISO_2022_JP`, `UTF_16BE`, `UTF_16LE`, `REPLACEMENT`) each belong to
exactly one encoding, the one of that name -/
def variantCheck : Bool :=
  (List.range Gen.encodings.length).all fun i =>
    match Gen.encodings[i]? with
    | none => false
    | some e =>
      (isPotentiallyBorrowable e.variant == !(Gen.notPotentiallyBorrowable.contains i)) &&
      (decide (e.variant = .utf8) == (i == Gen.utf8Idx)) &&
      (decide (e.variant = .utf8) == (e.ident == "UTF_8")) &&
      (decide (e.variant = .iso2022Jp) == (e.ident == "ISO_2022_JP")) &&
      (decide (e.variant = .utf16Be) == (e.ident == "UTF_16BE")) &&
      (decide (e.variant = .utf16Le) == (e.ident == "UTF_16LE")) &&
      (decide (e.variant = .replacement) == (e.ident == "REPLACEMENT"))

theorem variant_identifies : variantCheck = true := by decide +kernel

/-! ### the validated prefix -/

/-- **prefix identity**, all borrowable variants: the prefix delimited by the validator the code
picks decodes to its own `char`s and leaves the fresh decoder in its initial state -/
theorem valid_prefix (v : Gen.Variant) (hb : isPotentiallyBorrowable v = true) (bytes rest : List Nat) (pos : Nat) :
    ref (famOfVariant v) (famOfVariant v).init (bytes.take (OneShot.validUpTo v bytes) ++ rest) pos
      = (strScalars (bytes.take (OneShot.validUpTo v bytes))).map Ev.cp
        ++ ref (famOfVariant v) (famOfVariant v).init rest (pos + OneShot.validUpTo v bytes) := by
  by_cases h8 : v = .utf8
  · subst h8
    have e : OneShot.validUpTo .utf8 bytes = Spec.validUpTo bytes := by simp [OneShot.validUpTo]
    rw [e]
    exact utf8_valid_prefix bytes rest pos
  · exact ascii_prefix v hb h8 bytes rest pos

/-- splitting the stream at the validated prefix -/
theorem ref_split (v : Gen.Variant) (hb : isPotentiallyBorrowable v = true) (bytes : List Nat) :
    ref (famOfVariant v) (famOfVariant v).init bytes 0
      = (strScalars (bytes.take (OneShot.validUpTo v bytes))).map Ev.cp
        ++ ref (famOfVariant v) (famOfVariant v).init (bytes.drop (OneShot.validUpTo v bytes)) (OneShot.validUpTo v bytes) := by
  have := valid_prefix v hb bytes (bytes.drop (OneShot.validUpTo v bytes)) 0
  rw [List.take_append_drop, Nat.zero_add] at this
  exact this

/-- a wholly valid input decodes to its own `char`s without error -/
theorem ref_all_valid (v : Gen.Variant) (hb : isPotentiallyBorrowable v = true) (bytes : List Nat)
    (hn : OneShot.validUpTo v bytes = bytes.length) :
    ref (famOfVariant v) (famOfVariant v).init bytes 0 = (strScalars bytes).map Ev.cp := by
  rw [ref_split v hb bytes, hn, List.take_length, List.drop_length, ref_init_nil, List.append_nil]

/-! ### (a) `decode_without_bom_handling` = the streaming decoder -/

/-- **C11 (a)**: for every encoding, every input, every stop policy of every inner call and every
number of `OutputFull`/`reserve` rounds, `decode_without_bom_handling` returns the text and the
error flag of the streaming decoder without BOM handling fed the whole input -/
theorem decode_without_bom_handling_eq_stream (v : Gen.Variant) (bytes : List Nat) (fuel : Nat)
    (bs : List (List Budget)) (r : OneShot.Res) (h : decodeWithoutBomHandling v bytes fuel bs = some r) :
    r.text = streamText v bytes ∧ r.hadErrors = streamErr v bytes := by
  unfold decodeWithoutBomHandling at h
  unfold streamText streamErr
  by_cases hb : isPotentiallyBorrowable v = true
  · simp only [hb, if_true] at h
    by_cases hn : OneShot.validUpTo v bytes = bytes.length
    · simp only [hn, if_true, Option.some.injEq] at h
      subst h
      rw [ref_all_valid v hb bytes hn, textOf_cps, hadErrors_cps]
      exact ⟨rfl, rfl⟩
    · simp only [hn, if_false] at h
      cases hg : growLoop (famOfVariant v) fuel fuel (famOfVariant v).init (bytes.drop (OneShot.validUpTo v bytes)) bs with
      | none => simp [hg] at h
      | some p =>
        obtain ⟨o, e⟩ := p
        simp only [hg, Option.some.injEq] at h
        subst h
        obtain ⟨h1, h2⟩ := growLoop_sound (famOfVariant v) (famOfVariant_laws v) fuel fuel _ _ bs
          (OneShot.validUpTo v bytes) o e hg
        rw [ref_split v hb bytes, textOf_append, textOf_cps, hadErrors_append, hadErrors_cps]
        simp only [Bool.false_or]
        exact ⟨by rw [h1], h2⟩
  · simp only [hb, Bool.false_eq_true, if_false] at h
    cases hg : growLoop (famOfVariant v) fuel fuel (famOfVariant v).init bytes bs with
    | none => simp [hg] at h
    | some p =>
      obtain ⟨o, e⟩ := p
      simp only [hg, Option.some.injEq] at h
      subst h
      exact growLoop_sound (famOfVariant v) (famOfVariant_laws v) fuel fuel _ _ bs 0 o e hg

/-- (a) against the streaming API directly: **any** protocol-following history `e` of a fresh decoder
without BOM handling over the whole input (`Thm.C02.Proto`: any chunking, any capacities, either sink;
manual U+FFFD per `Malformed`, which by `Thm.C09.builtin_eq_manual` is also what the built-in
replacement writes) yields the text and the flag the one-shot function returns -/
theorem decode_without_bom_handling_eq_any_history (v : Gen.Variant) (bytes : List Nat) (fuel : Nat)
    (bs : List (List Budget)) (r : OneShot.Res) (h : decodeWithoutBomHandling v bytes fuel bs = some r)
    (e : List Ev) (hist : Proto (famOfVariant v) (famOfVariant v).init 0 bytes e) :
    r.text = textOf true e ∧ r.hadErrors = hadErrors e := by
  rw [history_eq_ref (famOfVariant v) (famOfVariant_laws v) _ _ _ _ hist]
  exact decode_without_bom_handling_eq_stream v bytes fuel bs r h

/-! ### (b) the without-replacement form -/

/-- what one `last` raw call on the whole remaining stream says about it -/
theorem call_last_summary (F : Fam) (L : Laws F) (s : F.σ) (src : List Nat) (budget : Budget) (pos : Nat) :
    ((call F .utf8 s src true budget).res = .inputEmpty →
        ref F s src pos = (call F .utf8 s src true budget).out.map Ev.cp) ∧
    (∀ l a, (call F .utf8 s src true budget).res = .malformed l a → hadErrors (ref F s src pos) = true) := by
  have hs := call_sound F .utf8 L true src s budget pos [] (fun _ => rfl)
  simp only [List.append_nil] at hs
  refine ⟨fun hres => ?_, fun l a hres => ?_⟩
  · have hrd := call_inputEmpty F .utf8 src s true budget hres
    have hfin := call_final_state F .utf8 L src s budget hres
    rw [← hs, hrd, List.drop_length, ref_nil_of F _ _ hfin.2 hfin.1]
    simp [evs, hres, resEv]
  · rw [← hs, hadErrors_append, hadErrors_evs, hres]
    rfl

theorem validUpTo_nonUtf8 (v : Gen.Variant) (h8 : v ≠ .utf8) (bytes : List Nat) :
    (if v = .iso2022Jp then iso2022JpAsciiValidUpTo bytes else asciiValidUpTo bytes) = OneShot.validUpTo v bytes := by
  simp [OneShot.validUpTo, h8]

/-- **C11 (b)**: whenever `decode_without_bom_handling_and_without_replacement` returns (i.e. does not
hit its `unreachable!()`), it returns `None` exactly when the stream contains a malformed sequence,
and otherwise the text of the streaming decoder (which then contains no replacement) -/
theorem without_replacement_none_iff (v : Gen.Variant) (bytes : List Nat) (budget : Budget)
    (r : Option (List Nat × Bool))
    (h : decodeWithoutBomHandlingAndWithoutReplacement v bytes budget = .ret r) :
    (r = none ↔ streamErr v bytes = true) ∧
    (∀ t b, r = some (t, b) → t = streamText v bytes ∧
      t = textOf false (ref (famOfVariant v) (famOfVariant v).init bytes 0)) := by
  have key : (r = none → streamErr v bytes = true) ∧
      (∀ t b, r = some (t, b) → streamErr v bytes = false ∧ t = streamText v bytes) := by
    unfold decodeWithoutBomHandlingAndWithoutReplacement at h
    unfold streamText streamErr
    by_cases h8 : v = .utf8
    · subst h8
      simp only [if_true] at h
      by_cases hn : Spec.validUpTo bytes = bytes.length
      · simp only [hn, if_true, NoRepl.ret.injEq] at h
        subst h
        have hn' : OneShot.validUpTo .utf8 bytes = bytes.length := by simp [OneShot.validUpTo, hn]
        refine ⟨fun hh => (by cases hh), fun t b hh => ?_⟩
        simp only [Option.some.injEq, Prod.mk.injEq] at hh
        rw [ref_all_valid .utf8 rfl bytes hn', textOf_cps, hadErrors_cps]
        exact ⟨rfl, hh.1.symm⟩
      · simp only [hn, if_false, NoRepl.ret.injEq] at h
        subst h
        refine ⟨fun _ => (utf8_hadErrors_iff bytes 0).2 hn, fun t b hh => by cases hh⟩
    · simp only [h8, if_false] at h
      by_cases hb : isPotentiallyBorrowable v = true
      · simp only [hb, if_true, validUpTo_nonUtf8 v h8] at h
        by_cases hn : OneShot.validUpTo v bytes = bytes.length
        · simp only [hn, if_true, NoRepl.ret.injEq] at h
          subst h
          refine ⟨fun hh => (by cases hh), fun t b hh => ?_⟩
          simp only [Option.some.injEq, Prod.mk.injEq] at hh
          rw [ref_all_valid v hb bytes hn, textOf_cps, hadErrors_cps]
          exact ⟨rfl, hh.1.symm⟩
        · simp only [hn, if_false] at h
          obtain ⟨s1, s2⟩ := call_last_summary (famOfVariant v) (famOfVariant_laws v) (famOfVariant v).init
            (bytes.drop (OneShot.validUpTo v bytes)) budget (OneShot.validUpTo v bytes)
          rw [ref_split v hb bytes, textOf_append, textOf_cps, hadErrors_append, hadErrors_cps]
          simp only [Bool.false_or]
          cases hres : (call (famOfVariant v) .utf8 (famOfVariant v).init (bytes.drop (OneShot.validUpTo v bytes)) true budget).res with
          | inputEmpty =>
            simp only [hres, NoRepl.ret.injEq] at h
            subst h
            refine ⟨fun hh => (by cases hh), fun t b hh => ?_⟩
            simp only [Option.some.injEq, Prod.mk.injEq] at hh
            rw [s1 hres, textOf_cps, hadErrors_cps]
            exact ⟨rfl, hh.1.symm⟩
          | malformed l a =>
            simp only [hres, NoRepl.ret.injEq] at h
            subst h
            exact ⟨fun _ => s2 l a hres, fun t b hh => by cases hh⟩
          | outputFull => simp [hres] at h
      · simp only [hb, Bool.false_eq_true, if_false] at h
        obtain ⟨s1, s2⟩ := call_last_summary (famOfVariant v) (famOfVariant_laws v) (famOfVariant v).init bytes budget 0
        cases hres : (call (famOfVariant v) .utf8 (famOfVariant v).init bytes true budget).res with
        | inputEmpty =>
          simp only [hres, NoRepl.ret.injEq] at h
          subst h
          refine ⟨fun hh => (by cases hh), fun t b hh => ?_⟩
          simp only [Option.some.injEq, Prod.mk.injEq] at hh
          rw [s1 hres, textOf_cps, hadErrors_cps]
          exact ⟨rfl, hh.1.symm⟩
        | malformed l a =>
          simp only [hres, NoRepl.ret.injEq] at h
          subst h
          exact ⟨fun _ => s2 l a hres, fun t b hh => by cases hh⟩
        | outputFull => simp [hres] at h
  obtain ⟨k1, k2⟩ := key
  refine ⟨⟨k1, fun he => ?_⟩, fun t b hh => ?_⟩
  · cases r with
    | none => rfl
    | some p =>
      obtain ⟨t, b⟩ := p
      have := (k2 t b rfl).1
      rw [he] at this; cases this
  · obtain ⟨e1, e2⟩ := k2 t b hh
    refine ⟨e2, ?_⟩
    rw [e2]
    exact textOf_noerr _ e1

/-- the main loop of a raw call never answers `OutputFull` under the policy "never stop" -/
theorem run_unlimited (F : Fam) (k : Sink) (last : Bool) : ∀ (src : List Nat) (s : F.σ),
    (run F k last s src .unlimited).res ≠ .outputFull := by
  intro src
  induction src with
  | nil =>
    intro s
    simp only [run]
    split
    · split
      · simp [Budget.isZero]
      · simp
    · simp
  | cons b tl ih =>
    intro s
    rw [run]
    simp only [stopHere]
    cases hE : (F.feed s b).err with
    | none => simp only; exact ih _
    | some e => simp

theorem call_unlimited (F : Fam) (k : Sink) (last : Bool) (src : List Nat) (s : F.σ) :
    (call F k s src last .unlimited).res ≠ .outputFull := by
  unfold call
  cases F.pend s with
  | none => exact run_unlimited F k last src s
  | some p =>
    obtain ⟨o, s'⟩ := p
    simp only [Budget.isZero, Bool.false_eq_true, if_false, Budget.dec]
    exact run_unlimited F k last src s'

/-- `oneshot_no_unreachable`, partial: if the decoder is never stopped by lack of space, the
`unreachable!()` arm is not taken (see the PENDING note at the end of the file) -/
theorem no_unreachable_partial (v : Gen.Variant) (bytes : List Nat) :
    decodeWithoutBomHandlingAndWithoutReplacement v bytes .unlimited ≠ .unreachable := by
  have hc := fun src => call_unlimited (famOfVariant v) .utf8 true src (famOfVariant v).init
  intro hh
  unfold decodeWithoutBomHandlingAndWithoutReplacement at hh
  by_cases h8 : v = .utf8
  · subst h8
    simp only [if_true] at hh
    split at hh <;> cases hh
  · simp only [h8, if_false] at hh
    by_cases hb : isPotentiallyBorrowable v = true
    · simp only [hb, if_true, validUpTo_nonUtf8 v h8] at hh
      by_cases hn : OneShot.validUpTo v bytes = bytes.length
      · simp [hn] at hh
      · simp only [hn, if_false] at hh
        cases hres : (call (famOfVariant v) .utf8 (famOfVariant v).init (bytes.drop (OneShot.validUpTo v bytes)) true .unlimited).res with
        | inputEmpty => simp [hres] at hh
        | malformed l a => simp [hres] at hh
        | outputFull => exact hc _ hres
    · simp only [hb, Bool.false_eq_true, if_false] at hh
      cases hres : (call (famOfVariant v) .utf8 (famOfVariant v).init bytes true .unlimited).res with
      | inputEmpty => simp [hres] at hh
      | malformed l a => simp [hres] at hh
      | outputFull => exact hc _ hres

/-! ### (c) BOM handling of `decode` and `decode_with_bom_removal` -/

theorem isPrefixOf3 (a b c : Nat) (l : List Nat) (h : [a, b, c].isPrefixOf l = true) : ∃ r, l = a :: b :: c :: r := by
  match l with
  | x :: y :: z :: r =>
    simp only [List.isPrefixOf, Bool.and_eq_true, beq_iff_eq, Bool.and_true] at h
    exact ⟨r, by rw [h.1, h.2.1, h.2.2]⟩
  | [] => simp [List.isPrefixOf] at h
  | [_] => simp [List.isPrefixOf] at h
  | [_, _] => simp [List.isPrefixOf] at h

theorem isPrefixOf2 (a b : Nat) (l : List Nat) (h : [a, b].isPrefixOf l = true) : ∃ r, l = a :: b :: r := by
  match l with
  | x :: y :: r =>
    simp only [List.isPrefixOf, Bool.and_eq_true, beq_iff_eq, Bool.and_true] at h
    exact ⟨r, by rw [h.1, h.2]⟩
  | [] => simp [List.isPrefixOf] at h
  | [_] => simp [List.isPrefixOf] at h

/-- the input does not start with any of the three BOMs -/
def NoBom (bytes : List Nat) : Prop :=
  (∀ r, bytes ≠ 0xEF :: 0xBB :: 0xBF :: r) ∧ (∀ r, bytes ≠ 0xFF :: 0xFE :: r) ∧ (∀ r, bytes ≠ 0xFE :: 0xFF :: r)

/-- `Encoding::for_bom` as documented -/
theorem forBom_spec (bytes : List Nat) :
    (∃ r, bytes = 0xEF :: 0xBB :: 0xBF :: r ∧ forBom bytes = some (.utf8, 3)) ∨
    (∃ r, bytes = 0xFF :: 0xFE :: r ∧ forBom bytes = some (.utf16le, 2)) ∨
    (∃ r, bytes = 0xFE :: 0xFF :: r ∧ forBom bytes = some (.utf16be, 2)) ∨
    (NoBom bytes ∧ forBom bytes = none) := by
  unfold forBom
  by_cases h1 : [0xEF, 0xBB, 0xBF].isPrefixOf bytes = true
  · obtain ⟨r, hr⟩ := isPrefixOf3 _ _ _ _ h1
    exact Or.inl ⟨r, hr, by simp [h1]⟩
  · by_cases h2 : [0xFF, 0xFE].isPrefixOf bytes = true
    · obtain ⟨r, hr⟩ := isPrefixOf2 _ _ _ h2
      exact Or.inr (Or.inl ⟨r, hr, by simp [h1, h2]⟩)
    · by_cases h3 : [0xFE, 0xFF].isPrefixOf bytes = true
      · obtain ⟨r, hr⟩ := isPrefixOf2 _ _ _ h3
        exact Or.inr (Or.inr (Or.inl ⟨r, hr, by simp [h1, h2, h3]⟩))
      · refine Or.inr (Or.inr (Or.inr ⟨⟨?_, ?_, ?_⟩, by simp [h1, h2, h3]⟩))
        · intro r hr; apply h1; rw [hr]; simp [List.isPrefixOf]
        · intro r hr; apply h2; rw [hr]; simp [List.isPrefixOf]
        · intro r hr; apply h3; rw [hr]; simp [List.isPrefixOf]

/-- `decode` is `decode_without_bom_handling` of the sniffed encoding on the input after the BOM -/
theorem decode_reduces (v : Gen.Variant) (bytes : List Nat) (fuel : Nat) (bs : List (List Budget))
    (r : OneShot.Res) (u : Used) (h : decode v bytes fuel bs = some (r, u)) :
    (∃ rest, bytes = 0xEF :: 0xBB :: 0xBF :: rest ∧ u = .utf8 ∧ decodeWithoutBomHandling .utf8 rest fuel bs = some r) ∨
    (∃ rest, bytes = 0xFF :: 0xFE :: rest ∧ u = .utf16le ∧ decodeWithoutBomHandling .utf16Le rest fuel bs = some r) ∨
    (∃ rest, bytes = 0xFE :: 0xFF :: rest ∧ u = .utf16be ∧ decodeWithoutBomHandling .utf16Be rest fuel bs = some r) ∨
    (NoBom bytes ∧ u = .nominal ∧ decodeWithoutBomHandling v bytes fuel bs = some r) := by
  unfold decode at h
  rcases forBom_spec bytes with ⟨rest, hb, hf⟩ | ⟨rest, hb, hf⟩ | ⟨rest, hb, hf⟩ | ⟨hn, hf⟩
  · rw [hf] at h
    simp only [Option.map_eq_some_iff, Prod.mk.injEq] at h
    obtain ⟨r', h1, h2, h3⟩ := h
    subst h2 h3
    refine Or.inl ⟨rest, hb, rfl, ?_⟩
    rw [hb] at h1; exact h1
  · rw [hf] at h
    simp only [Option.map_eq_some_iff, Prod.mk.injEq] at h
    obtain ⟨r', h1, h2, h3⟩ := h
    subst h2 h3
    refine Or.inr (Or.inl ⟨rest, hb, rfl, ?_⟩)
    rw [hb] at h1; exact h1
  · rw [hf] at h
    simp only [Option.map_eq_some_iff, Prod.mk.injEq] at h
    obtain ⟨r', h1, h2, h3⟩ := h
    subst h2 h3
    refine Or.inr (Or.inr (Or.inl ⟨rest, hb, rfl, ?_⟩))
    rw [hb] at h1; exact h1
  · rw [hf] at h
    simp only [Option.map_eq_some_iff, Prod.mk.injEq] at h
    obtain ⟨r', h1, h2, h3⟩ := h
    subst h2 h3
    exact Or.inr (Or.inr (Or.inr ⟨hn, rfl, h1⟩))

/-- **C11 (c), `decode`**: a UTF-8 / UTF-16LE / UTF-16BE BOM selects that encoding whatever `self` is,
the BOM is not part of the text, the rest is decoded as by the streaming decoder of the encoding used;
without a BOM the nominal encoding decodes the whole input -/
theorem decode_eq_sniff (v : Gen.Variant) (bytes : List Nat) (fuel : Nat) (bs : List (List Budget))
    (r : OneShot.Res) (u : Used) (h : decode v bytes fuel bs = some (r, u)) :
    (∃ rest, bytes = 0xEF :: 0xBB :: 0xBF :: rest ∧ u = .utf8 ∧
      r.text = streamText .utf8 rest ∧ r.hadErrors = streamErr .utf8 rest) ∨
    (∃ rest, bytes = 0xFF :: 0xFE :: rest ∧ u = .utf16le ∧
      r.text = streamText .utf16Le rest ∧ r.hadErrors = streamErr .utf16Le rest) ∨
    (∃ rest, bytes = 0xFE :: 0xFF :: rest ∧ u = .utf16be ∧
      r.text = streamText .utf16Be rest ∧ r.hadErrors = streamErr .utf16Be rest) ∨
    (NoBom bytes ∧ u = .nominal ∧ r.text = streamText v bytes ∧ r.hadErrors = streamErr v bytes) := by
  rcases decode_reduces v bytes fuel bs r u h with ⟨rest, hb, hu, hd⟩ | ⟨rest, hb, hu, hd⟩ | ⟨rest, hb, hu, hd⟩ | ⟨hn, hu, hd⟩
  · exact Or.inl ⟨rest, hb, hu, decode_without_bom_handling_eq_stream _ _ _ _ _ hd⟩
  · exact Or.inr (Or.inl ⟨rest, hb, hu, decode_without_bom_handling_eq_stream _ _ _ _ _ hd⟩)
  · exact Or.inr (Or.inr (Or.inl ⟨rest, hb, hu, decode_without_bom_handling_eq_stream _ _ _ _ _ hd⟩))
  · exact Or.inr (Or.inr (Or.inr ⟨hn, hu, decode_without_bom_handling_eq_stream _ _ _ _ _ hd⟩))

/-- only the encoding's own BOM is removed -/
theorem withoutOwnBom_spec (v : Gen.Variant) (bytes : List Nat) :
    (v = .utf8 ∧ ∃ rest, bytes = 0xEF :: 0xBB :: 0xBF :: rest ∧ withoutOwnBom v bytes = rest) ∨
    (v = .utf16Le ∧ ∃ rest, bytes = 0xFF :: 0xFE :: rest ∧ withoutOwnBom v bytes = rest) ∨
    (v = .utf16Be ∧ ∃ rest, bytes = 0xFE :: 0xFF :: rest ∧ withoutOwnBom v bytes = rest) ∨
    (¬ (v = .utf8 ∧ ∃ rest, bytes = 0xEF :: 0xBB :: 0xBF :: rest) ∧
     ¬ (v = .utf16Le ∧ ∃ rest, bytes = 0xFF :: 0xFE :: rest) ∧
     ¬ (v = .utf16Be ∧ ∃ rest, bytes = 0xFE :: 0xFF :: rest) ∧ withoutOwnBom v bytes = bytes) := by
  unfold withoutOwnBom
  by_cases c1 : v = .utf8 ∧ [0xEF, 0xBB, 0xBF].isPrefixOf bytes = true
  · obtain ⟨rest, hr⟩ := isPrefixOf3 _ _ _ _ c1.2
    refine Or.inl ⟨c1.1, rest, hr, ?_⟩
    rw [if_pos c1, hr]; rfl
  · rw [if_neg c1]
    by_cases c2 : v = .utf16Le ∧ [0xFF, 0xFE].isPrefixOf bytes = true
    · obtain ⟨rest, hr⟩ := isPrefixOf2 _ _ _ c2.2
      refine Or.inr (Or.inl ⟨c2.1, rest, hr, ?_⟩)
      rw [if_pos (Or.inl c2), hr]; rfl
    · by_cases c3 : v = .utf16Be ∧ [0xFE, 0xFF].isPrefixOf bytes = true
      · obtain ⟨rest, hr⟩ := isPrefixOf2 _ _ _ c3.2
        refine Or.inr (Or.inr (Or.inl ⟨c3.1, rest, hr, ?_⟩))
        rw [if_pos (Or.inr c3), hr]; rfl
      · refine Or.inr (Or.inr (Or.inr ⟨?_, ?_, ?_, ?_⟩))
        · rintro ⟨hv, rest, hr⟩; apply c1; refine ⟨hv, ?_⟩; rw [hr]; simp [List.isPrefixOf]
        · rintro ⟨hv, rest, hr⟩; apply c2; refine ⟨hv, ?_⟩; rw [hr]; simp [List.isPrefixOf]
        · rintro ⟨hv, rest, hr⟩; apply c3; refine ⟨hv, ?_⟩; rw [hr]; simp [List.isPrefixOf]
        · rw [if_neg]; rintro (hh | hh)
          · exact c2 hh
          · exact c3 hh

/-- **C11 (c), `decode_with_bom_removal`**: the streaming decoder of the *same* encoding fed the
input without its own BOM (`withoutOwnBom_spec`: a foreign BOM stays in the input) -/
theorem decode_with_bom_removal_eq (v : Gen.Variant) (bytes : List Nat) (fuel : Nat) (bs : List (List Budget))
    (r : OneShot.Res) (h : decodeWithBomRemoval v bytes fuel bs = some r) :
    r.text = streamText v (withoutOwnBom v bytes) ∧ r.hadErrors = streamErr v (withoutOwnBom v bytes) :=
  decode_without_bom_handling_eq_stream v _ fuel bs r h

/-! ### (c'), tie to the streaming BOM life cycle (`Model.Decoder.rawCall`, the model of
`public_decode_function!` that C10 is about) for the history "whole input in one `last` call":
the life cycle hands exactly the slice and the decoder that `for_bom` / `starts_with` select to
`checkingEnd`, i.e. `(c.call k (bytes.drop offset) true budget)` — the same (decoder, rest) pair as
`decode_reduces` / `withoutOwnBom_spec`.  (Arbitrary chunkings of the sniffing decoder are C10.) -/

/-- `new_decoder()` (sniffing) fed a non-empty whole input in one `last` call -/
theorem sniff_single_call (F : Fam) (nom : Nominal) (k : Sink) (bytes : List Nat) (b1 b2 : Budget) (hne : bytes ≠ []) :
    Decoder.rawCall k (Decoder.new F nom .sniff) bytes true b1 b2 =
      match forBom bytes with
      | some (.utf8, _) => checkingEnd k (.utf8 utf8Fam.init) bytes true b2 3 [] []
      | some (.utf16le, _) => checkingEnd k (.utf16le (utf16Fam false).init) bytes true b2 2 [] []
      | some (.utf16be, _) => checkingEnd k (.utf16be (utf16Fam true).init) bytes true b2 2 [] []
      | _ => checkingEnd k (.nominal F.init) bytes true b2 0 [] [] := by
  match bytes, hne with
  | b0 :: r, _ =>
    by_cases e0 : b0 = 0xEF
    · subst e0
      match r with
      | [] => rfl
      | b1' :: r1 =>
        by_cases e1 : b1' = 0xBB
        · subst e1
          match r1 with
          | [] => rfl
          | b2' :: r2 =>
            by_cases e2 : b2' = 0xBF
            · subst e2
              rfl
            · have e2' : ¬ 0xBF = b2' := fun h => e2 h.symm
              unfold Decoder.rawCall
              simp [Decoder.rawCall.seenUtf8First, Decoder.rawCall.seenUtf8Second, Decoder.new, forBom, List.isPrefixOf, e2, e2']
        · have e1' : ¬ 0xBB = b1' := fun h => e1 h.symm
          unfold Decoder.rawCall
          simp [Decoder.rawCall.seenUtf8First, Decoder.new, forBom, List.isPrefixOf, e1, e1']
    · have e0' : ¬ 0xEF = b0 := fun h => e0 h.symm
      by_cases f0 : b0 = 0xFE
      · subst f0
        match r with
        | [] => rfl
        | b1' :: r1 =>
          by_cases f1 : b1' = 0xFF
          · subst f1; rfl
          · have f1' : ¬ 0xFF = b1' := fun h => f1 h.symm
            unfold Decoder.rawCall
            simp [Decoder.rawCall.seenUtf16First, Decoder.new, forBom, List.isPrefixOf, f1, f1']
      · have f0' : ¬ 0xFE = b0 := fun h => f0 h.symm
        by_cases g0 : b0 = 0xFF
        · subst g0
          match r with
          | [] => rfl
          | b1' :: r1 =>
            by_cases g1 : b1' = 0xFE
            · subst g1; rfl
            · have g1' : ¬ 0xFE = b1' := fun h => g1 h.symm
              unfold Decoder.rawCall
              simp [Decoder.rawCall.seenUtf16First, Decoder.new, forBom, List.isPrefixOf, g1, g1']
        · have g0' : ¬ 0xFF = b0 := fun h => g0 h.symm
          unfold Decoder.rawCall
          simp [Decoder.new, forBom, List.isPrefixOf, e0, e0', f0, f0', g0, g0']

/-- `new_decoder_with_bom_removal()` for an encoding other than UTF-8 / UTF-16 -/
theorem remove_other_single_call (F : Fam) (k : Sink) (bytes : List Nat) (b1 b2 : Budget) :
    Decoder.rawCall k (Decoder.new F .other .remove) bytes true b1 b2
      = checkingEnd k (.nominal F.init) bytes true b2 0 [] [] := rfl

theorem remove_utf8_single_call (F : Fam) (k : Sink) (bytes : List Nat) (b1 b2 : Budget) (hne : bytes ≠ []) :
    Decoder.rawCall k (Decoder.new F .utf8 .remove) bytes true b1 b2 =
      if [0xEF, 0xBB, 0xBF].isPrefixOf bytes = true then checkingEnd k (.utf8 utf8Fam.init) bytes true b2 3 [] []
      else checkingEnd k (.nominal F.init) bytes true b2 0 [] [] := by
  match bytes, hne with
  | b0 :: r, _ =>
    by_cases e0 : b0 = 0xEF
    · subst e0
      match r with
      | [] => rfl
      | b1' :: r1 =>
        by_cases e1 : b1' = 0xBB
        · subst e1
          match r1 with
          | [] => rfl
          | b2' :: r2 =>
            by_cases e2 : b2' = 0xBF
            · subst e2
              rfl
            · have e2' : ¬ 0xBF = b2' := fun h => e2 h.symm
              unfold Decoder.rawCall
              simp [Decoder.rawCall.seenUtf8First, Decoder.rawCall.seenUtf8Second, Decoder.new, List.isPrefixOf, e2, e2']
        · have e1' : ¬ 0xBB = b1' := fun h => e1 h.symm
          unfold Decoder.rawCall
          simp [Decoder.rawCall.seenUtf8First, Decoder.new, List.isPrefixOf, e1, e1']
    · have e0' : ¬ 0xEF = b0 := fun h => e0 h.symm
      unfold Decoder.rawCall
      simp [Decoder.new, List.isPrefixOf, e0, e0']

theorem remove_utf16_single_call (F : Fam) (be : Bool) (k : Sink) (bytes : List Nat) (b1 b2 : Budget) (hne : bytes ≠ []) :
    Decoder.rawCall k (Decoder.new F (if be then .utf16be else .utf16le) .remove) bytes true b1 b2 =
      if (if be then [0xFE, 0xFF] else [0xFF, 0xFE]).isPrefixOf bytes = true then
        checkingEnd k (if be then .utf16be (utf16Fam true).init else .utf16le (utf16Fam false).init) bytes true b2 2 [] []
      else checkingEnd k (.nominal F.init) bytes true b2 0 [] [] := by
  cases be with
  | true =>
    match bytes, hne with
    | b0 :: r, _ =>
      by_cases f0 : b0 = 0xFE
      · subst f0
        match r with
        | [] => rfl
        | b1' :: r1 =>
          by_cases f1 : b1' = 0xFF
          · subst f1; rfl
          · have f1' : ¬ 0xFF = b1' := fun h => f1 h.symm
            unfold Decoder.rawCall
            simp [Decoder.rawCall.seenUtf16First, Decoder.new, List.isPrefixOf, f1, f1']
      · have f0' : ¬ 0xFE = b0 := fun h => f0 h.symm
        unfold Decoder.rawCall
        simp [Decoder.new, List.isPrefixOf, f0, f0']
  | false =>
    match bytes, hne with
    | b0 :: r, _ =>
      by_cases f0 : b0 = 0xFF
      · subst f0
        match r with
        | [] => rfl
        | b1' :: r1 =>
          by_cases f1 : b1' = 0xFE
          · subst f1; rfl
          · have f1' : ¬ 0xFE = b1' := fun h => f1 h.symm
            unfold Decoder.rawCall
            simp [Decoder.rawCall.seenUtf16First, Decoder.new, List.isPrefixOf, f1, f1']
      · have f0' : ¬ 0xFF = b0 := fun h => f0 h.symm
        unfold Decoder.rawCall
        simp [Decoder.new, List.isPrefixOf, f0, f0']

/-! ### (d) borrowing -/

/-- the documented borrow condition on the input handed to the variant decoder (BOM already removed) -/
def BorrowCond (v : Gen.Variant) (bytes : List Nat) : Prop :=
  match v with
  | .utf8 => Spec.validUpTo bytes = bytes.length          -- valid UTF-8 (`Lemmas.Valid.validUtf8_iff`)
  | .iso2022Jp => ∀ b ∈ bytes, b < 0x80 ∧ b ≠ 0x0E ∧ b ≠ 0x0F ∧ b ≠ 0x1B
  | .replacement => False
  | .utf16Be => False
  | .utf16Le => False
  | _ => ∀ b ∈ bytes, b < 0x80     -- all other encodings are ASCII-compatible (incl. x-user-defined, single-byte)

theorem borrowCond_iff (v : Gen.Variant) (bytes : List Nat) :
    BorrowCond v bytes ↔ (isPotentiallyBorrowable v = true ∧ OneShot.validUpTo v bytes = bytes.length) := by
  have ascii : (∀ b ∈ bytes, b < 0x80) ↔ asciiValidUpTo bytes = bytes.length := by
    rw [Thm.C19.asciiValidUpTo_eq, upTo_eq_length_iff]; simp
  have iso : (∀ b ∈ bytes, b < 0x80 ∧ b ≠ 0x0E ∧ b ≠ 0x0F ∧ b ≠ 0x1B) ↔ iso2022JpAsciiValidUpTo bytes = bytes.length := by
    rw [Thm.C19.iso2022JpAsciiValidUpTo_eq, upTo_eq_length_iff]; simp
  cases v <;> simp [BorrowCond, isPotentiallyBorrowable, OneShot.validUpTo, ascii, iso]

/-- **C11 (d)**: `decode_without_bom_handling` returns `Cow::Borrowed` exactly under the documented
condition, and a borrowed result is the input itself (its own `char`s; the bytes themselves for the
ASCII cases), reported without errors -/
theorem borrow_iff (v : Gen.Variant) (bytes : List Nat) (fuel : Nat) (bs : List (List Budget))
    (r : OneShot.Res) (h : decodeWithoutBomHandling v bytes fuel bs = some r) :
    (r.borrowed = true ↔ BorrowCond v bytes) ∧
    (r.borrowed = true → r.text = strScalars bytes ∧ r.hadErrors = false ∧ (v ≠ .utf8 → r.text = bytes)) := by
  rw [borrowCond_iff]
  unfold decodeWithoutBomHandling at h
  by_cases hb : isPotentiallyBorrowable v = true
  · simp only [hb, if_true] at h
    by_cases hn : OneShot.validUpTo v bytes = bytes.length
    · simp only [hn, if_true, Option.some.injEq] at h
      subst h
      refine ⟨by simp [hb, hn], fun _ => ⟨rfl, rfl, fun h8 => ?_⟩⟩
      show strScalars bytes = bytes
      apply strScalars_ascii
      have := validUpTo_eq_upTo v h8 bytes
      rw [hn] at this
      intro b hbm
      exact passPred_ascii v b ((upTo_eq_length_iff _ _).1 this.symm b hbm)
    · simp only [hn, if_false] at h
      cases hg : growLoop (famOfVariant v) fuel fuel (famOfVariant v).init (bytes.drop (OneShot.validUpTo v bytes)) bs with
      | none => simp [hg] at h
      | some p =>
        obtain ⟨o, e⟩ := p
        simp only [hg, Option.some.injEq] at h
        subst h
        simp [hn]
  · simp only [hb, Bool.false_eq_true, if_false] at h
    cases hg : growLoop (famOfVariant v) fuel fuel (famOfVariant v).init bytes bs with
    | none => simp [hg] at h
    | some p =>
      obtain ⟨o, e⟩ := p
      simp only [hg, Option.some.injEq] at h
      subst h
      simp [hb]

/-- the same for the without-replacement form -/
theorem without_replacement_borrow_iff (v : Gen.Variant) (bytes : List Nat) (budget : Budget) (t : List Nat) (b : Bool)
    (h : decodeWithoutBomHandlingAndWithoutReplacement v bytes budget = .ret (some (t, b))) :
    (b = true ↔ BorrowCond v bytes) ∧ (b = true → t = strScalars bytes) := by
  rw [borrowCond_iff]
  unfold decodeWithoutBomHandlingAndWithoutReplacement at h
  by_cases h8 : v = .utf8
  · subst h8
    simp only [if_true] at h
    by_cases hn : Spec.validUpTo bytes = bytes.length
    · simp only [hn, if_true, NoRepl.ret.injEq, Option.some.injEq, Prod.mk.injEq] at h
      obtain ⟨h1, h2⟩ := h
      subst h1 h2
      simp [isPotentiallyBorrowable, OneShot.validUpTo, hn]
    · simp [hn] at h
  · simp only [h8, if_false] at h
    by_cases hb : isPotentiallyBorrowable v = true
    · simp only [hb, if_true, validUpTo_nonUtf8 v h8] at h
      by_cases hn : OneShot.validUpTo v bytes = bytes.length
      · simp only [hn, if_true, NoRepl.ret.injEq, Option.some.injEq, Prod.mk.injEq] at h
        obtain ⟨h1, h2⟩ := h
        subst h1 h2
        simp [hb, hn]
      · simp only [hn, if_false] at h
        split at h
        · simp only [NoRepl.ret.injEq, Option.some.injEq, Prod.mk.injEq] at h
          obtain ⟨h1, h2⟩ := h
          subst h2
          simp [hn]
        · simp at h
        · simp at h
    · simp only [hb, Bool.false_eq_true, if_false] at h
      split at h
      · simp only [NoRepl.ret.injEq, Option.some.injEq, Prod.mk.injEq] at h
        obtain ⟨h1, h2⟩ := h
        subst h2
        simp [hb]
      · simp at h
      · simp at h

/-- corollary for `decode`: the borrow decision is taken on the input after the BOM, for the encoding used -/
theorem decode_borrow_iff (v : Gen.Variant) (bytes : List Nat) (fuel : Nat) (bs : List (List Budget))
    (r : OneShot.Res) (u : Used) (h : decode v bytes fuel bs = some (r, u)) :
    (∃ rest, bytes = 0xEF :: 0xBB :: 0xBF :: rest ∧ (r.borrowed = true ↔ BorrowCond .utf8 rest)
      ∧ (r.borrowed = true → r.text = strScalars rest)) ∨
    ((∃ rest, bytes = 0xFF :: 0xFE :: rest ∨ bytes = 0xFE :: 0xFF :: rest) ∧ r.borrowed = false) ∨
    (NoBom bytes ∧ (r.borrowed = true ↔ BorrowCond v bytes) ∧ (r.borrowed = true → r.text = strScalars bytes)) := by
  rcases decode_reduces v bytes fuel bs r u h with ⟨rest, hb, _, hd⟩ | ⟨rest, hb, _, hd⟩ | ⟨rest, hb, _, hd⟩ | ⟨hn, _, hd⟩
  · have := borrow_iff _ _ _ _ _ hd
    exact Or.inl ⟨rest, hb, this.1, fun hh => (this.2 hh).1⟩
  · have := (borrow_iff _ _ _ _ _ hd).1
    refine Or.inr (Or.inl ⟨⟨rest, Or.inl hb⟩, ?_⟩)
    cases hbr : r.borrowed with
    | false => rfl
    | true => exact absurd (this.1 hbr) (by simp [BorrowCond])
  · have := (borrow_iff _ _ _ _ _ hd).1
    refine Or.inr (Or.inl ⟨⟨rest, Or.inr hb⟩, ?_⟩)
    cases hbr : r.borrowed with
    | false => rfl
    | true => exact absurd (this.1 hbr) (by simp [BorrowCond])
  · have := borrow_iff _ _ _ _ _ hd
    exact Or.inr (Or.inr ⟨hn, this.1, fun hh => (this.2 hh).1⟩)

/-- corollary for `decode_with_bom_removal` -/
theorem decode_with_bom_removal_borrow_iff (v : Gen.Variant) (bytes : List Nat) (fuel : Nat) (bs : List (List Budget))
    (r : OneShot.Res) (h : decodeWithBomRemoval v bytes fuel bs = some r) :
    (r.borrowed = true ↔ BorrowCond v (withoutOwnBom v bytes)) ∧
    (r.borrowed = true → r.text = strScalars (withoutOwnBom v bytes)) := by
  have := borrow_iff v _ fuel bs r h
  exact ⟨this.1, fun hh => (this.2 hh).1⟩

/-! ### the model returns (never-stop policy), so the statements above are not vacuous -/

/-- under the policy "the decoder is never stopped by lack of space" (`bs = []`, the policy the driver
runs) and with the driver's fuel, `decode_without_bom_handling` returns -/
theorem decode_without_bom_handling_terminates (v : Gen.Variant) (bytes : List Nat) (fuel : Nat)
    (h : 10 * bytes.length + 10 ≤ fuel) : ∃ r, decodeWithoutBomHandling v bytes fuel [] = some r := by
  unfold decodeWithoutBomHandling
  have hi := rank_le v (famOfVariant v).init
  by_cases hb : isPotentiallyBorrowable v = true
  · simp only [hb, if_true]
    by_cases hn : OneShot.validUpTo v bytes = bytes.length
    · simp only [hn, if_true]; exact ⟨_, rfl⟩
    · simp only [hn, if_false]
      have hl : (bytes.drop (OneShot.validUpTo v bytes)).length ≤ bytes.length := by
        rw [List.length_drop]; omega
      obtain ⟨p, hp⟩ := growLoop_terminates (famOfVariant v) (rank_le v) fuel fuel (famOfVariant v).init
        (bytes.drop (OneShot.validUpTo v bytes)) (by omega) (by omega)
      rw [hp]; exact ⟨_, rfl⟩
  · simp only [hb, Bool.false_eq_true, if_false]
    obtain ⟨p, hp⟩ := growLoop_terminates (famOfVariant v) (rank_le v) fuel fuel (famOfVariant v).init
      bytes (by omega) (by omega)
    rw [hp]; exact ⟨_, rfl⟩

/-- (a) in total form for the policy the driver runs: the model returns, and what it returns is the
streaming result -/
theorem decode_without_bom_handling_total (v : Gen.Variant) (bytes : List Nat) :
    ∃ r, decodeWithoutBomHandling v bytes (10 * bytes.length + 16) [] = some r ∧
      r.text = streamText v bytes ∧ r.hadErrors = streamErr v bytes := by
  obtain ⟨r, hr⟩ := decode_without_bom_handling_terminates v bytes (10 * bytes.length + 16) (by omega)
  exact ⟨r, hr, decode_without_bom_handling_eq_stream v bytes _ [] r hr⟩

theorem withoutOwnBom_length_le (v : Gen.Variant) (bytes : List Nat) : (withoutOwnBom v bytes).length ≤ bytes.length := by
  unfold withoutOwnBom
  split
  · rw [List.length_drop]; omega
  · split
    · rw [List.length_drop]; omega
    · exact Nat.le_refl _

theorem decode_with_bom_removal_terminates (v : Gen.Variant) (bytes : List Nat) (fuel : Nat)
    (h : 10 * bytes.length + 10 ≤ fuel) : ∃ r, decodeWithBomRemoval v bytes fuel [] = some r := by
  have := withoutOwnBom_length_le v bytes
  exact decode_without_bom_handling_terminates v _ fuel (by omega)

theorem decode_terminates (v : Gen.Variant) (bytes : List Nat) (fuel : Nat)
    (h : 10 * bytes.length + 10 ≤ fuel) : ∃ r u, decode v bytes fuel [] = some (r, u) := by
  unfold decode
  cases hf : forBom bytes with
  | none =>
    obtain ⟨r, hr⟩ := decode_without_bom_handling_terminates v bytes fuel h
    exact ⟨r, .nominal, by simp [hr]⟩
  | some p =>
    obtain ⟨u, n⟩ := p
    have hl : (bytes.drop n).length ≤ bytes.length := by rw [List.length_drop]; omega
    obtain ⟨r, hr⟩ := decode_without_bom_handling_terminates (variantOfUsed v u) (bytes.drop n) fuel (by omega)
    exact ⟨r, u, by simp [hr]⟩

/-! ### the capacity arithmetic (`checked_next_power_of_two`, `checked_min`) -/

theorem le_nextPowerOfTwo (n : Nat) : n ≤ nextPowerOfTwo n := by
  unfold nextPowerOfTwo
  split
  · omega
  · have := @Nat.lt_log2_self (n - 1)
    omega

/-- the first allocation of `decode_without_bom_handling` holds the copied prefix plus the smaller of
the two worst cases: it always suffices for an input without malformed sequences (given C07) and is
never larger than the with-replacement worst case; when it does not suffice the grow loop reserves -/
theorem initialCapacity_bounds (n a b c : Nat) (h : initialCapacity n (some a) (some b) = some c) :
    min (n + a) (n + b) ≤ c ∧ c ≤ n + b := by
  simp only [initialCapacity, checkedNextPowerOfTwo, Option.map_some, checkedMin, Option.some.injEq] at h
  have := le_nextPowerOfTwo (n + a)
  omega

/-- `checked_min` prefers a known value: the `unwrap()` panics only if both worst cases overflow -/
theorem initialCapacity_none_iff (n : Nat) (a b : Option Nat) : initialCapacity n a b = none ↔ a = none ∧ b = none := by
  cases a <;> cases b <;> simp [initialCapacity, checkedNextPowerOfTwo, checkedMin]

example : (List.range 18).map nextPowerOfTwo = [1, 1, 2, 4, 4, 8, 8, 8, 8, 16, 16, 16, 16, 16, 16, 16, 16, 32] := by decide

/-! ### non-vacuity (kernel evaluation of the model) -/

-- EUC-KR, `41 81 FF 42`: ASCII prefix copied, one replacement, not borrowed
example : decodeWithoutBomHandling .eucKr [0x41, 0x81, 0xFF, 0x42] 8 []
    = some ⟨[0x41, 0xFFFD, 0x42], true, false⟩ := by decide +kernel
-- the same input with a one-step `OutputFull` round first (a too small first allocation)
example : decodeWithoutBomHandling .eucKr [0x41, 0x81, 0xFF, 0x42] 8 [[.full 0], []]
    = some ⟨[0x41, 0xFFFD, 0x42], true, false⟩ := by decide +kernel
example : decodeWithoutBomHandlingAndWithoutReplacement .eucKr [0x41, 0x81, 0xFF, 0x42] .unlimited = .ret none := by
  decide +kernel
-- the `unreachable!()` arm is reached by the model only under a stop policy that C07 excludes
example : decodeWithoutBomHandlingAndWithoutReplacement .eucKr [0x41, 0x81, 0xFF, 0x42] (.full 0) = .unreachable := by
  decide +kernel
-- borrows
example : decodeWithoutBomHandling .eucKr [0x41, 0x42] 8 [] = some ⟨[0x41, 0x42], false, true⟩ := by decide +kernel
example : decodeWithoutBomHandling .utf8 [0x41, 0xC3, 0xA9] 8 [] = some ⟨[0x41, 0xE9], false, true⟩ := by decide +kernel
example : decodeWithoutBomHandling .iso2022Jp [0x41, 0x1B, 0x28, 0x42] 8 [] = some ⟨[0x41], false, false⟩ := by
  decide +kernel
example : decodeWithoutBomHandling .utf16Le [] 8 [] = some ⟨[], false, false⟩ := by decide +kernel
-- BOM sniffing overrides the nominal encoding; removal only takes the encoding's own BOM
example : decode .eucKr [0xEF, 0xBB, 0xBF, 0xC3, 0xA9] 8 [] = some (⟨[0xE9], false, true⟩, .utf8) := by decide +kernel
example : decode .utf8 [0xFF, 0xFE, 0x41, 0x00] 8 [] = some (⟨[0x41], false, false⟩, .utf16le) := by decide +kernel
example : decodeWithBomRemoval .utf8 [0xFF, 0xFE, 0x41] 8 [] = some ⟨[0xFFFD, 0xFFFD, 0x41], true, false⟩ := by
  decide +kernel
example : decodeWithBomRemoval .utf16Be [0xFE, 0xFF, 0x00, 0x41] 8 [] = some ⟨[0x41], false, false⟩ := by decide +kernel

/-! ### (e) the capacity arithmetic executed as written: `oneshot_no_unreachable`, termination for
every admissible stop policy (`Model.OneShot.…Cap`, `Lemmas/OneShotCap.lean`)

`Gen.MaxLen.usizeMax = 2^64 - 1`.  `slack` is what the allocator grants beyond the capacity asked
for (`with_capacity` / `reserve` promise "at least"); every statement holds for every slack. -/

open EncodingRs.Lemmas.OneShotCap EncodingRs.Lemmas.MaxLenVariant EncodingRs.Gen.MaxLen

theorem oneShot_validUpTo_le (v : Gen.Variant) (bytes : List Nat) : OneShot.validUpTo v bytes ≤ bytes.length := by
  by_cases h8 : v = .utf8
  · subst h8
    simp only [OneShot.validUpTo, if_true]
    exact EncodingRs.Lemmas.Valid.validUpTo_le bytes
  · rw [validUpTo_eq_upTo v h8]
    exact EncodingRs.Thm.C19.upTo_le _ _

/-- **`oneshot_no_unreachable`** (full strength).  In
`decode_without_bom_handling_and_without_replacement` the arm `DecoderResult::OutputFull => unreachable!()`
is never taken: for each of the 40 encodings, every input, every slack of the allocator and EVERY stop
policy of the single `decode_to_string_without_replacement` call that is admissible for the spare
capacity the code computed (`valid_up_to + max_utf8_buffer_length_without_replacement(len - valid_up_to)`
by `checked_add`, minus the copied prefix).  By C07 (`variant_raw_sufficient`) for the fresh decoder's
state (`Reach.init`). -/
theorem oneshot_no_unreachable (v : Gen.Variant) (bytes : List Nat) (slack : Nat) (budget : Budget)
    (hb : ∀ b ∈ bytes, b < 256) (hadm : NoReplAdmissible v bytes slack budget) :
    decodeWithoutBomHandlingAndWithoutReplacementCap v bytes budget ≠ .ok .unreachable := by
  intro h
  unfold decodeWithoutBomHandlingAndWithoutReplacementCap at h
  by_cases h8 : v = .utf8
  · simp only [h8, if_true] at h
    split at h <;> cases h
  · simp only [h8, if_false] at h
    by_cases hbo : isPotentiallyBorrowable v = true
    · simp only [hbo, if_true] at h
      by_cases hn : validUpToNoRepl v bytes = bytes.length
      · simp only [hn, if_true] at h; cases h
      · simp only [hn, if_false] at h
        cases hc : noReplCapacity v bytes with
        | none => rw [hc] at h; cases h
        | some c =>
          rw [hc] at h
          simp only at h
          have hnf := noRepl_call_not_full v bytes slack budget c hb hc hadm
          have hin : noReplInput v bytes = bytes.drop (validUpToNoRepl v bytes) := by simp [noReplInput, hbo]
          rw [hin] at hnf
          split at h
          · cases h
          · cases h
          · rename_i hfull; exact hnf hfull
    · simp only [hbo, Bool.false_eq_true, if_false] at h
      cases hc : noReplCapacity v bytes with
      | none => rw [hc] at h; cases h
      | some c =>
        rw [hc] at h
        simp only at h
        have hnf := noRepl_call_not_full v bytes slack budget c hb hc hadm
        have hin : noReplInput v bytes = bytes := by simp [noReplInput, hbo]
        rw [hin] at hnf
        split at h
        · cases h
        · cases h
        · rename_i hfull; exact hnf hfull

/-- the precondition on the length: the `.unwrap()` of the capacity panics only if
`3 * len + 13 > usize::MAX` (`len > 6148914691236517200`) -/
theorem without_replacement_panic_length (v : Gen.Variant) (bytes : List Nat) (budget : Budget)
    (h : decodeWithoutBomHandlingAndWithoutReplacementCap v bytes budget = .panic) :
    usizeMax < 3 * bytes.length + 13 := by
  apply Nat.lt_of_not_le
  intro hlen
  have hle : validUpToNoRepl v bytes ≤ bytes.length := by
    by_cases h8 : v = .utf8
    · subst h8
      show (if Gen.Variant.utf8 = .iso2022Jp then _ else asciiValidUpTo bytes) ≤ _
      simp only [reduceCtorEq, if_false]
      rw [EncodingRs.Thm.C19.asciiValidUpTo_eq]; exact EncodingRs.Thm.C19.upTo_le _ _
    · rw [validUpToNoRepl_eq v h8]; exact oneShot_validUpTo_le v bytes
  obtain ⟨c, hc⟩ := noReplCapacity_some v bytes hlen hle
  unfold decodeWithoutBomHandlingAndWithoutReplacementCap at h
  rw [hc] at h
  simp only at h
  by_cases h8 : v = .utf8
  · simp only [h8, if_true] at h
    split at h <;> cases h
  · simp only [h8, if_false] at h
    by_cases hbo : isPotentiallyBorrowable v = true
    · simp only [hbo, if_true] at h
      by_cases hn : validUpToNoRepl v bytes = bytes.length
      · simp only [hn, if_true] at h; cases h
      · simp only [hn, if_false] at h
        split at h <;> cases h
    · simp only [hbo, Bool.false_eq_true, if_false] at h
      split at h <;> cases h

/-- and it does panic there: Big5, no validated prefix, `2 + 2 * len` overflows -/
example : noReplCapacity .big5 (List.replicate 3 0x81) = some 8 := by decide +kernel
example : variantMax .utf8NoRepl .big5 (none : Option Nat) (usizeMax / 2) = none := by decide +kernel

/-- **the without-replacement form, total**: for lengths up to `(usize::MAX - 13) / 3` and every
admissible stop policy it returns `None` / `Some`, `None` exactly when the stream has a malformed
sequence, `Some` of the streaming text otherwise -/
theorem without_replacement_total (v : Gen.Variant) (bytes : List Nat) (slack : Nat) (budget : Budget)
    (hb : ∀ b ∈ bytes, b < 256) (hlen : 3 * bytes.length + 13 ≤ usizeMax)
    (hadm : NoReplAdmissible v bytes slack budget) :
    ∃ r, decodeWithoutBomHandlingAndWithoutReplacementCap v bytes budget = .ok (.ret r) ∧
      (r = none ↔ streamErr v bytes = true) ∧ (∀ t b, r = some (t, b) → t = streamText v bytes) := by
  cases h : decodeWithoutBomHandlingAndWithoutReplacementCap v bytes budget with
  | panic => have := without_replacement_panic_length v bytes budget h; omega
  | diverges =>
    exfalso
    unfold decodeWithoutBomHandlingAndWithoutReplacementCap at h
    by_cases h8 : v = .utf8
    · simp only [h8, if_true] at h
      split at h <;> cases h
    · simp only [h8, if_false] at h
      by_cases hbo : isPotentiallyBorrowable v = true
      · simp only [hbo, if_true] at h
        by_cases hn : validUpToNoRepl v bytes = bytes.length
        · simp only [hn, if_true] at h; cases h
        · simp only [hn, if_false] at h
          cases hc : noReplCapacity v bytes with
          | none => rw [hc] at h; cases h
          | some c => rw [hc] at h; simp only at h; split at h <;> cases h
      · simp only [hbo, Bool.false_eq_true, if_false] at h
        cases hc : noReplCapacity v bytes with
        | none => rw [hc] at h; cases h
        | some c => rw [hc] at h; simp only at h; split at h <;> cases h
  | ok x =>
    cases x with
    | unreachable => exact absurd h (oneshot_no_unreachable v bytes slack budget hb hadm)
    | ret r =>
      have h' := noReplCap_ok v bytes budget _ h
      obtain ⟨k1, k2⟩ := without_replacement_none_iff v bytes budget r h'
      exact ⟨r, rfl, k1, fun t b hh => (k2 t b hh).1⟩

/-- **termination of `decode_without_bom_handling` for EVERY admissible stop policy**, with a fuel
bound: if every inner raw call of every round is admissible for the capacity in force
(`DecodeAdmissible`: first `with_capacity(checked_min(next_power_of_two(valid_up_to +
max_…_without_replacement(rem)), valid_up_to + max_utf8_buffer_length(rem)))`, then after an
`OutputFull` round `reserve(max_utf8_buffer_length(remaining))` in the decoder's current state), the
model with fuel `≥ 10 * len + 10` does not run out of fuel: the grow loop makes at most two rounds
(C07: the reserved capacity is sufficient for the rest — "we should come here at most once"), and each
round's replacement loop makes at most `10 * remaining + 10` inner calls (C08: a `Malformed` return
consumed input or lowered the rank ≤ 9; holds for any stop policy). -/
theorem decode_without_bom_handling_cap_returns (v : Gen.Variant) (bytes : List Nat) (fuel : Nat)
    (slack : List Nat) (bs : List (List Budget)) (hb : ∀ b ∈ bytes, b < 256)
    (hfuel : 10 * bytes.length + 10 ≤ fuel) (hadm : DecodeAdmissible v bytes fuel slack bs) :
    decodeWithoutBomHandlingCap v bytes fuel slack bs ≠ .diverges := by
  intro h
  unfold decodeWithoutBomHandlingCap at h
  unfold DecodeAdmissible at hadm
  by_cases hbo : isPotentiallyBorrowable v = true
  · simp only [hbo, if_true] at h hadm
    by_cases hn : OneShot.validUpTo v bytes = bytes.length
    · simp only [hn, if_true] at h; cases h
    · simp only [hn, if_false] at h
      cases hc : firstCapacity v (OneShot.validUpTo v bytes) (bytes.length - OneShot.validUpTo v bytes) with
      | none => rw [hc] at h; cases h
      | some c =>
        rw [hc] at h
        simp only at h
        have hb' : ∀ b ∈ bytes.drop (OneShot.validUpTo v bytes), b < 256 :=
          fun b hb' => hb b (List.mem_of_mem_drop hb')
        have hl : (bytes.drop (OneShot.validUpTo v bytes)).length ≤ bytes.length := by
          rw [List.length_drop]; omega
        have := growLoopCap_returns v fuel fuel (famOfVariant v).init (bytes.drop (OneShot.validUpTo v bytes))
          (c + slack.headD 0 - OneShot.validUpTo v bytes) slack.tail bs Reach.init hb' (by omega) (by omega)
          (hadm c hc)
        cases hg : growLoopCap v fuel fuel (famOfVariant v).init (bytes.drop (OneShot.validUpTo v bytes))
          (c + slack.headD 0 - OneShot.validUpTo v bytes) slack.tail bs with
        | diverges => exact this hg
        | panic => rw [hg] at h; cases h
        | ok p => rw [hg] at h; cases h
  · simp only [hbo, Bool.false_eq_true, if_false] at h hadm
    cases hc : firstCapacityNB v bytes.length with
    | none => rw [hc] at h; cases h
    | some c =>
      rw [hc] at h
      simp only at h
      have := growLoopCap_returns v fuel fuel (famOfVariant v).init bytes (c + slack.headD 0) slack.tail bs
        Reach.init hb (by omega) (by omega) (hadm c hc)
      cases hg : growLoopCap v fuel fuel (famOfVariant v).init bytes (c + slack.headD 0) slack.tail bs with
      | diverges => exact this hg
      | panic => rw [hg] at h; cases h
      | ok p => rw [hg] at h; cases h

/-- the `.unwrap()`s of `decode_without_bom_handling` (`checked_min(…).unwrap()`, `needed.unwrap()`)
panic only if `3 * len + 13 > usize::MAX`, whatever the stop policy -/
theorem decode_without_bom_handling_panic_length (v : Gen.Variant) (bytes : List Nat) (fuel : Nat)
    (slack : List Nat) (bs : List (List Budget)) (hb : ∀ b ∈ bytes, b < 256)
    (h : decodeWithoutBomHandlingCap v bytes fuel slack bs = .panic) : usizeMax < 3 * bytes.length + 13 := by
  apply Nat.lt_of_not_le
  intro hlen
  have hle := oneShot_validUpTo_le v bytes
  unfold decodeWithoutBomHandlingCap at h
  by_cases hbo : isPotentiallyBorrowable v = true
  · simp only [hbo, if_true] at h
    by_cases hn : OneShot.validUpTo v bytes = bytes.length
    · simp only [hn, if_true] at h; cases h
    · simp only [hn, if_false] at h
      obtain ⟨c, hc⟩ := firstCapacity_some v (OneShot.validUpTo v bytes) (bytes.length - OneShot.validUpTo v bytes)
        (by omega)
      rw [hc] at h
      simp only at h
      have hb' : ∀ b ∈ bytes.drop (OneShot.validUpTo v bytes), b < 256 :=
        fun b hb' => hb b (List.mem_of_mem_drop hb')
      have := growLoopCap_no_panic v fuel fuel (famOfVariant v).init (bytes.drop (OneShot.validUpTo v bytes))
        (c + slack.headD 0 - OneShot.validUpTo v bytes) slack.tail bs Reach.init hb'
        (by rw [List.length_drop]; omega)
      cases hg : growLoopCap v fuel fuel (famOfVariant v).init (bytes.drop (OneShot.validUpTo v bytes))
        (c + slack.headD 0 - OneShot.validUpTo v bytes) slack.tail bs with
      | panic => exact this hg
      | diverges => rw [hg] at h; cases h
      | ok p => rw [hg] at h; cases h
  · simp only [hbo, Bool.false_eq_true, if_false] at h
    obtain ⟨c, hc⟩ := firstCapacityNB_some v bytes.length hlen
    rw [hc] at h
    simp only at h
    have := growLoopCap_no_panic v fuel fuel (famOfVariant v).init bytes (c + slack.headD 0) slack.tail bs
      Reach.init hb hlen
    cases hg : growLoopCap v fuel fuel (famOfVariant v).init bytes (c + slack.headD 0) slack.tail bs with
    | panic => exact this hg
    | diverges => rw [hg] at h; cases h
    | ok p => rw [hg] at h; cases h

/-- **(a) in total form for every admissible policy**: the capacity-aware model of
`decode_without_bom_handling` returns, and what it returns is the streaming result -/
theorem decode_without_bom_handling_cap_total (v : Gen.Variant) (bytes : List Nat) (fuel : Nat)
    (slack : List Nat) (bs : List (List Budget)) (hb : ∀ b ∈ bytes, b < 256)
    (hlen : 3 * bytes.length + 13 ≤ usizeMax) (hfuel : 10 * bytes.length + 10 ≤ fuel)
    (hadm : DecodeAdmissible v bytes fuel slack bs) :
    ∃ r, decodeWithoutBomHandlingCap v bytes fuel slack bs = .ok r ∧
      r.text = streamText v bytes ∧ r.hadErrors = streamErr v bytes := by
  cases h : decodeWithoutBomHandlingCap v bytes fuel slack bs with
  | diverges => exact absurd h (decode_without_bom_handling_cap_returns v bytes fuel slack bs hb hfuel hadm)
  | panic => have := decode_without_bom_handling_panic_length v bytes fuel slack bs hb h; omega
  | ok r =>
    exact ⟨r, rfl, decode_without_bom_handling_eq_stream v bytes fuel bs r
      (decodeWithoutBomHandlingCap_ok v bytes fuel slack bs r h)⟩

/-- the same for `decode` (BOM sniffing first) and `decode_with_bom_removal`: admissibility is that of
the `decode_without_bom_handling` call they end in -/
theorem decode_with_bom_removal_cap_total (v : Gen.Variant) (bytes : List Nat) (fuel : Nat)
    (slack : List Nat) (bs : List (List Budget)) (hb : ∀ b ∈ bytes, b < 256)
    (hlen : 3 * bytes.length + 13 ≤ usizeMax) (hfuel : 10 * bytes.length + 10 ≤ fuel)
    (hadm : DecodeAdmissible v (withoutOwnBom v bytes) fuel slack bs) :
    ∃ r, decodeWithBomRemovalCap v bytes fuel slack bs = .ok r ∧
      decodeWithBomRemoval v bytes fuel bs = some r := by
  have hl := withoutOwnBom_length_le v bytes
  have hb' : ∀ b ∈ withoutOwnBom v bytes, b < 256 := by
    intro b hm
    unfold withoutOwnBom at hm
    repeat' split at hm
    all_goals first | exact hb b (List.mem_of_mem_drop hm) | exact hb b hm
  obtain ⟨r, hr, _⟩ := decode_without_bom_handling_cap_total v (withoutOwnBom v bytes) fuel slack bs hb'
    (by omega) (by omega) hadm
  exact ⟨r, hr, decodeWithoutBomHandlingCap_ok v _ fuel slack bs r hr⟩

theorem decode_cap_total (v : Gen.Variant) (bytes : List Nat) (fuel : Nat)
    (slack : List Nat) (bs : List (List Budget)) (hb : ∀ b ∈ bytes, b < 256)
    (hlen : 3 * bytes.length + 13 ≤ usizeMax) (hfuel : 10 * bytes.length + 10 ≤ fuel)
    (hadm : match forBom bytes with
      | some (u, n) => DecodeAdmissible (variantOfUsed v u) (bytes.drop n) fuel slack bs
      | none => DecodeAdmissible v bytes fuel slack bs) :
    ∃ r u, decodeCap v bytes fuel slack bs = .ok (r, u) ∧ decode v bytes fuel bs = some (r, u) := by
  unfold decodeCap decode
  cases hf : forBom bytes with
  | none =>
    rw [hf] at hadm
    simp only at hadm ⊢
    obtain ⟨r, hr, _⟩ := decode_without_bom_handling_cap_total v bytes fuel slack bs hb hlen hfuel hadm
    refine ⟨r, .nominal, by rw [hr]; rfl, ?_⟩
    rw [decodeWithoutBomHandlingCap_ok v _ fuel slack bs r hr]; rfl
  | some p =>
    obtain ⟨u, n⟩ := p
    rw [hf] at hadm
    simp only at hadm ⊢
    have hl : (bytes.drop n).length ≤ bytes.length := by rw [List.length_drop]; omega
    obtain ⟨r, hr, _⟩ := decode_without_bom_handling_cap_total (variantOfUsed v u) (bytes.drop n) fuel slack bs
      (fun b hm => hb b (List.mem_of_mem_drop hm)) (by omega) (by omega) hadm
    refine ⟨r, u, by rw [hr]; rfl, ?_⟩
    rw [decodeWithoutBomHandlingCap_ok _ _ fuel slack bs r hr]; rfl

/-! ### (f) `Encoding::encode`

The reference is `erefHtml (efamOfVariant vo) init text` — by C03 `encode_conforms` the output of the
Standard's "encode" (error mode html) of the output encoding on `text`, and by C04
`enc_history_eq_ref` + `erefHtml_eq` what ANY protocol-following streaming history of the `Encoder`
yields when every `Unmappable(c)` is written as `&#c;`. -/

open EncodingRs.Lemmas.OneShotEnc EncodingRs.Lemmas.EncCore

/-- the bytes of the `&str` argument: the UTF-8 form of a text of scalar values; `Utf8Source` reads
the text back (C03 `utf8_source_reads`) -/
theorem chars_utf8 (text : List Nat) (ht : ∀ c ∈ text, c < 0x110000) :
    chars false (Spec.Conv.utf8EncodeAll text) = text := by
  unfold chars
  show (items8 (Spec.Conv.utf8EncodeAll text)).map Prod.fst = text
  rw [Thm.C03.utf8_source_reads text ht, List.map_map]
  simp [Function.comp_def]

/-- the documented borrow condition of `encode`, on the variant of the output encoding -/
def EncBorrowCond (vo : Gen.Variant) (bytes : List Nat) : Prop :=
  vo = .utf8 ∨
  (vo = .iso2022Jp ∧ ∀ b ∈ bytes, b < 0x80 ∧ b ≠ 0x0E ∧ b ≠ 0x0F ∧ b ≠ 0x1B) ∨
  (vo ≠ .utf8 ∧ vo ≠ .iso2022Jp ∧ ∀ b ∈ bytes, b < 0x80)

theorem passPred_all_iff (vo : Gen.Variant) (h8 : vo ≠ .utf8) (bytes : List Nat) :
    (∀ b ∈ bytes, passPred vo b = true) ↔ EncBorrowCond vo bytes := by
  unfold EncBorrowCond passPred
  by_cases hi : vo = .iso2022Jp
  · simp [hi]
  · simp [hi, h8]

/-- **C11 (f), bytes and flag**: for every output-encoding variant, every text, every stop policy of
every inner raw call, every slack of the allocator and every number of `OutputFull` / `reserve_exact`
rounds: whenever the model of `encode` returns, the bytes are the reference (`erefHtml` = the Standard's
html-mode encode, C03) of the WHOLE text and `had_unmappables` says whether the reference run of the raw
API reports an unmappable character -/
theorem encodeV_eq_stream (vo : Gen.Variant) (text bytes : List Nat) (fuel : Nat) (slack : List Nat)
    (bs : List (List Budget)) (r : EncRes) (ht : ∀ c ∈ text, c < 0x110000)
    (hbytes : bytes = Spec.Conv.utf8EncodeAll text) (h : encodeV vo bytes fuel slack bs = .ok r) :
    r.bytes = Lemmas.ConformEnc.erefHtml (efamOfVariant vo) (efamOfVariant vo).init text ∧
    r.hadUnmappables = anyUnmap (eref (efamOfVariant vo) (efamOfVariant vo).init text) := by
  have hchars : chars false bytes = text := by rw [hbytes]; exact chars_utf8 text ht
  rw [erefHtml_eq]
  unfold encodeV at h
  by_cases h8 : vo = .utf8
  · simp only [h8, if_true, Outcome.ok.injEq] at h
    subst h
    rw [h8]
    obtain ⟨u1, u2⟩ := utf8_eref text
    exact ⟨by rw [hbytes]; exact u1.symm, u2.symm⟩
  · simp only [h8, if_false] at h
    have hsplit := chars_ascii_prefix (passPred vo) (passPred_ascii vo) bytes
    rw [← validUpToNoRepl_upTo, hchars] at hsplit
    have hpre : ∀ c ∈ bytes.take (validUpToNoRepl vo bytes), passPred vo c = true := by
      rw [validUpToNoRepl_upTo]; exact upTo_take_all _ _
    have href := eref_pass vo (bytes.take (validUpToNoRepl vo bytes))
      (chars false (bytes.drop (validUpToNoRepl vo bytes))) hpre
    rw [← hsplit] at href
    by_cases hn : validUpToNoRepl vo bytes = bytes.length
    · simp only [hn, if_true, Outcome.ok.injEq] at h
      subst h
      have hnil : eref (efamOfVariant vo) (efamOfVariant vo).init (chars false (bytes.drop bytes.length)) = [] := by
        rw [List.drop_length]; unfold chars; rw [Lemmas.ConformEnc.itemsFn_nil]; simp [eref, init_eof_nil]
      rw [hn, hnil, List.take_length, List.append_nil] at href
      rw [href, htmlE_bytes, anyUnmap_bytes]
      exact ⟨rfl, rfl⟩
    · simp only [hn, if_false] at h
      cases hc : Gen.MaxLen.U.addO (validUpToNoRepl vo bytes)
          (encMaxIfNoUnmappables false vo (bytes.length - validUpToNoRepl vo bytes)) with
      | none => rw [hc] at h; cases h
      | some c0 =>
        rw [hc] at h
        simp only at h
        obtain ⟨p, hp, hf⟩ := map_ok _ _ _ h
        obtain ⟨o, e⟩ := p
        obtain ⟨j1, j2⟩ := encodeLoop_sound vo fuel fuel _ _ _ _ _ _ o e hp
        simp only at hf
        subst hf
        simp only
        rw [href, htmlE_append, htmlE_bytes, anyUnmap_append, anyUnmap_bytes, j1, j2]
        exact ⟨rfl, by simp⟩

/-- `had_unmappables` in words: some `Unmappable` report occurs in the reference run -/
theorem anyUnmap_iff (l : List EEv) : anyUnmap l = true ↔ ∃ u, EEv.unmap u ∈ l := by
  induction l with
  | nil => simp [anyUnmap]
  | cons a t ih =>
    cases a with
    | byte b => simp [anyUnmap, ih]
    | unmap u => simp only [anyUnmap, true_iff]; exact ⟨u, List.mem_cons_self ..⟩

/-- **C11 (f), borrowing**: `Cow::Borrowed` iff the documented condition (output encoding UTF-8:
always; ISO-2022-JP: every byte ASCII other than 0E / 0F / 1B; otherwise: every byte ASCII); a borrowed
result is the input itself with `had_unmappables = false`.  No hypothesis on the input. -/
theorem encodeV_borrow_iff (vo : Gen.Variant) (bytes : List Nat) (fuel : Nat) (slack : List Nat)
    (bs : List (List Budget)) (r : EncRes) (h : encodeV vo bytes fuel slack bs = .ok r) :
    (r.borrowed = true ↔ EncBorrowCond vo bytes) ∧
    (r.borrowed = true → r.bytes = bytes ∧ r.hadUnmappables = false) := by
  unfold encodeV at h
  by_cases h8 : vo = .utf8
  · simp only [h8, if_true, Outcome.ok.injEq] at h
    subst h
    exact ⟨⟨fun _ => Or.inl h8, fun _ => rfl⟩, fun _ => ⟨rfl, rfl⟩⟩
  · simp only [h8, if_false] at h
    by_cases hn : validUpToNoRepl vo bytes = bytes.length
    · simp only [hn, if_true, Outcome.ok.injEq] at h
      subst h
      refine ⟨⟨fun _ => ?_, fun _ => rfl⟩, fun _ => ⟨rfl, rfl⟩⟩
      rw [validUpToNoRepl_upTo, upTo_eq_length_iff] at hn
      exact (passPred_all_iff vo h8 bytes).mp hn
    · simp only [hn, if_false] at h
      cases hc : Gen.MaxLen.U.addO (validUpToNoRepl vo bytes)
          (encMaxIfNoUnmappables false vo (bytes.length - validUpToNoRepl vo bytes)) with
      | none => rw [hc] at h; cases h
      | some c0 =>
        rw [hc] at h
        simp only at h
        obtain ⟨p, _, hf⟩ := map_ok _ _ _ h
        obtain ⟨o, e⟩ := p
        simp only at hf
        subst hf
        refine ⟨⟨fun hh => (by cases hh), fun hcond => ?_⟩, fun hh => (by cases hh)⟩
        exfalso
        apply hn
        rw [validUpToNoRepl_upTo, upTo_eq_length_iff]
        exact (passPred_all_iff vo h8 bytes).mpr hcond

/-- **C11 (f), encoding used**: `encode` reports `output_encoding()` and encodes with the encoder
`output_encoding().new_encoder()` constructs (C20 `newEncoder_eq`); the model's variant test
`vo = .utf8` is the Rust's `output_encoding == UTF_8` -/
theorem encode_used (i : Nat) (bytes : List Nat) (fuel : Nat) (slack : List Nat) (bs : List (List Budget))
    (r : EncRes) (u : Nat) (h : OneShot.encode i bytes fuel slack bs = .ok (r, u)) :
    u = Meta.outputEncoding i ∧ encodeV (Meta.variantAt (Meta.outputEncoding i)) bytes fuel slack bs = .ok r := by
  unfold OneShot.encode at h
  obtain ⟨a, ha, hf⟩ := map_ok _ _ _ h
  simp only [Prod.mk.injEq] at hf
  exact ⟨hf.2.symm, by rw [ha, hf.1]⟩

theorem outputEncoding_lt (i : Nat) (hi : i < 40) : Meta.outputEncoding i < 40 := by
  unfold Meta.outputEncoding
  split
  · decide
  · exact hi

theorem encode_encoder (i : Nat) (hi : i < 40) :
    Meta.newEncoder (Meta.outputEncoding i) = some (efamOfVariant (Meta.variantAt (Meta.outputEncoding i))) :=
  Thm.C20.newEncoder_eq _ (outputEncoding_lt i hi)

theorem outputEncoding_utf8_iff :
    (List.range 40).all (fun i =>
      decide (Meta.variantAt (Meta.outputEncoding i) = .utf8 ↔ Meta.outputEncoding i = Gen.utf8Idx)) = true := by
  decide +kernel

/-- **C11 (f), the Standard**: for each of the 40 encodings `e` that is its own output encoding
(all but UTF-16BE/LE/replacement, whose output encoding is UTF-8), the bytes `encode` returns are the
output of the Standard's "encode" of that encoding, error mode html, on the text -/
theorem encodeV_conforms (e : Gen.EncodingInit) (he : e ∈ Gen.encodings) (text bytes : List Nat) (fuel : Nat)
    (slack : List Nat) (bs : List (List Budget)) (r : EncRes) (ht : ∀ c ∈ text, c < 0x110000)
    (hbytes : bytes = Spec.Conv.utf8EncodeAll text) (h : encodeV e.variant bytes fuel slack bs = .ok r) :
    ∃ E : Spec.Encode.Encoder, Spec.Encode.encoderOfName (Spec.Encode.outputEncodingName e.name) = some E ∧
      Spec.Encode.Runs E .html E.init text (r.bytes.map Spec.Encode.Ev.byte) := by
  obtain ⟨E, hE, _, hhtml⟩ := Thm.C03.encode_conforms e he text ht
  exact ⟨E, hE, by rw [(encodeV_eq_stream e.variant text bytes fuel slack bs r ht hbytes h).1]; exact hhtml⟩

/-- against the streaming `Encoder` directly: **any** protocol-following history `ev` of raw encoder
calls over the text (C04 `EProto`: any chunking at character boundaries, any capacities, either source
form) yields, with `&#c;` written for each `Unmappable(c)`, the bytes `encode` returns, and reports an
unmappable character iff `encode` says `had_unmappables` -/
theorem encodeV_eq_any_history (vo : Gen.Variant) (text bytes : List Nat) (fuel : Nat) (slack : List Nat)
    (bs : List (List Budget)) (r : EncRes) (ht : ∀ c ∈ text, c < 0x110000)
    (hbytes : bytes = Spec.Conv.utf8EncodeAll text) (h : encodeV vo bytes fuel slack bs = .ok r)
    (ev : List EEv) (hist : Thm.C04.EProto (efamOfVariant vo) (efamOfVariant vo).init text ev) :
    r.bytes = htmlE ev ∧ (r.hadUnmappables = true ↔ ∃ u, EEv.unmap u ∈ ev) := by
  obtain ⟨k1, k2⟩ := encodeV_eq_stream vo text bytes fuel slack bs r ht hbytes h
  rw [Thm.C04.enc_history_eq_ref _ (Thm.C04.variant_elaws vo) _ _ _ hist]
  exact ⟨by rw [k1, erefHtml_eq], by rw [k2, anyUnmap_iff]⟩

/-! ### non-vacuity of (e) and (f) (kernel evaluation; admissibility through the executable checkers
`Lemmas.OneShotCap.decodeAdmissibleB` / `noReplAdmissibleB`, proved sound) -/

section NonVacuity

/-- EUC-KR, `41 FF FF FF FF FF FF`: one validated byte, six malformed bytes.  The first allocation is
`min(next_power_of_two(1 + 11), 1 + 18) = 16` bytes, 15 of them spare; six U+FFFD need 18. -/
def demoInput : List Nat := [0x41, 0xFF, 0xFF, 0xFF, 0xFF, 0xFF, 0xFF]
/-- five inner calls run to their `Malformed`, the sixth finds no room and stops; second round unstopped -/
def demoPolicy : List (List Budget) := [[.unlimited, .unlimited, .unlimited, .unlimited, .unlimited, .full 0], []]

example : firstCapacity .eucKr 1 6 = some 16 := by decide +kernel
/-- this policy, with an `OutputFull` round and one `reserve`, is admissible for the computed capacities … -/
example : DecodeAdmissible .eucKr demoInput 80 [] demoPolicy :=
  decodeAdmissibleB_sound _ _ _ _ _ (by decide +kernel)
/-- … the model returns the streaming result (as `decode_without_bom_handling_cap_total` says) … -/
example : decodeWithoutBomHandlingCap .eucKr demoInput 80 [] demoPolicy
    = .ok ⟨[0x41, 0xFFFD, 0xFFFD, 0xFFFD, 0xFFFD, 0xFFFD, 0xFFFD], true, false⟩ := by decide +kernel
/-- … whereas "never stop" is NOT admissible for an exact allocation of 16 bytes (18 would be written
into 15), and is admissible when the allocator grants 3 bytes more -/
example : decodeAdmissibleB .eucKr demoInput 80 [] [] = false ∧ decodeAdmissibleB .eucKr demoInput 80 [3] [] = true := by
  decide +kernel

/-- the without-replacement form, Shift_JIS `41 B1` (half-width katakana): capacity `1 + 3 * 1 = 4`; not
stopping is admissible and yields U+FF71 (3 bytes into the 3 spare bytes); stopping before the first
byte (the only way into `unreachable!()`) is not admissible for 3 spare bytes -/
example : noReplCapacity .shiftJis [0x41, 0xB1] = some 4 := by decide +kernel
example : NoReplAdmissible .shiftJis [0x41, 0xB1] 0 .unlimited :=
  (noReplAdmissibleB_iff _ _ _ _).mp (by decide +kernel)
example : decodeWithoutBomHandlingAndWithoutReplacementCap .shiftJis [0x41, 0xB1] .unlimited
    = .ok (.ret (some ([0x41, 0xFF71], false))) := by decide +kernel
example : decodeWithoutBomHandlingAndWithoutReplacementCap .shiftJis [0x41, 0xB1] (.full 0) = .ok .unreachable ∧
    ¬ NoReplAdmissible .shiftJis [0x41, 0xB1] 0 (.full 0) := by
  refine ⟨by decide +kernel, fun h => ?_⟩
  have := (noReplAdmissibleB_iff _ _ _ _).mpr h
  revert this
  decide +kernel

/-- `encode`: "Aé" to EUC-KR (unmappable, numeric character reference, owned), to ISO-2022-JP "Aあ"
(escape sequences, end-of-stream escape), borrows, UTF-16LE encodes as UTF-8 -/
example : encodeV .eucKr [0x41, 0xC3, 0xA9] 40 [] [] = .ok ⟨[0x41, 0x26, 0x23, 0x32, 0x33, 0x33, 0x3B], true, false⟩ := by
  decide +kernel
example : encodeV .iso2022Jp [0x41, 0xE3, 0x81, 0x82] 40 [] []
    = .ok ⟨[0x41, 0x1B, 0x24, 0x42, 0x24, 0x22, 0x1B, 0x28, 0x42], false, false⟩ := by decide +kernel
example : encodeV .iso2022Jp [0x41, 0x42] 40 [] [] = .ok ⟨[0x41, 0x42], false, true⟩ := by decide +kernel
example : encodeV .iso2022Jp [0x41, 0x1B] 40 [] []
    = .ok ⟨[0x41, 0x26, 0x23, 0x36, 0x35, 0x35, 0x33, 0x33, 0x3B], true, false⟩ := by decide +kernel
example : OneShot.encode 23 [0x41, 0xC3, 0xA9] 40 [] [] = .ok (⟨[0x41, 0xC3, 0xA9], false, true⟩, Gen.utf8Idx) ∧
    Meta.nameAt 23 = "UTF-16LE" := by decide +kernel

end NonVacuity

/- Status of the items that were PENDING here:

   * `oneshot_no_unreachable`: PROVED at full strength (section (e)), with `without_replacement_total` and
     the explicit length precondition `3 * len + 13 ≤ usize::MAX` for the `.unwrap()` panics
     (`without_replacement_panic_length`).
   * termination of the two loops of `decode_without_bom_handling` for EVERY admissible stop policy: PROVED
     (`decode_without_bom_handling_cap_returns`, fuel bound `10 * len + 10`; at most two rounds of the grow
     loop: `Lemmas.OneShotCap.growLoopCap_returns` / `growLoopCap_two_rounds`; the replacement loop
     terminates for every stop policy whatsoever: `replLoop_terminates_any`), in total form
     `decode_without_bom_handling_cap_total` / `decode_cap_total` / `decode_with_bom_removal_cap_total`.
   * `Encoding::encode`: modelled (`Model.OneShot.encode` / `encodeV` / `encodeLoop`, capacity arithmetic
     included) and PROVED equal to the reference for every stop policy under which the model returns
     (section (f)).
   * termination of `Encoding::encode` (formerly `encode_terminates_partial`) and the length precondition
     that excludes its `panic` outcome: PROVED in `Thm/C11EncTerm.lean` (`encodeV_terminates`,
     `encodeV_panic_length`, `encodeV_total`; precondition `204 * len + 142 ≤ usize::MAX`, fuel `≥ len + 2`,
     every admissible stop policy, every slack).

   Still partial:

   * `String::with_capacity` / `reserve` / `Vec::reserve_exact` are modelled by their documented contract
     ("at least"), their own panics (capacity above `isize::MAX`, allocation failure) are outside the model. -/

end EncodingRs.Thm.C11
