import EncodingRs.Model.Decoder
import EncodingRs.Model.Unicode
/-!
# C18 — written output is fully determined by the input, never by the buffer's old bytes

In the streaming models a call's result has no access to the destination's old
contents; to make that a real statement the memory-level wrapper `callMem`
threads an arbitrary old buffer through the call: the new buffer is the units
of the model's output stored over the old contents.
-/
namespace EncodingRs.Thm.C18
open EncodingRs EncodingRs.Model

def encodeUnits (k : Sink) (cs : List Nat) : List Nat :=
  match k with
  | .utf8 => cs.flatMap encodeUtf8
  | .utf16 => cs.flatMap encodeUtf16

/-- destination after the call: the written units, then what was there before -/
def store (old units : List Nat) : List Nat := units ++ old.drop units.length

structure MemRes (σ : Type) where
  r : CallRes σ
  written : Nat
  dst : List Nat

def callMem (F : Fam) (k : Sink) (old : List Nat) (s : F.σ) (src : List Nat) (last : Bool) (b : Budget) : MemRes F.σ :=
  let r := call F k s src last b
  ⟨r, (encodeUnits k r.out).length, store old (encodeUnits k r.out)⟩

/-- all return values and the written prefix are the same whatever the destination held before -/
theorem call_independent_of_dst (F : Fam) (k : Sink) (old₁ old₂ : List Nat) (s : F.σ) (src : List Nat)
    (last : Bool) (b : Budget) :
    (callMem F k old₁ s src last b).r = (callMem F k old₂ s src last b).r ∧
    (callMem F k old₁ s src last b).written = (callMem F k old₂ s src last b).written ∧
    (callMem F k old₁ s src last b).dst.take (callMem F k old₁ s src last b).written
      = (callMem F k old₂ s src last b).dst.take (callMem F k old₂ s src last b).written := by
  refine ⟨rfl, rfl, ?_⟩
  simp [callMem, store]

/-- every unit of the written prefix is stored by the call -/
theorem prefix_fully_stored (old units : List Nat) (i : Nat) (h : i < units.length) :
    (store old units)[i]? = units[i]? := by
  unfold store
  rw [List.getElem?_append_left h]

/-- bytes beyond `written` keep their old value when the buffer was at least that long -/
theorem beyond_written_unmodified (old units : List Nat) (i : Nat) (h : units.length ≤ i) :
    (store old units)[i]? = old[i]? := by
  unfold store
  rw [List.getElem?_append_right h, List.getElem?_drop]
  congr 1; omega

example : (callMem eucKrFam .utf8 [0xA5, 0xA5, 0xA5, 0xA5] eucKrFam.init [0x41] false .unlimited).dst
    = [0x41, 0xA5, 0xA5, 0xA5] := by decide +kernel

end EncodingRs.Thm.C18
