import EncodingRs.Thm.C02Life
import EncodingRs.Thm.C10Full
/-!
# C02 through the BOM life cycle, without side condition

`Thm/C02Life.lean` (`decoder_histories_agree`) is about histories `C10.DHist`, which carry the
hypothesis that a `BB` left pending in `ConvertingWithPendingBB` is replayable.  `Thm/C10Full.lean`
proves that hypothesis as an invariant of every decoder made by `Decoder.new`; here the C02
statements over `C10.DHistFull` (the same histories without the hypothesis).
-/
namespace EncodingRs.Thm.C02
open EncodingRs EncodingRs.Model EncodingRs.Lemmas.Life EncodingRs.Thm.C10

/-- **C02 for the `Decoder`, no side condition**: two histories (`DHistFull`: any cuts incl. inside
the potential BOM, any stop policies, sink per call) over the same stream from a decoder as made by
`new_decoder` / `new_decoder_with_bom_removal` / `new_decoder_without_bom_handling` agree on the
events and on the final `encoding()`; both are the documented ones (`dref`, `drefTag`). -/
theorem decoder_histories_agree_full (v : Gen.Variant) (nom : Nominal) (bom : BomHandling) (stream : List Nat)
    (e₁ e₂ : List Ev) (d₁ d₂ : Decoder (famOfVariant v))
    (h₁ : DHistFull (Decoder.new (famOfVariant v) nom bom) 0 stream e₁ d₁)
    (h₂ : DHistFull (Decoder.new (famOfVariant v) nom bom) 0 stream e₂ d₂) :
    e₁ = e₂ ∧ curTag d₁.cur = curTag d₂.cur ∧
    e₁ = dref (Decoder.new (famOfVariant v) nom bom) stream 0 ∧
    curTag d₁.cur = drefTag (Decoder.new (famOfVariant v) nom bom) stream := by
  have a₁ := new_decoder_history_full v nom bom stream e₁ d₁ h₁
  have a₂ := new_decoder_history_full v nom bom stream e₂ d₂ h₂
  have t₁ := dhist_full_tag _ 0 stream e₁ d₁ h₁
  have t₂ := dhist_full_tag _ 0 stream e₂ d₂ h₂
  exact ⟨a₁.trans a₂.symm, t₁.trans t₂.symm, a₁, t₁⟩

/-- text and had-errors answer, no side condition -/
theorem decoder_text_agree_full (v : Gen.Variant) (nom : Nominal) (bom : BomHandling) (stream : List Nat)
    (e₁ e₂ : List Ev) (d₁ d₂ : Decoder (famOfVariant v))
    (h₁ : DHistFull (Decoder.new (famOfVariant v) nom bom) 0 stream e₁ d₁)
    (h₂ : DHistFull (Decoder.new (famOfVariant v) nom bom) 0 stream e₂ d₂) (repl : Bool) :
    textOf repl e₁ = textOf repl e₂ ∧ hadErrors e₁ = hadErrors e₂ := by
  rw [(decoder_histories_agree_full v nom bom stream e₁ e₂ d₁ d₂ h₁ h₂).1]
  exact ⟨rfl, rfl⟩

end EncodingRs.Thm.C02
