import EncodingRs.Thm.C11
import EncodingRs.Thm.C06Enc
import EncodingRs.Thm.C08Enc
/-!
# C11 — `Encoding::encode` returns: termination of its loop and the length precondition of its panics

`Model.OneShot.encodeLoop` is the `loop` of `Encoding::encode` (lib.rs) with its capacity arithmetic:
one `encode_from_utf8_to_vec` per round, on `OutputFull`
`needed = max_buffer_length_from_utf8_if_no_unmappables(rest)`,
`rounded = checked_add(vec.capacity(), needed).unwrap().next_power_of_two()`,
`vec.reserve_exact(rounded - vec.len())`.  Outcomes of the model: `.ok`, `.panic` (the `.unwrap()`, or
`rounded - vec.len()` underflowing after `next_power_of_two` wrapped), `.diverges` (fuel exhausted).

* `EncodeAdmissible` / `EncodeVAdmissible`: the stop policy `bs` of the inner raw calls is admissible
  for the capacities the code computes (each round: `Lemmas.EncMaxLenVariant.InnerAdmissible`);
* `encRepl_outputFull_read_pos`: a with-replacement call whose destination holds at least
  `max_buffer_length_from_utf8_if_no_unmappables(src.len())` bytes and that nevertheless returns
  `OutputFull` replaced something (C07 `enc_repl_sufficient_had`) and therefore consumed at least one
  unit — every round of the loop of `encode` is in that situation, so the number of rounds is at most
  `src.len() + 1`;
* `encRepl_outputFull_filled`: an `OutputFull` return left at most 13 bytes of the destination unused —
  so the capacity at that moment is bounded by the output, whatever the allocator granted;
* **`encodeLoop_outcome`**, **`encodeV_terminates`** (was `encode_terminates_partial`), `encode_terminates`:
  for every admissible stop policy and every allocator slack, under the length precondition
  `204 * len + 142 ≤ usize::MAX`, the model returns `.ok` for every fuel `≥ len + 2`;
* **`encodeV_panic_length`**: a `panic` outcome implies `usize::MAX < 204 * len + 142` (no fuel
  hypothesis) — the analogue of `without_replacement_panic_length`;
* `encodeV_total`: total correctness (`encodeV_eq_stream` without the "whenever it returns").

Observation (not reachable on a 64-bit target, see NOTES-corB.md): the length precondition is needed
for termination too — when `next_power_of_two` wraps to 0 (release build) while the `Vec` is still
empty, `rounded - vec.len() = 0`, `reserve_exact(0)` is a no-op and the loop repeats
(`encodeLoop_wrap_diverges`).
-/
namespace EncodingRs.Thm.C11EncTerm
open EncodingRs EncodingRs.Model EncodingRs.Model.OneShot EncodingRs.Lemmas.EncCore
open EncodingRs.Lemmas.EncPotential EncodingRs.Lemmas.EncSide EncodingRs.Lemmas.EncMaxLenVariant
open EncodingRs.Lemmas.EncMaxLenArith EncodingRs.Lemmas.OneShotEnc EncodingRs.Lemmas.OneShotCap
open EncodingRs.Gen.MaxLen
open EncodingRs.Thm.C08Enc EncodingRs.Thm.C06Enc
open EncodingRs.Lemmas.OneShot (passPred passPred_ascii)

/-! ## arithmetic -/

theorem nextPowerOfTwo_le (n : Nat) : nextPowerOfTwo n ≤ 2 * n + 1 := by
  unfold nextPowerOfTwo
  split
  · omega
  · rename_i h
    have h1 : n - 1 ≠ 0 := by omega
    have := Nat.log2_self_le h1
    rw [Nat.pow_succ]
    omega

theorem nextPowerOfTwoU_eq (n : Nat) (h : 2 * n + 1 ≤ usizeMax) : nextPowerOfTwoU n = nextPowerOfTwo n := by
  unfold nextPowerOfTwoU
  have := nextPowerOfTwo_le n
  rw [if_pos (by omega)]

theorem encMaxNat_utf8_le (v : Gen.Variant) (n : Nat) : encMaxNat false v n ≤ 3 * n + 3 := by
  cases v <;> simp only [encMaxNat, Bool.false_eq_true, if_false] <;> omega

theorem ncrExtra_eq : Gen.ncrExtra = 10 := rfl

theorem encMaxIfNoUnmappablesNat_le (v : Gen.Variant) (n : Nat) :
    encMaxIfNoUnmappablesNat false v n ≤ 3 * n + 13 := by
  unfold encMaxIfNoUnmappablesNat
  have := encMaxNat_utf8_le v n
  have := ncrExtra_eq
  split <;> omega

/-- below the overflow region the query answers its natural-number value -/
theorem encMaxIfNoUnmappables_some (v : Gen.Variant) (n : Nat) (h : 3 * n + 13 ≤ usizeMax) :
    encMaxIfNoUnmappables false v n = some (encMaxIfNoUnmappablesNat false v n) := by
  have := encMaxIfNoUnmappablesNat_le v n
  exact (encMaxIfNoUnmappables_exact false v n _ (by omega)).mpr ⟨rfl, by omega⟩

/-! ## one with-replacement call: `OutputFull` fills the destination, and replaced ⇒ consumed -/

theorem go_filled (E : EFam) (hb : ENeedsBounded E) {utf16 last : Bool} {src : List Nat} {eff : Nat} {s : E.σ}
    {budgets : List Budget} {tr tw : Nat} {acc : List Nat} {had : Bool}
    {inner : List (Nat × Nat × ERes × Nat)} {t : EReplRes E.σ}
    (h : GoRel E utf16 last src eff s budgets tr tw acc had inner t) :
    acc.length = tw → InnerAdmissible t.inner → t.res = .outputFull → eff ≤ t.out.length + 3 := by
  induction h with
  | stop s budgets tr tw acc had inner r hr hres =>
    intro hacc hadm hfull
    simp only at hfull hadm ⊢
    have h1 := (hadm (eff - tw, r.out.length, r.res, r.stopNeed) (by simp)).2 hfull
    have h2 : r.stopNeed ≤ encMinCap := by rw [hr]; exact ecall_stopNeed_le E encMinCap hb utf16 s _ last _
    unfold encMinCap at h2
    simp only [List.length_append] at h1 ⊢
    omega
  | unmapEnd s budgets tr tw acc had inner r c hr hres hfull hend => intro _ _ h; cases h
  | unmapFull s budgets tr tw acc had inner r c hr hres hfull hend =>
    intro hacc _ _
    simp only [List.length_append]
    omega
  | unmapCont s budgets tr tw acc had inner r c t hr hres hroom hnext ih =>
    intro hacc hadm hfull
    exact ih (by simp only [List.length_append]; omega) hadm hfull

/-- **an `OutputFull` return left at most 13 bytes unused** (`NCR_EXTRA` + one character − 1): either
the destination was shorter than `NCR_EXTRA`, or an inner call stopped for want of at most four bytes,
or a numeric character reference reached into the reserve -/
theorem encRepl_outputFull_filled (E : EFam) (hb : ENeedsBounded E) (canAll utf16 last : Bool) (cap fuel : Nat)
    (s : E.σ) (src : List Nat) (budgets : List Budget) (t : EReplRes E.σ)
    (h : encRepl E canAll Gen.ncrExtra utf16 last cap fuel s src budgets = some t)
    (hadm : InnerAdmissible t.inner) (hres : t.res = .outputFull) : cap ≤ t.out.length + 13 := by
  have hK := ncrExtra_eq
  rcases encRepl_cases E canAll Gen.ncrExtra utf16 last cap fuel s src budgets t h with
    ⟨⟨_, hc2⟩, _⟩ | ⟨_, hgo⟩
  · omega
  · have := go_filled E hb hgo rfl hadm hres
    cases canAll <;> simp only [if_true, Bool.false_eq_true, if_false] at this <;> omega

/-- a call that replaced something consumed at least one source unit -/
theorem encRepl_had_read_pos (E : EFam) (canAll : Bool) (ncrExtra : Nat) (utf16 last : Bool) (cap fuel : Nat)
    (s : E.σ) (src : List Nat) (budgets : List Budget) (t : EReplRes E.σ)
    (h : encRepl E canAll ncrExtra utf16 last cap fuel s src budgets = some t)
    (hhad : t.hadUnmappables = true) : 1 ≤ t.read := by
  rcases encRepl_cases E canAll ncrExtra utf16 last cap fuel s src budgets t h with
    ⟨_, ⟨_, _, ht⟩ | ⟨_, ht⟩⟩ | ⟨_, hgo⟩
  · subst ht; cases hhad
  · subst ht; cases hhad
  · generalize (if canAll = true then cap else cap - ncrExtra) = eff at hgo
    cases hgo with
    | stop _ _ _ _ _ _ _ r hr hres' => cases hhad
    | unmapEnd _ _ _ _ _ _ _ r c hr hres' hfull hend =>
      subst hr
      have := (ecall_unmappable_read_pos E utf16 s (src.drop 0) last _ c hres').1
      simp only at this ⊢
      omega
    | unmapFull _ _ _ _ _ _ _ r c hr hres' hfull hend =>
      subst hr
      have := (ecall_unmappable_read_pos E utf16 s (src.drop 0) last _ c hres').1
      simp only at this ⊢
      omega
    | unmapCont _ _ _ _ _ _ _ r c _ hr hres' hroom hnext =>
      subst hr
      have h1 := (ecall_unmappable_read_pos E utf16 s (src.drop 0) last _ c hres').1
      have h2 := (go_bnd E hnext (bnd_step E utf16 last src s _ 0 (bnd_zero utf16 src))).2
      omega

/-- **progress of a round of `encode`**: the destination holds at least
`max_buffer_length_from_utf8_if_no_unmappables(src.len())` bytes; if the call returns `OutputFull`
all the same, it consumed at least one unit (C07: it must have replaced something) -/
theorem encRepl_outputFull_read_pos (v : Gen.Variant) (utf16 last : Bool) (cap fuel Q : Nat)
    (s : (efamOfVariant v).σ) (src : List Nat) (budgets : List Budget) (t : EReplRes (efamOfVariant v).σ)
    (hsrc : SrcOK utf16 src) (hq : encMaxIfNoUnmappables utf16 v src.length = some Q) (hcap : Q ≤ cap)
    (h : encRepl (efamOfVariant v) (canEncodeEverything v) Gen.ncrExtra utf16 last cap fuel s src budgets = some t)
    (hadm : InnerAdmissible t.inner) (hres : t.res = .outputFull) : 1 ≤ t.read := by
  cases hh : t.hadUnmappables with
  | false => exact absurd hres (enc_repl_sufficient_had utf16 v s src last budgets cap fuel Q t hsrc hq hcap h hadm hh)
  | true => exact encRepl_had_read_pos _ _ _ utf16 last cap fuel s src budgets t h hh

/-! ## the size of the output -/

theorem decimalDigits_length_le_fuel : ∀ (fuel n : Nat), (decimalDigits fuel n).length ≤ fuel := by
  intro fuel
  induction fuel with
  | zero => intro n; simp [decimalDigits]
  | succ fuel ih =>
    intro n
    unfold decimalDigits
    split
    · simp
    · have := ih (n / 10)
      simp only [List.length_append, List.length_cons, List.length_nil]
      omega

/-- `write_ncr` writes at most 11 bytes whatever it is given (at most 10 for a code point) -/
theorem ncr_length_le11 (c : Nat) : (ncr c).length ≤ 11 := by
  have := decimalDigits_length_le_fuel 8 c
  simp only [ncr, List.length_append, List.length_cons, List.length_nil]
  omega

theorem htmlE_length_le : ∀ (e : List EEv), (htmlE e).length ≤ 11 * e.length
  | [] => by simp [htmlE]
  | .byte b :: t => by
    have := htmlE_length_le t
    simp only [htmlE, List.length_cons]
    omega
  | .unmap u :: t => by
    have := htmlE_length_le t
    have := ncr_length_le11 u
    simp only [htmlE, List.length_append, List.length_cons]
    omega

theorem length_le_widthSum : ∀ (items : List (Nat × Nat)), (∀ it ∈ items, 1 ≤ it.2) → items.length ≤ widthSum items
  | [], _ => Nat.le_refl _
  | (c, w) :: t, h => by
    have h1 : 1 ≤ w := h (c, w) (List.mem_cons_self ..)
    have := length_le_widthSum t (fun x hx => h x (List.mem_cons_of_mem _ hx))
    simp only [List.length_cons, widthSum_cons]
    omega

/-- a valid buffer holds at most as many characters as units -/
theorem chars_length_le (utf16 : Bool) (src : List Nat) (hsrc : SrcOK utf16 src) :
    (chars utf16 src).length ≤ src.length := by
  unfold chars
  rw [List.length_map, ← itemsOfSrc_eq_itemsFn]
  have h1 := length_le_widthSum _ (itemsOfSrc_width_pos utf16 src)
  have h2 := (itemsOfSrc_ok utf16 src hsrc).2
  omega

/-- the reference output of a buffer is linear in its length: at most `11 * (9 * len + 4)` bytes -/
theorem htmlE_eref_le (v : Gen.Variant) (s : (efamOfVariant v).σ) (src : List Nat) (hsrc : SrcOK false src) :
    (htmlE (eref (efamOfVariant v) s (chars false src))).length ≤ 11 * (9 * src.length + 4) := by
  have hb := efamOfVariant_needsBounded v
  have h1 := htmlE_length_le (eref (efamOfVariant v) s (chars false src))
  have h2 := eref_length_le (efamOfVariant v) 4 1
    (fun s c => Nat.le_trans (Lemmas.EncFam.estep_out_le_need v s c) (hb.1 s c))
    (variant_rank_le v)
    (fun s => Nat.le_trans (Lemmas.EncFam.eeof_out_le_need v s) (hb.2 s)) (chars false src) s
  have h3 := chars_length_le false src hsrc
  have h4 : 9 * (chars false src).length ≤ 9 * src.length := Nat.mul_le_mul_left 9 h3
  have h5 : 11 * (eref (efamOfVariant v) s (chars false src)).length ≤ 11 * (9 * src.length + 4) :=
    Nat.mul_le_mul_left 11 (by omega)
  omega

/-! ## admissible stop policies -/

/-- the stop policy `bs` (one list of budgets per round, one budget per inner raw call) is admissible
for the capacities `encodeLoop` computes: in every round every inner raw call is admissible for the
part of the spare capacity it was offered -/
def EncodeAdmissible (v : Gen.Variant) (ifuel : Nat) :
    Nat → (efamOfVariant v).σ → List Nat → Nat → Nat → List Nat → List (List Budget) → Prop
  | 0, _, _, _, _, _, _ => True
  | fuel + 1, s, src, cap, len, slack, bs =>
    ∀ t, encRepl (efamOfVariant v) (canEncodeEverything v) Gen.ncrExtra false true (cap - len) ifuel s src
        (bs.headD []) = some t →
      InnerAdmissible t.inner ∧
      (t.res = .outputFull → ∀ sum, U.addO cap (encMaxIfNoUnmappables false v (src.length - t.read)) = some sum →
        EncodeAdmissible v ifuel fuel t.st (src.drop t.read) (max cap (nextPowerOfTwoU sum) + slack.headD 0)
          (len + t.out.length) slack.tail bs.tail)

/-- the same for `encodeV` (the first allocation) -/
def EncodeVAdmissible (vo : Gen.Variant) (bytes : List Nat) (fuel : Nat) (slack : List Nat)
    (bs : List (List Budget)) : Prop :=
  ∀ c0, U.addO (validUpToNoRepl vo bytes)
      (encMaxIfNoUnmappables false vo (bytes.length - validUpToNoRepl vo bytes)) = some c0 →
    EncodeAdmissible vo fuel fuel (efamOfVariant vo).init (bytes.drop (validUpToNoRepl vo bytes))
      (nextPowerOfTwoU c0 + slack.headD 0) (validUpToNoRepl vo bytes) slack.tail bs

/-! ## the loop -/

/-- **The loop of `encode`: no panic, and it returns.**  Hypotheses: the rest of the `&str` is valid
UTF-8; `len ≤ capacity`; `B` bounds the length of the complete output (`len` bytes so far plus the
reference output of the rest); `2 * (B + 27 + 3 * src.len()) ≤ usize::MAX`; the stop policy is
admissible.  Then the outcome is not `panic`; and if moreover the spare capacity is at least
`max_buffer_length_from_utf8_if_no_unmappables(src.len())` (true for the first allocation, and
re-established by every `reserve_exact`) and the fuels are at least `src.len() + 2` (inner) and
`src.len() + 1` (rounds), the outcome is `ok`. -/
theorem encodeLoop_outcome (v : Gen.Variant) (ifuel : Nat) :
    ∀ (fuel : Nat) (s : (efamOfVariant v).σ) (src : List Nat) (cap len : Nat) (slack : List Nat)
      (bs : List (List Budget)) (B : Nat),
      SrcOK false src → len ≤ cap →
      len + (htmlE (eref (efamOfVariant v) s (chars false src))).length ≤ B →
      2 * (B + 27 + 3 * src.length) ≤ usizeMax →
      EncodeAdmissible v ifuel fuel s src cap len slack bs →
      encodeLoop v ifuel fuel s src cap len slack bs ≠ .panic ∧
      (src.length + 2 ≤ ifuel → src.length + 1 ≤ fuel →
        (∃ Q, encMaxIfNoUnmappables false v src.length = some Q ∧ Q ≤ cap - len) →
        ∃ o e, encodeLoop v ifuel fuel s src cap len slack bs = .ok (o, e)) := by
  intro fuel
  induction fuel with
  | zero =>
    intro s src cap len slack bs B _ _ _ _ _
    refine ⟨by simp [encodeLoop], fun _ h _ => ?_⟩
    omega
  | succ fuel ih =>
    intro s src cap len slack bs B hsrc hlc hB hlen hadm
    rw [EncodeAdmissible] at hadm
    rw [encodeLoop]
    cases hrun : encRepl (efamOfVariant v) (canEncodeEverything v) Gen.ncrExtra false true (cap - len) ifuel s src
        (bs.headD []) with
    | none =>
      refine ⟨by simp, fun hif _ _ => ?_⟩
      obtain ⟨t, ht⟩ := Lemmas.EncSide.encRepl_terminates (efamOfVariant v) (canEncodeEverything v) Gen.ncrExtra false true
        (cap - len) ifuel s src (bs.headD []) hif
      rw [ht] at hrun; cases hrun
    | some t =>
      obtain ⟨hadm1, hadm2⟩ := hadm t hrun
      simp only
      cases hres : t.res with
      | inputEmpty => exact ⟨by simp, fun _ _ _ => ⟨_, _, rfl⟩⟩
      | unmappable c =>
        exfalso
        rcases encRepl_res _ _ _ false true (cap - len) ifuel s src (bs.headD []) t hrun with h | h <;>
          rw [hres] at h <;> cases h
      | outputFull =>
        simp only
        -- what the round did
        have hout : t.out.length ≤ cap - len :=
          encRepl_written_le_cap_all_encodings v false true (cap - len) ifuel s src _ t hsrc hrun hadm1
        have hfilled : cap - len ≤ t.out.length + 13 :=
          encRepl_outputFull_filled _ (efamOfVariant_needsBounded v) _ false true (cap - len) ifuel s src _ t hrun
            hadm1 hres
        have hread : t.read ≤ src.length := encRepl_read_le _ _ _ false true (cap - len) ifuel s src _ t hsrc hrun
        have hrest : SrcOK false (src.drop t.read) :=
          encRepl_rest_valid _ _ _ false true (cap - len) ifuel s src _ t hsrc hrun
        obtain ⟨_, hsound, _, _⟩ := Lemmas.OneShotEnc.encRepl_sound (efamOfVariant v) (Thm.C04.variant_elaws v)
          (Thm.C03.eof_empty_of_not_pending v) _ _ false _ ifuel s src _ t hrun
        have hB' : (len + t.out.length)
            + (htmlE (eref (efamOfVariant v) t.st (chars false (src.drop t.read)))).length ≤ B := by
          rw [hsound, List.length_append] at hB
          omega
        -- the arithmetic of the `OutputFull` arm
        have hnv := encMaxIfNoUnmappablesNat_le v (src.length - t.read)
        have hq := encMaxIfNoUnmappables_some v (src.length - t.read) (by omega)
        have hsum : U.addO cap (encMaxIfNoUnmappables false v (src.length - t.read))
            = some (cap + encMaxIfNoUnmappablesNat false v (src.length - t.read)) := by
          rw [hq]
          exact addO_eq_some.mpr ⟨_, rfl, rfl, by omega⟩
        have hpow := nextPowerOfTwoU_eq (cap + encMaxIfNoUnmappablesNat false v (src.length - t.read)) (by omega)
        have hge := Thm.C11.le_nextPowerOfTwo (cap + encMaxIfNoUnmappablesNat false v (src.length - t.read))
        rw [← hpow] at hge
        have hadm' := hadm2 hres _ hsum
        rw [hsum]
        simp only
        rw [if_neg (by omega)]
        have hdl : (src.drop t.read).length = src.length - t.read := List.length_drop
        have IH := ih t.st (src.drop t.read)
          (max cap (nextPowerOfTwoU (cap + encMaxIfNoUnmappablesNat false v (src.length - t.read))) + slack.headD 0)
          (len + t.out.length) slack.tail bs.tail B hrest (by omega) hB' (by rw [hdl]; omega) hadm'
        cases hrec : encodeLoop v ifuel fuel t.st (src.drop t.read)
          (max cap (nextPowerOfTwoU (cap + encMaxIfNoUnmappablesNat false v (src.length - t.read))) + slack.headD 0)
          (len + t.out.length) slack.tail bs.tail with
        | ok p => exact ⟨by simp, fun _ _ _ => ⟨_, _, rfl⟩⟩
        | panic => exact absurd hrec IH.1
        | diverges =>
          refine ⟨by simp, fun hif hf hQ => ?_⟩
          exfalso
          obtain ⟨Q, hQ1, hQ2⟩ := hQ
          have hpos : 1 ≤ t.read :=
            encRepl_outputFull_read_pos v false true (cap - len) ifuel Q s src _ t hsrc hQ1 hQ2 hrun hadm1 hres
          obtain ⟨o, e, hok⟩ := IH.2 (by rw [hdl]; omega) (by rw [hdl]; omega)
            ⟨_, by rw [hdl]; exact hq, by omega⟩
          rw [hok] at hrec; cases hrec

/-! ## the validated prefix leaves valid UTF-8 -/

theorem wf_tail_of_ascii : ∀ (l : List Nat), Spec.WellFormedUtf8 l → ∀ (b : Nat) (r : List Nat),
    l = b :: r → b < 0x80 → Spec.WellFormedUtf8 r := by
  intro l h
  cases h with
  | nil => intro b r h; cases h
  | cons sq rest hs hrest =>
    intro b r heq hb
    rcases sq with _ | ⟨b0, _ | ⟨b1, _ | ⟨b2, _ | ⟨b3, _ | ⟨b4, t⟩⟩⟩⟩⟩
    · simp [Spec.wellFormedSeq] at hs
    · simp only [List.cons_append, List.nil_append, List.cons.injEq] at heq
      rw [← heq.2]; exact hrest
    · exfalso
      simp only [List.cons_append, List.cons.injEq] at heq
      simp only [Spec.wellFormedSeq, Spec.wf2, Bool.and_eq_true, decide_eq_true_eq] at hs
      omega
    · exfalso
      simp only [List.cons_append, List.cons.injEq] at heq
      simp only [Spec.wellFormedSeq, Spec.wf3, Spec.second3Ok, Bool.and_eq_true, Bool.or_eq_true,
        decide_eq_true_eq, beq_iff_eq] at hs
      omega
    · exfalso
      simp only [List.cons_append, List.cons.injEq] at heq
      simp only [Spec.wellFormedSeq, Spec.wf4, Spec.second4Ok, Bool.and_eq_true, Bool.or_eq_true,
        decide_eq_true_eq, beq_iff_eq] at hs
      omega
    · simp [Spec.wellFormedSeq] at hs

open EncodingRs.Thm.C19 in
theorem wf_drop_upTo (P : Nat → Bool) (hP : ∀ b, P b = true → b < 0x80) : ∀ (bytes : List Nat),
    Spec.WellFormedUtf8 bytes → Spec.WellFormedUtf8 (bytes.drop (upTo P bytes))
  | [], h => by simpa [upTo] using h
  | b :: r, h => by
    simp only [upTo]
    by_cases hb : P b = true
    · simp only [hb, if_true, List.drop_succ_cons]
      exact wf_drop_upTo P hP r (wf_tail_of_ascii _ h b r rfl (hP b hb))
    · simp only [hb, Bool.false_eq_true, if_false, List.drop_zero]
      exact h

theorem wf_drop_validUpToNoRepl (vo : Gen.Variant) (bytes : List Nat) (h : Spec.WellFormedUtf8 bytes) :
    Spec.WellFormedUtf8 (bytes.drop (validUpToNoRepl vo bytes)) := by
  rw [validUpToNoRepl_upTo]
  exact wf_drop_upTo _ (passPred_ascii vo) bytes h

theorem validUpToNoRepl_le (vo : Gen.Variant) (bytes : List Nat) : validUpToNoRepl vo bytes ≤ bytes.length := by
  rw [validUpToNoRepl_upTo]; exact Thm.C19.upTo_le _ _

/-! ## `Encoding::encode` -/

/-- the hypotheses of `encodeLoop_outcome` hold for the call `encodeV` makes -/
theorem encodeV_outcome (vo : Gen.Variant) (bytes : List Nat) (fuel : Nat) (slack : List Nat)
    (bs : List (List Budget)) (hwf : Spec.WellFormedUtf8 bytes)
    (hlen : 204 * bytes.length + 142 ≤ usizeMax) (hadm : EncodeVAdmissible vo bytes fuel slack bs) :
    encodeV vo bytes fuel slack bs ≠ .panic ∧
    (bytes.length + 2 ≤ fuel → ∃ r, encodeV vo bytes fuel slack bs = .ok r) := by
  unfold encodeV
  by_cases h8 : vo = .utf8
  · simp only [h8, if_true]
    exact ⟨by simp, fun _ => ⟨_, rfl⟩⟩
  · simp only [h8, if_false]
    by_cases hn : validUpToNoRepl vo bytes = bytes.length
    · simp only [hn, if_true]
      exact ⟨by simp, fun _ => ⟨_, rfl⟩⟩
    · simp only [hn, if_false]
      have hnle := validUpToNoRepl_le vo bytes
      have hnv := encMaxIfNoUnmappablesNat_le vo (bytes.length - validUpToNoRepl vo bytes)
      have hq := encMaxIfNoUnmappables_some vo (bytes.length - validUpToNoRepl vo bytes) (by omega)
      have hc0 : U.addO (validUpToNoRepl vo bytes)
          (encMaxIfNoUnmappables false vo (bytes.length - validUpToNoRepl vo bytes))
          = some (validUpToNoRepl vo bytes
              + encMaxIfNoUnmappablesNat false vo (bytes.length - validUpToNoRepl vo bytes)) := by
        rw [hq]
        exact addO_eq_some.mpr ⟨_, rfl, rfl, by omega⟩
      have hadm' := hadm _ hc0
      rw [hc0]
      simp only
      have hpow := nextPowerOfTwoU_eq (validUpToNoRepl vo bytes
        + encMaxIfNoUnmappablesNat false vo (bytes.length - validUpToNoRepl vo bytes)) (by omega)
      have hge := Thm.C11.le_nextPowerOfTwo (validUpToNoRepl vo bytes
        + encMaxIfNoUnmappablesNat false vo (bytes.length - validUpToNoRepl vo bytes))
      rw [← hpow] at hge
      have hrest : SrcOK false (bytes.drop (validUpToNoRepl vo bytes)) := wf_drop_validUpToNoRepl vo bytes hwf
      have hdl : (bytes.drop (validUpToNoRepl vo bytes)).length = bytes.length - validUpToNoRepl vo bytes :=
        List.length_drop
      have hout := htmlE_eref_le vo (efamOfVariant vo).init (bytes.drop (validUpToNoRepl vo bytes)) hrest
      rw [hdl] at hout
      have H := encodeLoop_outcome vo fuel fuel (efamOfVariant vo).init (bytes.drop (validUpToNoRepl vo bytes))
        (nextPowerOfTwoU (validUpToNoRepl vo bytes
          + encMaxIfNoUnmappablesNat false vo (bytes.length - validUpToNoRepl vo bytes)) + slack.headD 0)
        (validUpToNoRepl vo bytes) slack.tail bs
        (validUpToNoRepl vo bytes + 11 * (9 * (bytes.length - validUpToNoRepl vo bytes) + 4))
        hrest (by omega) (by omega) (by rw [hdl]; omega) hadm'
      refine ⟨?_, fun hf => ?_⟩
      · intro hp
        apply H.1
        revert hp
        cases encodeLoop vo fuel fuel (efamOfVariant vo).init (bytes.drop (validUpToNoRepl vo bytes))
          (nextPowerOfTwoU (validUpToNoRepl vo bytes
            + encMaxIfNoUnmappablesNat false vo (bytes.length - validUpToNoRepl vo bytes)) + slack.headD 0)
          (validUpToNoRepl vo bytes) slack.tail bs <;> simp [Outcome.map]
      · obtain ⟨o, e, hok⟩ := H.2 (by rw [hdl]; omega) (by rw [hdl]; omega)
          ⟨_, by rw [hdl]; exact hq, by omega⟩
        rw [hok]
        exact ⟨_, rfl⟩

/-- **C11 `encode_terminates`** (was `encode_terminates_partial`).  For every output-encoding variant,
every `&str` (valid UTF-8) with `204 * len + 142 ≤ usize::MAX`, every allocator slack and EVERY
admissible stop policy of the inner raw calls: with fuel `≥ len + 2` the model of `Encoding::encode`
returns — it neither exhausts the fuel (`diverges`) nor panics. -/
theorem encodeV_terminates (vo : Gen.Variant) (bytes : List Nat) (fuel : Nat) (slack : List Nat)
    (bs : List (List Budget)) (hwf : Spec.WellFormedUtf8 bytes)
    (hlen : 204 * bytes.length + 142 ≤ usizeMax) (hfuel : bytes.length + 2 ≤ fuel)
    (hadm : EncodeVAdmissible vo bytes fuel slack bs) :
    ∃ r, encodeV vo bytes fuel slack bs = .ok r :=
  (encodeV_outcome vo bytes fuel slack bs hwf hlen hadm).2 hfuel

/-- **the length precondition that excludes the `panic` outcome** (`checked_add(…).unwrap()` and the
`next_power_of_two` wrap-around): a `panic` implies `usize::MAX < 204 * len + 142` — for any fuel, any
slack, any admissible stop policy -/
theorem encodeV_panic_length (vo : Gen.Variant) (bytes : List Nat) (fuel : Nat) (slack : List Nat)
    (bs : List (List Budget)) (hwf : Spec.WellFormedUtf8 bytes) (hadm : EncodeVAdmissible vo bytes fuel slack bs)
    (h : encodeV vo bytes fuel slack bs = .panic) : usizeMax < 204 * bytes.length + 142 := by
  apply Nat.lt_of_not_le
  intro hlen
  exact (encodeV_outcome vo bytes fuel slack bs hwf hlen hadm).1 h

/-- `Encoding::encode` of the encoding with index `i` -/
theorem encode_terminates (i : Nat) (bytes : List Nat) (fuel : Nat) (slack : List Nat)
    (bs : List (List Budget)) (hwf : Spec.WellFormedUtf8 bytes)
    (hlen : 204 * bytes.length + 142 ≤ usizeMax) (hfuel : bytes.length + 2 ≤ fuel)
    (hadm : EncodeVAdmissible (Meta.variantAt (Meta.outputEncoding i)) bytes fuel slack bs) :
    ∃ r, OneShot.encode i bytes fuel slack bs = .ok (r, Meta.outputEncoding i) := by
  obtain ⟨r, hr⟩ := encodeV_terminates _ bytes fuel slack bs hwf hlen hfuel hadm
  exact ⟨r, by unfold OneShot.encode; rw [hr]; rfl⟩

/-- **C11 (f), total form**: under the length precondition, for every admissible stop policy, `encode`
returns the reference bytes (`erefHtml` = the Standard's html-mode encode, C03) and the flag of the
reference run -/
theorem encodeV_total (vo : Gen.Variant) (text bytes : List Nat) (fuel : Nat) (slack : List Nat)
    (bs : List (List Budget)) (ht : ∀ c ∈ text, c < 0x110000) (hbytes : bytes = Spec.Conv.utf8EncodeAll text)
    (hwf : Spec.WellFormedUtf8 bytes)
    (hlen : 204 * bytes.length + 142 ≤ usizeMax) (hfuel : bytes.length + 2 ≤ fuel)
    (hadm : EncodeVAdmissible vo bytes fuel slack bs) :
    ∃ r, encodeV vo bytes fuel slack bs = .ok r ∧
      r.bytes = Lemmas.ConformEnc.erefHtml (efamOfVariant vo) (efamOfVariant vo).init text ∧
      r.hadUnmappables = anyUnmap (eref (efamOfVariant vo) (efamOfVariant vo).init text) := by
  obtain ⟨r, hr⟩ := encodeV_terminates vo bytes fuel slack bs hwf hlen hfuel hadm
  exact ⟨r, hr, Thm.C11.encodeV_eq_stream vo text bytes fuel slack bs r ht hbytes hr⟩

/-! ## the length precondition cannot simply be dropped -/

theorem nextPowerOfTwoU_wraps (n : Nat) (h : 2 ^ 63 < n) : nextPowerOfTwoU n = 0 := by
  unfold nextPowerOfTwoU
  have h1 : ¬ n ≤ 1 := by omega
  have h2 : n - 1 ≠ 0 := by omega
  have h3 : 63 ≤ (n - 1).log2 := (Nat.le_log2 h2).mpr (by omega)
  have h4 : 2 ^ (63 + 1) ≤ 2 ^ ((n - 1).log2 + 1) := Nat.pow_le_pow_right (by decide) (by omega)
  have h5 : nextPowerOfTwo n = 2 ^ ((n - 1).log2 + 1) := by unfold nextPowerOfTwo; rw [if_neg h1]
  have h6 : usizeMax < 2 ^ (63 + 1) := by decide
  rw [if_neg (by omega)]

/-- **Why termination needs the length precondition** (model-level observation; on a 64-bit target it
would take a `&str` of more than 2^61 bytes).  If `max_buffer_length_from_utf8_if_no_unmappables(len)`
exceeds 2^63 without overflowing, `usize::next_power_of_two` wraps to 0 in a release build (the code
uses the unchecked `next_power_of_two`, unlike the `checked_next_power_of_two` of the decode
functions): the `Vec` is created with capacity 0, `encode_from_utf8` returns `OutputFull` at once
(destination shorter than `NCR_EXTRA`), `rounded = 0`, `rounded - vec.len() = 0`,
`reserve_exact(0)` does nothing, and the round repeats for ever — instead of the documented panic. -/
theorem encodeLoop_wrap_diverges (v : Gen.Variant) (hv : canEncodeEverything v = false) (ifuel : Nat)
    (hif : 1 ≤ ifuel) (s : (efamOfVariant v).σ) (src : List Nat) (hne : src ≠ []) (Q : Nat)
    (hq : encMaxIfNoUnmappables false v src.length = some Q) (hbig : 2 ^ 63 < Q) :
    ∀ (fuel : Nat) (bs : List (List Budget)), encodeLoop v ifuel fuel s src 0 0 [] bs = .diverges := by
  intro fuel
  induction fuel with
  | zero => intro bs; rfl
  | succ fuel ih =>
    intro bs
    obtain ⟨k, rfl⟩ : ∃ k, ifuel = k + 1 := ⟨ifuel - 1, by omega⟩
    have hrun : encRepl (efamOfVariant v) (canEncodeEverything v) Gen.ncrExtra false true (0 - 0) (k + 1) s src
        (bs.headD []) = some ⟨.outputFull, 0, [], false, s, []⟩ := by
      rw [encRepl, hv]
      have h1 : ¬ false = true ∧ 0 - 0 < Gen.ncrExtra := ⟨by simp, by decide⟩
      rw [if_pos h1]
      have h2 : ¬ (src.isEmpty = true ∧ ¬ (true = true ∧ (efamOfVariant v).hasPending s = true)) := by
        intro hc; exact hne (List.isEmpty_iff.mp hc.1)
      rw [if_neg h2]
    have hQle : Q ≤ usizeMax := by
      obtain ⟨R, _, h2, h3⟩ := (encMaxIfNoUnmappables_eq_some false v src.length Q).mp hq
      omega
    have hsum : U.addO 0 (encMaxIfNoUnmappables false v (src.length - 0)) = some Q := by
      rw [Nat.sub_zero, hq]
      exact addO_eq_some.mpr ⟨Q, rfl, by omega, by omega⟩
    rw [encodeLoop, hrun]
    simp only [hsum, nextPowerOfTwoU_wraps Q hbig, List.length_nil, Nat.add_zero, Nat.lt_irrefl, if_false,
      List.drop_zero, Nat.max_self, List.headD_nil, List.tail_nil]
    rw [ih bs.tail]

/-! ## Non-vacuity: an executable admissibility checker, and a run with an `OutputFull` round -/

def innerAdmissibleB (inner : List (Nat × Nat × ERes × Nat)) : Bool :=
  inner.all fun x => decide (x.2.1 ≤ x.1) && (x.2.2.1 != .outputFull || decide (x.1 < x.2.1 + x.2.2.2))

theorem innerAdmissibleB_sound (inner : List (Nat × Nat × ERes × Nat)) (h : innerAdmissibleB inner = true) :
    InnerAdmissible inner := by
  intro x hx
  have := List.all_eq_true.mp h x hx
  simp only [Bool.and_eq_true, Bool.or_eq_true, decide_eq_true_eq, bne_iff_ne, ne_eq] at this
  refine ⟨this.1, fun hf => ?_⟩
  rcases this.2 with h2 | h2
  · exact absurd hf h2
  · exact h2

/-- executable version of `EncodeAdmissible` -/
def encodeAdmissibleB (v : Gen.Variant) (ifuel : Nat) :
    Nat → (efamOfVariant v).σ → List Nat → Nat → Nat → List Nat → List (List Budget) → Bool
  | 0, _, _, _, _, _, _ => true
  | fuel + 1, s, src, cap, len, slack, bs =>
    match encRepl (efamOfVariant v) (canEncodeEverything v) Gen.ncrExtra false true (cap - len) ifuel s src
        (bs.headD []) with
    | none => true
    | some t =>
      innerAdmissibleB t.inner &&
      (if t.res = .outputFull then
        match U.addO cap (encMaxIfNoUnmappables false v (src.length - t.read)) with
        | none => true
        | some sum =>
          encodeAdmissibleB v ifuel fuel t.st (src.drop t.read) (max cap (nextPowerOfTwoU sum) + slack.headD 0)
            (len + t.out.length) slack.tail bs.tail
       else true)

theorem encodeAdmissibleB_sound (v : Gen.Variant) (ifuel : Nat) :
    ∀ (fuel : Nat) (s : (efamOfVariant v).σ) (src : List Nat) (cap len : Nat) (slack : List Nat)
      (bs : List (List Budget)),
      encodeAdmissibleB v ifuel fuel s src cap len slack bs = true →
      EncodeAdmissible v ifuel fuel s src cap len slack bs := by
  intro fuel
  induction fuel with
  | zero => intro s src cap len slack bs _; simp [EncodeAdmissible]
  | succ fuel ih =>
    intro s src cap len slack bs h
    rw [EncodeAdmissible]
    intro t ht
    rw [encodeAdmissibleB, ht] at h
    simp only [Bool.and_eq_true] at h
    refine ⟨innerAdmissibleB_sound _ h.1, fun hres sum hsum => ?_⟩
    have h2 := h.2
    rw [if_pos hres, hsum] at h2
    exact ih _ _ _ _ _ _ h2

def encodeVAdmissibleB (vo : Gen.Variant) (bytes : List Nat) (fuel : Nat) (slack : List Nat)
    (bs : List (List Budget)) : Bool :=
  match U.addO (validUpToNoRepl vo bytes)
      (encMaxIfNoUnmappables false vo (bytes.length - validUpToNoRepl vo bytes)) with
  | none => true
  | some c0 =>
    encodeAdmissibleB vo fuel fuel (efamOfVariant vo).init (bytes.drop (validUpToNoRepl vo bytes))
      (nextPowerOfTwoU c0 + slack.headD 0) (validUpToNoRepl vo bytes) slack.tail bs

theorem encodeVAdmissibleB_sound (vo : Gen.Variant) (bytes : List Nat) (fuel : Nat) (slack : List Nat)
    (bs : List (List Budget)) (h : encodeVAdmissibleB vo bytes fuel slack bs = true) :
    EncodeVAdmissible vo bytes fuel slack bs := by
  intro c0 hc0
  unfold encodeVAdmissibleB at h
  rw [hc0] at h
  exact encodeAdmissibleB_sound vo fuel fuel _ _ _ _ _ _ h

section NonVacuity

/-- x-user-defined, `ééé` (three unmappable characters, `&#233;` each): the first allocation is
`next_power_of_two(0 + 10 + 6) = 16` bytes; round one writes one reference and returns `OutputFull`
(6 ≥ 16 − 10), `reserve_exact` brings the capacity to `next_power_of_two(16 + 10 + 4) = 32`, round two
finishes.  The never-stop policy is admissible, all hypotheses of `encodeV_terminates` hold, and the
model returns what the theorem says. -/
def demoBytes : List Nat := [0xC3, 0xA9, 0xC3, 0xA9, 0xC3, 0xA9]

theorem demo_wf : Spec.WellFormedUtf8 demoBytes :=
  .cons [0xC3, 0xA9] _ rfl (.cons [0xC3, 0xA9] _ rfl (.cons [0xC3, 0xA9] [] rfl .nil))

theorem demo_adm : EncodeVAdmissible .userDefined demoBytes 8 [] [] :=
  encodeVAdmissibleB_sound _ _ _ _ _ (by decide +kernel)

example : ∃ r, encodeV .userDefined demoBytes 8 [] [] = .ok r :=
  encodeV_terminates .userDefined demoBytes 8 [] [] demo_wf (by decide) (by decide) demo_adm

example : encodeV .userDefined demoBytes 8 [] []
    = .ok ⟨[38, 35, 50, 51, 51, 59, 38, 35, 50, 51, 51, 59, 38, 35, 50, 51, 51, 59], true, false⟩ := by
  decide +kernel

/-- the first round does end `OutputFull` having consumed one character (two bytes) -/
example : (encRepl userDefinedEFam false Gen.ncrExtra false true 16 8 () demoBytes []).map
    (fun t => (t.res, t.read, t.out.length)) = some (.outputFull, 2, 6) := by decide +kernel

/-- a policy that stops the very first inner call although 6 bytes are free is not admissible -/
example : encodeVAdmissibleB .userDefined [0x41, 0xC3, 0xA9, 0x42] 8 [] [[.full 0]] = false := by decide +kernel

end NonVacuity

end EncodingRs.Thm.C11EncTerm
