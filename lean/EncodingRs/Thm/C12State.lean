import EncodingRs.Thm.C12Hist
/-!
# C12 — `has_pending_state()` and the escape state at EVERY call boundary

`Thm/C12.lean` proves `has_pending_iff` after every text prefix (a character boundary).  A call can
also end between an ISO-2022-JP escape sequence and the character it precedes (`OutputFull` after the
state-transition step): the encoder is then already in the new state and the bytes end with the escape
sequence.  This module follows the decoder through ANY history of calls:

* generic: `Mid` (the encoder is inside the re-read loop of one character), `erunI_pos` / `hist_pos` —
  after any history the events so far are those of a text prefix `p` (`erefOpen`) followed by the bytes
  of a partial processing of the next character (or by the end-of-stream block), and the encoder state
  is the corresponding one;
* `go_hist` / `repl_hist_is_hist`: a history of with-replacement calls IS a history of raw calls (the
  inner calls of the wrapper) whose manual-procedure bytes are the bytes written;
* ISO-2022-JP: `iso_history_state` / **`has_pending_iff_history`** (raw API with the manual procedure)
  and **`has_pending_iff_repl_history`** (with replacement): after every call of every history, the
  decoder that has read the bytes written so far accepts them and is in the escape state of the
  encoder; `has_pending_state()` ⇔ that state is not ASCII;
* all 40 encodings: **`history_decodes_complete`** / `history_decodes_complete_raw` — the bytes written
  so far, taken on their own as a COMPLETE stream, decode without any error event (none at the end of
  the stream either) to a prefix of `expected v text`, after every call of every history.
-/
namespace EncodingRs.Thm.C12State
open EncodingRs EncodingRs.Model EncodingRs.Lemmas.Core EncodingRs.Lemmas.EncCore
open EncodingRs.Lemmas.RoundTrip EncodingRs.Lemmas.EncPotential EncodingRs.Lemmas.EncSide
open EncodingRs.Thm.C04 EncodingRs.Thm.C09Enc EncodingRs.Thm.C12 EncodingRs.Thm.C12Hist

/-! ## inside the re-read loop of one character -/

/-- `Mid E c s s' o`: reading `c` from state `s`, the encoder has written `o` in steps that handed
the character back (state transitions) and is now in state `s'`; `c` is still unread -/
inductive Mid (E : EFam) (c : Nat) : E.σ → E.σ → List Nat → Prop
  | here (s : E.σ) : Mid E c s s []
  | step (s s' : E.σ) (o : List Nat) : (E.step s c).unmappable = none → (E.step s c).unread = true →
      Mid E c (E.step s c).st s' o → Mid E c s s' ((E.step s c).out ++ o)

theorem Mid.trans {E : EFam} {c : Nat} {s s' s'' : E.σ} {o o' : List Nat} (h : Mid E c s s' o)
    (h' : Mid E c s' s'' o') : Mid E c s s'' (o ++ o') := by
  induction h with
  | here s => simpa using h'
  | step s s' o hu hr _ ih =>
    rw [List.append_assoc]
    exact Mid.step s _ _ hu hr (ih h')

/-- an `OutputFull` stop inside the loop leaves the encoder in a `Mid` state -/
theorem processChar_full_mid (E : EFam) : ∀ (f : Nat) (s : E.σ) (c : Nat) (b : Budget) (acc : List Nat)
    (st : E.σ) (out : List Nat) (need : Nat), processChar E f s c b acc = .full st out need →
    ∃ o, out = acc ++ o ∧ Mid E c s st o := by
  intro f
  induction f with
  | zero => intro s c b acc st out need h; simp [processChar] at h
  | succ f ih =>
    intro s c b acc st out need h
    rw [processChar] at h
    split at h
    · cases h; exact ⟨[], by simp, Mid.here s⟩
    · simp only at h
      split at h
      · cases h
      · rename_i hu
        split at h
        · rename_i hr
          obtain ⟨o, h1, h2⟩ := ih _ c _ _ st out need h
          exact ⟨(E.step s c).out ++ o, by rw [h1, List.append_assoc], Mid.step s st o hu hr h2⟩
        · cases h

theorem prepend_nil {σ} (r : CharRes σ) : CharRes.prepend [] r = r := by cases r <;> rfl

theorem prepend_prepend {σ} (a b : List Nat) (r : CharRes σ) :
    CharRes.prepend a (CharRes.prepend b r) = CharRes.prepend (a ++ b) r := by
  cases r <;> simp [CharRes.prepend, List.append_assoc]

/-- the unstopped run of the character from `s` is `o` followed by the unstopped run from `s'` -/
theorem mid_unlimited (E : EFam) {c : Nat} {s s' : E.σ} {o : List Nat} (h : Mid E c s s' o) :
    ∀ (f f' : Nat), E.rank s c < f → E.rank s' c < f' →
      processChar E f s c .unlimited [] = CharRes.prepend o (processChar E f' s' c .unlimited []) := by
  induction h with
  | here s =>
    intro f f' h1 h2
    rw [prepend_nil]
    exact processChar_fuel E f f' s c .unlimited [] h1 h2
  | step s s' o hu hr _ ih =>
    intro f f' h1 h2
    have hrank := E.unread_rank s c hr
    cases f with
    | zero => omega
    | succ f =>
      have h0 : processChar E (f + 1) s c .unlimited []
          = processChar E f (E.step s c).st c .unlimited ([] ++ (E.step s c).out) := by
        simp [processChar, Budget.isZero, hu, hr, Budget.dec]
      rw [h0, processChar_acc, ih f f' (by omega) h2, List.nil_append, prepend_prepend]

theorem mid_erefOpen (E : EFam) {c : Nat} {s s' : E.σ} {o : List Nat} (h : Mid E c s s' o) (t : List Nat) :
    (erefOpen E s (c :: t)).1 = o.map EEv.byte ++ (erefOpen E s' (c :: t)).1 ∧
    (erefOpen E s (c :: t)).2 = (erefOpen E s' (c :: t)).2 := by
  have := mid_unlimited E h (E.rank s c + 1) (E.rank s' c + 1) (Nat.lt_succ_self _) (Nat.lt_succ_self _)
  simp only [erefOpen]
  rw [this, charEvs_prepend, charSt_prepend, List.append_assoc]
  exact ⟨rfl, rfl⟩

/-! ## where a history stands -/

/-- what follows a text prefix: nothing (character boundary), a partial processing of the next
character, or the end-of-stream block -/
def Tail (E : EFam) (s1 : E.σ) (text' : List Nat) (o : List Nat) (s' : E.σ) : Prop :=
  (o = [] ∧ s' = s1) ∨ (∃ c t, text' = c :: t ∧ Mid E c s1 s' o)
    ∨ (text' = [] ∧ o = (E.eof s1).1 ∧ s' = (E.eof s1).2)

theorem eevs_cons_done {σ} (out : List Nat) (r : ECallRes σ) (w : Nat) :
    eevs (⟨r.res, r.read + w, out ++ r.out, r.st, r.stopNeed⟩ : ECallRes σ) = out.map EEv.byte ++ eevs r := by
  simp [eevs, List.map_append, List.append_assoc]

/-- **one raw call**: the items consumed are a prefix `p`; the events are the unstopped run over `p`
followed by the bytes `o` of whatever the call did after it (`Tail`) -/
theorem erunI_pos (E : EFam) (last : Bool) : ∀ (items : List (Nat × Nat)) (s : E.σ) (b : Budget) (rest : List Nat),
    (last = true → rest = []) →
    ∃ p o, items.map Prod.fst = p ++ (erunI E last s items b).2.map Prod.fst ∧
      eevs (erunI E last s items b).1 = (erefOpen E s p).1 ++ o.map EEv.byte ∧
      Tail E (erefOpen E s p).2 ((erunI E last s items b).2.map Prod.fst ++ rest) o (erunI E last s items b).1.st := by
  intro items
  induction items with
  | nil =>
    intro s b rest hl
    cases last with
    | false =>
      refine ⟨[], [], rfl, ?_, Or.inl ⟨rfl, rfl⟩⟩
      simp [erunI, erun, eevs, erefOpen]
    | true =>
      have hr : rest = [] := hl rfl
      subst hr
      by_cases he : (E.eof s).1.isEmpty = true
      · have h0 : erunI E true s [] b = (⟨.inputEmpty, 0, [], (E.eof s).2, 0⟩, []) := by
          simp [erunI, erun, he]
        rw [h0]
        exact ⟨[], [], rfl, by simp [eevs, erefOpen],
          Or.inr (Or.inr ⟨rfl, (List.isEmpty_iff.mp he).symm, rfl⟩)⟩
      · by_cases hz : b.isZero = true
        · have h0 : erunI E true s [] b = (⟨.outputFull, 0, [], s, E.eofNeed s⟩, []) := by
            simp [erunI, erun, he, hz]
          rw [h0]
          exact ⟨[], [], rfl, by simp [eevs, erefOpen], Or.inl ⟨rfl, rfl⟩⟩
        · have h0 : erunI E true s [] b = (⟨.inputEmpty, 0, (E.eof s).1, (E.eof s).2, 0⟩, []) := by
            simp [erunI, erun, he, hz]
          rw [h0]
          exact ⟨[], (E.eof s).1, rfl, by simp [eevs, erefOpen], Or.inr (Or.inr ⟨rfl, rfl, rfl⟩)⟩
  | cons it tl ih =>
    intro s b rest hl
    obtain ⟨c, w⟩ := it
    have hb := processChar_budget E (E.rank s c + 1) s c b (Nat.lt_succ_self _)
    simp only [erunI]
    cases hres : processChar E (E.rank s c + 1) s c b [] with
    | full st out need =>
      obtain ⟨o, h1, h2⟩ := processChar_full_mid E _ s c b [] st out need hres
      rw [List.nil_append] at h1
      subst h1
      refine ⟨[], out, rfl, by simp [eevs, erefOpen], Or.inr (Or.inl ⟨c, tl.map Prod.fst ++ rest, ?_, h2⟩)⟩
      simp
    | unmappable st out u =>
      rw [hres] at hb
      refine ⟨[c], [], by simp, ?_, Or.inl ⟨rfl, ?_⟩⟩
      · simp only [eevs, erefOpen, List.map_nil, List.append_nil]
        rw [hb.1]; rfl
      · simp only [erefOpen]
        rw [hb.2]; rfl
    | done st out b' =>
      rw [hres] at hb
      obtain ⟨p', o', i1, i2, i3⟩ := ih st b' rest hl
      refine ⟨c :: p', o', ?_, ?_, ?_⟩
      · simp only [List.map_cons, List.cons_append]; rw [i1]
      · simp only
        rw [eevs_cons_done, i2]
        simp only [erefOpen]
        rw [hb.1, hb.2, List.append_assoc]
        rfl
      · simp only [erefOpen]
        rw [hb.2]
        exact i3

/-- **any history of raw calls**: the events so far are the unstopped run over a text prefix `p`
followed by the bytes `o` of a partial processing of the next character or of the end-of-stream
block, and the encoder is in the corresponding state.  `heof2`: the end-of-stream block is idempotent. -/
theorem hist_pos (E : EFam) (heof2 : ∀ s, E.eof (E.eof s).2 = ([], (E.eof s).2)) (s : E.σ) (text : List Nat)
    (evs : List EEv) (s' : E.σ) (text' : List Nat) (h : EHist E s text evs s' text') :
    ∃ p o, text = p ++ text' ∧ evs = (erefOpen E s p).1 ++ o.map EEv.byte ∧ Tail E (erefOpen E s p).2 text' o s' := by
  induction h with
  | nil s text => exact ⟨[], [], rfl, rfl, Or.inl ⟨rfl, rfl⟩⟩
  | call s items rest last b evs' s' text' hl _ ih =>
    obtain ⟨p', o', j1, j2, j3⟩ := ih
    obtain ⟨p0, o0, i1, i2, i3⟩ := erunI_pos E last items s b rest hl
    rcases i3 with ⟨ho, hst⟩ | ⟨c, t, htx, hmid⟩ | ⟨htx, ho, hst⟩
    · -- the call ended at a character boundary
      subst ho
      refine ⟨p0 ++ p', o', ?_, ?_, ?_⟩
      · rw [i1, List.append_assoc, j1, List.append_assoc]
      · rw [i2, j2, erefOpen_append, hst]
        simp [List.append_assoc]
      · rw [erefOpen_append, ← hst]
        exact j3
    · -- the call ended inside the loop of character `c`
      cases p' with
      | nil =>
        simp only [List.nil_append] at j1
        simp only [erefOpen, List.nil_append] at j2 j3
        refine ⟨p0, o0 ++ o', ?_, ?_, ?_⟩
        · rw [i1, List.append_assoc, j1]
        · rw [i2, j2, List.map_append, List.append_assoc]
        · rcases j3 with ⟨ho', hs'⟩ | ⟨c', t', htx', hmid'⟩ | ⟨htx', _, _⟩
          · subst ho'; subst hs'
            rw [List.append_nil]
            exact Or.inr (Or.inl ⟨c, t, by rw [← j1, htx], hmid⟩)
          · have hc : c' = c := by
              rw [← j1, htx] at htx'
              exact (List.cons.inj htx').1.symm
            subst hc
            exact Or.inr (Or.inl ⟨c', t', htx', hmid.trans hmid'⟩)
          · rw [← j1, htx] at htx'; cases htx'
      | cons c' p'' =>
        have hc : c' = c := by
          rw [htx] at j1
          simp only [List.cons_append] at j1
          exact (List.cons.inj j1).1.symm
        subst hc
        obtain ⟨m1, m2⟩ := mid_erefOpen E hmid p''
        refine ⟨p0 ++ c' :: p'', o', ?_, ?_, ?_⟩
        · rw [i1, List.append_assoc, j1, List.append_assoc]
        · rw [i2, j2, erefOpen_append]
          simp only
          rw [m1]
          simp [List.append_assoc]
        · rw [erefOpen_append]
          simp only
          rw [m2]
          exact j3
    · -- the call ran the end-of-stream block
      have hnil : p' = [] ∧ text' = [] := by
        rw [htx] at j1
        exact List.append_eq_nil_iff.mp j1.symm
      obtain ⟨hp', ht'⟩ := hnil
      subst hp'; subst ht'
      simp only [erefOpen, List.nil_append] at j2 j3
      have hs' : o' = [] ∧ s' = (E.eof (erefOpen E s p0).2).2 := by
        rcases j3 with ⟨ho', hs'⟩ | ⟨c', t', htx', _⟩ | ⟨_, ho', hs'⟩
        · exact ⟨ho', by rw [hs', hst]⟩
        · cases htx'
        · rw [hst, heof2] at ho' hs'
          exact ⟨ho', hs'⟩
      refine ⟨p0, o0, ?_, ?_, Or.inr (Or.inr ⟨rfl, ho, hs'.2⟩)⟩
      · rw [i1, List.append_assoc, htx]
      · rw [i2, j2, hs'.1]; simp

/-! ## a history of with-replacement calls is a history of raw calls -/

theorem subst_eevs {σ} (r : ECallRes σ) :
    subst (eevs r) = r.out ++ (match r.res with | .unmappable c => ncr c | _ => []) := by
  rw [← manualBytes_eq_subst]; exact manualBytes_eevs r

/-- one inner raw call of the wrapper, as a step of a raw history -/
theorem inner_call_hist (E : EFam) (utf16 last : Bool) (src : List Nat) (s : E.σ) (b : Budget) (tr : Nat)
    (rest : List Nat) (hl : last = true → rest = []) (evs' : List EEv) (s' : E.σ) (text' : List Nat)
    (h : EHist E (ecall E utf16 s (src.drop tr) last b).st
      ((itemsOfSrc utf16 (src.drop (tr + (ecall E utf16 s (src.drop tr) last b).read))).map Prod.fst ++ rest)
      evs' s' text') :
    EHist E s ((itemsOfSrc utf16 (src.drop tr)).map Prod.fst ++ rest)
      (eevs (ecall E utf16 s (src.drop tr) last b) ++ evs') s' text' := by
  have hr := ecall_rest E utf16 s (src.drop tr) last b
  rw [List.drop_drop] at hr
  rw [hr, ecall_eq_erunI] at h
  rw [ecall_eq_erunI]
  exact EHist.call s _ rest last b evs' s' text' hl h

theorem go_hist (E : EFam) {utf16 last : Bool} {src : List Nat} {eff : Nat} {s : E.σ}
    {budgets : List Budget} {tr tw : Nat} {acc : List Nat} {had : Bool}
    {inner : List (Nat × Nat × ERes × Nat)} {t : EReplRes E.σ}
    (h : GoRel E utf16 last src eff s budgets tr tw acc had inner t)
    (rest : List Nat) (hl : last = true → rest = []) (evs' : List EEv) (s' : E.σ) (text' : List Nat)
    (hn : EHist E t.st ((itemsOfSrc utf16 (src.drop t.read)).map Prod.fst ++ rest) evs' s' text') :
    ∃ evs, EHist E s ((itemsOfSrc utf16 (src.drop tr)).map Prod.fst ++ rest) (evs ++ evs') s' text'
      ∧ t.out = acc ++ subst evs := by
  induction h with
  | stop s budgets tr tw acc had inner r hr hres =>
    subst hr
    refine ⟨_, inner_call_hist E utf16 last src s _ tr rest hl evs' s' text' hn, ?_⟩
    rw [subst_eevs]
    rcases hres with hres | hres <;> rw [hres] <;> simp
  | unmapEnd s budgets tr tw acc had inner r c hr hres hfull hend =>
    subst hr
    refine ⟨_, inner_call_hist E utf16 last src s _ tr rest hl evs' s' text' hn, ?_⟩
    rw [subst_eevs, hres]; simp
  | unmapFull s budgets tr tw acc had inner r c hr hres hfull hend =>
    subst hr
    refine ⟨_, inner_call_hist E utf16 last src s _ tr rest hl evs' s' text' hn, ?_⟩
    rw [subst_eevs, hres]; simp
  | unmapCont s budgets tr tw acc had inner r c t hr hres hroom hnext ih =>
    subst hr
    obtain ⟨evs2, i1, i2⟩ := ih hn
    refine ⟨eevs (ecall E utf16 s (src.drop tr) last (budgets.headD .unlimited)) ++ evs2, ?_, ?_⟩
    · rw [List.append_assoc]
      exact inner_call_hist E utf16 last src s _ tr rest hl (evs2 ++ evs') s' text' i1
    · rw [i2, subst_append, subst_eevs, hres]; simp

/-- **every history of with-replacement calls is a history of raw calls** (the inner calls of the
wrapper, in order) whose manual-procedure bytes `subst evs` are exactly the bytes written -/
theorem repl_hist_is_hist (E : EFam) (canAll : Bool) (ncrExtra : Nat) (s : E.σ) (text bytes : List Nat)
    (had : Bool) (s' : E.σ) (text' : List Nat) (h : EReplHist E canAll ncrExtra s text bytes had s' text') :
    ∃ evs, EHist E s text evs s' text' ∧ bytes = subst evs := by
  induction h with
  | nil s text => exact ⟨[], EHist.nil s text, rfl⟩
  | call s utf16 last cap fuel src budgets t rest bytes' had' s' text' hrun hl _ ih =>
    obtain ⟨evs', i1, i2⟩ := ih
    rcases encRepl_cases E canAll ncrExtra utf16 last cap fuel s src budgets t hrun with
      ⟨_, ⟨_, _, ht⟩ | ⟨_, ht⟩⟩ | ⟨_, hgo⟩
    · subst ht
      exact ⟨evs', by simpa using i1, by simpa using i2⟩
    · subst ht
      exact ⟨evs', by simpa using i1, by simpa using i2⟩
    · obtain ⟨evs, j1, j2⟩ := go_hist E hgo rest hl evs' s' text' i1
      refine ⟨evs ++ evs', by simpa using j1, ?_⟩
      rw [subst_append, j2, i2]; simp

/-! ## ISO-2022-JP -/

/-- the escape sequence into encoder state `t` -/
def escOf : IsoEncSt → List Nat
  | .ascii => escAscii
  | .roman => escRoman
  | .jis0208 => escJis0208

/-- a step that hands the character back reports nothing and writes exactly the escape sequence into
the state it enters -/
def EscSpec (r : EStep IsoEncSt) : Prop := r.unread = true → r.unmappable = none ∧ r.out = escOf r.st

theorem escSpec_ok (st : IsoEncSt) (out : List Nat) : EscSpec (EStep.ok st out) := by
  intro h; simp [EStep.ok] at h
theorem escSpec_unmap (st : IsoEncSt) (u : Nat) (out : List Nat) : EscSpec (EStep.unmap st u out) := by
  intro h; simp [EStep.unmap] at h
theorem escSpec_ascii : EscSpec (EStep.again .ascii escAscii) := fun _ => ⟨rfl, rfl⟩
theorem escSpec_roman : EscSpec (EStep.again .roman escRoman) := fun _ => ⟨rfl, rfl⟩
theorem escSpec_jis : EscSpec (EStep.again .jis0208 escJis0208) := fun _ => ⟨rfl, rfl⟩

theorem isoEncStep_escSpec (s : IsoEncSt) (c : Nat) : EscSpec (isoEncStep s c) := by
  cases s <;>
  · unfold isoEncStep
    simp only
    repeat' split
    all_goals first
      | with_reducible apply escSpec_ok
      | with_reducible apply escSpec_unmap
      | with_reducible exact escSpec_ascii
      | with_reducible exact escSpec_roman
      | with_reducible exact escSpec_jis

/-- when at most one step per character hands the character back: inside the loop the encoder has
done nothing yet, or exactly that one step -/
theorem mid_cases_rank1 (E : EFam) (hrank : ∀ s c, E.rank s c ≤ 1) {c : Nat} {s s' : E.σ} {o : List Nat}
    (h : Mid E c s s' o) :
    (o = [] ∧ s' = s) ∨ (o = (E.step s c).out ∧ s' = (E.step s c).st ∧ (E.step s c).unread = true) := by
  cases h with
  | here => exact Or.inl ⟨rfl, rfl⟩
  | step _ _ o' hu hr hm =>
    right
    have hr1 := E.unread_rank s c hr
    cases hm with
    | here => exact ⟨by simp, rfl, hr⟩
    | step _ _ o'' hu' hr' _ =>
      exfalso
      have hr2 := E.unread_rank _ c hr'
      have hle := hrank s c
      omega

/-- inside the loop of one character the ISO-2022-JP encoder has written nothing, or exactly one
escape sequence — the one into the state it is in -/
theorem iso_mid_cases {c : Nat} {s s' : IsoEncSt} {o : List Nat} (h : Mid iso2022JpEFam c s s' o) :
    (o = [] ∧ s' = s) ∨ o = escOf s' := by
  have hrank : ∀ (s : iso2022JpEFam.σ) (c : Nat), iso2022JpEFam.rank s c ≤ 1 := by
    intro s c
    show isoEncRank s c ≤ 1
    unfold isoEncRank; split <;> decide
  rcases mid_cases_rank1 iso2022JpEFam hrank h with h1 | ⟨h1, h2, h3⟩
  · exact Or.inl h1
  · right
    have hspec := (isoEncStep_escSpec s c h3).2
    rw [h1, h2]
    exact hspec

/-- the decoder state that only knows the escape state (the output flag is set right after an escape
sequence, so `Corr` does not hold there) -/
def CorrW (s : IsoEncSt) (d : Iso2022JpSt) : Prop :=
  d.decoderState = isoSt s ∧ d.outputState = isoOut s ∧ d.pendingPrepended = false

theorem Corr.weaken {s : IsoEncSt} {d : Iso2022JpSt} (h : Corr s d) : CorrW s d := ⟨h.1, h.2.1, h.2.2.2⟩

/-- from a state corresponding to `s`, the decoder accepts the escape sequence into `t` silently and
is then in the state of `t` -/
theorem iso_esc_feed (s t : IsoEncSt) (d : Iso2022JpSt) (h : Corr s d) :
    ∃ d', feedAll iso2022JpFam d (escOf t) = some ([], d') ∧ CorrW t d' := by
  have hq := corr_eqv_d0 s d h
  have h0 : ∃ e, feedAll iso2022JpFam (d0 s) (escOf t) = some ([], e) ∧
      e.decoderState = isoSt t ∧ e.outputState = isoOut t := by
    cases s <;> cases t <;> exact ⟨_, rfl, rfl, rfl⟩
  obtain ⟨e, hf, he1, he2⟩ := h0
  obtain ⟨d', hf', hq'⟩ := feedAll_eqv _ _ _ _ _ hq hf
  exact ⟨d', hf', hq'.1 ▸ he1, hq'.2.1 ▸ he2, hq'.2.2.2.2.1⟩

theorem iso_heof2 (s : IsoEncSt) : iso2022JpEFam.eof (iso2022JpEFam.eof s).2 = ([], (iso2022JpEFam.eof s).2) := by
  cases s <;> rfl

/-- **ISO-2022-JP, any history of raw calls** (manual procedure): the decoder accepts the bytes
written so far, and having read them is in the escape state of the encoder -/
theorem iso_history_state (text : List Nat) (h : ∀ c ∈ text, isScalar c = true) (evs : List EEv)
    (s' : IsoEncSt) (text' : List Nat) (hist : EHist iso2022JpEFam .ascii text evs s' text') :
    ∃ o d, feedAll iso2022JpFam isoInit (subst evs) = some (o, d) ∧ CorrW s' d := by
  obtain ⟨p, o, h1, h2, h3⟩ := hist_pos iso2022JpEFam iso_heof2 _ text evs s' text' hist
  have hp : ∀ c ∈ p, isScalar c = true := fun c hc => h c (by rw [h1]; exact List.mem_append_left _ hc)
  obtain ⟨d1, hf, hc⟩ := iso_open p .ascii isoInit hp corr_init
  have hsub : subst evs = subst (erefOpen iso2022JpEFam .ascii p).1 ++ o := by
    rw [h2, subst_append, subst_bytes]
  rw [hsub]
  rcases h3 with ⟨ho, hs⟩ | ⟨c, t, _, hmid⟩ | ⟨_, ho, hs⟩
  · subst ho; subst hs
    exact ⟨_, d1, by rw [List.append_nil]; exact hf, Corr.weaken hc⟩
  · rcases iso_mid_cases hmid with ⟨ho, hs⟩ | ho
    · subst ho; subst hs
      exact ⟨_, d1, by rw [List.append_nil]; exact hf, Corr.weaken hc⟩
    · obtain ⟨d', hf', hc'⟩ := iso_esc_feed _ s' d1 hc
      rw [ho]
      exact ⟨_, d', feedAll_append_some _ _ _ _ _ _ _ _ hf hf', hc'⟩
  · obtain ⟨d', hf', e1, e2, e3, e4⟩ := iso_eof_feed _ d1 hc
    have hs' : s' = .ascii := by rw [hs]; exact e4
    rw [ho]
    refine ⟨_, d', feedAll_append_some _ _ _ _ _ _ _ _ hf hf', ?_⟩
    rw [hs']
    exact ⟨e1, e2, e3⟩

theorem hasPending_iff_corrW (s : IsoEncSt) (d : Iso2022JpSt) (h : CorrW s d) :
    (iso2022JpEFam.hasPending s = true ↔ d.decoderState ≠ .ascii) ∧ d.outputState.toSt = d.decoderState := by
  rw [h.1, h.2.1]
  cases s <;> simp [iso2022JpEFam, isoEncHasPending, isoSt, isoOut, IsoOut.toSt]

/-- **C12 `has_pending_iff` at EVERY call boundary, raw API**: after any history of raw
ISO-2022-JP encoder calls (manual procedure for `Unmappable`) — also one that stopped between an
escape sequence and its character — `has_pending_state()` is true exactly when the decoder that has
read the bytes written so far is outside the ASCII state -/
theorem has_pending_iff_history (text : List Nat) (h : ∀ c ∈ text, isScalar c = true) (evs : List EEv)
    (s' : IsoEncSt) (text' : List Nat) (hist : EHist iso2022JpEFam .ascii text evs s' text') :
    ∃ o d, feedAll iso2022JpFam isoInit (subst evs) = some (o, d) ∧
      (iso2022JpEFam.hasPending s' = true ↔ d.decoderState ≠ .ascii) ∧ d.outputState.toSt = d.decoderState := by
  obtain ⟨o, d, hf, hc⟩ := iso_history_state text h evs s' text' hist
  exact ⟨o, d, hf, hasPending_iff_corrW s' d hc⟩

/-- **C12 `has_pending_iff` at EVERY call boundary, with replacement**: after any history of
`encode_from_utf8` / `encode_from_utf16` calls of the ISO-2022-JP encoder -/
theorem has_pending_iff_repl_history (canAll : Bool) (ncrExtra : Nat) (text : List Nat)
    (h : ∀ c ∈ text, isScalar c = true) (bytes : List Nat) (had : Bool) (s' : IsoEncSt) (text' : List Nat)
    (hist : EReplHist iso2022JpEFam canAll ncrExtra .ascii text bytes had s' text') :
    ∃ o d, feedAll iso2022JpFam isoInit bytes = some (o, d) ∧
      (iso2022JpEFam.hasPending s' = true ↔ d.decoderState ≠ .ascii) ∧ d.outputState.toSt = d.decoderState := by
  obtain ⟨evs, h1, h2⟩ := repl_hist_is_hist iso2022JpEFam canAll ncrExtra IsoEncSt.ascii text bytes had s' text' hist
  rw [h2]
  exact has_pending_iff_history text h evs s' text' h1

/-- after the final call (`last`, `InputEmpty`) the encoder is back in the ASCII state and
`has_pending_state()` is false -/
theorem final_not_pending (canAll : Bool) (ncrExtra : Nat) (text : List Nat) (bytes : List Nat) (had : Bool)
    (hist : EReplProto iso2022JpEFam canAll ncrExtra .ascii text bytes had) :
    ∃ s', EReplHist iso2022JpEFam canAll ncrExtra .ascii text bytes had s' [] ∧
      iso2022JpEFam.hasPending s' = false := by
  obtain ⟨s', h1, h2⟩ := replProto_is_hist iso2022JpEFam (Lemmas.EncSide.variant_elaws .iso2022Jp)
    (eof_empty_of_not_pending .iso2022Jp) canAll ncrExtra _ text bytes had hist
  refine ⟨s', h1, ?_⟩
  have : (iso2022JpEFam.eof s').1 = [] := by
    have := h2
    rw [eref] at this
    exact List.map_eq_nil_iff.mp this
  cases s' <;> first | rfl | (exfalso; revert this; decide)

/-- every other encoder: `has_pending_state()` is false in every state (restated from C12) -/
theorem has_pending_false_other (v : Gen.Variant) (hv : v ≠ .iso2022Jp) (s : (efamOfVariant v).σ) :
    (efamOfVariant v).hasPending s = false := has_pending_stateless v hv s

/-! ## the bytes so far are, on their own, error-free text — at every call boundary -/

theorem mid_rank0 (E : EFam) (hrank : ∀ s c, E.rank s c = 0) {c : Nat} {s s' : E.σ} {o : List Nat}
    (h : Mid E c s s' o) : o = [] ∧ s' = s := by
  cases h with
  | here => exact ⟨rfl, rfl⟩
  | step _ _ o' hu hr hm =>
    exfalso
    have := E.unread_rank s c hr
    rw [hrank s c] at this
    omega

theorem rank0_of_not_iso (v : Gen.Variant) (hv : v ≠ .iso2022Jp) (s : (efamOfVariant v).σ) (c : Nat) :
    (efamOfVariant v).rank s c = 0 := by
  cases v <;> first | rfl | exact absurd rfl hv

theorem heof2_of_not_iso (v : Gen.Variant) (hv : v ≠ .iso2022Jp) (s : (efamOfVariant v).σ) :
    (efamOfVariant v).eof ((efamOfVariant v).eof s).2 = ([], ((efamOfVariant v).eof s).2) := by
  cases v <;> first | rfl | exact absurd rfl hv

theorem corrW_pend (s : IsoEncSt) (d : Iso2022JpSt) (h : CorrW s d) : iso2022JpFam.pend d = none :=
  (Lemmas.FamLaws.iso_pend_none_iff d).mpr h.2.2

theorem corrW_eof (s : IsoEncSt) (d : Iso2022JpSt) (h : CorrW s d) : iso2022JpFam.eof d = none := by
  show isoEof d = none
  unfold isoEof
  rw [h.1]
  cases s <;> rfl

theorem expected_append (v : Gen.Variant) (p q : List Nat) : expected v (p ++ q) = expected v p ++ expected v q := by
  unfold expected; rw [List.flatMap_append]

/-- a decoder that accepted `bs` from its initial state and ends in a state without delayed output in
which the end of the stream is no error has decoded `bs`, as a COMPLETE stream, without an error event -/
theorem ref_of_feedAll (F : Fam) (hinit : F.pend F.init = none) (bs o : List Nat) (d : F.σ)
    (hf : feedAll F F.init bs = some (o, d)) (he : F.eof d = none) : ref F F.init bs 0 = o.map Ev.cp := by
  obtain ⟨h1, hp⟩ := feedAll_ref F bs F.init o d [] 0 hf hinit
  rw [List.append_nil] at h1
  rw [h1, ref_done F d _ hp he, List.append_nil]

/-- raw-history form, one variant at a time: the decoder accepts the bytes so far and ends in a state
in which the end of the stream is no error; the decoded text is a prefix of `expected v text` -/
theorem history_feed_complete (v : Gen.Variant) (hv : IsEnc v) (text : List Nat)
    (h : ∀ c ∈ text, isScalar c = true) (evs : List EEv) (s' : (efamOfVariant v).σ) (text' : List Nat)
    (hist : EHist (efamOfVariant v) (efamOfVariant v).init text evs s' text') :
    ∃ o o2 d, feedAll (decFam v) (decFam v).init (subst evs) = some (o, d) ∧ (decFam v).eof d = none ∧
      expected v text = o ++ o2 := by
  by_cases hiso : v = .iso2022Jp
  · subst hiso
    have hist' : EHist iso2022JpEFam IsoEncSt.ascii text evs s' text' := hist
    obtain ⟨p, o, h1, h2, h3⟩ := hist_pos iso2022JpEFam iso_heof2 IsoEncSt.ascii text evs s' text' hist'
    have hp : ∀ c ∈ p, isScalar c = true := fun c hc => h c (by rw [h1]; exact List.mem_append_left _ hc)
    obtain ⟨d1, hf, hc⟩ := iso_open p .ascii isoInit hp corr_init
    have hsub : subst evs = subst (erefOpen iso2022JpEFam .ascii p).1 ++ o := by
      rw [h2, subst_append, subst_bytes]
    have hexp : expected .iso2022Jp text = expected .iso2022Jp p ++ expected .iso2022Jp text' := by
      rw [h1]; exact expected_append _ _ _
    have hfeed : ∃ d, feedAll iso2022JpFam isoInit (subst evs) = some (expected .iso2022Jp p, d) ∧
        iso2022JpFam.eof d = none := by
      rw [hsub]
      rcases h3 with ⟨ho, _⟩ | ⟨c, t, _, hmid⟩ | ⟨_, ho, _⟩
      · subst ho
        exact ⟨d1, by rw [List.append_nil]; exact hf, corr_eof _ d1 hc⟩
      · rcases iso_mid_cases hmid with ⟨ho, _⟩ | ho
        · subst ho
          exact ⟨d1, by rw [List.append_nil]; exact hf, corr_eof _ d1 hc⟩
        · obtain ⟨d', hf', hc'⟩ := iso_esc_feed _ s' d1 hc
          rw [ho]
          have := feedAll_append_some iso2022JpFam _ _ _ _ _ _ _ hf hf'
          rw [List.append_nil] at this
          exact ⟨d', this, corrW_eof _ d' hc'⟩
      · obtain ⟨d', hf', e1, e2, e3, _⟩ := iso_eof_feed _ d1 hc
        rw [ho]
        have := feedAll_append_some iso2022JpFam _ _ _ _ _ _ _ hf hf'
        rw [List.append_nil] at this
        exact ⟨d', this, corrW_eof .ascii d' ⟨e1, e2, e3⟩⟩
    obtain ⟨d, hfd, hed⟩ := hfeed
    exact ⟨_, _, d, hfd, hed, hexp⟩
  · obtain ⟨p, o, h1, h2, h3⟩ := hist_pos (efamOfVariant v) (heof2_of_not_iso v hiso) _ text evs s' text' hist
    have hp : ∀ c ∈ p, isScalar c = true := fun c hc => h c (by rw [h1]; exact List.mem_append_left _ hc)
    obtain ⟨d, hf, _, he, d', hf', _, he'⟩ := (rt_all v hv).open_ p hp
    have hsub : subst evs = subst (erefOpen (efamOfVariant v) (efamOfVariant v).init p).1 ++ o := by
      rw [h2, subst_append, subst_bytes]
    have hexp : expected v text = expected v p ++ expected v text' := by
      rw [h1]; exact expected_append _ _ _
    rw [hsub]
    rcases h3 with ⟨ho, _⟩ | ⟨c, t, _, hmid⟩ | ⟨_, ho, _⟩
    · subst ho
      exact ⟨_, _, d, by rw [List.append_nil]; exact hf, he, hexp⟩
    · obtain ⟨ho, _⟩ := mid_rank0 _ (rank0_of_not_iso v hiso) hmid
      subst ho
      exact ⟨_, _, d, by rw [List.append_nil]; exact hf, he, hexp⟩
    · rw [ho]
      have := feedAll_append_some (decFam v) _ _ _ _ _ _ _ hf hf'
      rw [List.append_nil] at this
      exact ⟨_, _, d', this, he', hexp⟩

/-- **C12, every call boundary, raw API (manual procedure)**: the bytes written so far by ANY history of
calls — taken on their own as a complete stream, so also when the history stops between an escape
sequence and its character — decode without any error event (none at the end of the stream either) to a
prefix of `expected v text` -/
theorem history_decodes_complete_raw (v : Gen.Variant) (hv : IsEnc v) (text : List Nat)
    (h : ∀ c ∈ text, isScalar c = true) (evs : List EEv) (s' : (efamOfVariant v).σ) (text' : List Nat)
    (hist : EHist (efamOfVariant v) (efamOfVariant v).init text evs s' text') :
    ∃ o o2, ref (decFam v) (decFam v).init (subst evs) 0 = o.map Ev.cp ∧ expected v text = o ++ o2 := by
  obtain ⟨o, o2, d, hf, he, hexp⟩ := history_feed_complete v hv text h evs s' text' hist
  exact ⟨o, o2, ref_of_feedAll _ (rt_all v hv).init_pend _ _ d hf he, hexp⟩

/-- **C12, every call boundary, with replacement** -/
theorem history_decodes_complete (v : Gen.Variant) (hv : IsEnc v) (text : List Nat)
    (h : ∀ c ∈ text, isScalar c = true) (canAll : Bool) (ncrExtra : Nat) (bytes : List Nat) (had : Bool)
    (s' : (efamOfVariant v).σ) (text' : List Nat)
    (hist : EReplHist (efamOfVariant v) canAll ncrExtra (efamOfVariant v).init text bytes had s' text') :
    ∃ o o2, ref (decFam v) (decFam v).init bytes 0 = o.map Ev.cp ∧ expected v text = o ++ o2 := by
  obtain ⟨evs, h1, h2⟩ := repl_hist_is_hist _ canAll ncrExtra _ text bytes had s' text' hist
  rw [h2]
  exact history_decodes_complete_raw v hv text h evs s' text' h1

/-! ## Non-vacuity: the stop between `ESC ( J` and U+00A5 -/

example : ∃ o d, feedAll iso2022JpFam isoInit (subst [.byte 0x61, .byte 0x1B, .byte 0x28, .byte 0x4A]) = some (o, d) ∧
    (iso2022JpEFam.hasPending .roman = true ↔ d.decoderState ≠ .ascii) ∧ d.outputState.toSt = d.decoderState := by
  have hist : EHist iso2022JpEFam .ascii [0x61, 0xA5] [.byte 0x61, .byte 0x1B, .byte 0x28, .byte 0x4A] .roman [0xA5] :=
    EHist.call (E := iso2022JpEFam) .ascii [(0x61, 1), (0xA5, 2)] [] true (.full 2) [] .roman [0xA5]
      (fun _ => rfl) (EHist.nil _ _)
  exact has_pending_iff_history [0x61, 0xA5] (by decide) _ _ _ hist

end EncodingRs.Thm.C12State
