import EncodingRs.Lemmas.EncSide
import EncodingRs.Thm.C04
/-!
# C09, encoder side — encoding with replacement equals the documented manual procedure

The manual procedure (`EncoderResult::Unmappable`: "the caller must either treat this as a fatal error
or must append a placeholder to the output and then re-push the remaining input to the encoder") with
the placeholder `&#` decimal-scalar `;`: `manualBytes e` are the bytes a caller assembles from the
events `e` (bytes and `Unmappable` reports, in order) of ANY protocol-following history over the
without-replacement methods (`Thm.C04.EProto`: any cuts at character boundaries, any stop decisions,
either source form).

* `encRepl_sound` — for every encoder family, state, source form, `last`, capacity and stop policy of
  the inner calls: what a with-replacement call (`Model.encRepl` = `Encoder::encode_from_utf8/16`) wrote
  is `manualBytes` of events `evs` such that `evs` followed by the reference run of the text it left
  is the reference run of the whole text, and `had_unmappables` is true exactly when `evs` contains
  an `Unmappable` report;
* `builtin_eq_manual_enc` — one complete with-replacement call (`last`, `InputEmpty`) wrote exactly
  the bytes of the manual procedure, and `had_unmappables` is true iff the raw API reported an
  unmappable character;
* `repl_history_eq_manual` — the same for ANY protocol-following history of with-replacement calls
  (`EReplProto`: any chunks, capacities, source forms; `OutputFull` returns re-pushed): the
  concatenated output is `manualBytes` of the raw history, the disjunction of the `had_unmappables`
  flags says whether the raw history saw an `Unmappable`;
* `ncr_decimal` (restated from C03), `manualBytes_eref_eq_erefHtml`: `manualBytes` of the reference
  run is `erefHtml`, which `Thm.C03.encode_conforms` shows to be the Encoding Standard's run in error
  mode "html".
-/
namespace EncodingRs.Thm.C09Enc
open EncodingRs EncodingRs.Model EncodingRs.Lemmas.EncCore EncodingRs.Lemmas.EncPotential
open EncodingRs.Lemmas.EncSide EncodingRs.Thm.C04

/-- the manual procedure: bytes as they come, `&#…;` for each `Unmappable(c)` -/
def manualBytes : List EEv → List Nat
  | [] => []
  | .byte b :: t => b :: manualBytes t
  | .unmap c :: t => ncr c ++ manualBytes t

/-- did the raw API report an unmappable character? -/
def hasUnmap : List EEv → Bool
  | [] => false
  | .byte _ :: t => hasUnmap t
  | .unmap _ :: _ => true

theorem manualBytes_append : ∀ (a b : List EEv), manualBytes (a ++ b) = manualBytes a ++ manualBytes b
  | [], b => rfl
  | .byte x :: t, b => by simp [manualBytes, manualBytes_append t b]
  | .unmap u :: t, b => by simp [manualBytes, manualBytes_append t b]

theorem manualBytes_bytes : ∀ (l : List Nat), manualBytes (l.map EEv.byte) = l
  | [] => rfl
  | a :: t => by simp [manualBytes, manualBytes_bytes t]

theorem hasUnmap_append : ∀ (a b : List EEv), hasUnmap (a ++ b) = (hasUnmap a || hasUnmap b)
  | [], b => by simp [hasUnmap]
  | .byte x :: t, b => by simp [hasUnmap, hasUnmap_append t b]
  | .unmap u :: t, b => by simp [hasUnmap]

theorem hasUnmap_bytes : ∀ (l : List Nat), hasUnmap (l.map EEv.byte) = false
  | [] => rfl
  | a :: t => by simp [hasUnmap, hasUnmap_bytes t]

theorem hasUnmap_iff (e : List EEv) : hasUnmap e = true ↔ ∃ c, EEv.unmap c ∈ e := by
  induction e with
  | nil => simp [hasUnmap]
  | cons x t ih =>
    cases x with
    | byte b => simp [hasUnmap, ih]
    | unmap c => simp only [hasUnmap, true_iff]; exact ⟨c, List.mem_cons_self ..⟩

/-- what one raw call contributes under the manual procedure: its output, plus the numeric character
reference if it returned `Unmappable` -/
theorem manualBytes_eevs {σ} (r : ECallRes σ) :
    manualBytes (eevs r) = r.out ++ (match r.res with | .unmappable c => ncr c | _ => []) := by
  unfold eevs
  rw [manualBytes_append, manualBytes_bytes]
  cases r.res <;> simp [manualBytes]

theorem hasUnmap_eevs {σ} (r : ECallRes σ) :
    hasUnmap (eevs r) = (match r.res with | .unmappable _ => true | _ => false) := by
  unfold eevs
  rw [hasUnmap_append, hasUnmap_bytes]
  cases r.res <;> simp [hasUnmap]

/-- `write_ncr`: `&#`, the decimal digits of the code point (shortest form, see
`Thm.C03.decimalDigits_shortest`), `;` -/
theorem ncr_decimal (c : Nat) (hc : c < 0x110000) :
    Model.ncr c = [0x26, 0x23] ++ Spec.Encode.decimalDigits c ++ [0x3B] :=
  Lemmas.ConformEnc.ncr_decimal c hc

/-- the manual procedure applied to the reference run is `erefHtml` — by
`Thm.C03.encode_conforms` the output of the Encoding Standard's "encode" in error mode "html" -/
theorem manualBytes_eref_eq_erefHtml (E : EFam) : ∀ (text : List Nat) (s : E.σ),
    manualBytes (eref E s text) = Lemmas.ConformEnc.erefHtml E s text
  | [], s => by simp [eref, Lemmas.ConformEnc.erefHtml, manualBytes_bytes]
  | c :: rest, s => by
    rw [eref_cons, manualBytes_append]
    unfold Lemmas.ConformEnc.erefHtml Lemmas.ConformEnc.charOut
    cases h : processChar E (E.rank s c + 1) s c .unlimited [] with
    | done st out b =>
      simp only [charEvs, charSt, Lemmas.ConformEnc.ncrOfReport, List.nil_append]
      rw [manualBytes_bytes, manualBytes_eref_eq_erefHtml E rest st]
    | unmappable st out u =>
      simp only [charEvs, charSt, Lemmas.ConformEnc.ncrOfReport]
      rw [manualBytes_append, manualBytes_bytes, manualBytes_eref_eq_erefHtml E rest st]
      simp [manualBytes]
    | full st out need =>
      simp only [charEvs, charSt, Lemmas.ConformEnc.ncrOfReport, List.nil_append]
      rw [manualBytes_bytes, manualBytes_eref_eq_erefHtml E rest st]

/-! ## one with-replacement call -/

/-- one inner raw call of the loop, on `&src[total_read..]`: its events followed by the reference
run of what it left (the characters of `&src[total_read + read..]`, then `rest`) are the reference
run of what it was given -/
theorem inner_sound (E : EFam) (L : ELaws E) (utf16 last : Bool) (src : List Nat) (s : E.σ) (b : Budget)
    (tr : Nat) (rest : List Nat) (hl : last = true → rest = []) :
    eevs (ecall E utf16 s (src.drop tr) last b)
      ++ eref E (ecall E utf16 s (src.drop tr) last b).st
          ((itemsOfSrc utf16 (src.drop (tr + (ecall E utf16 s (src.drop tr) last b).read))).map Prod.fst ++ rest)
      = eref E s ((itemsOfSrc utf16 (src.drop tr)).map Prod.fst ++ rest) := by
  have hs := erunI_sound E L last (itemsOfSrc utf16 (src.drop tr)) s b rest hl
  have hr := ecall_rest E utf16 s (src.drop tr) last b
  rw [List.drop_drop] at hr
  rw [hr, ecall_eq_erunI]
  exact hs

/-- the loop of the wrapper, from any round on -/
theorem go_sound (E : EFam) (L : ELaws E) {utf16 last : Bool} {src : List Nat} {eff : Nat} {s : E.σ}
    {budgets : List Budget} {tr tw : Nat} {acc : List Nat} {had : Bool}
    {inner : List (Nat × Nat × ERes × Nat)} {t : EReplRes E.σ}
    (h : GoRel E utf16 last src eff s budgets tr tw acc had inner t)
    (rest : List Nat) (hl : last = true → rest = []) :
    ∃ evs, t.out = acc ++ manualBytes evs ∧ t.hadUnmappables = (had || hasUnmap evs)
      ∧ evs ++ eref E t.st ((itemsOfSrc utf16 (src.drop t.read)).map Prod.fst ++ rest)
          = eref E s ((itemsOfSrc utf16 (src.drop tr)).map Prod.fst ++ rest) := by
  induction h with
  | stop s budgets tr tw acc had inner r hr hres =>
    refine ⟨eevs r, ?_, ?_, by rw [hr]; exact inner_sound E L utf16 last src s _ tr rest hl⟩
    · rw [manualBytes_eevs]
      rcases hres with hres | hres <;> rw [hres] <;> simp
    · rw [hasUnmap_eevs]
      rcases hres with hres | hres <;> rw [hres] <;> simp
  | unmapEnd s budgets tr tw acc had inner r c hr hres hfull hend =>
    refine ⟨eevs r, ?_, ?_, by rw [hr]; exact inner_sound E L utf16 last src s _ tr rest hl⟩
    · rw [manualBytes_eevs, hres]; simp
    · rw [hasUnmap_eevs, hres]; simp
  | unmapFull s budgets tr tw acc had inner r c hr hres hfull hend =>
    refine ⟨eevs r, ?_, ?_, by rw [hr]; exact inner_sound E L utf16 last src s _ tr rest hl⟩
    · rw [manualBytes_eevs, hres]; simp
    · rw [hasUnmap_eevs, hres]; simp
  | unmapCont s budgets tr tw acc had inner r c t hr hres hroom hnext ih =>
    obtain ⟨evs', h1, h2, h3⟩ := ih
    refine ⟨eevs r ++ evs', ?_, ?_, ?_⟩
    · rw [h1, manualBytes_append, manualBytes_eevs, hres]; simp
    · rw [h2, hasUnmap_append, hasUnmap_eevs, hres]; simp
    · rw [List.append_assoc, h3, hr]
      exact inner_sound E L utf16 last src s _ tr rest hl

/-- **The built-in NCR replacement writes exactly what the manual procedure writes for the text it
consumed.**  For every encoder family with `ELaws` (all variants), every state, source form, `last`,
capacity, `NCR_EXTRA` and stop policy of the inner calls: there are events `evs` — bytes and
`Unmappable` reports — such that the call wrote `manualBytes evs`, `had_unmappables` says whether
`evs` contains an `Unmappable` report, and `evs` followed by the reference run of the unconsumed
characters (and of whatever text `rest` follows the buffer; `rest = []` for a `last` call) from the
state the call leaves is the reference run of the whole text. -/
theorem encRepl_sound (E : EFam) (L : ELaws E) (canAll : Bool) (ncrExtra : Nat) (utf16 last : Bool)
    (cap fuel : Nat) (s : E.σ) (src : List Nat) (budgets : List Budget) (t : EReplRes E.σ)
    (h : encRepl E canAll ncrExtra utf16 last cap fuel s src budgets = some t)
    (rest : List Nat) (hl : last = true → rest = []) :
    ∃ evs, t.out = manualBytes evs ∧ t.hadUnmappables = hasUnmap evs
      ∧ evs ++ eref E t.st ((itemsOfSrc utf16 (src.drop t.read)).map Prod.fst ++ rest)
          = eref E s ((itemsOfSrc utf16 src).map Prod.fst ++ rest) := by
  rcases encRepl_cases E canAll ncrExtra utf16 last cap fuel s src budgets t h with
    ⟨_, ⟨_, _, ht⟩ | ⟨_, ht⟩⟩ | ⟨_, hgo⟩
  · subst ht; exact ⟨[], rfl, rfl, by simp⟩
  · subst ht; exact ⟨[], rfl, rfl, by simp⟩
  · obtain ⟨evs, h1, h2, h3⟩ := go_sound E L hgo rest hl
    exact ⟨evs, by simpa using h1, by simpa using h2, by simpa using h3⟩

/-- `InputEmpty` from a `last` with-replacement call: nothing is left — no characters, and the
end-of-stream block has nothing more to write -/
theorem go_complete (E : EFam) (L : ELaws E) (hpend : ∀ s, E.hasPending s = false → (E.eof s).1 = [])
    {utf16 : Bool} {src : List Nat} {eff : Nat} {s : E.σ}
    {budgets : List Budget} {tr tw : Nat} {acc : List Nat} {had : Bool}
    {inner : List (Nat × Nat × ERes × Nat)} {t : EReplRes E.σ}
    (h : GoRel E utf16 true src eff s budgets tr tw acc had inner t) (hres : t.res = .inputEmpty) :
    itemsOfSrc utf16 (src.drop t.read) = [] ∧ eref E t.st [] = [] := by
  induction h with
  | stop s budgets tr tw acc had inner r hr hres' =>
    subst hr
    simp only at hres ⊢
    have hr := ecall_rest E utf16 s (src.drop tr) true (budgets.headD .unlimited)
    rw [List.drop_drop] at hr
    rw [ecall_eq_erunI] at hres
    obtain ⟨h1, h2⟩ := final_nothing_left E L _ s _ hres
    rw [hr, ecall_eq_erunI]
    exact ⟨h1, h2⟩
  | unmapEnd s budgets tr tw acc had inner r c hr hres' hfull hend =>
    simp only
    refine ⟨?_, ?_⟩
    · rw [hend.1, List.drop_length]; exact itemsOfSrc_nil utf16
    · have hp : E.hasPending r.st = false := by
        cases hq : E.hasPending r.st with
        | false => rfl
        | true => exact absurd ⟨rfl, hq⟩ hend.2
      rw [eref, hpend _ hp]; rfl
  | unmapFull s budgets tr tw acc had inner r c hr hres' hfull hend => cases hres
  | unmapCont s budgets tr tw acc had inner r c t hr hres' hroom hnext ih => exact ih hres

theorem encRepl_complete (E : EFam) (L : ELaws E) (hpend : ∀ s, E.hasPending s = false → (E.eof s).1 = [])
    (canAll : Bool) (ncrExtra : Nat) (utf16 : Bool) (cap fuel : Nat) (s : E.σ) (src : List Nat)
    (budgets : List Budget) (t : EReplRes E.σ)
    (h : encRepl E canAll ncrExtra utf16 true cap fuel s src budgets = some t) (hres : t.res = .inputEmpty) :
    itemsOfSrc utf16 (src.drop t.read) = [] ∧ eref E t.st [] = [] := by
  rcases encRepl_cases E canAll ncrExtra utf16 true cap fuel s src budgets t h with
    ⟨_, ⟨hs, hp, ht⟩ | ⟨_, ht⟩⟩ | ⟨_, hgo⟩
  · subst ht; subst hs
    refine ⟨itemsOfSrc_nil utf16, ?_⟩
    have hp' : E.hasPending s = false := by
      cases hq : E.hasPending s with
      | false => rfl
      | true => exact absurd ⟨rfl, hq⟩ hp
    simp only
    rw [eref, hpend _ hp']; rfl
  · subst ht; cases hres
  · exact go_complete E L hpend hgo hres

/-- **C09, encoder side, one complete call**: the bytes of a with-replacement call that ends the
stream (`last`, `InputEmpty`) — for any capacity that allowed it to get there and any stop policy of
its inner calls — are exactly the bytes a caller assembles with the manual procedure over the
without-replacement methods (ANY protocol-following raw history `e` of the same text, `&#…;`
appended at each `Unmappable`), and `had_unmappables` is true iff the raw API reported an unmappable
character. -/
theorem builtin_eq_manual_enc (E : EFam) (L : ELaws E)
    (hpend : ∀ s, E.hasPending s = false → (E.eof s).1 = [])
    (canAll : Bool) (ncrExtra : Nat) (utf16 : Bool) (cap fuel : Nat) (s : E.σ) (src : List Nat)
    (budgets : List Budget) (t : EReplRes E.σ) (e : List EEv)
    (hman : EProto E s ((itemsOfSrc utf16 src).map Prod.fst) e)
    (hrun : encRepl E canAll ncrExtra utf16 true cap fuel s src budgets = some t)
    (hres : t.res = .inputEmpty) :
    t.out = manualBytes e ∧ (t.hadUnmappables = true ↔ ∃ c, EEv.unmap c ∈ e) := by
  obtain ⟨evs, h1, h2, h3⟩ := encRepl_sound E L canAll ncrExtra utf16 true cap fuel s src budgets t hrun []
    (fun _ => rfl)
  obtain ⟨h4, h5⟩ := encRepl_complete E L hpend canAll ncrExtra utf16 cap fuel s src budgets t hrun hres
  rw [h4] at h3
  simp only [List.map_nil, List.append_nil] at h3
  rw [h5, List.append_nil] at h3
  rw [enc_history_eq_ref E L _ _ _ hman, ← h3]
  exact ⟨h1, by rw [h2]; exact hasUnmap_iff evs⟩

/-! ## histories of with-replacement calls -/

/-- a caller following the documented protocol with the with-replacement methods: non-`last` calls on
chunks, then `last` calls until `InputEmpty`; whatever a call did not consume is pushed again
(possibly in the other source form, with another capacity); `bytes` is everything written, `had` the
disjunction of the `had_unmappables` flags.  `text` is the sequence of scalar values. -/
inductive EReplProto (E : EFam) (canAll : Bool) (ncrExtra : Nat) : E.σ → List Nat → List Nat → Bool → Prop
  | final (s : E.σ) (utf16 : Bool) (cap fuel : Nat) (src : List Nat) (budgets : List Budget) (t : EReplRes E.σ) :
      encRepl E canAll ncrExtra utf16 true cap fuel s src budgets = some t → t.res = .inputEmpty →
      EReplProto E canAll ncrExtra s ((itemsOfSrc utf16 src).map Prod.fst) t.out t.hadUnmappables
  | lastStep (s : E.σ) (utf16 : Bool) (cap fuel : Nat) (src : List Nat) (budgets : List Budget) (t : EReplRes E.σ)
      (bytes' : List Nat) (had' : Bool) :
      encRepl E canAll ncrExtra utf16 true cap fuel s src budgets = some t → t.res ≠ .inputEmpty →
      EReplProto E canAll ncrExtra t.st ((itemsOfSrc utf16 (src.drop t.read)).map Prod.fst) bytes' had' →
      EReplProto E canAll ncrExtra s ((itemsOfSrc utf16 src).map Prod.fst) (t.out ++ bytes') (t.hadUnmappables || had')
  | chunkStep (s : E.σ) (utf16 : Bool) (cap fuel : Nat) (src : List Nat) (budgets : List Budget) (t : EReplRes E.σ)
      (rest bytes' : List Nat) (had' : Bool) :
      encRepl E canAll ncrExtra utf16 false cap fuel s src budgets = some t →
      EReplProto E canAll ncrExtra t.st ((itemsOfSrc utf16 (src.drop t.read)).map Prod.fst ++ rest) bytes' had' →
      EReplProto E canAll ncrExtra s ((itemsOfSrc utf16 src).map Prod.fst ++ rest) (t.out ++ bytes')
        (t.hadUnmappables || had')

/-- every history of with-replacement calls writes the manual procedure's bytes for the reference
run of the text -/
theorem repl_history_eq_ref (E : EFam) (L : ELaws E) (hpend : ∀ s, E.hasPending s = false → (E.eof s).1 = [])
    (canAll : Bool) (ncrExtra : Nat) (s : E.σ) (text bytes : List Nat) (had : Bool)
    (h : EReplProto E canAll ncrExtra s text bytes had) :
    bytes = manualBytes (eref E s text) ∧ had = hasUnmap (eref E s text) := by
  induction h with
  | final s utf16 cap fuel src budgets t hrun hres =>
    obtain ⟨evs, h1, h2, h3⟩ := encRepl_sound E L canAll ncrExtra utf16 true cap fuel s src budgets t hrun []
      (fun _ => rfl)
    obtain ⟨h4, h5⟩ := encRepl_complete E L hpend canAll ncrExtra utf16 cap fuel s src budgets t hrun hres
    rw [h4] at h3
    simp only [List.map_nil, List.append_nil] at h3
    rw [h5, List.append_nil] at h3
    rw [← h3]
    exact ⟨h1, h2⟩
  | lastStep s utf16 cap fuel src budgets t bytes' had' hrun _ _ ih =>
    obtain ⟨evs, h1, h2, h3⟩ := encRepl_sound E L canAll ncrExtra utf16 true cap fuel s src budgets t hrun []
      (fun _ => rfl)
    simp only [List.append_nil] at h3
    rw [← h3, manualBytes_append, hasUnmap_append, ih.1, ih.2, h1, h2]
    exact ⟨rfl, rfl⟩
  | chunkStep s utf16 cap fuel src budgets t rest bytes' had' hrun _ ih =>
    obtain ⟨evs, h1, h2, h3⟩ := encRepl_sound E L canAll ncrExtra utf16 false cap fuel s src budgets t hrun rest
      (fun h => by cases h)
    rw [← h3, manualBytes_append, hasUnmap_append, ih.1, ih.2, h1, h2]
    exact ⟨rfl, rfl⟩

/-- **C09, encoder side, arbitrary cut points and output capacities**: ANY protocol-following history
of with-replacement calls and ANY protocol-following history of without-replacement calls of the same
text agree — the former's output is the latter's with `&#…;` appended at each `Unmappable`, and some
`had_unmappables` was true iff the raw API reported an unmappable character -/
theorem repl_history_eq_manual (E : EFam) (L : ELaws E)
    (hpend : ∀ s, E.hasPending s = false → (E.eof s).1 = [])
    (canAll : Bool) (ncrExtra : Nat) (s : E.σ) (text bytes : List Nat) (had : Bool) (e : List EEv)
    (hrepl : EReplProto E canAll ncrExtra s text bytes had) (hman : EProto E s text e) :
    bytes = manualBytes e ∧ (had = true ↔ ∃ c, EEv.unmap c ∈ e) := by
  obtain ⟨h1, h2⟩ := repl_history_eq_ref E L hpend canAll ncrExtra s text bytes had hrepl
  rw [enc_history_eq_ref E L _ _ _ hman]
  exact ⟨h1, by rw [h2]; exact hasUnmap_iff _⟩

/-- for each of the 40 encodings, from the initial state -/
theorem all_encoders (v : Gen.Variant) (canAll : Bool) (ncrExtra : Nat) (text bytes : List Nat) (had : Bool)
    (e : List EEv)
    (hrepl : EReplProto (efamOfVariant v) canAll ncrExtra (efamOfVariant v).init text bytes had)
    (hman : EProto (efamOfVariant v) (efamOfVariant v).init text e) :
    bytes = manualBytes e ∧ (had = true ↔ ∃ c, EEv.unmap c ∈ e) :=
  repl_history_eq_manual _ (Lemmas.EncSide.variant_elaws v) (eof_empty_of_not_pending v) canAll ncrExtra _ text bytes
    had e hrepl hman

/-- a with-replacement history never depends on how it was chunked, which capacities were offered or
which source form was used -/
theorem repl_histories_agree (v : Gen.Variant) (canAll : Bool) (ncrExtra : Nat) (text b₁ b₂ : List Nat)
    (h₁ h₂ : Bool)
    (p₁ : EReplProto (efamOfVariant v) canAll ncrExtra (efamOfVariant v).init text b₁ h₁)
    (p₂ : EReplProto (efamOfVariant v) canAll ncrExtra (efamOfVariant v).init text b₂ h₂) :
    b₁ = b₂ ∧ h₁ = h₂ := by
  obtain ⟨a1, a2⟩ := repl_history_eq_ref _ (Lemmas.EncSide.variant_elaws v) (eof_empty_of_not_pending v) canAll
    ncrExtra _ text b₁ h₁ p₁
  obtain ⟨c1, c2⟩ := repl_history_eq_ref _ (Lemmas.EncSide.variant_elaws v) (eof_empty_of_not_pending v) canAll
    ncrExtra _ text b₂ h₂ p₂
  exact ⟨by rw [a1, c1], by rw [a2, c2]⟩

/-! ## Non-vacuity

windows-1252 is not needed: EUC-KR, UTF-16 source `a` U+00E9 `b`, one complete call:
`a&#233;b`, `had_unmappables = true`; the raw API on the same text stops at U+00E9 with
`Unmappable(U+00E9)` having written `a`. -/
example :
    let t := encRepl eucKrEFam false Gen.ncrExtra true true 64 6 () [0x61, 0xE9, 0x62] []
    t.map (·.res) = some .inputEmpty ∧ t.map (·.read) = some 3
      ∧ t.map (·.out) = some [0x61, 38, 35, 50, 51, 51, 59, 0x62] ∧ t.map (·.hadUnmappables) = some true := by
  decide +kernel

example : (ecall eucKrEFam true () [0x61, 0xE9, 0x62] true .unlimited).res = .unmappable 0xE9
    ∧ (ecall eucKrEFam true () [0x61, 0xE9, 0x62] true .unlimited).out = [0x61]
    ∧ (ecall eucKrEFam true () [0x61, 0xE9, 0x62] true .unlimited).read = 2 := by
  decide +kernel

/-- the history relations are inhabited: x-user-defined, `a` U+00E9 `b` from UTF-16 with an 11-byte
destination takes two with-replacement calls (`OutputFull` after `a&#233;`, then `b`) … -/
example : EReplProto userDefinedEFam false Gen.ncrExtra () [0x61, 0xE9, 0x62]
    [0x61, 38, 35, 50, 51, 51, 59, 0x62] true := by
  have h1 : encRepl userDefinedEFam false Gen.ncrExtra true true 11 6 () [0x61, 0xE9, 0x62] []
      = some ⟨.outputFull, 2, [0x61, 38, 35, 50, 51, 51, 59], true, (), [(1, 1, .unmappable 0xE9, 0)]⟩ := by rfl
  have h2 : encRepl userDefinedEFam false Gen.ncrExtra true true 11 6 () [0x62] []
      = some ⟨.inputEmpty, 1, [0x62], false, (), [(1, 1, .inputEmpty, 0)]⟩ := by rfl
  exact EReplProto.lastStep (E := userDefinedEFam) () true 11 6 [0x61, 0xE9, 0x62] []
    ⟨.outputFull, 2, [0x61, 38, 35, 50, 51, 51, 59], true, (), [(1, 1, .unmappable 0xE9, 0)]⟩ [0x62] false h1
    (by decide)
    (EReplProto.final (E := userDefinedEFam) () true 11 6 [0x62] []
      ⟨.inputEmpty, 1, [0x62], false, (), [(1, 1, .inputEmpty, 0)]⟩ h2 rfl)

/-- … and the raw API two calls (`Unmappable(U+00E9)` after `a`, then `b`); `manualBytes` of its
events is the with-replacement output above, as `repl_history_eq_manual` says -/
example : EProto userDefinedEFam () [0x61, 0xE9, 0x62] [.byte 0x61, .unmap 0xE9, .byte 0x62] :=
  EProto.lastStep (E := userDefinedEFam) () [(0x61, 1), (0xE9, 1), (0x62, 1)] .unlimited [.byte 0x62] (by decide)
    (EProto.final (E := userDefinedEFam) () [(0x62, 1)] .unlimited (by decide))

example : manualBytes [.byte 0x61, .unmap 0xE9, .byte 0x62] = [0x61, 38, 35, 50, 51, 51, 59, 0x62] := by decide

end EncodingRs.Thm.C09Enc
