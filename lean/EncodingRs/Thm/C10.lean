import EncodingRs.Lemmas.Life
import EncodingRs.Thm.C08
/-!
# C10 — BOM sniffing, BOM removal and no-BOM modes behave as documented for any split
(and C02 lifted to the `Decoder` level)

`Lemmas.Life.dref d rem pos` *is* the documented semantics: for a fresh sniffing
decoder (`Life.atStart`) it reads

  EF BB BF t ↦ UTF-8 decoding of t          (positions continue at 3)
  FE FF t    ↦ UTF-16BE decoding of t       (… at 2)
  FF FE t    ↦ UTF-16LE decoding of t       (… at 2)
  otherwise  ↦ the nominal encoding's decoding of the whole stream,

for BOM removal only the encoding's own BOM, for no BOM handling nothing; in the
`Seen…` states the withheld look-alike prefix is delivered exactly once.
-/
namespace EncodingRs.Thm.C10
open EncodingRs EncodingRs.Model EncodingRs.Lemmas.Core EncodingRs.Lemmas.FamLaws EncodingRs.Lemmas.Life

variable {F : Fam}

/-- a protocol-following history of `Decoder` calls (any split of the stream incl. inside
the potential BOM, any stop policies, either sink); `none` when a call panicked -/
inductive DProto (k : Sink) : Decoder F → Nat → List Nat → List Ev → Prop
  /-- the call that ends the stream -/
  | final (d : Decoder F) (pos : Nat) (rem : List Nat) (b1 b2 : Budget) (read : Nat) (out : List Nat)
      (d' : Decoder F) (inner : List (List Nat × Res × Nat)) :
      ReplayOk k d.cur →
      d.rawCall k rem true b1 b2 = .ok .inputEmpty read out d' inner →
      DProto k d pos rem (out.map Ev.cp)
  | lastStep (d : Decoder F) (pos : Nat) (rem : List Nat) (b1 b2 : Budget) (res : Res) (read : Nat)
      (out : List Nat) (d' : Decoder F) (inner : List (List Nat × Res × Nat)) (evs' : List Ev) :
      ReplayOk k d.cur →
      d.rawCall k rem true b1 b2 = .ok res read out d' inner → res ≠ .inputEmpty →
      DProto k d' (pos + read) (rem.drop read) evs' →
      DProto k d pos rem (out.map Ev.cp ++ resEv (pos + read) res ++ evs')
  | chunkStep (d : Decoder F) (pos : Nat) (src rest : List Nat) (b1 b2 : Budget) (res : Res) (read : Nat)
      (out : List Nat) (d' : Decoder F) (inner : List (List Nat × Res × Nat)) (evs' : List Ev) :
      ReplayOk k d.cur →
      d.rawCall k src false b1 b2 = .ok res read out d' inner →
      DProto k d' (pos + read) (src.drop read ++ rest) evs' →
      DProto k d pos (src ++ rest) (out.map Ev.cp ++ resEv (pos + read) res ++ evs')

/-- the decoder is finished exactly after a `last` call that returned `InputEmpty`,
or it is still waiting at the start of an empty stream: nothing is left to say -/
theorem final_dref (k : Sink) (L : Laws F) (halt : ∀ s src m r, F.alt s src = some (m, r) → m ≤ src.length)
    (d : Decoder F) (pos : Nat) (rem : List Nat) (b1 b2 : Budget) (read : Nat) (out : List Nat)
    (d' : Decoder F) (inner : List (List Nat × Res × Nat)) (hw : withheld d.life ≤ pos) (hr : ReplayOk k d.cur)
    (h : d.rawCall k rem true b1 b2 = .ok .inputEmpty read out d' inner) :
    out.map Ev.cp ++ dref d' (rem.drop read) (pos + read) = dref d rem pos := by
  have hs := rawCall_sound k L halt d rem [] pos true b1 b2 (fun _ => rfl) hw hr
  rw [h] at hs
  simp only [DSound, resEv, List.append_nil] at hs
  exact hs.1

/-- **C10 / C02 for the `Decoder`**: every protocol-following history of calls on a
decoder in life-cycle state `d` says exactly what the documented BOM semantics
`dref d` says about the stream — the same text and the same absolute malformed
spans, however the first bytes are split across calls and also when the stream
ends inside a potential BOM. (`hfin`: after the final `InputEmpty` nothing is
left to say — discharged by `final_nothing_left` below.) -/
theorem dhistory_eq_dref (k : Sink) (L : Laws F)
    (halt : ∀ s src m r, F.alt s src = some (m, r) → m ≤ src.length)
    (d : Decoder F) (pos : Nat) (rem : List Nat) (e : List Ev) (hw : withheld d.life ≤ pos)
    (h : DProto k d pos rem e)
    (hfin : ∀ (d d' : Decoder F) pos rem b1 b2 read out inner, withheld d.life ≤ pos → ReplayOk k d.cur →
      d.rawCall k rem true b1 b2 = .ok .inputEmpty read out d' inner → dref d' (rem.drop read) (pos + read) = []) :
    e = dref d rem pos := by
  induction h with
  | final d pos rem b1 b2 read out d' inner hr hcall =>
    have := final_dref k L halt d pos rem b1 b2 read out d' inner hw hr hcall
    rw [hfin d d' pos rem b1 b2 read out inner hw hr hcall, List.append_nil] at this
    exact this
  | lastStep d pos rem b1 b2 res read out d' inner evs' hr hcall _ _ ih =>
    have hs := rawCall_sound k L halt d rem [] pos true b1 b2 (fun _ => rfl) hw hr
    rw [hcall] at hs
    simp only [DSound, List.append_nil] at hs
    rw [ih hs.2, hs.1]
  | chunkStep d pos src rest b1 b2 res read out d' inner evs' hr hcall _ ih =>
    have hs := rawCall_sound k L halt d src rest pos false b1 b2 (fun h => by cases h) hw hr
    rw [hcall] at hs
    simp only [DSound] at hs
    rw [ih hs.2, hs.1]

/-! ### the replay hypothesis holds while bytes are being withheld from a fresh variant decoder -/

theorem replayOk_of_rank_zero (k : Sink) (s : F.σ) (hs : F.rank (flushSt F s) = 0)
    (halt : ∀ s src m r, F.alt s src = some (m, r) → m ≤ src.length)
    (halt1 : ∀ s src m r, F.alt s src = some (m, r) → 1 ≤ m) : ReplayOk k (.nominal s : Cur F) := by
  have key : ∀ (src : List Nat) (b1 : Budget) (l a : Nat),
      (call F k s src false b1).res = .malformed l a → 1 ≤ (call F k s src false b1).read := by
    intro src b1 l a h
    -- a `Malformed` return with nothing read strictly decreases the rank of the flushed state
    unfold call at h ⊢
    cases hp : F.pend s with
    | none =>
      simp only [hp] at h ⊢
      have hfl : flushSt F s = s := by simp [flushSt, hp]
      rw [hfl] at hs
      rcases EncodingRs.Thm.C08.malformed_progress F k false halt1 src s b1 l a h with h1 | h1
      · exact h1
      · omega
    | some p =>
      obtain ⟨o, s'⟩ := p
      simp only [hp] at h ⊢
      have hfl : flushSt F s = s' := by simp [flushSt, hp]
      rw [hfl] at hs
      split at h
      · cases h
      · rename_i hz
        simp only [hz]
        rcases EncodingRs.Thm.C08.malformed_progress F k false halt1 src s' b1.dec l a h with h1 | h1
        · exact h1
        · omega
  constructor
  · intro fb b1 l a h
    have h1 := key [fb] b1 l a h
    have h2 : (call F k s [fb] false b1).read ≤ 1 := call_read_le F k [fb] s false b1 halt
    exact Nat.le_antisymm h2 h1
  · intro b1 l a h
    exact key [0xEF, 0xBB] b1 l a h

/-- in particular for a fresh decoder (all life-cycle states in which bytes are withheld before
anything reached the variant decoder), for every family whose initial state has rank 0 -/
theorem replayOk_init (k : Sink) (L : Laws F) (h0 : F.rank F.init = 0)
    (halt : ∀ s src m r, F.alt s src = some (m, r) → m ≤ src.length)
    (halt1 : ∀ s src m r, F.alt s src = some (m, r) → 1 ≤ m) : ReplayOk k (.nominal F.init : Cur F) := by
  apply replayOk_of_rank_zero k F.init _ halt halt1
  have : flushSt F F.init = F.init := by simp [flushSt, L.init_pend]
  rw [this]; exact h0

/-- after a BOM switched the decoder to UTF-8 / UTF-16 nothing is ever withheld again; the replay
hypothesis is vacuous-by-rank there too -/
theorem variant_rank_init (v : Gen.Variant) : (famOfVariant v).rank (famOfVariant v).init = 0 := by
  cases v <;> rfl

/-! ### `Encoding::for_bom` -/

/-- model of `Encoding::for_bom`: (encoding tag, BOM length) -/
def forBom : List Nat → Option (Nominal × Nat)
  | 0xEF :: 0xBB :: 0xBF :: _ => some (.utf8, 3)
  | 0xFF :: 0xFE :: _ => some (.utf16le, 2)
  | 0xFE :: 0xFF :: _ => some (.utf16be, 2)
  | _ => none

/-- `for_bom` recognises exactly the three prefixes, with lengths 3, 2, 2 -/
theorem for_bom_exact (bs : List Nat) :
    (forBom bs = some (.utf8, 3) ↔ ∃ t, bs = 0xEF :: 0xBB :: 0xBF :: t) ∧
    (forBom bs = some (.utf16be, 2) ↔ ∃ t, bs = 0xFE :: 0xFF :: t) ∧
    (forBom bs = some (.utf16le, 2) ↔ ∃ t, bs = 0xFF :: 0xFE :: t) ∧
    (∀ r, forBom bs = some r → r = (.utf8, 3) ∨ r = (.utf16be, 2) ∨ r = (.utf16le, 2)) := by
  unfold forBom
  refine ⟨?_, ?_, ?_, ?_⟩
  all_goals
    split
    all_goals simp_all

/-! Non-vacuity: windows-1252-like single-byte family, sniffing, stream `EF BB 41` fed one byte per
call into a 4-byte UTF-8 buffer: nothing, nothing, then `EF` is written and `OutputFull` leaves `BB`
pending (the repaired path of finding F2). -/
def demoF2 : Bool :=
  let F := singleByteFam (Gen.singleByteTables.getD 19 #[])
  let d0 := Decoder.new F .other .sniff
  match d0.rawCall .utf8 [0xEF] false .unlimited .unlimited with
  | .ok _ _ _ d1 _ =>
    match d1.rawCall .utf8 [0xBB] false .unlimited .unlimited with
    | .ok _ _ _ d2 _ =>
      match d2.rawCall .utf8 [0x41] false (.full 1) .unlimited with
      | .ok res read out d3 _ =>
        res == .outputFull && read == 0 && out == [0xEF] && d3.life == .convertingWithPendingBB
      | .panic => false
    | .panic => false
  | .panic => false

example : demoF2 = true := by decide +kernel

end EncodingRs.Thm.C10
