import EncodingRs.Thm.C05Str
import EncodingRs.Lemmas.LifeLift
/-!
# C05 through the BOM life cycle — what a user of `encoding_rs::Decoder` calls

`Thm/C05.lean` (`written_wellformed_utf8` / `_utf16`) is about one call of a *variant* decoder
(`Model.call`).  Here the same is proved for the public `Decoder` (`Model.Decoder.rawCall` =
`decode_to_utf8/16_without_replacement`, `Thm.C07.Decoder.replCall` = `decode_to_utf8/16`), BOM
sniffing / removal included, for every decoder reachable from `Decoder.new` by any history of calls:

* `curScalar v c`: the C05 invariant (`Lemmas.Scalar.variantScalar`) of whichever variant decoder is
  current — the nominal one, or the UTF-8 / UTF-16BE / UTF-16LE decoder a BOM switched to.
* `rawCall_scalar`: every `Decoder.rawCall` from a decoder with `curScalar` writes scalar values only
  and re-establishes `curScalar` — whatever the life-cycle state: replay of one or two withheld bytes
  into the nominal decoder, morphing to a *fresh* UTF-8 / UTF-16 decoder on a BOM (their initial states
  satisfy the invariant), `ConvertingWithPendingBB`.
* `curScalar_reachable` / `curScalar_reachable_any`: `curScalar` holds of every decoder reachable from
  `Decoder.new` (`Thm.C06.DReachAt`; any mix of the with- and without-replacement methods:
  `Lemmas.LifeLift.DReachAny`; `Thm.C07.DReach`: `curScalar_dreach`).
* **`decoder_written_wellformed_utf8` / `decoder_written_wellformed_utf16`**: the units a
  `decode_to_utf8_without_replacement` / `decode_to_utf16_without_replacement` call of a reachable
  decoder reports as written are a concatenation of whole well-formed UTF-8 / UTF-16 sequences.
* **`decoder_repl_written_wellformed_utf8` / `_utf16`**: the same for `decode_to_utf8` /
  `decode_to_utf16` (the U+FFFDs the loop stores included); `replCall_scalar` keeps the invariant.
* `decoder_decode_to_str_without_replacement_valid`, `decoder_decode_to_str_valid`,
  `decoder_decode_to_string_without_replacement_valid`, `decoder_decode_to_string_valid`: the
  `&mut str` / `String` corollaries of `Thm/C05Str.lean` with the life cycle threaded through (same
  hypotheses about the destination as there: `hpre`, `hfit`, and the stride-garbage hypothesis `hmod`).

Bytes are naturals `< 256` (`hb`).  The theorems inherit the `native_decide` table evaluations of the
CJK `ScalarInv` instances (`*_checks`), as `Thm.C05.written_wellformed_utf8` does.
-/
namespace EncodingRs.Thm.C05Life
open EncodingRs EncodingRs.Model EncodingRs.Model.StrSink EncodingRs.Lemmas.Scalar EncodingRs.Lemmas.FamLaws
open EncodingRs.Lemmas.Life EncodingRs.Lemmas.LifeLeaf EncodingRs.Lemmas.LifeLift
open EncodingRs.Thm.C10 EncodingRs.Thm.C07 EncodingRs.Thm.C06 EncodingRs.Thm.C05 EncodingRs.Thm.C05Str

/-- the C05 invariant of whichever variant decoder is current -/
def curScalar (v : Gen.Variant) : Cur (famOfVariant v) → Prop
  | .nominal s => (variantScalar v).Inv s
  | .utf8 s => (variantScalar .utf8).Inv s
  | .utf16be s => (variantScalar .utf16Be).Inv s
  | .utf16le s => (variantScalar .utf16Le).Inv s

theorem curScalar_init (v : Gen.Variant) : curScalar v (.nominal (famOfVariant v).init) := (variantScalar v).init
theorem curScalar_utf8_init (v : Gen.Variant) : curScalar v (.utf8 utf8Fam.init) := (variantScalar .utf8).init
theorem curScalar_utf16_init (v : Gen.Variant) (be : Bool) :
    curScalar v (if be then .utf16be (utf16Fam true).init else .utf16le (utf16Fam false).init) := by
  cases be
  · exact (variantScalar .utf16Le).init
  · exact (variantScalar .utf16Be).init

/-- `Lemmas.Scalar.call_scalar` for whichever decoder is current -/
theorem cur_call_scalar (v : Gen.Variant) (k : Sink) (c : Cur (famOfVariant v)) (src : List Nat) (last : Bool)
    (b : Budget) (hi : curScalar v c) (hb : ∀ x ∈ src, x < 256) :
    curScalar v (c.call k src last b).cur ∧ ∀ x ∈ (c.call k src last b).out, isScalar x = true := by
  cases c with
  | nominal s => exact call_scalar (famOfVariant v) k (famOfVariant_laws v) (variantScalar v) s src last b hi hb
  | utf8 s =>
    exact call_scalar (famOfVariant .utf8) k (famOfVariant_laws .utf8) (variantScalar .utf8) s src last b hi hb
  | utf16be s =>
    exact call_scalar (famOfVariant .utf16Be) k (famOfVariant_laws .utf16Be) (variantScalar .utf16Be) s src last b hi hb
  | utf16le s =>
    exact call_scalar (famOfVariant .utf16Le) k (famOfVariant_laws .utf16Le) (variantScalar .utf16Le) s src last b hi hb

/-- what a `Decoder` call result must satisfy -/
def ScalarRes (v : Gen.Variant) : DRes (famOfVariant v) → Prop
  | .panic => True
  | .ok _ _ out d' _ => curScalar v d'.cur ∧ ∀ x ∈ out, isScalar x = true

theorem checkingEnd_scalarRes (v : Gen.Variant) (k : Sink) (c : Cur (famOfVariant v)) (src : List Nat)
    (last : Bool) (b : Budget) (off : Nat) (pre : List (List Nat × Res × Nat)) (preOut : List Nat)
    (hi : curScalar v c) (hb : ∀ x ∈ src, x < 256) (hpre : ∀ x ∈ preOut, isScalar x = true) :
    ScalarRes v (checkingEnd k c src last b off pre preOut) := by
  have h := cur_call_scalar v k c (src.drop off) last b hi (drop_bytes off hb)
  unfold checkingEnd ScalarRes
  generalize c.call k (src.drop off) last b = r at h
  simp only
  refine ⟨h.1, ?_⟩
  intro x hx
  rw [List.mem_append] at hx
  rcases hx with hx | hx
  · exact hpre x hx
  · exact h.2 x hx

theorem afterOne_scalarRes (v : Gen.Variant) (k : Sink) (c : Cur (famOfVariant v)) (src : List Nat)
    (last : Bool) (fb : Nat) (b1 b2 : Budget) (hi : curScalar v c) (hb : ∀ x ∈ src, x < 256) (hfb : fb < 256) :
    ScalarRes v (afterOne k c src last fb b1 b2) := by
  have hb1 : ∀ x ∈ [fb], x < 256 := by intro x hx; simp only [List.mem_singleton] at hx; rw [hx]; exact hfb
  have h1 := cur_call_scalar v k c [fb] false b1 hi hb1
  unfold afterOne
  generalize c.call k [fb] false b1 = r1 at h1
  simp only
  split
  · exact checkingEnd_scalarRes v k _ src last b2 0 _ _ h1.1 hb h1.2
  · exact h1
  · split
    · exact h1
    · trivial

theorem afterTwo_scalarRes (v : Gen.Variant) (k : Sink) (c : Cur (famOfVariant v)) (src : List Nat)
    (last : Bool) (b1 b2 : Budget) (hi : curScalar v c) (hb : ∀ x ∈ src, x < 256) :
    ScalarRes v (afterTwo k c src last b1 b2) := by
  have hb1 : ∀ x ∈ [0xEF, 0xBB], x < 256 := by decide
  have h1 := cur_call_scalar v k c [0xEF, 0xBB] false b1 hi hb1
  unfold afterTwo
  generalize c.call k [0xEF, 0xBB] false b1 = r1 at h1
  simp only
  split
  · exact checkingEnd_scalarRes v k _ src last b2 0 _ _ h1.1 hb h1.2
  · split
    · exact h1
    · exact h1
  · split
    · exact h1
    · trivial

/-- every result of a `Decoder` call satisfies `ScalarRes` -/
theorem rawCall_scalarRes (v : Gen.Variant) (k : Sink) (d : Decoder (famOfVariant v)) (hd : curScalar v d.cur)
    (src : List Nat) (last : Bool) (b1 b2 : Budget) (hb : ∀ x ∈ src, x < 256) :
    ScalarRes v (d.rawCall k src last b1 b2) := by
  have hnil : ∀ x ∈ ([] : List Nat), isScalar x = true := by intro x hx; cases hx
  have hleaf := rawCall_leaf k d src last b1 b2
  generalize d.rawCall k src last b1 b2 = r at hleaf
  cases hleaf with
  | finished _ => trivial
  | idle _ _ => exact ⟨hd, hnil⟩
  | wait n life' _ _ _ => exact ⟨hd, hnil⟩
  | direct _ => exact checkingEnd_scalarRes v k d.cur src last b2 0 [] [] hd hb hnil
  | bom8 off _ => exact checkingEnd_scalarRes v k _ src last b2 off [] [] (curScalar_utf8_init v) hb hnil
  | bom16 be off _ => exact checkingEnd_scalarRes v k _ src last b2 off [] [] (curScalar_utf16_init v be) hb hnil
  | one fb hfb => exact afterOne_scalarRes v k d.cur src last fb b1 b2 hd hb (replayOne_lt _ _ hfb)
  | two _ => exact afterTwo_scalarRes v k d.cur src last b1 b2 hd hb

/-- **the C05 invariant is preserved by every `Decoder` call, and the call writes scalar values only**
(any life-cycle state, any sink, source, stop policies) -/
theorem rawCall_scalar (v : Gen.Variant) (k : Sink) (d : Decoder (famOfVariant v)) (hd : curScalar v d.cur)
    (src : List Nat) (last : Bool) (b1 b2 : Budget) (hb : ∀ x ∈ src, x < 256)
    (res : Res) (read : Nat) (out : List Nat) (d' : Decoder (famOfVariant v))
    (inner : List (List Nat × Res × Nat)) (h : d.rawCall k src last b1 b2 = .ok res read out d' inner) :
    curScalar v d'.cur ∧ ∀ x ∈ out, isScalar x = true := by
  have hs := rawCall_scalarRes v k d hd src last b1 b2 hb
  rw [h] at hs
  exact hs

/-- a decoder as made by `Encoding::new_decoder*` satisfies the invariant -/
theorem curScalar_new (v : Gen.Variant) (nom : Nominal) (bom : BomHandling) :
    curScalar v (Decoder.new (famOfVariant v) nom bom).cur := curScalar_init v

/-- … and so does every decoder reachable from it by any history of calls -/
theorem curScalar_reachable (v : Gen.Variant) (nom : Nominal) (bom : BomHandling) (d : Decoder (famOfVariant v))
    (pos : Nat) (h : DReachAt v nom bom d pos) : curScalar v d.cur := by
  induction h with
  | new => exact curScalar_new v nom bom
  | call k d pos src last b1 b2 res read out d' inner _ hb hcall ih =>
    exact (rawCall_scalar v k d ih src last b1 b2 hb res read out d' inner hcall).1

/-- the same for histories that mix the with- and the without-replacement methods -/
theorem curScalar_reachable_any (v : Gen.Variant) (nom : Nominal) (bom : BomHandling)
    (d : Decoder (famOfVariant v)) (pos : Nat) (h : DReachAny v nom bom d pos) : curScalar v d.cur :=
  curScalar_reachable v nom bom d pos (dreachAny_at v nom bom d pos h)

/-- the same for the reachability notion of `Thm/C07Life.lean` -/
theorem curScalar_dreach (v : Gen.Variant) (bom : BomHandling) (d : Decoder (famOfVariant v))
    (h : DReach v bom d) : curScalar v d.cur := by
  obtain ⟨pos, hp⟩ := dreach_at v bom d h
  exact curScalar_reachable v _ bom d pos hp

/-! ### the without-replacement methods -/

/-- **C05 for `Decoder::decode_to_utf8_without_replacement`** (all 40 encodings, three BOM modes,
every reachable decoder, every source, every stop policy): the bytes reported as written are a
concatenation of whole well-formed UTF-8 sequences, and the decoder left behind is reachable again -/
theorem decoder_written_wellformed_utf8 (v : Gen.Variant) (nom : Nominal) (bom : BomHandling)
    (d : Decoder (famOfVariant v)) (pos : Nat) (hr : DReachAt v nom bom d pos) (src : List Nat) (last : Bool)
    (b1 b2 : Budget) (hb : ∀ x ∈ src, x < 256) (res : Res) (read : Nat) (out : List Nat)
    (d' : Decoder (famOfVariant v)) (inner : List (List Nat × Res × Nat))
    (h : d.rawCall .utf8 src last b1 b2 = .ok res read out d' inner) :
    WfConcat WfUtf8Seq (out.flatMap encodeUtf8) ∧ DReachAt v nom bom d' (pos + read) := by
  have hs := rawCall_scalar v .utf8 d (curScalar_reachable v nom bom d pos hr) src last b1 b2 hb res read out d' inner h
  exact ⟨flatMap_wf WfUtf8Seq encodeUtf8 encodeUtf8_wf _ hs.2,
    .call .utf8 d pos src last b1 b2 res read out d' inner hr hb h⟩

/-- **C05 for `Decoder::decode_to_utf16_without_replacement`**: the units reported as written are a
concatenation of whole well-formed UTF-16 sequences (no unpaired surrogate) -/
theorem decoder_written_wellformed_utf16 (v : Gen.Variant) (nom : Nominal) (bom : BomHandling)
    (d : Decoder (famOfVariant v)) (pos : Nat) (hr : DReachAt v nom bom d pos) (src : List Nat) (last : Bool)
    (b1 b2 : Budget) (hb : ∀ x ∈ src, x < 256) (res : Res) (read : Nat) (out : List Nat)
    (d' : Decoder (famOfVariant v)) (inner : List (List Nat × Res × Nat))
    (h : d.rawCall .utf16 src last b1 b2 = .ok res read out d' inner) :
    WfConcat WfUtf16Seq (out.flatMap encodeUtf16) ∧ DReachAt v nom bom d' (pos + read) := by
  have hs := rawCall_scalar v .utf16 d (curScalar_reachable v nom bom d pos hr) src last b1 b2 hb res read out d' inner h
  exact ⟨flatMap_wf WfUtf16Seq encodeUtf16 encodeUtf16_wf _ hs.2,
    .call .utf16 d pos src last b1 b2 res read out d' inner hr hb h⟩

/-! ### the with-replacement methods -/

/-- the with-replacement loop writes scalar values only (U+FFFD included) and keeps the invariant -/
theorem replChain_scalar (v : Gen.Variant) {k : Sink} {last : Bool}
    {A : Nat → List (List Nat × Res × Nat) → Prop} {cap : Nat} {d : Decoder (famOfVariant v)} {src : List Nat}
    {t : DReplRes (famOfVariant v)} (h : ReplChain k last A cap d src t) :
    curScalar v d.cur → (∀ x ∈ src, x < 256) → curScalar v t.d.cur ∧ ∀ x ∈ t.out, isScalar x = true := by
  induction h with
  | stop cap d src b1 b2 res read out d' inner hcall _ _ =>
    intro hd hb
    exact rawCall_scalar v k d hd src last b1 b2 hb res read out d' inner hcall
  | step cap d src b1 b2 l a read out d' inner t hcall _ _ ih =>
    intro hd hb
    have h1 := rawCall_scalar v k d hd src last b1 b2 hb _ read out d' inner hcall
    have h2 := ih h1.1 (drop_bytes read hb)
    refine ⟨h2.1, ?_⟩
    intro x hx
    simp only [List.mem_append, List.mem_cons] at hx
    rcases hx with hx | hx | hx
    · exact h1.2 x hx
    · subst hx; decide
    · exact h2.2 x hx

/-- **the invariant is preserved by every with-replacement call, which writes scalar values only** -/
theorem replCall_scalar (v : Gen.Variant) (k : Sink) (last : Bool) (fuel : Nat) (d : Decoder (famOfVariant v))
    (src : List Nat) (bs : List (Budget × Budget)) (t : DReplRes (famOfVariant v)) (hd : curScalar v d.cur)
    (hb : ∀ x ∈ src, x < 256) (hrun : Decoder.replCall k last fuel d src bs = some (some t)) :
    curScalar v t.d.cur ∧ ∀ x ∈ t.out, isScalar x = true :=
  replChain_scalar v (replCall_chain k last fuel d src bs t 0 hrun) hd hb

/-- **C05 for `Decoder::decode_to_utf8`** (with replacement): everything the call reports as written —
decoded characters and the U+FFFDs it stored — is a concatenation of whole well-formed UTF-8
sequences; the decoder left behind is reachable again -/
theorem decoder_repl_written_wellformed_utf8 (v : Gen.Variant) (nom : Nominal) (bom : BomHandling)
    (d : Decoder (famOfVariant v)) (pos : Nat) (hr : DReachAt v nom bom d pos) (src : List Nat) (last : Bool)
    (fuel : Nat) (bs : List (Budget × Budget)) (hb : ∀ x ∈ src, x < 256) (t : DReplRes (famOfVariant v))
    (hrun : Decoder.replCall .utf8 last fuel d src bs = some (some t)) :
    WfConcat WfUtf8Seq (t.out.flatMap encodeUtf8) ∧ DReachAt v nom bom t.d (pos + t.read) :=
  ⟨flatMap_wf WfUtf8Seq encodeUtf8 encodeUtf8_wf _
      (replCall_scalar v .utf8 last fuel d src bs t (curScalar_reachable v nom bom d pos hr) hb hrun).2,
    replChain_reachAt v nom bom (replCall_chain .utf8 last fuel d src bs t 0 hrun) pos hr hb⟩

/-- **C05 for `Decoder::decode_to_utf16`** (with replacement) -/
theorem decoder_repl_written_wellformed_utf16 (v : Gen.Variant) (nom : Nominal) (bom : BomHandling)
    (d : Decoder (famOfVariant v)) (pos : Nat) (hr : DReachAt v nom bom d pos) (src : List Nat) (last : Bool)
    (fuel : Nat) (bs : List (Budget × Budget)) (hb : ∀ x ∈ src, x < 256) (t : DReplRes (famOfVariant v))
    (hrun : Decoder.replCall .utf16 last fuel d src bs = some (some t)) :
    WfConcat WfUtf16Seq (t.out.flatMap encodeUtf16) ∧ DReachAt v nom bom t.d (pos + t.read) :=
  ⟨flatMap_wf WfUtf16Seq encodeUtf16 encodeUtf16_wf _
      (replCall_scalar v .utf16 last fuel d src bs t (curScalar_reachable v nom bom d pos hr) hb hrun).2,
    replChain_reachAt v nom bom (replCall_chain .utf16 last fuel d src bs t 0 hrun) pos hr hb⟩

/-! ### `&mut str` / `String` sinks with the life cycle threaded through

Same statements and the same hypotheses about the destination as in `Thm/C05Str.lean`
(`decode_to_str_without_replacement_valid`, `decode_to_str_valid`, `decode_to_string*_valid`), the
written prefix now being the output of a `Decoder` call (BOM life cycle included) instead of a
variant-decoder call.  `isUtf8` is the value of `self.encoding == UTF_8` read after the conversion;
`hmod` is the stride-garbage hypothesis (nothing beyond `written` for the UTF-8 decoder). -/

/-- **`Decoder::decode_to_str_without_replacement`**, any reachable decoder -/
theorem decoder_decode_to_str_without_replacement_valid (v : Gen.Variant) (nom : Nominal) (bom : BomHandling)
    (d : Decoder (famOfVariant v)) (pos : Nat) (hr : DReachAt v nom bom d pos) (src : List Nat) (last : Bool)
    (b1 b2 : Budget) (hb : ∀ x ∈ src, x < 256) (res : Res) (read : Nat) (out : List Nat)
    (d' : Decoder (famOfVariant v)) (inner : List (List Nat × Res × Nat))
    (h : d.rawCall .utf8 src last b1 b2 = .ok res read out d' inner)
    (isUtf8 : Bool) (old buf : List Nat) (hold : Wf old) (hlen : buf.length = old.length)
    (hfit : (out.flatMap encodeUtf8).length ≤ old.length)
    (hpre : buf.take (out.flatMap encodeUtf8).length = out.flatMap encodeUtf8)
    (hmod : ∀ i, (out.flatMap encodeUtf8).length + (if isUtf8 then 0 else Gen.maxStrideSize) ≤ i →
      buf[i]? = old[i]?) :
    Wf (decodeToStrFinish isUtf8 buf (out.flatMap encodeUtf8).length) :=
  decode_to_str_finish_valid isUtf8 old _ buf hold
    (decoder_written_wellformed_utf8 v nom bom d pos hr src last b1 b2 hb res read out d' inner h).1
    hlen hfit hpre hmod

/-- **`Decoder::decode_to_str`** (with replacement), any reachable decoder -/
theorem decoder_decode_to_str_valid (v : Gen.Variant) (nom : Nominal) (bom : BomHandling)
    (d : Decoder (famOfVariant v)) (pos : Nat) (hr : DReachAt v nom bom d pos) (src : List Nat) (last : Bool)
    (fuel : Nat) (bs : List (Budget × Budget)) (hb : ∀ x ∈ src, x < 256) (t : DReplRes (famOfVariant v))
    (hrun : Decoder.replCall .utf8 last fuel d src bs = some (some t))
    (isUtf8 : Bool) (old buf : List Nat) (hold : Wf old) (hlen : buf.length = old.length)
    (hfit : (t.out.flatMap encodeUtf8).length ≤ old.length)
    (hpre : buf.take (t.out.flatMap encodeUtf8).length = t.out.flatMap encodeUtf8)
    (hmod : ∀ i, (t.out.flatMap encodeUtf8).length + (if isUtf8 then 0 else Gen.maxStrideSize) ≤ i →
      buf[i]? = old[i]?) :
    Wf (decodeToStrFinish isUtf8 buf (t.out.flatMap encodeUtf8).length) :=
  decode_to_str_finish_valid isUtf8 old _ buf hold
    (decoder_repl_written_wellformed_utf8 v nom bom d pos hr src last fuel bs hb t hrun).1 hlen hfit hpre hmod

/-- **`Decoder::decode_to_string_without_replacement`**, any reachable decoder -/
theorem decoder_decode_to_string_without_replacement_valid (v : Gen.Variant) (nom : Nominal) (bom : BomHandling)
    (d : Decoder (famOfVariant v)) (pos : Nat) (hr : DReachAt v nom bom d pos) (src : List Nat) (last : Bool)
    (b1 b2 : Budget) (hb : ∀ x ∈ src, x < 256) (res : Res) (read : Nat) (out : List Nat)
    (d' : Decoder (famOfVariant v)) (inner : List (List Nat × Res × Nat))
    (h : d.rawCall .utf8 src last b1 b2 = .ok res read out d' inner)
    (oldContents spare : List Nat) (hold : Wf oldContents)
    (hpre : spare.take (out.flatMap encodeUtf8).length = out.flatMap encodeUtf8) :
    Wf (stringAfterSetLen oldContents spare (out.flatMap encodeUtf8).length) :=
  (string_sink_valid oldContents spare _ hold
    (decoder_written_wellformed_utf8 v nom bom d pos hr src last b1 b2 hb res read out d' inner h).1 hpre).1

/-- **`Decoder::decode_to_string`** (with replacement), any reachable decoder -/
theorem decoder_decode_to_string_valid (v : Gen.Variant) (nom : Nominal) (bom : BomHandling)
    (d : Decoder (famOfVariant v)) (pos : Nat) (hr : DReachAt v nom bom d pos) (src : List Nat) (last : Bool)
    (fuel : Nat) (bs : List (Budget × Budget)) (hb : ∀ x ∈ src, x < 256) (t : DReplRes (famOfVariant v))
    (hrun : Decoder.replCall .utf8 last fuel d src bs = some (some t))
    (oldContents spare : List Nat) (hold : Wf oldContents)
    (hpre : spare.take (t.out.flatMap encodeUtf8).length = t.out.flatMap encodeUtf8) :
    Wf (stringAfterSetLen oldContents spare (t.out.flatMap encodeUtf8).length) :=
  (string_sink_valid oldContents spare _ hold
    (decoder_repl_written_wellformed_utf8 v nom bom d pos hr src last fuel bs hb t hrun).1 hpre).1

/-! ### Non-vacuity

windows-1252 with BOM sniffing, `EF` withheld (reachable: one call on `EF`), then a last
with-replacement call on `41`: no BOM after all, `EF` is replayed into the windows-1252 decoder
(U+00EF), then `A`. -/
section demo
private def vW : Gen.Variant := .singleByte 19 160 32 96
private def dW0 : Decoder (famOfVariant vW) := Decoder.new (famOfVariant vW) .other .sniff
private def dW1 : Decoder (famOfVariant vW) := ⟨.seenUtf8First, .nominal ()⟩

example : DReachAt vW .other .sniff dW1 1 ∧
    (Decoder.replCall .utf8 true 3 dW1 [0x41] []).map (Option.map fun t => (t.res, t.read, t.out.flatMap encodeUtf8))
      = some (some (.inputEmpty, 1, [0xC3, 0xAF, 0x41])) := by
  refine ⟨?_, by decide +kernel⟩
  have h1 : dW0.rawCall .utf8 [0xEF] false .unlimited .unlimited = .ok .inputEmpty 1 [] dW1 [] := rfl
  exact DReachAt.call .utf8 dW0 0 [0xEF] false .unlimited .unlimited _ _ _ _ _ DReachAt.new (by decide) h1
end demo

end EncodingRs.Thm.C05Life
