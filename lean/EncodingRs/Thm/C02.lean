import EncodingRs.Lemmas.FamLaws
/-!
# C02 — decoder results do not depend on how input and output are chunked

`Proto F k s pos rem evs`: a caller following the documented protocol from
variant-decoder state `s` (with `pos` stream bytes consumed so far and `rem` the
rest of the stream) observes the events `evs` — for **some** way of cutting
`rem` into input buffers (a non-`last` call is made on any prefix `src` of the
remaining stream, which covers re-pushing the unconsumed tail of a chunk, empty
chunks and one-byte chunks), **some** stop decision per call (the `budget`: this
is where output capacities, fast paths and space-check policy enter) and either
sink.  `last` calls are made on the whole remainder (possibly empty) until one
returns `InputEmpty`.
-/
namespace EncodingRs.Thm.C02
open EncodingRs EncodingRs.Model EncodingRs.Lemmas.Core EncodingRs.Lemmas.FamLaws

inductive Proto (F : Fam) : F.σ → Nat → List Nat → List Ev → Prop
  /-- the call that ends the stream -/
  | final (k : Sink) (s : F.σ) (pos : Nat) (rem : List Nat) (budget : Budget) :
      (call F k s rem true budget).res = .inputEmpty →
      Proto F s pos rem (evs (call F k s rem true budget) pos)
  /-- a `last` call that stopped early (`OutputFull` / `Malformed`); the rest is pushed again -/
  | lastStep (k : Sink) (s : F.σ) (pos : Nat) (rem : List Nat) (budget : Budget) (evs' : List Ev) :
      (call F k s rem true budget).res ≠ .inputEmpty →
      Proto F (call F k s rem true budget).st (pos + (call F k s rem true budget).read)
        (rem.drop (call F k s rem true budget).read) evs' →
      Proto F s pos rem (evs (call F k s rem true budget) pos ++ evs')
  /-- a non-`last` call on a prefix `src` of what remains -/
  | chunkStep (k : Sink) (s : F.σ) (pos : Nat) (src rest : List Nat) (budget : Budget) (evs' : List Ev) :
      Proto F (call F k s src false budget).st (pos + (call F k s src false budget).read)
        (src.drop (call F k s src false budget).read ++ rest) evs' →
      Proto F s pos (src ++ rest) (evs (call F k s src false budget) pos ++ evs')

/-- **G2 `history_eq_ref`**: every protocol-following history says about the
stream exactly what the chunk-free, capacity-free reference semantics says:
the same scalar values in the same order and the same absolute error spans. -/
theorem history_eq_ref (F : Fam) (L : Laws F) (s : F.σ) (pos : Nat) (rem : List Nat) (e : List Ev)
    (h : Proto F s pos rem e) : e = ref F s rem pos := by
  induction h with
  | final k s pos rem budget hres =>
    have hs := call_sound F k L true rem s budget pos [] (fun _ => rfl)
    have hread := call_inputEmpty F k rem s true budget hres
    have hfin := call_final F k L rem s budget hres
    rw [List.append_nil, List.append_nil] at hs
    rw [← hs, hread, List.drop_length]
    have : ref F (call F k s rem true budget).st [] (pos + rem.length) = [] := by
      have key : F.eof (call F k s rem true budget).st = none ∧ F.pend (call F k s rem true budget).st = none := by
        have := hfin
        unfold call at hres ⊢
        cases hp : F.pend s with
        | none => simp only [hp] at hres ⊢; exact run_final F k L rem s budget hp hres
        | some p =>
          obtain ⟨o, s'⟩ := p
          simp only [hp] at hres ⊢
          by_cases hz : budget.isZero = true
          · simp [hz] at hres
          · simp only [hz, Bool.false_eq_true, if_false] at hres ⊢
            exact run_final F k L rem s' budget.dec (L.pend_once s o s' hp) hres
      rw [ref_nil F _ _ key.2, key.1]
    rw [this, List.append_nil]
  | lastStep k s pos rem budget evs' _ _ ih =>
    have hs := call_sound F k L true rem s budget pos [] (fun _ => rfl)
    rw [List.append_nil, List.append_nil] at hs
    rw [ih, hs]
  | chunkStep k s pos src rest budget evs' _ ih =>
    have hs := call_sound F k L false src s budget pos rest (fun h => by cases h)
    rw [ih, hs]

/-- two histories of the same stream — different cut points, capacities, sinks —
report the same text and the same absolute malformed sequences -/
theorem histories_agree (F : Fam) (L : Laws F) (stream : List Nat) (e₁ e₂ : List Ev)
    (h₁ : Proto F F.init 0 stream e₁) (h₂ : Proto F F.init 0 stream e₂) : e₁ = e₂ := by
  rw [history_eq_ref F L _ _ _ _ h₁, history_eq_ref F L _ _ _ _ h₂]

/-- in particular a chunked history equals the single call on the whole stream -/
theorem chunked_eq_single (F : Fam) (L : Laws F) (k : Sink) (stream : List Nat) (e : List Ev)
    (h : Proto F F.init 0 stream e)
    (hsingle : (call F k F.init stream true .unlimited).res = .inputEmpty) :
    e = evs (call F k F.init stream true .unlimited) 0 :=
  histories_agree F L stream _ _ h (Proto.final k F.init 0 stream .unlimited hsingle)

/-- for each of the 40 encodings (every `VariantEncoding` of the regenerated `Gen.encodings`) -/
theorem all_encodings (v : Gen.Variant) (stream : List Nat) (e₁ e₂ : List Ev)
    (h₁ : Proto (famOfVariant v) (famOfVariant v).init 0 stream e₁)
    (h₂ : Proto (famOfVariant v) (famOfVariant v).init 0 stream e₂) : e₁ = e₂ :=
  histories_agree _ (famOfVariant_laws v) stream e₁ e₂ h₁ h₂

/-- the text denoted by a history (with replacement: one U+FFFD per error) and the
had-errors answer are functions of the events, hence equally chunking-independent -/
def textOf (repl : Bool) : List Ev → List Nat
  | [] => []
  | .cp c :: t => c :: textOf repl t
  | .err _ _ :: t => if repl then 0xFFFD :: textOf repl t else textOf repl t

def hadErrors : List Ev → Bool
  | [] => false
  | .cp _ :: t => hadErrors t
  | .err _ _ :: _ => true

/-! Non-vacuity: a concrete four-call Shift_JIS history over a UTF-16 sink (cut
inside the two-byte character, a one-step `OutputFull` stop, an error, the empty
final call), and `Proto` is inhabited. -/
example :
    let F := shiftJisFam
    let r1 := call F .utf16 F.init [0x41, 0x82] false .unlimited
    let r2 := call F .utf16 r1.st [0xA0, 0xFF] true (.full 1)
    let r3 := call F .utf16 r2.st [0xFF] true .unlimited
    let r4 := call F .utf16 r3.st [] true .unlimited
    (r2.res = .outputFull ∧ r3.res = .malformed 1 0 ∧ r4.res = .inputEmpty) ∧
    evs r1 0 ++ evs r2 2 ++ evs r3 3 ++ evs r4 4 = [Ev.cp 0x41, Ev.cp 0x3042, Ev.err 3 1] := by
  decide +kernel

example : Proto shiftJisFam shiftJisFam.init 0 [0x41, 0x82, 0xA0]
    (evs (call shiftJisFam .utf8 shiftJisFam.init [0x41, 0x82, 0xA0] true .unlimited) 0) :=
  Proto.final .utf8 _ 0 _ .unlimited (by decide +kernel)

end EncodingRs.Thm.C02
