import EncodingRs.Lemmas.EncSide
import EncodingRs.Thm.C09Enc
/-!
# C08, encoder side — conversion loops always make progress and terminate

**Documented minimum.**  Unlike the `Decoder` documentation ("the output buffer must have at least 4
bytes of space"), the `Encoder` documentation of lib.rs gives no number: it only says (section
"Infinite loops") that *"when converting with a fixed-size output buffer whose size is too small to
accommodate one character of output, an infinite loop ensues"*.  One character of output is at most
four bytes in every encoding (GB18030 four-byte sequences, UTF-8), an ISO-2022-JP escape sequence is
three; the with-replacement methods additionally reserve `NCR_EXTRA` = 10 bytes unless the encoder
can encode everything.  Property C08 therefore fixes the minimum as **4 bytes** without replacement
(`encMinCap`) and **14 = NCR_EXTRA + 4 bytes** with replacement (`encMinCapRepl`); `ENeedsBounded`
says that no space request of an encoder exceeds `encMinCap`, and it is proved for all variants.

* raw calls: `eOutputFull_progress` (an admissible `OutputFull` call with `cap ≥ 4` wrote at least one
  byte), `unmappable_progress` (an `Unmappable` return consumed at least one source unit),
  `call_progress`;
* the documented caller loop over the raw API (`ELoop`: keep calling, re-pushing what was not
  consumed, appending whatever placeholder for `Unmappable`): `caller_loop_bound` — the number of
  calls is at most `9 * characters + chunks + 5`;
* with replacement: the model loop terminates (`encRepl_terminates`: fuel `src.length + 2` is enough
  for every stop policy of the inner calls; `encRepl_fuel_irrelevant`), it makes at most
  `src.length + 1` inner calls (`encRepl_rounds_le`), and an `OutputFull` return with `cap ≥ 14`
  consumed at least one unit or wrote at least one byte (`encRepl_outputFull_progress`) — in fact it
  always wrote at least one byte (`encRepl_outputFull_wrote`);
* the documented caller loop over the with-replacement API (`EReplLoop`): `repl_caller_loop_bound`,
  again at most `9 * characters + chunks + 5` calls (uses `Thm.C09Enc.encRepl_sound`).
* termination, not only a bound on completed loops: `ELoopPre` / `EReplLoopPre` (every prefix of a
  run: the same constructors plus `start`, which ends a derivation anywhere, so nothing requires that
  the call that ends the text is ever reached; `prefix_closed`, `toPre`), `prefix_calls_le_events`,
  **`caller_loop_prefix_bound`**, **`repl_caller_loop_prefix_bound`**, and **`caller_loop_terminates`** /
  `repl_caller_loop_terminates`: there is no prefix with more than `9 * characters + chunks + 5` calls.
  The theorems about complete loops are corollaries.
-/
namespace EncodingRs.Thm.C08Enc
open EncodingRs EncodingRs.Model EncodingRs.Lemmas.EncCore EncodingRs.Lemmas.EncPotential
open EncodingRs.Lemmas.EncMaxLenVariant EncodingRs.Lemmas.EncSide

/-- minimum destination of `encode_from_utf{8,16}_without_replacement`: room for one character -/
def encMinCap : Nat := 4

/-- minimum destination of `encode_from_utf{8,16}`: `NCR_EXTRA` more unless the encoder can encode
everything (14 for every encoding whose output encoding is not UTF-8) -/
def encMinCapRepl (canAll : Bool) : Nat := (if canAll then 0 else Gen.ncrExtra) + encMinCap

/-- no space request of the encoder exceeds `n` -/
def ENeedsBoundedBy (E : EFam) (n : Nat) : Prop := (∀ s c, E.need s c ≤ n) ∧ ∀ s, E.eofNeed s ≤ n

/-- what the implementation may ask for never exceeds the minimum -/
def ENeedsBounded (E : EFam) : Prop := ENeedsBoundedBy E encMinCap

/-- every variant encoder asks for at most four bytes -/
theorem efamOfVariant_needsBounded (v : Gen.Variant) : ENeedsBounded (efamOfVariant v) := by
  cases v with
  | iso2022Jp =>
    refine ⟨fun _ _ => Nat.le_of_ble_eq_true rfl, fun s => ?_⟩
    cases s <;> exact Nat.le_of_ble_eq_true rfl
  | utf8 => exact ⟨fun _ c => Lemmas.EncFam.encodeUtf8_length_le c, fun _ => Nat.le_of_ble_eq_true rfl⟩
  | replacement => exact ⟨fun _ c => Lemmas.EncFam.encodeUtf8_length_le c, fun _ => Nat.le_of_ble_eq_true rfl⟩
  | utf16Be => exact ⟨fun _ c => Lemmas.EncFam.encodeUtf8_length_le c, fun _ => Nat.le_of_ble_eq_true rfl⟩
  | utf16Le => exact ⟨fun _ c => Lemmas.EncFam.encodeUtf8_length_le c, fun _ => Nat.le_of_ble_eq_true rfl⟩
  | _ => exact ⟨fun _ _ => Nat.le_of_ble_eq_true rfl, fun _ => Nat.le_of_ble_eq_true rfl⟩

/-! ## raw calls -/

theorem processChar_full_need (E : EFam) : ∀ (f : Nat) (s : E.σ) (c : Nat) (b : Budget) (acc : List Nat)
    (st : E.σ) (out : List Nat) (need : Nat), processChar E f s c b acc = .full st out need →
    need = E.need st c := by
  intro f
  induction f with
  | zero => intro s c b acc st out need h; simp [processChar] at h
  | succ f ih =>
    intro s c b acc st out need h
    rw [processChar] at h
    split at h
    · cases h; rfl
    · simp only at h
      split at h
      · cases h
      · split at h
        · exact ih _ c _ _ st out need h
        · cases h

theorem erun_stopNeed_le (E : EFam) (n : Nat) (hb : ENeedsBoundedBy E n) (last : Bool) :
    ∀ (items : List (Nat × Nat)) (s : E.σ) (b : Budget), (erun E last s items b).stopNeed ≤ n := by
  intro items
  induction items with
  | nil =>
    intro s b
    simp only [erun]
    repeat' split
    all_goals first | exact hb.2 s | exact Nat.zero_le _
  | cons it tl ih =>
    intro s b
    obtain ⟨c, w⟩ := it
    simp only [erun]
    cases hres : processChar E (E.rank s c + 1) s c b [] with
    | full st out need =>
      simp only
      rw [processChar_full_need E _ s c b [] st out need hres]
      exact hb.1 st c
    | unmappable st out u => exact Nat.zero_le _
    | done st out b' => exact ih st b'

theorem ecall_stopNeed_le (E : EFam) (n : Nat) (hb : ENeedsBoundedBy E n) (utf16 : Bool) (s : E.σ)
    (src : List Nat) (last : Bool) (budget : Budget) : (ecall E utf16 s src last budget).stopNeed ≤ n :=
  erun_stopNeed_le E n hb last _ s budget

/-- **Progress of `OutputFull`**: with a destination of at least the minimum, an admissible raw call
that returns `OutputFull` has written at least one byte -/
theorem eOutputFull_progress (E : EFam) (hb : ENeedsBounded E) (utf16 : Bool) (s : E.σ) (src : List Nat)
    (last : Bool) (budget : Budget) (cap : Nat) (hcap : encMinCap ≤ cap)
    (hadm : EAdmissible E cap (ecall E utf16 s src last budget))
    (hres : (ecall E utf16 s src last budget).res = .outputFull) :
    1 ≤ (ecall E utf16 s src last budget).out.length := by
  have h1 := hadm.2 hres
  have h2 := ecall_stopNeed_le E encMinCap hb utf16 s src last budget
  omega

/-- **Progress of `Unmappable`**: an `Unmappable` return consumed at least one source unit (the
unmappable character itself), whatever the capacity -/
theorem unmappable_progress (E : EFam) (utf16 : Bool) (s : E.σ) (src : List Nat) (last : Bool)
    (budget : Budget) (u : Nat) (hres : (ecall E utf16 s src last budget).res = .unmappable u) :
    1 ≤ (ecall E utf16 s src last budget).read :=
  (ecall_unmappable_read_pos E utf16 s src last budget u hres).1

/-- every call that does not end with `InputEmpty` consumed input or produced output -/
theorem call_progress (E : EFam) (hb : ENeedsBounded E) (utf16 : Bool) (s : E.σ) (src : List Nat)
    (last : Bool) (budget : Budget) (cap : Nat) (hcap : encMinCap ≤ cap)
    (hadm : EAdmissible E cap (ecall E utf16 s src last budget))
    (hres : (ecall E utf16 s src last budget).res ≠ .inputEmpty) :
    1 ≤ (ecall E utf16 s src last budget).read ∨ 1 ≤ (ecall E utf16 s src last budget).out.length := by
  cases h : (ecall E utf16 s src last budget).res with
  | inputEmpty => exact absurd h hres
  | outputFull => exact Or.inr (eOutputFull_progress E hb utf16 s src last budget cap hcap hadm h)
  | unmappable u => exact Or.inl (unmappable_progress E utf16 s src last budget u h)

/-- C08 for each of the 40 encodings -/
theorem progress_all_encodings (v : Gen.Variant) (utf16 : Bool) (s : (efamOfVariant v).σ) (src : List Nat)
    (last : Bool) (budget : Budget) (cap : Nat) (hcap : encMinCap ≤ cap)
    (hadm : EAdmissible (efamOfVariant v) cap (ecall (efamOfVariant v) utf16 s src last budget))
    (hres : (ecall (efamOfVariant v) utf16 s src last budget).res ≠ .inputEmpty) :
    1 ≤ (ecall (efamOfVariant v) utf16 s src last budget).read
      ∨ 1 ≤ (ecall (efamOfVariant v) utf16 s src last budget).out.length :=
  call_progress _ (efamOfVariant_needsBounded v) utf16 s src last budget cap hcap hadm hres

/-! ## the caller loop over the raw API: a linear bound on the number of calls -/

/-- **The documented caller loop** over `encode_from_utf{8,16}_without_replacement`: the text is
pushed in chunks (non-`last` calls on whole characters, then `last` calls), after `OutputFull` or
`Unmappable` the unconsumed characters are pushed again (with fresh output space; after `Unmappable`
the caller writes whatever placeholder it likes).  Every call that does not return `InputEmpty` is
admissible for a destination of at least `encMinCap` bytes.  `ELoop E s text n k`: such a loop on
`text` from state `s` makes `n` calls, `k` of which are non-`last` calls that returned `InputEmpty`
(chunks pushed completely — these may be empty and are not bounded by the text). -/
inductive ELoop (E : EFam) : E.σ → List Nat → Nat → Nat → Prop
  | final (s : E.σ) (items : List (Nat × Nat)) (b : Budget) :
      (erunI E true s items b).1.res = .inputEmpty → ELoop E s (items.map Prod.fst) 1 0
  | lastStep (s : E.σ) (items : List (Nat × Nat)) (b : Budget) (cap n k : Nat) :
      (erunI E true s items b).1.res ≠ .inputEmpty → encMinCap ≤ cap →
      EAdmissible E cap (erunI E true s items b).1 →
      ELoop E (erunI E true s items b).1.st ((erunI E true s items b).2.map Prod.fst) n k →
      ELoop E s (items.map Prod.fst) (n + 1) k
  | chunkDone (s : E.σ) (items : List (Nat × Nat)) (rest : List Nat) (b : Budget) (n k : Nat) :
      (erunI E false s items b).1.res = .inputEmpty →
      ELoop E (erunI E false s items b).1.st ((erunI E false s items b).2.map Prod.fst ++ rest) n k →
      ELoop E s (items.map Prod.fst ++ rest) (n + 1) (k + 1)
  | chunkStep (s : E.σ) (items : List (Nat × Nat)) (rest : List Nat) (b : Budget) (cap n k : Nat) :
      (erunI E false s items b).1.res ≠ .inputEmpty → encMinCap ≤ cap →
      EAdmissible E cap (erunI E false s items b).1 →
      ELoop E (erunI E false s items b).1.st ((erunI E false s items b).2.map Prod.fst ++ rest) n k →
      ELoop E s (items.map Prod.fst ++ rest) (n + 1) k

/-- a call that does not return `InputEmpty` contributes at least one event (a byte or an
unmappable report) to the stream -/
theorem eevs_pos (E : EFam) (hb : ENeedsBounded E) (last : Bool) (s : E.σ) (items : List (Nat × Nat))
    (b : Budget) (cap : Nat) (hcap : encMinCap ≤ cap) (hadm : EAdmissible E cap (erunI E last s items b).1)
    (hres : (erunI E last s items b).1.res ≠ .inputEmpty) : 1 ≤ (eevs (erunI E last s items b).1).length := by
  unfold eevs
  cases h : (erunI E last s items b).1.res with
  | inputEmpty => exact absurd h hres
  | unmappable u => simp
  | outputFull =>
    have h1 := hadm.2 h
    have h2 : (erunI E last s items b).1.stopNeed ≤ encMinCap := by
      rw [erunI_fst]; exact erun_stopNeed_le E encMinCap hb last items s b
    simp only [List.length_append, List.length_map, List.length_nil]
    omega

/-- **every prefix of a run of the caller loop** over the raw encoder API: `ELoop` without the
requirement that the run is complete — `start` ends a derivation anywhere, so a loop that never reached
the call that ends the text would have a derivation for every `n` (`ELoopPre.prefix_closed`) -/
inductive ELoopPre (E : EFam) : E.σ → List Nat → Nat → Nat → Prop
  | start (s : E.σ) (text : List Nat) : ELoopPre E s text 0 0
  | final (s : E.σ) (items : List (Nat × Nat)) (b : Budget) :
      (erunI E true s items b).1.res = .inputEmpty → ELoopPre E s (items.map Prod.fst) 1 0
  | lastStep (s : E.σ) (items : List (Nat × Nat)) (b : Budget) (cap n k : Nat) :
      (erunI E true s items b).1.res ≠ .inputEmpty → encMinCap ≤ cap →
      EAdmissible E cap (erunI E true s items b).1 →
      ELoopPre E (erunI E true s items b).1.st ((erunI E true s items b).2.map Prod.fst) n k →
      ELoopPre E s (items.map Prod.fst) (n + 1) k
  | chunkDone (s : E.σ) (items : List (Nat × Nat)) (rest : List Nat) (b : Budget) (n k : Nat) :
      (erunI E false s items b).1.res = .inputEmpty →
      ELoopPre E (erunI E false s items b).1.st ((erunI E false s items b).2.map Prod.fst ++ rest) n k →
      ELoopPre E s (items.map Prod.fst ++ rest) (n + 1) (k + 1)
  | chunkStep (s : E.σ) (items : List (Nat × Nat)) (rest : List Nat) (b : Budget) (cap n k : Nat) :
      (erunI E false s items b).1.res ≠ .inputEmpty → encMinCap ≤ cap →
      EAdmissible E cap (erunI E false s items b).1 →
      ELoopPre E (erunI E false s items b).1.st ((erunI E false s items b).2.map Prod.fst ++ rest) n k →
      ELoopPre E s (items.map Prod.fst ++ rest) (n + 1) k

theorem ELoop.toPre {E : EFam} {s : E.σ} {text : List Nat} {n k : Nat} (h : ELoop E s text n k) :
    ELoopPre E s text n k := by
  induction h with
  | final s items b hres => exact .final s items b hres
  | lastStep s items b cap n k hres hcap hadm _ ih => exact .lastStep s items b cap n k hres hcap hadm ih
  | chunkDone s items rest b n k hres _ ih => exact .chunkDone s items rest b n k hres ih
  | chunkStep s items rest b cap n k hres hcap hadm _ ih => exact .chunkStep s items rest b cap n k hres hcap hadm ih

theorem ELoopPre.prefix_closed {E : EFam} {s : E.σ} {text : List Nat} {n k : Nat} (h : ELoopPre E s text n k) :
    ∀ m, m ≤ n → ∃ k', k' ≤ k ∧ ELoopPre E s text m k' := by
  induction h with
  | start s text => intro m hm; exact ⟨0, Nat.le_refl _, by have : m = 0 := by omega
                                                            subst this; exact .start s text⟩
  | final s items b hres =>
    intro m hm
    cases m with
    | zero => exact ⟨0, Nat.le_refl _, .start s _⟩
    | succ m => have : m = 0 := by omega
                subst this; exact ⟨0, Nat.le_refl _, .final s items b hres⟩
  | lastStep s items b cap n k hres hcap hadm _ ih =>
    intro m hm
    cases m with
    | zero => exact ⟨0, Nat.zero_le _, .start s _⟩
    | succ m =>
      obtain ⟨k', hk', h'⟩ := ih m (by omega)
      exact ⟨k', hk', .lastStep s items b cap m k' hres hcap hadm h'⟩
  | chunkDone s items rest b n k hres _ ih =>
    intro m hm
    cases m with
    | zero => exact ⟨0, Nat.zero_le _, .start s _⟩
    | succ m =>
      obtain ⟨k', hk', h'⟩ := ih m (by omega)
      exact ⟨k' + 1, by omega, .chunkDone s items rest b m k' hres h'⟩
  | chunkStep s items rest b cap n k hres hcap hadm _ ih =>
    intro m hm
    cases m with
    | zero => exact ⟨0, Nat.zero_le _, .start s _⟩
    | succ m =>
      obtain ⟨k', hk', h'⟩ := ih m (by omega)
      exact ⟨k', hk', .chunkStep s items rest b cap m k' hres hcap hadm h'⟩

/-- at no point of the loop — complete or not — has it made more calls than the reference run of the
text has events, plus chunks, plus one -/
theorem prefix_calls_le_events (E : EFam) (L : ELaws E) (hb : ENeedsBounded E) (s : E.σ) (text : List Nat) (n k : Nat)
    (h : ELoopPre E s text n k) : n ≤ (eref E s text).length + k + 1 := by
  induction h with
  | start s text => omega
  | final s items b hres => omega
  | lastStep s items b cap n k hres hcap hadm _ ih =>
    have hs := erunI_sound E L true items s b [] (fun _ => rfl)
    simp only [List.append_nil] at hs
    have hp := eevs_pos E hb true s items b cap hcap hadm hres
    rw [← hs, List.length_append]
    omega
  | chunkDone s items rest b n k hres _ ih =>
    have hs := erunI_sound E L false items s b rest (fun h => by cases h)
    rw [← hs, List.length_append]
    omega
  | chunkStep s items rest b cap n k hres hcap hadm _ ih =>
    have hs := erunI_sound E L false items s b rest (fun h => by cases h)
    have hp := eevs_pos E hb false s items b cap hcap hadm hres
    rw [← hs, List.length_append]
    omega

/-- **the caller loop terminates within a number of calls bounded by the output**: calls ≤ (bytes +
unmappable reports of the chunk-free reference run of the text) + chunks + 1 (a complete run is a
prefix: `prefix_calls_le_events`) -/
theorem calls_le_events (E : EFam) (L : ELaws E) (hb : ENeedsBounded E) (s : E.σ) (text : List Nat) (n k : Nat)
    (h : ELoop E s text n k) : n ≤ (eref E s text).length + k + 1 :=
  prefix_calls_le_events E L hb s text n k h.toPre

/-- bytes written for one character by an unstopped run: at most `m` per step, `fuel` steps -/
theorem processChar_events_le (E : EFam) (m : Nat) (hm : ∀ s c, (E.step s c).out.length ≤ m) :
    ∀ (f : Nat) (s : E.σ) (c : Nat) (acc : List Nat),
      (charEvs (processChar E f s c .unlimited acc)).length ≤ acc.length + f * m + 1 := by
  intro f
  induction f with
  | zero => intro s c acc; simp [processChar, charEvs]
  | succ f ih =>
    intro s c acc
    have := hm s c
    rw [processChar]
    simp only [Budget.isZero, Bool.false_eq_true, if_false, Budget.dec]
    split
    · simp only [charEvs, List.length_append, List.length_map, List.length_cons, List.length_nil]
      rw [Nat.succ_mul]; omega
    · split
      · have := ih (E.step s c).st c (acc ++ (E.step s c).out)
        simp only [List.length_append] at this
        rw [Nat.succ_mul]; omega
      · simp only [charEvs, List.length_append, List.length_map]
        rw [Nat.succ_mul]; omega

/-- the reference run is linear in the text: with at most `m` bytes per step, at most `r + 1` steps
per character and at most `m` bytes at the end of the stream -/
theorem eref_length_le (E : EFam) (m r : Nat) (hm : ∀ s c, (E.step s c).out.length ≤ m)
    (hr : ∀ s c, E.rank s c ≤ r) (he : ∀ s, (E.eof s).1.length ≤ m) :
    ∀ (text : List Nat) (s : E.σ), (eref E s text).length ≤ ((r + 1) * m + 1) * text.length + m := by
  intro text
  induction text with
  | nil => intro s; simp only [eref, List.length_map, List.length_nil, Nat.mul_zero, Nat.zero_add]; exact he s
  | cons c t ih =>
    intro s
    rw [eref_cons, List.length_append]
    have h1 := processChar_events_le E m hm (E.rank s c + 1) s c []
    have h2 := ih (charSt (processChar E (E.rank s c + 1) s c .unlimited []))
    have h3 : (E.rank s c + 1) * m ≤ (r + 1) * m := Nat.mul_le_mul_right _ (by have := hr s c; omega)
    simp only [List.length_nil, Nat.zero_add, List.length_cons] at h1 ⊢
    rw [Nat.mul_succ]
    omega

theorem variant_rank_le (v : Gen.Variant) (s : (efamOfVariant v).σ) (c : Nat) : (efamOfVariant v).rank s c ≤ 1 := by
  cases v with
  | iso2022Jp =>
    show isoEncRank s c ≤ 1
    unfold isoEncRank; split <;> decide
  | _ => exact Nat.zero_le _

/-- **C08, linear bound, all 40 encodings**: the documented caller loop over the raw encoder API, with
destinations of at least four bytes, makes at most `9 · characters + chunks + 5` calls -/
theorem caller_loop_bound (v : Gen.Variant) (s : (efamOfVariant v).σ) (text : List Nat) (n k : Nat)
    (h : ELoop (efamOfVariant v) s text n k) : n ≤ 9 * text.length + k + 5 := by
  have hb := efamOfVariant_needsBounded v
  have h1 := calls_le_events _ (variant_elaws v) hb s text n k h
  have h2 := eref_length_le (efamOfVariant v) 4 1
    (fun s c => Nat.le_trans (Lemmas.EncFam.estep_out_le_need v s c) (hb.1 s c))
    (variant_rank_le v)
    (fun s => Nat.le_trans (Lemmas.EncFam.eeof_out_le_need v s) (hb.2 s)) text s
  omega

/-- **C08, encoder, raw API, prefixes of runs**: at no point of the documented caller loop has it made
more than `9 · characters + chunks + 5` calls -/
theorem caller_loop_prefix_bound (v : Gen.Variant) (s : (efamOfVariant v).σ) (text : List Nat) (n k : Nat)
    (h : ELoopPre (efamOfVariant v) s text n k) : n ≤ 9 * text.length + k + 5 := by
  have hb := efamOfVariant_needsBounded v
  have h1 := prefix_calls_le_events _ (variant_elaws v) hb s text n k h
  have h2 := eref_length_le (efamOfVariant v) 4 1
    (fun s c => Nat.le_trans (Lemmas.EncFam.estep_out_le_need v s c) (hb.1 s c))
    (variant_rank_le v)
    (fun s => Nat.le_trans (Lemmas.EncFam.eeof_out_le_need v s) (hb.2 s)) text s
  omega

/-- **termination**: there is no prefix of a run with more than `9 · characters + chunks + 5` calls —
the loop cannot go on for ever -/
theorem caller_loop_terminates (v : Gen.Variant) (s : (efamOfVariant v).σ) (text : List Nat) :
    ¬ ∃ n k, 9 * text.length + k + 5 < n ∧ ELoopPre (efamOfVariant v) s text n k := by
  intro ⟨n, k, hlt, h⟩
  have := caller_loop_prefix_bound v s text n k h
  omega

/-! ## with replacement -/

/-- **the with-replacement loop terminates**: for every stop policy of the inner calls, every
capacity and every state, `src.length + 2` units of fuel are enough for `Model.encRepl` to return
(one for the entry, one per `Unmappable` round — each consumes at least one unit — and one for the
final round) -/
theorem encRepl_terminates (E : EFam) (canAll : Bool) (ncrExtra : Nat) (utf16 last : Bool) (cap fuel : Nat)
    (s : E.σ) (src : List Nat) (budgets : List Budget) (hf : src.length + 2 ≤ fuel) :
    ∃ t, encRepl E canAll ncrExtra utf16 last cap fuel s src budgets = some t :=
  Lemmas.EncSide.encRepl_terminates E canAll ncrExtra utf16 last cap fuel s src budgets hf

/-- the fuel is only a termination device: any two sufficient amounts give the same result -/
theorem encRepl_fuel_irrelevant (E : EFam) (canAll : Bool) (ncrExtra : Nat) (utf16 last : Bool)
    (cap f1 f2 : Nat) (s : E.σ) (src : List Nat) (budgets : List Budget)
    (h1 : src.length + 2 ≤ f1) (h2 : src.length + 2 ≤ f2) :
    encRepl E canAll ncrExtra utf16 last cap f1 s src budgets
      = encRepl E canAll ncrExtra utf16 last cap f2 s src budgets := by
  obtain ⟨t, ht⟩ := encRepl_terminates E canAll ncrExtra utf16 last cap (src.length + 2) s src budgets (Nat.le_refl _)
  rw [encRepl_fuel_mono E canAll ncrExtra utf16 last cap _ f1 s src budgets t ht h1,
    encRepl_fuel_mono E canAll ncrExtra utf16 last cap _ f2 s src budgets t ht h2]

theorem go_rounds_le (E : EFam) {utf16 last : Bool} {src : List Nat} {eff : Nat} {s : E.σ}
    {budgets : List Budget} {tr tw : Nat} {acc : List Nat} {had : Bool}
    {inner : List (Nat × Nat × ERes × Nat)} {t : EReplRes E.σ}
    (h : GoRel E utf16 last src eff s budgets tr tw acc had inner t) :
    t.inner.length ≤ inner.length + (src.length - tr) + 1 := by
  induction h with
  | stop s budgets tr tw acc had inner r hr hres => simp only [List.length_append, List.length_cons, List.length_nil]; omega
  | unmapEnd s budgets tr tw acc had inner r c hr hres hfull hend =>
    simp only [List.length_append, List.length_cons, List.length_nil]; omega
  | unmapFull s budgets tr tw acc had inner r c hr hres hfull hend =>
    simp only [List.length_append, List.length_cons, List.length_nil]; omega
  | unmapCont s budgets tr tw acc had inner r c t hr hres hroom hnext ih =>
    subst hr
    obtain ⟨h1, h2⟩ := ecall_unmappable_read_pos E utf16 s (src.drop tr) last _ c hres
    have : tr < src.length := Nat.lt_of_not_le (fun hc => h2 (List.drop_eq_nil_of_le hc))
    simp only [List.length_append, List.length_cons, List.length_nil] at ih
    omega

/-- a with-replacement call makes at most `src.length + 1` inner raw calls -/
theorem encRepl_rounds_le (E : EFam) (canAll : Bool) (ncrExtra : Nat) (utf16 last : Bool) (cap fuel : Nat)
    (s : E.σ) (src : List Nat) (budgets : List Budget) (t : EReplRes E.σ)
    (h : encRepl E canAll ncrExtra utf16 last cap fuel s src budgets = some t) :
    t.inner.length ≤ src.length + 1 := by
  rcases encRepl_cases E canAll ncrExtra utf16 last cap fuel s src budgets t h with
    ⟨_, ⟨_, _, ht⟩ | ⟨_, ht⟩⟩ | ⟨_, hgo⟩
  · subst ht; simp
  · subst ht; simp
  · have := go_rounds_le E hgo
    simpa using this

/-- **Progress with replacement**: with a destination of at least the minimum (14 bytes; 4 when the
encoder can encode everything) and admissible inner calls, a with-replacement call that returns
`OutputFull` consumed at least one source unit or wrote at least one byte -/
theorem encRepl_outputFull_progress (E : EFam) (hb : ENeedsBounded E) (canAll : Bool) (utf16 last : Bool)
    (cap fuel : Nat) (s : E.σ) (src : List Nat) (budgets : List Budget) (t : EReplRes E.σ)
    (hcap : encMinCapRepl canAll ≤ cap)
    (h : encRepl E canAll Gen.ncrExtra utf16 last cap fuel s src budgets = some t)
    (hadm : InnerAdmissible t.inner) (hres : t.res = .outputFull) :
    1 ≤ t.read ∨ 1 ≤ t.out.length := by
  have heff : encMinCap ≤ (if canAll = true then cap else cap - Gen.ncrExtra) := by
    unfold encMinCapRepl at hcap
    cases canAll <;> simp only [if_true, Bool.false_eq_true, if_false] at hcap ⊢ <;> omega
  rcases encRepl_cases E canAll Gen.ncrExtra utf16 last cap fuel s src budgets t h with
    ⟨⟨hc1, hc2⟩, _⟩ | ⟨_, hgo⟩
  · exfalso
    unfold encMinCapRepl at hcap
    rw [if_neg hc1] at hcap
    omega
  · generalize (if canAll = true then cap else cap - Gen.ncrExtra) = eff at hgo heff
    cases hgo with
    | stop _ _ _ _ _ _ _ r hr hres' =>
      right
      simp only at hres hadm ⊢
      have h1 := (hadm (eff - 0, r.out.length, r.res, r.stopNeed) (by simp)).2 hres
      have h2 : r.stopNeed ≤ encMinCap := by rw [hr]; exact ecall_stopNeed_le E encMinCap hb utf16 s _ last _
      simp only [List.nil_append] at h1 ⊢
      omega
    | unmapEnd _ _ _ _ _ _ _ r c hr hres' hfull hend => cases hres
    | unmapFull _ _ _ _ _ _ _ r c hr hres' hfull hend =>
      left
      subst hr
      have := (ecall_unmappable_read_pos E utf16 s (src.drop 0) last _ c hres').1
      simp only at this ⊢
      omega
    | unmapCont _ _ _ _ _ _ _ r c _ hr hres' hroom hnext =>
      left
      subst hr
      have h1 := (ecall_unmappable_read_pos E utf16 s (src.drop 0) last _ c hres').1
      have h2 := (go_bnd E hnext (bnd_step E utf16 last src s _ 0 (bnd_zero utf16 src))).2
      omega

/-- all 40 encodings, with `can_encode_everything()` as in lib.rs -/
theorem encRepl_progress_all_encodings (v : Gen.Variant) (utf16 last : Bool) (cap fuel : Nat)
    (s : (efamOfVariant v).σ) (src : List Nat) (budgets : List Budget) (t : EReplRes (efamOfVariant v).σ)
    (hcap : encMinCapRepl (canEncodeEverything v) ≤ cap)
    (h : encRepl (efamOfVariant v) (canEncodeEverything v) Gen.ncrExtra utf16 last cap fuel s src budgets = some t)
    (hadm : InnerAdmissible t.inner) (hres : t.res = .outputFull) :
    1 ≤ t.read ∨ 1 ≤ t.out.length :=
  encRepl_outputFull_progress _ (efamOfVariant_needsBounded v) _ utf16 last cap fuel s src budgets t hcap h hadm hres

/-- a with-replacement call returns `InputEmpty` or `OutputFull` (also `Thm.C06Enc.encRepl_res`) -/
theorem encRepl_result (E : EFam) (canAll : Bool) (utf16 last : Bool) (cap fuel : Nat) (s : E.σ)
    (src : List Nat) (budgets : List Budget) (t : EReplRes E.σ)
    (h : encRepl E canAll Gen.ncrExtra utf16 last cap fuel s src budgets = some t) :
    t.res = .inputEmpty ∨ t.res = .outputFull := by
  rcases encRepl_cases E canAll Gen.ncrExtra utf16 last cap fuel s src budgets t h with
    ⟨_, ⟨_, _, ht⟩ | ⟨_, ht⟩⟩ | ⟨_, hgo⟩
  · subst ht; exact Or.inl rfl
  · subst ht; exact Or.inr rfl
  · exact go_res E hgo

/-! ## the caller loop over the with-replacement API -/

theorem go_out_ge (E : EFam) {utf16 last : Bool} {src : List Nat} {eff : Nat} {s : E.σ}
    {budgets : List Budget} {tr tw : Nat} {acc : List Nat} {had : Bool}
    {inner : List (Nat × Nat × ERes × Nat)} {t : EReplRes E.σ}
    (h : GoRel E utf16 last src eff s budgets tr tw acc had inner t) : acc.length ≤ t.out.length := by
  induction h with
  | stop s budgets tr tw acc had inner r hr hres => simp only [List.length_append]; omega
  | unmapEnd s budgets tr tw acc had inner r c hr hres hfull hend => simp only [List.length_append]; omega
  | unmapFull s budgets tr tw acc had inner r c hr hres hfull hend => simp only [List.length_append]; omega
  | unmapCont s budgets tr tw acc had inner r c t hr hres hroom hnext ih =>
    simp only [List.length_append] at ih; omega

/-- with a destination of at least the minimum and admissible inner calls, a with-replacement call
that returns `OutputFull` has written at least one byte (a byte of an inner call that filled the
destination, or a numeric character reference) -/
theorem encRepl_outputFull_wrote (E : EFam) (hb : ENeedsBounded E) (canAll : Bool) (utf16 last : Bool)
    (cap fuel : Nat) (s : E.σ) (src : List Nat) (budgets : List Budget) (t : EReplRes E.σ)
    (hcap : encMinCapRepl canAll ≤ cap)
    (h : encRepl E canAll Gen.ncrExtra utf16 last cap fuel s src budgets = some t)
    (hadm : InnerAdmissible t.inner) (hres : t.res = .outputFull) : 1 ≤ t.out.length := by
  have heff : encMinCap ≤ (if canAll = true then cap else cap - Gen.ncrExtra) := by
    unfold encMinCapRepl at hcap
    cases canAll <;> simp only [if_true, Bool.false_eq_true, if_false] at hcap ⊢ <;> omega
  rcases encRepl_cases E canAll Gen.ncrExtra utf16 last cap fuel s src budgets t h with
    ⟨⟨hc1, hc2⟩, _⟩ | ⟨_, hgo⟩
  · exfalso
    unfold encMinCapRepl at hcap
    rw [if_neg hc1] at hcap
    omega
  · generalize (if canAll = true then cap else cap - Gen.ncrExtra) = eff at hgo heff
    cases hgo with
    | stop _ _ _ _ _ _ _ r hr hres' =>
      simp only at hres hadm ⊢
      have h1 := (hadm (eff - 0, r.out.length, r.res, r.stopNeed) (by simp)).2 hres
      have h2 : r.stopNeed ≤ encMinCap := by rw [hr]; exact ecall_stopNeed_le E encMinCap hb utf16 s _ last _
      simp only [List.nil_append] at h1 ⊢
      omega
    | unmapEnd _ _ _ _ _ _ _ r c hr hres' hfull hend => cases hres
    | unmapFull _ _ _ _ _ _ _ r c hr hres' hfull hend =>
      have := ncr_length_pos c
      simp only [List.length_append]
      omega
    | unmapCont _ _ _ _ _ _ _ r c _ hr hres' hroom hnext =>
      have h1 := go_out_ge E hnext
      have := ncr_length_pos c
      simp only [List.length_append] at h1
      omega

/-- **The documented caller loop over `encode_from_utf{8,16}`** (with replacement): chunks in
non-`last` calls, then `last` calls until `InputEmpty`; after `OutputFull` the unconsumed characters
are pushed again.  Every call that does not return `InputEmpty` had a destination of at least
`encMinCapRepl` bytes and admissible inner calls.  `EReplLoop E canAll s text n k`: `n` calls, `k` of
them non-`last` calls that returned `InputEmpty`. -/
inductive EReplLoop (E : EFam) (canAll : Bool) : E.σ → List Nat → Nat → Nat → Prop
  | final (s : E.σ) (utf16 : Bool) (cap fuel : Nat) (src : List Nat) (budgets : List Budget) (t : EReplRes E.σ) :
      encRepl E canAll Gen.ncrExtra utf16 true cap fuel s src budgets = some t → t.res = .inputEmpty →
      EReplLoop E canAll s ((itemsOfSrc utf16 src).map Prod.fst) 1 0
  | lastStep (s : E.σ) (utf16 : Bool) (cap fuel : Nat) (src : List Nat) (budgets : List Budget) (t : EReplRes E.σ)
      (n k : Nat) :
      encRepl E canAll Gen.ncrExtra utf16 true cap fuel s src budgets = some t → t.res ≠ .inputEmpty →
      encMinCapRepl canAll ≤ cap → InnerAdmissible t.inner →
      EReplLoop E canAll t.st ((itemsOfSrc utf16 (src.drop t.read)).map Prod.fst) n k →
      EReplLoop E canAll s ((itemsOfSrc utf16 src).map Prod.fst) (n + 1) k
  | chunkDone (s : E.σ) (utf16 : Bool) (cap fuel : Nat) (src : List Nat) (budgets : List Budget) (t : EReplRes E.σ)
      (rest : List Nat) (n k : Nat) :
      encRepl E canAll Gen.ncrExtra utf16 false cap fuel s src budgets = some t → t.res = .inputEmpty →
      EReplLoop E canAll t.st ((itemsOfSrc utf16 (src.drop t.read)).map Prod.fst ++ rest) n k →
      EReplLoop E canAll s ((itemsOfSrc utf16 src).map Prod.fst ++ rest) (n + 1) (k + 1)
  | chunkStep (s : E.σ) (utf16 : Bool) (cap fuel : Nat) (src : List Nat) (budgets : List Budget) (t : EReplRes E.σ)
      (rest : List Nat) (n k : Nat) :
      encRepl E canAll Gen.ncrExtra utf16 false cap fuel s src budgets = some t → t.res ≠ .inputEmpty →
      encMinCapRepl canAll ≤ cap → InnerAdmissible t.inner →
      EReplLoop E canAll t.st ((itemsOfSrc utf16 (src.drop t.read)).map Prod.fst ++ rest) n k →
      EReplLoop E canAll s ((itemsOfSrc utf16 src).map Prod.fst ++ rest) (n + 1) k

/-- a with-replacement call that does not return `InputEmpty` contributes at least one event -/
theorem repl_step_events (E : EFam) (L : ELaws E) (hb : ENeedsBounded E) (canAll utf16 last : Bool)
    (cap fuel : Nat) (s : E.σ) (src : List Nat) (budgets : List Budget) (t : EReplRes E.σ) (rest : List Nat)
    (hl : last = true → rest = [])
    (h : encRepl E canAll Gen.ncrExtra utf16 last cap fuel s src budgets = some t) (hres : t.res ≠ .inputEmpty)
    (hcap : encMinCapRepl canAll ≤ cap) (hadm : InnerAdmissible t.inner) :
    (eref E t.st ((itemsOfSrc utf16 (src.drop t.read)).map Prod.fst ++ rest)).length + 1
      ≤ (eref E s ((itemsOfSrc utf16 src).map Prod.fst ++ rest)).length := by
  obtain ⟨evs, h1, _, h3⟩ := C09Enc.encRepl_sound E L canAll Gen.ncrExtra utf16 last cap fuel s src budgets t h rest hl
  have hfull : t.res = .outputFull := by
    rcases encRepl_result E canAll utf16 last cap fuel s src budgets t h with h' | h'
    · exact absurd h' hres
    · exact h'
  have hw := encRepl_outputFull_wrote E hb canAll utf16 last cap fuel s src budgets t hcap h hadm hfull
  have hne : 1 ≤ evs.length := by
    cases evs with
    | nil => rw [h1] at hw; simp [C09Enc.manualBytes] at hw
    | cons x l => simp
  rw [← h3, List.length_append]
  omega

/-- **every prefix of a run of the caller loop over `encode_from_utf{8,16}`**: `EReplLoop` without the
requirement that the run is complete (`start` ends a derivation anywhere) -/
inductive EReplLoopPre (E : EFam) (canAll : Bool) : E.σ → List Nat → Nat → Nat → Prop
  | start (s : E.σ) (text : List Nat) : EReplLoopPre E canAll s text 0 0
  | final (s : E.σ) (utf16 : Bool) (cap fuel : Nat) (src : List Nat) (budgets : List Budget) (t : EReplRes E.σ) :
      encRepl E canAll Gen.ncrExtra utf16 true cap fuel s src budgets = some t → t.res = .inputEmpty →
      EReplLoopPre E canAll s ((itemsOfSrc utf16 src).map Prod.fst) 1 0
  | lastStep (s : E.σ) (utf16 : Bool) (cap fuel : Nat) (src : List Nat) (budgets : List Budget) (t : EReplRes E.σ)
      (n k : Nat) :
      encRepl E canAll Gen.ncrExtra utf16 true cap fuel s src budgets = some t → t.res ≠ .inputEmpty →
      encMinCapRepl canAll ≤ cap → InnerAdmissible t.inner →
      EReplLoopPre E canAll t.st ((itemsOfSrc utf16 (src.drop t.read)).map Prod.fst) n k →
      EReplLoopPre E canAll s ((itemsOfSrc utf16 src).map Prod.fst) (n + 1) k
  | chunkDone (s : E.σ) (utf16 : Bool) (cap fuel : Nat) (src : List Nat) (budgets : List Budget) (t : EReplRes E.σ)
      (rest : List Nat) (n k : Nat) :
      encRepl E canAll Gen.ncrExtra utf16 false cap fuel s src budgets = some t → t.res = .inputEmpty →
      EReplLoopPre E canAll t.st ((itemsOfSrc utf16 (src.drop t.read)).map Prod.fst ++ rest) n k →
      EReplLoopPre E canAll s ((itemsOfSrc utf16 src).map Prod.fst ++ rest) (n + 1) (k + 1)
  | chunkStep (s : E.σ) (utf16 : Bool) (cap fuel : Nat) (src : List Nat) (budgets : List Budget) (t : EReplRes E.σ)
      (rest : List Nat) (n k : Nat) :
      encRepl E canAll Gen.ncrExtra utf16 false cap fuel s src budgets = some t → t.res ≠ .inputEmpty →
      encMinCapRepl canAll ≤ cap → InnerAdmissible t.inner →
      EReplLoopPre E canAll t.st ((itemsOfSrc utf16 (src.drop t.read)).map Prod.fst ++ rest) n k →
      EReplLoopPre E canAll s ((itemsOfSrc utf16 src).map Prod.fst ++ rest) (n + 1) k

theorem EReplLoop.toPre {E : EFam} {canAll : Bool} {s : E.σ} {text : List Nat} {n k : Nat}
    (h : EReplLoop E canAll s text n k) : EReplLoopPre E canAll s text n k := by
  induction h with
  | final s utf16 cap fuel src budgets t hrun hres => exact .final s utf16 cap fuel src budgets t hrun hres
  | lastStep s utf16 cap fuel src budgets t n k hrun hres hcap hadm _ ih =>
    exact .lastStep s utf16 cap fuel src budgets t n k hrun hres hcap hadm ih
  | chunkDone s utf16 cap fuel src budgets t rest n k hrun hres _ ih =>
    exact .chunkDone s utf16 cap fuel src budgets t rest n k hrun hres ih
  | chunkStep s utf16 cap fuel src budgets t rest n k hrun hres hcap hadm _ ih =>
    exact .chunkStep s utf16 cap fuel src budgets t rest n k hrun hres hcap hadm ih

theorem EReplLoopPre.prefix_closed {E : EFam} {canAll : Bool} {s : E.σ} {text : List Nat} {n k : Nat}
    (h : EReplLoopPre E canAll s text n k) : ∀ m, m ≤ n → ∃ k', k' ≤ k ∧ EReplLoopPre E canAll s text m k' := by
  induction h with
  | start s text => intro m hm; exact ⟨0, Nat.le_refl _, by have : m = 0 := by omega
                                                            subst this; exact .start s text⟩
  | final s utf16 cap fuel src budgets t hrun hres =>
    intro m hm
    cases m with
    | zero => exact ⟨0, Nat.le_refl _, .start s _⟩
    | succ m => have : m = 0 := by omega
                subst this; exact ⟨0, Nat.le_refl _, .final s utf16 cap fuel src budgets t hrun hres⟩
  | lastStep s utf16 cap fuel src budgets t n k hrun hres hcap hadm _ ih =>
    intro m hm
    cases m with
    | zero => exact ⟨0, Nat.zero_le _, .start s _⟩
    | succ m =>
      obtain ⟨k', hk', h'⟩ := ih m (by omega)
      exact ⟨k', hk', .lastStep s utf16 cap fuel src budgets t m k' hrun hres hcap hadm h'⟩
  | chunkDone s utf16 cap fuel src budgets t rest n k hrun hres _ ih =>
    intro m hm
    cases m with
    | zero => exact ⟨0, Nat.zero_le _, .start s _⟩
    | succ m =>
      obtain ⟨k', hk', h'⟩ := ih m (by omega)
      exact ⟨k' + 1, by omega, .chunkDone s utf16 cap fuel src budgets t rest m k' hrun hres h'⟩
  | chunkStep s utf16 cap fuel src budgets t rest n k hrun hres hcap hadm _ ih =>
    intro m hm
    cases m with
    | zero => exact ⟨0, Nat.zero_le _, .start s _⟩
    | succ m =>
      obtain ⟨k', hk', h'⟩ := ih m (by omega)
      exact ⟨k', hk', .chunkStep s utf16 cap fuel src budgets t rest m k' hrun hres hcap hadm h'⟩

/-- at no point of the loop: calls so far ≤ (bytes + unmappable reports of the reference run) + chunks + 1 -/
theorem repl_prefix_calls_le_events (E : EFam) (L : ELaws E) (hb : ENeedsBounded E) (canAll : Bool) (s : E.σ)
    (text : List Nat) (n k : Nat) (h : EReplLoopPre E canAll s text n k) : n ≤ (eref E s text).length + k + 1 := by
  induction h with
  | start s text => omega
  | final s utf16 cap fuel src budgets t hrun hres => omega
  | lastStep s utf16 cap fuel src budgets t n k hrun hres hcap hadm _ ih =>
    have := repl_step_events E L hb canAll utf16 true cap fuel s src budgets t [] (fun _ => rfl) hrun hres hcap hadm
    simp only [List.append_nil] at this
    omega
  | chunkDone s utf16 cap fuel src budgets t rest n k hrun hres _ ih =>
    obtain ⟨evs, _, _, h3⟩ := C09Enc.encRepl_sound E L canAll Gen.ncrExtra utf16 false cap fuel s src budgets t hrun
      rest (fun h => by cases h)
    rw [← h3, List.length_append]
    omega
  | chunkStep s utf16 cap fuel src budgets t rest n k hrun hres hcap hadm _ ih =>
    have := repl_step_events E L hb canAll utf16 false cap fuel s src budgets t rest (fun h => by cases h) hrun
      hres hcap hadm
    omega

/-- calls ≤ (bytes + unmappable reports of the reference run) + chunks + 1 -/
theorem repl_calls_le_events (E : EFam) (L : ELaws E) (hb : ENeedsBounded E) (canAll : Bool) (s : E.σ)
    (text : List Nat) (n k : Nat) (h : EReplLoop E canAll s text n k) : n ≤ (eref E s text).length + k + 1 :=
  repl_prefix_calls_le_events E L hb canAll s text n k h.toPre

/-- **C08, linear bound for the with-replacement API, all 40 encodings**: the documented caller loop
over `encode_from_utf{8,16}`, with destinations of at least 14 bytes (4 when the encoder can encode
everything), makes at most `9 · characters + chunks + 5` calls -/
theorem repl_caller_loop_bound (v : Gen.Variant) (s : (efamOfVariant v).σ) (text : List Nat) (n k : Nat)
    (h : EReplLoop (efamOfVariant v) (canEncodeEverything v) s text n k) : n ≤ 9 * text.length + k + 5 := by
  have hb := efamOfVariant_needsBounded v
  have h1 := repl_calls_le_events _ (variant_elaws v) hb _ s text n k h
  have h2 := eref_length_le (efamOfVariant v) 4 1
    (fun s c => Nat.le_trans (Lemmas.EncFam.estep_out_le_need v s c) (hb.1 s c))
    (variant_rank_le v)
    (fun s => Nat.le_trans (Lemmas.EncFam.eeof_out_le_need v s) (hb.2 s)) text s
  omega

/-- **C08, encoder, with-replacement API, prefixes of runs**: at no point of the caller loop has it made
more than `9 · characters + chunks + 5` calls.  (Each call of a prefix is one that returned; that every
call returns is `encRepl_terminates`: fuel `src.length + 2` suffices for every stop policy.) -/
theorem repl_caller_loop_prefix_bound (v : Gen.Variant) (s : (efamOfVariant v).σ) (text : List Nat) (n k : Nat)
    (h : EReplLoopPre (efamOfVariant v) (canEncodeEverything v) s text n k) : n ≤ 9 * text.length + k + 5 := by
  have hb := efamOfVariant_needsBounded v
  have h1 := repl_prefix_calls_le_events _ (variant_elaws v) hb _ s text n k h
  have h2 := eref_length_le (efamOfVariant v) 4 1
    (fun s c => Nat.le_trans (Lemmas.EncFam.estep_out_le_need v s c) (hb.1 s c))
    (variant_rank_le v)
    (fun s => Nat.le_trans (Lemmas.EncFam.eeof_out_le_need v s) (hb.2 s)) text s
  omega

/-- **termination**: no prefix of a run has more than `9 · characters + chunks + 5` calls -/
theorem repl_caller_loop_terminates (v : Gen.Variant) (s : (efamOfVariant v).σ) (text : List Nat) :
    ¬ ∃ n k, 9 * text.length + k + 5 < n ∧
      EReplLoopPre (efamOfVariant v) (canEncodeEverything v) s text n k := by
  intro ⟨n, k, hlt, h⟩
  have := repl_caller_loop_prefix_bound v s text n k h
  omega

/-! ## Non-vacuity

ISO-2022-JP with the minimum destination of four bytes, text `ab` U+3042: the first call writes
`ab` and stops in front of the escape sequence (two bytes written, three asked for: an admissible
`OutputFull` that made progress). -/
example : EAdmissible iso2022JpEFam 4 (ecall iso2022JpEFam true .ascii [0x61, 0x62, 0x3042] true (.full 2))
    ∧ (ecall iso2022JpEFam true .ascii [0x61, 0x62, 0x3042] true (.full 2)).res = .outputFull
    ∧ (ecall iso2022JpEFam true .ascii [0x61, 0x62, 0x3042] true (.full 2)).out = [0x61, 0x62]
    ∧ (ecall iso2022JpEFam true .ascii [0x61, 0x62, 0x3042] true (.full 2)).read = 2 := by
  unfold EAdmissible; decide +kernel

/-- the bound `encMinCap` cannot be lowered to 3: GB18030, U+0080 needs four bytes; with three bytes
of room a stop before anything is written is admissible, and repeats forever -/
example : EAdmissible (gbEFam true) 3 (ecall (gbEFam true) true () [0x80] true (.full 0))
    ∧ (ecall (gbEFam true) true () [0x80] true (.full 0)).res = .outputFull
    ∧ (ecall (gbEFam true) true () [0x80] true (.full 0)).out = []
    ∧ (ecall (gbEFam true) true () [0x80] true (.full 0)).read = 0 := by
  unfold EAdmissible; decide +kernel

/-- the loop relation is inhabited: x-user-defined, `a` U+00E9 `b`, four-byte destinations: two calls
(`Unmappable` after `a`, then `b`) -/
example : ELoop userDefinedEFam () [0x61, 0xE9, 0x62] 2 0 :=
  ELoop.lastStep (E := userDefinedEFam) () [(0x61, 1), (0xE9, 1), (0x62, 1)] .unlimited 4 1 0 (by decide)
    (by decide) (by unfold EAdmissible; decide)
    (ELoop.final (E := userDefinedEFam) () [(0x62, 1)] .unlimited (by decide))

/-- and its proper prefix: one call made, the text not finished -/
example : ELoopPre userDefinedEFam () [0x61, 0xE9, 0x62] 1 0 :=
  ELoopPre.lastStep (E := userDefinedEFam) () [(0x61, 1), (0xE9, 1), (0x62, 1)] .unlimited 4 0 0 (by decide)
    (by decide) (by unfold EAdmissible; decide) (ELoopPre.start _ _)

end EncodingRs.Thm.C08Enc
