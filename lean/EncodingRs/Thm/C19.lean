import EncodingRs.Model.L1
import EncodingRs.Lemmas.FamLaws
import EncodingRs.Lemmas.Life
/-!
# C19 — `latin1_byte_compatible_up_to` is exact (and what "does not disturb the decoder" rests on)

About `Decoder.l1` (`Model/L1.lean`), the model of `Decoder::latin1_byte_compatible_up_to`
(lib.rs → variant.rs → `SingleByteDecoder::latin1_byte_compatible_up_to` /
`Encoding::ascii_valid_up_to` / `Encoding::iso_2022_jp_ascii_valid_up_to`).

## What is claimed (theorems of this module)

* **The answer in closed form, for all 13 variants and every life-cycle state** — `l1_answer`
  (`l1_some_iff`, `l1_none_iff`, `l1_eq_some_iff`, `l1_value`): `Decoder.l1 v d bytes =
  if Neutral v d then some (l1Len v d.cur bytes) else none`. `Neutral v d` is: life cycle
  `Converting` (so `None` with a BOM byte withheld, with `BB` pending, at the start of the stream,
  when finished — `l1_none_lifecycle`) and the current variant decoder in its neutral state
  `NeutralCur`: never for a UTF-16 decoder (nominal or after a BOM switch) or the replacement
  decoder; always for the stateless single-byte / x-user-defined decoders; for the others exactly
  when the family state is THE initial state `Fam.init` (`neutralSt_iff_init`; per variant
  `neutral_big5`, `neutral_shiftJis`, `neutral_eucKr`, `neutral_eucJp`, `neutral_gb`, `neutral_gbk`,
  `neutral_iso`, and `neutral_singleByte`, `neutral_userDefined`, `neutral_replacement`,
  `neutral_utf16Be`, `neutral_utf16Le`; uniformly `l1Variant_isSome_iff`). For UTF-8 (nominal, or
  after an `EF BB BF` switch) the test is `needed = 0` (`neutral_utf8`); on every state reachable
  from the initial one (`FamReach`) this is the initial state (`utf8_needed_zero_iff_init`), and
  the other theorems only use `needed = 0`.
* **Exactness of the number** — the answer is the length of the leading run of counted bytes
  (`l1Len_eq`, `passCur`: ASCII; ASCII without 0x0E, 0x0F, 0x1B for ISO-2022-JP; ASCII or a byte
  the table maps to its own value for the single-byte encodings). `l1_sound_exact`: each of the
  first `n` bytes is passed through by the current decoder as the scalar value equal to the byte,
  without error and without changing the state, and byte `n` (if any) is not — with ONE
  exception that is a theorem too: Shift_JIS decodes `0x80` to U+0080 (`shiftJis_0x80_passes`) but
  the answer stops at it (`shiftJis_0x80_answer`), so there the answer is a sound lower bound and
  not "the index of the first byte whose value doesn't correspond to the decoded scalar value"
  of the Rust documentation. (`AsciiRunSpec`, `l1_utf8` … `l1_userDefined`, `l1_iso2022jp`,
  `l1_single_byte` are the older per-family forms of the same facts.)
* **Soundness of the answer for the caller** — if the answer is `some n`:
  `l1_sound_ref` (stream level): `n ≤ bytes.length`, and `dref d (bytes.take n ++ rest) pos =
  (bytes.take n).map Ev.cp ++ dref d rest (pos + n)`: the decoder says about the first `n` bytes
  exactly their own values, no error, and about the rest what the same decoder state says;
  `l1_sound_call` (call level): `Decoder.rawCall k d (bytes.take n) false b1 b2 = .ok .inputEmpty n
  (bytes.take n) d [(bytes.take n, .inputEmpty, 0)]` for either sink and every stop policy that
  is not cut short by the output buffer (`Covers`): all `n` bytes read, exactly those values
  written, `InputEmpty`, and the decoder is left in the state `d` it was in
  (`l1_sound_call_last`: with `last = true` the same, life cycle `Finished`).

## What is NOT a theorem

"Calling the query does not disturb the decoder" is not a theorem about the model and cannot
be one: `Decoder.l1` is a pure function of the decoder state by construction (in the Rust the
method takes `&self` of a type without interior mutability). That the real method neither
changes the real decoder nor answers differently from `Decoder.l1` is decided by the
correspondence run: the real decoder is asked before every call of every history, its answer
is compared with `Decoder.l1` on the model state, and the rest of the history must still match
the model call by call. What IS proved here is the statement the caller relies on afterwards:
decoding the announced prefix leaves the decoder in the same state (`l1_sound_call`).
`Finished`: the Rust panics, the model answers `none`; the harness never asks a finished decoder.
-/
namespace EncodingRs.Thm.C19
open EncodingRs EncodingRs.Model EncodingRs.Lemmas.Core EncodingRs.Lemmas.FamLaws

/-- number of leading bytes satisfying `P` -/
def upTo (P : Nat → Bool) : List Nat → Nat
  | [] => 0
  | b :: r => if P b then upTo P r + 1 else 0

theorem upTo_le (P : Nat → Bool) (l : List Nat) : upTo P l ≤ l.length := by
  induction l with
  | nil => exact Nat.le_refl _
  | cons b r ih => simp only [upTo]; split <;> simp <;> omega

/-- Generic core: if in state `s` (no delayed output) every byte satisfying `P`
is passed through as the scalar value equal to the byte and leaves the state
unchanged, then the first `upTo P bytes` bytes of any stream decode to exactly
their own values and the decoder is back in `s` afterwards. -/
theorem prefix_identity (F : Fam) (s : F.σ) (P : Nat → Bool) (hp : F.pend s = none)
    (hP : ∀ b, P b = true → F.feed s b = ⟨s, [b], none, false⟩) :
    ∀ (bytes rest : List Nat) (pos : Nat),
      ref F s (bytes.take (upTo P bytes) ++ rest) pos
        = (bytes.take (upTo P bytes)).map Ev.cp ++ ref F s rest (pos + upTo P bytes) := by
  intro bytes
  induction bytes with
  | nil => intro rest pos; simp [upTo]
  | cons b r ih =>
    intro rest pos
    simp only [upTo]
    by_cases hb : P b = true
    · simp only [hb, if_true, List.take_succ_cons, List.cons_append, List.map_cons]
      rw [ref_cons F s b _ pos hp, hP b hb]
      simp only [Bool.false_eq_true, if_false, List.map_cons, List.map_nil, errEv, List.append_nil,
        List.cons_append, List.nil_append]
      rw [ih rest (pos + 1)]
      simp only [Nat.add_assoc, Nat.add_comm 1]
    · simp [hb]

/-- the answer never stops short inside a run of bytes satisfying `P` -/
theorem upTo_maximal (P : Nat → Bool) (bytes : List Nat) (h : upTo P bytes < bytes.length) :
    ∃ b, bytes[upTo P bytes]? = some b ∧ P b = false := by
  induction bytes with
  | nil => simp at h
  | cons b r ih =>
    simp only [upTo] at h ⊢
    by_cases hb : P b = true
    · simp only [hb, if_true] at h ⊢
      simp only [List.length_cons] at h
      obtain ⟨x, hx, hpx⟩ := ih (by omega)
      exact ⟨x, by simpa using hx, hpx⟩
    · simp only [hb, Bool.false_eq_true, if_false]
      exact ⟨b, rfl, by simpa using hb⟩

theorem asciiValidUpTo_eq (l : List Nat) : asciiValidUpTo l = upTo (fun b => decide (b < 0x80)) l := by
  induction l with
  | nil => rfl
  | cons b r ih => simp only [asciiValidUpTo, upTo, ih, decide_eq_true_eq]

theorem iso2022JpAsciiValidUpTo_eq (l : List Nat) :
    iso2022JpAsciiValidUpTo l = upTo (fun b => decide (b < 0x80 ∧ b ≠ 0x0E ∧ b ≠ 0x0F ∧ b ≠ 0x1B)) l := by
  induction l with
  | nil => rfl
  | cons b r ih => simp only [iso2022JpAsciiValidUpTo, upTo, ih, decide_eq_true_eq]

theorem singleByteL1_eq (t : Array Nat) (l : List Nat) :
    singleByteL1 t l = upTo (fun b => decide (b < 0x80 ∨ t.getD (b - 0x80) 0 = b)) l := by
  induction l with
  | nil => rfl
  | cons b r ih => simp only [singleByteL1, upTo, ih, decide_eq_true_eq]

/-! ### per family: in a neutral state the qualifying bytes pass through unchanged -/

theorem singleByte_pass (t : Array Nat) (b : Nat) (h : b < 0x80 ∨ t.getD (b - 0x80) 0 = b) (hb0 : b ≠ 0) :
    (singleByteFam t).feed () b = ⟨(), [b], none, false⟩ := by
  show singleByteFeed t () b = _
  unfold singleByteFeed
  by_cases hlt : b < 0x80
  · simp [hlt, FeedRes.ok]; rfl
  · have he : t.getD (b - 0x80) 0 = b := by
      cases h with
      | inl h => exact absurd h hlt
      | inr h => exact h
    simp [hlt, he, hb0, FeedRes.ok]; rfl

theorem utf8_pass (b : Nat) (h : b < 0x80) : utf8Fam.feed utf8Init b = ⟨utf8Init, [b], none, false⟩ := by
  show utf8Feed utf8Init b = _
  simp [utf8Feed, utf8Init, h, FeedRes.ok]; rfl

theorem twoByte_pass (lf : Nat → LeadRes) (tf : Nat → Nat → TrailRes) (a : Bool) (b : Nat) (h : b < 0x80) :
    (twoByteFam lf tf a).feed none b = ⟨none, [b], none, false⟩ := by
  show twoByteFeed lf tf none b = _
  simp [twoByteFeed, h, FeedRes.ok]; rfl

theorem eucJp_pass (b : Nat) (h : b < 0x80) : eucJpFam.feed EucJpSt.none b = ⟨EucJpSt.none, [b], none, false⟩ := by
  show eucJpFeed EucJpSt.none b = _
  unfold eucJpFeed
  simp [h, FeedRes.ok]; rfl

theorem gb_pass (b : Nat) (h : b < 0x80) : gbFam.feed gbInit b = ⟨gbInit, [b], none, false⟩ := by
  show gbFeed gbInit b = _
  unfold gbFeed
  simp [gbInit, h, FeedRes.ok]; rfl

theorem userDefined_pass (b : Nat) (h : b < 0x80) : userDefinedFam.feed () b = ⟨(), [b], none, false⟩ := by
  show userDefinedFeed () b = _
  simp [userDefinedFeed, h, FeedRes.ok]; rfl

theorem iso_pass (b : Nat) (h : b < 0x80 ∧ b ≠ 0x0E ∧ b ≠ 0x0F ∧ b ≠ 0x1B) :
    iso2022JpFam.feed isoInit b = ⟨isoInit, [b], none, false⟩ := by
  show isoFeed isoInit b = _
  unfold isoFeed
  obtain ⟨h1, h2, h3, h4⟩ := h
  have : ¬ (b > 0x7F ∨ b = 0x0E ∨ b = 0x0F) := by omega
  simp [isoInit, h4, this, FeedRes.ok]; rfl

/-- **C19 (ASCII-run encodings)**: for UTF-8, the CJK multi-byte encodings and
x-user-defined in their neutral state the answer `n` is the length of the
leading ASCII run: the first `n` bytes decode to themselves and return to the
neutral state, and `n` is maximal. Instances of `prefix_identity`/`upTo_maximal`. -/
def AsciiRunSpec (F : Fam) (s : F.σ) : Prop :=
  ∀ (bytes rest : List Nat) (pos : Nat),
    let n := asciiValidUpTo bytes
    n ≤ bytes.length ∧
    ref F s (bytes.take n ++ rest) pos = (bytes.take n).map Ev.cp ++ ref F s rest (pos + n) ∧
    (n < bytes.length → ∃ b, bytes[n]? = some b ∧ ¬ b < 0x80)

theorem l1_ascii_run (F : Fam) (s : F.σ) (hp : F.pend s = none)
    (hpass : ∀ b, b < 0x80 → F.feed s b = ⟨s, [b], none, false⟩) : AsciiRunSpec F s := by
  intro bytes rest pos
  simp only [asciiValidUpTo_eq]
  refine ⟨upTo_le _ _, ?_, ?_⟩
  · exact prefix_identity F s _ hp (fun b hb => hpass b (by simpa using hb)) bytes rest pos
  · intro h
    obtain ⟨b, hb, hP⟩ := upTo_maximal _ bytes h
    exact ⟨b, hb, by simpa using hP⟩

theorem l1_utf8 : AsciiRunSpec utf8Fam utf8Init := l1_ascii_run utf8Fam utf8Init rfl utf8_pass
theorem l1_big5 : AsciiRunSpec big5Fam none := l1_ascii_run big5Fam none rfl (twoByte_pass _ _ _)
theorem l1_eucKr : AsciiRunSpec eucKrFam none := l1_ascii_run eucKrFam none rfl (twoByte_pass _ _ _)
theorem l1_shiftJis : AsciiRunSpec shiftJisFam none := l1_ascii_run shiftJisFam none rfl (twoByte_pass _ _ _)
theorem l1_eucJp : AsciiRunSpec eucJpFam EucJpSt.none := l1_ascii_run eucJpFam EucJpSt.none rfl eucJp_pass
theorem l1_gb : AsciiRunSpec gbFam gbInit := l1_ascii_run gbFam gbInit rfl gb_pass
theorem l1_userDefined : AsciiRunSpec userDefinedFam () := l1_ascii_run userDefinedFam () rfl userDefined_pass

/-- **C19 (ISO-2022-JP)**: in the neutral state the run of ASCII bytes other than 0x0E, 0x0F, ESC -/
theorem l1_iso2022jp (bytes rest : List Nat) (pos : Nat) :
    let n := iso2022JpAsciiValidUpTo bytes
    n ≤ bytes.length ∧
    ref iso2022JpFam isoInit (bytes.take n ++ rest) pos
      = (bytes.take n).map Ev.cp ++ ref iso2022JpFam isoInit rest (pos + n) ∧
    (n < bytes.length → ∃ b, bytes[n]? = some b ∧ ¬ (b < 0x80 ∧ b ≠ 0x0E ∧ b ≠ 0x0F ∧ b ≠ 0x1B)) := by
  simp only [iso2022JpAsciiValidUpTo_eq]
  refine ⟨upTo_le _ _, ?_, ?_⟩
  · exact prefix_identity iso2022JpFam isoInit _ rfl (fun b hb => iso_pass b (by simpa using hb)) bytes rest pos
  · intro h
    obtain ⟨b, hb, hP⟩ := upTo_maximal _ bytes h
    exact ⟨b, hb, by simpa using hP⟩

/-- **C19 (single-byte encodings)**: byte `n` is precisely the first byte that
decodes to something other than its own value (for tables without a zero
entry at a position that would "equal" byte 0 — bytes are ≥ 0x80 there, so the
side condition `b ≠ 0` only excludes the ASCII NUL, which passes through). -/
theorem l1_single_byte (t : Array Nat) (bytes rest : List Nat) (pos : Nat) :
    let n := singleByteL1 t bytes
    n ≤ bytes.length ∧
    ref (singleByteFam t) () (bytes.take n ++ rest) pos
      = (bytes.take n).map Ev.cp ++ ref (singleByteFam t) () rest (pos + n) ∧
    (n < bytes.length → ∃ b, bytes[n]? = some b ∧ ¬ b < 0x80 ∧ t.getD (b - 0x80) 0 ≠ b) := by
  simp only [singleByteL1_eq]
  refine ⟨upTo_le _ _, ?_, ?_⟩
  · apply prefix_identity (singleByteFam t) () _ rfl
    intro b hb
    have hb' : b < 0x80 ∨ t.getD (b - 0x80) 0 = b := by simpa using hb
    by_cases h0 : b = 0
    · subst h0
      show singleByteFeed t () 0 = _
      simp [singleByteFeed, FeedRes.ok]; rfl
    · exact singleByte_pass t b hb' h0
  · intro h
    obtain ⟨b, hb, hP⟩ := upTo_maximal _ bytes h
    refine ⟨b, hb, ?_⟩
    have : ¬ (b < 0x80 ∨ t.getD (b - 0x80) 0 = b) := by simpa using hP
    exact ⟨fun h => this (Or.inl h), fun h => this (Or.inr h)⟩

/-- `None` whenever the life cycle is not `Converting` (BOM bytes withheld, `BB` pending, at the
start of the stream, finished). The complete case analysis — also `None` when the current
variant decoder is not neutral or never byte-compatible, `Some` otherwise — is `l1_answer` below;
that the neutrality tests of the code mean "the family is in its initial state" is `neutral_*` /
`neutralSt_iff_init` / `utf8_needed_zero_iff_init`. -/
theorem l1_none_lifecycle (v : Gen.Variant) (d : Decoder (famOfVariant v)) (bytes : List Nat)
    (h : d.life ≠ .converting) : Decoder.l1 v d bytes = none := by
  unfold Decoder.l1
  cases hl : d.life <;> simp_all

theorem l1_never_compatible (bytes : List Nat) :
    (∀ s, l1Variant .replacement s bytes = none) ∧ (∀ s, l1Variant .utf16Be s bytes = none)
      ∧ (∀ s, l1Variant .utf16Le s bytes = none) := ⟨fun _ => rfl, fun _ => rfl, fun _ => rfl⟩

/-- for the stateful families the neutrality test accepts exactly the initial state -/
theorem neutral_utf8 (s : Utf8St) (bytes : List Nat) :
    (l1Variant .utf8 s bytes).isSome = true ↔ s.needed = 0 := by
  simp only [l1Variant]; split <;> simp_all

theorem neutral_big5 (s : Option Nat) (bytes : List Nat) :
    (l1Variant .big5 s bytes).isSome = true ↔ s = none := by
  simp only [l1Variant]; cases s <;> simp

theorem neutral_gb (s : GbSt) (bytes : List Nat) :
    (l1Variant .gb18030 s bytes).isSome = true ↔ s = gbInit := by
  obtain ⟨p, pa⟩ := s
  simp only [l1Variant, gbInit]
  split
  · rename_i h; simp [h.1, h.2]
  · rename_i h
    simp only [Option.isSome_none, Bool.false_eq_true, false_iff]
    intro he; cases he; exact h ⟨rfl, rfl⟩

theorem neutral_iso (s : Iso2022JpSt) (bytes : List Nat) :
    (l1Variant .iso2022Jp s bytes).isSome = true ↔ s = isoInit := by
  obtain ⟨ds, os, l, f, p⟩ := s
  simp only [l1Variant, isoInit]
  split
  · rename_i h; obtain ⟨h1, h2, h3, h4, h5⟩ := h; simp_all
  · rename_i h
    simp only [Option.isSome_none, Bool.false_eq_true, false_iff]
    intro he; cases he; exact h ⟨rfl, rfl, rfl, rfl, rfl⟩

/-! ### the remaining variants: `Some` exactly in the neutral state, for all 13 -/

theorem neutral_gbk (s : GbSt) (bytes : List Nat) :
    (l1Variant .gbk s bytes).isSome = true ↔ s = gbInit := neutral_gb s bytes

theorem neutral_eucJp (s : EucJpSt) (bytes : List Nat) :
    (l1Variant .eucJp s bytes).isSome = true ↔ s = EucJpSt.none := by
  simp only [l1Variant]; cases s <;> simp

theorem neutral_shiftJis (s : Option Nat) (bytes : List Nat) :
    (l1Variant .shiftJis s bytes).isSome = true ↔ s = none := by
  simp only [l1Variant]; cases s <;> simp

theorem neutral_eucKr (s : Option Nat) (bytes : List Nat) :
    (l1Variant .eucKr s bytes).isSome = true ↔ s = none := by
  simp only [l1Variant]; cases s <;> simp

/-- the stateless compatible encodings always answer -/
theorem neutral_singleByte (t a b c : Nat) (s : Unit) (bytes : List Nat) :
    (l1Variant (.singleByte t a b c) s bytes).isSome = true := rfl

theorem neutral_userDefined (s : Unit) (bytes : List Nat) :
    (l1Variant .userDefined s bytes).isSome = true := rfl

/-- the never-compatible encodings never answer, whatever their state -/
theorem neutral_replacement (s : Bool) (bytes : List Nat) :
    (l1Variant .replacement s bytes).isSome = false := rfl

theorem neutral_utf16Be (s : Utf16St) (bytes : List Nat) :
    (l1Variant .utf16Be s bytes).isSome = false := rfl

theorem neutral_utf16Le (s : Utf16St) (bytes : List Nat) :
    (l1Variant .utf16Le s bytes).isSome = false := rfl

/-! ### `l1_answer`: the answer in every life-cycle state, for every variant -/

/-- The neutral state of the variant decoder of `v`: the state is THE initial state of the
family (`Fam.init`, `neutralSt_iff_init`) and the encoding is not one of the three that are
never byte-compatible. The two stateless compatible families (`σ = Unit`) are always
neutral. For UTF-8 the test of the code is `needed = 0`; on every state the decoder can
reach this is the initial state (`utf8_needed_zero_iff_init`), and a state with
`needed = 0` behaves like it whatever the other fields hold (`neutral_pass`). -/
def NeutralSt : (v : Gen.Variant) → (famOfVariant v).σ → Prop
  | .singleByte _ _ _ _, _ => True
  | .utf8, s => Utf8St.needed s = 0
  | .gbk, s => @Eq GbSt s gbInit
  | .gb18030, s => @Eq GbSt s gbInit
  | .big5, s => @Eq (Option Nat) s none
  | .eucJp, s => @Eq EucJpSt s EucJpSt.none
  | .iso2022Jp, s => @Eq Iso2022JpSt s isoInit
  | .shiftJis, s => @Eq (Option Nat) s none
  | .eucKr, s => @Eq (Option Nat) s none
  | .replacement, _ => False
  | .utf16Be, _ => False
  | .utf16Le, _ => False
  | .userDefined, _ => True

instance NeutralSt.dec : (v : Gen.Variant) → (s : (famOfVariant v).σ) → Decidable (NeutralSt v s)
  | .singleByte _ _ _ _, _ => isTrue trivial
  | .utf8, s => inferInstanceAs (Decidable (Utf8St.needed s = 0))
  | .gbk, s => (inferInstance : DecidableEq GbSt) s gbInit
  | .gb18030, s => (inferInstance : DecidableEq GbSt) s gbInit
  | .big5, s => (inferInstance : DecidableEq (Option Nat)) s none
  | .eucJp, s => (inferInstance : DecidableEq EucJpSt) s EucJpSt.none
  | .iso2022Jp, s => (inferInstance : DecidableEq Iso2022JpSt) s isoInit
  | .shiftJis, s => (inferInstance : DecidableEq (Option Nat)) s none
  | .eucKr, s => (inferInstance : DecidableEq (Option Nat)) s none
  | .replacement, _ => isFalse id
  | .utf16Be, _ => isFalse id
  | .utf16Le, _ => isFalse id
  | .userDefined, _ => isTrue trivial

/-- the encodings whose decoder never answers -/
def neverCompatible : Gen.Variant → Bool
  | .replacement | .utf16Be | .utf16Le => true
  | _ => false

/-- for every variant but UTF-8: neutral = compatible encoding in the initial state of its family -/
theorem neutralSt_iff_init (v : Gen.Variant) (hv : v ≠ .utf8) (s : (famOfVariant v).σ) :
    NeutralSt v s ↔ neverCompatible v = false ∧ s = (famOfVariant v).init := by
  cases v with
  | utf8 => exact absurd rfl hv
  | singleByte t a b c => exact ⟨fun _ => ⟨rfl, rfl⟩, fun _ => trivial⟩
  | userDefined => exact ⟨fun _ => ⟨rfl, rfl⟩, fun _ => trivial⟩
  | replacement => exact ⟨fun h => h.elim, fun h => by cases h.1⟩
  | utf16Be => exact ⟨fun h => h.elim, fun h => by cases h.1⟩
  | utf16Le => exact ⟨fun h => h.elim, fun h => by cases h.1⟩
  | gbk => exact ⟨fun h => ⟨rfl, h⟩, fun h => h.2⟩
  | gb18030 => exact ⟨fun h => ⟨rfl, h⟩, fun h => h.2⟩
  | big5 => exact ⟨fun h => ⟨rfl, h⟩, fun h => h.2⟩
  | eucJp => exact ⟨fun h => ⟨rfl, h⟩, fun h => h.2⟩
  | iso2022Jp => exact ⟨fun h => ⟨rfl, h⟩, fun h => h.2⟩
  | shiftJis => exact ⟨fun h => ⟨rfl, h⟩, fun h => h.2⟩
  | eucKr => exact ⟨fun h => ⟨rfl, h⟩, fun h => h.2⟩

/-- the states a family can be in: everything `run`/`call`/`ref` can produce from `Fam.init` -/
inductive FamReach (F : Fam) : F.σ → Prop
  | init : FamReach F F.init
  | feed (s : F.σ) (b : Nat) : FamReach F s → FamReach F (F.feed s b).st
  | eof (s : F.σ) (e : Nat × Nat) (s' : F.σ) : FamReach F s → F.eof s = some (e, s') → FamReach F s'
  | pend (s : F.σ) (o : List Nat) (s' : F.σ) : FamReach F s → F.pend s = some (o, s') → FamReach F s'
  | alt (s : F.σ) (src : List Nat) (m : Nat) (r : FeedRes F.σ) : FamReach F s → F.alt s src = some (m, r) → FamReach F r.st

theorem utf8Feed_needed_zero (s : Utf8St) (b : Nat) (h : s.needed = 0 → s = utf8Init) :
    (utf8Feed s b).st.needed = 0 → (utf8Feed s b).st = utf8Init := by
  unfold utf8Feed
  by_cases hn : s.needed = 0
  · have hs := h hn
    subst hs
    simp only [utf8Init, if_true]
    repeat' split
    all_goals simp [FeedRes.ok, FeedRes.bad]
  · simp only [hn, if_false]
    repeat' split
    all_goals simp [FeedRes.ok, FeedRes.bad, hn]

/-- UTF-8: on every reachable state `needed = 0` (the test of `Utf8Decoder::in_neutral_state`)
holds exactly in the initial state -/
theorem utf8_reach_inv : ∀ (s : utf8Fam.σ), FamReach utf8Fam s → Utf8St.needed s = 0 → s = utf8Init := by
  intro s h
  induction h with
  | init => intro _; rfl
  | feed s b _ ih => exact utf8Feed_needed_zero s b ih
  | eof s e s' _ he _ =>
    intro _
    have he' : (if Utf8St.needed s ≠ 0 then some ((Utf8St.seen s + 1, 0), utf8Init) else none) = some (e, s') := he
    split at he'
    · cases he'; rfl
    · cases he'
  | pend s o s' _ hp _ => cases hp
  | alt s src m r _ ha _ => cases ha

theorem utf8_needed_zero_iff_init (s : Utf8St) (h : FamReach utf8Fam s) : s.needed = 0 ↔ s = utf8Init :=
  ⟨utf8_reach_inv s h, fun e => by rw [e]; rfl⟩

/-- the variant test accepts exactly the neutral states, uniformly in the variant -/
theorem l1Variant_isSome_iff (v : Gen.Variant) (s : (famOfVariant v).σ) (bytes : List Nat) :
    (l1Variant v s bytes).isSome = true ↔ NeutralSt v s := by
  cases v with
  | singleByte t a b c => exact ⟨fun _ => trivial, fun _ => rfl⟩
  | utf8 => exact neutral_utf8 s bytes
  | gbk => exact neutral_gbk s bytes
  | gb18030 => exact neutral_gb s bytes
  | big5 => exact neutral_big5 s bytes
  | eucJp => exact neutral_eucJp s bytes
  | iso2022Jp => exact neutral_iso s bytes
  | shiftJis => exact neutral_shiftJis s bytes
  | eucKr => exact neutral_eucKr s bytes
  | replacement => exact ⟨fun h => (by cases h), fun h => h.elim⟩
  | utf16Be => exact ⟨fun h => (by cases h), fun h => h.elim⟩
  | utf16Le => exact ⟨fun h => (by cases h), fun h => h.elim⟩
  | userDefined => exact ⟨fun _ => trivial, fun _ => rfl⟩

/-- the number the variant decoder of `v` answers with when it answers -/
def l1LenV : Gen.Variant → List Nat → Nat
  | .singleByte t _ _ _, bytes => singleByteL1 (Gen.singleByteTables.getD t #[]) bytes
  | .iso2022Jp, bytes => iso2022JpAsciiValidUpTo bytes
  | _, bytes => asciiValidUpTo bytes

theorem l1Variant_value (v : Gen.Variant) (s : (famOfVariant v).σ) (bytes : List Nat) (n : Nat)
    (h : l1Variant v s bytes = some n) : n = l1LenV v bytes := by
  cases v
  case singleByte t a b c => exact (Option.some.inj h).symm
  case userDefined => exact (Option.some.inj h).symm
  case replacement => cases h
  case utf16Be => cases h
  case utf16Le => cases h
  all_goals
    simp only [l1Variant] at h
    split at h
    · exact (Option.some.inj h).symm
    · cases h

/-- closed form of the variant-level answer -/
theorem l1Variant_answer (v : Gen.Variant) (s : (famOfVariant v).σ) (bytes : List Nat) :
    l1Variant v s bytes = if NeutralSt v s then some (l1LenV v bytes) else none := by
  by_cases hN : NeutralSt v s
  · rw [if_pos hN]
    have h := (l1Variant_isSome_iff v s bytes).2 hN
    cases hv : l1Variant v s bytes with
    | none => rw [hv] at h; cases h
    | some n => rw [l1Variant_value v s bytes n hv]
  · rw [if_neg hN]
    cases hv : l1Variant v s bytes with
    | none => rfl
    | some n => exact absurd ((l1Variant_isSome_iff v s bytes).1 (by rw [hv]; rfl)) hN

/-- neutrality of whichever decoder is current: the nominal one in its neutral state, or the
UTF-8 decoder a BOM switched to with no sequence pending; the UTF-16 decoders never -/
def NeutralCur (v : Gen.Variant) : Cur (famOfVariant v) → Prop
  | .nominal s => NeutralSt v s
  | .utf8 s => Utf8St.needed s = 0
  | .utf16be _ => False
  | .utf16le _ => False

instance NeutralCur.dec (v : Gen.Variant) : (c : Cur (famOfVariant v)) → Decidable (NeutralCur v c)
  | .nominal s => NeutralSt.dec v s
  | .utf8 s => inferInstanceAs (Decidable (Utf8St.needed s = 0))
  | .utf16be _ => isFalse id
  | .utf16le _ => isFalse id

/-- **the neutral decoder**: the BOM life cycle is over and not finished (`Converting`: no BOM
byte withheld, no `BB` pending, not waiting for the start of the stream, not finished) and the
current variant decoder is in its neutral state -/
def Neutral (v : Gen.Variant) (d : Decoder (famOfVariant v)) : Prop :=
  d.life = .converting ∧ NeutralCur v d.cur

instance Neutral.dec (v : Gen.Variant) (d : Decoder (famOfVariant v)) : Decidable (Neutral v d) :=
  inferInstanceAs (Decidable (_ ∧ _))

/-- the number a neutral decoder answers with -/
def l1Len (v : Gen.Variant) : Cur (famOfVariant v) → List Nat → Nat
  | .nominal _, bytes => l1LenV v bytes
  | _, bytes => asciiValidUpTo bytes

theorem l1_value (v : Gen.Variant) (d : Decoder (famOfVariant v)) (bytes : List Nat) (hN : Neutral v d) :
    Decoder.l1 v d bytes = some (l1Len v d.cur bytes) := by
  obtain ⟨life, cur⟩ := d
  obtain ⟨hl, hc⟩ := hN
  simp only at hl hc
  subst hl
  cases cur with
  | nominal s =>
    have hc' : NeutralSt v s := hc
    exact (l1Variant_answer v s bytes).trans (if_pos hc')
  | utf8 s =>
    have hc' : NeutralSt .utf8 s := hc
    exact (l1Variant_answer .utf8 s bytes).trans (if_pos hc')
  | utf16be s => exact hc.elim
  | utf16le s => exact hc.elim

theorem l1_none_of_not_neutral (v : Gen.Variant) (d : Decoder (famOfVariant v)) (bytes : List Nat)
    (hN : ¬ Neutral v d) : Decoder.l1 v d bytes = none := by
  by_cases hl : d.life = .converting
  · obtain ⟨life, cur⟩ := d
    simp only at hl
    subst hl
    have hc : ¬ NeutralCur v cur := fun h => hN ⟨rfl, h⟩
    cases cur with
    | nominal s =>
      have hc' : ¬ NeutralSt v s := hc
      exact (l1Variant_answer v s bytes).trans (if_neg hc')
    | utf8 s =>
      have hc' : ¬ NeutralSt .utf8 s := hc
      exact (l1Variant_answer .utf8 s bytes).trans (if_neg hc')
    | utf16be s => rfl
    | utf16le s => rfl
  · exact l1_none_lifecycle v d bytes hl

/-- **C19 (`l1_answer`)**: the answer of `Decoder::latin1_byte_compatible_up_to` in closed form,
for every variant, every life-cycle state and every state of the current variant decoder:
`Some` of the exact prefix length when the decoder is neutral, `None` in every other state
(a BOM byte withheld, `BB` pending, at the start of the stream, finished, a UTF-16 decoder
current after a BOM switch, nominal UTF-16 / replacement, a lead byte or partial sequence
pending, ISO-2022-JP outside its ASCII state or with an escape sequence half read). -/
theorem l1_answer (v : Gen.Variant) (d : Decoder (famOfVariant v)) (bytes : List Nat) :
    Decoder.l1 v d bytes = if Neutral v d then some (l1Len v d.cur bytes) else none := by
  by_cases hN : Neutral v d
  · rw [if_pos hN]; exact l1_value v d bytes hN
  · rw [if_neg hN]; exact l1_none_of_not_neutral v d bytes hN

theorem l1_some_iff (v : Gen.Variant) (d : Decoder (famOfVariant v)) (bytes : List Nat) :
    (Decoder.l1 v d bytes).isSome = true ↔ Neutral v d := by
  rw [l1_answer]
  by_cases hN : Neutral v d
  · rw [if_pos hN]; exact ⟨fun _ => hN, fun _ => rfl⟩
  · rw [if_neg hN]; exact ⟨fun h => (by cases h), fun h => absurd h hN⟩

theorem l1_none_iff (v : Gen.Variant) (d : Decoder (famOfVariant v)) (bytes : List Nat) :
    Decoder.l1 v d bytes = none ↔ ¬ Neutral v d := by
  rw [l1_answer]
  by_cases hN : Neutral v d
  · rw [if_pos hN]; exact ⟨fun h => (by cases h), fun h => absurd hN h⟩
  · rw [if_neg hN]; exact ⟨fun _ => hN, fun _ => rfl⟩

/-- an answer `some n` means: neutral, and `n` is the closed-form length -/
theorem l1_eq_some_iff (v : Gen.Variant) (d : Decoder (famOfVariant v)) (bytes : List Nat) (n : Nat) :
    Decoder.l1 v d bytes = some n ↔ Neutral v d ∧ n = l1Len v d.cur bytes := by
  rw [l1_answer]
  by_cases hN : Neutral v d
  · rw [if_pos hN]
    exact ⟨fun h => ⟨hN, (Option.some.inj h).symm⟩, fun h => by rw [h.2]⟩
  · rw [if_neg hN]
    exact ⟨fun h => (by cases h), fun h => absurd h.1 hN⟩

/-! ### `l1_sound`: what the answer means for the caller -/

/-- the bytes the query of variant `v` counts -/
def passP : Gen.Variant → Nat → Bool
  | .singleByte t _ _ _ => fun b => decide (b < 0x80 ∨ (Gen.singleByteTables.getD t #[]).getD (b - 0x80) 0 = b)
  | .iso2022Jp => fun b => decide (b < 0x80 ∧ b ≠ 0x0E ∧ b ≠ 0x0F ∧ b ≠ 0x1B)
  | _ => fun b => decide (b < 0x80)

theorem l1LenV_eq (v : Gen.Variant) (bytes : List Nat) : l1LenV v bytes = upTo (passP v) bytes := by
  cases v
  case singleByte t a b c => exact singleByteL1_eq _ bytes
  case iso2022Jp => exact iso2022JpAsciiValidUpTo_eq bytes
  all_goals exact asciiValidUpTo_eq bytes

/-- the bytes counted for whichever decoder is current -/
def passCur (v : Gen.Variant) : Cur (famOfVariant v) → Nat → Bool
  | .nominal _ => passP v
  | _ => fun b => decide (b < 0x80)

theorem l1Len_eq (v : Gen.Variant) (c : Cur (famOfVariant v)) (bytes : List Nat) :
    l1Len v c bytes = upTo (passCur v c) bytes := by
  cases c
  case nominal s => exact l1LenV_eq v bytes
  all_goals exact asciiValidUpTo_eq bytes

/-- every byte of the counted prefix satisfies the predicate -/
theorem upTo_take_pass (P : Nat → Bool) (bytes : List Nat) : ∀ x ∈ bytes.take (upTo P bytes), P x = true := by
  induction bytes with
  | nil => intro x hx; simp [upTo] at hx
  | cons b r ih =>
    intro x hx
    simp only [upTo] at hx
    by_cases hb : P b = true
    · simp only [hb, if_true, List.take_succ_cons, List.mem_cons] at hx
      cases hx with
      | inl h => rw [h]; exact hb
      | inr h => exact ih x h
    · simp [hb] at hx

theorem singleByte_pass0 (t : Array Nat) (b : Nat) (h : b < 0x80 ∨ t.getD (b - 0x80) 0 = b) :
    (singleByteFam t).feed () b = ⟨(), [b], none, false⟩ := by
  by_cases h0 : b = 0
  · subst h0
    show singleByteFeed t () 0 = _
    simp [singleByteFeed, FeedRes.ok]; rfl
  · exact singleByte_pass t b h h0

/-- UTF-8 with no sequence pending passes ASCII through and stays put, whatever the other fields hold -/
theorem utf8_pass_needed (s : Utf8St) (hn : s.needed = 0) (b : Nat) (h : b < 0x80) :
    utf8Fam.feed s b = ⟨s, [b], none, false⟩ := by
  show utf8Feed s b = _
  simp [utf8Feed, hn, h, FeedRes.ok]; rfl

/-- **in a neutral state every counted byte is passed through as the scalar value equal to the
byte, without error, and the state does not change** — uniformly for the 13 variants -/
theorem neutral_pass (v : Gen.Variant) (s : (famOfVariant v).σ) (hn : NeutralSt v s) :
    (famOfVariant v).pend s = none ∧
    ∀ b, passP v b = true → (famOfVariant v).feed s b = ⟨s, [b], none, false⟩ := by
  cases v with
  | singleByte t a b c =>
    exact ⟨rfl, fun x hx => singleByte_pass0 _ x (of_decide_eq_true hx)⟩
  | utf8 => exact ⟨rfl, fun x hx => utf8_pass_needed s hn x (of_decide_eq_true hx)⟩
  | gbk =>
    have hs : s = gbInit := hn
    subst hs
    exact ⟨rfl, fun x hx => gb_pass x (of_decide_eq_true hx)⟩
  | gb18030 =>
    have hs : s = gbInit := hn
    subst hs
    exact ⟨rfl, fun x hx => gb_pass x (of_decide_eq_true hx)⟩
  | big5 =>
    have hs : s = none := hn
    subst hs
    exact ⟨rfl, fun x hx => twoByte_pass _ _ _ x (of_decide_eq_true hx)⟩
  | eucJp =>
    have hs : s = EucJpSt.none := hn
    subst hs
    exact ⟨rfl, fun x hx => eucJp_pass x (of_decide_eq_true hx)⟩
  | iso2022Jp =>
    have hs : s = isoInit := hn
    subst hs
    exact ⟨rfl, fun x hx => iso_pass x (of_decide_eq_true hx)⟩
  | shiftJis =>
    have hs : s = none := hn
    subst hs
    exact ⟨rfl, fun x hx => twoByte_pass _ _ _ x (of_decide_eq_true hx)⟩
  | eucKr =>
    have hs : s = none := hn
    subst hs
    exact ⟨rfl, fun x hx => twoByte_pass _ _ _ x (of_decide_eq_true hx)⟩
  | replacement => exact hn.elim
  | utf16Be => exact hn.elim
  | utf16Le => exact hn.elim
  | userDefined => exact ⟨rfl, fun x hx => userDefined_pass x (of_decide_eq_true hx)⟩

/-- one step of whichever decoder is current passes the byte through unchanged and stays put -/
def CurPasses {F : Fam} : Cur F → Nat → Prop
  | .nominal s, b => F.feed s b = ⟨s, [b], none, false⟩
  | .utf8 s, b => utf8Fam.feed s b = ⟨s, [b], none, false⟩
  | .utf16be s, b => (utf16Fam true).feed s b = ⟨s, [b], none, false⟩
  | .utf16le s, b => (utf16Fam false).feed s b = ⟨s, [b], none, false⟩

/-- no delayed output is owed by whichever decoder is current -/
def CurNoPend {F : Fam} : Cur F → Prop
  | .nominal s => F.pend s = none
  | .utf8 s => utf8Fam.pend s = none
  | .utf16be s => (utf16Fam true).pend s = none
  | .utf16le s => (utf16Fam false).pend s = none

theorem neutralCur_pass (v : Gen.Variant) (c : Cur (famOfVariant v)) (hn : NeutralCur v c) :
    CurNoPend c ∧ ∀ b, passCur v c b = true → CurPasses c b := by
  cases c with
  | nominal s => exact neutral_pass v s hn
  | utf8 s => exact ⟨rfl, fun x hx => utf8_pass_needed s hn x (of_decide_eq_true hx)⟩
  | utf16be s => exact hn.elim
  | utf16le s => exact hn.elim

/-- generic: the three facts of `AsciiRunSpec` for an arbitrary pass-through predicate -/
theorem pass_run_spec (F : Fam) (s : F.σ) (P : Nat → Bool) (hp : F.pend s = none)
    (hP : ∀ b, P b = true → F.feed s b = ⟨s, [b], none, false⟩) (bytes rest : List Nat) (pos : Nat) :
    upTo P bytes ≤ bytes.length ∧
    ref F s (bytes.take (upTo P bytes) ++ rest) pos
      = (bytes.take (upTo P bytes)).map Ev.cp ++ ref F s rest (pos + upTo P bytes) ∧
    (upTo P bytes < bytes.length → ∃ b, bytes[upTo P bytes]? = some b ∧ P b = false) :=
  ⟨upTo_le _ _, prefix_identity F s P hp hP bytes rest pos, upTo_maximal P bytes⟩

/-- **C19 `l1_sound` (a), stream level**: if the decoder answers `some n` then `n ≤ bytes.length`,
what the decoder says (`dref`: BOM life cycle + current variant decoder, the reference
semantics the calls are proved sound against in C10) about any stream that starts with the
first `n` bytes is: exactly those `n` byte values as scalar values, no error, followed by what
the *same* decoder state `d` says about the rest; and `n` does not stop inside a run of counted
bytes. For all 13 variants and for the UTF-8 decoder after a BOM switch. -/
theorem l1_sound_ref (v : Gen.Variant) (d : Decoder (famOfVariant v)) (bytes : List Nat) (n : Nat)
    (h : Decoder.l1 v d bytes = some n) (rest : List Nat) (pos : Nat) :
    n ≤ bytes.length ∧
    Lemmas.Life.dref d (bytes.take n ++ rest) pos
      = (bytes.take n).map Ev.cp ++ Lemmas.Life.dref d rest (pos + n) ∧
    (n < bytes.length → ∃ b, bytes[n]? = some b ∧ passCur v d.cur b = false) := by
  obtain ⟨⟨hl, hc⟩, hn⟩ := (l1_eq_some_iff v d bytes n).1 h
  obtain ⟨life, cur⟩ := d
  simp only at hl hc hn
  subst hl
  rw [l1Len_eq] at hn
  subst hn
  obtain ⟨hp, hpass⟩ := neutralCur_pass v cur hc
  show _ ∧ Lemmas.Life.curRef cur _ _ = _ ++ Lemmas.Life.curRef cur _ _ ∧ _
  cases cur with
  | nominal s => exact pass_run_spec (famOfVariant v) s _ hp hpass bytes rest pos
  | utf8 s => exact pass_run_spec utf8Fam s _ hp hpass bytes rest pos
  | utf16be s => exact hc.elim
  | utf16le s => exact hc.elim

/-! #### call level -/

/-- the budgets under which a call over `n` pass-through bytes is not cut short by `OutputFull`:
no limit, or a limit of at least `n` steps -/
def Covers : Budget → Nat → Prop
  | .unlimited, _ => True
  | .full m, n => n ≤ m
  | .altAny, _ => False

/-- the main loop over a run of bytes each of which is passed through unchanged from a state it
does not change: everything is read and written, `InputEmpty`, same state -/
theorem run_pass (F : Fam) (k : Sink) (s : F.σ) (last : Bool) (heof : last = true → F.eof s = none) :
    ∀ (l : List Nat) (b : Budget), Covers b l.length →
      (∀ x ∈ l, F.feed s x = ⟨s, [x], none, false⟩) →
      run F k last s l b = ⟨.inputEmpty, l.length, l, s, 0⟩ := by
  intro l
  induction l with
  | nil =>
    intro b _ _
    cases last with
    | false => simp [run]
    | true => simp [run, heof rfl]
  | cons x r ih =>
    intro b hb hpass
    have hx := hpass x (List.mem_cons_self ..)
    have hstop : stopHere F k s x r b = none := by
      cases b with
      | unlimited => rfl
      | full m =>
        simp only [Covers, List.length_cons] at hb
        simp only [stopHere]
        rw [if_neg (by omega)]
      | altAny => exact hb.elim
    have hb' : Covers b.dec r.length := by
      cases b with
      | unlimited => trivial
      | full m =>
        simp only [Covers, Budget.dec, List.length_cons] at hb ⊢
        omega
      | altAny => exact hb.elim
    rw [run, hstop]
    simp only [hx]
    rw [ih b.dec hb' (fun y hy => hpass y (List.mem_cons_of_mem _ hy))]
    simp

theorem call_pass (F : Fam) (k : Sink) (s : F.σ) (l : List Nat) (last : Bool) (b : Budget)
    (hp : F.pend s = none) (heof : last = true → F.eof s = none)
    (hb : Covers b l.length) (hpass : ∀ x ∈ l, F.feed s x = ⟨s, [x], none, false⟩) :
    Model.call F k s l last b = ⟨.inputEmpty, l.length, l, s, 0⟩ := by
  unfold Model.call
  rw [hp]
  exact run_pass F k s last heof l b hb hpass

/-- whichever decoder is current has nothing to report at the end of the stream -/
def CurNoEof {F : Fam} : Cur F → Prop
  | .nominal s => F.eof s = none
  | .utf8 s => utf8Fam.eof s = none
  | .utf16be s => (utf16Fam true).eof s = none
  | .utf16le s => (utf16Fam false).eof s = none

theorem cur_call_pass {F : Fam} (k : Sink) (c : Cur F) (l : List Nat) (last : Bool) (b : Budget)
    (hp : CurNoPend c) (heof : last = true → CurNoEof c)
    (hb : Covers b l.length) (hpass : ∀ x ∈ l, CurPasses c x) :
    c.call k l last b = ⟨.inputEmpty, l.length, l, c, 0⟩ := by
  cases c with
  | nominal s => simp only [Cur.call, call_pass F k s l last b hp heof hb hpass]
  | utf8 s => simp only [Cur.call, call_pass utf8Fam k s l last b hp heof hb hpass]
  | utf16be s => simp only [Cur.call, call_pass (utf16Fam true) k s l last b hp heof hb hpass]
  | utf16le s => simp only [Cur.call, call_pass (utf16Fam false) k s l last b hp heof hb hpass]

/-- a neutral state has nothing to report at the end of the stream -/
theorem neutral_eof (v : Gen.Variant) (s : (famOfVariant v).σ) (hn : NeutralSt v s) :
    (famOfVariant v).eof s = none := by
  cases v with
  | singleByte t a b c => rfl
  | utf8 =>
    have hn' : Utf8St.needed s = 0 := hn
    show (if Utf8St.needed s ≠ 0 then _ else none) = none
    rw [if_neg (fun h => h hn')]
  | gbk => have hs : s = gbInit := hn; subst hs; rfl
  | gb18030 => have hs : s = gbInit := hn; subst hs; rfl
  | big5 => have hs : s = none := hn; subst hs; rfl
  | eucJp => have hs : s = EucJpSt.none := hn; subst hs; rfl
  | iso2022Jp => have hs : s = isoInit := hn; subst hs; rfl
  | shiftJis => have hs : s = none := hn; subst hs; rfl
  | eucKr => have hs : s = none := hn; subst hs; rfl
  | replacement => exact hn.elim
  | utf16Be => exact hn.elim
  | utf16Le => exact hn.elim
  | userDefined => rfl

theorem neutralCur_eof (v : Gen.Variant) (c : Cur (famOfVariant v)) (hn : NeutralCur v c) : CurNoEof c := by
  cases c with
  | nominal s => exact neutral_eof v s hn
  | utf8 s => exact neutral_eof .utf8 s hn
  | utf16be s => exact hn.elim
  | utf16le s => exact hn.elim

/-- **C19 `l1_sound` (b), call level**: if the decoder answers `some n`, then the raw
(`*_without_replacement`) call that is handed exactly the first `n` bytes (not `last`; any sink;
any stop policy that is not cut short by the output buffer, `Covers`) reads all `n` bytes, writes
exactly those `n` byte values as scalar values, returns `InputEmpty` — no error — in one inner
call, and **leaves the decoder in the state `d` it was in**. -/
theorem l1_sound_call (v : Gen.Variant) (d : Decoder (famOfVariant v)) (bytes : List Nat) (n : Nat)
    (h : Decoder.l1 v d bytes = some n) (k : Sink) (b1 b2 : Budget) (hb : Covers b2 n) :
    Decoder.rawCall k d (bytes.take n) false b1 b2
      = .ok .inputEmpty n (bytes.take n) d [(bytes.take n, .inputEmpty, 0)] := by
  obtain ⟨⟨hl, hc⟩, hn⟩ := (l1_eq_some_iff v d bytes n).1 h
  obtain ⟨life, cur⟩ := d
  simp only at hl hc hn
  subst hl
  rw [l1Len_eq] at hn
  obtain ⟨hp, hpass⟩ := neutralCur_pass v cur hc
  have hlen : (bytes.take n).length = n := by
    rw [List.length_take]; apply Nat.min_eq_left; rw [hn]; exact upTo_le _ _
  have hall : ∀ x ∈ bytes.take n, CurPasses cur x := by
    intro x hx; rw [hn] at hx; exact hpass x (upTo_take_pass _ bytes x hx)
  have hcall := cur_call_pass k cur (bytes.take n) false b2 hp (fun h => by cases h) (by rw [hlen]; exact hb) hall
  show checkingEnd k cur (bytes.take n) false b2 0 [] [] = _
  unfold checkingEnd
  simp only [List.drop_zero, hcall, hlen, Bool.false_eq_true, false_and, if_false, Nat.add_zero,
    List.nil_append]

/-- the same call with `last = true` (the first `n` bytes are the end of the stream): identical
result, nothing is reported at the end of the stream, and the only change to the decoder is that
its life cycle is `Finished` — the variant decoder is still in the same state -/
theorem l1_sound_call_last (v : Gen.Variant) (d : Decoder (famOfVariant v)) (bytes : List Nat) (n : Nat)
    (h : Decoder.l1 v d bytes = some n) (k : Sink) (b1 b2 : Budget) (hb : Covers b2 n) :
    Decoder.rawCall k d (bytes.take n) true b1 b2
      = .ok .inputEmpty n (bytes.take n) ⟨.finished, d.cur⟩ [(bytes.take n, .inputEmpty, 0)] := by
  obtain ⟨⟨hl, hc⟩, hn⟩ := (l1_eq_some_iff v d bytes n).1 h
  obtain ⟨life, cur⟩ := d
  simp only at hl hc hn
  subst hl
  rw [l1Len_eq] at hn
  obtain ⟨hp, hpass⟩ := neutralCur_pass v cur hc
  have hlen : (bytes.take n).length = n := by
    rw [List.length_take]; apply Nat.min_eq_left; rw [hn]; exact upTo_le _ _
  have hall : ∀ x ∈ bytes.take n, CurPasses cur x := by
    intro x hx; rw [hn] at hx; exact hpass x (upTo_take_pass _ bytes x hx)
  have hcall := cur_call_pass k cur (bytes.take n) true b2 hp (fun _ => neutralCur_eof v cur hc)
    (by rw [hlen]; exact hb) hall
  show checkingEnd k cur (bytes.take n) true b2 0 [] [] = _
  unfold checkingEnd
  simp only [List.drop_zero, hcall, hlen, and_self, if_true, Nat.add_zero, List.nil_append]

/-! #### maximality in the semantic sense: byte `n` is not passed through

The Rust documentation promises "the index of the first byte whose unsigned value doesn't
directly correspond to the decoded Unicode scalar value". That is true of every variant with
one exception: Shift_JIS decodes the byte `0x80` to U+0080 and stays neutral
(`shiftJis_0x80_passes`), but the answer is the length of the ASCII run, so it stops at a
`0x80` (`shiftJis_0x80_answer`). The answer is then a lower bound (still sound: `l1_sound_ref`,
`l1_sound_call`), not the exact index. -/

theorem ne_pass_of_out {σ : Type} (r : FeedRes σ) (s : σ) (b : Nat) (h : r.out ≠ [b]) :
    r ≠ ⟨s, [b], none, false⟩ := fun e => h (by rw [e])

/-- a leaf `.ok st out` / `.bad …` of a feed function whose output is not `[b]` -/
local macro "stop_leaf" : tactic =>
  `(tactic| (apply ne_pass_of_out; simp [FeedRes.ok, FeedRes.bad] <;> omega))

theorem singleByte_stop (t : Array Nat) (b : Nat) (h1 : ¬ b < 0x80) (h2 : t.getD (b - 0x80) 0 ≠ b) :
    singleByteFeed t () b ≠ ⟨(), [b], none, false⟩ := by
  unfold singleByteFeed
  rw [if_neg h1]
  apply ne_pass_of_out
  show (if t.getD (b - 0x80) 0 = 0 then FeedRes.bad () 1 0 else FeedRes.ok () [t.getD (b - 0x80) 0]).out ≠ [b]
  split
  · intro hc; cases hc
  · intro hc; exact h2 (List.cons.inj hc).1

theorem utf8_stop (s : Utf8St) (hn : s.needed = 0) (b : Nat) (h : ¬ b < 0x80) :
    utf8Feed s b ≠ ⟨s, [b], none, false⟩ := by
  unfold utf8Feed
  rw [if_pos hn, if_neg h]
  repeat' split
  all_goals stop_leaf

theorem gb_stop (b : Nat) (h : ¬ b < 0x80) : gbFeed gbInit b ≠ ⟨gbInit, [b], none, false⟩ := by
  unfold gbFeed
  simp only [gbInit]
  rw [if_neg h]
  repeat' split
  all_goals stop_leaf

theorem twoByte_stop (lf : Nat → LeadRes) (tf : Nat → Nat → TrailRes) (a : Bool) (b : Nat) (h : ¬ b < 0x80)
    (hl : lf b ≠ .out b) : (twoByteFam lf tf a).feed none b ≠ ⟨none, [b], none, false⟩ := by
  show twoByteFeed lf tf none b ≠ _
  simp only [twoByteFeed]
  rw [if_neg h]
  cases hlb : lf b with
  | lead l => stop_leaf
  | out c =>
    intro he
    have hc : [c] = [b] := congrArg FeedRes.out he
    rw [(List.cons.inj hc).1] at hlb
    exact hl hlb
  | bad => stop_leaf

theorem big5Lead_ne_out (b : Nat) : big5Lead b ≠ .out b := by
  unfold big5Lead; simp only []; split <;> (intro h; cases h)

theorem eucKrLead_ne_out (b : Nat) : eucKrLead b ≠ .out b := by
  unfold eucKrLead; simp only []; split <;> (intro h; cases h)

theorem shiftJisLead_ne_out (b : Nat) (h80 : b ≠ 0x80) (hb : b < 256) : shiftJisLead b ≠ .out b := by
  unfold shiftJisLead
  simp only []
  repeat' split
  all_goals intro h
  all_goals first
    | (injection h with h; omega)
    | cases h

theorem eucJp_stop (b : Nat) (h : ¬ b < 0x80) :
    eucJpFeed EucJpSt.none b ≠ ⟨EucJpSt.none, [b], none, false⟩ := by
  unfold eucJpFeed
  simp only []
  rw [if_neg h]
  repeat' split
  all_goals stop_leaf

theorem iso_stop (b : Nat) (h : ¬ (b < 0x80 ∧ b ≠ 0x0E ∧ b ≠ 0x0F ∧ b ≠ 0x1B)) :
    isoFeed isoInit b ≠ ⟨isoInit, [b], none, false⟩ := by
  unfold isoFeed
  simp only [isoInit]
  split
  · stop_leaf
  · rename_i h1
    have h2 : b > 0x7F ∨ b = 0x0E ∨ b = 0x0F := by omega
    rw [if_pos h2]
    stop_leaf

theorem userDefined_stop (b : Nat) (h : ¬ b < 0x80) :
    userDefinedFeed () b ≠ ⟨(), [b], none, false⟩ := by
  unfold userDefinedFeed
  rw [if_neg h]
  stop_leaf

/-- Shift_JIS: the byte 0x80 decodes to U+0080 and leaves the decoder neutral … -/
theorem shiftJis_0x80_passes : shiftJisFam.feed none 0x80 = ⟨none, [0x80], none, false⟩ := by
  show twoByteFeed shiftJisLead shiftJisTrail none 0x80 = _
  simp [twoByteFeed, shiftJisLead, wsub8, FeedRes.ok]; rfl

/-- … but the answer stops at it: the one case in which the answer is not the index of the first
byte that decodes to something other than its own value -/
theorem shiftJis_0x80_answer (pre : List Nat) :
    Decoder.l1 .shiftJis ⟨.converting, .nominal none⟩ (0x61 :: 0x80 :: pre) = some 1 := rfl

/-- **in a neutral state the first byte that is not counted is not passed through** (it is an
error, a lead byte, or decodes to another scalar value) — for every variant, except for the
byte 0x80 of Shift_JIS -/
theorem neutral_stop (v : Gen.Variant) (s : (famOfVariant v).σ) (hn : NeutralSt v s) (b : Nat)
    (hb : passP v b = false) :
    (famOfVariant v).feed s b ≠ ⟨s, [b], none, false⟩ ∨ (v = .shiftJis ∧ (b = 0x80 ∨ 256 ≤ b)) := by
  cases v with
  | singleByte t a b' c =>
    have h : ¬ (b < 0x80 ∨ (Gen.singleByteTables.getD t #[]).getD (b - 0x80) 0 = b) := of_decide_eq_false hb
    exact Or.inl (singleByte_stop _ b (fun h1 => h (Or.inl h1)) (fun h2 => h (Or.inr h2)))
  | utf8 => exact Or.inl (utf8_stop s hn b (of_decide_eq_false hb))
  | gbk =>
    have hs : s = gbInit := hn
    subst hs
    exact Or.inl (gb_stop b (of_decide_eq_false hb))
  | gb18030 =>
    have hs : s = gbInit := hn
    subst hs
    exact Or.inl (gb_stop b (of_decide_eq_false hb))
  | big5 =>
    have hs : s = none := hn
    subst hs
    exact Or.inl (twoByte_stop _ _ _ b (of_decide_eq_false hb) (big5Lead_ne_out b))
  | eucJp =>
    have hs : s = EucJpSt.none := hn
    subst hs
    exact Or.inl (eucJp_stop b (of_decide_eq_false hb))
  | iso2022Jp =>
    have hs : s = isoInit := hn
    subst hs
    exact Or.inl (iso_stop b (of_decide_eq_false hb))
  | shiftJis =>
    have hs : s = none := hn
    subst hs
    by_cases hx : b = 0x80 ∨ 256 ≤ b
    · exact Or.inr ⟨rfl, hx⟩
    · exact Or.inl (twoByte_stop _ _ _ b (of_decide_eq_false hb) (shiftJisLead_ne_out b (by omega) (by omega)))
  | eucKr =>
    have hs : s = none := hn
    subst hs
    exact Or.inl (twoByte_stop _ _ _ b (of_decide_eq_false hb) (eucKrLead_ne_out b))
  | replacement => exact hn.elim
  | utf16Be => exact hn.elim
  | utf16Le => exact hn.elim
  | userDefined => exact Or.inl (userDefined_stop b (of_decide_eq_false hb))

theorem neutralCur_stop (v : Gen.Variant) (c : Cur (famOfVariant v)) (hn : NeutralCur v c) (b : Nat)
    (hb : passCur v c b = false) :
    ¬ CurPasses c b ∨ (v = .shiftJis ∧ (b = 0x80 ∨ 256 ≤ b)) := by
  cases c with
  | nominal s => exact neutral_stop v s hn b hb
  | utf8 s => exact Or.inl (utf8_stop s hn b (of_decide_eq_false hb))
  | utf16be s => exact hn.elim
  | utf16le s => exact hn.elim

/-- **C19 `l1_sound`, exactness**: if the decoder answers `some n`, each of the first `n` bytes,
fed to the current decoder, is passed through as the scalar value equal to the byte and leaves
the state unchanged; and byte `n`, if there is one, is not — it is the first byte that does not
decode to its own value — with the one exception of Shift_JIS's 0x80 (`shiftJis_0x80_passes`). -/
theorem l1_sound_exact (v : Gen.Variant) (d : Decoder (famOfVariant v)) (bytes : List Nat) (n : Nat)
    (h : Decoder.l1 v d bytes = some n) :
    (∀ x ∈ bytes.take n, CurPasses d.cur x) ∧
    (n < bytes.length → ∃ b, bytes[n]? = some b ∧
      (¬ CurPasses d.cur b ∨ (v = .shiftJis ∧ (b = 0x80 ∨ 256 ≤ b)))) := by
  obtain ⟨⟨_, hc⟩, hn⟩ := (l1_eq_some_iff v d bytes n).1 h
  rw [l1Len_eq] at hn
  subst hn
  refine ⟨fun x hx => (neutralCur_pass v d.cur hc).2 x (upTo_take_pass _ bytes x hx), fun hlt => ?_⟩
  obtain ⟨b, hb, hP⟩ := upTo_maximal _ bytes hlt
  exact ⟨b, hb, neutralCur_stop v d.cur hc b hP⟩

/-! Non-vacuity -/
example : singleByteL1 (Gen.singleByteTables.getD 19 #[]) [0x61, 0xE9, 0x62, 0x80, 0x63] = 3 := by decide +kernel
example : asciiValidUpTo [0x61, 0x62, 0xE9] = 2 := by decide
example : iso2022JpAsciiValidUpTo [0x61, 0x1B, 0x62] = 1 := by decide

/-- `l1_answer`: a neutral Shift_JIS decoder answers, one with a lead byte pending does not, one
that is still waiting for a BOM does not, one a BOM switched to UTF-16 does not -/
example : Decoder.l1 .shiftJis ⟨.converting, .nominal none⟩ [0x61, 0x62, 0xE9] = some 2 := rfl
example : Neutral .shiftJis ⟨.converting, .nominal none⟩ := ⟨rfl, rfl⟩
example : ¬ Neutral .shiftJis ⟨.converting, .nominal (some 3)⟩ := fun h => by cases h.2
example : ¬ Neutral .shiftJis ⟨.seenUtf8First, .nominal none⟩ := fun h => by cases h.1
example : ¬ Neutral .shiftJis ⟨.converting, .utf16be utf16Init⟩ := fun h => h.2
example : Decoder.l1 .shiftJis ⟨.converting, .nominal (some 3)⟩ [0x61] = none :=
  (l1_none_iff _ _ _).2 (fun h => by cases h.2)
example : Decoder.l1 .shiftJis ⟨.convertingWithPendingBB, .nominal none⟩ [0x61] = none :=
  (l1_none_iff _ _ _).2 (fun h => by cases h.1)

/-- `l1_sound_call` on a concrete decoder: the hypothesis is satisfiable and the conclusion is
what the model computes (`rfl`) -/
example : Decoder.rawCall .utf8 (⟨.converting, .nominal none⟩ : Decoder (famOfVariant .shiftJis))
      [0x61, 0x62] false .unlimited .unlimited
    = .ok .inputEmpty 2 [0x61, 0x62] ⟨.converting, .nominal none⟩ [([0x61, 0x62], .inputEmpty, 0)] :=
  l1_sound_call .shiftJis ⟨.converting, .nominal none⟩ [0x61, 0x62, 0xE9] 2 rfl .utf8 .unlimited .unlimited trivial

example : Decoder.rawCall .utf16 (⟨.converting, .nominal none⟩ : Decoder (famOfVariant .shiftJis))
      [0x61, 0x62] false .unlimited (.full 2)
    = .ok .inputEmpty 2 [0x61, 0x62] ⟨.converting, .nominal none⟩ [([0x61, 0x62], .inputEmpty, 0)] := rfl

/-- the same for windows-1252 (`0xE9` is é = U+00E9 and is counted, `0x80` is € and is not) and
for the UTF-8 decoder an `EF BB BF` switched a windows-1252 decoder to -/
example : Decoder.rawCall .utf8 (⟨.converting, .nominal ()⟩ : Decoder (famOfVariant (.singleByte 19 160 32 96)))
      ([0x61, 0xE9, 0x62, 0x80, 0x63].take 3) false .unlimited .unlimited
    = .ok .inputEmpty 3 [0x61, 0xE9, 0x62] ⟨.converting, .nominal ()⟩ [([0x61, 0xE9, 0x62], .inputEmpty, 0)] :=
  l1_sound_call (.singleByte 19 160 32 96) ⟨.converting, .nominal ()⟩ [0x61, 0xE9, 0x62, 0x80, 0x63] 3
    (congrArg some (by decide +kernel)) .utf8 .unlimited .unlimited trivial

example : Decoder.rawCall .utf8 (⟨.converting, .utf8 utf8Init⟩ : Decoder (famOfVariant (.singleByte 19 160 32 96)))
      ([0x61, 0xE9, 0x62].take 1) false .unlimited .unlimited
    = .ok .inputEmpty 1 [0x61] ⟨.converting, .utf8 utf8Init⟩ [([0x61], .inputEmpty, 0)] :=
  l1_sound_call (.singleByte 19 160 32 96) ⟨.converting, .utf8 utf8Init⟩ [0x61, 0xE9, 0x62] 1 rfl
    .utf8 .unlimited .unlimited trivial

/-- `l1_sound_ref` is not vacuous either: its third conjunct on a concrete input -/
example : ∃ b, [0x61, 0x62, 0xE9][2]? = some b ∧
    passCur .shiftJis (.nominal none : Cur (famOfVariant .shiftJis)) b = false :=
  (l1_sound_ref .shiftJis ⟨.converting, .nominal none⟩ [0x61, 0x62, 0xE9] 2 rfl [] 0).2.2 (by decide)

end EncodingRs.Thm.C19
