import EncodingRs.Model.L1
import EncodingRs.Lemmas.FamLaws
import EncodingRs.Lemmas.Life
/-!
# C19 — `latin1_byte_compatible_up_to` is exact and does not disturb the decoder
-/
namespace EncodingRs.Thm.C19
open EncodingRs EncodingRs.Model EncodingRs.Lemmas.Core EncodingRs.Lemmas.FamLaws

/-- number of leading bytes satisfying `P` -/
def upTo (P : Nat → Bool) : List Nat → Nat
  | [] => 0
  | b :: r => if P b then upTo P r + 1 else 0

theorem upTo_le (P : Nat → Bool) (l : List Nat) : upTo P l ≤ l.length := by
  induction l with
  | nil => exact Nat.le_refl _
  | cons b r ih => simp only [upTo]; split <;> simp <;> omega

/-- Generic core: if in state `s` (no delayed output) every byte satisfying `P`
is passed through as the scalar value equal to the byte and leaves the state
unchanged, then the first `upTo P bytes` bytes of any stream decode to exactly
their own values and the decoder is back in `s` afterwards. -/
theorem prefix_identity (F : Fam) (s : F.σ) (P : Nat → Bool) (hp : F.pend s = none)
    (hP : ∀ b, P b = true → F.feed s b = ⟨s, [b], none, false⟩) :
    ∀ (bytes rest : List Nat) (pos : Nat),
      ref F s (bytes.take (upTo P bytes) ++ rest) pos
        = (bytes.take (upTo P bytes)).map Ev.cp ++ ref F s rest (pos + upTo P bytes) := by
  intro bytes
  induction bytes with
  | nil => intro rest pos; simp [upTo]
  | cons b r ih =>
    intro rest pos
    simp only [upTo]
    by_cases hb : P b = true
    · simp only [hb, if_true, List.take_succ_cons, List.cons_append, List.map_cons]
      rw [ref_cons F s b _ pos hp, hP b hb]
      simp only [Bool.false_eq_true, if_false, List.map_cons, List.map_nil, errEv, List.append_nil,
        List.cons_append, List.nil_append]
      rw [ih rest (pos + 1)]
      simp only [Nat.add_assoc, Nat.add_comm 1]
    · simp [hb]

/-- the answer never stops short inside a run of bytes satisfying `P` -/
theorem upTo_maximal (P : Nat → Bool) (bytes : List Nat) (h : upTo P bytes < bytes.length) :
    ∃ b, bytes[upTo P bytes]? = some b ∧ P b = false := by
  induction bytes with
  | nil => simp at h
  | cons b r ih =>
    simp only [upTo] at h ⊢
    by_cases hb : P b = true
    · simp only [hb, if_true] at h ⊢
      simp only [List.length_cons] at h
      obtain ⟨x, hx, hpx⟩ := ih (by omega)
      exact ⟨x, by simpa using hx, hpx⟩
    · simp only [hb, Bool.false_eq_true, if_false]
      exact ⟨b, rfl, by simpa using hb⟩

theorem asciiValidUpTo_eq (l : List Nat) : asciiValidUpTo l = upTo (fun b => decide (b < 0x80)) l := by
  induction l with
  | nil => rfl
  | cons b r ih => simp only [asciiValidUpTo, upTo, ih, decide_eq_true_eq]

theorem iso2022JpAsciiValidUpTo_eq (l : List Nat) :
    iso2022JpAsciiValidUpTo l = upTo (fun b => decide (b < 0x80 ∧ b ≠ 0x0E ∧ b ≠ 0x0F ∧ b ≠ 0x1B)) l := by
  induction l with
  | nil => rfl
  | cons b r ih => simp only [iso2022JpAsciiValidUpTo, upTo, ih, decide_eq_true_eq]

theorem singleByteL1_eq (t : Array Nat) (l : List Nat) :
    singleByteL1 t l = upTo (fun b => decide (b < 0x80 ∨ t.getD (b - 0x80) 0 = b)) l := by
  induction l with
  | nil => rfl
  | cons b r ih => simp only [singleByteL1, upTo, ih, decide_eq_true_eq]

/-! ### per family: in a neutral state the qualifying bytes pass through unchanged -/

theorem singleByte_pass (t : Array Nat) (b : Nat) (h : b < 0x80 ∨ t.getD (b - 0x80) 0 = b) (hb0 : b ≠ 0) :
    (singleByteFam t).feed () b = ⟨(), [b], none, false⟩ := by
  show singleByteFeed t () b = _
  unfold singleByteFeed
  by_cases hlt : b < 0x80
  · simp [hlt, FeedRes.ok]; rfl
  · have he : t.getD (b - 0x80) 0 = b := by
      cases h with
      | inl h => exact absurd h hlt
      | inr h => exact h
    simp [hlt, he, hb0, FeedRes.ok]; rfl

theorem utf8_pass (b : Nat) (h : b < 0x80) : utf8Fam.feed utf8Init b = ⟨utf8Init, [b], none, false⟩ := by
  show utf8Feed utf8Init b = _
  simp [utf8Feed, utf8Init, h, FeedRes.ok]; rfl

theorem twoByte_pass (lf : Nat → LeadRes) (tf : Nat → Nat → TrailRes) (a : Bool) (b : Nat) (h : b < 0x80) :
    (twoByteFam lf tf a).feed none b = ⟨none, [b], none, false⟩ := by
  show twoByteFeed lf tf none b = _
  simp [twoByteFeed, h, FeedRes.ok]; rfl

theorem eucJp_pass (b : Nat) (h : b < 0x80) : eucJpFam.feed EucJpSt.none b = ⟨EucJpSt.none, [b], none, false⟩ := by
  show eucJpFeed EucJpSt.none b = _
  unfold eucJpFeed
  simp [h, FeedRes.ok]; rfl

theorem gb_pass (b : Nat) (h : b < 0x80) : gbFam.feed gbInit b = ⟨gbInit, [b], none, false⟩ := by
  show gbFeed gbInit b = _
  unfold gbFeed
  simp [gbInit, h, FeedRes.ok]; rfl

theorem userDefined_pass (b : Nat) (h : b < 0x80) : userDefinedFam.feed () b = ⟨(), [b], none, false⟩ := by
  show userDefinedFeed () b = _
  simp [userDefinedFeed, h, FeedRes.ok]; rfl

theorem iso_pass (b : Nat) (h : b < 0x80 ∧ b ≠ 0x0E ∧ b ≠ 0x0F ∧ b ≠ 0x1B) :
    iso2022JpFam.feed isoInit b = ⟨isoInit, [b], none, false⟩ := by
  show isoFeed isoInit b = _
  unfold isoFeed
  obtain ⟨h1, h2, h3, h4⟩ := h
  have : ¬ (b > 0x7F ∨ b = 0x0E ∨ b = 0x0F) := by omega
  simp [isoInit, h4, this, FeedRes.ok]; rfl

/-- **C19 (ASCII-run encodings)**: for UTF-8, the CJK multi-byte encodings and
x-user-defined in their neutral state the answer `n` is the length of the
leading ASCII run: the first `n` bytes decode to themselves and return to the
neutral state, and `n` is maximal. Instances of `prefix_identity`/`upTo_maximal`. -/
def AsciiRunSpec (F : Fam) (s : F.σ) : Prop :=
  ∀ (bytes rest : List Nat) (pos : Nat),
    let n := asciiValidUpTo bytes
    n ≤ bytes.length ∧
    ref F s (bytes.take n ++ rest) pos = (bytes.take n).map Ev.cp ++ ref F s rest (pos + n) ∧
    (n < bytes.length → ∃ b, bytes[n]? = some b ∧ ¬ b < 0x80)

theorem l1_ascii_run (F : Fam) (s : F.σ) (hp : F.pend s = none)
    (hpass : ∀ b, b < 0x80 → F.feed s b = ⟨s, [b], none, false⟩) : AsciiRunSpec F s := by
  intro bytes rest pos
  simp only [asciiValidUpTo_eq]
  refine ⟨upTo_le _ _, ?_, ?_⟩
  · exact prefix_identity F s _ hp (fun b hb => hpass b (by simpa using hb)) bytes rest pos
  · intro h
    obtain ⟨b, hb, hP⟩ := upTo_maximal _ bytes h
    exact ⟨b, hb, by simpa using hP⟩

theorem l1_utf8 : AsciiRunSpec utf8Fam utf8Init := l1_ascii_run utf8Fam utf8Init rfl utf8_pass
theorem l1_big5 : AsciiRunSpec big5Fam none := l1_ascii_run big5Fam none rfl (twoByte_pass _ _ _)
theorem l1_eucKr : AsciiRunSpec eucKrFam none := l1_ascii_run eucKrFam none rfl (twoByte_pass _ _ _)
theorem l1_shiftJis : AsciiRunSpec shiftJisFam none := l1_ascii_run shiftJisFam none rfl (twoByte_pass _ _ _)
theorem l1_eucJp : AsciiRunSpec eucJpFam EucJpSt.none := l1_ascii_run eucJpFam EucJpSt.none rfl eucJp_pass
theorem l1_gb : AsciiRunSpec gbFam gbInit := l1_ascii_run gbFam gbInit rfl gb_pass
theorem l1_userDefined : AsciiRunSpec userDefinedFam () := l1_ascii_run userDefinedFam () rfl userDefined_pass

/-- **C19 (ISO-2022-JP)**: in the neutral state the run of ASCII bytes other than 0x0E, 0x0F, ESC -/
theorem l1_iso2022jp (bytes rest : List Nat) (pos : Nat) :
    let n := iso2022JpAsciiValidUpTo bytes
    n ≤ bytes.length ∧
    ref iso2022JpFam isoInit (bytes.take n ++ rest) pos
      = (bytes.take n).map Ev.cp ++ ref iso2022JpFam isoInit rest (pos + n) ∧
    (n < bytes.length → ∃ b, bytes[n]? = some b ∧ ¬ (b < 0x80 ∧ b ≠ 0x0E ∧ b ≠ 0x0F ∧ b ≠ 0x1B)) := by
  simp only [iso2022JpAsciiValidUpTo_eq]
  refine ⟨upTo_le _ _, ?_, ?_⟩
  · exact prefix_identity iso2022JpFam isoInit _ rfl (fun b hb => iso_pass b (by simpa using hb)) bytes rest pos
  · intro h
    obtain ⟨b, hb, hP⟩ := upTo_maximal _ bytes h
    exact ⟨b, hb, by simpa using hP⟩

/-- **C19 (single-byte encodings)**: byte `n` is precisely the first byte that
decodes to something other than its own value (for tables without a zero
entry at a position that would "equal" byte 0 — bytes are ≥ 0x80 there, so the
side condition `b ≠ 0` only excludes the ASCII NUL, which passes through). -/
theorem l1_single_byte (t : Array Nat) (bytes rest : List Nat) (pos : Nat) :
    let n := singleByteL1 t bytes
    n ≤ bytes.length ∧
    ref (singleByteFam t) () (bytes.take n ++ rest) pos
      = (bytes.take n).map Ev.cp ++ ref (singleByteFam t) () rest (pos + n) ∧
    (n < bytes.length → ∃ b, bytes[n]? = some b ∧ ¬ b < 0x80 ∧ t.getD (b - 0x80) 0 ≠ b) := by
  simp only [singleByteL1_eq]
  refine ⟨upTo_le _ _, ?_, ?_⟩
  · apply prefix_identity (singleByteFam t) () _ rfl
    intro b hb
    have hb' : b < 0x80 ∨ t.getD (b - 0x80) 0 = b := by simpa using hb
    by_cases h0 : b = 0
    · subst h0
      show singleByteFeed t () 0 = _
      simp [singleByteFeed, FeedRes.ok]; rfl
    · exact singleByte_pass t b hb' h0
  · intro h
    obtain ⟨b, hb, hP⟩ := upTo_maximal _ bytes h
    refine ⟨b, hb, ?_⟩
    have : ¬ (b < 0x80 ∨ t.getD (b - 0x80) 0 = b) := by simpa using hP
    exact ⟨fun h => this (Or.inl h), fun h => this (Or.inr h)⟩

/-- `None` exactly when the decoder is not converting, not neutral, or the encoding
is never byte-compatible: read off the model (the conditions are those of the
code; that they mean "mid-sequence" is `neutral_iff_init` below for each family). -/
theorem l1_none_lifecycle (v : Gen.Variant) (d : Decoder (famOfVariant v)) (bytes : List Nat)
    (h : d.life ≠ .converting) : Decoder.l1 v d bytes = none := by
  unfold Decoder.l1
  cases hl : d.life <;> simp_all

theorem l1_never_compatible (bytes : List Nat) :
    (∀ s, l1Variant .replacement s bytes = none) ∧ (∀ s, l1Variant .utf16Be s bytes = none)
      ∧ (∀ s, l1Variant .utf16Le s bytes = none) := ⟨fun _ => rfl, fun _ => rfl, fun _ => rfl⟩

/-- for the stateful families the neutrality test accepts exactly the initial state -/
theorem neutral_utf8 (s : Utf8St) (bytes : List Nat) :
    (l1Variant .utf8 s bytes).isSome = true ↔ s.needed = 0 := by
  simp only [l1Variant]; split <;> simp_all

theorem neutral_big5 (s : Option Nat) (bytes : List Nat) :
    (l1Variant .big5 s bytes).isSome = true ↔ s = none := by
  simp only [l1Variant]; cases s <;> simp

theorem neutral_gb (s : GbSt) (bytes : List Nat) :
    (l1Variant .gb18030 s bytes).isSome = true ↔ s = gbInit := by
  obtain ⟨p, pa⟩ := s
  simp only [l1Variant, gbInit]
  split
  · rename_i h; simp [h.1, h.2]
  · rename_i h
    simp only [Option.isSome_none, Bool.false_eq_true, false_iff]
    intro he; cases he; exact h ⟨rfl, rfl⟩

theorem neutral_iso (s : Iso2022JpSt) (bytes : List Nat) :
    (l1Variant .iso2022Jp s bytes).isSome = true ↔ s = isoInit := by
  obtain ⟨ds, os, l, f, p⟩ := s
  simp only [l1Variant, isoInit]
  split
  · rename_i h; obtain ⟨h1, h2, h3, h4, h5⟩ := h; simp_all
  · rename_i h
    simp only [Option.isSome_none, Bool.false_eq_true, false_iff]
    intro he; cases he; exact h ⟨rfl, rfl, rfl, rfl, rfl⟩

/-! ### the remaining variants: `Some` exactly in the neutral state, for all 13 -/

theorem neutral_gbk (s : GbSt) (bytes : List Nat) :
    (l1Variant .gbk s bytes).isSome = true ↔ s = gbInit := neutral_gb s bytes

theorem neutral_eucJp (s : EucJpSt) (bytes : List Nat) :
    (l1Variant .eucJp s bytes).isSome = true ↔ s = EucJpSt.none := by
  simp only [l1Variant]; cases s <;> simp

theorem neutral_shiftJis (s : Option Nat) (bytes : List Nat) :
    (l1Variant .shiftJis s bytes).isSome = true ↔ s = none := by
  simp only [l1Variant]; cases s <;> simp

theorem neutral_eucKr (s : Option Nat) (bytes : List Nat) :
    (l1Variant .eucKr s bytes).isSome = true ↔ s = none := by
  simp only [l1Variant]; cases s <;> simp

/-- the stateless compatible encodings always answer -/
theorem neutral_singleByte (t a b c : Nat) (s : Unit) (bytes : List Nat) :
    (l1Variant (.singleByte t a b c) s bytes).isSome = true := rfl

theorem neutral_userDefined (s : Unit) (bytes : List Nat) :
    (l1Variant .userDefined s bytes).isSome = true := rfl

/-- the never-compatible encodings never answer, whatever their state -/
theorem neutral_replacement (s : Bool) (bytes : List Nat) :
    (l1Variant .replacement s bytes).isSome = false := rfl

theorem neutral_utf16Be (s : Utf16St) (bytes : List Nat) :
    (l1Variant .utf16Be s bytes).isSome = false := rfl

theorem neutral_utf16Le (s : Utf16St) (bytes : List Nat) :
    (l1Variant .utf16Le s bytes).isSome = false := rfl

/-! Non-vacuity -/
example : singleByteL1 (Gen.singleByteTables.getD 19 #[]) [0x61, 0xE9, 0x62, 0x80, 0x63] = 3 := by decide +kernel
example : asciiValidUpTo [0x61, 0x62, 0xE9] = 2 := by decide
example : iso2022JpAsciiValidUpTo [0x61, 0x1B, 0x62] = 1 := by decide

end EncodingRs.Thm.C19
