import EncodingRs.Thm.C08Loop
import EncodingRs.Thm.C07Life
import EncodingRs.Thm.C10Full
/-!
# C08, decoder side — the caller loop over the public `Decoder` (BOM life cycle)

`Thm/C08Loop.lean` bounds the documented caller loop at the variant-decoder level.  Here the same for
`Model.Decoder.rawCall` (`decode_to_utf{8,16}_without_replacement` of a decoder made by
`new_decoder` / `new_decoder_with_bom_removal` / `new_decoder_without_bom_handling`):

* `DLifeLoop d stream n c`: the caller loop; every call that does not return `InputEmpty` had a
  destination of at least `minCap` and admissible inner calls (`C07.InnerAdmissible` = what the driver
  checks: the replay of withheld bytes first, then the call on the source).
* `rawCall_outputFull_wrote`: such a call that returns `OutputFull` wrote at least one character
  (also when the replay wrote nothing and the second inner call met a full destination).
* `life_calls_le_events`: `n ≤ |dref d stream| + c + 1` (by `C10.rawCall_sound_full`: no replay side
  condition), `dref_length_le`: `|dref d stream| ≤ |stream| + withheld + 5`.
* **`life_caller_loop_bound`**: from `Decoder.new`, all 40 encodings, three BOM modes:
  `calls ≤ bytes + chunks + 6`.
* `DLifeLoopPre` (every prefix of a run; no constructor requires that the call that ends the stream is
  ever reached), `life_prefix_calls_le_events`, **`life_caller_loop_prefix_bound`**,
  **`life_caller_loop_terminates`**: no prefix of a run has more than `bytes + chunks + 6` calls — the
  loop cannot go on for ever.  The theorems about complete loops are corollaries.
* Non-vacuity: a four-call run (Shift_JIS, sniffing, `FE 41 42 43 B1`) through a withheld byte, a
  `Malformed` replay, an admissible `OutputFull` and the final call, and a proper prefix of it.
-/
namespace EncodingRs.Thm.C08Loop
open EncodingRs EncodingRs.Model EncodingRs.Lemmas.Core EncodingRs.Lemmas.FamLaws EncodingRs.Lemmas.Life
open EncodingRs.Lemmas.LifeLeaf EncodingRs.Lemmas.MaxLenVariant EncodingRs.Lemmas.Potential
open EncodingRs.Thm.C08 EncodingRs.Thm.C10 EncodingRs.Thm.C07

/-! ### an `OutputFull` call wrote something -/

theorem cur_call_stopNeed_le {F : Fam} (hnb : NeedsBounded F) (k : Sink) (c : Cur F) (src : List Nat)
    (last : Bool) (b : Budget) : (c.call k src last b).stopNeed ≤ minCap k := by
  cases c with
  | nominal s => exact call_stopNeed_le F k hnb s src last b
  | utf8 s => exact call_stopNeed_le utf8Fam k (famOfVariant_needsBounded .utf8) s src last b
  | utf16be s => exact call_stopNeed_le (utf16Fam true) k (famOfVariant_needsBounded .utf16Be) s src last b
  | utf16le s => exact call_stopNeed_le (utf16Fam false) k (famOfVariant_needsBounded .utf16Le) s src last b

/-- what is claimed of a `Decoder` call result -/
def FullWrote {F : Fam} (k : Sink) (cap : Nat) : DRes F → Prop
  | .panic => True
  | .ok res _ out _ inner => res = .outputFull → InnerAdmissible k cap inner → 1 ≤ out.length

theorem checkingEnd_fullWrote0 {F : Fam} (hnb : NeedsBounded F) (k : Sink) (c : Cur F) (src : List Nat)
    (last : Bool) (b : Budget) (off cap : Nat) (hcap : minCap k ≤ cap) :
    FullWrote k cap (checkingEnd k c src last b off [] []) := by
  have hsn := cur_call_stopNeed_le hnb k c (src.drop off) last b
  unfold checkingEnd FullWrote
  generalize c.call k (src.drop off) last b = r at hsn
  simp only [List.nil_append]
  intro hres hadm
  have := hadm.1.2.1 hres
  simp only at this
  exact length_pos_of_units k _ (by omega)

theorem checkingEnd_fullWrote1 {F : Fam} (hnb : NeedsBounded F) (k : Sink) (c : Cur F) (src : List Nat)
    (last : Bool) (b : Budget) (cap : Nat) (hcap : minCap k ≤ cap) (x : List Nat × Res × Nat) :
    FullWrote k cap (checkingEnd k c src last b 0 [x] x.1) := by
  have hsn := cur_call_stopNeed_le hnb k c (src.drop 0) last b
  unfold checkingEnd FullWrote
  generalize c.call k (src.drop 0) last b = r at hsn
  simp only [List.singleton_append]
  intro hres hadm
  have h2 := hadm.2.1.2.1 hres
  simp only at h2
  have : 1 ≤ unitsOfList k (x.1 ++ r.out) := by
    rw [unitsOfList_append]; omega
  exact length_pos_of_units k _ this

theorem afterOne_fullWrote {F : Fam} (hnb : NeedsBounded F) (k : Sink) (c : Cur F) (src : List Nat)
    (last : Bool) (fb : Nat) (b1 b2 : Budget) (cap : Nat) (hcap : minCap k ≤ cap) :
    FullWrote k cap (afterOne k c src last fb b1 b2) := by
  have hsn := cur_call_stopNeed_le hnb k c [fb] false b1
  unfold afterOne
  generalize c.call k [fb] false b1 = r1 at hsn
  simp only
  split
  · exact checkingEnd_fullWrote1 hnb k r1.cur src last b2 cap hcap (r1.out, r1.res, r1.stopNeed)
  · intro h; cases h
  · rename_i hres
    split
    · intro _ hadm
      have := hadm.1.2.1 hres
      simp only at this
      exact length_pos_of_units k _ (by omega)
    · trivial

theorem afterTwo_fullWrote {F : Fam} (hnb : NeedsBounded F) (k : Sink) (c : Cur F) (src : List Nat)
    (last : Bool) (b1 b2 : Budget) (cap : Nat) (hcap : minCap k ≤ cap) :
    FullWrote k cap (afterTwo k c src last b1 b2) := by
  have hsn := cur_call_stopNeed_le hnb k c [0xEF, 0xBB] false b1
  unfold afterTwo
  generalize c.call k [0xEF, 0xBB] false b1 = r1 at hsn
  simp only
  split
  · exact checkingEnd_fullWrote1 hnb k r1.cur src last b2 cap hcap (r1.out, r1.res, r1.stopNeed)
  · split <;> (intro h; cases h)
  · rename_i hres
    split
    · intro _ hadm
      have := hadm.1.2.1 hres
      simp only at this
      exact length_pos_of_units k _ (by omega)
    · trivial

/-- **with a destination of at least the documented minimum and admissible inner calls, a `Decoder`
call that returns `OutputFull` wrote at least one character** -/
theorem rawCall_outputFull_wrote {F : Fam} (hnb : NeedsBounded F) (k : Sink) (d : Decoder F) (src : List Nat)
    (last : Bool) (b1 b2 : Budget) (cap : Nat) (hcap : minCap k ≤ cap) :
    FullWrote k cap (d.rawCall k src last b1 b2) := by
  have hleaf := rawCall_leaf k d src last b1 b2
  generalize d.rawCall k src last b1 b2 = r at hleaf
  cases hleaf with
  | finished _ => trivial
  | idle _ _ => intro h; cases h
  | wait n life' _ _ _ => intro h; cases h
  | direct _ => exact checkingEnd_fullWrote0 hnb k _ src last b2 0 cap hcap
  | bom8 off _ => exact checkingEnd_fullWrote0 hnb k _ src last b2 off cap hcap
  | bom16 be off _ => exact checkingEnd_fullWrote0 hnb k _ src last b2 off cap hcap
  | one fb _ => exact afterOne_fullWrote hnb k d.cur src last fb b1 b2 cap hcap
  | two _ => exact afterTwo_fullWrote hnb k d.cur src last b1 b2 cap hcap

/-! ### the loop -/

/-- **the documented caller loop over the public `Decoder`** (without replacement): `n` calls, `c`
of them non-`last` calls that returned `InputEmpty` -/
inductive DLifeLoop {F : Fam} : Decoder F → List Nat → Nat → Nat → Prop
  | final (k : Sink) (d : Decoder F) (rem : List Nat) (b1 b2 : Budget) (read : Nat) (out : List Nat)
      (d' : Decoder F) (inner : List (List Nat × Res × Nat)) :
      d.rawCall k rem true b1 b2 = .ok .inputEmpty read out d' inner → DLifeLoop d rem 1 0
  | lastStep (k : Sink) (d : Decoder F) (rem : List Nat) (b1 b2 : Budget) (res : Res) (read : Nat) (out : List Nat)
      (d' : Decoder F) (inner : List (List Nat × Res × Nat)) (cap n c : Nat) :
      d.rawCall k rem true b1 b2 = .ok res read out d' inner → res ≠ .inputEmpty → minCap k ≤ cap →
      InnerAdmissible k cap inner → DLifeLoop d' (rem.drop read) n c → DLifeLoop d rem (n + 1) c
  | chunkDone (k : Sink) (d : Decoder F) (src rest : List Nat) (b1 b2 : Budget) (read : Nat) (out : List Nat)
      (d' : Decoder F) (inner : List (List Nat × Res × Nat)) (n c : Nat) :
      d.rawCall k src false b1 b2 = .ok .inputEmpty read out d' inner →
      DLifeLoop d' (src.drop read ++ rest) n c → DLifeLoop d (src ++ rest) (n + 1) (c + 1)
  | chunkStep (k : Sink) (d : Decoder F) (src rest : List Nat) (b1 b2 : Budget) (res : Res) (read : Nat)
      (out : List Nat) (d' : Decoder F) (inner : List (List Nat × Res × Nat)) (cap n c : Nat) :
      d.rawCall k src false b1 b2 = .ok res read out d' inner → res ≠ .inputEmpty → minCap k ≤ cap →
      InnerAdmissible k cap inner → DLifeLoop d' (src.drop read ++ rest) n c →
      DLifeLoop d (src ++ rest) (n + 1) c

/-- a call that does not return `InputEmpty` contributes at least one event -/
theorem life_evs_pos {F : Fam} (hnb : NeedsBounded F) (k : Sink) (d : Decoder F) (src : List Nat) (last : Bool)
    (b1 b2 : Budget) (res : Res) (read : Nat) (out : List Nat) (d' : Decoder F)
    (inner : List (List Nat × Res × Nat)) (cap : Nat) (hcap : minCap k ≤ cap)
    (h : d.rawCall k src last b1 b2 = .ok res read out d' inner) (hne : res ≠ .inputEmpty)
    (hadm : InnerAdmissible k cap inner) (p : Nat) : 1 ≤ (out.map Ev.cp ++ resEv p res).length := by
  cases res with
  | inputEmpty => exact absurd rfl hne
  | malformed l a => simp [resEv]
  | outputFull =>
    have := rawCall_outputFull_wrote hnb k d src last b1 b2 cap hcap
    rw [h] at this
    have := this rfl hadm
    simp only [List.length_append, List.length_map]
    omega

/-- **every prefix of a run of the caller loop over the public `Decoder`** (without replacement):
`DLifeLoop` without the requirement that the run is complete — `start` ends a derivation anywhere, so a
loop that never reached the call that ends the stream would have a derivation for every `n` -/
inductive DLifeLoopPre {F : Fam} : Decoder F → List Nat → Nat → Nat → Prop
  | start (d : Decoder F) (stream : List Nat) : DLifeLoopPre d stream 0 0
  | final (k : Sink) (d : Decoder F) (rem : List Nat) (b1 b2 : Budget) (read : Nat) (out : List Nat)
      (d' : Decoder F) (inner : List (List Nat × Res × Nat)) :
      d.rawCall k rem true b1 b2 = .ok .inputEmpty read out d' inner → DLifeLoopPre d rem 1 0
  | lastStep (k : Sink) (d : Decoder F) (rem : List Nat) (b1 b2 : Budget) (res : Res) (read : Nat) (out : List Nat)
      (d' : Decoder F) (inner : List (List Nat × Res × Nat)) (cap n c : Nat) :
      d.rawCall k rem true b1 b2 = .ok res read out d' inner → res ≠ .inputEmpty → minCap k ≤ cap →
      InnerAdmissible k cap inner → DLifeLoopPre d' (rem.drop read) n c → DLifeLoopPre d rem (n + 1) c
  | chunkDone (k : Sink) (d : Decoder F) (src rest : List Nat) (b1 b2 : Budget) (read : Nat) (out : List Nat)
      (d' : Decoder F) (inner : List (List Nat × Res × Nat)) (n c : Nat) :
      d.rawCall k src false b1 b2 = .ok .inputEmpty read out d' inner →
      DLifeLoopPre d' (src.drop read ++ rest) n c → DLifeLoopPre d (src ++ rest) (n + 1) (c + 1)
  | chunkStep (k : Sink) (d : Decoder F) (src rest : List Nat) (b1 b2 : Budget) (res : Res) (read : Nat)
      (out : List Nat) (d' : Decoder F) (inner : List (List Nat × Res × Nat)) (cap n c : Nat) :
      d.rawCall k src false b1 b2 = .ok res read out d' inner → res ≠ .inputEmpty → minCap k ≤ cap →
      InnerAdmissible k cap inner → DLifeLoopPre d' (src.drop read ++ rest) n c →
      DLifeLoopPre d (src ++ rest) (n + 1) c

theorem DLifeLoop.toPre {F : Fam} {d : Decoder F} {stream : List Nat} {n c : Nat} (h : DLifeLoop d stream n c) :
    DLifeLoopPre d stream n c := by
  induction h with
  | final k d rem b1 b2 read out d' inner hcall => exact .final k d rem b1 b2 read out d' inner hcall
  | lastStep k d rem b1 b2 res read out d' inner cap n c hcall hne hcap hadm _ ih =>
    exact .lastStep k d rem b1 b2 res read out d' inner cap n c hcall hne hcap hadm ih
  | chunkDone k d src rest b1 b2 read out d' inner n c hcall _ ih =>
    exact .chunkDone k d src rest b1 b2 read out d' inner n c hcall ih
  | chunkStep k d src rest b1 b2 res read out d' inner cap n c hcall hne hcap hadm _ ih =>
    exact .chunkStep k d src rest b1 b2 res read out d' inner cap n c hcall hne hcap hadm ih

theorem DLifeLoopPre.prefix_closed {F : Fam} {d : Decoder F} {stream : List Nat} {n c : Nat}
    (h : DLifeLoopPre d stream n c) : ∀ m, m ≤ n → ∃ c', c' ≤ c ∧ DLifeLoopPre d stream m c' := by
  induction h with
  | start d stream => intro m hm; exact ⟨0, Nat.le_refl _, by have : m = 0 := by omega
                                                              subst this; exact .start d stream⟩
  | final k d rem b1 b2 read out d' inner hcall =>
    intro m hm
    cases m with
    | zero => exact ⟨0, Nat.le_refl _, .start d rem⟩
    | succ m => have : m = 0 := by omega
                subst this; exact ⟨0, Nat.le_refl _, .final k d rem b1 b2 read out d' inner hcall⟩
  | lastStep k d rem b1 b2 res read out d' inner cap n c hcall hne hcap hadm _ ih =>
    intro m hm
    cases m with
    | zero => exact ⟨0, Nat.zero_le _, .start d rem⟩
    | succ m =>
      obtain ⟨c', hc', h'⟩ := ih m (by omega)
      exact ⟨c', hc', .lastStep k d rem b1 b2 res read out d' inner cap m c' hcall hne hcap hadm h'⟩
  | chunkDone k d src rest b1 b2 read out d' inner n c hcall _ ih =>
    intro m hm
    cases m with
    | zero => exact ⟨0, Nat.zero_le _, .start d (src ++ rest)⟩
    | succ m =>
      obtain ⟨c', hc', h'⟩ := ih m (by omega)
      exact ⟨c' + 1, by omega, .chunkDone k d src rest b1 b2 read out d' inner m c' hcall h'⟩
  | chunkStep k d src rest b1 b2 res read out d' inner cap n c hcall hne hcap hadm _ ih =>
    intro m hm
    cases m with
    | zero => exact ⟨0, Nat.zero_le _, .start d (src ++ rest)⟩
    | succ m =>
      obtain ⟨c', hc', h'⟩ := ih m (by omega)
      exact ⟨c', hc', .chunkStep k d src rest b1 b2 res read out d' inner cap m c' hcall hne hcap hadm h'⟩

/-- at no point of the loop: calls so far ≤ (characters + errors the documented BOM semantics says the
stream denotes) + chunks + 1 -/
theorem life_prefix_calls_le_events (v : Gen.Variant) (d : Decoder (famOfVariant v)) (stream : List Nat) (n c : Nat)
    (h : DLifeLoopPre d stream n c) :
    ∀ pos, withheld d.life ≤ pos → LifeInv v d → PendInv d → (∀ x ∈ stream, x < 256) →
      n ≤ (dref d stream pos).length + c + 1 := by
  have hnb := famOfVariant_needsBounded v
  have H := famBB_variant v
  induction h with
  | start d stream => intro pos _ _ _ _; omega
  | final k d rem b1 b2 read out d' inner hcall => intro pos _ _ _ _; omega
  | lastStep k d rem b1 b2 res read out d' inner cap n c hcall hne hcap hadm _ ih =>
    intro pos hw hd hp hb
    have hs := rawCall_sound_full H k d rem [] pos true b1 b2 (fun _ => rfl) hw hd.fresh hp
    rw [hcall] at hs
    simp only [DSound, List.append_nil] at hs
    have hev := life_evs_pos hnb k d rem true b1 b2 res read out d' inner cap hcap hcall hne hadm (pos + read)
    have := ih (pos + read) hs.2 (rawCall_lifeInv v k d rem true b1 b2 res read out d' inner hd hb hcall)
      (rawCall_pendInv H k d rem true b1 b2 res read out d' inner hd.fresh hp hcall)
      (fun x hx => hb x (List.mem_of_mem_drop hx))
    rw [← hs.1]
    simp only [List.length_append] at hev ⊢
    omega
  | chunkDone k d src rest b1 b2 read out d' inner n c hcall _ ih =>
    intro pos hw hd hp hb
    have hbs : ∀ x ∈ src, x < 256 := fun x hx => hb x (List.mem_append_left _ hx)
    have hs := rawCall_sound_full H k d src rest pos false b1 b2 (fun h => by cases h) hw hd.fresh hp
    rw [hcall] at hs
    simp only [DSound] at hs
    have := ih (pos + read) hs.2 (rawCall_lifeInv v k d src false b1 b2 _ read out d' inner hd hbs hcall)
      (rawCall_pendInv H k d src false b1 b2 _ read out d' inner hd.fresh hp hcall)
      (by
        intro x hx
        rcases List.mem_append.mp hx with hx | hx
        · exact hbs x (List.mem_of_mem_drop hx)
        · exact hb x (List.mem_append_right _ hx))
    rw [← hs.1]
    simp only [List.length_append]
    omega
  | chunkStep k d src rest b1 b2 res read out d' inner cap n c hcall hne hcap hadm _ ih =>
    intro pos hw hd hp hb
    have hbs : ∀ x ∈ src, x < 256 := fun x hx => hb x (List.mem_append_left _ hx)
    have hs := rawCall_sound_full H k d src rest pos false b1 b2 (fun h => by cases h) hw hd.fresh hp
    rw [hcall] at hs
    simp only [DSound] at hs
    have hev := life_evs_pos hnb k d src false b1 b2 res read out d' inner cap hcap hcall hne hadm (pos + read)
    have := ih (pos + read) hs.2 (rawCall_lifeInv v k d src false b1 b2 res read out d' inner hd hbs hcall)
      (rawCall_pendInv H k d src false b1 b2 res read out d' inner hd.fresh hp hcall)
      (by
        intro x hx
        rcases List.mem_append.mp hx with hx | hx
        · exact hbs x (List.mem_of_mem_drop hx)
        · exact hb x (List.mem_append_right _ hx))
    rw [← hs.1]
    simp only [List.length_append] at hev ⊢
    omega

/-- calls ≤ (characters + errors the documented BOM semantics says the stream denotes) + chunks + 1
(a complete run is a prefix: `life_prefix_calls_le_events`) -/
theorem life_calls_le_events (v : Gen.Variant) (d : Decoder (famOfVariant v)) (stream : List Nat) (n c : Nat)
    (h : DLifeLoop d stream n c) :
    ∀ pos, withheld d.life ≤ pos → LifeInv v d → PendInv d → (∀ x ∈ stream, x < 256) →
      n ≤ (dref d stream pos).length + c + 1 :=
  life_prefix_calls_le_events v d stream n c h.toPre

/-! ### `dref` is linear in the stream -/

theorem curRef_length_le (v : Gen.Variant) (c : Cur (famOfVariant v)) (hi : curInv v c) (stream : List Nat)
    (hb : ∀ x ∈ stream, x < 256) (pos : Nat) : (curRef c stream pos).length ≤ stream.length + 5 := by
  cases c with
  | nominal s => exact variant_ref_length_le v s hi stream hb pos
  | utf8 s => exact variant_ref_length_le .utf8 s hi stream hb pos
  | utf16be s => exact variant_ref_length_le .utf16Be s hi stream hb pos
  | utf16le s => exact variant_ref_length_le .utf16Le s hi stream hb pos

theorem utf8_ref_length_le (stream : List Nat) (hb : ∀ x ∈ stream, x < 256) (pos : Nat) :
    (ref utf8Fam utf8Fam.init stream pos).length ≤ stream.length + 5 :=
  variant_ref_length_le .utf8 _ (variantInv_init .utf8) stream hb pos

theorem utf16_ref_length_le (be : Bool) (stream : List Nat) (hb : ∀ x ∈ stream, x < 256) (pos : Nat) :
    (ref (utf16Fam be) (utf16Fam be).init stream pos).length ≤ stream.length + 5 := by
  cases be
  · exact variant_ref_length_le .utf16Le _ (variantInv_init .utf16Le) stream hb pos
  · exact variant_ref_length_le .utf16Be _ (variantInv_init .utf16Be) stream hb pos

theorem cons_bytes {x : Nat} {t : List Nat} (hx : x < 256) (ht : ∀ y ∈ t, y < 256) : ∀ y ∈ x :: t, y < 256 := by
  intro y hy
  rcases List.mem_cons.mp hy with h | h
  · rw [h]; exact hx
  · exact ht y h

/-- what the documented BOM semantics says about a stream of bytes: at most
`bytes + withheld + 5` events -/
theorem dref_length_le (v : Gen.Variant) (d : Decoder (famOfVariant v)) (hi : curInv v d.cur) (rem : List Nat)
    (hb : ∀ x ∈ rem, x < 256) (pos : Nat) : (dref d rem pos).length ≤ rem.length + withheld d.life + 5 := by
  have hcur : ∀ (pre : List Nat) (p : Nat), (∀ x ∈ pre, x < 256) →
      (curRef d.cur (pre ++ rem) p).length ≤ rem.length + pre.length + 5 := by
    intro pre p hpre
    have := curRef_length_le v d.cur hi (pre ++ rem)
      (fun x hx => by rcases List.mem_append.mp hx with h | h; exact hpre x h; exact hb x h) p
    simp only [List.length_append] at this
    omega
  have h8 : ∀ (t : List Nat) (p : Nat), (∀ x ∈ t, x < 256) → t.length ≤ rem.length →
      (ref utf8Fam utf8Fam.init t p).length ≤ rem.length + withheld d.life + 5 := by
    intro t p ht hl
    have := utf8_ref_length_le t ht p; omega
  have h16 : ∀ (be : Bool) (t : List Nat) (p : Nat), (∀ x ∈ t, x < 256) → t.length ≤ rem.length →
      (ref (utf16Fam be) (utf16Fam be).init t p).length ≤ rem.length + withheld d.life + 5 := by
    intro be t p ht hl
    have := utf16_ref_length_le be t ht p; omega
  have h0 := hcur [] pos (by intro x hx; cases hx)
  have h1 := fun (x : Nat) (hx : x < 256) => hcur [x] (pos - 1) (by intro y hy; simp only [List.mem_singleton] at hy; rw [hy]; exact hx)
  have h2 := hcur [0xEF, 0xBB] (pos - 2) (by decide)
  simp only [List.nil_append, List.length_nil, List.singleton_append, List.length_singleton, List.cons_append,
    List.length_cons] at h0 h1 h2
  obtain ⟨life, c⟩ := d
  cases life <;> simp only [dref, withheld]
  case converting => omega
  case finished => simp
  case convertingWithPendingBB => exact h1 0xBB (by decide)
  case atStart =>
    split
    · rename_i rest
      exact h8 rest _ (fun x hx => hb x (by simp [hx])) (by simp only [List.length_cons]; omega)
    · rename_i rest
      exact h16 true rest _ (fun x hx => hb x (by simp [hx])) (by simp only [List.length_cons]; omega)
    · rename_i rest
      exact h16 false rest _ (fun x hx => hb x (by simp [hx])) (by simp only [List.length_cons]; omega)
    · omega
  case atUtf8Start =>
    split
    · rename_i rest
      exact h8 rest _ (fun x hx => hb x (by simp [hx])) (by simp only [List.length_cons]; omega)
    · omega
  case atUtf16BeStart =>
    split
    · rename_i rest
      exact h16 true rest _ (fun x hx => hb x (by simp [hx])) (by simp only [List.length_cons]; omega)
    · omega
  case atUtf16LeStart =>
    split
    · rename_i rest
      exact h16 false rest _ (fun x hx => hb x (by simp [hx])) (by simp only [List.length_cons]; omega)
    · omega
  case seenUtf8First =>
    split
    · rename_i rest
      exact h8 rest _ (fun x hx => hb x (by simp [hx])) (by simp only [List.length_cons]; omega)
    · exact h1 0xEF (by decide)
  case seenUtf8Second =>
    split
    · rename_i rest
      exact h8 rest _ (fun x hx => hb x (by simp [hx])) (by simp only [List.length_cons]; omega)
    · exact h2
  case seenUtf16BeFirst =>
    split
    · rename_i rest
      exact h16 true rest _ (fun x hx => hb x (by simp [hx])) (by simp only [List.length_cons]; omega)
    · exact h1 0xFE (by decide)
  case seenUtf16LeFirst =>
    split
    · rename_i rest
      exact h16 false rest _ (fun x hx => hb x (by simp [hx])) (by simp only [List.length_cons]; omega)
    · exact h1 0xFF (by decide)

/-- **C08, linear bound through the BOM life cycle**: the caller loop over
`decode_to_utf{8,16}_without_replacement` of a decoder satisfying the invariants of `Decoder.new`
that has consumed `pos` bytes makes at most `bytes + withheld + chunks + 6` calls -/
theorem life_caller_loop_bound_from (v : Gen.Variant) (d : Decoder (famOfVariant v)) (pos : Nat)
    (hw : withheld d.life ≤ pos) (hd : LifeInv v d) (hp : PendInv d) (stream : List Nat)
    (hb : ∀ x ∈ stream, x < 256) (n c : Nat) (h : DLifeLoop d stream n c) :
    n ≤ stream.length + withheld d.life + c + 6 := by
  have h1 := life_calls_le_events v d stream n c h pos hw hd hp hb
  have h2 := dref_length_le v d hd.cur stream hb pos
  omega

/-- **C08, all 40 encodings, the three BOM modes, from `new_decoder*`**: the documented caller loop
over the public without-replacement methods, with destinations of at least 4 bytes / 2 units and
admissible inner calls, makes at most `bytes + chunks + 6` calls -/
theorem life_caller_loop_bound (v : Gen.Variant) (bom : BomHandling) (stream : List Nat)
    (hb : ∀ x ∈ stream, x < 256) (n c : Nat)
    (h : DLifeLoop (Decoder.new (famOfVariant v) (nominalOf v) bom) stream n c) :
    n ≤ stream.length + c + 6 := by
  have := life_caller_loop_bound_from v _ 0 (by rw [withheld_new]; exact Nat.le_refl _) (lifeInv_new v bom)
    (pendInv_new _ bom) stream hb n c h
  rw [withheld_new] at this
  omega

/-- **C08 through the BOM life cycle, prefixes of runs**: at no point of the caller loop has it made
more than `bytes + withheld + chunks + 6` calls -/
theorem life_caller_loop_prefix_bound_from (v : Gen.Variant) (d : Decoder (famOfVariant v)) (pos : Nat)
    (hw : withheld d.life ≤ pos) (hd : LifeInv v d) (hp : PendInv d) (stream : List Nat)
    (hb : ∀ x ∈ stream, x < 256) (n c : Nat) (h : DLifeLoopPre d stream n c) :
    n ≤ stream.length + withheld d.life + c + 6 := by
  have h1 := life_prefix_calls_le_events v d stream n c h pos hw hd hp hb
  have h2 := dref_length_le v d hd.cur stream hb pos
  omega

/-- from `new_decoder*`: at no point more than `bytes + chunks + 6` calls -/
theorem life_caller_loop_prefix_bound (v : Gen.Variant) (bom : BomHandling) (stream : List Nat)
    (hb : ∀ x ∈ stream, x < 256) (n c : Nat)
    (h : DLifeLoopPre (Decoder.new (famOfVariant v) (nominalOf v) bom) stream n c) :
    n ≤ stream.length + c + 6 := by
  have := life_caller_loop_prefix_bound_from v _ 0 (by rw [withheld_new]; exact Nat.le_refl _) (lifeInv_new v bom)
    (pendInv_new _ bom) stream hb n c h
  rw [withheld_new] at this
  omega

/-- **termination, all 40 encodings, the three BOM modes, from `new_decoder*`**: there is no prefix of
a run of the documented caller loop with more than `bytes + chunks + 6` calls — the loop cannot go on
for ever (every prefix of an infinite run would be derivable: `DLifeLoopPre.prefix_closed`, `start`) -/
theorem life_caller_loop_terminates (v : Gen.Variant) (bom : BomHandling) (stream : List Nat)
    (hb : ∀ x ∈ stream, x < 256) :
    ¬ ∃ n c, stream.length + c + 6 < n ∧
      DLifeLoopPre (Decoder.new (famOfVariant v) (nominalOf v) bom) stream n c := by
  intro ⟨n, c, hlt, h⟩
  have := life_caller_loop_prefix_bound v bom stream hb n c h
  omega

/-! ### Non-vacuity

Shift_JIS with BOM sniffing, stream `FE 41 42 43 B1`, four-byte UTF-8 destinations (the documented
minimum), four calls:

1. `[FE]`, not last → `InputEmpty`, `read = 1`, the byte is withheld (`SeenUtf16BeFirst`);
2. `[41 42 43 B1]`, last → the replay of `FE` gives `Malformed(1, 0)`, `read = 0`;
3. the same source, last, stopped by an admissible `OutputFull` after `A B C` (3 bytes written, 3 asked
   for, 4 available), `read = 3`;
4. `[B1]`, last → `InputEmpty` (U+FF71), the decoder is `Finished`.

Every `rawCall` equation holds by `rfl`; `4 ≤ 5 + 1 + 6`. -/
section demo
private def vS : Gen.Variant := .shiftJis
private def dS0 : Decoder (famOfVariant vS) := Decoder.new (famOfVariant vS) (nominalOf vS) .sniff
private def dS1 : Decoder (famOfVariant vS) := ⟨.seenUtf16BeFirst, .nominal none⟩
private def dS2 : Decoder (famOfVariant vS) := ⟨.converting, .nominal none⟩
private def dS3 : Decoder (famOfVariant vS) := ⟨.finished, .nominal none⟩

private theorem hS1 : dS0.rawCall .utf8 [0xFE] false .unlimited .unlimited = .ok .inputEmpty 1 [] dS1 [] := rfl
private theorem hS2 : dS1.rawCall .utf8 [0x41, 0x42, 0x43, 0xB1] true .unlimited .unlimited
    = .ok (.malformed 1 0) 0 [] dS2 [([], .malformed 1 0, 0)] := rfl
private theorem hS3 : dS2.rawCall .utf8 [0x41, 0x42, 0x43, 0xB1] true .unlimited (.full 3)
    = .ok .outputFull 3 [0x41, 0x42, 0x43] dS2 [([0x41, 0x42, 0x43], .outputFull, 3)] := rfl
private theorem hS4 : dS2.rawCall .utf8 [0xB1] true .unlimited .unlimited
    = .ok .inputEmpty 1 [0xFF71] dS3 [([0xFF71], .inputEmpty, 0)] := rfl

private theorem admS2 : InnerAdmissible .utf8 4 [(([] : List Nat), Res.malformed 1 0, 0)] :=
  (innerAdmissibleB_iff .utf8 _ 4).1 (by decide)
private theorem admS3 : InnerAdmissible .utf8 4 [([0x41, 0x42, 0x43], Res.outputFull, 3)] :=
  (innerAdmissibleB_iff .utf8 _ 4).1 (by decide)

/-- the complete run: four calls, one completely pushed chunk -/
example : DLifeLoop dS0 [0xFE, 0x41, 0x42, 0x43, 0xB1] 4 1 :=
  DLifeLoop.chunkDone .utf8 dS0 [0xFE] [0x41, 0x42, 0x43, 0xB1] .unlimited .unlimited 1 [] dS1 [] 3 0 hS1
    (DLifeLoop.lastStep .utf8 dS1 [0x41, 0x42, 0x43, 0xB1] .unlimited .unlimited (.malformed 1 0) 0 [] dS2 _ 4 2 0
      hS2 (by intro h; cases h) (by decide) admS2
      (DLifeLoop.lastStep .utf8 dS2 [0x41, 0x42, 0x43, 0xB1] .unlimited (.full 3) .outputFull 3 [0x41, 0x42, 0x43]
        dS2 _ 4 1 0 hS3 (by intro h; cases h) (by decide) admS3
        (DLifeLoop.final .utf8 dS2 [0xB1] .unlimited .unlimited 1 [0xFF71] dS3 _ hS4)))

/-- a proper prefix of it: three calls made, the stream not finished -/
example : DLifeLoopPre dS0 [0xFE, 0x41, 0x42, 0x43, 0xB1] 3 1 :=
  DLifeLoopPre.chunkDone .utf8 dS0 [0xFE] [0x41, 0x42, 0x43, 0xB1] .unlimited .unlimited 1 [] dS1 [] 2 0 hS1
    (DLifeLoopPre.lastStep .utf8 dS1 [0x41, 0x42, 0x43, 0xB1] .unlimited .unlimited (.malformed 1 0) 0 [] dS2 _ 4 1 0
      hS2 (by intro h; cases h) (by decide) admS2
      (DLifeLoopPre.lastStep .utf8 dS2 [0x41, 0x42, 0x43, 0xB1] .unlimited (.full 3) .outputFull 3
        [0x41, 0x42, 0x43] dS2 _ 4 0 0 hS3 (by intro h; cases h) (by decide) admS3 (DLifeLoopPre.start _ _)))
end demo

end EncodingRs.Thm.C08Loop
