import EncodingRs.Lemmas.Label
/-!
# C13 — label resolution implements the Standard's "get an encoding" for all byte strings

Property theorems only; helper lemmas live in `Lemmas/Label.lean`.
`Model.forLabel` is the hand model of `Encoding::for_label` over the label
arrays **regenerated from lib.rs** (`Gen.labelsSorted`, `Gen.encodingsInLabelSort`,
`Gen.longestLabelLength`, `Gen.encodings`); `Spec.getEncoding` is the Standard's
algorithm over the vendored label table.
-/
namespace EncodingRs.Thm.C13
open EncodingRs EncodingRs.Model EncodingRs.Spec EncodingRs.Lemmas.Label

/-- the implementation's (label, encoding name) association list -/
def genTable : List (List Nat × Option (List Nat)) :=
  Gen.labelsSorted.zip (Gen.encodingsInLabelSort.map encName)

/-- **Generated data = Standard's table** (finite, kernel-evaluated). -/
theorem gen_labels_eq_spec :
    genTable = labelTable.map (fun r => (r.1, some r.2)) := by decide +kernel

theorem gen_lengths : Gen.labelsSorted.length = Gen.encodingsInLabelSort.length := by decide +kernel

/-- `LABELS_SORTED` is strictly increasing under the comparator handed to
`binary_search_by` (precondition of the binary search; implies no duplicates). -/
theorem labels_sorted :
    (Gen.labelsSorted.zip Gen.labelsSorted.tail).all (fun p => cmpLabel p.1 p.2 == .lt) = true := by
  decide +kernel

/-- Every label of the Standard is lowercase, non-empty, at most
`LONGEST_LABEL_LENGTH` long and over the alphabet the scanner accepts. -/
theorem spec_labels_good :
    labelTable.all (fun r => r.1.map asciiLower == r.1 && goodKey r.1) = true := by decide +kernel

/-- Scanner: the three loops compute "strip ASCII whitespace, lowercase, reject
anything that cannot be a label" — for every byte string (induction). -/
theorem scan_spec (bs : List Nat) :
    scanBefore bs = if goodKey ((strip bs).map asciiLower) then some ((strip bs).map asciiLower) else none :=
  scanBefore_eq bs

private theorem model_lookup (t : List Nat) :
    (searchLabel t).bind (fun i => (Gen.encodingsInLabelSort[i]?).bind encName)
      = ((labelTable.find? (fun r => r.1 == t)).map (·.2)) := by
  have h1 : searchLabel t = Gen.labelsSorted.findIdx? (fun probe => probe == t) := by
    unfold searchLabel
    simp only [cmpLabel_eq_iff]
    rw [List.findIdx?_eq_guard_findIdx_lt]
    simp only [Option.guard]
    split <;> simp_all
  have h2 := findIdx?_bind_getElem? (fun probe => probe == t) Gen.labelsSorted
      (Gen.encodingsInLabelSort.map encName) (by rw [List.length_map]; exact gen_lengths)
  have h3 : (fun (i : Nat) => (Gen.encodingsInLabelSort[i]?).bind encName)
      = fun (i : Nat) => ((Gen.encodingsInLabelSort.map encName)[i]?).bind id := by
    funext i; simp [List.getElem?_map]; cases Gen.encodingsInLabelSort[i]? <;> simp
  rw [h1, h3]
  have h4 : ∀ (o : Option Nat), o.bind (fun i => ((Gen.encodingsInLabelSort.map encName)[i]?).bind id)
      = (o.bind (fun i => (Gen.encodingsInLabelSort.map encName)[i]?)).bind id := by
    intro o; cases o <;> simp
  rw [h4 (List.findIdx? (fun probe => probe == t) Gen.labelsSorted), h2]
  show (((genTable).find? _).map _).bind id = _
  rw [gen_labels_eq_spec, List.find?_map]
  cases h : List.find? ((fun q => q.1 == t) ∘ fun r => (r.1, some r.2)) labelTable with
  | none =>
    have : List.find? (fun r => r.1 == t) labelTable = none := h
    simp [this]
  | some r =>
    have : List.find? (fun r => r.1 == t) labelTable = some r := h
    simp [this]

/-- the model's result as an encoding *name* -/
def forLabelName (bs : List Nat) : Option (List Nat) := (forLabel bs).bind encName

/-- **C13 main theorem**: for every byte string, the model of `for_label`
returns exactly what the Standard's "get an encoding" returns. -/
theorem for_label_spec (bs : List Nat) : forLabelName bs = getEncoding bs := by
  have hfl : forLabel bs = (scanBefore bs).bind (fun c => (searchLabel c).bind
      (fun i => Gen.encodingsInLabelSort[i]?)) := by
    unfold forLabel
    cases scanBefore bs with
    | none => rfl
    | some c => simp only [Option.bind_some]; cases searchLabel c <;> rfl
  unfold forLabelName getEncoding
  rw [hfl, scan_spec]
  have hgood := spec_labels_good
  rw [List.all_eq_true] at hgood
  by_cases hk : goodKey ((strip bs).map asciiLower) = true
  · rw [if_pos hk]
    have := model_lookup ((strip bs).map asciiLower)
    rw [Option.bind_some, Option.bind_assoc]
    refine Eq.trans this ?_
    apply congrArg
    apply find?_congr'
    intro r hr
    have := hgood r hr
    simp only [Bool.and_eq_true, beq_iff_eq] at this
    simp only [asciiCaseInsensitiveMatch, this.1]
  · rw [if_neg hk]
    simp only [Option.bind_none]
    symm
    rw [Option.map_eq_none_iff, List.find?_eq_none]
    intro r hr hm
    have := hgood r hr
    simp only [Bool.and_eq_true, beq_iff_eq] at this
    simp only [asciiCaseInsensitiveMatch, this.1, beq_iff_eq] at hm
    rw [← hm] at hk
    exact hk this.2

/-- `for_label_no_replacement` differs only in mapping the replacement encoding to failure. -/
theorem for_label_no_replacement_spec (bs : List Nat) :
    (forLabelNoReplacement bs).bind encName =
      (match getEncoding bs with
       | none => none
       | some n => if n = replacementName then none else some n) := by
  rw [← for_label_spec]
  unfold forLabelNoReplacement forLabelName
  have hrep : encName Gen.replacementIdx = some replacementName := by decide +kernel
  have hinj : ∀ i, i < Gen.encodings.length → (encName i = some replacementName ↔ i = Gen.replacementIdx) := by
    decide +kernel
  cases h : forLabel bs with
  | none => rfl
  | some e =>
    simp only [Option.bind_some]
    by_cases he : e = Gen.replacementIdx
    · subst he; simp [hrep]
    · have hb : (e == Gen.replacementIdx) = false := by simpa using he
      simp only [hb, Bool.false_eq_true, if_false, Option.bind_some]
      cases hn : encName e with
      | none => rfl
      | some n =>
        have hlt : e < Gen.encodings.length := by
          unfold encName at hn
          cases h' : Gen.encodings[e]? with
          | none => simp [h'] at hn
          | some _ => exact (List.getElem?_eq_some_iff.mp h').1
        have := hinj e hlt
        simp only
        split
        · next hh => subst hh; exact absurd (this.mp hn) he
        · rfl

/-- every encoding's `name()` is itself a label that resolves to that encoding -/
theorem name_is_label :
    (List.range Gen.encodings.length).all
      (fun i => match Gen.encodings[i]? with
        | some e => forLabel e.nameBytes == some i
        | none => false) = true := by decide +kernel

/-- never panics: the model is a total function whose only partial operation
(`trimmed[trimmed_pos] = …`, index < 19) is guarded by the length test; stated
as: the candidate handed to the search never exceeds the array size. -/
theorem candidate_fits (bs cand : List Nat) (h : scanBefore bs = some cand) :
    cand.length ≤ Gen.longestLabelLength := by
  rw [scan_spec] at h
  split at h
  · next hk =>
    cases h
    simp only [goodKey, Bool.and_eq_true, decide_eq_true_eq] at hk
    exact hk.1.2
  · cases h

/-! Non-vacuity: concrete inputs exercising each branch. -/
example : forLabelName [0x20, 0x55, 0x54, 0x46, 0x2D, 0x38, 0x0A] = some [85, 84, 70, 45, 56] := by decide +kernel
example : forLabelName [0x75, 0x74, 0x20, 0x66] = none := by decide +kernel
example : getEncoding [0x0B, 0x75, 0x74, 0x66, 0x38] = none := by decide +kernel

end EncodingRs.Thm.C13
