import EncodingRs.Lemmas.MemUtf8
/-!
# C15, UTF-8 → UTF-16 — `convert_utf8_to_utf16`, `convert_str_to_utf16`,
`convert_utf8_to_utf16_without_replacement` are exact and do not panic

Property theorems only; helper lemmas live in `Lemmas/MemUtf8.lean`, the hand
models in `Model/Mem.lean` (section "UTF-8 → UTF-16"), the reference decoder
(`decodeUtf8Lossy`: one U+FFFD per maximal ill-formed subpart, Table 3-7) in
`Spec/Conv.lean`.
-/
namespace EncodingRs.Thm.C15
open EncodingRs.Spec.Conv EncodingRs.Model.Mem

/-- (A) `convert_utf8_to_utf16_without_replacement(src, dst)` with
`dst.len() >= src.len()` does not panic, returns `None` exactly when `src` is
not well-formed UTF-8, and otherwise writes exactly the UTF-16 form of `src`. -/
theorem convert_utf8_to_utf16_without_replacement_spec (src : List Nat) (cap : Nat)
    (h8 : ∀ b ∈ src, b < 256) (hcap : src.length ≤ cap) :
    convertUtf8ToUtf16WithoutReplacement src cap =
      if validUtf8 src then .ok (some (utf16EncodeAll (decodeUtf8Lossy src))) else .ok none :=
  Lemmas.MemUtf8.without_replacement_eq src cap h8 hcap

/-- (B) `convert_str_to_utf16(src, dst)` with `dst.len() >= src.len()` on
well-formed UTF-8 (a `&str`) does not panic and writes exactly the UTF-16 form. -/
theorem convert_str_to_utf16_spec (src : List Nat) (cap : Nat) (h8 : ∀ b ∈ src, b < 256)
    (hv : validUtf8 src = true) (hcap : src.length ≤ cap) :
    convertStrToUtf16 src cap = .ok (utf16EncodeAll (decodeUtf8Lossy src)) :=
  have _ := h8    -- redundant: well-formed UTF-8 only contains bytes up to 0xF4
  Lemmas.MemUtf8.str_eq src cap hv hcap

/-- (C) `convert_utf8_to_utf16(src, dst)` with `dst.len() > src.len()`, for
*every* byte sequence: no panic (neither the `unreachable!` on `OutputFull`,
nor the bounds-checked `dst[total_written] = 0xFFFD`, nor running out of loop
fuel in the model) and the written units are exactly the UTF-16 form of the
lossy decoding with one U+FFFD per maximal ill-formed subpart. -/
theorem convert_utf8_to_utf16_spec (src : List Nat) (cap : Nat) (h8 : ∀ b ∈ src, b < 256)
    (hcap : src.length < cap) :
    convertUtf8ToUtf16 src cap = .ok (utf16EncodeAll (decodeUtf8Lossy src)) :=
  Lemmas.MemUtf8.convert_eq src cap h8 hcap

/-- The results above never have more units than the source has bytes, for any
byte sequence: the `written` counts are at most `src.len()`, so the unchecked
writes of `convert_str_to_utf16` / `convert_utf8_to_utf16_up_to_invalid` stay
inside a destination with `dst.len() >= src.len()`. -/
theorem utf16_of_utf8_length_le (src : List Nat) :
    (utf16EncodeAll (decodeUtf8Lossy src)).length ≤ src.length :=
  Lemmas.MemUtf8.utf16_len_le src

/-- the documented panics for a destination that is too short -/
theorem convert_utf8_to_utf16_too_short (src : List Nat) (cap : Nat) (h : cap ≤ src.length) :
    convertUtf8ToUtf16 src cap = .panic := by
  unfold convertUtf8ToUtf16
  have : ¬ cap > src.length := by omega
  simp [this]

theorem convert_utf8_to_utf16_without_replacement_too_short (src : List Nat) (cap : Nat) (h : cap < src.length) :
    convertUtf8ToUtf16WithoutReplacement src cap = .panic := by
  unfold convertUtf8ToUtf16WithoutReplacement; simp [h]

theorem convert_str_to_utf16_too_short (src : List Nat) (cap : Nat) (h : cap < src.length) :
    convertStrToUtf16 src cap = .panic := by
  unfold convertStrToUtf16; simp [h]

/-! concrete instances (the model is executable) -/

-- E1 80 | 41 | ED | A0 | 80 | F4 | 90: seven units for eight bytes
example : convertUtf8ToUtf16 [0xE1, 0x80, 0x41, 0xED, 0xA0, 0x80, 0xF4, 0x90] 9 =
    .ok [0xFFFD, 0x41, 0xFFFD, 0xFFFD, 0xFFFD, 0xFFFD, 0xFFFD] := by decide
-- a truncated four-byte sequence followed by a truncated two-byte lead at the end
example : convertUtf8ToUtf16 [0xF1, 0x80, 0x80, 0xC2] 5 = .ok [0xFFFD, 0xFFFD] := by decide
-- `dst.len() == src.len()` violates the `assert!`
example : convertUtf8ToUtf16 [0x61, 0xC3] 2 = .panic := by decide
-- ä € U+1F4A9
example : convertUtf8ToUtf16 [0xC3, 0xA4, 0xE2, 0x82, 0xAC, 0xF0, 0x9F, 0x92, 0xA9] 10 =
    .ok [0xE4, 0x20AC, 0xD83D, 0xDCA9] := by decide
example : convertStrToUtf16 [0xC3, 0xA4, 0xE2, 0x82, 0xAC, 0xF0, 0x9F, 0x92, 0xA9] 9 =
    .ok [0xE4, 0x20AC, 0xD83D, 0xDCA9] := by decide
example : convertUtf8ToUtf16WithoutReplacement [0xC3, 0xA4, 0xE2, 0x82, 0xAC, 0xF0, 0x9F, 0x92, 0xA9] 9 =
    .ok (some [0xE4, 0x20AC, 0xD83D, 0xDCA9]) := by decide
-- CESU-8 style surrogate (ED A0 80) and an overlong form (C0 80) are rejected
example : convertUtf8ToUtf16WithoutReplacement [0x61, 0xED, 0xA0, 0x80] 4 = .ok none := by decide
example : convertUtf8ToUtf16WithoutReplacement [0xC0, 0x80] 2 = .ok none := by decide

end EncodingRs.Thm.C15
