import EncodingRs.Lemmas.Potential
import EncodingRs.Lemmas.FamLaws
import EncodingRs.Model.MaxLen
import EncodingRs.Lemmas.EncMaxLenVariant
import EncodingRs.Lemmas.MaxLenVariant
/-!
# C07 — worst-case buffer-length queries are sufficient in every reachable state

The `max_*` formulas themselves are **re-translated from the Rust on every run**
(`Gen.MaxLen`, by `tools/gen_maxlen.py`) and the correspondence run compares their
values with the implementation's answers in every state a history reaches.

The theorems: a *potential* (`Lemmas.Potential`) is a function `Φ s n` of the decoder
state and the number of remaining bytes that (1) covers the space any step may insist
on and (2) decreases by at least what a step writes (plus room for U+FFFD when an error
is replaced).  `no_outputFull_raw` / `no_outputFull_repl` show that with `Φ s |src| ≤ cap`
no admissible call reports `OutputFull`.  The per-family files instantiate `Φ` with the
exact value of the translated formulas.
-/
namespace EncodingRs.Thm.C07
open EncodingRs EncodingRs.Model EncodingRs.Lemmas.Core EncodingRs.Lemmas.FamLaws EncodingRs.Lemmas.Potential
open EncodingRs.Gen.MaxLen

/-! ## The checked `usize` arithmetic never returns a wrapped number -/

theorem chk_some {a v : Nat} (h : U.chk a = some v) : v = a ∧ v ≤ usizeMax := by
  unfold U.chk at h; split at h
  · cases h; exact ⟨rfl, by assumption⟩
  · cases h
theorem chk_none {a : Nat} : U.chk a = none ↔ usizeMax < a := by
  unfold U.chk; split <;> simp <;> omega
theorem addU_some {a b v : Nat} (h : U.addU a b = some v) : v = a + b ∧ v ≤ usizeMax := chk_some h
theorem mulU_some {a b v : Nat} (h : U.mulU a b = some v) : v = a * b ∧ v ≤ usizeMax := chk_some h
theorem addO_some {a v : Nat} {o : Option Nat} (h : U.addO a o = some v) :
    ∃ b, o = some b ∧ v = a + b ∧ v ≤ usizeMax := by
  cases o with
  | none => simp [U.addO] at h
  | some b => exact ⟨b, rfl, chk_some (by simpa [U.addO] using h)⟩
theorem mulO_some {a v : Nat} {o : Option Nat} (h : U.mulO a o = some v) :
    ∃ b, o = some b ∧ v = a * b ∧ v ≤ usizeMax := by
  cases o with
  | none => simp [U.mulO] at h
  | some b => exact ⟨b, rfl, chk_some (by simpa [U.mulO] using h)⟩
theorem divO_some {a v : Nat} {o : Option Nat} (h : U.divO o a = some v) :
    ∃ b, o = some b ∧ a ≠ 0 ∧ v = b / a := by
  cases o with
  | none => simp [U.divO] at h
  | some b =>
    simp only [U.divO, Option.bind_some] at h
    split at h
    · cases h
    · cases h; exact ⟨b, rfl, by assumption, rfl⟩
theorem addOO_some {v : Nat} {x y : Option Nat} (h : U.addOO x y = some v) :
    ∃ a b, x = some a ∧ y = some b ∧ v = a + b ∧ v ≤ usizeMax := by
  cases x with
  | none => simp [U.addOO] at h
  | some a =>
    cases y with
    | none => simp [U.addOO] at h
    | some b => exact ⟨a, b, rfl, rfl, chk_some (by simpa [U.addOO] using h)⟩

/-! ## Generic sufficiency (any family, any potential) -/

/-- without replacement: a destination of at least `Φ s |src|` units rules out `OutputFull` -/
theorem raw_sufficient {F : Fam} {k : Sink} {repl : Bool} (P : Potential F k repl) (L : Laws F)
    (s : F.σ) (src : List Nat) (last : Bool) (budget : Budget) (cap : Nat)
    (hi : P.Inv s) (hb : ∀ b ∈ src, b < 256) (hcap : P.Φ s src.length ≤ cap)
    (hadm : Admissible F k cap (call F k s src last budget)) :
    (call F k s src last budget).res ≠ .outputFull :=
  no_outputFull_raw P L last src s budget cap hi hb hcap hadm

/-- with replacement -/
theorem repl_sufficient {F : Fam} {k : Sink} (P : Potential F k true) (L : Laws F)
    (fuel : Nat) (s : F.σ) (src : List Nat) (last : Bool) (budgets : List Budget) (cap : Nat)
    (t : ReplRes F.σ) (hi : P.Inv s) (hb : ∀ b ∈ src, b < 256) (hcap : P.Φ s src.length ≤ cap)
    (hadm : ReplAdmissible F k last fuel s src budgets cap)
    (h : replLoop F k last fuel s src budgets = some t) : t.res ≠ .outputFull :=
  no_outputFull_repl P L last fuel s src budgets cap t hi hb hcap hadm h

/-- the invariant of a potential holds in every state a history of calls reaches -/
theorem inv_after_call {F : Fam} {k : Sink} {repl : Bool} (P : Potential F k repl) (L : Laws F)
    (s : F.σ) (src : List Nat) (last : Bool) (budget : Budget)
    (hi : P.Inv s) (hb : ∀ b ∈ src, b < 256) : P.Inv (call F k s src last budget).st :=
  (call_bound P L last src s budget hi hb).1

/-! ## A first instance, end to end: x-user-defined → UTF-16 (`max_utf16_buffer_length = byte_length`) -/

theorem userDefined_units16 (b : Nat) (hb : b < 256) :
    unitsOfList .utf16 (userDefinedFeed () b).out = 1 := by
  unfold userDefinedFeed
  split <;> simp [FeedRes.ok, unitsOfList, unitsOf] <;> omega

def userDefinedPot16 : Potential userDefinedFam .utf16 true where
  Inv := fun _ => True
  Φ := fun _ n => n
  inv_step := fun _ _ _ _ _ => trivial
  inv_pend := fun _ _ _ _ _ => trivial
  inv_eof := fun _ _ _ _ _ => trivial
  need_le := by intro s b n _ _ _; show needBmp .utf16 ≤ n + 1; simp [needBmp]
  step_ok := by
    intro s b n _ _ hb _
    have := userDefined_units16 b hb
    show unitsOfList .utf16 (userDefinedFeed () b).out + n ≤ n + 1
    omega
  step_err := by
    intro _ s b n e _ _ _ he
    exfalso
    have : (userDefinedFeed s b).err = none := by unfold userDefinedFeed; split <;> rfl
    rw [show (userDefinedFam.feed s b).err = (userDefinedFeed s b).err from rfl, this] at he
    cases he
  pend_le := by intro s o s' n _ h; cases h
  eof_le := by intro s e s' _ _ h; cases h
  alt_le := by intro _ s src m r _ _ h; cases h
  alt_inv := by intro s src m r _ h; cases h

/-- `UserDefinedDecoder::max_utf16_buffer_length` as translated returns exactly `n`;
a destination that large is never reported full. -/
theorem userDefined_utf16_sufficient (src : List Nat) (last : Bool) (budget : Budget) (cap Q : Nat)
    (hb : ∀ b ∈ src, b < 256)
    (hq : userDefinedMaxUtf16BufferLength () src.length = some Q) (hcap : Q ≤ cap)
    (hadm : Admissible userDefinedFam .utf16 cap (call userDefinedFam .utf16 () src last budget)) :
    (call userDefinedFam .utf16 () src last budget).res ≠ .outputFull := by
  have : Q = src.length := by
    simp only [userDefinedMaxUtf16BufferLength, U.someU, Option.some.injEq] at hq; exact hq.symm
  exact raw_sufficient userDefinedPot16 userDefined_laws () src last budget cap trivial hb
    (by show src.length ≤ cap; omega) hadm

/-- non-vacuity: two bytes into a two-unit buffer is an admissible complete call -/
example : (call userDefinedFam .utf16 () [0x41, 0x80] true .unlimited).res = .inputEmpty ∧
    Admissible userDefinedFam .utf16 2 (call userDefinedFam .utf16 () [0x41, 0x80] true .unlimited) := by
  refine ⟨by decide, by decide, ?_, ?_⟩
  · intro h; exact absurd h (by decide)
  · intro l a h
    have : (call userDefinedFam .utf16 () [0x41, 0x80] true .unlimited).res = .inputEmpty := by decide
    rw [this] at h; cases h

/-! ## Decoder queries: all 13 variant decoders, all three queries, every reachable state -/

open EncodingRs.Lemmas.MaxLenVariant in
/-- **without replacement** (`decode_to_utf16_without_replacement` with `max_utf16_buffer_length`,
`decode_to_utf8_without_replacement` with `max_utf8_buffer_length_without_replacement` — and a fortiori
`max_utf8_buffer_length`): in every state `s` reached from the initial state by any history of calls
(any sinks, chunks, stop policies), a destination of at least the queried size is never reported full. -/
theorem decoder_raw_sufficient (q : Query) (v : Gen.Variant) (s : (famOfVariant v).σ) (hr : Reach v s)
    (src : List Nat) (last : Bool) (budget : Budget) (cap Q : Nat) (hb : ∀ b ∈ src, b < 256)
    (hq : variantMax q v s src.length = some Q) (hcap : Q ≤ cap)
    (hadm : Admissible (famOfVariant v) (sinkOf q) cap (call (famOfVariant v) (sinkOf q) s src last budget)) :
    (call (famOfVariant v) (sinkOf q) s src last budget).res ≠ .outputFull :=
  reachable_raw_sufficient q v s hr src last budget cap Q hb hq hcap hadm

open EncodingRs.Lemmas.MaxLenVariant in
/-- **with replacement** (`decode_to_utf16` with `max_utf16_buffer_length`, `decode_to_utf8` with
`max_utf8_buffer_length`), however many malformed sequences are replaced -/
theorem decoder_repl_sufficient (q : Query) (hq2 : q = .utf16 ∨ q = .utf8) (v : Gen.Variant)
    (s : (famOfVariant v).σ) (hr : Reach v s) (src : List Nat) (last : Bool) (fuel : Nat)
    (budgets : List Budget) (cap Q : Nat) (t : ReplRes (famOfVariant v).σ) (hb : ∀ b ∈ src, b < 256)
    (hq : variantMax q v s src.length = some Q) (hcap : Q ≤ cap)
    (hadm : ReplAdmissible (famOfVariant v) (sinkOf q) last fuel s src budgets cap)
    (hrun : replLoop (famOfVariant v) (sinkOf q) last fuel s src budgets = some t) :
    t.res ≠ .outputFull :=
  reachable_repl_sufficient q hq2 v s hr src last fuel budgets cap Q t hb hq hcap hadm hrun

open EncodingRs.Lemmas.MaxLenVariant in
/-- the decoder queries return the exact value, or `none` exactly when the arithmetic exceeds `usize::MAX` -/
theorem decoder_query_exact (q : Query) (v : Gen.Variant) (s : (famOfVariant v).σ) (n : Nat) :
    variantMax q v s n = if variantOvf q v s n ≤ usizeMax then some (variantNat q v s n) else none :=
  variantMax_exact q v s n

/-! ## Encoder queries (all encoder families, both source forms, every state) -/

open EncodingRs.Lemmas.EncPotential EncodingRs.Lemmas.EncMaxLenArith EncodingRs.Lemmas.EncMaxLenVariant in
/-- `max_buffer_length_from_utf{8,16}_without_replacement`: a destination that large is never
reported full by `encode_from_utf{8,16}_without_replacement`, in any encoder state (ISO-2022-JP:
Ascii, Roman, JIS X 0208), for any stop policy. -/
theorem encoder_raw_sufficient (utf16 : Bool) (v : Gen.Variant) (s : (efamOfVariant v).σ) (src : List Nat)
    (last : Bool) (budget : Budget) (cap Q : Nat) (hsrc : SrcOK utf16 src)
    (hq : encMaxNoRepl utf16 v src.length = some Q) (hcap : Q ≤ cap)
    (hadm : EAdmissible (efamOfVariant v) cap (ecall (efamOfVariant v) utf16 s src last budget)) :
    (ecall (efamOfVariant v) utf16 s src last budget).res ≠ .outputFull :=
  enc_raw_sufficient utf16 v s src last budget cap Q hsrc hq hcap hadm

open EncodingRs.Lemmas.EncPotential EncodingRs.Lemmas.EncMaxLenArith EncodingRs.Lemmas.EncMaxLenVariant in
/-- `max_buffer_length_from_utf{8,16}_if_no_unmappables`: when no character of the input is unmappable
the with-replacement method never reports `OutputFull` for a destination that large. -/
theorem encoder_repl_sufficient (utf16 : Bool) (v : Gen.Variant) (s : (efamOfVariant v).σ) (src : List Nat)
    (last : Bool) (budgets : List Budget) (cap fuel Q : Nat) (t : EReplRes (efamOfVariant v).σ)
    (hsrc : SrcOK utf16 src)
    (hq : encMaxIfNoUnmappables utf16 v src.length = some Q) (hcap : Q ≤ cap)
    (h : encRepl (efamOfVariant v) (canEncodeEverything v) Gen.ncrExtra utf16 last cap fuel s src budgets = some t)
    (hadm : InnerAdmissible t.inner)
    (hchars : NoUnmappableChars (efamOfVariant v) (itemsOfSrc utf16 src)) : t.res ≠ .outputFull :=
  enc_repl_sufficient utf16 v s src last budgets cap fuel Q t hsrc hq hcap h hadm hchars

open EncodingRs.Lemmas.EncMaxLenArith in
/-- the encoder queries return the exact value or `none`, never a wrapped number -/
theorem encoder_query_exact (utf16 : Bool) (v : Gen.Variant) (n Q : Nat) (hn : n ≤ usizeMax) :
    encMaxNoRepl utf16 v n = some Q ↔ (Q = encMaxNat utf16 v n ∧ encMaxNat utf16 v n ≤ usizeMax) :=
  encMaxNoRepl_eq_some utf16 v n Q hn

end EncodingRs.Thm.C07
