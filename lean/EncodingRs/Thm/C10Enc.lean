import EncodingRs.Thm.C10Final
/-!
# C10 — `Decoder::encoding()` after the stream

`curTag d.cur` is what `Decoder::encoding()` answers (the nominal encoding, or the one a BOM switched
to).  `drefTag d rem` is the *documented* answer for a decoder in life-cycle state `d` given the rest
of the stream: a sniffing decoder switches exactly for the three BOMs, a BOM-removal decoder for its
own BOM (which leaves the encoding unchanged: `Cur.utf8` with nominal UTF-8 is UTF-8), otherwise the
nominal encoding stays.  `rawCall_tsound`: every call preserves `drefTag`; `dhist_tag`: every
history ends with `encoding() = drefTag` of the initial state and the whole stream, however the first
bytes are split.
-/
namespace EncodingRs.Thm.C10
open EncodingRs EncodingRs.Model EncodingRs.Lemmas.Core EncodingRs.Lemmas.FamLaws EncodingRs.Lemmas.Life

variable {F : Fam}

inductive EncTag | nominal | utf8 | utf16be | utf16le
deriving DecidableEq, Repr

/-- `Decoder::encoding()`, up to the identity of the nominal encoding -/
def curTag : Cur F → EncTag
  | .nominal _ => .nominal
  | .utf8 _ => .utf8
  | .utf16be _ => .utf16be
  | .utf16le _ => .utf16le

/-- `encoding()` as an `Encoding` tag: the nominal encoding `nom` unless a BOM switched the decoder -/
def encodingOf (nom : Nominal) : EncTag → Nominal
  | .nominal => nom
  | .utf8 => .utf8
  | .utf16be => .utf16be
  | .utf16le => .utf16le

def tsniff8 (c : Cur F) (rem : List Nat) : EncTag :=
  match rem with
  | 0xEF :: 0xBB :: 0xBF :: _ => .utf8
  | _ => curTag c

def tagOf16 (be : Bool) : EncTag := if be then .utf16be else .utf16le

def tsniff16 (be : Bool) (c : Cur F) (rem : List Nat) : EncTag :=
  match rem with
  | x :: y :: _ => if x = bom1 be ∧ y = bom2 be then tagOf16 be else curTag c
  | _ => curTag c

def tafter8First (c : Cur F) (rem : List Nat) : EncTag :=
  match rem with
  | 0xBB :: 0xBF :: _ => .utf8
  | _ => curTag c

/-- the documented final `encoding()` of a decoder in state `d` when the rest of the stream is `rem` -/
def drefTag (d : Decoder F) (rem : List Nat) : EncTag :=
  match d.life with
  | .converting | .finished | .convertingWithPendingBB => curTag d.cur
  | .atStart =>
    match rem with
    | 0xEF :: 0xBB :: 0xBF :: _ => .utf8
    | 0xFE :: 0xFF :: _ => .utf16be
    | 0xFF :: 0xFE :: _ => .utf16le
    | _ => curTag d.cur
  | .atUtf8Start => tsniff8 d.cur rem
  | .atUtf16BeStart => tsniff16 true d.cur rem
  | .atUtf16LeStart => tsniff16 false d.cur rem
  | .seenUtf8First => tafter8First d.cur rem
  | .seenUtf8Second =>
    match rem with
    | 0xBF :: _ => .utf8
    | _ => curTag d.cur
  | .seenUtf16BeFirst =>
    match rem with
    | 0xFF :: _ => .utf16be
    | _ => curTag d.cur
  | .seenUtf16LeFirst =>
    match rem with
    | 0xFE :: _ => .utf16le
    | _ => curTag d.cur

def TSound (src rest : List Nat) (t0 : EncTag) : DRes F → Prop
  | .panic => True
  | .ok _ read _ d' _ => drefTag d' (src.drop read ++ rest) = t0

theorem cur_call_tag (k : Sink) (c : Cur F) (src : List Nat) (last : Bool) (b : Budget) :
    curTag (c.call k src last b).cur = curTag c := by
  cases c <;> rfl

theorem settled_tag (d : Decoder F) (rem : List Nat) (h : sniffingLife d.life = false) :
    drefTag d rem = curTag d.cur := by
  obtain ⟨life, c⟩ := d
  cases life <;> first | rfl | cases h

/-- results of the paths that hand bytes to a variant decoder: the decoder is no longer sniffing
and its current decoder has tag `t` -/
def STag (t : EncTag) : DRes F → Prop
  | .panic => True
  | .ok _ _ _ d' _ => sniffingLife d'.life = false ∧ curTag d'.cur = t

theorem STag.tsound {t : EncTag} {r : DRes F} (src rest : List Nat) (h : STag t r) : TSound src rest t r := by
  cases r with
  | panic => trivial
  | ok res read out d' inner =>
    obtain ⟨h1, h2⟩ := h
    show drefTag d' _ = t
    rw [settled_tag d' _ h1, h2]

theorem checkingEnd_stag (k : Sink) (c : Cur F) (src : List Nat) (last : Bool) (b : Budget) (offset : Nat)
    (pre : List (List Nat × Res × Nat)) (preOut : List Nat) :
    STag (curTag c) (checkingEnd k c src last b offset pre preOut) := by
  unfold checkingEnd STag
  simp only
  exact ⟨by split <;> rfl, cur_call_tag ..⟩

theorem afterOne_stag (k : Sink) (c : Cur F) (src : List Nat) (last : Bool) (fb : Nat) (b1 b2 : Budget) :
    STag (curTag c) (afterOne k c src last fb b1 b2) := by
  unfold afterOne
  simp only
  have ht := cur_call_tag k c [fb] false b1
  split
  · rw [← ht]; exact checkingEnd_stag ..
  · exact ⟨rfl, ht⟩
  · split
    · exact ⟨rfl, ht⟩
    · trivial

theorem afterTwo_stag (k : Sink) (c : Cur F) (src : List Nat) (last : Bool) (b1 b2 : Budget) :
    STag (curTag c) (afterTwo k c src last b1 b2) := by
  unfold afterTwo
  simp only
  have ht := cur_call_tag k c [0xEF, 0xBB] false b1
  split
  · rw [← ht]; exact checkingEnd_stag ..
  · split
    · exact ⟨rfl, ht⟩
    · exact ⟨rfl, ht⟩
  · split
    · exact ⟨rfl, ht⟩
    · trivial

theorem checkingEnd_tag8 (k : Sink) (src rest : List Nat) (last : Bool) (b : Budget) (offset : Nat) :
    TSound (F := F) src rest .utf8 (checkingEnd k (.utf8 utf8Fam.init) src last b offset [] []) :=
  (checkingEnd_stag k (.utf8 utf8Fam.init : Cur F) src last b offset [] []).tsound src rest

theorem checkingEnd_tag16 (be : Bool) (k : Sink) (src rest : List Nat) (last : Bool) (b : Budget) (offset : Nat) :
    TSound (F := F) src rest (tagOf16 be)
      (checkingEnd k (if be then .utf16be (utf16Fam true).init else .utf16le (utf16Fam false).init) src last b
        offset [] []) := by
  cases be with
  | true => exact (checkingEnd_stag k (.utf16be (utf16Fam true).init : Cur F) src last b offset [] []).tsound src rest
  | false => exact (checkingEnd_stag k (.utf16le (utf16Fam false).init : Cur F) src last b offset [] []).tsound src rest

/-- the not-`last`, ran-out-of-input exit -/
theorem wait_tsound (d' : Decoder F) (src rest : List Nat) (n : Nat) (t0 : EncTag)
    (hn : src.length = n) (h : drefTag d' rest = t0) :
    TSound src rest t0 (.ok .inputEmpty n [] d' []) := by
  unfold TSound
  simp only
  rw [← hn, List.drop_length, List.nil_append]
  exact h

theorem tsniff8_not_ef (c : Cur F) (x : Nat) (t : List Nat) (hx : x ≠ 0xEF) :
    tsniff8 c (x :: t) = curTag c := by
  unfold tsniff8
  split
  · rename_i heq; simp only [List.cons.injEq] at heq; exact absurd heq.1 hx
  · rfl

theorem tsniff16_not_bom (be : Bool) (c : Cur F) (x : Nat) (t : List Nat) (hx : x ≠ bom1 be) :
    tsniff16 be c (x :: t) = curTag c := by
  unfold tsniff16
  cases t with
  | nil => rfl
  | cons y t =>
    simp only
    have : ¬ (x = bom1 be ∧ y = bom2 be) := fun h => hx h.1
    simp [this]

/-- `SeenUtf8Second` reached inside this call with `EF BB` at the start of `src` (offset 2) -/
theorem second2_tsound (k : Sink) (d : Decoder F) (r2 rest : List Nat) (last : Bool)
    (b1 b2 : Budget) (hl : last = true → rest = []) :
    TSound (0xEF :: 0xBB :: r2) rest (tsniff8 d.cur (0xEF :: 0xBB :: r2 ++ rest))
      (Decoder.rawCall.seenUtf8Second k d (0xEF :: 0xBB :: r2) last b1 b2 2 r2) := by
  unfold Decoder.rawCall.seenUtf8Second
  split
  · cases last with
    | true =>
      have hrest : rest = [] := hl rfl
      subst hrest
      simp only [if_true, show (2 : Nat) ≠ 1 from by decide, if_false]
      have := (checkingEnd_stag k d.cur [0xEF, 0xBB] true b2 0 [] []).tsound [0xEF, 0xBB] []
      simpa [tsniff8] using this
    | false =>
      simp only [Bool.false_eq_true, if_false]
      apply wait_tsound _ _ _ 2 _ rfl
      simp only [drefTag, tsniff8, List.nil_append, List.cons_append]
      split <;> simp_all
  · rename_i t
    have := checkingEnd_tag8 (F := F) k (0xEF :: 0xBB :: 0xBF :: t) rest last b2 3
    simpa [tsniff8] using this
  · rename_i x hx1 hx2
    simp only [show (2 : Nat) ≠ 1 from by decide, if_false]
    have := (checkingEnd_stag k d.cur (0xEF :: 0xBB :: r2) last b2 0 [] []).tsound (0xEF :: 0xBB :: r2) rest
    have e : tsniff8 d.cur (0xEF :: 0xBB :: r2 ++ rest) = curTag d.cur := by
      unfold tsniff8
      cases r2 with
      | nil => exact absurd rfl hx1
      | cons y t =>
        simp only [List.cons_append]
        split
        · rename_i heq
          simp only [List.cons.injEq, true_and] at heq
          exact absurd (by rw [heq.1]) (hx2 t)
        · rfl
    rw [e]; exact this

/-- `SeenUtf8Second` reached inside this call with `BB` at the start of `src` (`EF` withheld; offset 1) -/
theorem second1_tsound (k : Sink) (d : Decoder F) (r2 rest : List Nat) (last : Bool)
    (b1 b2 : Budget) (hl : last = true → rest = []) :
    TSound (0xBB :: r2) rest (tafter8First d.cur (0xBB :: r2 ++ rest))
      (Decoder.rawCall.seenUtf8Second k d (0xBB :: r2) last b1 b2 1 r2) := by
  unfold Decoder.rawCall.seenUtf8Second
  split
  · cases last with
    | true =>
      have hrest : rest = [] := hl rfl
      subst hrest
      simp only [if_true]
      have := (afterOne_stag k d.cur [0xBB] true 0xEF b1 b2).tsound [0xBB] []
      simpa [tafter8First] using this
    | false =>
      simp only [Bool.false_eq_true, if_false]
      apply wait_tsound _ _ _ 1 _ rfl
      simp only [drefTag, tafter8First, List.nil_append, List.cons_append]
      split <;> simp_all
  · rename_i t
    have := checkingEnd_tag8 (F := F) k (0xBB :: 0xBF :: t) rest last b2 2
    simpa [tafter8First] using this
  · rename_i x hx1 hx2
    simp only [if_true]
    have := (afterOne_stag k d.cur (0xBB :: r2) last 0xEF b1 b2).tsound (0xBB :: r2) rest
    have e : tafter8First d.cur (0xBB :: r2 ++ rest) = curTag d.cur := by
      unfold tafter8First
      cases r2 with
      | nil => exact absurd rfl hx1
      | cons y t =>
        simp only [List.cons_append]
        split
        · rename_i heq
          simp only [List.cons.injEq, true_and] at heq
          exact absurd (by rw [heq.1]) (hx2 t)
        · rfl
    rw [e]; exact this

/-- `SeenUtf8First` reached inside this call: `src` starts with `EF` -/
theorem first_tsound (k : Sink) (d : Decoder F) (r1 rest : List Nat) (last : Bool)
    (b1 b2 : Budget) (hl : last = true → rest = []) :
    TSound (0xEF :: r1) rest (tsniff8 d.cur (0xEF :: r1 ++ rest))
      (Decoder.rawCall.seenUtf8First k d (0xEF :: r1) last b1 b2 r1) := by
  unfold Decoder.rawCall.seenUtf8First
  split
  · cases last with
    | true =>
      have hrest : rest = [] := hl rfl
      subst hrest
      simp only [if_true]
      have := (checkingEnd_stag k d.cur [0xEF] true b2 0 [] []).tsound [0xEF] []
      simpa [tsniff8] using this
    | false =>
      simp only [Bool.false_eq_true, if_false]
      apply wait_tsound _ _ _ 1 _ rfl
      simp only [drefTag, tsniff8, tafter8First, List.nil_append, List.cons_append]
      split <;> simp_all
  · rename_i r2
    exact second2_tsound k d r2 rest last b1 b2 hl
  · rename_i x hx1 hx2
    have := (checkingEnd_stag k d.cur (0xEF :: r1) last b2 0 [] []).tsound (0xEF :: r1) rest
    have e : tsniff8 d.cur (0xEF :: r1 ++ rest) = curTag d.cur := by
      unfold tsniff8
      cases r1 with
      | nil => exact absurd rfl hx1
      | cons y t =>
        simp only [List.cons_append]
        split
        · rename_i heq
          simp only [List.cons.injEq, true_and] at heq
          exact absurd (by rw [heq.1]) (hx2 _)
        · rfl
    rw [e]; exact this

/-- `SeenUtf16{Be,Le}First` reached inside this call: `src` starts with the first BOM byte -/
theorem first16_tsound (be : Bool) (k : Sink) (d : Decoder F) (r1 rest : List Nat)
    (last : Bool) (b2 : Budget) (hl : last = true → rest = []) :
    TSound (bom1 be :: r1) rest (tsniff16 be d.cur (bom1 be :: r1 ++ rest))
      (Decoder.rawCall.seenUtf16First k d (bom1 be :: r1) last b2 be r1) := by
  unfold Decoder.rawCall.seenUtf16First
  split
  · cases last with
    | true =>
      have hrest : rest = [] := hl rfl
      subst hrest
      simp only [if_true]
      have := (checkingEnd_stag k d.cur [bom1 be] true b2 0 [] []).tsound [bom1 be] []
      simpa [tsniff16] using this
    | false =>
      simp only [Bool.false_eq_true, if_false]
      apply wait_tsound _ _ _ 1 _ rfl
      cases be <;>
      · simp only [drefTag, tsniff16, bom1, bom2, tagOf16, List.nil_append, List.cons_append, if_true,
          Bool.false_eq_true, if_false]
        cases rest with
        | nil => simp
        | cons y t =>
          simp only [true_and]
          split <;> simp_all
  · rename_i y t
    cases be with
    | true =>
      simp only [if_true, bom1]
      by_cases hy : y = 0xFF
      · subst hy
        simp only [if_true]
        have := checkingEnd_tag16 (F := F) true k (0xFE :: 0xFF :: t) rest last b2 2
        simpa [tsniff16, bom1, bom2, tagOf16] using this
      · simp only [hy, if_false]
        have := (checkingEnd_stag k d.cur (0xFE :: y :: t) last b2 0 [] []).tsound (0xFE :: y :: t) rest
        simpa [tsniff16, bom1, bom2, hy] using this
    | false =>
      simp only [Bool.false_eq_true, if_false, bom1]
      by_cases hy : y = 0xFE
      · subst hy
        simp only [if_true]
        have := checkingEnd_tag16 (F := F) false k (0xFF :: 0xFE :: t) rest last b2 2
        simpa [tsniff16, bom1, bom2, tagOf16] using this
      · simp only [hy, if_false]
        have := (checkingEnd_stag k d.cur (0xFF :: y :: t) last b2 0 [] []).tsound (0xFF :: y :: t) rest
        simpa [tsniff16, bom1, bom2, hy] using this

theorem drefTag_atStart_ef (c : Cur F) (lst : List Nat) :
    drefTag ⟨.atStart, c⟩ (0xEF :: lst) = tsniff8 c (0xEF :: lst) := by
  simp only [drefTag, tsniff8]
  split <;> simp_all

theorem drefTag_atStart_be (c : Cur F) (lst : List Nat) :
    drefTag ⟨.atStart, c⟩ (0xFE :: lst) = tsniff16 true c (0xFE :: lst) := by
  cases lst with
  | nil => rfl
  | cons y t =>
    by_cases hy : y = 0xFF
    · subst hy; simp [drefTag, tsniff16, bom1, bom2, tagOf16]
    · simp only [drefTag, tsniff16, bom1, bom2, if_true, true_and, hy, if_false]
      split
      · rename_i heq; simp at heq
      · rename_i heq; simp only [List.cons.injEq] at heq; exact absurd heq.2.1 hy
      · rename_i heq; simp at heq
      · rfl

theorem drefTag_atStart_le (c : Cur F) (lst : List Nat) :
    drefTag ⟨.atStart, c⟩ (0xFF :: lst) = tsniff16 false c (0xFF :: lst) := by
  cases lst with
  | nil => rfl
  | cons y t =>
    by_cases hy : y = 0xFE
    · subst hy; simp [drefTag, tsniff16, bom1, bom2, tagOf16]
    · simp only [drefTag, tsniff16, bom1, bom2, Bool.false_eq_true, if_false, true_and, hy]
      split
      · rename_i heq; simp at heq
      · rename_i heq; simp at heq
      · rename_i heq; simp only [List.cons.injEq] at heq; exact absurd heq.2.1 hy
      · rfl

/-- **every `Decoder` call preserves the documented final `encoding()`** -/
theorem rawCall_tsound (k : Sink) (d : Decoder F) (src rest : List Nat) (last : Bool) (b1 b2 : Budget)
    (hl : last = true → rest = []) :
    TSound src rest (drefTag d (src ++ rest)) (d.rawCall k src last b1 b2) := by
  obtain ⟨life, c⟩ := d
  cases life
  case converting =>
    unfold Decoder.rawCall
    exact (checkingEnd_stag k c src last b2 0 [] []).tsound src rest
  case finished => unfold Decoder.rawCall; simp only []; trivial
  case convertingWithPendingBB =>
    unfold Decoder.rawCall
    exact (afterOne_stag k c src last 0xBB b1 b2).tsound src rest
  case atStart =>
    unfold Decoder.rawCall; simp only
    split
    · apply wait_tsound _ _ _ 0 _ rfl; rfl
    · rename_i r1
      rw [List.cons_append, drefTag_atStart_ef]
      exact first_tsound k ⟨.atStart, c⟩ r1 rest last b1 b2 hl
    · rename_i r1
      rw [List.cons_append, drefTag_atStart_be]
      exact first16_tsound true k ⟨.atStart, c⟩ r1 rest last b2 hl
    · rename_i r1
      rw [List.cons_append, drefTag_atStart_le]
      exact first16_tsound false k ⟨.atStart, c⟩ r1 rest last b2 hl
    · rename_i x h1 h2 h3 h4
      have := (checkingEnd_stag k c src last b2 0 [] []).tsound src rest
      have e : drefTag ⟨.atStart, c⟩ (src ++ rest) = curTag c := by
        cases src with
        | nil => exact absurd rfl h1
        | cons x t =>
          simp only [drefTag, List.cons_append]
          split
          · rename_i heq; simp only [List.cons.injEq] at heq; exact absurd (by rw [heq.1]) (h2 t)
          · rename_i heq; simp only [List.cons.injEq] at heq; exact absurd (by rw [heq.1]) (h3 t)
          · rename_i heq; simp only [List.cons.injEq] at heq; exact absurd (by rw [heq.1]) (h4 t)
          · rfl
      rw [e]; exact this
  case atUtf8Start =>
    unfold Decoder.rawCall; simp only
    split
    · apply wait_tsound _ _ _ 0 _ rfl; rfl
    · rename_i r1
      exact first_tsound k ⟨.atUtf8Start, c⟩ r1 rest last b1 b2 hl
    · rename_i x h1 h2
      have := (checkingEnd_stag k c src last b2 0 [] []).tsound src rest
      have e : drefTag ⟨.atUtf8Start, c⟩ (src ++ rest) = curTag c := by
        cases src with
        | nil => exact absurd rfl h1
        | cons x t =>
          have hx : x ≠ 0xEF := fun h => h2 t (by rw [h])
          exact tsniff8_not_ef c x (t ++ rest) hx
      rw [e]; exact this
  case atUtf16BeStart =>
    unfold Decoder.rawCall; simp only
    split
    · apply wait_tsound _ _ _ 0 _ rfl; rfl
    · rename_i r1
      exact first16_tsound true k ⟨.atUtf16BeStart, c⟩ r1 rest last b2 hl
    · rename_i x h1 h2
      have := (checkingEnd_stag k c src last b2 0 [] []).tsound src rest
      have e : drefTag ⟨.atUtf16BeStart, c⟩ (src ++ rest) = curTag c := by
        cases src with
        | nil => exact absurd rfl h1
        | cons x t =>
          have hx : x ≠ bom1 true := fun h => h2 t (by rw [h]; rfl)
          exact tsniff16_not_bom true c x (t ++ rest) hx
      rw [e]; exact this
  case atUtf16LeStart =>
    unfold Decoder.rawCall; simp only
    split
    · apply wait_tsound _ _ _ 0 _ rfl; rfl
    · rename_i r1
      exact first16_tsound false k ⟨.atUtf16LeStart, c⟩ r1 rest last b2 hl
    · rename_i x h1 h2
      have := (checkingEnd_stag k c src last b2 0 [] []).tsound src rest
      have e : drefTag ⟨.atUtf16LeStart, c⟩ (src ++ rest) = curTag c := by
        cases src with
        | nil => exact absurd rfl h1
        | cons x t =>
          have hx : x ≠ bom1 false := fun h => h2 t (by rw [h]; rfl)
          exact tsniff16_not_bom false c x (t ++ rest) hx
      rw [e]; exact this
  case seenUtf8First =>
    unfold Decoder.rawCall; simp only
    split
    · cases last with
      | true =>
        have hrest : rest = [] := hl rfl
        subst hrest
        simp only [if_true]
        exact (afterOne_stag k c [] true 0xEF b1 b2).tsound [] []
      | false =>
        simp only [Bool.false_eq_true, if_false]
        apply wait_tsound _ _ _ 0 _ rfl; rfl
    · rename_i r2
      exact second1_tsound k ⟨.seenUtf8First, c⟩ r2 rest last b1 b2 hl
    · rename_i x h1 h2
      have := (afterOne_stag k c src last 0xEF b1 b2).tsound src rest
      have e : drefTag ⟨.seenUtf8First, c⟩ (src ++ rest) = curTag c := by
        cases src with
        | nil => exact absurd rfl h1
        | cons x t =>
          simp only [drefTag, tafter8First, List.cons_append]
          split
          · rename_i heq; simp only [List.cons.injEq] at heq; exact absurd (by rw [heq.1]) (h2 t)
          · rfl
      rw [e]; exact this
  case seenUtf8Second =>
    unfold Decoder.rawCall; simp only
    split
    · cases last with
      | true =>
        have hrest : rest = [] := hl rfl
        subst hrest
        simp only [if_true]
        exact (afterTwo_stag k c [] true b1 b2).tsound [] []
      | false =>
        simp only [Bool.false_eq_true, if_false]
        apply wait_tsound _ _ _ 0 _ rfl; rfl
    · rename_i t
      have := checkingEnd_tag8 (F := F) k (0xBF :: t) rest last b2 1
      simpa [drefTag] using this
    · rename_i x h1 h2
      have := (afterTwo_stag k c src last b1 b2).tsound src rest
      have e : drefTag ⟨.seenUtf8Second, c⟩ (src ++ rest) = curTag c := by
        cases src with
        | nil => exact absurd rfl h1
        | cons x t =>
          simp only [drefTag, List.cons_append]
          split
          · rename_i heq; simp only [List.cons.injEq] at heq; exact absurd (by rw [heq.1]) (h2 t)
          · rfl
      rw [e]; exact this
  case seenUtf16BeFirst =>
    unfold Decoder.rawCall; simp only
    split
    · cases last with
      | true =>
        have hrest : rest = [] := hl rfl
        subst hrest
        simp only [if_true]
        exact (afterOne_stag k c [] true 0xFE b1 b2).tsound [] []
      | false =>
        simp only [Bool.false_eq_true, if_false]
        apply wait_tsound _ _ _ 0 _ rfl; rfl
    · rename_i t
      have := checkingEnd_tag16 (F := F) true k (0xFF :: t) rest last b2 1
      simpa [drefTag, tagOf16] using this
    · rename_i x h1 h2
      have := (afterOne_stag k c src last 0xFE b1 b2).tsound src rest
      have e : drefTag ⟨.seenUtf16BeFirst, c⟩ (src ++ rest) = curTag c := by
        cases src with
        | nil => exact absurd rfl h1
        | cons x t =>
          simp only [drefTag, List.cons_append]
          split
          · rename_i heq; simp only [List.cons.injEq] at heq; exact absurd (by rw [heq.1]) (h2 t)
          · rfl
      rw [e]; exact this
  case seenUtf16LeFirst =>
    unfold Decoder.rawCall; simp only
    split
    · cases last with
      | true =>
        have hrest : rest = [] := hl rfl
        subst hrest
        simp only [if_true]
        exact (afterOne_stag k c [] true 0xFF b1 b2).tsound [] []
      | false =>
        simp only [Bool.false_eq_true, if_false]
        apply wait_tsound _ _ _ 0 _ rfl; rfl
    · rename_i t
      have := checkingEnd_tag16 (F := F) false k (0xFE :: t) rest last b2 1
      simpa [drefTag, tagOf16] using this
    · rename_i x h1 h2
      have := (afterOne_stag k c src last 0xFF b1 b2).tsound src rest
      have e : drefTag ⟨.seenUtf16LeFirst, c⟩ (src ++ rest) = curTag c := by
        cases src with
        | nil => exact absurd rfl h1
        | cons x t =>
          simp only [drefTag, List.cons_append]
          split
          · rename_i heq; simp only [List.cons.injEq] at heq; exact absurd (by rw [heq.1]) (h2 t)
          · rfl
      rw [e]; exact this

/-- after the call that ends the stream, `drefTag` of what is left is `encoding()` itself -/
theorem drefTag_final (k : Sink) (d d' : Decoder F) (rem : List Nat) (b1 b2 : Budget) (read : Nat)
    (out : List Nat) (inner : List (List Nat × Res × Nat))
    (h : d.rawCall k rem true b1 b2 = .ok .inputEmpty read out d' inner) :
    drefTag d' (rem.drop read) = curTag d'.cur := by
  have hs := rawCall_shape k d rem true b1 b2
  rw [h] at hs
  rcases hs.2 rfl rfl with hfin | ⟨hd, hst, hrem⟩
  · exact settled_tag _ _ (by rw [hfin]; rfl)
  · rw [hd, hrem, List.drop_nil]
    obtain ⟨life, c⟩ := d
    cases life <;> first | rfl | cases hst

/-- **`encoding()` at the end of any history is the documented one**: it depends only on the initial
life-cycle state and the stream, not on how the first bytes were split, the capacities or the sinks. -/
theorem dhist_tag (d : Decoder F) (pos : Nat) (rem : List Nat) (e : List Ev) (dfin : Decoder F)
    (h : DHist d pos rem e dfin) : curTag dfin.cur = drefTag d rem := by
  induction h with
  | final k d pos rem b1 b2 read out d' inner _ hcall =>
    have hs := rawCall_tsound k d rem [] true b1 b2 (fun _ => rfl)
    rw [hcall] at hs
    simp only [TSound, List.append_nil] at hs
    rw [← hs, drefTag_final k d d' rem b1 b2 read out inner hcall]
  | lastStep k d pos rem b1 b2 res read out d' inner evs' dfin _ hcall _ _ ih =>
    have hs := rawCall_tsound k d rem [] true b1 b2 (fun _ => rfl)
    rw [hcall] at hs
    simp only [TSound, List.append_nil] at hs
    rw [ih, hs]
  | chunkStep k d pos src rest b1 b2 res read out d' inner evs' dfin _ hcall _ ih =>
    have hs := rawCall_tsound k d src rest false b1 b2 (fun h => by cases h)
    rw [hcall] at hs
    simp only [TSound] at hs
    rw [ih, hs]

/-- what the documentation says about a fresh sniffing decoder -/
theorem drefTag_sniff (nom : Nominal) (stream : List Nat) :
    drefTag (Decoder.new F nom .sniff) stream =
      match forBom stream with
      | some (.utf8, _) => .utf8
      | some (.utf16be, _) => .utf16be
      | some (.utf16le, _) => .utf16le
      | _ => .nominal := by
  simp only [Decoder.new, drefTag, forBom]
  split <;> simp_all [curTag]

/-- a decoder without BOM handling never switches -/
theorem drefTag_off (nom : Nominal) (stream : List Nat) :
    drefTag (Decoder.new F nom .off) stream = .nominal := rfl

/-- BOM removal never changes the encoding (`Cur.utf8` *is* the nominal encoding then) -/
theorem drefTag_remove (nom : Nominal) (stream : List Nat) :
    encodingOf nom (drefTag (Decoder.new F nom .remove) stream) = nom := by
  cases nom
  · simp only [Decoder.new, drefTag, tsniff8]; split <;> rfl
  · simp only [Decoder.new, drefTag, tsniff16]
    split
    · split <;> rfl
    · rfl
  · simp only [Decoder.new, drefTag, tsniff16]
    split
    · split <;> rfl
    · rfl
  · rfl

end EncodingRs.Thm.C10
