import EncodingRs.Lemmas.MaxLenVariant
/-!
# C06 — decoder side: an admissible stop policy exists for every capacity (non-vacuity of `Admissible`)

The decoder theorems of C06/C07/C08 are stated for *every* stop decision (`Budget`) of a raw call
that satisfies the side conditions `Model.Admissible` (the output fits; an `OutputFull` stop is
justified by lack of the space asked for; a `Malformed` return leaves room for U+FFFD).  This file
shows that the hypothesis is never vacuous: for every variant decoder, every state satisfying the
state invariant (every reachable state does), every source of bytes, `last` flag and every
capacity that is at least the documented minimum (`minCap`: 4 bytes of UTF-8, 2 units of UTF-16),
**some** budget makes the call admissible (`exists_admissible_variant`,
`exists_admissible_reachable`).  It is the decoder analogue of `Thm.C06Enc.exists_admissible`.

The budget is the one of the scheme the Rust follows: before each byte compare the free space with
`F.need k s b`; stop with `OutputFull` at the first byte where less is free; otherwise never stop
(at the end of the stream stop iff an error is pending and less than `F.eofNeed k` is free).  The
induction (`run_exists`) carries the invariant "what has been written, plus `eofRoom` of the current
state, fits", where `eofRoom` is room for one U+FFFD whenever the stream could end in this state
with an error that is reported without a space check of its own (`F.eofNeed k < replRoom k`).
What a family must satisfy is `StopLaw`: a step that was allowed by the check leaves `eofRoom` of
the next state (no error) resp. room for U+FFFD (error) inside the space that was checked, and the
flush of a delayed output plus `eofRoom` of the flushed state fits `minCap`.

What is **not** claimed here: that the stops of the *real* decoder are admissible (that is the
correspondence run of the harness), nor that an admissible budget exists below `minCap`
(`gb18030_cap3_none` at the end of the file: with 3 bytes of UTF-8 no budget is admissible for a
reachable gb18030 state, so the hypothesis `minCap k ≤ cap` cannot be dropped).
-/
namespace EncodingRs.Thm.C06Exists
open EncodingRs EncodingRs.Model EncodingRs.Lemmas.Potential EncodingRs.Lemmas.MaxLenFam
open EncodingRs.Lemmas.MaxLenVariant EncodingRs.Lemmas.FamLaws EncodingRs.Lemmas.Scalar

/-! ## the generic theorem -/

/-- room that has to stay free while the decoder is in state `s`: if the stream can end here with
an error and the end-of-stream block does not check for room itself, the `Malformed` return needs
room for U+FFFD -/
def eofRoom (F : Fam) (k : Sink) (s : F.σ) : Nat :=
  if (F.eof s).isSome = true ∧ F.eofNeed k < replRoom k then replRoom k else 0

theorem eofRoom_le (F : Fam) (k : Sink) (s : F.σ) : eofRoom F k s ≤ replRoom k := by
  unfold eofRoom; split
  · exact Nat.le_refl _
  · exact Nat.zero_le _

theorem eofRoom_of_eof_none (F : Fam) (k : Sink) (s : F.σ) (h : F.eof s = none) : eofRoom F k s = 0 := by
  unfold eofRoom; rw [h]; simp

theorem eofRoom_of_eofNeed (F : Fam) (k : Sink) (s : F.σ) (h : replRoom k ≤ F.eofNeed k) : eofRoom F k s = 0 := by
  unfold eofRoom
  have : ¬ ((F.eof s).isSome = true ∧ F.eofNeed k < replRoom k) := fun h' => absurd h'.2 (by omega)
  simp [this]

theorem replRoom_le_minCap (k : Sink) : replRoom k ≤ minCap k := by cases k <;> decide

/-- what a family has to satisfy for the scheme "stop iff less than `need` is free" to be admissible
(`I`: a state invariant) -/
structure StopLaw (F : Fam) (k : Sink) (I : F.σ → Prop) : Prop where
  inv_step : ∀ s b, I s → F.pend s = none → b < 256 → I (F.feed s b).st
  inv_pend : ∀ s o s', I s → F.pend s = some (o, s') → I s'
  /-- a step without error: what it writes, plus the room the next state needs, was checked -/
  step_ok : ∀ s b, I s → F.pend s = none → b < 256 → (F.feed s b).err = none →
    unitsOfList k (F.feed s b).out + eofRoom F k (F.feed s b).st ≤ F.need k s b
  /-- an error step: what it writes, plus room for U+FFFD, was checked -/
  step_err : ∀ s b e, I s → F.pend s = none → b < 256 → (F.feed s b).err = some e →
    unitsOfList k (F.feed s b).out + replRoom k ≤ F.need k s b
  /-- the flush of a delayed output, plus the room the flushed state needs, fits the documented
  minimum -/
  flush : ∀ s o s', I s → F.pend s = some (o, s') → unitsOfList k o + eofRoom F k s' ≤ minCap k

/-- the budgets the scheme produces -/
def budgetOf : Option Nat → Budget
  | none => .unlimited
  | some n => .full n

theorem budgetOf_succ_isZero (n : Option Nat) : (budgetOf (n.map (· + 1))).isZero = false := by
  cases n <;> simp [budgetOf, Budget.isZero]

theorem budgetOf_succ_dec (n : Option Nat) : (budgetOf (n.map (· + 1))).dec = budgetOf n := by
  cases n <;> simp [budgetOf, Budget.dec]

theorem budgetOf_succ_stopHere (F : Fam) (k : Sink) (s : F.σ) (b : Nat) (rest : List Nat) (n : Option Nat) :
    stopHere F k s b rest (budgetOf (n.map (· + 1))) = none := by
  cases n <;> simp [budgetOf, stopHere]

/-- the three clauses of `Admissible` behind `used` units already written -/
def Fits {σ : Type} (k : Sink) (cap used : Nat) (r : CallRes σ) : Prop :=
  used + unitsOfList k r.out ≤ cap ∧
  (r.res = .outputFull → cap < used + unitsOfList k r.out + r.stopNeed) ∧
  (∀ l a, r.res = .malformed l a → used + unitsOfList k r.out + replRoom k ≤ cap)

theorem fits_inputEmpty {σ : Type} (k : Sink) (cap used rd sn : Nat) (s : σ) (h : used ≤ cap) :
    Fits k cap used (⟨.inputEmpty, rd, [], s, sn⟩ : CallRes σ) := by
  refine ⟨?_, ?_, ?_⟩
  · show used + unitsOfList k [] ≤ cap
    rw [units_nil]; exact h
  · intro h; cases h
  · intro l a h; cases h

theorem fits_malformed {σ : Type} (k : Sink) (cap used rd sn l a : Nat) (out : List Nat) (s : σ)
    (h : used + unitsOfList k out + replRoom k ≤ cap) :
    Fits k cap used (⟨.malformed l a, rd, out, s, sn⟩ : CallRes σ) := by
  refine ⟨?_, ?_, ?_⟩
  · show used + unitsOfList k out ≤ cap
    omega
  · intro h; cases h
  · intro l a _; exact h

theorem fits_full {σ : Type} (k : Sink) (cap used rd sn : Nat) (s : σ) (h1 : used ≤ cap) (h2 : cap < used + sn) :
    Fits k cap used (⟨.outputFull, rd, [], s, sn⟩ : CallRes σ) := by
  refine ⟨?_, ?_, ?_⟩
  · show used + unitsOfList k [] ≤ cap
    rw [units_nil]; exact h1
  · intro _
    show cap < used + unitsOfList k [] + sn
    rw [units_nil]; exact h2
  · intro l a h; cases h

theorem fits_append {σ : Type} (k : Sink) (cap used rd : Nat) (o : List Nat) (st : σ) (t : CallRes σ)
    (h : Fits k cap (used + unitsOfList k o) t) :
    Fits k cap used (⟨t.res, rd, o ++ t.out, st, t.stopNeed⟩ : CallRes σ) := by
  obtain ⟨h1, h2, h3⟩ := h
  refine ⟨?_, ?_, ?_⟩
  · show used + unitsOfList k (o ++ t.out) ≤ cap
    rw [unitsOfList_append]; omega
  · intro hres
    have := h2 hres
    show cap < used + unitsOfList k (o ++ t.out) + t.stopNeed
    rw [unitsOfList_append]; omega
  · intro l a hres
    have := h3 l a hres
    show used + unitsOfList k (o ++ t.out) + replRoom k ≤ cap
    rw [unitsOfList_append]; omega

/-- the main loop under the scheme: from a flushed state, with `used` units written and the room
the state needs still free, some budget makes the rest of the call fit -/
theorem run_exists (F : Fam) (k : Sink) (I : F.σ → Prop) (L : Laws F) (S : StopLaw F k I) (cap : Nat)
    (last : Bool) :
    ∀ (src : List Nat) (s : F.σ) (used : Nat), I s → F.pend s = none → (∀ b ∈ src, b < 256) →
      used + eofRoom F k s ≤ cap →
      ∃ n : Option Nat, Fits k cap used (run F k last s src (budgetOf n)) := by
  intro src
  induction src with
  | nil =>
    intro s used _ _ _ hroom
    have hused : used ≤ cap := by omega
    cases last with
    | false =>
      refine ⟨none, ?_⟩
      simp only [run, Bool.false_eq_true, if_false]
      exact fits_inputEmpty k cap used 0 0 s hused
    | true =>
      cases he : F.eof s with
      | none =>
        refine ⟨none, ?_⟩
        simp only [run, if_true, he]
        exact fits_inputEmpty k cap used 0 0 s hused
      | some p =>
        obtain ⟨e, s'⟩ := p
        by_cases hlt : F.eofNeed k < replRoom k
        · -- no space check at the end of the stream: the invariant left room for U+FFFD
          have hr : eofRoom F k s = replRoom k := by
            unfold eofRoom; rw [he]; simp [hlt]
          refine ⟨none, ?_⟩
          simp only [run, if_true, he, budgetOf, Budget.isZero, Bool.false_eq_true, if_false]
          apply fits_malformed
          rw [units_nil]; omega
        · by_cases hfree : used + F.eofNeed k ≤ cap
          · refine ⟨none, ?_⟩
            simp only [run, if_true, he, budgetOf, Budget.isZero, Bool.false_eq_true, if_false]
            apply fits_malformed
            rw [units_nil]; omega
          · refine ⟨some 0, ?_⟩
            simp only [run, if_true, he, budgetOf, Budget.isZero, beq_self_eq_true]
            exact fits_full k cap used 0 _ s hused (by omega)
  | cons b tl ih =>
    intro s used hi hp hb hroom
    have hb0 : b < 256 := hb b (List.mem_cons_self ..)
    have hbt : ∀ x ∈ tl, x < 256 := fun x hx => hb x (List.mem_cons_of_mem _ hx)
    by_cases hn : used + F.need k s b ≤ cap
    · cases hE : (F.feed s b).err with
      | some e =>
        have hle := S.step_err s b e hi hp hb0 hE
        refine ⟨none, ?_⟩
        rw [run]
        simp only [budgetOf, stopHere, hE]
        apply fits_malformed
        omega
      | none =>
        have hle := S.step_ok s b hi hp hb0 hE
        obtain ⟨n, hfit⟩ := ih (F.feed s b).st (used + unitsOfList k (F.feed s b).out)
          (S.inv_step s b hi hp hb0) (L.pend_err s b hp hE) hbt (by omega)
        refine ⟨n.map (· + 1), ?_⟩
        rw [run, budgetOf_succ_stopHere]
        simp only [hE, budgetOf_succ_dec]
        exact fits_append k cap used _ _ _ _ hfit
    · refine ⟨some 0, ?_⟩
      rw [run]
      simp only [budgetOf, stopHere, if_true]
      exact fits_full k cap used 0 _ s (by omega) (by omega)

theorem admissible_of_fits (F : Fam) (k : Sink) (cap : Nat) (r : CallRes F.σ) (h : Fits k cap 0 r) :
    Admissible F k cap r := by
  obtain ⟨h1, h2, h3⟩ := h
  refine ⟨by omega, ?_, ?_⟩
  · intro hres; have := h2 hres; omega
  · intro l a hres; have := h3 l a hres; omega

/-- **for every capacity ≥ the documented minimum an admissible raw call exists** (every family
satisfying `StopLaw`; all variants: `exists_admissible_variant`) -/
theorem exists_admissible (F : Fam) (k : Sink) (I : F.σ → Prop) (L : Laws F) (S : StopLaw F k I)
    (s : F.σ) (hi : I s) (src : List Nat) (hb : ∀ b ∈ src, b < 256) (last : Bool) (cap : Nat)
    (hcap : minCap k ≤ cap) :
    ∃ budget, Admissible F k cap (Model.call F k s src last budget) := by
  have hrm := replRoom_le_minCap k
  cases hp : F.pend s with
  | none =>
    have hr := eofRoom_le F k s
    obtain ⟨n, hfit⟩ := run_exists F k I L S cap last src s 0 hi hp hb (by omega)
    refine ⟨budgetOf n, ?_⟩
    unfold Model.call
    simp only [hp]
    exact admissible_of_fits F k cap _ hfit
  | some p =>
    obtain ⟨o, s'⟩ := p
    have hfl := S.flush s o s' hi hp
    obtain ⟨n, hfit⟩ := run_exists F k I L S cap last src s' (0 + unitsOfList k o) (S.inv_pend s o s' hi hp)
      (L.pend_once s o s' hp) hb (by omega)
    refine ⟨budgetOf (n.map (· + 1)), ?_⟩
    unfold Model.call
    simp only [hp, budgetOf_succ_isZero, Bool.false_eq_true, if_false, budgetOf_succ_dec]
    exact admissible_of_fits F k cap _ (fits_append k cap 0 _ _ _ _ hfit)

end EncodingRs.Thm.C06Exists
